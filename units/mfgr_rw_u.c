/* Verification unit: hdf/src/mfgr.c -- whole file
 *   C09: region/stride addressing of GRreadimage / GRwriteimage (incl. first-write fill), palette bookkeeping
 *        (GRwritelut / GRreadlut / GRgetlutinfo)
 * The H layer is a ghost model (stub bodies below):
 *   - ONE image element: Hstartaccess/HCcreate/HRPconvert open it at position 0, Hseek moves the position,
 *     Hread copies from the element's bytes g_disk[], Hwrite records for ONE ghost byte offset g_off whether it was written,
 *     the last value written and how often, plus the highest position reached (g_io.end).  A proof for arbitrary g_off is a
 *     proof for every byte of the element.
 *   - ONE palette element: Hputelement/Hgetelement log tag/ref/length and carry one ghost byte g_k.
 * Contracts are value based (what lands where), not call-sequence based: any decomposition into Hseek/Hread/Hwrite calls
 * (whole image, row runs, single pixels) satisfies them as long as the right bytes move. */
#include "h4v.h"
#include "h4v_err.h"
#include <string.h>
#include "mfgr_priv.h"
#include "tbbt_priv.h"

H4V_DECL_ND(int32);
H4V_DECL_ND(int);
H4V_DECL_ND(uint16);
H4V_DECL_ND(uint8);
H4V_DECL_ND(int8);
H4V_DECL_ND(uint32);
H4V_DECL_ND(unsigned);
H4V_DECL_ND(gr_interlace_t);

/* ---------------- constants of one run */
#ifndef RW_NCOMP
#define RW_NCOMP 1
#endif
#ifndef RW_CS /* component size in bytes: 1 (DFNT_UINT8) or 2 (DFNT_UINT16) */
#define RW_CS 1
#endif
#if RW_CS == 1
#define RW_NT DFNT_UINT8
#else
#define RW_NT DFNT_UINT16
#endif
#define RW_PS (RW_NCOMP * RW_CS) /* pixel size in bytes */
#define RW_MAXDIM 4
#define RW_MAXCNT 3
#define RW_MAXSTRIDE 3
#define RW_DISKCAP (RW_MAXDIM * RW_MAXDIM * RW_PS)
#define RW_DATACAP (RW_MAXCNT * RW_MAXCNT * RW_PS)

#define RW_RIID 0x60000003
#define RW_GRID 0x50000002
#define RW_FID 0x10000001
#define RW_AID 0x30000004

/* ---------------- ghost environment */
ri_info_t *g_ri; /* THE image behind RW_RIID */
gr_info_t *g_gr; /* its GR file record, behind RW_GRID */

struct rw_io {
    int32  pos;        /* position of the image's access element */
    int    open;       /* access element open */
    int    nio;        /* Hseek + Hread + Hwrite calls */
    int    nstart;     /* Hstartaccess/HCcreate/HRPconvert calls */
    uint32 start_flags;
    int    failed;     /* an H-layer call returned FAIL for an I/O reason */
    int    wr;         /* ghost byte g_off was written */
    int    wr_cnt;     /* ... how often */
    uint8  wr_val;     /* ... last value */
    int32  end;        /* highest position reached by a write */
    int    nconv;      /* DFKconvert calls */
    /* palette element */
    int    put_n;
    uint16 put_tag, put_ref;
    int32  put_len;
    const uint8 *put_data;
    uint8  put_byte; /* byte g_k of the last Hputelement */
    int    get_n;
    uint16 get_tag, get_ref;
    int    newref_n;
} g_io;

int32  g_elem_len;    /* Hlength of the image element (<= 0: no data yet) */
int    g_has_data;    /* the image has data in the file (tag/ref assigned and Hlength > 0) */
int    g_may_fail;    /* H-layer calls may fail for an I/O reason */
uint8 *g_disk;        /* the image element's bytes (read model) */
int32  g_off;         /* ghost byte offset in the element (write model) */
int32  g_doff;        /* ghost byte offset in the element (read model): where the ghost request byte lives */
int32  g_i, g_j;      /* ghost request element (column index, row index) */
int32  g_c, g_bb;     /* ghost component, ghost byte of the component */
int32  g_x, g_y;      /* ghost pixel of the image (write model), g_off == RW_PS*(g_y*xdim+g_x) + g_c*RW_CS + g_bb */
int32  g_rx, g_ry;    /* remainders: g_x - start[0] == g_i*stride[0] + g_rx */
uint8  g_fill_exp;    /* expected fill byte for (g_c, g_bb) */
int8   g_pnsc;        /* platform number subclass (DFKgetPNSC) */
int    g_comp_type;   /* what HCPgetcompinfo reports */
uint32 g_comp_config;
uint16 g_newref;      /* what Htagnewref hands out (0: none left) */
int32  g_k;           /* ghost byte of the palette */
/* the one local attribute the image may have (the fill value) */
int       g_attr_present;
at_info_t g_attr;
TBBT_NODE g_attr_node;
TBBT_TREE g_lattree;
char      g_attr_name[11];
uint8     g_attr_data[RW_PS];

static int
rw_fault(void)
{
    if (g_may_fail) {
        H4V_ND(int, h_fault);
        if (h_fault) {
            g_io.failed = 1;
            return 1;
        }
    }
    return 0;
}

/* ---------------- atom.c (trusted finite map: two ids) */
group_t
HAatom_group(atom_t atm)
{
    if (atm == RW_RIID)
        return RIIDGROUP;
    if (atm == RW_GRID)
        return GRIDGROUP;
    return BADGROUP;
}
void *
HAatom_object(atom_t atm)
{
    if (atm == RW_RIID)
        return g_ri;
    if (atm == RW_GRID)
        return g_gr;
    return NULL;
}

/* ---------------- number types (trusted: sizes of the types; conversion = byte copy, C06 owns the real one) */
int
DFKNTsize(int32 number_type)
{
    switch (number_type & 0xfff) {
        case DFNT_UCHAR8:
        case DFNT_CHAR8:
        case DFNT_INT8:
        case DFNT_UINT8:
            return 1;
        case DFNT_INT16:
        case DFNT_UINT16:
            return 2;
        case DFNT_INT32:
        case DFNT_UINT32:
        case DFNT_FLOAT32:
            return 4;
        case DFNT_FLOAT64:
            return 8;
        default:
            return FAIL;
    }
}
int8
DFKgetPNSC(int32 numbertype, int32 machinetype)
{
    (void)numbertype;
    (void)machinetype;
    return g_pnsc;
}
int32
DFKconvert(void *source, void *dest, int32 ntype, int32 num_elm, int16 acc_mode, int32 source_stride, int32 dest_stride)
{
    H4V_CHECK(source_stride == 0 && dest_stride == 0, "DFKconvert: contiguous conversion");
    H4V_CHECK(num_elm >= 0 && num_elm <= RW_MAXCNT * RW_MAXCNT * RW_NCOMP, "DFKconvert: element count within the request");
    H4V_CHECK(acc_mode == DFACC_READ || acc_mode == DFACC_WRITE, "DFKconvert: access mode");
    g_io.nconv++;
    if (source != dest)
        memcpy(dest, source, (size_t)(num_elm * DFKNTsize(ntype)));
    return 0;
}

/* ---------------- H layer: the image element */
int32
Hlength(int32 file_id, uint16 tag, uint16 ref)
{
    (void)tag;
    (void)ref;
    H4V_CHECK(file_id == RW_FID, "Hlength on the GR's file");
#ifdef RW_HASDATA
    /* callers only test the sign; a constant lets symbolic execution prune the other storage state */
    return RW_HASDATA ? RW_DISKCAP : 0;
#else
    return g_elem_len;
#endif
}
static int32
rw_open(int32 file_id, uint32 flags)
{
    H4V_CHECK(file_id == RW_FID, "access element started on the GR's file");
    g_io.nstart++;
    if (rw_fault())
        return FAIL;
    g_io.open        = 1;
    g_io.pos         = 0;
    g_io.start_flags = flags;
    return RW_AID;
}
int32
Hstartaccess(int32 file_id, uint16 tag, uint16 ref, uint32 flags)
{
    if (tag == DFTAG_NULL || ref == DFREF_WILDCARD) /* e.g. Htagnewref had no ref left: the real one refuses */
        return FAIL;
    return rw_open(file_id, flags);
}
int32
HCcreate(int32 file_id, uint16 tag, uint16 ref, comp_model_t model_type, model_info *m_info, comp_coder_t coder_type,
         comp_info *c_info)
{
    (void)tag;
    (void)ref;
    (void)model_type;
    (void)m_info;
    (void)coder_type;
    (void)c_info;
    return rw_open(file_id, DFACC_RDWR);
}
int32
HRPconvert(int32 fid, uint16 tag, uint16 ref, int32 xdim, int32 ydim, int16 scheme, comp_info *cinfo, unsigned pixel_size)
{
    (void)tag;
    (void)ref;
    (void)scheme;
    (void)cinfo;
    H4V_CHECK(xdim == g_ri->img_dim.xdim && ydim == g_ri->img_dim.ydim && pixel_size == RW_PS, "HRPconvert: image geometry");
    return rw_open(fid, DFACC_RDWR);
}
int
HBconvert(int32 aid)
{
    H4V_CHECK(aid == RW_AID && g_io.open, "HBconvert on the image's open access element");
    if (rw_fault())
        return FAIL;
    return SUCCEED;
}
int
Hendaccess(int32 access_id)
{
    if (access_id != RW_AID || !g_io.open) /* GRIgetaid ends access on id 0 when a compression request is pending */
        return FAIL;
    g_io.open = 0;
    return SUCCEED;
}
uint16
Htagnewref(int32 file_id, uint16 tag)
{
    (void)tag;
    H4V_CHECK(file_id == RW_FID, "Htagnewref on the GR's file");
    g_io.newref_n++;
    return g_newref;
}
int
HCPgetcompinfo(int32 file_id, uint16 data_tag, uint16 data_ref, comp_coder_t *coder_type, comp_info *c_info)
{
    (void)data_tag;
    (void)data_ref;
    (void)c_info;
    H4V_CHECK(file_id == RW_FID, "HCPgetcompinfo on the GR's file");
    if (rw_fault())
        return FAIL;
    *coder_type = (comp_coder_t)g_comp_type;
    return SUCCEED;
}
int
HCget_config_info(comp_coder_t coder_type, uint32 *compression_config_info)
{
    (void)coder_type;
    *compression_config_info = g_comp_config;
    return SUCCEED;
}
int
Hseek(int32 access_id, int32 offset, int origin)
{
    H4V_CHECK(access_id == RW_AID && g_io.open, "Hseek on the image's open access element");
    H4V_CHECK(origin == DF_START, "Hseek from the start of the element");
    g_io.nio++;
    if (rw_fault())
        return FAIL;
    if (offset < 0)
        return FAIL;
    g_io.pos = offset;
    return SUCCEED;
}
int32
Hread(int32 access_id, int32 length, void *data)
{
    int32 n;
    H4V_CHECK(access_id == RW_AID && g_io.open, "Hread on the image's open access element");
    H4V_CHECK(length > 0, "Hread with a positive length (0 means: the rest of the element)");
    g_io.nio++;
    if (rw_fault())
        return FAIL;
    H4V_CHECK(g_io.pos >= 0 && g_io.pos + length <= g_elem_len, "Hread stays inside the image element");
    if (g_io.pos >= g_elem_len)
        return FAIL;
    n = length;
    if (n > g_elem_len - g_io.pos)
        n = g_elem_len - g_io.pos;
#ifdef H4V_CBMC
    /* only the ghost byte of the element is materialised (the clauses look at nothing else; the destination's prior
       content is arbitrary, so a byte that does not arrive where it belongs is noticed) */
    if (g_io.pos <= g_doff && g_doff - g_io.pos < n)
        ((uint8 *)data)[g_doff - g_io.pos] = g_disk[g_doff];
#else
    memcpy(data, g_disk + g_io.pos, (size_t)n);
#endif
    g_io.pos += n;
    return n;
}
int32
Hwrite(int32 access_id, int32 length, const void *data)
{
    H4V_CHECK(access_id == RW_AID && g_io.open, "Hwrite on the image's open access element");
    H4V_CHECK((g_io.start_flags & DFACC_WRITE) != 0, "Hwrite on an access element opened for writing");
    H4V_CHECK(length > 0, "Hwrite with a positive length");
    g_io.nio++;
    if (rw_fault())
        return FAIL;
    if (length <= 0)
        return FAIL;
    if (g_io.pos <= g_off && g_off - g_io.pos < length) {
        g_io.wr     = 1;
        g_io.wr_val = ((const uint8 *)data)[g_off - g_io.pos];
        g_io.wr_cnt++;
    }
    g_io.pos += length;
    if (g_io.pos > g_io.end)
        g_io.end = g_io.pos;
    return length;
}
/* HDmemfill: num_items copies of the item (native: the loop; cbmc: loop-free partial materialisation, see below) */
int32 g_fill_item;
int   g_il_may_fail; /* GRIil_convert may fail (its six work arrays cannot be allocated) */
void *
HDmemfill(void *dest, const void *src, uint32 item_size, uint32 num_items)
{
    H4V_CHECK(item_size == RW_PS, "HDmemfill: one pixel per item");
#ifdef H4V_CBMC
    /* loop-free: the first RW_MAXDIM items (a fill line is completely materialised: its bytes are written at shifted
       columns) and the ghost item (the caller's buffer holds up to 9 items, only the ghost one is looked at) */
    if (num_items > 0)
        memcpy((uint8 *)dest, src, RW_PS);
    if (num_items > 1)
        memcpy((uint8 *)dest + RW_PS, src, RW_PS);
    if (num_items > 2)
        memcpy((uint8 *)dest + 2 * RW_PS, src, RW_PS);
    if (num_items > 3)
        memcpy((uint8 *)dest + 3 * RW_PS, src, RW_PS);
    if (g_fill_item >= 0 && (uint32)g_fill_item < num_items)
        memcpy((uint8 *)dest + (uint32)g_fill_item * RW_PS, src, RW_PS);
#else
    for (uint32 k = 0; k < num_items; k++)
        memcpy((uint8 *)dest + k * item_size, src, item_size);
#endif
    return dest;
}

/* ---------------- H layer: the palette element */
int32
Hputelement(int32 file_id, uint16 tag, uint16 ref, const uint8 *data, int32 length)
{
    H4V_CHECK(file_id == RW_FID, "Hputelement on the GR's file");
    g_io.put_n++;
    g_io.put_tag  = tag;
    g_io.put_ref  = ref;
    g_io.put_len  = length;
    g_io.put_data = data;
    if (ref == DFREF_WILDCARD || tag == DFTAG_NULL || length <= 0)
        return FAIL;
    if (rw_fault())
        return FAIL;
    if (g_k >= 0 && g_k < length)
        g_io.put_byte = data[g_k];
    return length;
}
int32
Hgetelement(int32 file_id, uint16 tag, uint16 ref, uint8 *data)
{
    H4V_CHECK(file_id == RW_FID, "Hgetelement on the GR's file");
    g_io.get_n++;
    g_io.get_tag = tag;
    g_io.get_ref = ref;
    if (rw_fault())
        return FAIL;
    if (tag != g_io.put_tag || ref != g_io.put_ref || g_io.put_len <= 0)
        return FAIL; /* no such element */
    if (g_k >= 0 && g_k < g_io.put_len)
        data[g_k] = g_io.put_byte;
    return g_io.put_len;
}

/* ---------------- tbbt: the attribute tree (A-TBBT: a finite map index -> attribute, iterated in index order)
   image I/O runs: at most the fill-value attribute;  attribute runs (RW_ATTRS): up to AT_MAX attributes + one insertion */
#define AT_MAX 2
int        g_nat;           /* attributes in the tree */
at_info_t  g_at[AT_MAX];
TBBT_NODE  g_atn[AT_MAX];
at_info_t *g_ins_item;      /* item given to tbbtdins */
TBBT_NODE  g_ins_node;
int        g_ins_n;
int        g_ins_may_fail;
TBBT_NODE *
tbbtfirst(TBBT_NODE *root)
{
    (void)root;
#ifdef RW_ATTRS
    return g_nat > 0 ? &g_atn[0] : NULL;
#else
    return g_attr_present ? &g_attr_node : NULL;
#endif
}
TBBT_NODE *
tbbtnext(TBBT_NODE *node)
{
#ifdef RW_ATTRS
    if (node == &g_atn[0] && g_nat > 1)
        return &g_atn[1];
#endif
    (void)node;
    return NULL;
}
TBBT_NODE *
tbbtdfind(TBBT_TREE *tree, void *key, TBBT_NODE **pp)
{
    (void)tree;
    (void)pp;
#ifdef RW_ATTRS
    if (g_nat > 0 && *(int32 *)key == g_at[0].index)
        return &g_atn[0];
    if (g_nat > 1 && *(int32 *)key == g_at[1].index)
        return &g_atn[1];
    if (g_ins_n > 0 && g_ins_item != NULL && *(int32 *)key == g_ins_item->index)
        return &g_ins_node;
#else
    if (g_attr_present && *(int32 *)key == g_attr.index)
        return &g_attr_node;
#endif
    return NULL;
}
TBBT_NODE *
tbbtdins(TBBT_TREE *tree, void *item, void *key)
{
    (void)tree;
    (void)key;
    g_ins_n++;
    if (g_ins_may_fail) {
        H4V_ND(int, ins_fault);
        if (ins_fault)
            return NULL;
    }
    g_ins_item      = (at_info_t *)item;
    g_ins_node.data = item;
    g_ins_node.key  = item;
    return &g_ins_node;
}
/* names in this unit have at most 10 characters: exact comparison, unrolled (cbmc's strcmp model needs unwinding) */
static int
rw_strcmp(const char *a, const char *b)
{
#define RW_S(k)                                                                                                          \
    if (a[k] != b[k])                                                                                                    \
        return (unsigned char)a[k] < (unsigned char)b[k] ? -1 : 1;                                                       \
    if (a[k] == 0)                                                                                                       \
        return 0;
    RW_S(0) RW_S(1) RW_S(2) RW_S(3) RW_S(4) RW_S(5) RW_S(6) RW_S(7) RW_S(8) RW_S(9) RW_S(10)
#undef RW_S
    return 0;
}
static size_t
rw_strlen(const char *a)
{
#define RW_L(k)                                                                                                          \
    if (a[k] == 0)                                                                                                       \
        return k;
    RW_L(0) RW_L(1) RW_L(2) RW_L(3) RW_L(4) RW_L(5) RW_L(6) RW_L(7) RW_L(8) RW_L(9)
#undef RW_L
    return 10;
}
static char *
rw_strcpy(char *d, const char *a)
{
#define RW_C(k)                                                                                                          \
    d[k] = a[k];                                                                                                         \
    if (a[k] == 0)                                                                                                       \
        return d;
    RW_C(0) RW_C(1) RW_C(2) RW_C(3) RW_C(4) RW_C(5) RW_C(6) RW_C(7) RW_C(8) RW_C(9) RW_C(10)
#undef RW_C
    return d;
}
#define strcmp rw_strcmp
#define strlen rw_strlen
#define strcpy rw_strcpy

/* ---------------- V layer under GRgetattr's "value not read in yet" path (RW_ATTRS runs only): one attribute Vdata on disk whose
   byte at ghost index g_k is g_at_disk; every call may fail */
int    g_vs_n, g_vs_failed, g_vs_open;
uint8  g_at_disk;
int32  g_at_ref_asked;
int32
VSattach(HFILEID f, int32 vsid, const char *accesstype)
{
    (void)f;
    H4V_CHECK(accesstype != NULL && accesstype[0] == 'r', "GRgetattr attaches the attribute Vdata for reading");
    g_vs_n++;
    g_at_ref_asked = vsid;
    H4V_ND(int, vsattach_fails);
    if (vsattach_fails) {
        g_vs_failed = 1;
        return FAIL;
    }
    g_vs_open++;
    return 0x40007;
}
int
VSsetfields(int32 vkey, const char *fields)
{
    H4V_CHECK(vkey == 0x40007 && fields != NULL, "VSsetfields on the attached attribute Vdata");
    H4V_ND(int, vssetfields_fails);
    if (vssetfields_fails) {
        g_vs_failed = 1;
        return FAIL;
    }
    return SUCCEED;
}
int32
VSread(int32 vkey, uint8 buf[], int32 nelt, int32 interlace)
{
    (void)interlace;
    H4V_CHECK(vkey == 0x40007 && buf != NULL && nelt >= 1, "VSread on the attached attribute Vdata");
    H4V_ND(int, vsread_fails);
    if (vsread_fails) {
        g_vs_failed = 1;
        return FAIL;
    }
    buf[g_k] = g_at_disk; /* (g_k < size of the value: the harness chooses it so) */
    return nelt;
}
int32
VSdetach(int32 vkey)
{
    H4V_CHECK(vkey == 0x40007 && g_vs_open >= 1, "VSdetach on the attached attribute Vdata");
    g_vs_open--;
    H4V_ND(int, vsdetach_fails);
    if (vsdetach_fails) {
        g_vs_failed = 1;
        return FAIL;
    }
    return SUCCEED;
}

#include "mfgr.c"

#undef strcmp
#undef strlen
#undef strcpy

/* ---------------- contract vocabulary */
/* interlace address maps (copied from units/mfgr_u.c; element index in components) */
#define IL_PIXEL_IDX(x, y, c, xd, yd, nc) (((y) * (xd) + (x)) * (nc) + (c))
#define IL_LINE_IDX(x, y, c, xd, yd, nc) (((y) * (nc) + (c)) * (xd) + (x))
#define IL_COMP_IDX(x, y, c, xd, yd, nc) (((c) * (yd) + (y)) * (xd) + (x))
#define IL_IDX(il, x, y, c, xd, yd, nc)                                                                                  \
    ((il) == MFGR_INTERLACE_PIXEL  ? IL_PIXEL_IDX(x, y, c, xd, yd, nc)                                                    \
     : (il) == MFGR_INTERLACE_LINE ? IL_LINE_IDX(x, y, c, xd, yd, nc)                                                     \
                                   : IL_COMP_IDX(x, y, c, xd, yd, nc))

/* dimension index 0 is X (columns), 1 is Y (rows): mfgr.c XDIM/YDIM */
#define RW_ST(k) (in_stride == NULL ? 1 : in_stride[k])
#define RW_XD (g_ri->img_dim.xdim)
#define RW_YD (g_ri->img_dim.ydim)
#define RW_ARGS_OK                                                                                                       \
    (riid == RW_RIID && start != NULL && count != NULL && data != NULL && start[0] >= 0 && start[1] >= 0 &&              \
     RW_ST(0) >= 1 && RW_ST(1) >= 1 && count[0] >= 1 && count[1] >= 1)
/* the request lies inside the image */
#define RW_INSIDE (start[0] + (count[0] - 1) * RW_ST(0) < RW_XD && start[1] + (count[1] - 1) * RW_ST(1) < RW_YD)
/* byte offset in the element of request element (i, j): column start[X] + i*stride[X] of ROW start[Y] + j*stride[Y] */
#define RW_PIXOFF(i, j) (RW_PS * ((start[1] + (j)*RW_ST(1)) * RW_XD + start[0] + (i)*RW_ST(0)))
#define RW_GHOST_REQ (g_i >= 0 && g_i < count[0] && g_j >= 0 && g_j < count[1])
/* index in the caller's buffer of byte g_bb of component g_c of request element (g_i, g_j), buffer in interlace il */
#define RW_BUFIDX(il) (IL_IDX(il, g_i, g_j, g_c, count[0], count[1], RW_NCOMP) * RW_CS + g_bb)
/* write model: is the ghost pixel (g_x, g_y) an element of the request?  (g_i, g_rx) / (g_j, g_ry) are quotient and
   remainder of its distance from the start -- fixed by RW_DECOMP in requires */
#define RW_DECOMP                                                                                                        \
    ((g_x < start[0] || (g_x - start[0] == g_i * RW_ST(0) + g_rx && 0 <= g_rx && g_rx < RW_ST(0) && g_i >= 0)) &&        \
     (g_y < start[1] || (g_y - start[1] == g_j * RW_ST(1) + g_ry && 0 <= g_ry && g_ry < RW_ST(1) && g_j >= 0)))
#define RW_ON_GRID                                                                                                       \
    (g_x >= start[0] && g_rx == 0 && g_i < count[0] && g_y >= start[1] && g_ry == 0 && g_j < count[1])
#define RW_IMG_BYTES (RW_PS * RW_XD * RW_YD)

/* GRIil_convert is replaced by its contract here: the ghost-element permutation clause of units/mfgr_u.c (checked there,
   bounded: obligations GRIil_convert_*), stated for the ghost request element of this unit.  The requires are what
   GRreadimage/GRwriteimage must establish at the call. */
#define IL_VALID(il) ((il) == MFGR_INTERLACE_PIXEL || (il) == MFGR_INTERLACE_LINE || (il) == MFGR_INTERLACE_COMPONENT)
int GRIil_convert(const void *inbuf, gr_interlace_t inil, void *outbuf, gr_interlace_t outil, int32 dims[2], int32 ncomp, int32 nt)
    __CPROVER_requires(IL_VALID(inil) && IL_VALID(outil))
    __CPROVER_requires(dims != NULL && dims[0] >= 1 && dims[0] <= RW_MAXCNT && dims[1] >= 1 && dims[1] <= RW_MAXCNT)
    __CPROVER_requires(ncomp == RW_NCOMP && nt == RW_NT)
    __CPROVER_requires(inbuf != NULL && outbuf != NULL && !__CPROVER_same_object(inbuf, outbuf))
    __CPROVER_assigns(__CPROVER_object_upto(outbuf, (__CPROVER_size_t)(dims[0] * dims[1] * RW_PS)))
    __CPROVER_ensures(__CPROVER_return_value == SUCCEED || (__CPROVER_return_value == FAIL && g_il_may_fail))
    __CPROVER_ensures(__CPROVER_return_value == FAIL || !(g_i >= 0 && g_i < dims[0] && g_j >= 0 && g_j < dims[1]) ||
                      ((const uint8 *)outbuf)[IL_IDX(outil, g_i, g_j, g_c, dims[0], dims[1], RW_NCOMP) * RW_CS + g_bb] ==
                          ((const uint8 *)inbuf)[IL_IDX(inil, g_i, g_j, g_c, dims[0], dims[1], RW_NCOMP) * RW_CS + g_bb]);

int GRreadimage(int32 riid, int32 start[2], int32 in_stride[2], int32 count[2], void *data)
    __CPROVER_requires(g_ri != NULL && g_ri->gr_ptr == g_gr && RW_XD >= 1 && RW_YD >= 1)
    __CPROVER_requires(0 <= g_c && g_c < RW_NCOMP && 0 <= g_bb && g_bb < RW_CS)
    __CPROVER_assigns(g_io; g_ri->img_aid, g_ri->acc_perm, g_ri->img_tag, g_ri->img_ref, g_ri->comp_img;
                      data != NULL && count != NULL && count[0] >= 1 && count[1] >= 1: __CPROVER_object_upto(data, (__CPROVER_size_t)(count[0] * count[1] * RW_PS)))
    __CPROVER_ensures(__CPROVER_return_value == SUCCEED || __CPROVER_return_value == FAIL)
    /* invalid arguments: refused before any I/O */
    __CPROVER_ensures(RW_ARGS_OK || (__CPROVER_return_value == FAIL && g_io.nio == 0))
    /* a request reaching outside the image is refused before any I/O */
    __CPROVER_ensures(!RW_ARGS_OK || RW_INSIDE || (__CPROVER_return_value == FAIL && g_io.nio == 0))
    /* an I/O failure is reported */
    __CPROVER_ensures(!g_io.failed || __CPROVER_return_value == FAIL)
    /* the addressing: request element (i,j) is the pixel at column start[X]+i*stride[X] of row start[Y]+j*stride[Y];
       the destination is dense in the requested interlace */
    __CPROVER_ensures(__CPROVER_return_value == FAIL || !g_has_data || !RW_GHOST_REQ || !RW_INSIDE ||
                      ((const uint8 *)data)[RW_BUFIDX(g_ri->im_il)] == g_disk[RW_PIXOFF(g_i, g_j) + g_c * RW_CS + g_bb])
    /* an image that was never written delivers the fill value */
    __CPROVER_ensures(__CPROVER_return_value == FAIL || g_has_data || !RW_GHOST_REQ ||
                      ((const uint8 *)data)[RW_BUFIDX(g_ri->im_il)] == g_fill_exp);

int GRwriteimage(int32 riid, int32 start[2], int32 in_stride[2], int32 count[2], void *data)
    __CPROVER_requires(g_ri != NULL && g_ri->gr_ptr == g_gr && RW_XD >= 1 && RW_YD >= 1)
    __CPROVER_requires(0 <= g_c && g_c < RW_NCOMP && 0 <= g_bb && g_bb < RW_CS)
    __CPROVER_requires(0 <= g_x && g_x < RW_XD && 0 <= g_y && g_y < RW_YD && g_off == RW_PS * (g_y * RW_XD + g_x) + g_c * RW_CS + g_bb)
    __CPROVER_requires(!RW_ARGS_OK || RW_DECOMP)
    __CPROVER_requires(g_io.wr == 0 && g_io.wr_cnt == 0 && g_io.end == 0 && g_io.nio == 0 && g_io.failed == 0)
    __CPROVER_assigns(g_io; g_ri->img_aid, g_ri->acc_perm, g_ri->img_tag, g_ri->img_ref, g_ri->comp_img, g_ri->data_modified,
                      g_ri->store_fill, g_ri->fill_value, g_gr->gr_modified)
    __CPROVER_ensures(__CPROVER_return_value == SUCCEED || __CPROVER_return_value == FAIL)
    __CPROVER_ensures(RW_ARGS_OK || (__CPROVER_return_value == FAIL && g_io.nio == 0))
    /* a request reaching outside the image is refused before any I/O */
    __CPROVER_ensures(!RW_ARGS_OK || RW_INSIDE || (__CPROVER_return_value == FAIL && g_io.nio == 0))
    __CPROVER_ensures(!g_io.failed || __CPROVER_return_value == FAIL)
    /* request element (i,j) lands on the pixel at column start[X]+i*stride[X] of row start[Y]+j*stride[Y]; the source is
       dense in the image's interlace */
    __CPROVER_ensures(__CPROVER_return_value == FAIL || !RW_ON_GRID ||
                      (g_io.wr && g_io.wr_val == ((const uint8 *)data)[RW_BUFIDX(g_ri->img_dim.il)]))
    /* pixels outside the request: first write of a new image with filling -> the fill value; otherwise untouched */
    __CPROVER_ensures(__CPROVER_return_value == FAIL || RW_ON_GRID || !(!g_has_data && g_ri->fill_img == TRUE) ||
                      (g_io.wr && g_io.wr_val == g_fill_exp))
    __CPROVER_ensures(__CPROVER_return_value == FAIL || RW_ON_GRID || (!g_has_data && g_ri->fill_img == TRUE) || !g_io.wr)
    /* nothing is written past the image; a filled new image is complete */
    __CPROVER_ensures(__CPROVER_return_value == FAIL || g_io.end <= RW_IMG_BYTES)
    __CPROVER_ensures(__CPROVER_return_value == FAIL || !(!g_has_data && g_ri->fill_img == TRUE) || g_io.end == RW_IMG_BYTES)
    /* bookkeeping: image and file are marked modified, so that GRend writes the metadata */
    __CPROVER_ensures(__CPROVER_return_value == FAIL || (g_ri->data_modified == TRUE && g_gr->gr_modified == TRUE));

/* ---- palettes */
#define LUT_NONE(r) ((r)->lut_tag == DFTAG_NULL || (r)->lut_ref == DFREF_WILDCARD)
#define LUT_ARGS_OK (lutid == RW_RIID && ncomps >= 1 && nentries >= 1 && data != NULL && DFKNTsize(nt) != FAIL)
int32  g_o_put_n;
uint16 g_o_lut_tag, g_o_lut_ref;
unsigned g_o_meta, g_o_grmod;
int    g_o_nolut;

int GRwritelut(int32 lutid, int32 ncomps, int32 nt, int32 il, int32 nentries, void *data)
    __CPROVER_requires(g_ri != NULL && g_ri->gr_ptr == g_gr)
    __CPROVER_requires(g_io.put_n == 0 && g_io.failed == 0 && g_io.newref_n == 0)
    __CPROVER_requires(g_o_lut_tag == g_ri->lut_tag && g_o_lut_ref == g_ri->lut_ref && g_o_nolut == LUT_NONE(g_ri))
    __CPROVER_assigns(g_io; g_ri->lut_tag, g_ri->lut_ref, g_ri->lut_dim, g_ri->meta_modified, g_gr->gr_modified)
    __CPROVER_ensures(__CPROVER_return_value == SUCCEED || __CPROVER_return_value == FAIL)
    /* invalid arguments are refused, nothing is written */
    __CPROVER_ensures(LUT_ARGS_OK || (__CPROVER_return_value == FAIL && g_io.put_n == 0))
    __CPROVER_ensures(!g_io.failed || __CPROVER_return_value == FAIL)
    /* success: exactly one element written -- the palette's, with the caller's bytes and their full length */
    __CPROVER_ensures(__CPROVER_return_value == FAIL ||
                      (g_io.put_n == 1 && g_io.put_tag == g_ri->lut_tag && g_io.put_ref == g_ri->lut_ref &&
                       g_io.put_data == (const uint8 *)data && g_io.put_len == ncomps * nentries * DFKNTsize(nt)))
    /* the image has a palette afterwards */
    __CPROVER_ensures(__CPROVER_return_value == FAIL || !LUT_NONE(g_ri))
    /* no palette before: a new palette element is created AND the image's metadata and the file are marked modified, so that
       GRend writes the image -> palette link */
    __CPROVER_ensures(__CPROVER_return_value == FAIL || !g_o_nolut ||
                      (g_ri->lut_tag == DFTAG_LUT && g_ri->lut_ref == g_newref && g_io.newref_n == 1 &&
                       g_ri->meta_modified == TRUE && g_gr->gr_modified == TRUE))
    /* palette existed: rewritten in place (same tag/ref) */
    __CPROVER_ensures(__CPROVER_return_value == FAIL || g_o_nolut ||
                      (g_ri->lut_tag == g_o_lut_tag && g_ri->lut_ref == g_o_lut_ref && g_io.newref_n == 0))
    /* what GRgetlutinfo will report is what was written */
    __CPROVER_ensures(__CPROVER_return_value == FAIL ||
                      (g_ri->lut_dim.ncomps == ncomps && g_ri->lut_dim.xdim == nentries && (int32)g_ri->lut_dim.il == il &&
                       (g_ri->lut_dim.nt == nt || (nt == DFNT_UCHAR8 && g_ri->lut_dim.nt == DFNT_UINT8))))
    /* a failed write does not leave a palette behind that was never written */
    __CPROVER_ensures(__CPROVER_return_value == SUCCEED || !g_o_nolut || LUT_NONE(g_ri));

int GRgetlutinfo(int32 lutid, int32 *ncomp, int32 *nt, int32 *il, int32 *nentries)
    __CPROVER_requires(g_ri != NULL && g_ri->gr_ptr == g_gr)
    __CPROVER_requires(ncomp != NULL && nt != NULL && il != NULL && nentries != NULL)
    __CPROVER_assigns(*ncomp, *nt, *il, *nentries)
    __CPROVER_ensures(__CPROVER_return_value == (lutid == RW_RIID ? SUCCEED : FAIL))
    __CPROVER_ensures(__CPROVER_return_value == FAIL || !LUT_NONE(g_ri) || (*ncomp == 0 && *nentries == 0 && *nt == DFNT_NONE && *il == -1))
    __CPROVER_ensures(__CPROVER_return_value == FAIL || LUT_NONE(g_ri) ||
                      (*ncomp == g_ri->lut_dim.ncomps && *nentries == g_ri->lut_dim.xdim && *nt == g_ri->lut_dim.nt &&
                       *il == (int32)g_ri->lut_dim.il));

/* ---- attributes (C10): in-memory bookkeeping of GRsetattr / GRattrinfo on the image's attribute list */
#define AT_NAMECAP 4  /* names of at most 3 characters */
#define AT_DATACAP 16 /* values of at most 16 bytes */
int    g_match;       /* index in g_at[] of the attribute whose name equals `name`, or -1 (computed by the harness) */
int    g_oth;         /* index in g_at[] of another attribute (ghost), or -1 */
/* entry state (snapshots taken by the harness) */
int32  g_o_cnt;                                  /* lattr_count */
int32  g_o_nt[AT_MAX], g_o_len[AT_MAX], g_o_index[AT_MAX];
uint8  g_o_byte[AT_MAX];                          /* byte g_k of the value */
void  *g_o_data[AT_MAX];
unsigned g_o_attrmod;
#define AT_SIZE(nt, n) ((n)*DFKNTsize(((nt) | DFNT_NATIVE) & (~DFNT_LITEND)))
#define AT_ARGS_OK (id == RW_RIID && name != NULL && data != NULL && count >= 1 && count <= MAX_ORDER && DFKNTsize(attr_nt) != FAIL)
#define AT_UNCHANGED(k)                                                                                                  \
    (g_at[k].nt == g_o_nt[k] && g_at[k].len == g_o_len[k] && g_at[k].index == g_o_index[k] && g_at[k].data == g_o_data[k] &&  \
     (g_at[k].data == NULL || g_k >= AT_SIZE(g_o_nt[k], g_o_len[k]) || ((const uint8 *)g_at[k].data)[g_k] == g_o_byte[k]))

int GRsetattr(int32 id, const char *name, int32 attr_nt, int32 count, const void *data)
    __CPROVER_requires(g_ri != NULL && g_ri->gr_ptr == g_gr && g_nat >= 0 && g_nat <= AT_MAX && g_ri->lattr_count == g_nat)
    __CPROVER_requires(g_match >= -1 && g_match < g_nat && g_oth >= -1 && g_oth < g_nat && (g_oth == -1 || g_oth != g_match))
    __CPROVER_requires(g_k >= 0 && g_ins_n == 0)
    __CPROVER_assigns(g_io, g_ins_n, g_ins_item, g_ins_node; g_at[0], g_at[1]; g_ri->attr_modified, g_ri->meta_modified, g_ri->lattr_count,
                      g_gr->gr_modified; g_at[0].data != NULL: __CPROVER_object_whole(g_at[0].data); g_at[1].data != NULL: __CPROVER_object_whole(g_at[1].data))
    __CPROVER_frees(g_at[0].data, g_at[1].data)
    __CPROVER_ensures(__CPROVER_return_value == SUCCEED || __CPROVER_return_value == FAIL)
    __CPROVER_ensures(AT_ARGS_OK || __CPROVER_return_value == FAIL)
    /* existing name, same number type: THAT attribute gets the new count and value, keeps its type and its index; nothing is
       appended */
    __CPROVER_ensures(__CPROVER_return_value == FAIL || g_match < 0 ||
                      (g_at[g_match].len == count && g_at[g_match].nt == attr_nt && attr_nt == g_o_nt[g_match] &&
                       g_at[g_match].index == g_o_index[g_match] && g_ri->lattr_count == g_o_cnt && g_ins_n == 0 &&
                       g_at[g_match].data != NULL &&
                       (g_k >= AT_SIZE(attr_nt, count) || ((const uint8 *)g_at[g_match].data)[g_k] == ((const uint8 *)data)[g_k])))
    /* ... and is marked for writing at GRend */
    __CPROVER_ensures(__CPROVER_return_value == FAIL || g_match < 0 ||
                      (g_at[g_match].data_modified == TRUE && g_ri->attr_modified == TRUE && g_gr->gr_modified == TRUE))
    /* existing name, other number type: refused (the interface forbids changing the type), the old value stays */
    __CPROVER_ensures(g_match < 0 || !AT_ARGS_OK || attr_nt == g_o_nt[g_match] || (__CPROVER_return_value == FAIL && AT_UNCHANGED(g_match)))
    /* every other attribute is untouched, whatever happens */
    __CPROVER_ensures(g_oth < 0 || AT_UNCHANGED(g_oth))
    /* a failed call changes no attribute and no count */
    __CPROVER_ensures(__CPROVER_return_value == SUCCEED || g_match < 0 || g_at[g_match].data == NULL || AT_UNCHANGED(g_match))
    __CPROVER_ensures(__CPROVER_return_value == SUCCEED || g_ri->lattr_count == g_o_cnt)
    /* new name: appended with the next index, type, count and value as given; image marked modified */
    __CPROVER_ensures(__CPROVER_return_value == FAIL || g_match >= 0 ||
                      (g_ins_n == 1 && g_ins_item != NULL && g_ins_item->index == g_o_cnt && g_ins_item->nt == attr_nt &&
                       g_ins_item->len == count && g_ri->lattr_count == g_o_cnt + 1 && g_ins_item->data != NULL &&
                       rw_strcmp(g_ins_item->name, name) == 0 &&
                       (g_k >= AT_SIZE(attr_nt, count) || ((const uint8 *)g_ins_item->data)[g_k] == ((const uint8 *)data)[g_k]) &&
                       g_ins_item->data_modified == TRUE && g_ins_item->new_at == TRUE &&
                       g_ri->attr_modified == TRUE && g_ri->meta_modified == TRUE && g_gr->gr_modified == TRUE));

int GRattrinfo(int32 id, int32 index, char *name, int32 *attr_nt, int32 *count)
    __CPROVER_requires(g_ri != NULL && g_ri->gr_ptr == g_gr && g_nat >= 0 && g_nat <= AT_MAX && g_ri->lattr_count == g_nat)
    __CPROVER_requires(name != NULL && attr_nt != NULL && count != NULL)
    __CPROVER_requires(g_nat < 1 || g_at[0].index == 0)
    __CPROVER_requires(g_nat < 2 || g_at[1].index == 1)
    __CPROVER_assigns(*attr_nt, *count, __CPROVER_object_upto(name, AT_NAMECAP))
    __CPROVER_ensures(__CPROVER_return_value == ((id == RW_RIID && index >= 0 && index < g_nat) ? SUCCEED : FAIL))
    __CPROVER_ensures(__CPROVER_return_value == FAIL ||
                      (*attr_nt == g_at[index].nt && *count == g_at[index].len && rw_strcmp(name, g_at[index].name) == 0));

#ifdef H4V_NATIVE
#include "h4v_native_wrap.h"
#endif

/* ---------------- harnesses ---------------- */
/* buffer with arbitrary contents (copied from units/mfgr_u.c): in counterexample mode the named element values come from
   one nondet struct and are copied without a loop */
#if defined(H4V_CBMC) && defined(H4V_CEX)
#define RW_ND_BUF(T, p, n, CAP)                                                                                          \
    T *p = malloc((size_t)(n) * sizeof(T));                                                                              \
    __CPROVER_assume(p != NULL);                                                                                         \
    struct h4v_nb_##p { T a[CAP]; };                                                                                     \
    struct h4v_nb_##p nondet_h4v_nb_##p(void);                                                                           \
    struct h4v_nb_##p p##_nd = nondet_h4v_nb_##p();                                                                      \
    memcpy(p, p##_nd.a, (size_t)(n) * sizeof(T))
#else
#define RW_ND_BUF(T, p, n, CAP) H4V_ND_BUF(T, p, n, CAP)
#endif

static void
mk_ghosts(void)
{
    H4V_HAVOC(int32, g_i);
    H4V_HAVOC(int32, g_j);
    H4V_HAVOC(int32, g_c);
    H4V_HAVOC(int32, g_bb);
    H4V_HAVOC(int32, g_x);
    H4V_HAVOC(int32, g_y);
    H4V_HAVOC(int32, g_rx);
    H4V_HAVOC(int32, g_ry);
    H4V_HAVOC(int32, g_k);
    H4V_HAVOC(int8, g_pnsc);
    H4V_HAVOC(int, g_comp_type);
    H4V_HAVOC(uint32, g_comp_config);
    H4V_HAVOC(uint16, g_newref);
    H4V_HAVOC(int, g_may_fail);
    memset(&g_io, 0, sizeof g_io);
    g_off       = 0;
    g_doff      = -1;
#ifdef RW_ILOOM
    g_il_may_fail = 1;
#else
    g_il_may_fail = 0;
#endif
    g_fill_item = -1;
    g_fill_exp  = 0;
    g_has_data  = 0;
    g_elem_len  = 0;
    g_disk      = NULL;
#ifdef RW_NOFAULT
    H4V_ASSUME(g_may_fail == 0);
#endif
}

/* the image and its GR record; every field the functions under contract read is set here */
static void
mk_image(void)
{
    /* typed static objects (field-sensitive in cbmc; a calloc'ed struct is a byte array there) */
    static gr_info_t gr_obj;
    static ri_info_t ri_obj;
    g_gr = &gr_obj;
    g_ri = &ri_obj;
    H4V_ND(unsigned, gr_modified0);
    H4V_ND(unsigned, meta_modified0);
    H4V_ND(unsigned, data_modified0);
    H4V_ASSUME(gr_modified0 <= 1 && meta_modified0 <= 1 && data_modified0 <= 1);
    g_gr->hdf_file_id   = RW_FID;
    g_gr->gr_modified   = gr_modified0;
    g_gr->attr_cache    = 2048;
    g_gr->access        = 1;
    g_ri->gr_ptr        = g_gr;
    g_ri->meta_modified = meta_modified0;
    g_ri->data_modified = data_modified0;
    g_ri->access        = 1;
    g_ri->lattree       = &g_lattree;
    g_lattree.root      = NULL;
    g_ri->lut_tag       = DFTAG_NULL;
    g_ri->lut_ref       = DFREF_WILDCARD;
    g_ri->im_il         = MFGR_INTERLACE_PIXEL;
    g_ri->lut_il        = MFGR_INTERLACE_PIXEL;
}

/* geometry, storage state and access state of the image for the I/O harnesses */
static void
mk_image_io(int32 xdim, int32 ydim, int for_write)
{
    H4V_ND(int, has_data);
    H4V_ND(int, tagref_assigned);
    H4V_ND(int, aid_open);
    H4V_ND(int, aid_writable);
    H4V_ND(int32, pos0);
    H4V_ND(int32, file_subclass);
    H4V_ND(uint16, comp_tag);
    H4V_ND(unsigned, use_buf_drvr);
    H4V_ND(unsigned, comp_img);
    H4V_ND(unsigned, use_cr_drvr);
    mk_image();
    g_ri->img_dim.xdim             = xdim;
    g_ri->img_dim.ydim             = ydim;
    g_ri->img_dim.ncomps           = RW_NCOMP;
    g_ri->img_dim.nt               = RW_NT;
    g_ri->img_dim.file_nt_subclass = file_subclass;
    g_ri->img_dim.il               = MFGR_INTERLACE_PIXEL;
    g_ri->img_dim.comp_tag         = comp_tag;
#ifdef RW_CONV
    g_pnsc                         = DFNTF_HDFDEFAULT;
    g_ri->img_dim.file_nt_subclass = DFNTF_HDFDEFAULT + RW_CONV;
#endif
    H4V_ASSUME(use_buf_drvr <= 1 && comp_img <= 1 && use_cr_drvr <= 1);
    g_ri->use_buf_drvr = use_buf_drvr;
    g_ri->use_cr_drvr  = use_cr_drvr;
    /* storage: no tag/ref yet | tag/ref assigned but no data | data present (exactly xdim*ydim pixels) */
#ifdef RW_HASDATA
    has_data = RW_HASDATA;
    if (has_data)
        tagref_assigned = 1;
#endif
    H4V_ASSUME(!has_data || tagref_assigned);
    if (tagref_assigned) {
        g_ri->img_tag = DFTAG_RI;
        g_ri->img_ref = 7;
    }
    else {
        g_ri->img_tag = DFTAG_NULL;
        g_ri->img_ref = DFREF_WILDCARD;
    }
    g_has_data = has_data != 0;
    g_elem_len = has_data ? RW_PS * xdim * ydim : 0;
    /* a pending compression request only exists before the first write */
    H4V_ASSUME(!comp_img || !has_data);
    g_ri->comp_img = comp_img;
    /* access element: closed, or open (read-only or read/write) at some position; an element without data is at 0 */
    H4V_ASSUME(!aid_open || tagref_assigned);
    H4V_ASSUME(pos0 >= 0 && pos0 <= RW_DISKCAP && (has_data || pos0 == 0));
    if (aid_open) {
        g_ri->img_aid    = RW_AID;
        g_ri->acc_perm   = aid_writable ? (DFACC_READ | DFACC_WRITE) : DFACC_READ;
        g_io.open        = 1;
        g_io.pos         = pos0;
        g_io.start_flags = (uint32)g_ri->acc_perm;
    }
    else {
        g_ri->img_aid  = 0;
        g_ri->acc_perm = 0;
    }
    (void)for_write;
}

/* the fill value attribute of the image (read: value delivered for an image without data) */
static void
mk_fill_attr(void)
{
    H4V_ND(int, attr_present);
    g_attr_present = attr_present != 0;
#ifdef RW_NOATTR
    g_attr_present = 0;
#endif
    if (g_attr_present) {
        static const char fillname[11] = FILL_ATTR;
        memcpy(g_attr_name, fillname, sizeof fillname);
        RW_ND_BUF(uint8, attrv, RW_PS, RW_PS);
        memcpy(g_attr_data, attrv, RW_PS);
        g_attr.index         = 0;
        g_attr.nt            = RW_NT;
        g_attr.len           = RW_NCOMP;
        g_attr.ref           = 9;
        g_attr.data_modified = FALSE;
        g_attr.new_at        = FALSE;
        g_attr.name          = g_attr_name;
        g_attr.data          = g_attr_data;
        g_attr_node.data     = &g_attr;
        g_attr_node.key      = &g_attr.index;
        g_ri->lattr_count    = 1;
    }
    else
        g_ri->lattr_count = 0;
}

/* the id is a constant in all runs but the invalid-argument ones (a symbolic id makes every field access through the
   looked-up image pointer a case split); the invalid-id runs use constants as well */
#ifdef RW_BADID /* a constant id that is not an image's: the GR id (wrong group) or an unknown one */
#define RW_REQ_RIID(nd) RW_BADID
#else
#define RW_REQ_RIID(nd) RW_RIID
#endif
#ifdef RW_XDIM /* image width constant of the run (fill lines get a constant size) */
#define RW_REQ_XDIM(nd) RW_XDIM
#else
#define RW_REQ_XDIM(nd) (nd)
#endif
/* request: start in -1..4, stride in 0..3 (or no stride array), count in 0..3 */
#define MK_REQUEST                                                                                                       \
    H4V_ND(int32, xdim_nd);                                                                                              \
    int32 xdim = RW_REQ_XDIM(xdim_nd);                                                                                   \
    H4V_ND(int32, ydim);                                                                                                 \
    H4V_ND(int32, sx);                                                                                                   \
    H4V_ND(int32, sy);                                                                                                   \
    H4V_ND(int32, tx);                                                                                                   \
    H4V_ND(int32, ty);                                                                                                   \
    H4V_ND(int32, cx);                                                                                                   \
    H4V_ND(int32, cy);                                                                                                   \
    H4V_ND(int, stride_null);                                                                                            \
    H4V_ND(int32, riid_nd);                                                                                              \
    int32 riid = RW_REQ_RIID(riid_nd);                                                                                   \
    H4V_ASSUME(xdim >= 1 && xdim <= RW_MAXDIM && ydim >= 1 && ydim <= RW_MAXDIM);                                         \
    H4V_ASSUME(sx >= -1 && sx <= RW_MAXDIM && sy >= -1 && sy <= RW_MAXDIM);                                              \
    H4V_ASSUME(tx >= 0 && tx <= RW_MAXSTRIDE && ty >= 0 && ty <= RW_MAXSTRIDE);                                          \
    H4V_ASSUME(cx >= 0 && cx <= RW_MAXCNT && cy >= 0 && cy <= RW_MAXCNT);                                                \
    int32  start[2], stridev[2], count[2];                                                                               \
    int32 *stride = stride_null ? NULL : stridev;                                                                        \
    start[0]      = sx;                                                                                                  \
    start[1]      = sy;                                                                                                  \
    stridev[0]    = tx;                                                                                                  \
    stridev[1]    = ty;                                                                                                  \
    count[0]      = cx;                                                                                                  \
    count[1]      = cy;                                                                                                  \
    int32 etx     = stride_null ? 1 : tx;                                                                                \
    int32 ety     = stride_null ? 1 : ty;                                                                                \
    int   args_ok = riid == RW_RIID && sx >= 0 && sy >= 0 && etx >= 1 && ety >= 1 && cx >= 1 && cy >= 1;                 \
    int   inside  = args_ok && sx + (cx - 1) * etx < xdim && sy + (cy - 1) * ety < ydim

void
h_GRreadimage(void)
{
    mk_ghosts();
    MK_REQUEST;
#ifdef RW_OUTSIDE
    H4V_ASSUME(args_ok && !inside);
#elif defined(RW_BADARGS)
    H4V_ASSUME(!args_ok);
#else
    H4V_ASSUME(inside);
#endif
    mk_image_io(xdim, ydim, 0);
    mk_fill_attr();
#ifdef RW_IL
    H4V_ND(gr_interlace_t, im_il);
    H4V_ASSUME(im_il == MFGR_INTERLACE_PIXEL || im_il == MFGR_INTERLACE_LINE || im_il == MFGR_INTERLACE_COMPONENT);
    g_ri->im_il = im_il;
#endif
    RW_ND_BUF(uint8, disk, RW_DISKCAP, RW_DISKCAP);
    g_disk = disk;
    /* caller's buffer: exactly count[X]*count[Y] pixels */
    int32  total = (cx >= 1 && cy >= 1) ? cx * cy * RW_PS : 1;
#ifdef H4V_CBMC
#ifdef RW_CAPDATA
    uint8 *data = malloc(RW_DATACAP); /* arbitrary prior content */
#else
    uint8 *data = malloc((size_t)total); /* arbitrary prior content */
#endif
#else
    uint8 *data = calloc((size_t)total, 1);
#endif
    H4V_ASSUME(data != NULL);
    H4V_ASSUME(0 <= g_c && g_c < RW_NCOMP && 0 <= g_bb && g_bb < RW_CS && g_i >= 0 && g_j >= 0 && g_i < RW_MAXCNT && g_j < RW_MAXCNT);
    /* prior content of the caller's buffer: a named value at the ghost byte (cbmc) / everywhere (replay), so that a byte
       that is never delivered is noticed natively too */
    H4V_ND(uint8, data_init);
#ifdef H4V_CBMC
    if (g_i < cx && g_j < cy)
        data[IL_IDX(g_ri->im_il, g_i, g_j, g_c, cx, cy, RW_NCOMP) * RW_CS + g_bb] = data_init;
#else
    memset(data, data_init, (size_t)total);
#endif
    /* fill model: the ghost request element */
    g_fill_item = g_j * cx + g_i;
    g_fill_exp  = g_attr_present ? g_attr_data[g_c * RW_CS + g_bb] : 0;
    g_doff      = RW_PS * ((sy + g_j * ety) * xdim + sx + g_i * etx) + g_c * RW_CS + g_bb;
    int r       = GRreadimage(riid, start, stride, count, data);
#if !defined(RW_OUTSIDE) && !defined(RW_BADARGS)
#if !defined(RW_HASDATA) || RW_HASDATA == 1
    H4V_COVER(r == SUCCEED && g_has_data && tx == 1 && ty == 1 && sx == 0 && sy == 0 && cx == xdim && cy == ydim && !stride_null,
              "read: whole image");
    H4V_COVER(r == SUCCEED && g_has_data && stride_null && cx < xdim, "read: solid block, no stride array");
    H4V_COVER(r == SUCCEED && g_has_data && tx == 2 && ty == 3 && cx > 1 && !stride_null, "read: strides 2 x 3");
    H4V_COVER(r == SUCCEED && g_has_data && tx == 3 && ty == 1 && cy > 1 && !stride_null, "read: strides 3 x 1");
#if !defined(RW_CONV) || RW_CONV == 1
    H4V_COVER(r == SUCCEED && g_io.nconv > 0, "read: with number-type conversion");
#endif
#endif
#if !defined(RW_HASDATA) || RW_HASDATA == 0
    H4V_COVER(r == SUCCEED && !g_has_data && g_attr_present, "read: no data, fill value attribute");
    H4V_COVER(r == SUCCEED && !g_has_data && !g_attr_present, "read: no data, default fill");
#endif
#endif
    H4V_COVER(r == FAIL, "read: refused or failed");
    H4V_CANARY("GRreadimage end");
}

void
h_GRwriteimage(void)
{
    mk_ghosts();
    MK_REQUEST;
#ifdef RW_OUTSIDE
    H4V_ASSUME(args_ok && !inside);
#elif defined(RW_BADARGS)
    H4V_ASSUME(!args_ok);
#else
    H4V_ASSUME(inside);
#endif
#ifdef RW_SOLID /* contiguous block: both strides 1 (or no stride array) */
    H4V_ASSUME(etx == 1 && ety == 1);
#endif
#ifdef RW_STRIDED
    H4V_ASSUME(!(etx == 1 && ety == 1));
#endif
    mk_image_io(xdim, ydim, 1);
    g_attr_present    = 0;
    g_ri->lattr_count = 0;
    H4V_ND(unsigned, fill_img);
    H4V_ND(int, has_fill_value);
    H4V_ASSUME(fill_img <= 1);
#ifdef RW_FILLIMG
    fill_img = RW_FILLIMG;
#endif
    g_ri->fill_img   = fill_img;
    g_ri->store_fill = FALSE;
    RW_ND_BUF(uint8, fillv, RW_PS, RW_PS);
    g_ri->fill_value = has_fill_value ? fillv : NULL;
    int32 total      = (cx >= 1 && cy >= 1) ? cx * cy * RW_PS : 1;
#if defined(RW_CAPDATA) && defined(H4V_CBMC) && !defined(H4V_CEX)
    /* constant capacity instead of exactly count[X]*count[Y] pixels (symbolic object sizes are expensive; over-reads of the
       caller's buffer are covered by the runs with the exact size) */
    RW_ND_BUF(uint8, wdata, RW_DATACAP, RW_DATACAP);
#else
    RW_ND_BUF(uint8, wdata, total, RW_DATACAP);
#endif

    H4V_ASSUME(0 <= g_c && g_c < RW_NCOMP && 0 <= g_bb && g_bb < RW_CS);
    H4V_ASSUME(0 <= g_x && g_x < xdim && 0 <= g_y && g_y < ydim);
    H4V_ASSUME(g_i >= 0 && g_i <= RW_MAXDIM && g_j >= 0 && g_j <= RW_MAXDIM);
    H4V_ASSUME(g_rx >= 0 && g_rx < RW_MAXSTRIDE && g_ry >= 0 && g_ry < RW_MAXSTRIDE);
    if (args_ok) {
        H4V_ASSUME(g_x < sx || (g_x - sx == g_i * etx + g_rx && 0 <= g_rx && g_rx < etx));
        H4V_ASSUME(g_y < sy || (g_y - sy == g_j * ety + g_ry && 0 <= g_ry && g_ry < ety));
    }
    g_off = RW_PS * (g_y * xdim + g_x) + g_c * RW_CS + g_bb;
    g_fill_item = -1; /* fill lines have xdim <= RW_MAXDIM items: completely materialised */
    g_fill_exp  = has_fill_value ? fillv[g_c * RW_CS + g_bb] : 0;
    int r       = GRwriteimage(riid, start, stride, count, wdata);
#if !defined(RW_OUTSIDE) && !defined(RW_BADARGS)
#if !defined(RW_HASDATA) || RW_HASDATA == 1
    H4V_COVER(r == SUCCEED && g_has_data && tx == 2 && ty == 3 && cx > 1 && !stride_null, "write: existing image, strides 2 x 3");
    H4V_COVER(r == SUCCEED && g_has_data && stride_null && cx < xdim && cy > 1, "write: existing image, solid block");
#endif
#if (!defined(RW_XDIM) || RW_XDIM <= RW_MAXCNT) && !defined(RW_STRIDED)
    H4V_COVER(r == SUCCEED && tx == 1 && ty == 1 && sx == 0 && sy == 0 && cx == xdim && cy == ydim && !stride_null, "write: whole image");
#endif
#if (!defined(RW_HASDATA) || RW_HASDATA == 0) && (!defined(RW_FILLIMG) || RW_FILLIMG == 1)
#if (!defined(RW_XDIM) || RW_XDIM > 1) && !defined(RW_STRIDED)
    H4V_COVER(r == SUCCEED && !g_has_data && fill_img && stride_null && cx < xdim && cy < ydim, "write: new image, solid block with fill");
#endif
#ifndef RW_SOLID
    H4V_COVER(r == SUCCEED && !g_has_data && fill_img && !stride_null && tx == 2 && ty == 2 && cy > 1, "write: new image, strided with fill");
#endif
#endif
#if (!defined(RW_HASDATA) || RW_HASDATA == 0) && (!defined(RW_FILLIMG) || RW_FILLIMG == 0)
    H4V_COVER(r == SUCCEED && !g_has_data && !fill_img && !stride_null && tx == 2 && ty == 2 && cy > 1, "write: new image, strided, no fill");
#endif
#endif
    H4V_COVER(r == FAIL, "write: refused or failed");
    H4V_CANARY("GRwriteimage end");
}

/* ---- palettes */
static void
mk_lut_state(void)
{
    H4V_ND(uint16, lut_tag0);
    H4V_ND(uint16, lut_ref0);
    H4V_ND(int32, ld_ncomps);
    H4V_ND(int32, ld_xdim);
    H4V_ND(int32, ld_nt);
    H4V_ND(gr_interlace_t, ld_il);
    mk_image();
    /* no palette: new image (DFTAG_NULL, 0) or image read from a file (0, 0); palette: DFTAG_LUT or DFTAG_IP8 + a ref */
    H4V_ASSUME(lut_tag0 == DFTAG_NULL || lut_tag0 == 0 || lut_tag0 == DFTAG_LUT || lut_tag0 == DFTAG_IP8);
    H4V_ASSUME((lut_tag0 == DFTAG_NULL || lut_tag0 == 0) ? lut_ref0 == DFREF_WILDCARD : lut_ref0 != DFREF_WILDCARD);
    g_ri->lut_tag = lut_tag0;
    g_ri->lut_ref = lut_ref0;
    H4V_ASSUME(ld_ncomps >= 1 && ld_ncomps <= 4 && ld_xdim >= 1 && ld_xdim <= 256);
    H4V_ASSUME(ld_nt == DFNT_UINT8 || ld_nt == DFNT_UCHAR8);
    H4V_ASSUME(ld_il == MFGR_INTERLACE_PIXEL || ld_il == MFGR_INTERLACE_LINE || ld_il == MFGR_INTERLACE_COMPONENT);
#ifdef LUT_STD
    /* an existing palette has the only geometry GRwritelut supports */
    H4V_ASSUME(ld_ncomps == 3 && ld_xdim == 256 && ld_il == MFGR_INTERLACE_PIXEL && ld_nt == DFNT_UINT8);
#endif
    if (!LUT_NONE(g_ri)) {
        g_ri->lut_dim.ncomps = ld_ncomps;
        g_ri->lut_dim.xdim   = ld_xdim;
        g_ri->lut_dim.ydim   = 1;
        g_ri->lut_dim.nt     = ld_nt;
        g_ri->lut_dim.il     = ld_il;
    }
    g_o_lut_tag = g_ri->lut_tag;
    g_o_lut_ref = g_ri->lut_ref;
    g_o_nolut   = LUT_NONE(g_ri);
    g_o_meta    = g_ri->meta_modified;
    g_o_grmod   = g_gr->gr_modified;
}

#define LUT_BYTES (3 * 256)
void
h_GRwritelut(void)
{
    mk_ghosts();
    mk_lut_state();
    H4V_ND(int32, lutid);
    H4V_ND(int32, ncomps);
    H4V_ND(int32, nt);
    H4V_ND(int32, il);
    H4V_ND(int32, nentries);
    H4V_ND(int, data_null);
    H4V_ASSUME(ncomps >= -1 && ncomps <= 4 && nentries >= -1 && nentries <= 256);
    static uint8 pal[LUT_BYTES];
    H4V_ND(uint8, pal_k);
    H4V_ASSUME(g_k >= 0 && g_k < LUT_BYTES);
    pal[g_k] = pal_k;
#ifdef LUT_NEW
    H4V_ASSUME(g_o_nolut);
#endif
#ifdef LUT_EXIST
    H4V_ASSUME(!g_o_nolut);
#endif
    uint16   o_tag = g_ri->lut_tag, o_ref = g_ri->lut_ref;
    unsigned o_meta = g_ri->meta_modified;
    int      r      = GRwritelut(lutid, ncomps, nt, il, nentries, data_null ? NULL : pal);
    /* the written bytes are the caller's */
    H4V_CHECK(r == FAIL || g_io.put_byte == pal_k, "GRwritelut: the palette element holds the caller's bytes");
    /* invalid arguments / unsupported geometry: palette state unchanged */
    H4V_CHECK(g_io.put_n > 0 || (g_ri->lut_tag == o_tag && g_ri->lut_ref == o_ref && g_ri->meta_modified == o_meta),
              "GRwritelut: a refused call leaves the palette state alone");
#ifndef LUT_EXIST
    H4V_COVER(r == SUCCEED && g_o_nolut && o_tag == 0, "writelut: image from a file without palette");
    H4V_COVER(r == SUCCEED && g_o_nolut && o_tag == DFTAG_NULL, "writelut: new image without palette");
#endif
#ifndef LUT_NEW
    H4V_COVER(r == SUCCEED && !g_o_nolut, "writelut: in place");
#endif
    H4V_COVER(r == FAIL && lutid == RW_RIID, "writelut: refused or failed");
    H4V_CANARY("GRwritelut end");
}

void
h_GRgetlutinfo(void)
{
    mk_ghosts();
    mk_lut_state();
    H4V_ND(int32, lutid);
    int32 ncomp = -7, nt = -7, il = -7, nentries = -7;
    int   r     = GRgetlutinfo(lutid, &ncomp, &nt, &il, &nentries);
    H4V_COVER(r == SUCCEED && LUT_NONE(g_ri), "getlutinfo: no palette");
    H4V_COVER(r == SUCCEED && !LUT_NONE(g_ri), "getlutinfo: palette");
    H4V_CANARY("GRgetlutinfo end");
}

/* write a palette, then ask: info and bytes are the written ones (real GRwritelut, GRgetlutinfo, GRreadlut in sequence) */
void
h_lut_roundtrip(void)
{
    mk_ghosts();
    mk_lut_state();
    H4V_ND(int32, ncomps);
    H4V_ND(int32, nt);
    H4V_ND(int32, il);
    H4V_ND(int32, nentries);
    H4V_ASSUME(ncomps >= 1 && ncomps <= 4 && nentries >= 1 && nentries <= 256);
    static uint8 pal[LUT_BYTES], back[LUT_BYTES];
    H4V_ND(uint8, pal_k);
    H4V_ND(uint8, back_k);
    H4V_ASSUME(g_k >= 0 && g_k < LUT_BYTES);
    pal[g_k]  = pal_k;
    back[g_k] = back_k;
    int   r1  = GRwritelut(RW_RIID, ncomps, nt, il, nentries, pal);
    int32 q_ncomp = -7, q_nt = -7, q_il = -7, q_nentries = -7;
    int   r2  = GRgetlutinfo(RW_RIID, &q_ncomp, &q_nt, &q_il, &q_nentries);
    int   r3  = GRreadlut(RW_RIID, back);
    H4V_CHECK(r1 == FAIL || r2 == SUCCEED, "lut roundtrip: info available after a successful write");
    H4V_CHECK(r1 == FAIL || r2 == FAIL ||
                  (q_ncomp == ncomps && q_nentries == nentries && q_il == il && DFKNTsize(q_nt) == DFKNTsize(nt)),
              "lut roundtrip: GRgetlutinfo reports what was written");
    H4V_CHECK(r1 == FAIL || r3 == FAIL || g_k >= ncomps * nentries * DFKNTsize(nt) || back[g_k] == pal_k,
              "lut roundtrip: GRreadlut returns the bytes written");
    H4V_CHECK(r1 == FAIL || r3 == FAIL || (g_io.get_tag == g_ri->lut_tag && g_io.get_ref == g_ri->lut_ref && g_io.get_n == 1),
              "lut roundtrip: GRreadlut reads the palette element");
    H4V_CHECK(r1 == FAIL || g_io.failed || r3 == SUCCEED, "lut roundtrip: a written palette can be read");
    H4V_COVER(r1 == SUCCEED && r2 == SUCCEED && r3 == SUCCEED && g_o_nolut, "lut roundtrip: new palette");
    H4V_COVER(r1 == SUCCEED && r2 == SUCCEED && r3 == SUCCEED && !g_o_nolut, "lut roundtrip: existing palette");
    H4V_CANARY("lut_roundtrip end");
}

/* ---- attributes */
#ifdef RW_ATTRS
H4V_DECL_ND(char);
static char g_at_name[AT_MAX][AT_NAMECAP];

static void
mk_attrs(void)
{
    H4V_ND(int, nat);
    H4V_ASSUME(nat >= 0 && nat <= AT_MAX);
    mk_image();
    g_nat             = nat;
    g_ri->lattr_count = nat;
    g_ri->attr_modified = 0;
    g_ins_n           = 0;
    g_ins_item        = NULL;
    H4V_HAVOC(int, g_ins_may_fail);
    H4V_ND(char, n00);
    H4V_ND(char, n01);
    H4V_ND(char, n02);
    H4V_ND(char, n10);
    H4V_ND(char, n11);
    H4V_ND(char, n12);
    g_at_name[0][0] = n00;
    g_at_name[0][1] = n01;
    g_at_name[0][2] = n02;
    g_at_name[0][3] = 0;
    g_at_name[1][0] = n10;
    g_at_name[1][1] = n11;
    g_at_name[1][2] = n12;
    g_at_name[1][3] = 0;
    /* names of the list are pairwise different (established by GRsetattr itself: it never appends an existing name) */
    H4V_ASSUME(nat < 2 || rw_strcmp(g_at_name[0], g_at_name[1]) != 0);
    H4V_ND(int32, nt0);
    H4V_ND(int32, nt1);
    H4V_ND(int32, len0);
    H4V_ND(int32, len1);
    H4V_ND(int, cached0);
    H4V_ND(int, cached1);
    H4V_ASSUME((nt0 == DFNT_UINT8 || nt0 == DFNT_INT16 || nt0 == DFNT_INT32) && (nt1 == DFNT_UINT8 || nt1 == DFNT_INT16 || nt1 == DFNT_INT32));
    H4V_ASSUME(len0 >= 1 && len0 <= 4 && len1 >= 1 && len1 <= 4);
    RW_ND_BUF(uint8, atv0, AT_DATACAP, AT_DATACAP);
    RW_ND_BUF(uint8, atv1, AT_DATACAP, AT_DATACAP);
    for (int k = 0; k < AT_MAX; k++) {
        g_at[k].index         = k;
        g_at[k].nt            = k ? nt1 : nt0;
        g_at[k].len           = k ? len1 : len0;
        g_at[k].ref           = (uint16)(20 + k);
        g_at[k].data_modified = FALSE;
        g_at[k].new_at        = FALSE;
        g_at[k].name          = g_at_name[k];
        /* value cached in memory, or not read in yet */
        g_at[k].data          = (k ? cached1 : cached0) ? (k ? atv1 : atv0) : NULL;
        g_atn[k].data         = &g_at[k];
        g_atn[k].key          = &g_at[k].index;
    }
}

void
h_GRsetattr(void)
{
    mk_ghosts();
    mk_attrs();
    H4V_ND(int32, id_nd);
    H4V_ND(int32, attr_nt);
    H4V_ND(int32, count);
    H4V_ND(char, m0);
    H4V_ND(char, m1);
    H4V_ND(char, m2);
    char name[AT_NAMECAP];
    name[0] = m0;
    name[1] = m1;
    name[2] = m2;
    name[3] = 0;
#ifdef AT_BADID
    int32 id = id_nd;
    H4V_ASSUME(id != RW_RIID && id != RW_GRID);
#else
    int32 id = RW_RIID;
#endif
    H4V_ASSUME(attr_nt == DFNT_UINT8 || attr_nt == DFNT_INT16 || attr_nt == DFNT_INT32 || attr_nt == DFNT_NONE);
    H4V_ASSUME(count >= 0 && count <= 4);
    RW_ND_BUF(uint8, val, AT_DATACAP, AT_DATACAP);
    H4V_ASSUME(g_k >= 0 && g_k < AT_DATACAP);
    g_match = (g_nat > 0 && rw_strcmp(g_at_name[0], name) == 0) ? 0 : (g_nat > 1 && rw_strcmp(g_at_name[1], name) == 0) ? 1 : -1;
    H4V_ND(int, oth);
    g_oth = oth;
    H4V_ASSUME(g_oth >= -1 && g_oth < g_nat && (g_oth == -1 || g_oth != g_match));
    g_o_cnt     = g_ri->lattr_count;
    g_o_attrmod = g_ri->attr_modified;
    for (int k = 0; k < AT_MAX; k++) {
        g_o_nt[k]    = g_at[k].nt;
        g_o_len[k]   = g_at[k].len;
        g_o_index[k] = g_at[k].index;
        g_o_data[k]  = g_at[k].data;
        g_o_byte[k]  = g_at[k].data != NULL ? ((const uint8 *)g_at[k].data)[g_k] : 0;
    }
    int r = GRsetattr(id, name, attr_nt, count, val);
#ifndef AT_BADID
    H4V_COVER(r == SUCCEED && g_match == 1 && count > g_o_len[1], "setattr: replace the second attribute, larger value");
    H4V_COVER(r == SUCCEED && g_match == 0 && count < g_o_len[0] && g_nat == 2, "setattr: replace the first attribute, smaller value");
    H4V_COVER(r == SUCCEED && g_match < 0 && g_nat == 2, "setattr: append a third attribute");
    H4V_COVER(r == SUCCEED && g_match < 0 && g_nat == 0, "setattr: first attribute");
    H4V_COVER(r == FAIL && g_match >= 0 && count >= 1 && attr_nt != DFNT_NONE, "setattr: type change refused");
#endif
    H4V_COVER(r == FAIL, "setattr: refused or failed");
    H4V_CANARY("GRsetattr end");
}

void
h_GRattrinfo(void)
{
    mk_ghosts();
    mk_attrs();
    H4V_ND(int32, id);
    H4V_ND(int32, index);
    H4V_ASSUME(id == RW_RIID || id == 0x60000009);
    char  name[AT_NAMECAP];
    int32 nt = -7, count = -7;
    int   r  = GRattrinfo(id, index, name, &nt, &count);
    H4V_COVER(r == SUCCEED && index == 1, "attrinfo: second attribute");
    H4V_COVER(r == FAIL && id == RW_RIID, "attrinfo: index out of range");
    H4V_CANARY("GRattrinfo end");
}

/* set an existing attribute again, then ask: GRattrinfo reports the new count (and the type), under the old index */
void
h_attr_reset_info(void)
{
    mk_ghosts();
    mk_attrs();
    H4V_ASSUME(g_nat == 2);
    g_ins_may_fail = 0;
    H4V_ND(int32, count);
    H4V_ND(int, which);
    H4V_ASSUME(count >= 1 && count <= 4 && (which == 0 || which == 1));
    RW_ND_BUF(uint8, rval, AT_DATACAP, AT_DATACAP);
    int32 nt_w  = g_at[which].nt;
    int32 oth_n = g_at[1 - which].len, oth_t = g_at[1 - which].nt;
    int   r1    = GRsetattr(RW_RIID, g_at_name[which], nt_w, count, rval);
    char  name[AT_NAMECAP];
    int32 q_nt = -7, q_count = -7, o_nt = -7, o_count = -7;
    int   r2   = GRattrinfo(RW_RIID, which, name, &q_nt, &q_count);
    int   r3   = GRattrinfo(RW_RIID, 1 - which, name, &o_nt, &o_count);
    H4V_CHECK(r1 == FAIL || (r2 == SUCCEED && q_nt == nt_w && q_count == count), "attr: info after re-setting reports the new count under the old index");
    H4V_CHECK(r3 == SUCCEED && o_nt == oth_t && o_count == oth_n, "attr: the other attribute is intact");
    H4V_COVER(r1 == SUCCEED && which == 1, "attr_reset_info: second attribute re-set");
    H4V_CANARY("attr_reset_info end");
}

/* GRgetattr: the value is the cached one, or the one on disk when nothing is cached; a value that exists ONLY in memory (set and
   not yet written out: data_modified) is never discarded, whatever its size relative to the cache threshold.  The threshold
   (gr_ptr->attr_cache) is symbolic 1..16 here so that values below, AT and above it are all covered.
   History invariant of the list (kept by GRsetattr: it caches a value iff its size is <= the threshold on the replace path,
   < on the create path): data_modified ==> cached and size <= threshold. */
void
h_GRgetattr(void)
{
    mk_ghosts();
    mk_attrs();
    H4V_ND(int32, idx);
    H4V_ND(int, cache);
    H4V_ND(int, modified);
    H4V_ND(uint8, diskbyte);
    H4V_ASSUME(g_nat >= 1 && idx >= 0 && idx < g_nat && cache >= 1 && cache <= 16);
    g_gr->attr_cache = (uint32)cache;
    int32 size = g_at[idx].len * DFKNTsize((g_at[idx].nt | DFNT_NATIVE) & (~DFNT_LITEND));
    H4V_ASSUME(g_k >= 0 && g_k < size && size <= AT_DATACAP);
    H4V_ASSUME(!modified || (g_at[idx].data != NULL && size <= cache));
    g_at[idx].data_modified = modified ? TRUE : FALSE;
    g_at_disk = diskbyte;
    g_vs_n = g_vs_failed = g_vs_open = 0;
    int    cached0 = g_at[idx].data != NULL;
    uint8  old_b   = cached0 ? ((uint8 *)g_at[idx].data)[g_k] : 0;
    int    oth     = g_nat > 1 ? 1 - idx : -1;
    void  *oth_d   = oth >= 0 ? g_at[oth].data : NULL;
    uint8 *buf     = malloc(AT_DATACAP);
    H4V_ASSUME(buf != NULL);
    int r = GRgetattr(RW_RIID, idx, buf);
    H4V_CHECK(g_vs_failed || r == SUCCEED, "GRgetattr succeeds unless the V layer fails");
    H4V_CHECK(!cached0 || g_vs_n == 0, "GRgetattr: a cached value is not read from the file again");
    H4V_CHECK(r != SUCCEED || buf[g_k] == (cached0 ? old_b : diskbyte), "C10 GRgetattr returns the cached value, or the stored one when nothing is cached");
    H4V_CHECK(!modified || (g_at[idx].data != NULL && ((uint8 *)g_at[idx].data)[g_k] == old_b && g_at[idx].data_modified == TRUE),
              "C10 GRgetattr never discards a value that exists only in memory (set, not yet written out)");
    H4V_CHECK(g_vs_open == 0 || g_vs_failed, "GRgetattr detaches the attribute Vdata again");
    H4V_CHECK(oth < 0 || g_at[oth].data == oth_d, "GRgetattr leaves the other attribute alone");
    H4V_COVER(r == SUCCEED && modified && size == cache, "getattr: modified value of exactly the threshold size");
    H4V_COVER(r == SUCCEED && !cached0 && size > cache, "getattr: large value read and dropped again");
    H4V_COVER(r == FAIL && g_vs_failed, "getattr: V layer failure");
    H4V_CANARY("GRgetattr end");
}
#endif

/* Verification unit: hdf/src/dfrle.c (C09: "results are unchanged ... under lossless compression" -- the old-style RLE of 8-bit
   rasters, DFTAG_RLE, which hcompri.c serves to GR through DFputcomp / DFgetcomp).
   BOUNDED round trip DFCIrle -> DFCIunrle on ONE ROW shaped "a run of R equal bytes followed by up to T other bytes": the shape that
   exercises the run-length limit (a count byte is 128 | n with n <= 127; a run of 128 would be stored as 128 | 128 == 0x80, which
   decodes as a run of length 0).  Both functions are the real ones, every loop unwound. */
#include "h4v.h"
#include "h4v_err.h"
#include "hdf_priv.h"
#include "dfrle.c"

#ifndef RL_MAXRUN
#define RL_MAXRUN 135
#endif
#define RL_TAIL 2
#define RL_MAXLEN (RL_MAXRUN + RL_TAIL)
typedef unsigned char h4v_u8;
H4V_DECL_ND(int);
H4V_DECL_ND(h4v_u8);

void
h_dfrle_roundtrip(void)
{
    static uint8 in[RL_MAXLEN], out[2 * RL_MAXLEN + 8], back[RL_MAXLEN];
    H4V_ND(int, run);
    H4V_ND(int, tail);
    H4V_ND(h4v_u8, a);
    H4V_ND(h4v_u8, t0);
    H4V_ND(h4v_u8, t1);
    H4V_ND(int, k);
    H4V_ASSUME(run >= 0 && run <= RL_MAXRUN && tail >= 0 && tail <= RL_TAIL && run + tail >= 1);
    H4V_ASSUME(t0 != a); /* the run ends where it is said to end */
    int32 len = run + tail;
    for (int i = 0; i < RL_MAXLEN; i++)
        in[i] = i < run ? a : (i == run ? t0 : t1);
    H4V_ASSUME(k >= 0 && k < len);
    int32 n = DFCIrle(in, out, len);
    H4V_CHECK(n >= 1 && n <= 2 * RL_MAXLEN + 8, "DFCIrle: the encoded row fits the worst-case buffer");
    for (int i = 0; i < RL_MAXLEN; i++)
        back[i] = 0;
    int32 used = DFCIunrle(out, back, len, 1);
    H4V_CHECK(used == n, "DFCIunrle consumes exactly the bytes DFCIrle produced for the row");
    H4V_CHECK(back[k] == in[k], "C09 old-style RLE: the decoded row is the encoded row");
    H4V_COVER(run == 128 && tail == 1, "dfrle: run of exactly 128");
    H4V_COVER(run == RL_MAXRUN, "dfrle: longest run");
    H4V_COVER(run == 2 && tail == 2, "dfrle: short run stays literal");
    H4V_CANARY("dfrle_roundtrip end");
}

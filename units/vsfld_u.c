/* Verification unit: hdf/src/vsfld.c + hdf/src/vg.c (VSsetname/VSsetclass/VSsizeof/VSfexist live there)
   C07: schema definition and field lists; C20: order/size/field-count/name-length limits.
   dfconv.c is included for the REAL DFKNTsize (nothing else of it is reached). */
#include "h4v.h"
#include "h4v_err.h"
#include <string.h>
#include "vg_priv.h"

/* ---------------- ghost environment ---------------- */
vsinstance_t *g_w;  /* the instance HAatom_object hands out */
VDATA        *g_vs; /* the vdata object (always valid memory; g_w->vs is g_vs or NULL) */
int           g_grp;       /* answer of HAatom_group */
int           g_inst_null; /* HAatom_object answers NULL */
int32         g_scan_ret;  /* answer of scanattrs */
int32         g_scan_ac;   /* token count scanattrs reports */
int           g_strdup_failed;
char         *g_av[VSFIELDMAX + 2]; /* token vector scanattrs reports */
/* snapshots taken by the harness before the call */
int32  g_old_n;        /* nusym resp. wlist.n on entry */
int    g_isize;        /* DFKNTsize(localtype), the real function */
int32  g_k, g_o;       /* ghost indices */
SYMDEF g_old_k, g_old_o; /* usym[g_k], usym[g_o] on entry */
int    g_old_len, g_new_len; /* strlen of the current / the new name */
int    g_old_hsz;
/* VSsetfields: what the specification-level lookup expects for ghost field g_k, and the true total */
int32  g_exp_isize, g_exp_total;
int32  g_exp_esize; /* order x native size of the ghost field's type */
int32  g_exp_ok;    /* every requested name is defined (user table first, then the predefined fields) */
int16  g_exp_type;
uint16 g_exp_order;
char   g_old_c; /* character at ghost position g_o of the current name */

/* ---------------- stubs (callees outside the unit) ---------------- */
group_t
HAatom_group(atom_t atm)
{
    return (group_t)g_grp;
}
void *
HAatom_object(atom_t atm)
{
    return g_inst_null ? NULL : (void *)g_w;
}
/* vparse.c:scanattrs -- trusted stub: FAIL, or a vector of g_scan_ac NUL-terminated tokens */
int32
scanattrs(const char *attrs, int32 *attrc, char ***attrv)
{
    H4V_CHECK(attrs != NULL, "scanattrs is given a string");
    if (g_scan_ret == FAIL)
        return FAIL;
    *attrc = g_scan_ac;
    *attrv = g_av;
    return SUCCEED;
}

#if defined(H4V_CBMC) && !defined(H4V_CEX) && defined(H4V_ABS_STR)
/* proof mode of VSfdefine: strcmp is abstracted to "any result" (over-approximation of every
   name table; its reads are trusted: names are NUL-terminated by construction), strdup to
   "NULL or a fresh non-NULL string".  Counterexample mode and the native replay use libc. */
int nondet_int(void);
static int
h4v_strcmp(const char *a, const char *b)
{
    return nondet_int();
}
static char *
h4v_strdup(const char *s)
{
    char *p = nondet_int() ? NULL : malloc(1);
    if (p == NULL) {
        g_strdup_failed = 1;
        return NULL;
    }
    *p = 0;
    return p;
}
#define strcmp(a, b)  h4v_strcmp(a, b)
#define strdup(s)     h4v_strdup(s)
#endif
#if defined(H4V_CBMC) && ((defined(H4V_CEX) && defined(H4V_ABS_STR)) || defined(H4V_SMALL_STR))
/* counterexample mode: the harness builds names of at most NMLEN characters; for those these
   unrolled models are exact (cbmc's own strcmp/strdup models make the search run out of memory) */
#ifndef NMLEN
#define NMLEN 1
#endif
static int
h4v_strcmp(const char *a, const char *b)
{
    for (int i = 0; i <= NMLEN; i++) {
        if (a[i] != b[i])
            return a[i] < b[i] ? -1 : 1; /* 7-bit names: same order as unsigned comparison */
        if (a[i] == 0)
            return 0;
    }
    return 0;
}
static char *
h4v_strdup(const char *s)
{
    char *p = malloc(NMLEN + 1);
    if (p == NULL) {
        g_strdup_failed = 1;
        return NULL;
    }
    for (int i = 0; i <= NMLEN; i++) {
        p[i] = s[i];
        if (s[i] == 0)
            break;
    }
    return p;
}
#define strcmp(a, b) h4v_strcmp(a, b)
#define strdup(s)    h4v_strdup(s)
#endif
#ifdef H4V_CBMC
/* realloc of the user symbol table: cbmc's model copies the whole array of symbolic size (not
   tractable); this model allocates a fresh block with ARBITRARY contents, copies the two ghost
   elements g_k and g_o, and frees the old block -- an over-approximation of realloc that agrees
   with it on the ghost elements, which are arbitrary: sound for every clause about them. */
static void *
h4v_realloc(void *old, size_t n)
{
    SYMDEF *o = (SYMDEF *)old;
    SYMDEF *p = (SYMDEF *)malloc(n);
    if (p == NULL)
        return NULL;
    if (g_k >= 0 && g_k < g_old_n && ((size_t)g_k + 1) * sizeof(SYMDEF) <= n)
        p[g_k] = o[g_k];
    if (g_o >= 0 && g_o < g_old_n && ((size_t)g_o + 1) * sizeof(SYMDEF) <= n)
        p[g_o] = o[g_o];
    free(old);
    return p;
}
#define realloc(p, n) h4v_realloc(p, n)
#endif

#ifdef H4V_CBMC
/* libc model missing from cbmc's library */
size_t
strnlen(const char *s, size_t maxlen)
{
    size_t i = 0;
    while (i < maxlen && s[i] != 0)
        i++;
    return i;
}
#endif

/* malloc may fail in cbmc 6 (and in the real world): log it, so that "a well-formed request succeeds"
   can be stated "allocation failure apart" */
int g_malloc_failed;
static void *
h4v_malloc(size_t n)
{
    void *p = malloc(n);
    if (p == NULL)
        g_malloc_failed = 1;
    return p;
}
#define malloc(n) h4v_malloc(n)

#include "dfconv.c"
#include "vsfld.c"
#include "vg.c"

/* ---------------- contracts ---------------- */
#define SYM_SAME(a, b) ((a).name == (b).name && (a).type == (b).type && (a).isize == (b).isize && (a).order == (b).order)
#define SYM_NEWDEF(s)                                                                                \
    ((s).name != NULL && (s).type == (int16)localtype && (s).order == (uint16)order && (s).isize == (uint16)g_isize)
#define KEY_BAD (g_grp != VSIDGROUP || g_inst_null || g_w->vs == NULL)
#define ENV_WF  (g_w != NULL && g_vs != NULL && (g_w->vs == NULL || g_w->vs == g_vs))

int VSfdefine(int32 vkey, const char *field, int32 localtype, int32 order)
    __CPROVER_requires(ENV_WF && field != NULL)
    /* representation invariant of the user symbol table; int16 counter: the type's domain */
    __CPROVER_requires(g_vs->nusym >= 0 && (g_vs->nusym == 0) == (g_vs->usym == NULL))
    __CPROVER_requires(g_old_n == g_vs->nusym)
    __CPROVER_requires(g_scan_ret == FAIL || g_scan_ac >= 1)
    __CPROVER_assigns(g_vs->nusym, g_vs->usym, g_strdup_failed, g_malloc_failed)
    __CPROVER_assigns(g_vs->usym != NULL: __CPROVER_object_whole(g_vs->usym))
    __CPROVER_frees(g_vs->usym)
    __CPROVER_ensures(__CPROVER_return_value == SUCCEED || __CPROVER_return_value == FAIL)
    /* C07/C20 limits: order in [1,MAX_ORDER]; unknown type; isize*order <= MAX_FIELD_SIZE */
    __CPROVER_ensures((order < 1 || order > MAX_ORDER) ==> __CPROVER_return_value == FAIL)
    __CPROVER_ensures(g_isize == FAIL ==> __CPROVER_return_value == FAIL)
    __CPROVER_ensures((order >= 1 && order <= MAX_ORDER && g_isize != FAIL && g_isize * order > MAX_FIELD_SIZE) ==>
                      __CPROVER_return_value == FAIL)
    __CPROVER_ensures((KEY_BAD || g_scan_ret == FAIL || g_scan_ac != 1) ==> __CPROVER_return_value == FAIL)
    /* success: either appended at the end, or exactly one existing entry redefined */
    __CPROVER_ensures(__CPROVER_return_value == SUCCEED ==> (g_vs->nusym == g_old_n + 1 || g_vs->nusym == g_old_n))
    __CPROVER_ensures((__CPROVER_return_value == SUCCEED && g_vs->nusym == g_old_n + 1) ==>
                      (g_vs->usym != NULL && SYM_NEWDEF(g_vs->usym[g_old_n])))
    /* table growth keeps every earlier symbol (ghost index g_k) */
    __CPROVER_ensures((__CPROVER_return_value == SUCCEED && g_vs->nusym == g_old_n + 1 && g_k >= 0 && g_k < g_old_n) ==>
                      SYM_SAME(g_vs->usym[g_k], g_old_k))
    __CPROVER_ensures((__CPROVER_return_value == SUCCEED && g_vs->nusym == g_old_n && g_k >= 0 && g_k < g_old_n) ==>
                      (SYM_SAME(g_vs->usym[g_k], g_old_k) || SYM_NEWDEF(g_vs->usym[g_k])))
    __CPROVER_ensures((__CPROVER_return_value == SUCCEED && g_vs->nusym == g_old_n && g_k >= 0 && g_k < g_old_n &&
                       g_o >= 0 && g_o < g_old_n && g_o != g_k) ==>
                      (SYM_SAME(g_vs->usym[g_k], g_old_k) || SYM_SAME(g_vs->usym[g_o], g_old_o)))
    /* a refused request changes nothing (count; entries unless strdup ran out of memory) */
    __CPROVER_ensures(__CPROVER_return_value == FAIL ==> g_vs->nusym == g_old_n)
    __CPROVER_ensures((__CPROVER_return_value == FAIL && !g_strdup_failed && g_k >= 0 && g_k < g_old_n) ==>
                      SYM_SAME(g_vs->usym[g_k], g_old_k));

/* ---- VSsetname / VSsetclass (vg.c): C20 "names longer than legacy fixed buffers are handled or
   rejected without overrunning memory"; C07 the name read back is the (truncated) name set ---- */
#define NM_KEPT (g_new_len > VSNAMELENMAX ? VSNAMELENMAX : g_new_len)

int32 VSsetname(int32 vkey, const char *vsname)
    __CPROVER_requires(ENV_WF)
    __CPROVER_requires(vsname == NULL || (g_new_len >= 0 && vsname[g_new_len] == 0))
    __CPROVER_requires(g_old_len >= 0 && g_old_len <= VSNAMELENMAX && g_vs->vsname[g_old_len] == 0)
    __CPROVER_requires(g_o >= 0 && g_o <= VSNAMELENMAX && g_old_c == g_vs->vsname[g_o] && g_old_hsz == g_vs->new_h_sz)
    /* the frame: nothing but the 65-byte name field and the two flags is written */
    __CPROVER_assigns(g_vs->vsname, g_vs->marked, g_vs->new_h_sz)
    /* refused: bad key, no name, or a vdata not attached for writing (C14) */
    __CPROVER_ensures((KEY_BAD || vsname == NULL || g_vs->access != 'w') ==> __CPROVER_return_value == FAIL)
    __CPROVER_ensures(!(KEY_BAD || vsname == NULL || g_vs->access != 'w') ==> __CPROVER_return_value == SUCCEED)
    /* always NUL-terminated, at the length of the name or at the limit */
    __CPROVER_ensures(__CPROVER_return_value == SUCCEED ==> g_vs->vsname[NM_KEPT] == 0)
    __CPROVER_ensures((__CPROVER_return_value == SUCCEED && g_k >= 0 && g_k < NM_KEPT) ==> g_vs->vsname[g_k] == vsname[g_k])
    __CPROVER_ensures(__CPROVER_return_value == SUCCEED ==>
                      (g_vs->marked == TRUE && g_vs->new_h_sz == (g_old_len < g_new_len ? TRUE : g_old_hsz)))
    __CPROVER_ensures(__CPROVER_return_value == FAIL ==> (g_vs->vsname[g_o] == g_old_c && g_vs->new_h_sz == g_old_hsz));

int32 VSsetclass(int32 vkey, const char *vsclass)
    __CPROVER_requires(ENV_WF)
    __CPROVER_requires(vsclass == NULL || (g_new_len >= 0 && vsclass[g_new_len] == 0))
    __CPROVER_requires(g_old_len >= 0 && g_old_len <= VSNAMELENMAX && g_vs->vsclass[g_old_len] == 0)
    __CPROVER_requires(g_o >= 0 && g_o <= VSNAMELENMAX && g_old_c == g_vs->vsclass[g_o] && g_old_hsz == g_vs->new_h_sz)
    __CPROVER_assigns(g_vs->vsclass, g_vs->marked, g_vs->new_h_sz)
    /* refused: bad key, no name, or a vdata not attached for writing (C14) */
    __CPROVER_ensures((KEY_BAD || vsclass == NULL || g_vs->access != 'w') ==> __CPROVER_return_value == FAIL)
    __CPROVER_ensures(!(KEY_BAD || vsclass == NULL || g_vs->access != 'w') ==> __CPROVER_return_value == SUCCEED)
    __CPROVER_ensures(__CPROVER_return_value == SUCCEED ==> g_vs->vsclass[NM_KEPT] == 0)
    __CPROVER_ensures((__CPROVER_return_value == SUCCEED && g_k >= 0 && g_k < NM_KEPT) ==> g_vs->vsclass[g_k] == vsclass[g_k])
    __CPROVER_ensures(__CPROVER_return_value == SUCCEED ==>
                      (g_vs->marked == TRUE && g_vs->new_h_sz == (g_old_len < g_new_len ? TRUE : g_old_hsz)))
    __CPROVER_ensures(__CPROVER_return_value == FAIL ==> (g_vs->vsclass[g_o] == g_old_c && g_vs->new_h_sz == g_old_hsz));

/* ---- VSsetfields, write list of a new vdata (access 'w', no records, no fields yet).
   The number of requested fields is a CONSTANT per run (SF_AC = 1, 2, 3) so that the five sub-arrays of
   wlist->bptr sit at concrete offsets; names are at most NMLEN = 2 characters (the predefined fields are
   "PX".."NZ") and are compared by an unrolled exact strcmp.  What the lookup of each requested name must
   give (user table first, then predefined) is computed by the harness with a specification-level lookup
   and handed to the contract in g_exp_*. ---- */
#define WL (g_vs->wlist)
#define WL_ISZ(j) ((j) < WL.n ? (int32)WL.isize[j] : 0)
#define SF_GATE_BAD (fields == NULL || KEY_BAD || g_scan_ret == FAIL || g_scan_ac == 0)
int VSsetfields(int32 vkey, const char *fields)
    __CPROVER_requires(ENV_WF && g_vs->access == 'w' && g_vs->nvertices == 0 && g_vs->wlist.n == 0)
    __CPROVER_requires(g_vs->nusym >= 0 && (g_vs->nusym == 0) == (g_vs->usym == NULL))
    __CPROVER_requires(g_scan_ret == FAIL || g_scan_ac >= 0)
    __CPROVER_assigns(g_vs->wlist, g_vs->marked, g_vs->new_h_sz, g_strdup_failed, g_malloc_failed)
    __CPROVER_ensures(__CPROVER_return_value == SUCCEED || __CPROVER_return_value == FAIL)
    __CPROVER_ensures(SF_GATE_BAD ==> __CPROVER_return_value == FAIL)
    /* C20: more than VSFIELDMAX fields are refused */
    __CPROVER_ensures(g_scan_ac > VSFIELDMAX ==> __CPROVER_return_value == FAIL)
    /* a name that is neither user-defined nor predefined is refused */
    __CPROVER_ensures(!g_exp_ok ==> __CPROVER_return_value == FAIL)
    /* C20: a record size (the SUM over all requested fields, user-defined and predefined alike) that does
       not fit the 16-bit header field is refused, never wrapped */
    __CPROVER_ensures(g_exp_total > MAX_FIELD_SIZE ==> __CPROVER_return_value == FAIL)
    /* ... and nothing else is: a well-formed request succeeds (allocation failure apart) */
    __CPROVER_ensures((!SF_GATE_BAD && g_scan_ac <= VSFIELDMAX && g_exp_ok && g_exp_total <= MAX_FIELD_SIZE && !g_strdup_failed && !g_malloc_failed) ==>
                      __CPROVER_return_value == SUCCEED)
    /* C07: on success all requested fields are in the table, offsets are the running sum of the
       field sizes and the record size is their total (at most 4 fields per run) */
    __CPROVER_ensures(__CPROVER_return_value == SUCCEED ==> (WL.n == g_scan_ac && WL.n <= 4))
    __CPROVER_ensures((__CPROVER_return_value == SUCCEED && g_k >= 0 && g_k < WL.n) ==>
                      (int32)WL.off[g_k] == (g_k > 0 ? WL_ISZ(0) : 0) + (g_k > 1 ? WL_ISZ(1) : 0) + (g_k > 2 ? WL_ISZ(2) : 0))
    __CPROVER_ensures(__CPROVER_return_value == SUCCEED ==>
                      (int32)WL.ivsize == WL_ISZ(0) + WL_ISZ(1) + WL_ISZ(2) + WL_ISZ(3))
    __CPROVER_ensures(__CPROVER_return_value == SUCCEED ==> (int32)WL.ivsize == g_exp_total)
    /* each field: type and order of its CURRENT definition, stored size = order x size of that type,
       memory size = order x native size of that type */
    __CPROVER_ensures((__CPROVER_return_value == SUCCEED && g_k >= 0 && g_k < WL.n) ==>
                      ((int32)WL.isize[g_k] == g_exp_isize && WL.type[g_k] == g_exp_type && WL.order[g_k] == g_exp_order &&
                       (int32)WL.esize[g_k] == g_exp_esize && WL.name[g_k] != NULL))
    __CPROVER_ensures(__CPROVER_return_value == SUCCEED ==> (g_vs->marked == TRUE && g_vs->new_h_sz == TRUE))
    /* C20: after a refused request the vdata is as before: no half-built field list */
    __CPROVER_ensures(__CPROVER_return_value == FAIL ==> (WL.n == 0 && WL.ivsize == __CPROVER_old(g_vs->wlist.ivsize)));

#ifdef H4V_NATIVE
#include "h4v_native_wrap.h"
#endif

/* ---------------- harnesses ---------------- */
H4V_DECL_ND(int);
H4V_DECL_ND(int16);
H4V_DECL_ND(uint16);
H4V_DECL_ND(int32);

#ifndef NUSYM_CAP
#define NUSYM_CAP 12 /* counterexample mode / bounded runs: table size cap */
#endif
#ifndef NMLEN
#define NMLEN 2 /* counterexample mode / bounded runs: name length cap */
#endif

/* key, instance and vdata object; the three "bad key" cases are input choices */
static VDATA *
mk_env(void)
{
    H4V_ND(int, grp);
    H4V_ND(int, inst_null);
    H4V_ND(int, vs_null);
    g_grp       = grp;
    g_inst_null = inst_null;
    g_w         = malloc(sizeof(vsinstance_t));
    g_vs        = malloc(sizeof(VDATA));
    H4V_ASSUME(g_w != NULL && g_vs != NULL);
    memset(g_vs, 0, sizeof(VDATA));
    g_w->vs         = vs_null ? NULL : g_vs;
    g_strdup_failed = 0;
    g_malloc_failed = 0;
    H4V_HAVOC(int32, g_k);
    H4V_HAVOC(int32, g_o);
    return g_vs;
}

/* the same with a GOOD key, built from constants only: cbmc's constant propagation then resolves
   vs, vs->nusym, ac ... so that the loops of the real code unwind to their true (constant) bounds.
   The bad-key / refused cases have their own harnesses. */
static VDATA *
mk_env_good(void)
{
    static vsinstance_t w_obj;
    static VDATA        vs_obj;
    g_grp       = VSIDGROUP;
    g_inst_null = 0;
    g_w         = &w_obj;
    g_vs        = &vs_obj;
    memset(&vs_obj, 0, sizeof(VDATA));
    w_obj.vs        = &vs_obj;
    g_strdup_failed = 0;
    g_malloc_failed = 0;
    H4V_HAVOC(int32, g_k);
    H4V_HAVOC(int32, g_o);
    return g_vs;
}

/* a token vector of ac names of at most NMLEN characters (named inputs) */
static void
mk_tokens(int32 ac, int cap)
{
    H4V_ND_BUF(uint8, toks, cap *(NMLEN + 1), 4 * (NMLEN + 1));
    for (int i = 0; i < cap; i++) {
        toks[i * (NMLEN + 1) + NMLEN] = 0;
        g_av[i]                       = (char *)&toks[i * (NMLEN + 1)];
    }
    g_av[cap] = NULL;
}

void
h_VSfdefine(void)
{
    VDATA *vs = mk_env();
    H4V_ND(int16, nusym);
    H4V_ND(int32, localtype);
    H4V_ND(int32, order);
    H4V_ND(int32, scan_ret);
    H4V_ND(int32, scan_ac);
    H4V_ASSUME(nusym >= 0);
    H4V_ASSUME(scan_ret == FAIL || scan_ret == SUCCEED);
    H4V_ASSUME(scan_ac >= 1);
    g_scan_ret = scan_ret;
    g_scan_ac  = scan_ac;
#if defined(H4V_CBMC) && !defined(H4V_CEX) && defined(H4V_ABS_STR)
    /* proof mode: a table of any size with arbitrary contents */
#ifdef NUSYM_MAX
    H4V_ASSUME(nusym <= NUSYM_MAX);
#endif
    SYMDEF *usym = nusym ? malloc((size_t)nusym * sizeof(SYMDEF)) : NULL;
    H4V_ASSUME(nusym == 0 || usym != NULL);
    char *tok = malloc(1);
    H4V_ASSUME(tok != NULL);
    *tok    = 0;
    g_av[0] = tok;
    g_av[1] = NULL;
#else
    /* counterexample mode / native replay: a concrete table of named values */
    H4V_ASSUME(nusym <= NUSYM_CAP);
#ifdef H4V_CBMC /* constant-size block keeps the counterexample search small */
    SYMDEF *usym = nusym ? malloc(NUSYM_CAP * sizeof(SYMDEF)) : NULL;
#else
    SYMDEF *usym = nusym ? malloc((size_t)nusym * sizeof(SYMDEF)) : NULL;
#endif
    H4V_ASSUME(nusym == 0 || usym != NULL);
    H4V_ND_BUF(uint16, us_type, nusym, NUSYM_CAP);
    H4V_ND_BUF(uint16, us_isize, nusym, NUSYM_CAP);
    H4V_ND_BUF(uint16, us_order, nusym, NUSYM_CAP);
    H4V_ND_BUF(uint8, us_name, nusym *(NMLEN + 1), NUSYM_CAP *(NMLEN + 1));
    for (int i = 0; i < NUSYM_CAP; i++)
        if (i < nusym) {
            us_name[i * (NMLEN + 1) + NMLEN] = 0;
            usym[i].name                     = (char *)&us_name[i * (NMLEN + 1)];
            H4V_ASSUME(us_type[i] <= 32767);
            usym[i].type  = (int16)us_type[i];
            usym[i].isize = us_isize[i];
            usym[i].order = us_order[i];
        }
    mk_tokens(1, 1);
    char *tok = g_av[0];
#endif
    vs->nusym = nusym;
    vs->usym  = usym;
    g_old_n   = nusym;
    g_isize   = DFKNTsize(localtype);
    if (g_k >= 0 && g_k < nusym)
        g_old_k = usym[g_k];
    if (g_o >= 0 && g_o < nusym)
        g_old_o = usym[g_o];
    int r = VSfdefine(7, tok, localtype, order);
    H4V_COVER(r == SUCCEED && vs->nusym == nusym + 1 && nusym > 0, "VSfdefine grows a non-empty table");
    H4V_COVER(r == SUCCEED && vs->nusym == nusym + 1 && nusym == 0, "VSfdefine first symbol");
    H4V_COVER(r == SUCCEED && vs->nusym == nusym, "VSfdefine redefines a symbol");
    H4V_COVER(r == FAIL && order == 70000, "VSfdefine refuses order 70000");
    H4V_CANARY("VSfdefine end");
}

/* ---- VSfdefine, redefinition of an existing user field (bounded: RD_NUSYM symbols, names <= NMLEN chars,
   exact strcmp/strdup).  C07 "field names/types/orders are consistent with that table": after a SUCCESSFUL
   VSfdefine(name, type, order) the definition that a lookup of `name` finds (the one VSsetfields will use:
   first entry of that name) is the NEW one -- type, order AND stored element size -- and no other name's
   definition changed.  The contract of VSfdefine is enforced in the same run. ---- */
#ifndef RD_NUSYM
#define RD_NUSYM 2
#endif
static int
rd_streq(const char *a, const char *b)
{
    for (int i = 0; i <= NMLEN; i++) {
        if (a[i] != b[i])
            return 0;
        if (a[i] == 0)
            return 1;
    }
    return 1;
}
void
h_VSfdefine_redef(void)
{
    VDATA *vs = mk_env_good();
    H4V_ND(int32, localtype);
    H4V_ND(int32, order);
    g_scan_ret = SUCCEED;
    g_scan_ac  = 1;
    SYMDEF *usym = malloc(RD_NUSYM * sizeof(SYMDEF));
    H4V_ASSUME(usym != NULL);
    H4V_ND_BUF(uint16, us_type, RD_NUSYM, 3);
    H4V_ND_BUF(uint16, us_order, RD_NUSYM, 3);
    H4V_ND_BUF(uint8, us_name, RD_NUSYM *(NMLEN + 1), 3 * (NMLEN + 1));
    static SYMDEF before[RD_NUSYM];
    for (int i = 0; i < RD_NUSYM; i++) {
        H4V_ASSUME(us_type[i] <= 32767);
        int32 tsz = DFKNTsize(us_type[i]);
        H4V_ASSUME(us_order[i] >= 1 && tsz > 0 && (int32)us_order[i] * tsz <= MAX_FIELD_SIZE);
        us_name[i * (NMLEN + 1) + NMLEN] = 0;
        usym[i].name                     = (char *)&us_name[i * (NMLEN + 1)];
        usym[i].type                     = (int16)us_type[i];
        usym[i].isize                    = (uint16)tsz;
        usym[i].order                    = us_order[i];
        before[i]                        = usym[i];
    }
    mk_tokens(1, 1);
    char *tok = g_av[0];
    vs->nusym = RD_NUSYM;
    vs->usym  = usym;
    g_old_n   = RD_NUSYM;
    g_isize   = DFKNTsize(localtype);
    /* the realloc model copies the two ghost elements: with two symbols that is the whole table */
    g_k     = 0;
    g_o     = RD_NUSYM > 1 ? 1 : 0;
    g_old_k = usym[g_k];
    g_old_o = usym[g_o];
    int existed = 0;
    for (int i = 0; i < RD_NUSYM; i++)
        if (rd_streq(tok, usym[i].name))
            existed = 1;
    int r = VSfdefine(7, tok, localtype, order);
    if (r == SUCCEED) {
        int first = -1;
        for (int i = 0; i < RD_NUSYM + 1; i++)
            if (first < 0 && i < vs->nusym && rd_streq(tok, vs->usym[i].name))
                first = i;
        H4V_CHECK(first >= 0, "VSfdefine: the defined name is in the table");
        if (first >= 0) {
            H4V_CHECK(vs->usym[first].type == (int16)localtype, "VSfdefine: lookup of the (re)defined name gives the new type");
            H4V_CHECK(vs->usym[first].order == (uint16)order, "VSfdefine: lookup of the (re)defined name gives the new order");
            H4V_CHECK(vs->usym[first].isize == (uint16)g_isize, "VSfdefine: lookup of the (re)defined name gives the size of the new type");
        }
        /* definitions under other names are untouched */
        for (int i = 0; i < RD_NUSYM; i++)
            if (!rd_streq(tok, before[i].name)) {
                H4V_CHECK(vs->usym[i].type == before[i].type && vs->usym[i].order == before[i].order &&
                              vs->usym[i].isize == before[i].isize && rd_streq(vs->usym[i].name, before[i].name),
                          "VSfdefine: definitions of other names are unchanged");
            }
    }
    H4V_COVER(r == SUCCEED && existed && vs->nusym == RD_NUSYM, "VSfdefine replaces an existing definition in place");
    H4V_COVER(r == SUCCEED && !existed && vs->nusym == RD_NUSYM + 1, "VSfdefine appends a new name");
    H4V_CANARY("VSfdefine redef end");
}

/* ---- names: new name of symbolic length up to 2 x VSNAMELENMAX, arbitrary current name ---- */
H4V_DECL_ND(uint8);
static char *
mk_name(VDATA *vs, char *field)
{
    H4V_ND(int32, nlen);
    H4V_ND(int, name_null);
#ifndef NLEN_MAX
#define NLEN_MAX (2 * VSNAMELENMAX)
#endif
    H4V_ASSUME(nlen >= 0 && nlen <= NLEN_MAX);
    int32 la = nlen < 64 ? nlen : 64, lb = nlen - la;
    H4V_ND_BUF(uint8, nm_a, la, 64);
    H4V_ND_BUF(uint8, nm_b, lb, 64);
    H4V_ND_BUF(uint8, cur, VSNAMELENMAX, 64);
    char *nm = malloc((size_t)nlen + 1);
    H4V_ASSUME(nm != NULL);
    for (int i = 0; i < 64; i++) {
        if (i < la)
            nm[i] = (char)(nm_a[i] & 0x7f);
        if (i < lb)
            nm[64 + i] = (char)(nm_b[i] & 0x7f);
    }
    nm[nlen] = 0;
    for (int i = 0; i < VSNAMELENMAX; i++)
        field[i] = (char)(cur[i] & 0x7f);
    field[VSNAMELENMAX] = 0;
    vs->marked   = 0;
    H4V_ND(int, writable);
    vs->access = writable ? 'w' : 'r';
    H4V_ND(int, hsz);
    vs->new_h_sz = hsz;
    g_old_hsz    = hsz;
    g_new_len    = (int)strlen(nm);
    g_old_len    = (int)strlen(field);
    H4V_ASSUME(g_o >= 0 && g_o <= VSNAMELENMAX);
    g_old_c = field[g_o];
    return name_null ? NULL : nm;
}

void
h_VSsetname(void)
{
    VDATA *vs = mk_env();
    char  *nm = mk_name(vs, vs->vsname);
    int32  r  = VSsetname(7, nm);
    H4V_COVER(r == SUCCEED && g_new_len > VSNAMELENMAX, "VSsetname truncates");
    H4V_COVER(r == SUCCEED && g_new_len < VSNAMELENMAX && g_new_len > g_old_len, "VSsetname longer name");
    H4V_COVER(r == FAIL, "VSsetname refuses");
    H4V_CANARY("VSsetname end");
}

void
h_VSsetclass(void)
{
    VDATA *vs = mk_env();
    char  *nm = mk_name(vs, vs->vsclass);
    int32  r  = VSsetclass(7, nm);
    H4V_COVER(r == SUCCEED && g_new_len > VSNAMELENMAX, "VSsetclass truncates");
    H4V_COVER(r == SUCCEED && g_new_len < VSNAMELENMAX && g_new_len > g_old_len, "VSsetclass longer name");
    H4V_COVER(r == FAIL, "VSsetclass refuses");
    H4V_CANARY("VSsetclass end");
}

/* ---- VSsetfields (bounded): SF_AC requested fields (constant per run), SF_NUSYM user symbols with
   arbitrary definitions (what VSfdefine stores) and arbitrary names of <= NMLEN characters (so user
   fields may shadow each other and the predefined ones), tokens arbitrary names of <= NMLEN characters ---- */
static const char *const spec_rs_name[9] = {"PX", "PY", "PZ", "IX", "IY", "IZ", "NX", "NY", "NZ"};
static int
spec_streq(const char *a, const char *b)
{
    for (int i = 0; i <= NMLEN; i++) {
        if (a[i] != b[i])
            return 0;
        if (a[i] == 0)
            return 1;
    }
    return 1;
}
/* specification-level lookup: first user symbol of that name, else the predefined field (4-byte
   float32/int32, order 1); returns the stored field size = order x size of the type, or -1 */
static int32
spec_lookup(VDATA *vs, const char *tok, int16 *type, uint16 *order)
{
    for (int j = 0; j < 3; j++)
        if (j < vs->nusym && spec_streq(tok, vs->usym[j].name)) {
            *type  = vs->usym[j].type;
            *order = vs->usym[j].order;
            return (int32)vs->usym[j].order * (int32)DFKNTsize(vs->usym[j].type);
        }
    for (int j = 0; j < 9; j++)
        if (spec_streq(tok, spec_rs_name[j])) {
            *type  = (j >= 3 && j < 6) ? DFNT_INT32 : DFNT_FLOAT32;
            *order = 1;
            return 4;
        }
    return -1;
}

#ifndef SF_AC
#define SF_AC 2
#endif
#ifndef SF_NUSYM
#define SF_NUSYM 2
#endif
void
h_VSsetfields_new(void)
{
    VDATA *vs = mk_env_good();
    const int fields_null = 0;
    const int32 scan_ret  = SUCCEED;
    g_scan_ret = SUCCEED;
    g_scan_ac  = SF_AC;
    static SYMDEF usym_tab[3];
    SYMDEF       *usym = SF_NUSYM ? usym_tab : NULL;
    H4V_ND_BUF(uint16, us_type, SF_NUSYM, 3);
    H4V_ND_BUF(uint16, us_order, SF_NUSYM, 3);
    H4V_ND_BUF(uint8, us_name, SF_NUSYM *(NMLEN + 1), 3 * (NMLEN + 1));
    for (int i = 0; i < SF_NUSYM; i++) {
        H4V_ASSUME(us_type[i] <= 32767);
        /* what VSfdefine stores: a known type with its size, order in [1, MAX_ORDER], order x size <= MAX_FIELD_SIZE */
        int32 tsz = DFKNTsize(us_type[i]);
        H4V_ASSUME(us_order[i] >= 1 && tsz > 0 && (int32)us_order[i] * tsz <= MAX_FIELD_SIZE);
        us_name[i * (NMLEN + 1) + NMLEN] = 0;
        usym[i].name                     = (char *)&us_name[i * (NMLEN + 1)];
        usym[i].type                     = (int16)us_type[i];
        usym[i].isize                    = (uint16)tsz;
        usym[i].order                    = us_order[i];
    }
    mk_tokens(SF_AC, 4);
    vs->nusym     = SF_NUSYM;
    vs->usym      = usym;
    vs->access    = 'w';
    vs->nvertices = 0;
    /* expectations of the specification-level lookup */
    g_exp_total = 0;
    g_exp_isize = -1;
    g_exp_ok    = 1;
    for (int i = 0; i < SF_AC; i++) {
        int16  t  = 0;
        uint16 o  = 0;
        int32  sz = spec_lookup(vs, g_av[i], &t, &o);
        if (sz > 0)
            g_exp_total += sz;
        else
            g_exp_ok = 0;
#ifdef SF_USERONLY /* scenario: every requested name is a user-defined field */
        {
            int usr = 0;
            for (int j = 0; j < SF_NUSYM; j++)
                if (spec_streq(g_av[i], usym[j].name))
                    usr = 1;
            H4V_ASSUME(usr);
        }
#endif
        if (i == g_k) {
            g_exp_isize = sz;
            g_exp_type  = t;
            g_exp_order = o;
            g_exp_esize = (int32)o * (int32)DFKNTsize(t | DFNT_NATIVE);
        }
    }
    int r = VSsetfields(7, fields_null ? NULL : "x");
    H4V_COVER(r == SUCCEED && vs->wlist.n == SF_AC, "VSsetfields sets all requested fields");
#if SF_AC >= 2 && SF_NUSYM >= 1 && !defined(SF_USERONLY)
    H4V_COVER(r == SUCCEED && vs->wlist.type[0] == DFNT_FLOAT32 && vs->wlist.order[1] == 3, "VSsetfields mixes predefined and user fields");
    H4V_COVER(r == SUCCEED && vs->wlist.ivsize == 65535, "VSsetfields accepts a record of exactly 65535 bytes");
    H4V_COVER(r == FAIL && g_exp_ok && g_exp_total == 65536 && !fields_null && scan_ret == SUCCEED, "VSsetfields refuses a 65536-byte record");
#endif
#ifndef SF_USERONLY
    H4V_COVER(r == FAIL && !g_exp_ok && !fields_null && scan_ret == SUCCEED, "VSsetfields refuses an undefined name");
#else
    H4V_COVER(r == FAIL && g_exp_total > MAX_FIELD_SIZE, "VSsetfields refuses user fields that add up to more than 65535 bytes");
#endif
    H4V_CANARY("VSsetfields end");
}

/* the gates in front of the field loop: NULL list, scanattrs failure, no token, more than VSFIELDMAX
   tokens -- ANY token count (the vector is never read on these paths); good key built from constants */
void
h_VSsetfields_gate(void)
{
    VDATA *vs = mk_env_good();
    H4V_ND(int32, scan_ret);
    H4V_ND(int32, scan_ac);
    H4V_ND(int, fields_null);
    H4V_ASSUME(scan_ret == FAIL || scan_ret == SUCCEED);
    H4V_ASSUME(scan_ac >= 0);
    g_scan_ret = scan_ret;
    g_scan_ac  = scan_ac;
    g_av[0] = ""; /* never read on the refused paths; valid all the same */
    g_av[1] = "";
    vs->nusym     = 0;
    vs->usym      = NULL;
    vs->access    = 'w';
    vs->nvertices = 0;
    g_exp_ok      = 0;
    g_exp_total   = 0;
    H4V_ASSUME(fields_null || scan_ret == FAIL || scan_ac == 0 || scan_ac > VSFIELDMAX);
    int r = VSsetfields(7, fields_null ? NULL : "x");
    H4V_COVER(r == FAIL && scan_ac == VSFIELDMAX + 1 && !fields_null && scan_ret == SUCCEED, "VSsetfields refuses 257 fields");
    H4V_COVER(r == FAIL && scan_ac == 0 && !fields_null && scan_ret == SUCCEED, "VSsetfields refuses an empty list");
    H4V_CANARY("VSsetfields gate end");
}

/* a key that is not a vdata key / has no instance / no vdata: refused, whatever is requested (one
   valid predefined field here).  Each bad-key case is built from constants (see mk_env_good) */
void
h_VSsetfields_badkey(void)
{
    VDATA *vs = mk_env_good();
    H4V_ND(int, which);
    H4V_ND(int, grp);
    g_scan_ret = SUCCEED;
    g_scan_ac  = 1;
    g_av[0]    = "PX";
    g_av[1]    = NULL;
    vs->nusym     = 0;
    vs->usym      = NULL;
    vs->access    = 'w';
    vs->nvertices = 0;
    g_exp_ok      = 1;
    g_exp_total   = 4;
    g_exp_isize   = 4;
    g_exp_esize   = 4;
    g_exp_type    = DFNT_FLOAT32;
    g_exp_order   = 1;
    int r;
    if (which == 0) {
        H4V_ASSUME(grp != VSIDGROUP);
        g_grp = grp;
        r     = VSsetfields(7, "x");
    }
    else if (which == 1) {
        g_inst_null = 1;
        r           = VSsetfields(7, "x");
    }
    else {
        g_w->vs = NULL;
        r       = VSsetfields(7, "x");
    }
    H4V_COVER(r == FAIL && which == 1, "VSsetfields refuses a key without instance");
    H4V_COVER(r == FAIL && which == 0, "VSsetfields refuses a key of another group");
    H4V_COVER(r == FAIL && which == 2, "VSsetfields refuses an instance without vdata");
    H4V_CANARY("VSsetfields badkey end");
}

/* Trusted stubs for the error stack (herr.c): no effect on anything a contract mentions. */
#ifndef H4V_ERR_H
#define H4V_ERR_H
#include "hdf_priv.h"
void HEpush(hdf_err_code_t error_code, const char *function_name, const char *file_name, int line) {}
void HEreport(const char *fmt, ...) {}
void HEPclear(void) {}
void HEclear(void) {}
#endif

/* Build: gcc D72_nbit_read_partition.c -I/repo/hdf/src -I/repo/_build -L/repo/_build/bin -lhdf -lz -ljpeg -lm; run with LD_LIBRARY_PATH=/repo/_build/bin. Exit status != 0 = defect present (confirmed on a build of the tree before the repair). */
/* D72: n-bit coder: reading 1 value and then 2 values returns a stale buffer byte */
#include "hdf.h"
#include "hcomp.h"
#include <stdio.h>
#include <string.h>
int main(void)
{
    uint8 data[8] = {1, 2, 3, 4, 5, 6, 7, 8}, a[1] = {0}, b[2] = {0, 0}; model_info m; comp_info c; int32 f, aid;
    f = Hopen("d72.hdf", DFACC_CREATE, 0);
    memset(&m, 0, sizeof m); memset(&c, 0, sizeof c);
    c.nbit.nt = DFNT_UINT8; c.nbit.sign_ext = 0; c.nbit.fill_one = 0; c.nbit.start_bit = 7; c.nbit.bit_len = 8;
    aid = HCcreate(f, 1000, 1, COMP_MODEL_STDIO, &m, COMP_CODE_NBIT, &c);
    Hwrite(aid, 8, data); Hendaccess(aid);
    aid = Hstartread(f, 1000, 1);
    Hread(aid, 1, a); Hread(aid, 2, b);
    printf("read 1 then 2 values: %d | %d %d (expected 1 | 2 3)\n", a[0], b[0], b[1]);
    Hendaccess(aid); Hclose(f);
    return !(a[0] == 1 && b[0] == 2 && b[1] == 3);
}

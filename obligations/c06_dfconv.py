"""C06: number-type conversion (dfkswap.c, dfknat.c, dfconv.c)"""
from .core import ob, prop

SW = dict(unit="dfconv_swap_u.c", file="hdf/src/dfkswap.c", cex_unwind=50)

for W in (2, 4, 8):
    ob(f"sb{W}b_contig", "C06", entry=f"h_sb{W}b", enforce=f"DFKsb{W}b", loops=True, nloops=4, loopcls="P",
       defines=["SS=0", "DS=0"], **SW)

/* Verification unit: hdf/src/crle.c (C05: run-length coder kernels)
 *
 * The element behind info->aid is modelled by stubs of HDputc/Hwrite/HDgetc/Hread/Hseek that
 * speak a ghost *packet protocol*.  Packet semantics (the file format; RLE_MIN_RUN/RLE_MIN_MIX
 * note in crle_priv.h, HDFFR-1261), written here independently of the code's constants:
 *     count byte c >= 128 : one more byte b follows; decodes to (c & 0x7f) + 3 copies of b
 *     count byte c <  128 : (c & 0x7f) + 1 literal bytes follow; decodes to themselves
 * The write side and the read side use the same PK_* macros, so
 *   "encode emits packets whose decoding is the input"  (HCIcrle_encode/_term contracts)  and
 *   "decode delivers the decoding of the packets it fetches" (HCIcrle_decode contract)
 * compose to decode(encode(s)) == s for streams of any length; the bounded round-trip
 * harnesses check the composition end to end through a ghost byte store.
 * Universal statements use the ghost stream position g_k (arbitrary, fixed by the harness).
 */
#include "h4v.h"
#include "h4v_err.h"
#include <string.h>

#define PK_IS_RUN(c) (((c) & 0x80u) != 0)
#define PK_RUNLEN(c) ((int32)(((c) & 0x7fu) + 3))
#define PK_MIXLEN(c) ((int32)(((c) & 0x7fu) + 1))

typedef long long h4v_i64;
/* ------------------------------- ghost state ------------------------------- */
/* all ghost state lives in ONE object: a single assigns target keeps dfcc's write-set checks small */
struct h4v_ghost_const { /* never written by stubs or code */
    int32    aid;        /* the access id the coder owns */
    unsigned io_fail_at; /* the I/O call with this ordinal fails (fault injection) */
    int32    k;          /* ghost position in the uncompressed stream */
    unsigned exp;        /* write side: the byte of the input stream at g_k */
    uint8   *disk;       /* ghost byte store ("disk"), NULL: none */
    uint8   *rlebuf;     /* the RLE buffer of the harness' compinfo_t */
    uint8   *out;        /* the caller's destination buffer (decode proof) */
    uint8   *watch;      /* address of the caller's byte that receives stream position g_k (or NULL) */
    int32    disk_cap;
} GC;
struct h4v_ghost {
    unsigned io_n;       /* number of I/O calls so far */
    int      io_failed;  /* some I/O stub returned FAIL */
    /* write side */
    int      wst;   /* 0 expecting a count byte, 1 expecting the run byte, 2 expecting literals */
    unsigned wcnt;  /* count byte of the packet in progress */
    int32    wneed; /* literals still missing from the mix packet in progress */
    int32    emit;  /* number of stream bytes the packets emitted so far decode to */
    int      got;   /* position g_k has been emitted */
    unsigned val;   /* ... and decodes to this byte */
    /* read side */
    int      rst; /* as wst */
    unsigned rcnt;
    int32    rneed;
    h4v_i64  dpos; /* number of stream bytes the packets fetched so far decode to */
    int      have; /* the packet covering g_k has been fetched ... */
    unsigned dexp; /* ... and decodes to this byte at g_k */
    int32    disk_n, dp; /* bytes in the store, current position */
    unsigned sink;
    int32    start_ret;
} G;
#define g_aid        GC.aid
#define g_io_n       G.io_n
#define g_io_fail_at GC.io_fail_at
#define g_io_failed  G.io_failed
#define g_k          GC.k
#define g_exp        GC.exp
#define g_wst        G.wst
#define g_wcnt       G.wcnt
#define g_wneed      G.wneed
#define g_emit       G.emit
#define g_got        G.got
#define g_val        G.val
#define g_rst        G.rst
#define g_rcnt       G.rcnt
#define g_rneed      G.rneed
#define g_dpos       G.dpos
#define g_have       G.have
#define g_dexp       G.dexp
#define g_disk       GC.disk
#define g_watch      GC.watch
#define g_out        GC.out
#define g_rlebuf     GC.rlebuf
#define g_disk_cap   GC.disk_cap
#define g_disk_n     G.disk_n
#define g_dp         G.dp
#define g_sink       G.sink
#define g_start_ret  G.start_ret
#define G_ALL        __CPROVER_object_whole(&G)
#define RLE_ALL(info) __CPROVER_object_upto((uint8 *)RI(info), sizeof(comp_coder_rle_info_t))

/* ------------------------ representation predicates ------------------------ */
#define RF(info, f) ((info)->cinfo.coder_info.rle_info.f)
#define RI(info)    (&(info)->cinfo.coder_info.rle_info)
#define PENDING(r)  ((r)->rle_state == RLE_INIT ? 0 : (r)->buf_length)
#define H4V_NIL     0xffffffffu /* (unsigned)RLE_NIL */

/* RLE_WF of the encoder (DESIGN 4.1, completed by what the run detection relies on) */
#define ENC_WF(r)                                                                                    \
    ((r)->rle_state == RLE_INIT                                                                      \
         ? (r)->second_byte == H4V_NIL                                                               \
         : (r)->rle_state == RLE_RUN                                                                 \
               ? ((r)->buf_length >= 3 && (r)->buf_length < 130 && (r)->last_byte <= 255 &&          \
                  (r)->second_byte == (r)->last_byte)                                                \
               : ((r)->rle_state == RLE_MIX && (r)->buf_length >= 1 && (r)->buf_length < 128 &&      \
                  (r)->buf_pos == (r)->buf_length && (r)->last_byte == (r)->buffer[(r)->buf_length - 1] && \
                  ((r)->buf_length >= 2 ? (r)->second_byte == (r)->buffer[(r)->buf_length - 2]       \
                                        : (r)->second_byte != (r)->last_byte)))
/* ghost element: stream position g_k is represented correctly (emitted, or pending in the state)
   (-DRLE_NO_GHOST switches the ghost-element clauses off: quick state-invariant/bounds/accounting runs) */
#ifdef RLE_NO_GHOST
#define ENC_CODED(r) 1
#define DEC_CODED(r) 1
#define DEC_DELIVERED(lo, hi, p) 1
#else
#define DEC_DELIVERED(lo, hi, p) (!(g_k >= (lo) && g_k < (hi)) || (g_have == 1 && (p)[g_k - (lo)] == g_dexp))
#define ENC_CODED(r)                                                                                 \
    (g_k < g_emit ? (g_got == 1 && g_val == g_exp)                                                   \
                  : (g_k < g_emit + PENDING(r)                                                       \
                         ? ((r)->rle_state == RLE_RUN ? (r)->last_byte == g_exp                      \
                                                      : (r)->buffer[g_k - g_emit] == g_exp)          \
                         : 1))

#endif

/* decoder side */
#define DEC_WF(r)                                                                                    \
    ((r)->rle_state == RLE_INIT                                                                      \
         ? 1                                                                                         \
         : (r)->rle_state == RLE_RUN                                                                 \
               ? ((r)->buf_length >= 1 && (r)->buf_length <= 130 && (r)->last_byte <= 255)           \
               : ((r)->rle_state == RLE_MIX && (r)->buf_length >= 1 && (r)->buf_pos >= 0 &&          \
                  (r)->buf_pos <= 128 - (r)->buf_length))
#ifndef RLE_NO_GHOST
#define DEC_CODED(r)                                                                                 \
    (g_k >= g_dpos ? 1                                                                               \
                   : (g_have == 1 &&                                                                 \
                      (g_k < g_dpos - PENDING(r)                                                     \
                           ? 1                                                                       \
                           : ((r)->rle_state == RLE_RUN                                              \
                                  ? (r)->last_byte == g_dexp                                         \
                                  : (r)->buffer[(r)->buf_pos + (g_k - (g_dpos - PENDING(r)))] == g_dexp))))
#endif

/* ---- ghost-element models of the bulk copies (only with -DRLE_GHOST_COPY: the unbounded
   HCIcrle_decode proof).  cbmc's own memcpy/memset models with a symbolic length did not get
   through the SAT conversion here.  These models check that the WHOLE source/destination range
   is accessible (and, through dfcc, assignable), then havoc the destination range and give the
   exact value only to the one byte the proof watches (g_watch: where stream position g_k lands;
   any deterministic choice of that byte is a sound over-approximation of the real copy). */
#if defined(H4V_CBMC) && defined(RLE_GHOST_COPY) && !defined(H4V_CEX)
/* the destination is re-based on the harness' own pointer to the caller's buffer (g_out): a
   write through the loop-havocked parameter `buf` itself would update every object of the unit */
static uint8 *
ghost_dest(void *d, size_t n)
{
    __CPROVER_assert(__CPROVER_w_ok(d, n), "H4V: bulk copy destination range writable");
    __CPROVER_assert(g_out != NULL && __CPROVER_same_object(d, g_out), "H4V: the decoder copies into the caller's buffer only");
    return g_out + __CPROVER_POINTER_OFFSET(d);
}
void *
memcpy(void *d, const void *s, size_t n)
{
    __CPROVER_assert(__CPROVER_r_ok(s, n), "H4V: memcpy source range readable");
    uint8 *dd = ghost_dest(d, n);
    if (n > 0) {
        int   hit  = g_watch != NULL && g_watch >= dd && g_watch < dd + n;
        uint8 keep = 0;
        if (hit)
            keep = ((const uint8 *)s)[g_watch - dd];
        __CPROVER_havoc_slice(dd, n);
        if (hit)
            *g_watch = keep;
    }
    return d;
}
void *
memset(void *d, int c, size_t n)
{
    uint8 *dd = ghost_dest(d, n);
    if (n > 0) {
        int hit = g_watch != NULL && g_watch >= dd && g_watch < dd + n;
        __CPROVER_havoc_slice(dd, n);
        if (hit)
            *g_watch = (uint8)c;
    }
    return d;
}
#define H4V_GHOST_COPY 1
#endif

/* ---- bounded harnesses (-DRLE_LOOP_COPY): memcpy/memset as plain byte loops (exact semantics
   for non-overlapping ranges; unwound to the harness bound) instead of cbmc's array models, whose
   symbolic-length form needs a fresh variable-length object per call ---- */
#if defined(H4V_CBMC) && (defined(RLE_LOOP_COPY) || defined(H4V_CEX)) /* also in counterexample mode */
/* The only memcpy of crle.c is the decoder's copy out of its RLE buffer (asserted here).  The
   source pointer &buffer[buf_pos] has a symbolic offset into the coder state; it is re-based on
   the typed RLE buffer of the harness' object: the same bytes, but an array access for cbmc
   instead of a byte extraction from the whole 6 KB object per byte copied. */
void *
memcpy(void *d, const void *s, size_t n)
{
    __CPROVER_assert(g_rlebuf != NULL && __CPROVER_same_object(s, g_rlebuf) && __CPROVER_r_ok(s, n),
                     "H4V: memcpy source is a readable range of the RLE buffer");
    size_t o = __CPROVER_POINTER_OFFSET(s) - __CPROVER_POINTER_OFFSET(g_rlebuf);
    __CPROVER_assert(o <= 128 && n <= 128 - o, "H4V: memcpy source inside the RLE buffer");
    for (size_t i = 0; i < n; i++)
        ((uint8 *)d)[i] = g_rlebuf[o + i];
    return d;
}
void *
memset(void *d, int c, size_t n)
{
    for (size_t i = 0; i < n; i++)
        ((uint8 *)d)[i] = (uint8)c;
    return d;
}
static void
stub_copy(uint8 *d, const uint8 *s, int32 n)
{
    for (int32 i = 0; i < n; i++)
        d[i] = s[i];
}
#else
#define stub_copy(d, s, n) memcpy(d, s, (size_t)(n))
#endif

/* --------------------------------- stubs ----------------------------------- */
static int
io_fails(void)
{
    if (g_io_n++ == g_io_fail_at) {
        g_io_failed = 1;
        return 1;
    }
    return 0;
}

static void
disk_put(const uint8 *p, int32 n)
{
#ifdef RLE_NOSTORE
    return;
#endif
    if (g_disk == NULL)
        return;
    H4V_CHECK(g_dp >= 0 && g_dp <= g_disk_cap - n, "ghost store capacity (bound of the harness, not of the code)");
    if (!(g_dp >= 0 && g_dp <= g_disk_cap - n))
        return;
    stub_copy(g_disk + g_dp, p, n);
    g_dp += n;
    if (g_dp > g_disk_n)
        g_disk_n = g_dp;
}

/* one byte arrives on the write side outside a literal block */
static void
wr_byte(unsigned c)
{
    if (g_wst == 0) {
        g_wcnt = c;
        if (PK_IS_RUN(c))
            g_wst = 1;
        else {
            g_wst   = 2;
            g_wneed = PK_MIXLEN(c);
        }
    }
    else if (g_wst == 1) {
        int32 n = PK_RUNLEN(g_wcnt);
        if (g_k >= g_emit && g_k - g_emit < n) {
            g_got = 1;
            g_val = c;
        }
        g_emit += n;
        g_wst = 0;
    }
    else {
        if (g_k == g_emit) {
            g_got = 1;
            g_val = c;
        }
        g_emit += 1;
        g_wneed -= 1;
        if (g_wneed == 0)
            g_wst = 0;
    }
}

int
HDputc(uint8 c, int32 access_id)
{
    H4V_CHECK(access_id == g_aid, "HDputc on the coder's own aid");
    if (io_fails())
        return FAIL;
    wr_byte(c);
    disk_put(&c, 1);
    return (int)c;
}

int32
Hwrite(int32 access_id, int32 length, const void *data)
{
    const uint8 *p = (const uint8 *)data;
    H4V_CHECK(access_id == g_aid, "Hwrite on the coder's own aid");
    H4V_CHECK(length >= 1 && length <= 128, "Hwrite length within 1..128 (RLE buffer)");
    if (length < 1)
        return FAIL;
    if (io_fails())
        return FAIL;
#ifdef H4V_CBMC
    H4V_CHECK(__CPROVER_r_ok(p, (size_t)length), "Hwrite source range readable");
#endif
    if (g_wst == 2) {
        H4V_CHECK(length <= g_wneed, "packet protocol: no more literals than the count byte announced");
        if (g_k >= g_emit && g_k - g_emit < length) {
            g_got = 1;
            g_val = p[g_k - g_emit];
        }
        g_emit += length;
        g_wneed -= length;
        if (g_wneed <= 0)
            g_wst = 0;
    }
    else {
        H4V_CHECK(length == 1, "packet protocol: block write only for the literals of a mix packet");
        wr_byte(p[0]);
    }
    disk_put(p, length);
    return length;
}

static void
rd_byte(unsigned c)
{
    if (g_rst == 0) {
        g_rcnt = c;
        if (PK_IS_RUN(c))
            g_rst = 1;
        else {
            g_rst   = 2;
            g_rneed = PK_MIXLEN(c);
        }
    }
    else if (g_rst == 1) {
        int32 n = PK_RUNLEN(g_rcnt);
        if (g_k >= g_dpos && g_k - g_dpos < n) {
            g_have = 1;
            g_dexp  = c;
        }
        g_dpos += n;
        g_rst = 0;
    }
    else {
        if (g_k == g_dpos) {
            g_have = 1;
            g_dexp  = c;
        }
        g_dpos += 1;
        g_rneed -= 1;
        if (g_rneed == 0)
            g_rst = 0;
    }
}

/* the store holds n more bytes (a short read is reported as FAIL: trusted-stub assumption) */
static int
rd_avail(int32 n)
{
    return g_disk != NULL && g_dp >= 0 && g_dp <= g_disk_n - n;
}

int
HDgetc(int32 access_id)
{
    H4V_CHECK(access_id == g_aid, "HDgetc on the coder's own aid");
    if (io_fails())
        return FAIL;
    if (!rd_avail(1)) {
        g_io_failed = 1;
        return FAIL;
    }
    uint8 c = g_disk[g_dp];
    g_dp += 1;
    rd_byte(c);
    return (int)c;
}

int32
Hread(int32 access_id, int32 length, void *data)
{
    uint8 *p = (uint8 *)data;
    H4V_CHECK(access_id == g_aid, "Hread on the coder's own aid");
    H4V_CHECK(length >= 1 && length <= 128, "Hread length within 1..128 (0 would mean read-to-end)");
    if (length < 1)
        return FAIL;
    if (io_fails())
        return FAIL;
    if (!rd_avail(length)) {
        g_io_failed = 1;
        return FAIL;
    }
#ifdef H4V_GHOST_COPY
    /* as above: whole range checked + havocked, the literal for stream position g_k is exact */
    __CPROVER_assert(__CPROVER_w_ok(p, (size_t)length), "H4V: Hread destination range writable");
    __CPROVER_havoc_slice(p, (size_t)length);
    if (g_rst == 2 && g_k >= g_dpos && g_k - g_dpos < length)
        p[g_k - g_dpos] = g_disk[g_dp + (g_k - g_dpos)];
    else if (g_rst != 2)
        p[0] = g_disk[g_dp];
#else
    stub_copy(p, g_disk + g_dp, length);
#endif
    if (g_rst == 2) {
        H4V_CHECK(length <= g_rneed, "packet protocol: reader takes no more literals than the count byte announced");
        if (g_k >= g_dpos && g_k - g_dpos < length) {
            g_have = 1;
            g_dexp  = g_disk[g_dp + (g_k - g_dpos)];
        }
        g_dpos += length;
        g_rneed -= length;
        if (g_rneed <= 0)
            g_rst = 0;
    }
    else {
        H4V_CHECK(length == 1, "packet protocol: block read only for the literals of a mix packet");
        rd_byte(p[0]);
    }
    g_dp += length;
    return length;
}

int
Hseek(int32 access_id, int32 offset, int origin)
{
    H4V_CHECK(access_id == g_aid, "Hseek on the coder's own aid");
    H4V_CHECK(offset == 0 && origin == 0 /* DF_START */, "coder only rewinds");
    if (io_fails())
        return FAIL;
    g_dp = offset;
    return SUCCEED;
}

int32
Hstartread(int32 file_id, uint16 tag, uint16 ref)
{
    return g_start_ret;
}
int32
Hstartaccess(int32 file_id, uint16 tag, uint16 ref, uint32 flags)
{
    return g_start_ret;
}
int
Hendaccess(int32 access_id)
{
    return io_fails() ? FAIL : SUCCEED;
}

#include "crle.c"

/* -------------------------------- contracts -------------------------------- */

static int32 HCIcrle_encode(compinfo_t *info, int32 length, const uint8 *buf)
    __CPROVER_requires(info != NULL && info->aid == g_aid && ENC_WF(RI(info)))
    __CPROVER_requires(length >= 0 && RF(info, offset) >= 0 && length <= 0x7fffffff - RF(info, offset))
    /* no packet half written; everything consumed so far is either emitted or pending */
    __CPROVER_requires(g_wst == 0 && g_emit >= 0 && g_emit == RF(info, offset) - PENDING(RI(info)))
    __CPROVER_requires(g_k >= 0 && ENC_CODED(RI(info)))
    /* g_exp is the input byte at stream position g_k, if this call supplies it */
    __CPROVER_requires((g_k >= RF(info, offset) && g_k - RF(info, offset) < length) ==> buf[g_k - RF(info, offset)] == g_exp)
    __CPROVER_assigns(RLE_ALL(info), G_ALL; g_disk != NULL: __CPROVER_object_whole(g_disk))
    __CPROVER_ensures(__CPROVER_return_value == SUCCEED || __CPROVER_return_value == FAIL)
    /* with a well-formed state only an I/O failure makes the encoder fail */
    __CPROVER_ensures(__CPROVER_return_value == FAIL ==> g_io_failed == 1)
    /* what the state holds now is encoder output waiting to be flushed (HCPcrle_endaccess / HCPcrle_seek flush only that) */
    __CPROVER_ensures(RF(info, encoding) == 1)
    __CPROVER_ensures(__CPROVER_return_value == SUCCEED ==> ENC_WF(RI(info)))
    /* every packet emitted is complete */
    __CPROVER_ensures(__CPROVER_return_value == SUCCEED ==> g_wst == 0)
    /* offset accounting; sum of decoded packet lengths + pending == bytes consumed */
    __CPROVER_ensures(__CPROVER_return_value == SUCCEED ==> RF(info, offset) == __CPROVER_old(RF(info, offset)) + length)
    __CPROVER_ensures(__CPROVER_return_value == SUCCEED ==> g_emit == RF(info, offset) - PENDING(RI(info)))
    /* the byte at g_k is what the packets decode to there, or still pending in the state */
    __CPROVER_ensures(__CPROVER_return_value == SUCCEED ==> ENC_CODED(RI(info)));

static int32 HCIcrle_term(compinfo_t *info)
    __CPROVER_requires(info != NULL && info->aid == g_aid && ENC_WF(RI(info)))
    __CPROVER_requires(g_wst == 0 && g_emit >= 0 && RF(info, offset) >= 0 && g_emit == RF(info, offset) - PENDING(RI(info)))
    __CPROVER_requires(g_k >= 0 && ENC_CODED(RI(info)))
    __CPROVER_assigns(RF(info, rle_state), RF(info, encoding), RF(info, last_byte), RF(info, second_byte), G_ALL; g_disk != NULL: __CPROVER_object_whole(g_disk))
    __CPROVER_ensures(__CPROVER_return_value == SUCCEED || __CPROVER_return_value == FAIL)
    /* after a flush nothing waits to be written out */
    __CPROVER_ensures(__CPROVER_return_value == SUCCEED ==> RF(info, encoding) == 0)
    __CPROVER_ensures(__CPROVER_return_value == FAIL ==> (g_io_failed == 1 || __CPROVER_old(RF(info, rle_state)) == RLE_INIT))
    __CPROVER_ensures(__CPROVER_old(RF(info, rle_state)) == RLE_INIT ==> __CPROVER_return_value == FAIL)
    __CPROVER_ensures(__CPROVER_return_value == SUCCEED ==>
                      (RF(info, rle_state) == RLE_INIT && RF(info, last_byte) == H4V_NIL && RF(info, second_byte) == H4V_NIL))
    /* everything consumed is now emitted in complete packets, and decodes to the input */
    __CPROVER_ensures(__CPROVER_return_value == SUCCEED ==> (g_wst == 0 && g_emit == RF(info, offset)))
    __CPROVER_ensures((__CPROVER_return_value == SUCCEED && g_k < RF(info, offset)) ==> (g_got == 1 && g_val == g_exp));

static int32 HCIcrle_decode(compinfo_t *info, int32 length, uint8 *buf)
    __CPROVER_requires(info != NULL && info->aid == g_aid && DEC_WF(RI(info)))
    __CPROVER_requires(length >= 0 && RF(info, offset) >= 0 && length <= 0x7fffffff - RF(info, offset))
    __CPROVER_requires(g_rst == 0 && g_dpos >= 0 && g_dpos - PENDING(RI(info)) == RF(info, offset))
    /* the store holds g_disk_n bytes, the read position is inside it */
    __CPROVER_requires(g_disk != NULL && g_dp >= 0 && g_dp <= g_disk_n && g_disk_n <= g_disk_cap)
    __CPROVER_requires(g_k >= 0 && DEC_CODED(RI(info)))
    __CPROVER_assigns(RF(info, offset), RF(info, rle_state), RF(info, last_byte), RF(info, buf_length), RF(info, buf_pos),
                      __CPROVER_object_upto(RF(info, buffer), 128), __CPROVER_object_upto(buf, length), G_ALL)
    __CPROVER_ensures(__CPROVER_return_value == SUCCEED || __CPROVER_return_value == FAIL)
    __CPROVER_ensures(__CPROVER_return_value == FAIL ==> g_io_failed == 1)
    __CPROVER_ensures(__CPROVER_return_value == SUCCEED ==> DEC_WF(RI(info)))
    /* whole packets were fetched */
    __CPROVER_ensures(__CPROVER_return_value == SUCCEED ==> g_rst == 0)
    __CPROVER_ensures(__CPROVER_return_value == SUCCEED ==> RF(info, offset) == __CPROVER_old(RF(info, offset)) + length)
    __CPROVER_ensures(__CPROVER_return_value == SUCCEED ==> g_dpos - PENDING(RI(info)) == RF(info, offset))
    __CPROVER_ensures(__CPROVER_return_value == SUCCEED ==> DEC_CODED(RI(info)))
    /* the byte delivered for stream position g_k is what the fetched packets decode to there */
    __CPROVER_ensures(__CPROVER_return_value == SUCCEED ==> DEC_DELIVERED(__CPROVER_old(RF(info, offset)), RF(info, offset), buf));

static int32 HCIcrle_init(accrec_t *access_rec)
    __CPROVER_requires(access_rec != NULL && access_rec->special_info != NULL)
    __CPROVER_requires(((compinfo_t *)access_rec->special_info)->aid == g_aid)
    __CPROVER_assigns(RF((compinfo_t *)access_rec->special_info, offset), RF((compinfo_t *)access_rec->special_info, rle_state),
                      RF((compinfo_t *)access_rec->special_info, last_byte), RF((compinfo_t *)access_rec->special_info, second_byte),
                      RF((compinfo_t *)access_rec->special_info, buf_pos), RF((compinfo_t *)access_rec->special_info, encoding), G_ALL)
    __CPROVER_ensures(__CPROVER_return_value == SUCCEED || __CPROVER_return_value == FAIL)
    __CPROVER_ensures(__CPROVER_return_value == SUCCEED ==> RF((compinfo_t *)access_rec->special_info, encoding) == 0)
    __CPROVER_ensures(__CPROVER_return_value == FAIL ==> g_io_failed == 1)
    __CPROVER_ensures(__CPROVER_return_value == SUCCEED ==>
                      (RF((compinfo_t *)access_rec->special_info, rle_state) == RLE_INIT &&
                       RF((compinfo_t *)access_rec->special_info, offset) == 0 &&
                       RF((compinfo_t *)access_rec->special_info, buf_pos) == 0 &&
                       RF((compinfo_t *)access_rec->special_info, last_byte) == H4V_NIL &&
                       RF((compinfo_t *)access_rec->special_info, second_byte) == H4V_NIL && g_dp == 0))
    /* the fresh state satisfies both the encoder's and the decoder's invariant */
    __CPROVER_ensures(__CPROVER_return_value == SUCCEED ==>
                      (ENC_WF(RI((compinfo_t *)access_rec->special_info)) && DEC_WF(RI((compinfo_t *)access_rec->special_info))));

#ifdef H4V_NATIVE
#include "h4v_native_wrap.h"
#endif

/* -------------------------------- harnesses -------------------------------- */
/* The environment allocates the compinfo_t as an object of the same size and layout whose
   declared type exposes the RLE member of the coder union directly (the rest is raw bytes).
   Reason: cbmc models the 1272-byte coder union as one bit-vector and every buffer[i] access
   with symbolic i through it costs ~120 K clauses (12 M clauses for the encoder); through the
   view the same accesses are array accesses.  The RLE kernels see exactly the same memory. */
#include <stddef.h>
#define RLE_OFF offsetof(compinfo_t, cinfo.coder_info.rle_info)
typedef struct {
    uint8                 pre[RLE_OFF];
    comp_coder_rle_info_t rle_info;
    uint8                 post[sizeof(compinfo_t) - RLE_OFF - sizeof(comp_coder_rle_info_t)];
} compinfo_rle_view_t;
static compinfo_t *
alloc_info(void)
{
    compinfo_rle_view_t *v = malloc(sizeof(compinfo_rle_view_t));
    H4V_ASSUME(v != NULL);
    H4V_CHECK(sizeof(compinfo_rle_view_t) == sizeof(compinfo_t) && offsetof(compinfo_rle_view_t, rle_info) == RLE_OFF,
              "view has the layout of compinfo_t");
    g_rlebuf = v->rle_info.buffer;
    return (compinfo_t *)v;
}
H4V_DECL_ND(int32);
H4V_DECL_ND(int);
H4V_DECL_ND(unsigned);
H4V_DECL_ND(uint8);
/* counterexample / native mode: up to 8 individually named bytes (the replay maps names back) */
#define ND_BYTE(p, n, i, nm)                                                                         \
    H4V_ND(uint8, nm##i);                                                                            \
    if ((i) < (n))                                                                                   \
    (p)[i] = nm##i
#define ND_BYTES8(p, n, nm)                                                                          \
    ND_BYTE(p, n, 0, nm);                                                                            \
    ND_BYTE(p, n, 1, nm);                                                                            \
    ND_BYTE(p, n, 2, nm);                                                                            \
    ND_BYTE(p, n, 3, nm);                                                                            \
    ND_BYTE(p, n, 4, nm);                                                                            \
    ND_BYTE(p, n, 5, nm);                                                                            \
    ND_BYTE(p, n, 6, nm);                                                                            \
    ND_BYTE(p, n, 7, nm)
H4V_DECL_ND(h4v_i64);

static void
havoc_ghosts(void)
{
    H4V_ND(int32, g_aid_0);
    g_aid = g_aid_0;
    H4V_ND(unsigned, g_io_n_0);
    g_io_n = g_io_n_0;
    H4V_ND(unsigned, g_io_fail_at_0);
    g_io_fail_at = g_io_fail_at_0;
    g_io_failed = 0;
    H4V_ND(int32, g_k_0);
    g_k = g_k_0;
    H4V_ND(unsigned, g_exp_0);
    g_exp = g_exp_0;
    H4V_ND(int, g_wst_0);
    g_wst = g_wst_0;
    H4V_ND(unsigned, g_wcnt_0);
    g_wcnt = g_wcnt_0;
    H4V_ND(int32, g_wneed_0);
    g_wneed = g_wneed_0;
    H4V_ND(int32, g_emit_0);
    g_emit = g_emit_0;
    H4V_ND(int, g_got_0);
    g_got = g_got_0;
    H4V_ND(unsigned, g_val_0);
    g_val = g_val_0;
    H4V_ND(int, g_rst_0);
    g_rst = g_rst_0;
    H4V_ND(unsigned, g_rcnt_0);
    g_rcnt = g_rcnt_0;
    H4V_ND(int32, g_rneed_0);
    g_rneed = g_rneed_0;
    H4V_ND(h4v_i64, g_dpos_0);
    g_dpos = g_dpos_0;
    H4V_ND(int, g_have_0);
    g_have = g_have_0;
    
    g_disk     = NULL;
    g_watch    = NULL;
    g_out      = NULL;
    g_rlebuf   = NULL;
    g_disk_cap = g_disk_n = g_dp = 0;
}

/* a compinfo_t whose RLE state is arbitrary (the contract's requires cuts it down) */
static compinfo_t *
mk_info(void)
{
    compinfo_t *info = alloc_info();
    H4V_ND(int32, st_offset);
    H4V_ND(int, st_state);
    H4V_ND(int, st_buf_length);
    H4V_ND(int, st_buf_pos);
    H4V_ND(unsigned, st_last);
    H4V_ND(unsigned, st_second);
    info->aid             = g_aid;
    RF(info, offset)      = st_offset;
    RF(info, rle_state)   = st_state;
    RF(info, buf_length)  = st_buf_length;
    RF(info, buf_pos)     = st_buf_pos;
    RF(info, last_byte)   = st_last;
    RF(info, second_byte) = st_second;
#if defined(H4V_CEX) || defined(H4V_NATIVE)
    /* counterexample mode: only the first 8 buffer bytes are named inputs */
    H4V_ASSUME(st_state != RLE_MIX || (st_buf_length >= 0 && st_buf_length <= 8 && st_buf_pos <= 8 - st_buf_length));
#ifdef H4V_NATIVE
    memset(RF(info, buffer), 0, 128);
#endif
    ND_BYTES8(RF(info, buffer), 8, rb);
#endif
    return info;
}

void
h_crle_encode(void)
{
    havoc_ghosts();
    compinfo_t *info = mk_info();
    H4V_ND(int32, length);
    H4V_ASSUME(length >= 0);
#if defined(H4V_CEX) || defined(H4V_NATIVE)
    H4V_ASSUME(length <= 8);
    uint8 *in = malloc(8);
    H4V_ASSUME(in != NULL);
    ND_BYTES8(in, length, in);
#else
    H4V_ND_BUF(uint8, in, length, 8);
#endif
    int32 emit0 = g_emit;
    int32 r     = HCIcrle_encode(info, length, in);
    H4V_COVER(r == SUCCEED && RF(info, rle_state) == RLE_RUN, "encode ends in RUN");
    H4V_COVER(r == SUCCEED && RF(info, rle_state) == RLE_MIX, "encode ends in MIX");
    H4V_COVER(r == SUCCEED && RF(info, rle_state) == RLE_INIT && length > 0, "encode ends in INIT");
    H4V_COVER(r == SUCCEED && g_emit > emit0 && g_got == 1, "encode emitted the ghost position");
    H4V_COVER(r == FAIL, "encode I/O failure");
    H4V_CANARY("crle_encode end");
}

void
h_crle_term(void)
{
    havoc_ghosts();
    compinfo_t *info = mk_info();
    int         st0  = RF(info, rle_state);
    int32       r    = HCIcrle_term(info);
    H4V_COVER(r == SUCCEED && st0 == RLE_RUN, "term flushes a run");
    H4V_COVER(r == SUCCEED && st0 == RLE_MIX, "term flushes a mix");
    H4V_COVER(r == FAIL && st0 == RLE_INIT, "term in INIT fails");
    H4V_COVER(r == FAIL && st0 != RLE_INIT, "term I/O failure");
    H4V_CANARY("crle_term end");
}

void
h_crle_decode(void)
{
    havoc_ghosts();
    compinfo_t *info = mk_info();
    H4V_ND(int32, disk_n);
    H4V_ND(int32, disk_pos);
    H4V_ASSUME(disk_n >= 0 && disk_pos >= 0 && disk_pos <= disk_n);
#if defined(H4V_CEX) || defined(H4V_NATIVE)
    H4V_ASSUME(disk_n <= 8);
    uint8 *disk = malloc(8);
    H4V_ASSUME(disk != NULL);
    ND_BYTES8(disk, disk_n, dk);
#else
    H4V_ND_BUF(uint8, disk, disk_n, 12);
#endif
    g_disk     = disk;
    g_disk_cap = g_disk_n = disk_n;
    g_dp       = disk_pos;
    H4V_ND(int32, length);
    H4V_ASSUME(length >= 0);
#ifdef H4V_CEX
    H4V_ASSUME(length <= 12);
#endif
    uint8 *out = malloc((size_t)length + (length == 0));
    H4V_ASSUME(out != NULL);
    g_out = out;
    H4V_ASSUME(g_k >= 0 && RF(info, offset) >= 0);
    if (g_k >= RF(info, offset) && g_k - RF(info, offset) < length)
        g_watch = out + (g_k - RF(info, offset));
    int   st0 = RF(info, rle_state);
    int32 r   = HCIcrle_decode(info, length, out);
    H4V_COVER(r == SUCCEED && RF(info, rle_state) == RLE_RUN, "decode ends inside a run");
    H4V_COVER(r == SUCCEED && RF(info, rle_state) == RLE_MIX, "decode ends inside a mix");
    H4V_COVER(r == SUCCEED && RF(info, rle_state) == RLE_INIT && length > 0, "decode ends at a packet boundary");
    H4V_COVER(r == SUCCEED && st0 == RLE_INIT && g_have == 1 && g_k >= RF(info, offset) - length, "decode delivered the ghost position");
    H4V_COVER(r == FAIL, "decode I/O failure / end of data");
    H4V_CANARY("crle_decode end");
}

void
h_crle_init(void)
{
    havoc_ghosts();
    compinfo_t *info = mk_info();
    accrec_t   *ar   = malloc(sizeof(accrec_t));
    H4V_ASSUME(ar != NULL);
    ar->special_info = info;
    H4V_ND(int32, disk_pos);
    g_dp    = disk_pos;
    int32 r = HCIcrle_init(ar);
    H4V_COVER(r == SUCCEED, "init ok");
    H4V_COVER(r == FAIL, "init seek failure");
    H4V_CANARY("crle_init end");
}

/* ---- bounded round trip through the ghost byte store ----
   RT_N bytes at most, split into <= 3 write calls, term, rewind, <= 3 read calls */
#ifndef RT_N
#define RT_N 6
#endif
#define RT_CAP (2 * RT_N + 4)
void
h_crle_roundtrip(void)
{
    havoc_ghosts();
    g_io_fail_at = 0xffffffffu; g_io_n = 0;
    g_wst = g_rst = 0;
    g_emit = g_dpos = 0;
    g_got = g_have = 0;
    H4V_ASSUME(g_k >= 0);
    uint8 *store = malloc(RT_CAP);
    H4V_ASSUME(store != NULL);
    g_disk     = store;
    g_disk_cap = RT_CAP;
    g_disk_n = g_dp = 0;

    compinfo_t *info = alloc_info();
    accrec_t   *ar   = malloc(sizeof(accrec_t));
    H4V_ASSUME(ar != NULL);
    info->aid        = g_aid;
    ar->special_info = info;

    H4V_ND(int32, n);
    H4V_ND(int32, w1);
    H4V_ND(int32, w2);
    H4V_ND(int32, r1);
    H4V_ND(int32, r2);
    H4V_ASSUME(0 <= n && n <= RT_N && 0 <= w1 && w1 <= w2 && w2 <= n && 0 <= r1 && r1 <= r2 && r2 <= n);
#if (defined(H4V_CEX) || defined(H4V_NATIVE)) && RT_N <= 8
    uint8 *s = malloc(8);
    H4V_ASSUME(s != NULL);
    ND_BYTES8(s, RT_N, sb);
#else
    H4V_ND_BUF(uint8, s, RT_N, RT_N);
#endif
#ifdef RT_TWO
    H4V_ND(int, la);
    H4V_ND(int, lb);
    for (int i = 0; i < RT_N; i++)
        H4V_ASSUME(s[i] == (uint8)la || s[i] == (uint8)lb);
#endif
    uint8 *out = malloc(RT_N);
    H4V_ASSUME(out != NULL);

    int32 ok = HCIcrle_init(ar);
    H4V_CHECK(ok == SUCCEED, "init for write");
    ok = HCIcrle_encode(info, w1, s);
    H4V_CHECK(ok == SUCCEED, "write 1");
    ok = HCIcrle_encode(info, w2 - w1, s + w1);
    H4V_CHECK(ok == SUCCEED, "write 2");
    ok = HCIcrle_encode(info, n - w2, s + w2);
    H4V_CHECK(ok == SUCCEED, "write 3");
    if (RF(info, rle_state) != RLE_INIT) { /* as HCPcrle_endaccess / HCPcrle_seek do */
        ok = HCIcrle_term(info);
        H4V_CHECK(ok == SUCCEED, "term");
    }
    H4V_CHECK(g_wst == 0 && g_emit == n, "complete packets decoding to n bytes were written");
    int32 stored = g_disk_n;

    ok = HCIcrle_init(ar);
    H4V_CHECK(ok == SUCCEED, "init for read");
    ok = HCIcrle_decode(info, r1, out);
    H4V_CHECK(ok == SUCCEED, "read 1");
    ok = HCIcrle_decode(info, r2 - r1, out + r1);
    H4V_CHECK(ok == SUCCEED, "read 2");
    ok = HCIcrle_decode(info, n - r2, out + r2);
    H4V_CHECK(ok == SUCCEED, "read 3");
    H4V_CHECK(RF(info, offset) == n, "offset after reading everything");
    H4V_CHECK(g_dp == stored && RF(info, rle_state) == RLE_INIT, "the whole store was consumed");
    H4V_ND(int32, chk_i);
    if (chk_i >= 0 && chk_i < n)
        H4V_CHECK(out[chk_i] == s[chk_i], "round trip: byte read back equals byte written");
    H4V_COVER(n == RT_N && stored < n, "round trip with compression");
    H4V_COVER(n == RT_N && stored > n, "round trip with expansion");
    H4V_COVER(w1 > 0 && w2 > w1 && n > w2 && r1 > 0 && r2 > r1 && n > r2, "three non-empty writes and reads");
    H4V_CANARY("crle_roundtrip end");
}

/* ---- C05 (ext): coder restart.  Encode stream A, seek back to 0 on a write access (HCPcrle_seek: HCIcrle_term flushes
   A's pending bytes, HCIcrle_init restarts the coder -- "every (re)start of coding from offset 0 leaves the run-detection
   state empty"), encode stream B, flush: the packets emitted AFTER the restart must decode to exactly B, whatever A
   ended with (in particular when B starts with two bytes equal to A's last byte).  A, B of at most RS_N bytes. ---- */
#ifndef RS_N
#define RS_N 3
#endif
void
h_crle_restart(void)
{
    havoc_ghosts();
    g_io_fail_at = 0xffffffffu; g_io_n = 0;
    g_wst = g_rst = 0;
    g_emit = g_dpos = 0;
    g_got = g_have = 0;
    H4V_ASSUME(g_k >= 0);
    uint8 *store = malloc(2 * RS_N + 4);
    H4V_ASSUME(store != NULL);
    g_disk     = store;
    g_disk_cap = 2 * RS_N + 4;
    g_disk_n = g_dp = 0;

    compinfo_t *info = alloc_info();
    accrec_t   *ar   = malloc(sizeof(accrec_t));
    H4V_ASSUME(ar != NULL);
    info->aid        = g_aid;
    ar->special_info = info;
    ar->access       = DFACC_RDWR;
    /* whatever an earlier use left in the coder state (named inputs, so that the replay sees the same) */
    H4V_ND(unsigned, junk_last);
    H4V_ND(unsigned, junk_second);
    H4V_ND(int, junk_state);
    RF(info, last_byte)   = junk_last;
    RF(info, second_byte) = junk_second;
    RF(info, rle_state)   = junk_state;

    H4V_ND(int32, na);
    H4V_ND(int32, nb);
    H4V_ASSUME(0 <= na && na <= RS_N && 0 <= nb && nb <= RS_N);
    uint8 *sa = malloc(8);
    uint8 *sb = malloc(8);
    H4V_ASSUME(sa != NULL && sb != NULL && RS_N <= 8);
    ND_BYTES8(sa, RS_N, sa);
    ND_BYTES8(sb, RS_N, sb);

    int32 ok = HCIcrle_init(ar);
    H4V_CHECK(ok == SUCCEED, "init for write");
    ok = HCIcrle_encode(info, na, sa);
    H4V_CHECK(ok == SUCCEED, "encode A");
    int pend0 = RF(info, rle_state) != RLE_INIT;

    /* the backward-seek branch of HCPcrle_seek on a write access (its contract crle_seek: pending encoder state is
       flushed by HCIcrle_term, then exactly one HCIcrle_init; the real function's 8 KB skip buffer is kept out of here) */
    if (pend0) {
        ok = HCIcrle_term(info);
        H4V_CHECK(ok == SUCCEED, "term before the restart");
    }
    ok = HCIcrle_init(ar);
    H4V_CHECK(ok == SUCCEED, "restart at 0");
    H4V_CHECK(RF(info, rle_state) == RLE_INIT && RF(info, last_byte) == H4V_NIL && RF(info, second_byte) == H4V_NIL &&
                  RF(info, buf_pos) == 0 && RF(info, offset) == 0,
              "restart leaves the run-detection state empty");
    H4V_CHECK(g_wst == 0 && g_emit == na, "A was flushed in complete packets before the restart (unless nothing was written)");
    H4V_CHECK(na == 0 || g_dp == 0, "the compressed stream was rewound");
    /* the packet stream restarts with the element */
    g_emit = 0;
    g_got  = 0;
    g_exp  = (g_k < nb) ? sb[g_k < RS_N ? g_k : 0] : 0;

    ok = HCIcrle_encode(info, nb, sb);
    H4V_CHECK(ok == SUCCEED, "encode B");
    if (RF(info, rle_state) != RLE_INIT) {
        ok = HCIcrle_term(info);
        H4V_CHECK(ok == SUCCEED, "term");
    }
    H4V_CHECK(g_wst == 0 && g_emit == nb, "after the restart complete packets decoding to exactly nb bytes are emitted");
    if (g_k < nb)
        H4V_CHECK(g_got == 1 && g_val == sb[g_k < RS_N ? g_k : 0], "the packets emitted after the restart decode to B");
    H4V_COVER(na >= 2 && nb >= 2 && pend0 && sb[0] == sa[na >= 1 && na <= RS_N ? na - 1 : 0] && sb[1] == sb[0] && sa[na >= 2 ? na - 2 : 0] == sb[0],
              "B starts with the two bytes A ended with");
    H4V_CANARY("crle_restart end");
}
#ifdef DBG
void h_dbg7(void) { havoc_ghosts(); g_io_fail_at = 0xffffffffu; g_wst = 0; g_emit = 0; g_rst = 0; g_dpos = 0; uint8 *store = malloc(16); g_disk = store; g_disk_cap = 16; g_disk_n = g_dp = 0;
  compinfo_t *info = alloc_info(); info->aid = g_aid; RF(info, rle_state) = RLE_INIT; RF(info, second_byte) = H4V_NIL; RF(info,offset)=0;
  H4V_ND_BUF(uint8, s, 4, 4); H4V_ND(int32, n); H4V_ASSUME(n>=0 && n<=4);
  HCIcrle_encode(info, n, s);
#if DBG >= 2
  if (RF(info, rle_state) != RLE_INIT) HCIcrle_term(info);
#endif
#if DBG >= 3
  g_dp = 0; RF(info,offset)=0; uint8 *out = malloc(4);
  HCIcrle_decode(info, n, out);
#endif
  H4V_CANARY("x"); }
#endif

/* D24 (C12): Htagnewref narrows the bit number to uint16 before comparing with FAIL, so the legitimately free ref 65535
   (== (uint16)FAIL) is reported as "no ref free" (returns 0) while it is unused.
   Build: gcc D24_htagnewref_65535.c -I/repo/hdf/src -I/repo/_build -L/repo/_build/bin -lhdf -Wl,-rpath,/repo/_build/bin
   Before the fix: "Htagnewref -> 0" FAIL.  After: 65535 PASS. */
#include "hdf.h"
#include <stdio.h>
int main(void)
{
    int32 fid = Hopen("d24.hdf", DFACC_CREATE, 512);
    for (int r = 1; r <= 65534; r++)
        if (Hputelement(fid, 500, (uint16)r, (const uint8 *)"x", 1) == FAIL) { printf("setup failed at %d\n", r); return 2; }
    uint16 n = Htagnewref(fid, 500);
    printf("refs 1..65534 of tag 500 in use; Htagnewref -> %u (65535 is free: %s)\n", n, Hexist(fid, 500, 65535) == FAIL ? "yes" : "no");
    Hclose(fid);
    remove("d24.hdf");
    int bad = n != 65535;
    printf(bad ? "FAIL\n" : "PASS\n");
    return bad;
}

/* Verification unit: mfhdf/src/putget.c (C03, I/O side)
   (1) NCvario -- the odometer that cuts a hyperslab into maximal contiguous runs.  NCcoordck,
       NCvcmaxcontig, NC_varoffset and NCsimplerecio are REAL (inlined); the per-run I/O routine
       hdf_xdr_NCvdata (a static function of the same file) is replaced by a logging contract whose
       PRECONDITIONS are the checks every run has to pass.  -DPGIO_VARIO selects this half.
       Bounded: rank <= 3, edges <= 3, extents <= 4, element size C03_W.
   (2) hdf_xdr_NCvdata -- first write into a data element that does not exist yet: the leading /
       trailing fill is written in chunks of at most MAX_SIZE (1e6, a #define of putget.c that cannot
       be overridden from outside) bytes.  The byte offset is symbolic (any multiple of the element
       size up to 4 MB, i.e. up to 5 chunks); all loops are unwound.  The H layer
       (Hinquire/Hseek/Hwrite/Hread), DFKconvert and the fill routines are logging stubs.
   GHOST NAMES: the loop table of putget.c (loops/putget.loops, NCcoordck) is injected into the scratch
   copy that this unit compiles too, so the names it uses must exist here; some are reused:
       g_seek_off  here: the POSITION of the access record (set by Hseek, advanced by Hwrite/Hread)
       g_hw_ok     here: BYTES accepted by Hwrite so far
       g_hw_n      Hwrite calls,   g_iofail  a stub reported failure,   g_d / g_nr0  (NCcoordck table) */
#include "h4v.h"
#include "h4v_err.h"
#include "nc_priv.h"
#include "putget_pred.h"

#ifndef C03_W
#define C03_W 4
#endif

/* ------------------------------------------------------------------ ghost state */
int   g_d;        /* (used by the NCcoordck loop table) */
int   g_nr0;      /* (used by the NCcoordck loop table) */
int   g_hw_n;     /* Hwrite calls */
int   g_hw_ok;    /* bytes accepted by Hwrite so far */
int   g_seek_n;   /* Hseek calls */
int   g_seek_off; /* position of the access record */
int   g_iofail;   /* some stubbed I/O step reported failure */
int   g_setnt_failed; /* DFKsetNT refused the number type */
int32 g_aid;      /* the access id the variable is attached with */
#define g_pos g_seek_off
#define g_hw_bytes g_hw_ok

static NC_var *g_vp; /* the variable */
static NC     *e_h;  /* the file */
char          *g_rq_values; /* the caller's buffer */

/* --- (1) the request and the run log */
int           g_rq_bad;    /* the request reaches outside the extent in some dimension */
int           g_rq_proper; /* in range and every edge >= 1 */
long          g_total;     /* number of cells the request selects */
long          g_c;         /* ghost SELECTED cell: its row-major index inside the request (-1: none) */
unsigned long g_c_off;     /*   ... and the byte offset where it lives on disk */
unsigned long g_q_off;     /* ghost DISK cell: byte offset */
int           g_q_inside;  /*   ... and whether it lies inside [start, start+edge) in every dimension */
int           g_runs;      /* runs issued */
long          g_cells;     /* cells transferred by them */

/* --- (2) first write */
int   g_fw_mode;     /* the Hwrite/Hread stubs classify what they get */
int32 g_elem_length; /* what Hinquire reports: <= 0: the element does not exist yet */
int   g_isspecial;
int   g_have_attr;   /* a _FillValue attribute exists */
int   g_need_conv;   /* the number type is stored in another representation than the platform's */
int   g_user_n;      /* Hwrite calls that carried the caller's data */
int   g_user_pos;    /* position at which the caller's data was written / read */
int   g_user_sum;    /* bytes handed to Hwrite BEFORE the caller's data */
int   g_user_len;    /* bytes of the caller's data transferred */
int   g_rd_n;        /* Hread calls */
void *g_fill_dest;   /* buffer last filled with fill values */
unsigned long g_fill_bytes; /* ... and how many bytes of it */
int   g_fill_user;   /* ... from the user-set fill value */
void *g_conv_src, *g_conv_dest; /* last DFKconvert */

H4V_DECL_ND(int);
H4V_DECL_ND(int32);
H4V_DECL_ND(unsigned);
H4V_DECL_ND(h4v_long);
H4V_DECL_ND(h4v_ulong);

/* defined in error.c, which is not part of the unit */
const char *cdf_routine_name;

#ifdef H4V_NATIVE
static int8 *tBuf; /* putget.c's conversion buffer (tentative definition, completed by the include below) */
#endif
/* ------------------------------------------------------------------ trusted stubs */
void NCadvise(int err, const char *fmt, ...) {}
void nc_serror(const char *fmt, ...) {}

#ifdef H4V_CBMC
/* libc strstr as used by nc_API(): needle is "nc"; only `result == haystack` is looked at */
char *
strstr(const char *h, const char *n)
{
    if (h[0] == 'n' && h[1] == 'c')
        return (char *)h;
    return NULL;
}
#define PG_R_OK(p, n) __CPROVER_r_ok((p), (n))
#define PG_W_OK(p, n) __CPROVER_w_ok((p), (n))
#else
#define PG_R_OK(p, n) 1
#define PG_W_OK(p, n) 1
#endif

int
Hinquire(int32 access_id, int32 *pfile_id, uint16 *ptag, uint16 *pref, int32 *plength, int32 *poffset, int32 *pposn,
         int16 *paccess, int16 *pspecial)
{
    H4V_CHECK(access_id == g_aid && access_id != FAIL, "Hinquire on the variable's aid");
    H4V_ND(int, inquire_fail);
    if (inquire_fail) {
        g_iofail = 1;
        return FAIL;
    }
#ifdef H4V_NATIVE
    /* native replay: the real hdf_xdr_NCvdata runs; it calls Hinquire exactly once per run */
    if (!g_fw_mode)
        g_runs++;
#endif
    if (plength)
        *plength = g_elem_length;
    if (pspecial)
        *pspecial = (int16)g_isspecial;
    return SUCCEED;
}

int
Hseek(int32 access_id, int32 offset, int origin)
{
    H4V_CHECK(access_id == g_aid && access_id != FAIL, "Hseek on the variable's aid");
    H4V_CHECK(origin == DF_START && offset >= 0, "Hseek from start to a non-negative offset");
    g_seek_n++;
    H4V_ND(int, seek_fail);
    if (seek_fail) {
        g_iofail = 1;
        return FAIL;
    }
    g_pos = offset;
    return SUCCEED;
}

int32
Hwrite(int32 access_id, int32 length, const void *data)
{
    H4V_CHECK(access_id == g_aid && access_id != FAIL, "Hwrite on the variable's aid");
    H4V_CHECK(data != NULL && length > 0, "Hwrite: a buffer and a positive length");
    H4V_CHECK(PG_R_OK(data, length), "Hwrite: the source buffer holds `length` bytes");
#ifdef H4V_NATIVE
    if (g_fw_mode || !((char *)data == (char *)tBuf || ((char *)data >= g_rq_values && (char *)data < g_rq_values + 27 * C03_W)))
#endif
        g_hw_n++;
    H4V_ND(int, hwrite_fail);
    if (hwrite_fail) {
        g_iofail = 1;
        return FAIL;
    }
    if (g_fw_mode) {
        if (data == (void *)g_rq_values || (g_conv_src == (void *)g_rq_values && data == g_conv_dest)) {
            /* the caller's data: as it is for a native / little-endian type, else its conversion */
            H4V_CHECK(g_need_conv ? data != (void *)g_rq_values : data == (void *)g_rq_values,
                      "the caller's data is written in file representation");
            g_user_n++;
            g_user_pos = g_pos;
            g_user_sum = g_hw_bytes;
            g_user_len = length;
        }
        else /* a fill chunk: taken from the buffer that was filled with fill values (and converted) */
            H4V_CHECK((g_need_conv ? (g_conv_src == g_fill_dest && data == g_conv_dest && data != g_fill_dest)
                                   : data == g_fill_dest) &&
                          (unsigned long)length <= g_fill_bytes,
                      "every fill chunk lies inside the buffer holding the (converted) fill values");
    }
#ifdef H4V_NATIVE
    if (!g_fw_mode && ((char *)data == (char *)tBuf || ((char *)data >= g_rq_values && (char *)data < g_rq_values + 27 * C03_W)))
        g_cells += length / C03_W;
#endif
    g_hw_bytes += length;
    g_pos += length;
    return length;
}

int32
Hread(int32 access_id, int32 length, void *data)
{
    H4V_CHECK(access_id == g_aid && access_id != FAIL, "Hread on the variable's aid");
    H4V_CHECK(data != NULL && length > 0, "Hread: a buffer and a positive length");
    H4V_CHECK(PG_W_OK(data, length), "Hread: the destination buffer holds `length` bytes");
    H4V_ND(int, hread_fail);
    if (hread_fail) {
        g_iofail = 1;
        return FAIL;
    }
#ifdef H4V_NATIVE
    if (!g_fw_mode)
        g_cells += length / C03_W;
#endif
    if (g_rd_n == 0)
        g_user_pos = g_pos;
    g_rd_n++;
    g_user_len += length;
    g_pos += length;
    return length;
}

int32
DFKconvert(void *source, void *dest, int32 ntype, int32 num_elm, int16 acc_mode, int32 source_stride,
           int32 dest_stride)
{
    H4V_CHECK(source != NULL && dest != NULL && num_elm >= 0, "DFKconvert buffers");
    H4V_CHECK(PG_R_OK(source, (size_t)num_elm * C03_W) && PG_W_OK(dest, (size_t)num_elm * C03_W),
              "DFKconvert: both buffers hold num_elm elements");
    if (g_fw_mode) {
        g_conv_src  = source;
        g_conv_dest = dest;
    }
    H4V_ND(int, conv_fail);
    if (conv_fail) {
        g_iofail = 1;
        return FAIL;
    }
    return SUCCEED;
}

/* dfconv.c, reproduced (three one-line classification functions) */
int8
DFKgetPNSC(int32 numbertype, int32 machinetype)
{
    switch (numbertype & DFNT_MASK) {
        case DFNT_CHAR8:
        case DFNT_UCHAR8:
            return (int8)(machinetype & 0x0f);
        case DFNT_INT8:
        case DFNT_UINT8:
        case DFNT_INT16:
        case DFNT_UINT16:
        case DFNT_INT32:
        case DFNT_UINT32:
            return (int8)((machinetype >> 4) & 0x0f);
        case DFNT_FLOAT32:
            return (int8)((machinetype >> 8) & 0x0f);
        case DFNT_FLOAT64:
            return (int8)((machinetype >> 12) & 0x0f);
        default:
            return FAIL;
    }
}

int32
DFKisnativeNT(int32 numbertype)
{
    return (DFNT_NATIVE & numbertype) > 0 ? 1 : 0;
}

int32
DFKislitendNT(int32 numbertype)
{
    return (DFNT_LITEND & numbertype) > 0 ? 1 : 0;
}

static NC_attr  *g_attr; /* a _FillValue attribute (or none) */
static NC_attr **g_attrp;

void *
HDmemfill(void *dest, const void *src, uint32 item_size, uint32 num_items)
{
    H4V_CHECK(dest != NULL && src != NULL, "HDmemfill buffers");
    H4V_CHECK(PG_W_OK(dest, (size_t)item_size * num_items), "HDmemfill: the destination holds num_items items");
    if (g_fw_mode) {
        g_fill_dest  = dest;
        g_fill_bytes = (unsigned long)item_size * num_items;
        g_fill_user  = (g_attr != NULL && src == (const void *)g_attr->data->values);
    }
    return dest;
}

void
NC_arrayfill(void *lo, size_t len, nc_type type)
{
    H4V_CHECK(lo != NULL, "NC_arrayfill buffer");
    H4V_CHECK(PG_W_OK(lo, len), "NC_arrayfill: the destination holds len bytes");
    if (g_fw_mode) {
        g_fill_dest  = lo;
        g_fill_bytes = len;
        g_fill_user  = 0;
    }
}

NC_attr **
NC_findattr(NC_array **ap, const char *name)
{
    return g_have_attr ? g_attrp : NULL;
}

int
DFKsetNT(int32 ntype)
{
    /* fails only for a number type the library does not know: not an I/O failure */
    H4V_ND(int, setnt_fail);
    if (setnt_fail) {
        g_setnt_failed = 1;
        return FAIL;
    }
    return SUCCEED;
}

NC_var *
NC_hlookupvar(NC *handle, int varid)
{
    H4V_ND(int, lookup_fail);
    if (lookup_fail) {
        g_iofail = 1;
        return NULL;
    }
    return g_vp;
}

int
nctypelen(nc_type type)
{
    switch (type) {
        case NC_BYTE:
        case NC_CHAR:
            return 1;
        case NC_SHORT:
            return 2;
        case NC_LONG:
        case NC_FLOAT:
            return 4;
        case NC_DOUBLE:
            return 8;
        default:
            return -1;
    }
}

bool_t
xdr_numrecs(XDR *xdrs, NC *handle)
{
    H4V_ND(int, numrecs_fail);
    if (numrecs_fail) {
        g_iofail = 1;
        return FALSE;
    }
    return TRUE;
}

#include "putget.c"

/* ------------------------------------------------------------------ contracts */

/* assumed (trusted) contract of the attach helper: sets vp->aid, may fail (same text as putget_u.c) */
int32 hdf_get_vp_aid(NC *handle, NC_var *vp)
    __CPROVER_requires(handle != NULL && vp != NULL)
    __CPROVER_assigns(vp->aid, vp->data_ref, vp->set_length, g_iofail)
    __CPROVER_ensures((__CPROVER_return_value == FAIL && g_iofail == 1) ||
                      (__CPROVER_return_value == vp->aid && vp->aid == g_aid && vp->aid != FAIL &&
                       g_iofail == __CPROVER_old(g_iofail)));

#ifndef PGIO_VARIO
/* ======================= (2) hdf_xdr_NCvdata under contract: first write ======================= */
#ifndef FW_MAXOFF
#define FW_MAXOFF (4L * 1024 * 1024)
#endif
#define FW_FIRST (g_elem_length <= 0)
#define FW_FILLON(handle) ((((handle)->flags & NC_NOFILL) == 0) || g_isspecial == SPECIAL_COMP)
#define FW_WRITE(handle) ((handle)->xdrs->x_op == XDR_ENCODE)
#define FW_BYTES(count) ((int)(count)*C03_W)
#define FW_TRAIL(vp, where, count) ((long)(vp)->len - (long)(where) - (long)FW_BYTES(count))

static int hdf_xdr_NCvdata(NC *handle, NC_var *vp, unsigned long where, nc_type type, uint32 count, void *values)
    __CPROVER_requires(handle != NULL && vp != NULL && values != NULL && handle->xdrs != NULL)
    __CPROVER_requires(handle->xdrs->x_op == XDR_ENCODE || handle->xdrs->x_op == XDR_DECODE)
    __CPROVER_requires(vp->aid == g_aid && g_aid != FAIL)
    __CPROVER_requires(vp->HDFsize == C03_W && vp->szof == C03_W && vp->data_offset == 0)
    /* offsets and lengths are multiples of the element size (NC_varoffset, NC_var_shape); the offset
       is symbolic up to 4 MB, i.e. up to 5 chunks of MAX_SIZE bytes */
    __CPROVER_requires(count >= 1 && count <= 4 && where <= FW_MAXOFF && where % C03_W == 0)
    __CPROVER_requires(vp->len >= C03_W && vp->len <= 2 * FW_MAXOFF && vp->len % C03_W == 0)
    __CPROVER_requires((char *)values == g_rq_values && g_fw_mode == 1)
    __CPROVER_requires(g_hw_n == 0 && g_hw_bytes == 0 && g_seek_n == 0 && g_pos == 0 && g_iofail == 0 && g_user_n == 0 &&
                       g_rd_n == 0 && g_user_len == 0 && g_fill_dest == NULL)
    __CPROVER_requires(tBuf == NULL && tBuf_size == 0 && tValues == NULL && tValues_size == 0)
    __CPROVER_assigns(tBuf, tBuf_size, tValues, tValues_size, g_hw_n, g_hw_ok, g_seek_n, g_seek_off, g_iofail, g_user_n,
                      g_user_pos, g_user_sum, g_user_len, g_rd_n, g_fill_dest, g_fill_bytes, g_fill_user,
                      g_conv_src, g_conv_dest)
    __CPROVER_ensures(__CPROVER_return_value == SUCCEED || __CPROVER_return_value == FAIL)
    /* a failing I/O step is reported, and nothing else fails (allocation failure is out of scope) */
    __CPROVER_ensures((__CPROVER_return_value == FAIL) == (g_iofail != 0))
    /* WRITE: the caller's data is written exactly once, count elements, AT BYTE OFFSET `where` */
    __CPROVER_ensures((__CPROVER_return_value == SUCCEED && FW_WRITE(handle)) ==>
                      (g_user_n == 1 && g_user_pos == (int)where && g_user_len == FW_BYTES(count)))
    /* first write with fill mode on: the leading fill is written from position 0 without seeking, and
       the bytes handed to Hwrite before the caller's data add up to EXACTLY `where` */
    __CPROVER_ensures((__CPROVER_return_value == SUCCEED && FW_WRITE(handle) && FW_FIRST && FW_FILLON(handle)) ==>
                      (g_user_sum == (int)where && g_seek_n == 0))
    /* ... and the trailing fill completes the variable: everything written adds up to max(len, where+bytes) */
    __CPROVER_ensures((__CPROVER_return_value == SUCCEED && FW_WRITE(handle) && FW_FIRST && FW_FILLON(handle)) ==>
                      (long)g_hw_bytes == (FW_TRAIL(vp, where, count) > 0 ? (long)vp->len : (long)where + FW_BYTES(count)))
    /* (every fill chunk is taken from the buffer that was filled with fill values: check in the Hwrite
       stub) and those are the user-set fill value if there is one */
    __CPROVER_ensures((__CPROVER_return_value == SUCCEED && FW_WRITE(handle) && FW_FIRST && FW_FILLON(handle) &&
                       (where > 0 || FW_TRAIL(vp, where, count) > 0)) ==> g_fill_user == g_have_attr)
    /* no fill (fill mode off, or the element exists): nothing but the caller's data is written, after
       one seek to `where` (no seek needed for a new element at offset 0) */
    __CPROVER_ensures((__CPROVER_return_value == SUCCEED && FW_WRITE(handle) && !(FW_FIRST && FW_FILLON(handle))) ==>
                      (g_hw_bytes == FW_BYTES(count) && g_hw_n == 1 && g_seek_n == ((FW_FIRST && where == 0) ? 0 : 1)))
    /* READ of an element that does not exist: the caller's buffer is filled with the fill value, no I/O */
    __CPROVER_ensures((__CPROVER_return_value == SUCCEED && !FW_WRITE(handle) && FW_FIRST) ==>
                      (g_rd_n == 0 && g_hw_n == 0 && g_fill_dest == values &&
                       g_fill_bytes == (unsigned long)FW_BYTES(count) && g_fill_user == g_have_attr))
    /* READ of an existing element: count elements from byte offset `where`, nothing written */
    __CPROVER_ensures((__CPROVER_return_value == SUCCEED && !FW_WRITE(handle) && !FW_FIRST) ==>
                      (g_rd_n >= 1 && g_user_pos == (int)where && g_user_len == FW_BYTES(count) && g_hw_n == 0 &&
                       g_seek_n == 1));

#else
/* ======================= (1) NCvario under contract; hdf_xdr_NCvdata is the run logger ======================= */

/* -DVA_SKIP_FINDINGS switches off the three clauses the tree as found violates (see the report:
   partial transfer before an out-of-range request fails; a failing request grows the unlimited
   dimension; a run of 0 cells is issued when an inner edge is 0), so that the remaining clauses stay
   checkable.  Obligation NCvario_r2/_r3 has them ON. */
#ifdef VA_SKIP_FINDINGS
#define VA_F(c) 1
#else
#define VA_F(c) (c)
#endif
/* what EVERY run handed to the I/O routine has to satisfy (checked at each call site) */
static int hdf_xdr_NCvdata(NC *handle, NC_var *vp, unsigned long where, nc_type type, uint32 count, void *values)
    /* (the clause "no run at all for a request that reaches outside the extent" was removed: C03 demands FAIL and no cell
       modified OUTSIDE the requested region; a read that delivers the existing records before failing on the first missing
       one, or a write that fails after cells inside the region, satisfies it -- DESIGN 10.6) */
    /* (a) no run touches a cell outside [start, start+edge): stated for an arbitrary disk cell */
    __CPROVER_requires(!(where <= g_q_off && g_q_off < where + (unsigned long)count * C03_W) || g_q_inside)
    /* (b) runs are non-empty, stay inside the request, and arrive in the order of the caller's buffer */
    __CPROVER_requires(VA_F(count >= 1))
    __CPROVER_requires(handle == e_h && vp == g_vp && g_cells + (long)count <= g_total)
    __CPROVER_requires((char *)values == g_rq_values + g_cells * C03_W)
    /* (b) the selected cell with row-major index g_c is transferred by the run that covers index g_c,
           from/to the disk offset of that cell */
    __CPROVER_requires(!(g_cells <= g_c && g_c < g_cells + (long)count) ||
                       where + (unsigned long)(g_c - g_cells) * C03_W == g_c_off)
    __CPROVER_assigns(g_cells, g_runs, g_iofail)
    __CPROVER_ensures(g_cells == __CPROVER_old(g_cells) + (long)count && g_runs == __CPROVER_old(g_runs) + 1)
    __CPROVER_ensures((__CPROVER_return_value == SUCCEED && g_iofail == __CPROVER_old(g_iofail)) ||
                      (__CPROVER_return_value == FAIL && g_iofail == 1));

/* ---- NCcoordck and NC_varoffset: contracts in UNROLLED form for rank <= 3 (no ghost dimension: the
   caller needs the verdict for ALL dimensions).  Both are proved in this unit on vectors with a
   guard element (obligations NCcoordck_r3 / NC_varoffset_r3) and REPLACE the calls inside NCvario:
   NCvario hands them its local array `coords`, and their loops `for (; ip >= boundary; ip--)` form
   the address one element before that array -- cbmc's pointer model wraps the offset and runs on
   (A-GUARD, see units/putget_u.c), so the real bodies cannot be executed there. */
#define IO_RANK(vp) ((int)(vp)->assoc->count)
#define IO_OUT(vp, co, i)                                                                            \
    (IO_RANK(vp) > (i) && C03_FIXED(vp, i) && ((co)[i] < 0 || (co)[i] >= (long)(vp)->shape[i]))
#define CK3_BAD(h, vp, co, nr)                                                                       \
    (IO_OUT(vp, co, 0) || IO_OUT(vp, co, 1) || IO_OUT(vp, co, 2) ||                                  \
     (C03_REC(vp) && ((co)[0] < 0 || ((h)->xdrs->x_op != XDR_ENCODE && (co)[0] >= (long)(nr)))))
#define CK3_GROWS(vp, co, nr) (C03_REC(vp) && (co)[0] >= (long)(nr))
/* a * b for 0 <= b <= 4, without a multiplier */
#define MS4(a, b) ((b) == 0 ? 0L : (b) == 1 ? (a) : (b) == 2 ? 2 * (a) : (b) == 3 ? 3 * (a) : 4 * (a))
/* row-major element index of a coordinate tuple, extents <= 4 */
#define VO3(vp, co)                                                                                  \
    (IO_RANK(vp) == 1   ? (co)[0]                                                                    \
     : IO_RANK(vp) == 2 ? MS4((co)[0], (long)(vp)->shape[1]) + (co)[1]                               \
                        : MS4(MS4((co)[0], (long)(vp)->shape[1]) + (co)[1], (long)(vp)->shape[2]) + (co)[2])
#define IO_GEOM(vp)                                                                                  \
    (IO_RANK(vp) >= 1 && IO_RANK(vp) <= 3 && (vp)->shape[0] <= 4 &&                                  \
     (IO_RANK(vp) < 2 || ((vp)->shape[1] >= 1 && (vp)->shape[1] <= 4)) &&                            \
     (IO_RANK(vp) < 3 || ((vp)->shape[2] >= 1 && (vp)->shape[2] <= 4)))

bool_t H4_NCcoordck(NC *handle, NC_var *vp, const long *coords)
    __CPROVER_requires(handle == e_h && vp == g_vp && coords != NULL && IO_GEOM(vp) && g_iofail == 0)
    __CPROVER_requires(coords[0] >= -2 && coords[0] <= 16 && vp->numrecs >= 0 && vp->numrecs <= 16)
    __CPROVER_assigns(vp->numrecs, handle->numrecs, handle->flags, vp->aid, vp->data_ref, vp->set_length, g_hw_n, g_hw_ok,
                      g_seek_n, g_seek_off, g_iofail)
    __CPROVER_ensures(__CPROVER_return_value == TRUE || __CPROVER_return_value == FALSE)
    /* the verdict, over all dimensions: FALSE iff some coordinate is outside (or an I/O step failed) */
    __CPROVER_ensures(CK3_BAD(handle, vp, coords, __CPROVER_old(vp->numrecs)) ==> __CPROVER_return_value == FALSE)
    __CPROVER_ensures((!CK3_BAD(handle, vp, coords, __CPROVER_old(vp->numrecs)) && !g_iofail) ==> __CPROVER_return_value == TRUE)
    __CPROVER_ensures(g_iofail ==> __CPROVER_return_value == FALSE)
    /* an invalid coordinate, a fixed-size variable, an existing record: no state change, no I/O at all */
    __CPROVER_ensures((CK3_BAD(handle, vp, coords, __CPROVER_old(vp->numrecs)) ||
                       !CK3_GROWS(vp, coords, __CPROVER_old(vp->numrecs))) ==>
                      (vp->numrecs == __CPROVER_old(vp->numrecs) && handle->numrecs == __CPROVER_old(handle->numrecs) &&
                       handle->flags == __CPROVER_old(handle->flags) && g_hw_n == __CPROVER_old(g_hw_n) && g_iofail == 0))
    /* growth of a record variable on the write path */
    __CPROVER_ensures((__CPROVER_return_value == TRUE && CK3_GROWS(vp, coords, __CPROVER_old(vp->numrecs))) ==>
                      ((long)vp->numrecs == coords[0] + 1 && handle->xdrs->x_op == XDR_ENCODE &&
                       (long)handle->numrecs == (coords[0] + 1 > (long)__CPROVER_old(handle->numrecs)
                                                     ? coords[0] + 1 : (long)__CPROVER_old(handle->numrecs))))
    /* fill records (the only I/O) are written only for growth with fill mode on */
    __CPROVER_ensures((g_hw_n != __CPROVER_old(g_hw_n) || g_iofail) ==>
                      ((__CPROVER_old(handle->flags) & NC_NOFILL) == 0 && handle->xdrs->x_op == XDR_ENCODE));

static unsigned long NC_varoffset(NC *handle, NC_var *vp, const long *coords)
    __CPROVER_requires(handle == e_h && vp == g_vp && coords != NULL && handle->file_type == HDF_FILE && IO_GEOM(vp))
    __CPROVER_requires(vp->HDFsize == C03_W && C03_DSIZES_RM3(vp, C03_W))
    /* the caller has validated the coordinates (NCcoordck) */
    __CPROVER_requires(!IO_OUT(vp, coords, 0) && !IO_OUT(vp, coords, 1) && !IO_OUT(vp, coords, 2) && coords[0] >= 0 &&
                       coords[0] <= 16)
    __CPROVER_assigns()
    __CPROVER_ensures(__CPROVER_return_value == (unsigned long)(C03_W * VO3(vp, coords)));

/* NCvario: the FRAME is the function contract (what a call may modify); the functional clauses (a),
   (b) are asserted by the harness h_NCvario, next to the inputs they are computed from. */
int H4_NCvario(NC *handle, int varid, const long *start, const long *edges, void *values)
    __CPROVER_requires(handle == e_h && handle != NULL && start != NULL && edges != NULL && (char *)values == g_rq_values)
    __CPROVER_requires(g_runs == 0 && g_cells == 0 && g_iofail == 0 && g_hw_n == 0 && g_seek_n == 0)
    __CPROVER_assigns(g_vp->numrecs, e_h->numrecs, e_h->flags, g_vp->aid, g_vp->data_ref, g_vp->set_length, g_cells, g_runs,
                      g_iofail, g_hw_n, g_hw_ok, g_seek_n, g_seek_off)
    __CPROVER_ensures(__CPROVER_return_value == 0 || __CPROVER_return_value == -1);
#endif

#ifdef H4V_NATIVE
#include "h4v_native_wrap.h"
#endif

/* ------------------------------------------------------------------ harnesses */
static NC        s_nc;
static XDR       s_x;
static NC_var    s_vp;
static NC_iarray s_as;
static NC_string s_nm;
static NC_array  s_vars;
static NC_attr   s_attr;
static NC_array  s_ad;
static NC_attr  *s_attrp;
static char      s_nmbuf[4] = "v";
static char      s_attrvals[8];

/* file + variable skeleton; the callers set geometry, type, direction */
static void
mk_skel(void)
{
    g_hw_n = g_hw_ok = g_seek_n = g_seek_off = g_iofail = g_setnt_failed = 0;
    g_runs = 0;
    g_cells = 0;
    g_user_n = g_user_pos = g_user_sum = g_user_len = g_rd_n = 0;
    g_fill_dest = g_conv_src = g_conv_dest = NULL;
    g_fill_bytes = 0;
    g_fill_user  = 0;
    s_nm.values  = s_nmbuf;
    s_nm.count = s_nm.len = 1;
    /* -DVA_OP / -DVA_FLAGS: one obligation per constant (transfer direction, file flags): with symbolic
       values cbmc has to unwind the fill-record path of NCcoordck at every run of the odometer */
#ifdef VA_OP
    s_x.x_op = (enum xdr_op)VA_OP;
#else
    H4V_ND(int, x_op);
    H4V_ASSUME(x_op == XDR_ENCODE || x_op == XDR_DECODE);
    s_x.x_op      = (enum xdr_op)x_op;
#endif
    s_x.x_private = NULL;
    H4V_ND(unsigned, h_numrecs);
#ifdef VA_FLAGS
    s_nc.flags = VA_FLAGS;
#else
    H4V_ND(unsigned, h_flags);
    s_nc.flags     = h_flags;
#endif
    s_nc.xdrs      = &s_x;
    s_nc.numrecs   = h_numrecs;
    s_nc.recsize   = 0;
    s_nc.begin_rec = 0;
    s_nc.file_type = HDF_FILE;
    s_nc.hdf_mode  = DFACC_RDWR;
    s_nc.vars      = &s_vars;
    s_nc.dims      = NULL;
    s_nc.attrs     = NULL;
    s_vars.count   = 1;
    s_vars.values  = NULL;
    H4V_ND(int32, v_aid);
    H4V_ND(int32, the_aid);
    H4V_ASSUME(the_aid != FAIL && (v_aid == FAIL || v_aid == the_aid));
    g_aid           = the_aid;
    s_vp.name       = &s_nm;
    s_vp.assoc      = &s_as;
    s_vp.attrs      = NULL;
    s_vp.type       = NC_LONG;
    s_vp.szof       = C03_W;
    s_vp.HDFsize    = C03_W;
    s_vp.HDFtype    = DFNT_INT32;
    s_vp.begin      = 0;
    s_vp.cdf        = &s_nc;
    s_vp.aid        = v_aid;
    s_vp.data_ref   = 1;
    s_vp.data_tag   = DATA_TAG;
    s_vp.data_offset = 0;
    s_vp.vixHead    = NULL;
    s_vp.set_length = 0;
    s_vp.created    = 0;
    s_vp.block_size = -1;
    g_vp            = &s_vp;
    e_h             = &s_nc;
    /* a _FillValue attribute the NC_findattr stub may hand out */
    H4V_ND(int, have_attr);
    g_have_attr  = (have_attr != 0);
    s_ad.values  = s_attrvals;
    s_ad.count   = 1;
    s_ad.szof    = C03_W;
    s_attr.data  = &s_ad;
    s_attr.name  = &s_nm;
    s_attrp      = &s_attr;
    g_attr       = &s_attr;
    g_attrp      = &s_attrp;
}

#ifndef PGIO_VARIO
void
h_NCvdata_firstwrite(void)
{
    mk_skel();
    g_fw_mode = 1;
    H4V_ND(h4v_ulong, where);
    H4V_ND(unsigned, count);
    H4V_ND(h4v_ulong, v_len);
    H4V_ND(int32, elem_length);
    H4V_ND(int, isspecial);
    H4V_ND(int, nt_mode);
    H4V_ASSUME(isspecial >= 0 && isspecial <= 32767);
    H4V_ASSUME(where <= FW_MAXOFF && where % C03_W == 0 && count >= 1 && count <= 4);
    H4V_ASSUME(v_len >= C03_W && v_len <= 2 * FW_MAXOFF && v_len % C03_W == 0);
    g_elem_length = elem_length;
    g_isspecial   = isspecial;
    s_vp.aid      = g_aid;
    s_vp.len      = v_len;
    /* standard (converted on this platform), native or little-endian (written as they are) */
    s_vp.HDFtype = DFNT_INT32 | (nt_mode == 1 ? DFNT_NATIVE : nt_mode == 2 ? DFNT_LITEND : 0);
    g_need_conv  = !(nt_mode == 1 || nt_mode == 2); /* little-endian platform */
    static h4v_ulong s_shape[1], s_dsizes[1];
    H4V_ND(h4v_ulong, shape0);
    s_shape[0]  = shape0;
    s_dsizes[0] = C03_W;
    s_as.count  = 1;
    s_as.values = NULL;
    s_vp.shape  = s_shape;
    s_vp.dsizes = s_dsizes;
    s_vp.numrecs = 0;
    char *values = malloc(4 * C03_W);
    H4V_ASSUME(values != NULL);
    g_rq_values = values;
    tBuf = tValues = NULL;
    tBuf_size = tValues_size = 0;

    int r = hdf_xdr_NCvdata(&s_nc, &s_vp, where, NC_LONG, count, values);

    int wr = (s_x.x_op == XDR_ENCODE), first = (elem_length <= 0);
    int fill = ((s_nc.flags & NC_NOFILL) == 0) || isspecial == SPECIAL_COMP;
#if FW_MAXOFF > 3000000
    H4V_COVER(r == SUCCEED && wr && first && fill && where > 3000000 && g_conv_dest != NULL, "leading fill of 4 chunks, converted");
    H4V_COVER(r == SUCCEED && wr && first && fill && where == 2000000, "leading fill: exactly two full chunks");
#endif
    H4V_COVER(r == SUCCEED && wr && first && fill && where == 1000000, "leading fill: exactly one full chunk");
    H4V_COVER(r == SUCCEED && wr && first && fill && where > 1000000 && where < 2000000 &&
                  g_conv_dest == NULL, "leading fill: one full chunk and a shorter last one, native");
    H4V_COVER(r == SUCCEED && wr && first && fill && where > 0 && where < 100, "leading fill: one short chunk");
    H4V_COVER(r == SUCCEED && wr && first && fill && where == 0 && (long)v_len > 1000000 + FW_BYTES(count), "trailing fill only, chunked");
    H4V_COVER(r == SUCCEED && wr && first && !fill && where > 0, "no-fill first write seeks");
    H4V_COVER(r == SUCCEED && wr && !first, "write into an existing element");
    H4V_COVER(r == SUCCEED && !wr && first, "read of a missing element");
    H4V_COVER(r == SUCCEED && !wr && !first && g_conv_dest != NULL, "converted read");
    H4V_COVER(r == FAIL && g_hw_n >= 2, "a later fill chunk fails");
    H4V_CANARY("hdf_xdr_NCvdata end");
}

#else
/* a * b for 0 <= b <= 4, without a multiplier */
static long
mul_small(long a, long b)
{
    return b == 0 ? 0 : b == 1 ? a : b == 2 ? a + a : b == 3 ? a + a + a : a + a + a + a;
}

#ifndef MAXR
#define MAXR 3
#endif
#define VA_MAXEXT 4
#define VA_MAXEDGE 3

/* geometry + one coordinate vector, all with a guard element in front */
static h4v_long *
mk_geom(void)
{
    static h4v_ulong shape_g[4], dsizes_g[4];
    static h4v_long  co_g[4];
    h4v_ulong       *shape = shape_g + 1, *dsizes = dsizes_g + 1;
    H4V_ND(int, rank);
    H4V_ASSUME(rank >= 1 && rank <= 3);
    H4V_ND(h4v_ulong, sh0);
    H4V_ND(h4v_ulong, sh1);
    H4V_ND(h4v_ulong, sh2);
    H4V_ND(h4v_long, co0);
    H4V_ND(h4v_long, co1);
    H4V_ND(h4v_long, co2);
    shape[0] = sh0, shape[1] = sh1, shape[2] = sh2;
    co_g[1] = co0, co_g[2] = co1, co_g[3] = co2;
    H4V_ASSUME(sh0 <= 4 && sh1 >= 1 && sh1 <= 4 && sh2 >= 1 && sh2 <= 4);
    dsizes[rank - 1] = C03_W;
    for (int i = 1; i >= 0; i--)
        if (i < rank - 1)
            dsizes[i] = (h4v_ulong)mul_small((long)dsizes[i + 1], (long)shape[i + 1]);
    s_as.count  = (unsigned)rank;
    s_as.values = NULL;
    s_vp.shape  = shape;
    s_vp.dsizes = dsizes;
    s_vp.len    = (sh0 == 0) ? dsizes[0] : (h4v_ulong)mul_small((long)dsizes[0], (long)sh0);
    return co_g + 1;
}

void
h_NCcoordck3(void)
{
    mk_skel();
    g_fw_mode    = 0;
    h4v_long *co = mk_geom();
    H4V_ND(int, v_numrecs);
    H4V_ASSUME(v_numrecs >= 0 && v_numrecs <= 16 && co[0] >= -2 && co[0] <= 16);
    /* bound: at most 3 fill records per call */
    H4V_ASSUME(co[0] - v_numrecs <= 2);
    s_vp.numrecs     = v_numrecs;
    g_nr0            = v_numrecs;
    cdf_routine_name = (s_x.x_op == XDR_ENCODE) ? "SDwritedata" : "SDreaddata";
    int    old_nr = v_numrecs;
    bool_t r      = NCcoordck(&s_nc, &s_vp, co);
    H4V_COVER(r == FALSE && !g_iofail && (int)s_as.count == 3, "rejects at rank 3");
    H4V_COVER(r == TRUE && s_vp.numrecs > old_nr && g_hw_n == 3, "grows and fills 3 records");
    H4V_COVER(r == TRUE && s_vp.numrecs > old_nr && g_hw_n == 0, "grows without fill");
    H4V_COVER(r == TRUE && s_vp.shape[0] != 0 && (int)s_as.count == 3, "accepts fixed-size rank 3");
    H4V_COVER(r == FALSE && g_iofail, "I/O failure");
    H4V_CANARY("NCcoordck3 end");
}

void
h_NC_varoffset3(void)
{
    mk_skel();
    h4v_long *co = mk_geom();
    H4V_ASSUME(co[0] >= 0 && co[0] <= 16);
    for (int i = 0; i < 3; i++)
        H4V_ASSUME(!IO_OUT(&s_vp, co, i));
    unsigned long o = NC_varoffset(&s_nc, &s_vp, co);
    H4V_COVER(o > 0 && (int)s_as.count == 3 && s_vp.shape[0] == 0, "rank 3 record variable");
    H4V_COVER(o > 0 && (int)s_as.count == 2 && s_vp.shape[0] != 0, "rank 2 fixed");
    H4V_CANARY("NC_varoffset3 end");
}

void
h_NCvario(void)
{
    mk_skel();
    g_fw_mode = 0;
    s_vp.aid  = g_aid; /* already attached (hdf_get_vp_aid is outside this obligation) */
    H4V_ND(int, rank);
    H4V_ASSUME(rank >= 1 && rank <= MAXR);
    /* vectors with one guard element in front (A-GUARD, see putget_u.c) */
    static h4v_ulong shape_g[4], dsizes_g[4];
    static h4v_long  start_g[4], edges_g[4];
    h4v_ulong       *shape = shape_g + 1, *dsizes = dsizes_g + 1;
    h4v_long        *start = start_g + 1, *edges = edges_g + 1;
    H4V_ND(h4v_ulong, sh0);
    H4V_ND(h4v_ulong, sh1);
    H4V_ND(h4v_ulong, sh2);
    H4V_ND(h4v_long, st0);
    H4V_ND(h4v_long, st1);
    H4V_ND(h4v_long, st2);
    H4V_ND(h4v_long, ed0);
    H4V_ND(h4v_long, ed1);
    H4V_ND(h4v_long, ed2);
    shape[0] = sh0, shape[1] = sh1, shape[2] = sh2;
    start[0] = st0, start[1] = st1, start[2] = st2;
    edges[0] = ed0, edges[1] = ed1, edges[2] = ed2;
    H4V_ND(int, v_numrecs);
    H4V_ND(h4v_ulong, h_recsize);
    H4V_ASSUME(v_numrecs >= 0 && v_numrecs <= VA_MAXEXT);
    for (int i = 0; i < 3; i++) {
        /* dimension 0 may be the unlimited one (extent 0) */
        H4V_ASSUME(shape[i] <= VA_MAXEXT && (i == 0 || shape[i] >= 1));
        H4V_ASSUME(start[i] >= -1 && start[i] <= VA_MAXEXT + 1 && edges[i] >= 0 && edges[i] <= VA_MAXEDGE);
    }
    int rec = (shape[0] == 0);
    int wr  = (s_x.x_op == XDR_ENCODE);
    /* geometry as NC_var_shape compiles it (C03_DSIZES_RM3) */
    dsizes[rank - 1] = C03_W;
    for (int i = 1; i >= 0; i--)
        if (i < rank - 1)
            dsizes[i] = (h4v_ulong)mul_small((long)dsizes[i + 1], (long)shape[i + 1]);
    s_as.count   = (unsigned)rank;
    s_as.values  = NULL;
    s_vp.shape   = shape;
    s_vp.dsizes  = dsizes;
    s_vp.len     = rec ? dsizes[0] : (h4v_ulong)mul_small((long)dsizes[0], (long)shape[0]);
    s_vp.numrecs = v_numrecs;
    s_nc.recsize = h_recsize;
    g_nr0        = v_numrecs;
    cdf_routine_name = wr ? "SDwritedata" : "SDreaddata";
    char *values = malloc(27 * C03_W);
    H4V_ASSUME(values != NULL);
    g_rq_values = values;

    /* ---- the specification side, computed over all dimensions ---- */
    int  bad = 0, proper = 1;
    long total = 1;
    for (int i = 0; i < 3; i++)
        if (i < rank) {
            int unlimited = (rec && i == 0);
            if (start[i] < 0)
                bad = 1;
            if (!unlimited && start[i] + edges[i] > (long)shape[i])
                bad = 1;
            if (unlimited && !wr && start[i] + edges[i] > (long)v_numrecs)
                bad = 1;
            if (edges[i] < 1)
                proper = 0;
            total = mul_small(total, edges[i]);
        }
    g_rq_bad    = bad;
    g_rq_proper = proper && !bad;
    g_total     = total;
    /* ghost selected cell (k0,k1,k2) of the request and its place on disk */
    H4V_ND(h4v_long, k0);
    H4V_ND(h4v_long, k1);
    H4V_ND(h4v_long, k2);
    long k[3] = {k0, k1, k2};
    long c = 0, cdisk = 0;
    for (int i = 0; i < 3; i++)
        if (i < rank) {
            H4V_ASSUME(k[i] >= 0 && k[i] <= VA_MAXEDGE && (total == 0 || k[i] < edges[i]));
            c     = mul_small(c, edges[i]) + k[i];
            cdisk = (i == 0 ? 0 : mul_small(cdisk, (long)shape[i])) + start[i] + k[i];
        }
    g_c     = total > 0 ? c : -1;
    g_c_off = (unsigned long)mul_small(cdisk, C03_W);
    /* ghost disk cell (q0,q1,q2): any record / row index up to 8, inner indices inside their extents */
    H4V_ND(h4v_long, q0);
    H4V_ND(h4v_long, q1);
    H4V_ND(h4v_long, q2);
    long q[3] = {q0, q1, q2};
    long qdisk = 0;
    int  inside = 1;
    for (int i = 0; i < 3; i++)
        if (i < rank) {
            H4V_ASSUME(q[i] >= 0 && (i == 0 ? q[i] <= 8 : q[i] < (long)shape[i]));
            qdisk = (i == 0 ? 0 : mul_small(qdisk, (long)shape[i])) + q[i];
            if (q[i] < start[i] || q[i] >= start[i] + edges[i])
                inside = 0;
        }
    g_q_off    = (unsigned long)mul_small(qdisk, C03_W);
    g_q_inside = inside;
    H4V_ND(int, varid);

    int      old_nr = s_vp.numrecs;
    unsigned old_hnr = s_nc.numrecs, old_flags = s_nc.flags;
    long     start0 = start[0], edges0 = edges[0], start_g0 = start_g[1 + (rank - 1)], edges_g0 = edges_g[1 + (rank - 1)];

    int r = NCvario(&s_nc, varid, start, edges, values);

    H4V_CHECK(r == 0 || r == -1, "0 or -1");
    /* (a) a request reaching outside the extent in ANY dimension fails, and no run was issued */
    /* (an EMPTY request -- some edge is 0 -- selects no cell, so it does not reach outside anything: the repaired NCvario refuses it
       when a fixed dimension is out of range and answers 0 when only the record dimension is; both satisfy C03, DESIGN 10.6) */
    H4V_CHECK(!(bad && total > 0) || r == -1, "(a) out-of-range request returns -1");
    /* (a) ... and it changes nothing: no fill records, the unlimited dimension does not grow */
    H4V_CHECK(VA_F(!bad || (g_hw_n == 0 && s_vp.numrecs == old_nr && s_nc.numrecs == old_hnr)),
              "(a) out-of-range request writes no fill records and does not grow the unlimited dimension");
    /* (b) success: the runs cover every selected cell (exactly once, in order: run preconditions) */
    H4V_CHECK(r != 0 || g_cells == total, "(b) on success every selected cell was transferred");
    /* nothing valid is rejected, and a failing I/O step is reported */
    H4V_CHECK(!(g_rq_proper && !g_iofail && !g_setnt_failed && (old_flags & NC_INDEF) == 0) || r == 0, "a valid request succeeds");
    H4V_CHECK(!g_iofail || r == -1, "an I/O failure is reported");
    /* growth along the unlimited dimension */
    H4V_CHECK(!(r == 0 && g_rq_proper && rec && wr) ||
                  (long)s_vp.numrecs == (old_nr > start0 + edges0 ? (long)old_nr : start0 + edges0),
              "numrecs == max(numrecs, start[0] + edges[0]) after a record write");
    /* the caller's vectors are not modified */
    H4V_CHECK(start[0] == start0 && edges[0] == edges0 && start[rank - 1] == start_g0 && edges[rank - 1] == edges_g0,
              "start / edges unchanged");

    H4V_COVER(r == 0 && rank == MAXR && g_runs >= 3 && !rec, "odometer: 3+ runs at full rank, fixed-size variable");
    H4V_COVER(r == 0 && rank == MAXR && g_runs == 1 && total >= 8, "one run for a request contiguous from dimension 0");
    H4V_COVER(r == 0 && rec && wr && rank >= 2 && s_vp.numrecs > v_numrecs, "record variable grows");
    H4V_COVER(r == 0 && rec && rank == 1 && total >= 2, "one-dimensional record variable");
    H4V_COVER(r == -1 && bad && rank >= 2 && start[0] >= 0 && start[0] < (long)shape[0], "out of range, start corner valid");
    H4V_COVER(r == -1 && g_iofail, "I/O failure reported");
    H4V_COVER(r == 0 && total == 0, "empty request");
    H4V_CANARY("NCvario end");
}
#endif

/* API-level reproduction of the three NCvario findings (built library, gcc -fsanitize=address; 4x4
   DFNT_NINT32 dataset "a" holding 100..115, new dataset "u" of shape unlimited x 2):
     SDreaddata (a, start={1,0}, edge={1,0}, buf)  -> -1, but Hread(aid, 0, buf) copied rows 1..3 (48 bytes)
                                                      into buf: heap-buffer-overflow for a request of 0 cells
     SDwritedata(a, start={2,0}, edge={3,2}, data) -> -1 after rows 2 and 3 were overwritten
     SDwritedata(u, start={2,1}, edge={1,2}, data) -> -1, SDgetinfo then reports extent 3 (was 0) */

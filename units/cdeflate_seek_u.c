/* Verification unit: hdf/src/cdeflate.c (C05) -- HCPcdeflate_seek: compressed-element seek semantics
 *   seek to the CURRENT offset : the zlib stream is neither terminated nor restarted, the compressed element not rewound
 *                                (first use of a fresh access: the read side is set up once, that is all)
 *   seek BACKWARD              : the stream is terminated once, restarted once for reading, the element rewound once,
 *                                then the reads skip forward from 0
 *   seek FORWARD               : skips forward only
 * The helpers (zlib inside) are replaced by counting contracts (TRUSTED here): CS.nst2 / CS.nterm / CS.ndec calls of
 * HCIcdeflate_staccess2 / _term / _decode, CS.nrew rewinds (Hseek stub), CS.dpos bytes inflated since the last restart.
 * HCIcdeflate_decode may deliver FEWER bytes than asked at the end of the stream (it returns the count): sub-domain
 * -DEOS admits that (target beyond the end of the data), the default does not (target inside the data).
 */
#include "h4v.h"
#include "h4v_err.h"
#include <string.h>

typedef long long h4v_i64;
struct { int32 aid; int allow_short; } CSC;
struct cs_ghost {
    int      nst2, nterm, nrew, failed;
    unsigned ndec; /* unsigned: a counter that the skip loop bumps an unbounded number of times */
    h4v_i64 dpos;
} CS;
#define CS_ALL __CPROVER_object_whole(&CS)
#define H4V_LOOPS_CDEFLATE_SEEK

int
Hseek(int32 access_id, int32 offset, int origin)
{
    H4V_CHECK(access_id == CSC.aid && offset == 0 && origin == 0, "the coder only rewinds its own aid");
    CS.nrew++;
    return SUCCEED;
}

#include "cdeflate.c"

#define DF(info, f) ((info)->cinfo.coder_info.deflate_info.f)
#define AR_INFO(ar) ((compinfo_t *)(ar)->special_info)

/* TRUSTED */
static int32 HCIcdeflate_staccess2(accrec_t *access_rec, int16 acc_mode)
    __CPROVER_requires(access_rec != NULL && access_rec->special_info != NULL && AR_INFO(access_rec)->aid == CSC.aid)
    __CPROVER_assigns(DF(AR_INFO(access_rec), acc_init), DF(AR_INFO(access_rec), acc_mode), CS_ALL)
    __CPROVER_ensures(__CPROVER_return_value == SUCCEED || __CPROVER_return_value == FAIL)
    __CPROVER_ensures(CS.nst2 == __CPROVER_old(CS.nst2) + 1 && CS.nterm == __CPROVER_old(CS.nterm) && CS.nrew == __CPROVER_old(CS.nrew) &&
                      CS.ndec == __CPROVER_old(CS.ndec) && CS.dpos == __CPROVER_old(CS.dpos))
    __CPROVER_ensures(__CPROVER_return_value == SUCCEED ==>
                      (DF(AR_INFO(access_rec), acc_init) == acc_mode &&
                       DF(AR_INFO(access_rec), acc_mode) == ((acc_mode & DFACC_WRITE) ? DFACC_WRITE : DFACC_READ)))
    __CPROVER_ensures(__CPROVER_return_value == FAIL ==> CS.failed == 1);

/* TRUSTED */
static int32 HCIcdeflate_term(compinfo_t *info, int16 acc_mode)
    __CPROVER_requires(info != NULL && info->aid == CSC.aid)
    __CPROVER_assigns(DF(info, offset), DF(info, acc_init), DF(info, acc_mode), CS_ALL)
    __CPROVER_ensures(__CPROVER_return_value == SUCCEED || __CPROVER_return_value == FAIL)
    __CPROVER_ensures(CS.nterm == __CPROVER_old(CS.nterm) + 1 && CS.nst2 == __CPROVER_old(CS.nst2) && CS.nrew == __CPROVER_old(CS.nrew) &&
                      CS.ndec == __CPROVER_old(CS.ndec))
    __CPROVER_ensures(__CPROVER_return_value == SUCCEED ==>
                      (DF(info, offset) == 0 && DF(info, acc_init) == 0 && DF(info, acc_mode) == 0 && CS.dpos == 0))
    __CPROVER_ensures(__CPROVER_return_value == FAIL ==> CS.failed == 1);

/* TRUSTED: returns the number of bytes inflated (all of them unless the stream ends: CSC.allow_short) or FAIL.
   The requires is the obligation of the seek loop: 1..DEFLATE_TMP_BUF_SIZE bytes into a buffer that can take them,
   on a stream that is set up for reading. */
static int32 HCIcdeflate_decode(compinfo_t *info, int32 length, uint8 *buf)
    __CPROVER_requires(info != NULL && info->aid == CSC.aid && length >= 1 && length <= DEFLATE_TMP_BUF_SIZE)
    __CPROVER_requires(__CPROVER_w_ok(buf, length))
    __CPROVER_requires(DF(info, offset) >= 0 && length <= 0x7fffffff - DF(info, offset))
    __CPROVER_requires(DF(info, acc_init) == DFACC_READ)
    __CPROVER_assigns(DF(info, offset), __CPROVER_object_upto(buf, length), CS_ALL)
    __CPROVER_ensures(__CPROVER_return_value == FAIL ||
                      (__CPROVER_return_value >= (CSC.allow_short ? 0 : length) && __CPROVER_return_value <= length))
    __CPROVER_ensures(CS.nst2 == __CPROVER_old(CS.nst2) && CS.nterm == __CPROVER_old(CS.nterm) && CS.nrew == __CPROVER_old(CS.nrew) &&
                      CS.ndec == __CPROVER_old(CS.ndec) + 1)
    __CPROVER_ensures(__CPROVER_return_value != FAIL ==>
                      (DF(info, offset) == __CPROVER_old(DF(info, offset)) + __CPROVER_return_value &&
                       CS.dpos == __CPROVER_old(CS.dpos) + __CPROVER_return_value))
    __CPROVER_ensures(__CPROVER_return_value == FAIL ==> CS.failed == 1);

#define DSEEK_SAME_COUNTS (CS.nterm == __CPROVER_old(CS.nterm) && CS.nrew == __CPROVER_old(CS.nrew))
int32 HCPcdeflate_seek(accrec_t *access_rec, int32 offset, int origin)
    __CPROVER_requires(access_rec != NULL && access_rec->special_info != NULL && AR_INFO(access_rec)->aid == CSC.aid)
    __CPROVER_requires(offset >= 0 && DF(AR_INFO(access_rec), offset) >= 0)
    /* A-DEFLATE-2G: `offset + DEFLATE_TMP_BUF_SIZE` is computed in int32 */
    __CPROVER_requires(DF(AR_INFO(access_rec), offset) <= 0x7fffffff - DEFLATE_TMP_BUF_SIZE && offset <= 0x7fffffff - DEFLATE_TMP_BUF_SIZE)
    /* a read-side history: fresh (0) or set up for reading; position accounting agrees */
    __CPROVER_requires(DF(AR_INFO(access_rec), acc_init) == 0 || DF(AR_INFO(access_rec), acc_init) == DFACC_READ)
    __CPROVER_requires(DF(AR_INFO(access_rec), acc_init) != 0 || DF(AR_INFO(access_rec), offset) == 0)
    __CPROVER_requires(CS.dpos == DF(AR_INFO(access_rec), offset))
    __CPROVER_assigns(DF(AR_INFO(access_rec), offset), DF(AR_INFO(access_rec), acc_init), DF(AR_INFO(access_rec), acc_mode), CS_ALL)
    __CPROVER_ensures(__CPROVER_return_value == SUCCEED || __CPROVER_return_value == FAIL)
    /* no failure without a reason: a layer below failed, or (sub-domain EOS) the stream ended before the target */
    __CPROVER_ensures(__CPROVER_return_value == FAIL ==> (CS.failed == 1 || CSC.allow_short))
    /* a seek to the current position is not a backward seek: no termination, no restart, no rewind, no decode */
    __CPROVER_ensures(offset == __CPROVER_old(DF(AR_INFO(access_rec), offset)) ==>
                      (DSEEK_SAME_COUNTS && CS.ndec == __CPROVER_old(CS.ndec) && CS.dpos == __CPROVER_old(CS.dpos) &&
                       DF(AR_INFO(access_rec), offset) == __CPROVER_old(DF(AR_INFO(access_rec), offset)) &&
                       CS.nst2 == __CPROVER_old(CS.nst2) + (__CPROVER_old(DF(AR_INFO(access_rec), acc_init)) == 0 ? 1 : 0)))
    __CPROVER_ensures((offset == __CPROVER_old(DF(AR_INFO(access_rec), offset)) && __CPROVER_old(DF(AR_INFO(access_rec), acc_init)) != 0) ==>
                      (__CPROVER_return_value == SUCCEED && DF(AR_INFO(access_rec), acc_init) == __CPROVER_old(DF(AR_INFO(access_rec), acc_init))))
    /* backward: terminated once, restarted once (for reading), rewound once */
    __CPROVER_ensures((offset < __CPROVER_old(DF(AR_INFO(access_rec), offset)) && __CPROVER_return_value == SUCCEED) ==>
                      (CS.nterm == __CPROVER_old(CS.nterm) + 1 && CS.nrew == __CPROVER_old(CS.nrew) + 1 &&
                       CS.nst2 == __CPROVER_old(CS.nst2) + 1))
    /* forward (or current): neither */
    __CPROVER_ensures(offset >= __CPROVER_old(DF(AR_INFO(access_rec), offset)) ==> DSEEK_SAME_COUNTS)
    __CPROVER_ensures(__CPROVER_return_value == SUCCEED ==> DF(AR_INFO(access_rec), acc_init) == DFACC_READ)
    /* the position afterwards is the target (inside the data); beyond the end of the data the seek must still end */
    __CPROVER_ensures((__CPROVER_return_value == SUCCEED && !CSC.allow_short) ==>
                      (DF(AR_INFO(access_rec), offset) == offset && CS.dpos == offset));

#ifdef H4V_NATIVE
#include "h4v_native_wrap.h"
#endif

H4V_DECL_ND(int32);
H4V_DECL_ND(int);

void
h_cdeflate_seek(void)
{
    H4V_ND(int32, g_aid_0);
    H4V_ND(int, g_nst2_0);
    H4V_ND(int, g_nterm_0);
    H4V_ND(int, g_nrew_0);
    H4V_ND(int, g_ndec_0);
    H4V_ASSUME(g_nst2_0 >= 0 && g_nst2_0 < 1000 && g_nterm_0 >= 0 && g_nterm_0 < 1000 && g_nrew_0 >= 0 && g_nrew_0 < 1000 &&
               g_ndec_0 >= 0 && g_ndec_0 < 1000);
    CSC.aid = g_aid_0;
#ifdef EOS
    CSC.allow_short = 1;
#else
    CSC.allow_short = 0;
#endif
    CS.nst2   = g_nst2_0;
    CS.nterm  = g_nterm_0;
    CS.nrew   = g_nrew_0;
    CS.ndec   = g_ndec_0;
    CS.failed = 0;
    compinfo_t *info = malloc(sizeof(compinfo_t));
    accrec_t   *ar   = malloc(sizeof(accrec_t));
    H4V_ASSUME(info != NULL && ar != NULL);
    H4V_ND(int32, st_offset);
    H4V_ND(int, st_acc_init);
    H4V_ND(int, st_acc_mode);
    H4V_ND(int32, offset);
    H4V_ND(int, origin);
    info->aid          = CSC.aid;
    DF(info, offset)   = st_offset;
    DF(info, acc_init) = (int16)st_acc_init;
    DF(info, acc_mode) = (int16)st_acc_mode;
    H4V_ASSUME(st_acc_init >= 0 && st_acc_init <= 3 && st_acc_mode >= 0 && st_acc_mode <= 3);
    ar->special_info = info;
    CS.dpos          = st_offset;
    int32 r = HCPcdeflate_seek(ar, offset, origin);
    H4V_COVER(r == SUCCEED && offset == st_offset && st_acc_init != 0, "seek to the current position");
    H4V_COVER(r == SUCCEED && offset == 0 && st_acc_init == 0, "first seek on a fresh access");
    H4V_COVER(r == SUCCEED && offset < st_offset && offset > 0, "backward seek with skip");
    H4V_COVER(r == SUCCEED && (h4v_i64)offset > (h4v_i64)st_offset + 3 * 16384, "forward seek over several chunks");
    H4V_COVER(r == FAIL, "seek failure");
    H4V_CANARY("cdeflate_seek end");
}

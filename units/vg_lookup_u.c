/* Verification unit: hdf/src/vg.c -- C08 "lookups by name and class visit precisely the existing objects":
 * Vfind / Vfindclass / VSfind / VSfindclass.
 *
 * Environment (trusted stubs over a ghost table; the real Vgetid / VSgetid are under contract in vgp_lookup_u.c, whose
 * postcondition "first ref for -1, in-order successor otherwise, FAIL at the end and for an unknown id" is what the stubs implement):
 *   the file LK_FID holds g_n <= 3 objects with refs g_r[0] < g_r[1] < g_r[2] (table order), each with an attached VGROUP / VDATA
 *   (Load_vfile loads every vgroup; vsinst gives the instance of every vdata) whose oref is its ref.
 *   A-STRCMP: strcmp(arg, name_i) == 0 iff g_eq[i] ("the name/class of object i equals the argument"), decided by pointer identity
 *   of the two strings handed to strcmp; the function must compare exactly (argument, stored string of the object it looks at).
 * Bounded stand-in: <= 3 objects (plain unwinding of the table walk).
 */
#include "h4v.h"
#include "h4v_err.h"
#include "hdf_priv.h"
#include "vg_priv.h"

H4V_DECL_ND(int);
H4V_DECL_ND(int32);

#define LK_FID 0x10000007
#define LK_N   3
int32        g_n, g_r[LK_N];
int          g_eq[LK_N];    /* the compared string of object i equals the argument */
int          g_named[LK_N]; /* vgroups only: the string is set (vgname / vgclass may be NULL) */
vginstance_t g_vi[LK_N];
VGROUP       g_vgs[LK_N];
vsinstance_t g_si[LK_N];
VDATA        g_vds[LK_N];
char         g_nm[LK_N][2]; /* vgroup name / class buffers (contents never read: A-STRCMP) */
const char  *g_arg;         /* the argument string */
int          g_bad_call;    /* a call outside the model (strcmp on other strings, instance of an unknown ref) */
#ifdef LK_CLASS
#define LK_VGSTR(i) (g_vgs[i].vgclass)
#define LK_VSSTR(i) (g_vds[i].vsclass)
#else
#define LK_VGSTR(i) (g_vgs[i].vgname)
#define LK_VSSTR(i) (g_vds[i].vsname)
#endif

static int32
lk_next(HFILEID f, int32 id)
{
    if (f != LK_FID || id < -1)
        return FAIL;
    if (id == -1)
        return g_n > 0 ? g_r[0] : FAIL;
    if (g_n > 1 && id == g_r[0])
        return g_r[1];
    if (g_n > 2 && id == g_r[1])
        return g_r[2];
    return FAIL;
}
int32
Vgetid(HFILEID f, int32 vgid)
{
    return lk_next(f, vgid);
}
int32
VSgetid(HFILEID f, int32 vsid)
{
    return lk_next(f, vsid);
}
vginstance_t *
vginst(HFILEID f, uint16 vgid)
{
    for (int i = 0; i < LK_N; i++)
        if (f == LK_FID && i < g_n && (int32)vgid == g_r[i])
            return &g_vi[i];
    g_bad_call++;
    return NULL;
}
vsinstance_t *
vsinst(HFILEID f, uint16 vsid)
{
    for (int i = 0; i < LK_N; i++)
        if (f == LK_FID && i < g_n && (int32)vsid == g_r[i])
            return &g_si[i];
    g_bad_call++;
    return NULL;
}
#ifdef H4V_CBMC
int
strcmp(const char *a, const char *b)
{
    if (a != g_arg && b == g_arg) { /* either order */
        const char *t = a;
        a             = b;
        b             = t;
    }
    for (int i = 0; i < LK_N; i++)
        if (a == g_arg && i < g_n && (b == (const char *)LK_VGSTR(i) || b == (const char *)LK_VSSTR(i)))
            return g_eq[i] ? 0 : 1;
    g_bad_call++;
    return 1;
}
#endif

#include "vg.c"

/* ------------------------------------------------------------------ contracts */
#define LK_WF (g_n >= 0 && g_n <= LK_N && 1 <= g_r[0] && g_r[0] < g_r[1] && g_r[1] < g_r[2] && g_r[2] <= 65535 && g_bad_call == 0)
/* object i is a hit */
#ifdef LK_VS
#define LK_HIT(i) (g_n > (i) && g_eq[i])
#else
#define LK_HIT(i) (g_n > (i) && g_named[i] && g_eq[i])
#endif
/* the ref of the first object (table order) whose name/class equals the argument, 0 if there is none (and for another file) */
#define LK_FOUND(f) ((f) != LK_FID ? 0 : LK_HIT(0) ? g_r[0] : LK_HIT(1) ? g_r[1] : LK_HIT(2) ? g_r[2] : 0)
#ifdef LK_VS
#ifdef LK_CLASS
int32 VSfindclass(HFILEID f, const char *vsclass)
    __CPROVER_requires(LK_WF && vsclass != NULL && vsclass == g_arg)
    __CPROVER_assigns()
    __CPROVER_ensures(__CPROVER_return_value == LK_FOUND(f))
    __CPROVER_ensures(g_bad_call == 0);
#define LK_CALL VSfindclass
#else
int32 VSfind(HFILEID f, const char *vsname)
    __CPROVER_requires(LK_WF && vsname != NULL && vsname == g_arg)
    __CPROVER_assigns()
    __CPROVER_ensures(__CPROVER_return_value == LK_FOUND(f))
    __CPROVER_ensures(g_bad_call == 0);
#define LK_CALL VSfind
#endif
#else
#ifdef LK_CLASS
int32 Vfindclass(HFILEID f, const char *vgclass)
    __CPROVER_requires(LK_WF && vgclass != NULL && vgclass == g_arg)
    __CPROVER_assigns()
    __CPROVER_ensures(__CPROVER_return_value == LK_FOUND(f))
    __CPROVER_ensures(g_bad_call == 0);
#define LK_CALL Vfindclass
#else
int32 Vfind(HFILEID f, const char *vgname)
    __CPROVER_requires(LK_WF && vgname != NULL && vgname == g_arg)
    __CPROVER_assigns()
    __CPROVER_ensures(__CPROVER_return_value == LK_FOUND(f))
    __CPROVER_ensures(g_bad_call == 0);
#define LK_CALL Vfind
#endif
#endif

#ifdef H4V_NATIVE
#include "h4v_native_wrap.h"
#endif

/* ------------------------------------------------------------------ harness */
void
h_find(void)
{
    H4V_HAVOC(int32, g_n);
    H4V_ND(int32, r0);
    H4V_ND(int32, r1);
    H4V_ND(int32, r2);
    H4V_ND(int, eq0);
    H4V_ND(int, eq1);
    H4V_ND(int, eq2);
    H4V_ND(int, nm0);
    H4V_ND(int, nm1);
    H4V_ND(int, nm2);
    H4V_ND(int32, f);
    H4V_ASSUME(g_n >= 0 && g_n <= LK_N && 1 <= r0 && r0 < r1 && r1 < r2 && r2 <= 65535);
    g_r[0] = r0; g_r[1] = r1; g_r[2] = r2;
    g_eq[0] = eq0 != 0; g_eq[1] = eq1 != 0; g_eq[2] = eq2 != 0;
    g_named[0] = nm0 != 0; g_named[1] = nm1 != 0; g_named[2] = nm2 != 0;
    memset(g_vi, 0, sizeof g_vi);
    memset(g_si, 0, sizeof g_si);
    memset(g_vgs, 0, sizeof g_vgs);
    memset(g_vds, 0, sizeof g_vds);
    for (int i = 0; i < LK_N; i++) {
        g_vi[i].key = g_si[i].key = g_r[i];
        g_vi[i].ref = g_si[i].ref = (unsigned)g_r[i];
        g_vi[i].vg   = &g_vgs[i];
        g_si[i].vs   = &g_vds[i];
        g_vgs[i].oref = (uint16)g_r[i];
        g_vds[i].oref = (uint16)g_r[i];
        g_vgs[i].otag = DFTAG_VG;
        g_vds[i].otag = DFTAG_VH;
        g_nm[i][0] = g_eq[i] ? 'x' : 'y'; g_nm[i][1] = '\0'; /* native replay uses the real strcmp */
        g_vds[i].vsname[0] = g_vds[i].vsclass[0] = g_eq[i] ? 'x' : 'y';
        LK_VGSTR(i) = g_named[i] ? g_nm[i] : NULL;
    }
    char *arg = malloc(2);
    H4V_ASSUME(arg != NULL);
    arg[0] = 'x'; arg[1] = '\0';
    g_arg      = arg;
    g_bad_call = 0;
    int32 r = LK_CALL(f, arg);
    H4V_COVER(r == g_r[2] && g_n == 3, "find: the last of three");
    H4V_COVER(r == g_r[0] && LK_HIT(1), "find: the first of two hits");
    H4V_COVER(r == 0 && g_n == 3 && f == LK_FID, "find: none of three");
    H4V_CANARY("find end");
}

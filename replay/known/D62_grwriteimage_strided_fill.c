/* Build: gcc D62_grwriteimage_strided_fill.c -I/repo/hdf/src -I/repo/mfhdf/src -I/repo/_build -L/repo/_build/bin -lmfhdf -lhdf -lz -ljpeg -lm; run with LD_LIBRARY_PATH=/repo/_build/bin. Exit status 1 = defect present. */
/* D58: first strided write of a new image with fill leaves the rows after the request unwritten (and writes stride-1 lines too many after the last row) */
#include "hdf.h"
#include <stdio.h>
int main(void)
{
    int32 f = Hopen("d58.hdf", DFACC_CREATE, 0), gr = GRstart(f), dims[2] = {1, 4}, ri, start[2] = {0, 0}, stride[2] = {3, 1}, count[2] = {1, 3};
    uint8 px[3] = {1, 2, 3}, out[4] = {9, 9, 9, 9}, fill = 7;
    int32 full[2] = {1, 4}, rc;
    ri = GRcreate(gr, "img", 1, DFNT_UINT8, MFGR_INTERLACE_PIXEL, dims);
    GRsetattr(ri, "FillValue", DFNT_UINT8, 1, &fill);
    rc = GRwriteimage(ri, start, stride, count, px);
    printf("write rc=%d\n", (int)rc);
    rc = GRreadimage(ri, start, NULL, full, out);
    printf("read rc=%d  %d %d %d %d (expected 1 2 3 7)\n", (int)rc, out[0], out[1], out[2], out[3]);
    GRendaccess(ri); GRend(gr); Hclose(f);
    return !(rc == 0 && out[3] == 7);
}

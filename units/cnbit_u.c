/* Verification unit: hdf/src/cnbit.c (C05: n-bit coder) -- HCIcnbit_init mask tables
 *
 * Documented projection (cnbit.c / SDsetnbitdataset): of each nt_size-byte big-endian value the
 * bit field [mask_off-mask_len+1 .. mask_off] (bit 0 = least significant bit of the value) is kept.
 * HCIcnbit_init must therefore produce, byte by byte from the most significant byte down,
 *   mask_info[i].mask   = the bits of byte i that lie in the field,
 *   mask_info[i].offset = position (7..0) of the highest field bit in byte i,
 *   mask_info[i].length = number of field bits in byte i   (0 where none; offset then unused),
 *   mask_buf[i]         = fill pattern outside the field: ~mask if fill_one else 0.
 * Ghost byte index g_i and ghost bit index g_p: a proof for arbitrary (g_i, g_p) covers all bits.
 */
#include "h4v.h"
#include "h4v_err.h"
#include <string.h>
#include <stddef.h>

int   g_i; /* ghost byte index into mask_info / mask_buf (0 = most significant byte) */
int   g_p; /* ghost bit position inside that byte (7 = most significant bit) */
int32 g_bitid;
int   g_seek_fail;

int
Hbitseek(int32 bitid, int32 byte_offset, int bit_offset)
{
    H4V_CHECK(bitid == g_bitid && byte_offset == 0 && bit_offset == 0, "init rewinds the coder's own bit id");
    return g_seek_fail ? FAIL : SUCCEED;
}
int
Hbitread(int32 bitid, int count, uint32 *data)
{
    return FAIL;
}
int
Hbitwrite(int32 bitid, int count, uint32 data)
{
    return FAIL;
}
int32
Hstartbitread(int32 file_id, uint16 tag, uint16 ref)
{
    return FAIL;
}
int32
Hstartbitwrite(int32 file_id, uint16 tag, uint16 ref, int32 length)
{
    return FAIL;
}
int
Hbitappendable(int32 bitid)
{
    return FAIL;
}
int32
Hendbitaccess(int32 bitfile_id, int flushbit)
{
    return FAIL;
}

/* The two memsets of HCIcnbit_init go through void* into the 6 KB coder-state object; cbmc's
   model turns each into a byte-level update of the whole object (45 M clauses).  This model
   re-bases them on the typed members of the harness' object (asserting that the destination is
   exactly one of the two arrays): same bytes written, as array/field assignments. */
#ifdef H4V_CBMC
uint8 *g_nb_mask_buf;  /* &nbit_info.mask_buf[0] of the harness' object */
void  *g_nb_mask_info; /* &nbit_info.mask_info[0] */
void *
memset(void *d, int c, size_t n)
{
    if (d == (void *)g_nb_mask_buf) {
        __CPROVER_assert(n <= 16, "H4V: memset(mask_buf) stays inside mask_buf[NBIT_MASK_SIZE]");
        for (size_t i = 0; i < 16; i++)
            if (i < n)
                g_nb_mask_buf[i] = (uint8)c;
    }
    else {
        __CPROVER_assert(d == g_nb_mask_info && c == 0 && n == 16 * 12, "H4V: the other memset clears exactly mask_info[]");
        struct nb_mi { int offset; int length; uint8 mask; } *mi = g_nb_mask_info;
        for (int i = 0; i < 16; i++) {
            mi[i].offset = 0;
            mi[i].length = 0;
            mi[i].mask   = 0;
        }
    }
    return d;
}
#endif

#include "cnbit.c"

#define NB(ar)     (&((compinfo_t *)(ar)->special_info)->cinfo.coder_info.nbit_info)
#define NBF(ar, f) (((compinfo_t *)(ar)->special_info)->cinfo.coder_info.nbit_info.f)
/* global bit numbers covered by byte i: [NB_BOT(i), NB_BOT(i)+7] */
#define NB_BOT(nb, i)  (((nb)->nt_size - 1 - (i)) * 8)
#define NB_MTOP(nb)    ((nb)->mask_off)
#define NB_MBOT(nb)    ((nb)->mask_off - ((nb)->mask_len - 1))
#define NB_INFIELD(nb, bit) ((bit) >= NB_MBOT(nb) && (bit) <= NB_MTOP(nb))
/* highest / lowest field bit inside byte i, relative to the byte (valid if HI >= LO) */
#define NB_HI(nb, i) ((NB_MTOP(nb) < NB_BOT(nb, i) + 7 ? NB_MTOP(nb) : NB_BOT(nb, i) + 7) - NB_BOT(nb, i))
#define NB_LO(nb, i) ((NB_MBOT(nb) > NB_BOT(nb, i) ? NB_MBOT(nb) : NB_BOT(nb, i)) - NB_BOT(nb, i))
#define NB_DOMAIN(nb)                                                                                \
    (((nb)->nt_size == 1 || (nb)->nt_size == 2 || (nb)->nt_size == 4 || (nb)->nt_size == 8) &&        \
     (nb)->mask_len >= 1 && (nb)->mask_off >= (nb)->mask_len - 1 && (nb)->mask_off <= (nb)->nt_size * 8 - 1)

static int32 HCIcnbit_init(accrec_t *access_rec)
    __CPROVER_requires(access_rec != NULL && access_rec->special_info != NULL)
    __CPROVER_requires(((compinfo_t *)access_rec->special_info)->aid == g_bitid)
    /* nt_size from DFKNTsize of an integer type; field inside the value (checked by HCIinit_coder's callers) */
    __CPROVER_requires(NB_DOMAIN(NB(access_rec)))
    __CPROVER_requires(g_i >= 0 && g_i < NB(access_rec)->nt_size && g_p >= 0 && g_p <= 7)
    __CPROVER_assigns(NBF(access_rec, buf_pos), NBF(access_rec, nt_pos), NBF(access_rec, offset),
                      __CPROVER_object_upto(NBF(access_rec, mask_buf), NBIT_MASK_SIZE),
                      __CPROVER_object_upto((uint8 *)NBF(access_rec, mask_info), sizeof(nbit_mask_info_t) * NBIT_MASK_SIZE))
    __CPROVER_ensures(__CPROVER_return_value == (g_seek_fail ? FAIL : SUCCEED))
    __CPROVER_ensures(__CPROVER_return_value == SUCCEED ==>
                      (NBF(access_rec, buf_pos) == NBIT_BUF_SIZE && NBF(access_rec, nt_pos) == 0 && NBF(access_rec, offset) == 0))
    /* every bit of the big-endian mask: set iff it lies in [mask_off-mask_len+1, mask_off] */
    __CPROVER_ensures(__CPROVER_return_value == SUCCEED ==>
                      ((NBF(access_rec, mask_info)[g_i].mask >> g_p) & 1) == (NB_INFIELD(NB(access_rec), NB_BOT(NB(access_rec), g_i) + g_p) ? 1 : 0))
    /* offset / length of the field part inside each byte */
    __CPROVER_ensures(__CPROVER_return_value == SUCCEED ==>
                      (NB_HI(NB(access_rec), g_i) >= NB_LO(NB(access_rec), g_i)
                           ? (NBF(access_rec, mask_info)[g_i].offset == NB_HI(NB(access_rec), g_i) &&
                              NBF(access_rec, mask_info)[g_i].length == NB_HI(NB(access_rec), g_i) - NB_LO(NB(access_rec), g_i) + 1)
                           /* no field bit in this byte: length 0 (offset is then never used: the code leaves 7
                              in the byte after a field that ends on a byte boundary) */
                           : NBF(access_rec, mask_info)[g_i].length == 0))
    /* fill pattern outside the field */
    __CPROVER_ensures(__CPROVER_return_value == SUCCEED ==>
                      NBF(access_rec, mask_buf)[g_i] ==
                          (NBF(access_rec, fill_one) == TRUE ? (uint8)~NBF(access_rec, mask_info)[g_i].mask : 0))
    /* entries beyond nt_size are cleared */
    __CPROVER_ensures((__CPROVER_return_value == SUCCEED && NBF(access_rec, nt_size) < NBIT_MASK_SIZE) ==>
                      NBF(access_rec, mask_info)[NBF(access_rec, nt_size)].mask == 0);

#ifdef H4V_NATIVE
#include "h4v_native_wrap.h"
#endif

H4V_DECL_ND(int32);
H4V_DECL_ND(int);

/* same-size, same-layout object whose declared type exposes the n-bit member of the coder union
   (see crle_u.c: cbmc models the union as one bit-vector) */
#define NBIT_OFF offsetof(compinfo_t, cinfo.coder_info.nbit_info)
typedef struct {
    uint8                  pre[NBIT_OFF];
    comp_coder_nbit_info_t nbit_info;
    uint8                  post[sizeof(compinfo_t) - NBIT_OFF - sizeof(comp_coder_nbit_info_t)];
} compinfo_nbit_view_t;

void
h_cnbit_init(void)
{
    H4V_HAVOC(int, g_i);
    H4V_HAVOC(int, g_p);
    H4V_HAVOC(int32, g_bitid);
    H4V_HAVOC(int, g_seek_fail);
    compinfo_nbit_view_t *v  = malloc(sizeof(compinfo_nbit_view_t));
    accrec_t             *ar = malloc(sizeof(accrec_t));
    H4V_ASSUME(v != NULL && ar != NULL);
    H4V_CHECK(sizeof(compinfo_nbit_view_t) == sizeof(compinfo_t) && offsetof(compinfo_nbit_view_t, nbit_info) == NBIT_OFF,
              "view has the layout of compinfo_t");
    compinfo_t *info = (compinfo_t *)v;
#ifdef H4V_CBMC
    g_nb_mask_buf  = v->nbit_info.mask_buf;
    g_nb_mask_info = v->nbit_info.mask_info;
    H4V_CHECK(sizeof(nbit_mask_info_t) == 12 && NBIT_MASK_SIZE == 16, "memset model matches the mask_info layout");
#endif
    ar->special_info = info;
    info->aid        = g_bitid;
#ifdef NB_NT
    int nt_size = NB_NT; /* one run per size: memset(mask_buf, .., nt_size) with a symbolic size is a
                            byte-level update of the whole 6 KB object for cbmc */
#else
    H4V_ND(int, nt_size);
#endif
    H4V_ND(int, mask_off);
    H4V_ND(int, mask_len);
    H4V_ND(int, fill_one);
    v->nbit_info.nt_size  = nt_size;
    v->nbit_info.mask_off = mask_off;
    v->nbit_info.mask_len = mask_len;
    v->nbit_info.fill_one = fill_one;
    v->nbit_info.sign_ext = 0;
#ifndef H4V_CBMC
    memset(v->nbit_info.mask_buf, 0x5a, NBIT_MASK_SIZE);
    memset(v->nbit_info.mask_info, 0x5a, sizeof(v->nbit_info.mask_info));
#endif
    int32 r = HCIcnbit_init(ar);
    H4V_COVER(r == SUCCEED && mask_len == 8 * nt_size, "whole value");
    #if !defined(NB_NT) || NB_NT > 1
    H4V_COVER(r == SUCCEED && mask_off % 8 != 7 && (mask_off - mask_len + 1) % 8 != 0 && mask_off / 8 != (mask_off - mask_len + 1) / 8, "field straddling bytes");
#endif
    H4V_COVER(r == SUCCEED && mask_len < 8 && mask_off / 8 == (mask_off - mask_len + 1) / 8, "field inside one byte");
    H4V_COVER(r == SUCCEED && fill_one == TRUE, "fill with ones");
    H4V_COVER(r == FAIL, "seek failure");
    H4V_CANARY("cnbit_init end");
}

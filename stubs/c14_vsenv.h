/* C14 -- common Vdata environment for units/c14_vio_u.c, c14_vg_u.c, c14_vrw_u.c, c14_vsfld_u.c:
 * one file opened read-only (c14_common.h), its vfile_t, ONE vdata instance g_w / g_vs registered
 * under C14_VSKEY and attached "r" (the only attachment a read-only file allows once VSattach
 * refuses "w").  atom.c and tbbt.c are trusted finite maps.  Include AFTER c14_common.h with
 * C14_HAVE_HAatom_object / _group / _register_atom / _remove_atom defined.
 */
#ifndef C14_VSENV_H
#define C14_VSENV_H
#include "vg_priv.h"

#define C14_VSKEY  0x50000004 /* representative vdata handle (see C14_FID) */
#define C14_VSKEY2 0x50000009 /* the handle HAregister_atom hands out next */
vfile_t      *g_vf;
void         *g_vfp;
vsinstance_t *g_w;
void         *g_wp;
VDATA        *g_vs;
void         *g_reg_obj;    /* object registered under C14_VSKEY2 */
int           g_tree_rem_n; /* nodes removed from a V-layer table */
int           g_tree_ins_n; /* nodes inserted */
static int    g_dummy_vstree, g_dummy_vgtree;

void *
HAatom_object(atom_t atm)
{
    if (atm == C14_FID)
        return g_frec;
    if (atm == C14_VSKEY)
        return g_w;
    if (atm == C14_VSKEY2)
        return g_reg_obj;
    if (atm == C14_AID)
        return g_arec;
    return NULL;
}
group_t
HAatom_group(atom_t atm)
{
    if (atm == C14_FID)
        return FIDGROUP;
    if (atm == C14_VSKEY)
        return VSIDGROUP;
    if (atm == C14_VSKEY2)
        return g_reg_obj != NULL ? VSIDGROUP : BADGROUP;
    if (atm == C14_AID)
        return AIDGROUP;
    return BADGROUP;
}
atom_t
HAregister_atom(group_t grp, void *object)
{
    g_reg_n++;
    if (g_reg_obj != NULL)
        return FAIL;
    g_reg_obj = object;
    return C14_VSKEY2;
}
void *
HAremove_atom(atom_t atm)
{
    g_rem_n++;
    if (atm == C14_VSKEY)
        return g_w;
    return NULL;
}
#ifndef C14_HAVE_Get_vfile
vfile_t *
Get_vfile(HFILEID f)
{
    return f == C14_FID ? g_vf : NULL;
}
#endif
TBBT_NODE *
tbbtdfind(TBBT_TREE *tree, void *key, TBBT_NODE **pp)
{
    if (tree == (TBBT_TREE *)&g_dummy_vstree)
        return (g_w != NULL && *(int32 *)key == g_w->key) ? (TBBT_NODE *)&g_wp : NULL;
    return NULL;
}
TBBT_NODE *
tbbtdins(TBBT_TREE *tree, void *item, void *key)
{
    g_tree_ins_n++;
    return (TBBT_NODE *)&g_wp;
}
void *
tbbtrem(TBBT_NODE **root, TBBT_NODE *node, void **kp)
{
    H4V_CHECK(g_frec == NULL || !C14_RDONLY(g_frec), "C14: vdata removed from the table of a file opened read-only");
    g_tree_rem_n++;
    return NULL;
}
/* hfile.c: only sets the in-memory `appendable` flag of an access record */
int
Happendable(int32 aid)
{
    H4V_ND(int, happendable_ok);
    return happendable_ok ? SUCCEED : FAIL;
}

static void
c14_mk_vsenv(void)
{
    c14_mk_file();
    g_tree_rem_n = g_tree_ins_n = 0;
    g_reg_obj = NULL;
    g_vf = malloc(sizeof(vfile_t));
    H4V_ASSUME(g_vf != NULL);
    H4V_ND(int32, vf_vstabn);
    H4V_ND(int32, vf_access);
    H4V_ASSUME(vf_vstabn >= 0 && vf_vstabn < 100000 && vf_access >= 1 && vf_access < 1000);
    g_vf->f      = C14_FID;
    g_vf->vgtabn = 0;
    g_vf->vgtree = (TBBT_TREE *)&g_dummy_vgtree;
    g_vf->vstabn = vf_vstabn;
    g_vf->vstree = (TBBT_TREE *)&g_dummy_vstree;
    g_vf->access = vf_access;
    g_vfp        = g_vf;

    g_vs = malloc(sizeof(VDATA));
    H4V_ASSUME(g_vs != NULL);
    memset(g_vs, 0, sizeof(VDATA));
    H4V_ND(uint16, vs_oref);
    H4V_ND(int32, vs_nvertices);
    H4V_ND(int, vs_marked);
    H4V_ND(int, vs_new_h_sz);
    H4V_ND(int16, vs_interlace);
    H4V_ND(int32, vs_aid);
    H4V_ASSUME(vs_nvertices >= 0 && (vs_marked == 0 || vs_marked == 1));
    g_vs->otag      = DFTAG_VH;
    g_vs->oref      = vs_oref;
    g_vs->f         = C14_FID;
    g_vs->access    = 'r';
    g_vs->interlace = vs_interlace;
    g_vs->nvertices = vs_nvertices;
    g_vs->marked    = vs_marked;
    g_vs->new_h_sz  = vs_new_h_sz;
    g_vs->version   = VSET_VERSION;
    g_vs->aid       = vs_aid;

    g_w = malloc(sizeof(vsinstance_t));
    H4V_ASSUME(g_w != NULL);
    H4V_ND(int, w_nattach);
    H4V_ASSUME(w_nattach >= 0 && w_nattach < 1000);
    g_w->key       = (int32)vs_oref;
    g_w->ref       = (unsigned)vs_oref;
    g_w->nattach   = w_nattach;
    g_w->nvertices = vs_nvertices;
    g_w->vs        = g_vs;
    g_w->next      = NULL;
    g_vs->instance = g_w;
    g_wp           = g_w;
}
#define C14_VS_ENV                                                                                           \
    (g_frec != NULL && C14_RDONLY(g_frec) && g_mut_n == 0 && g_denied_n == 0 && g_reg_n == 0 && g_tree_rem_n == 0 && \
     g_tree_ins_n == 0 && g_vf != NULL && g_w != NULL && g_vs != NULL && g_w->vs == g_vs)
#define C14_VS_ATTACHED_R (g_vs->access == 'r' && g_vs->f == C14_FID)
#define C14_VS_FRAME                                                                                         \
    __CPROVER_object_whole(g_vs), __CPROVER_object_whole(g_w), __CPROVER_object_whole(g_vf), g_mut_n, g_denied_n, g_reg_n, \
        g_rem_n, g_tree_rem_n, g_tree_ins_n, g_reg_obj
#endif

"""hfiledd.c on-disk side (C02 well-formed files, C16, C17, C20)"""
from .core import ob, prop

DD = dict(unit="hfiledd_u.c", file="hdf/src/hfiledd.c", objbits=10, cex_unwind=10,
          trusted=["HP-level ghost disk (stubs/h4v_hp.h; executable form of the HPseek/HP_read/HP_write/HPgetdiskblock contracts proved in hfile_u.c)",
                   "HAinit_group/tbbtdmake stubs (units/hfiledd_u.c)", "HEpush/HEreport/HEclear (stubs/h4v_err.h)"])
ob("HTIupdate_dd", ["C02", "C16", "C17", "C12"], entry="h_HTIupdate_dd", enforce="HTIupdate_dd", **DD)
ob("HTInew_dd_block", ["C02", "C12", "C16", "C17"], entry="h_HTInew_dd_block", enforce="HTInew_dd_block", mode="bounded",
   bound="ndds == 4 DDs per block (HDmemfill/memcpy loops unwound); 1, 2 or 3 existing blocks; all offsets symbolic", unwind=8,
   defines=["H4V_MAXNDDS=4"], **DD)
SYNC = dict(mode="bounded", unwind=8, timeout=900)
for kk, kh, tier in [(0, 0, "quick"), (5, 2, "quick"), (11, 5, "quick"), (1, 1, "thorough"), (2, 3, "thorough"), (3, 4, "thorough"),
                     (4, 0, "thorough"), (6, 0, "thorough"), (7, 0, "thorough"), (8, 0, "thorough"), (9, 0, "thorough"), (10, 0, "thorough")]:
    ob(f"HTPsync_k{kk}_h{kh}", ["C02", "C16", "C12"], entry="h_HTPsync", enforce="HTPsync", tier=tier,
       bound=f"<= 2 DD blocks of ndds == 4; offsets, DD contents, dirty flags symbolic; byte {kk} of the ghost DD and byte {kh} of the ghost header",
       defines=["H4V_MAXNDDS=4", "H4V_MAXNB=2", f"H4V_KK={kk}", f"H4V_KH={kh}"], **SYNC, **DD)
ob("HTPsync_order", ["C17"], entry="h_HTPsync_order", enforce=None, bound="<= 3 DD blocks of ndds == 4; offsets and DD contents symbolic",
   defines=["H4V_MAXNDDS=4", "H4V_MAXNB=3"], **SYNC, **DD)
for n, tier in [(0, "quick"), (1, "quick"), (5, "thorough"), (4, "thorough")]:
    ob(f"HTPinit_n{n}", ["C02", "C12", "C16"], entry="h_HTPinit", enforce="HTPinit", mode="bounded", tier=tier,
       bound=f"requested ndds == {n} (one constant per run; 0 -> default 16, 1 -> minimum 4)", unwind=20, defines=[f"H4V_NDDS_IN={n}"], **DD)
# HTPstart (reading the DD chain of an existing file): a contract with a whole-object frame, and the harness-level formulation over a
# 1-2 block image of ndds == 4 with the real HTIregister_tag_ref inlined, both ran cbmc out of memory at 10 GB.  What does fit (4-8 min,
# thorough tier): ONE block of ndds == 2, HTIregister_tag_ref replaced by its contract, the 24-byte image copy of the HP_read stub
# unwound by name.  Clauses (harness level): a failed read makes HTPstart fail (C16), header and descriptor decode (C12), and "the end of
# the file is not before the end of any descriptor block or element" (C17) -- the clause seeded change C17-m2 violates.
ob("HTPstart_b1", ["C17", "C12", "C16"], entry="h_HTPstart", enforce=None, mode="bounded", tier="thorough", timeout=2400, mem_gb=40,
   bound="file image of ONE DD block with ndds == 2, every descriptor byte symbolic; HTIregister_tag_ref by contract", unwind=6,
   replace=["HTIregister_tag_ref"], defines=["H4V_MAXNDDS=2", "H4V_TWO_BLOCKS=0", "H4V_LOOPS_NONE"],
   flags=["--unwindset", "HP_read.0:26"], **DD)

prop("C02",
     residual="'an independent reader recovers the same content' as a whole-file relation; no-overlap of all live elements over a history; chunk/compressed element internal consistency",
     assumptions=["DD extents handed to HTIupdate_dd are representable (kept by HTPupdate's callers)"])

"""C11 (extension): writing / re-writing / creating annotations (mfan.c), reading through the single-file interface (dfan.c)"""
from .core import ob

WR = dict(unit="mfan_wr_u.c", file="hdf/src/mfan.c", cex_unwind=14, objbits=8,
          trusted=["HAatom_object/HAatom_group/HAregister_atom/HAremove_atom (one annotation node, one file record, one new id)",
                   "tbbtdfind/tbbtdins/tbbtdmake (finite map with one modelled key; a duplicate key is refused like tbbt.c tbbtins)",
                   "Hstartwrite/Hwrite/Hendaccess/Hputelement/HDreuse_tagref over one ghost element (length kept by Hstartwrite unless "
                   "absent or reset; Hwrite refuses length <= 0 and writes beyond the element's length)",
                   "Htagnewref (any ref not in the DD list for the tag; does not reserve it)"])
# the ref scan of ANIcreate (next ref used neither by the file nor by the tree) runs at most 3 times over the one-element model:
# unwound 6 times (the harness has a constant loop of 4), the unwinding assertion proves that nothing is cut off
CRW = dict(WR, mode="proved-finite", unwind=6, bound="ref scan of ANIcreate: at most 3 iterations over the one-element DD list / one-entry tree model",
           trusted=WR["trusted"] + ["ANIcreate_ann_tree: ASSUMED contract (loads the on-disk annotations of a type into a fresh tree; may fail)",
                                        "Hexist over the one modelled element"])
# per-call contract, inductive over histories: 'new' mark <=> no element yet
ob("ANIwriteann", ["C11"], entry="h_ANIwriteann", enforce="ANIwriteann", **WR)
# the lengths for which ann_len + 4 is not representable (failed on the tree as found: signed overflow in Hstartwrite(.., ann_len + 4) after the old
# annotation had been given up; D60, repaired: such a length is refused first)
ob("ANIwriteann_maxlen", ["C11"], entry="h_ANIwriteann_maxlen", enforce="ANIwriteann", **WR)
# explicit two-call history on the real code (no contract): write, write again shorter/longer
ob("an_write_twice", ["C11"], entry="h_an_write_twice", **WR)
# full domain (failed on the tree as found: D59 id left registered, D61 ref collision; both repaired)
ob("ANIcreate", ["C11"], entry="h_ANIcreate", enforce="ANIcreate", replace=["ANIcreate_ann_tree"], **CRW)
# no fault injected below (failed on the tree as found, D61) -- a second ANcreate of the same type before the first annotation is written gets the
# same ref from Htagnewref, the tree refused the duplicate key, ANIcreate returned FAIL (and left the id registered)
ob("ANIcreate_nofault", ["C11"], entry="h_ANIcreate_nofault", enforce="ANIcreate", replace=["ANIcreate_ann_tree"], **CRW)
# the complement of both findings (no ref collision, no tree-insertion fault)
ob("ANIcreate_rest", ["C11"], entry="h_ANIcreate_rest", enforce="ANIcreate", replace=["ANIcreate_ann_tree"], **CRW)

# the four counts of ANfileinfo (each from its own type's tree; unloaded trees loaded first)
ob("ANfileinfo", ["C11"], entry="h_ANfileinfo", enforce="ANfileinfo", replace=["ANIcreate_ann_tree"], **CRW)

DG = dict(unit="dfan_get_u.c", file="hdf/src/dfan.c", cex_unwind=14, objbits=8, replace=["DFANIopen", "DFANIlocate"],
          trusted=["DFANIopen (ASSUMED contract: yields the file id or fails)", "DFANIlocate (ASSUMED contract: yields the located annotation ref, 0 = none)",
                   "Hstartread/Hinquire/Hlength/Hread/Hendaccess/Hclose (one ordinary element; Hread semantics of hfile.c incl. length 0 = to the end)",
                   "HPregister_term_func (may fail)"])
# full domain (failed on the tree as found, D57: FAIL - 4 == -5 was returned as a length; repaired)
ob("DFANIgetannlen", ["C11"], entry="h_DFANIgetannlen", enforce="DFANIgetannlen", **DG)
ob("DFANIgetannlen_ok", ["C11"], entry="h_DFANIgetannlen_ok", enforce="DFANIgetannlen", **DG)
# full domain (failed on the tree as found on the zero-room inputs: C label with maxlen == 1 / description with maxlen == 0; D58, repaired)
ob("DFANIgetann", ["C11"], entry="h_DFANIgetann", enforce="DFANIgetann", **DG)
ob("DFANIgetann_room", ["C11"], entry="h_DFANIgetann_room", enforce="DFANIgetann", **DG)
# faithful byte-by-byte Hread model instead of the sparse one, sizes capped
ob("DFANIgetann_room_b", ["C11"], entry="h_DFANIgetann_room", enforce="DFANIgetann", mode="bounded",
   bound="stored element <= 12 bytes, maxlen <= 12", defines=["H4V_CEX"], unwind=14, **DG)

# the file-annotation enumeration of the single-file interface: one cursor per kind, a read moves only its own
ob("DFANIgetfann", ["C11"], entry="h_DFANIgetfann", enforce="DFANIgetfann", unit="dfan_get_u.c", file="hdf/src/dfan.c", cex_unwind=14, objbits=8,
   trusted=DG["trusted"] + ["Hnextread (ghost successor element)", "A-MAXLEN: maxlen >= 1"])

"""C07/C20 (staging): the Vdata transfer kernel made decidable -- constant sizes per run, ghost indices, logging stubs.
   vsfld.c VSsetfields / VSfdefine redefinition; vrw.c VSwrite bookkeeping, VSread/VSwrite transfer-buffer chunking."""
from .core import ob

# ----------------------------------------------------------------------------- vsfld.c
VSF = dict(unit="vsfld_u.c", file="hdf/src/vsfld.c",
           trusted=["scanattrs (vparse.c): FAIL or the harness-built token vector",
                    "HAatom_group/HAatom_object: group id / harness-built vsinstance_t or NULL",
                    "strcmp/strdup: exact unrolled models for names of <= 2 characters"])
for ac, nus in ((1, 1), (2, 1), (2, 2), (3, 2)):
    ob(f"VSsetfields_ac{ac}_u{nus}", ["C07", "C20"], entry="h_VSsetfields_new", enforce="VSsetfields", mode="bounded",
       bound=f"{ac} requested field(s), {nus} user-defined symbol(s) + the 9 predefined ones, names <= 2 characters",
       overflow=True, unwind=11, cex_unwind=11, defines=["H4V_SMALL_STR", "NMLEN=2", f"SF_AC={ac}", f"SF_NUSYM={nus}"],
       timeout=900, tier="quick" if ac < 3 else "thorough", **VSF)
ob("VSsetfields_gate", ["C07", "C20"], entry="h_VSsetfields_gate", enforce="VSsetfields", overflow=True,
   defines=["H4V_SMALL_STR", "NMLEN=2"], unwind=4, cex_unwind=4, **VSF)

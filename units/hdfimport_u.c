/* Verification unit: mfhdf/hdfimport/hdfimport.c (C19: "hdfimport produces datasets whose shape, type and values equal
 * its numeric input" -- for EVERY input of a multi-input run)
 *
 * How an input file is parsed is selected by the format flags of struct Input (is_hdf, is_text, is_fp32, is_fp64), which
 * gtype() derives from the file's own 4-byte header.  Under contract here:
 *   gtype      the flags (and the output type) as a function of the header / Hishdf, given cleared flags      [proved]
 *   gint, gint32, gint16, gint8, gfloat, gfloat64   one value is fetched the way the flags say (fscanf conversion /
 *              fread element size) and the value stored is the value the stream delivered                       [proved]
 *   gdimen     shape == the three dimension fields of the input (order nplanes, nrows, ncols), rank, frame      [proved]
 *   gmaxmin    frame (the flags are not written)                                                               [proved]
 *   process    bounded history of 2 inputs of arbitrary, different formats: at every gdimen/gmaxmin/gscale/gdata call for
 *              input k the flags equal what input k's OWN header says (HI_FLAGS_OK), whatever input k-1 was       [bounded]
 * The "ghost disk": up to 2 input files, each with a format kind g_kind[k] (what its header says) and its three
 * dimension fields g_fdims[k][]; file k is named "<k>..." (first character), its stream is (FILE*)g_fobj[k], its SD
 * handle 100+k.  fopen/fread/fscanf/fclose/fprintf are renamed by macros to the logging bodies below (cbmc and native).
 * The stream bodies also CHECK the observable side of the property: fscanf only on a TEXT input, fread only on a
 * binary one, with the element size of THAT file's format.
 */
#include "h4v.h"
#include <stdio.h>
#include <stdlib.h>
#include <string.h>
#include "hdf.h"
#include "mfhdf.h"

#define HI_NF    2
#define K_HDF    0
#define K_TEXT   1
#define K_FP32   2
#define K_FP64   3
#define K_IN32   4
#define K_IN16   5
#define K_IN08   6
#define K_BAD    7 /* unknown header tag */
#define IO_NONE  0
#define IO_SCANF 1
#define IO_READ  2

H4V_DECL_ND(int);
H4V_DECL_ND(int32);
H4V_DECL_ND(uint32);

/* ---------------- ghost disk ---------------- */
int   g_kind[HI_NF];     /* format of input file k: what its own header says */
int32 g_fdims[HI_NF][3]; /* its dimension fields in file order: nplanes, nrows, ncols */
int32 g_hdfrank[HI_NF];  /* rank of the SDS of an HDF input */
char  g_fobj[HI_NF][8];  /* FILE objects */
int   g_pos[HI_NF];      /* items fetched from stream k so far (item 0 = header, 1..3 = dimensions) */
int   g_open_fail;       /* harness switch: fopen/fread may fail */
struct hi_log {
    int                io;    /* last fetch: IO_SCANF / IO_READ */
    int                file;  /* from which input */
    int                conv;  /* fscanf: 'd' 'h'(=%hd) 'e' 'l'(=%le) */
    unsigned           size;  /* bytes delivered */
    void              *dst;   /* where to */
    unsigned long long bits;  /* the bytes delivered (little endian) */
    int                n;     /* number of fetches */
    int                nerr;  /* messages printed */
    int                nclose;
} L;

static int
hi_file_of_path(const char *path)
{
    int k = path[0] - '0';
    H4V_CHECK(k >= 0 && k < HI_NF, "ghost disk: file name of an input file");
    return (k >= 0 && k < HI_NF) ? k : 0;
}

static int
hi_file_of_stream(FILE *f)
{
    int k = (f == (FILE *)g_fobj[0]) ? 0 : (f == (FILE *)g_fobj[1]) ? 1 : -1;
    H4V_CHECK(k >= 0, "C19 hdfimport reads from a stream of one of its input files");
    return k >= 0 ? k : 0;
}

static unsigned
hi_eltsize(int kind)
{
    return kind == K_FP64 ? 8u : kind == K_IN16 ? 2u : kind == K_IN08 ? 1u : 4u;
}

/* the value the stream delivers next: dimension fields at items 1..3, arbitrary bytes otherwise */
static unsigned long long
hi_next_bits(int k, unsigned size)
{
    H4V_ND(uint32, rd_lo);
    H4V_ND(uint32, rd_hi);
    unsigned long long v = ((unsigned long long)rd_hi << 32) | rd_lo;
    if (g_pos[k] >= 1 && g_pos[k] <= 3)
        v = (unsigned long long)(uint32)g_fdims[k][g_pos[k] - 1];
    if (size < 8)
        v &= (1ULL << (8 * size)) - 1ULL;
    return v;
}

intn
Hishdf(const char *path)
{
    return g_kind[hi_file_of_path(path)] == K_HDF;
}

FILE *
hi_fopen(const char *path, const char *mode)
{
    int k = hi_file_of_path(path);
    if (g_open_fail) {
        H4V_ND(int, fopen_fails);
        if (fopen_fails)
            return NULL;
    }
    g_pos[k] = 0;
    return (FILE *)g_fobj[k];
}

size_t
hi_fread(void *buf, size_t size, size_t n, FILE *f)
{
    int                k = hi_file_of_stream(f);
    unsigned long long v;
    static const char  tags[8][5] = {"\016\003\023\001", "TEXT", "FP32", "FP64", "IN32", "IN16", "IN08", "XXXX"};
    H4V_CHECK(n == 1 && size >= 1 && size <= 8, "hdfimport fetches one element per fread");
    if (!(n == 1 && size >= 1 && size <= 8))
        return 0;
    if (g_open_fail) {
        H4V_ND(int, fread_fails);
        if (fread_fails)
            return 0;
    }
    if (g_pos[k] == 0) {
        /* the header: 4 bytes */
        H4V_CHECK(size == 4, "hdfimport header is 4 bytes");
        if (size != 4)
            return 0;
        H4V_ND(int, lower);
        memcpy(buf, tags[g_kind[k] & 7], 4);
        if (lower && g_kind[k] != K_HDF && g_kind[k] != K_BAD) {
            ((char *)buf)[0] |= 0x20;
            ((char *)buf)[1] |= 0x20;
        }
        g_pos[k] = 1;
        return 1;
    }
    /* C19, observable side: a value is fetched in binary form only from a binary input, with the element size of
       THAT input's format (dimension fields: native int) */
    H4V_CHECK(g_kind[k] != K_TEXT && g_kind[k] != K_HDF, "C19 hdfimport parses a TEXT/HDF input as TEXT/HDF (fread of a binary value from it)");
    H4V_CHECK(size == (g_pos[k] <= 3 ? 4u : hi_eltsize(g_kind[k])), "C19 hdfimport fetches binary values with the element size of this input's own format");
    v = hi_next_bits(k, (unsigned)size);
    memcpy(buf, &v, size);
    L.io   = IO_READ;
    L.file = k;
    L.conv = 0;
    L.size = (unsigned)size;
    L.dst  = buf;
    L.bits = v;
    if (L.n < 1000)
        L.n++;
    if (g_pos[k] < 1000)
        g_pos[k]++;
    return 1;
}

/* fscanf(strm, "%<conv>", p): all calls of this file have this form; sz = sizeof(*p) (macro below) */
int
hi_fscanf(FILE *f, const char *fmt, void *p, size_t sz)
{
    int                k = hi_file_of_stream(f);
    unsigned long long v;
    unsigned           need;
    int                conv = fmt[1];
    H4V_CHECK(fmt[0] == '%', "fscanf format is one conversion");
    need = conv == 'd' ? 4u : conv == 'e' ? 4u : (conv == 'h' && fmt[2] == 'd') ? 2u : (conv == 'l' && fmt[2] == 'e') ? 8u : 0u;
    H4V_CHECK(need != 0 && need == sz, "fscanf conversion fits the object it stores to");
    if (need == 0 || need != sz)
        return 0;
    H4V_CHECK(g_kind[k] == K_TEXT && g_pos[k] >= 1, "C19 hdfimport parses a binary input as binary (fscanf on it)");
    if (g_open_fail) {
        H4V_ND(int, fscanf_fails);
        if (fscanf_fails)
            return 0;
    }
    v = hi_next_bits(k, need);
    memcpy(p, &v, need);
    L.io   = IO_SCANF;
    L.file = k;
    L.conv = conv;
    L.size = need;
    L.dst  = p;
    L.bits = v;
    if (L.n < 1000)
        L.n++;
    if (g_pos[k] < 1000)
        g_pos[k]++;
    return 1;
}

int
hi_fclose(FILE *f)
{
    if (L.nclose < 1000)
        L.nclose++;
    return 0;
}

static int
hi_msg(void)
{
    if (L.nerr < 1000)
        L.nerr++;
    return 0;
}

/* ---------------- SD / H stubs used by process() and the HDF branch of gdimen/gmaxmin ---------------- */
int   g_sd_fail; /* harness switch: library calls may fail */
static int
hi_lib_fails(void)
{
    if (!g_sd_fail)
        return 0;
    H4V_ND(int, lib_fails);
    return lib_fails != 0;
}
int32
Hopen(const char *path, intn acc, int16 ndds)
{
    return hi_lib_fails() ? FAIL : 7;
}
intn
Hclose(int32 id)
{
    return SUCCEED;
}
int32
SDstart(const char *name, int32 acc)
{
    if (hi_lib_fails())
        return FAIL;
    if (acc == DFACC_RDONLY)
        return 100 + hi_file_of_path(name);
    return 99; /* the output file */
}
intn
SDend(int32 id)
{
    return hi_lib_fails() ? FAIL : SUCCEED;
}
int32
SDselect(int32 fid, int32 idx)
{
    H4V_CHECK(fid >= 100 && fid < 100 + HI_NF, "SDselect on the handle of an HDF input");
    return hi_lib_fails() ? FAIL : 200 + (fid - 100);
}
intn
SDgetnamelen(int32 id, uint16 *len)
{
    *len = 3;
    return hi_lib_fails() ? FAIL : SUCCEED;
}
intn
SDgetinfo(int32 sdsid, char *name, int32 *rank, int32 *dimsizes, int32 *nt, int32 *nattr)
{
    int k = (sdsid >= 200 && sdsid < 200 + HI_NF) ? sdsid - 200 : 0;
    H4V_ND(int32, sds_other_nt); /* 0: the SDS is float32 (the only type hdfimport accepts from an HDF input) */
    int32 sds_nt = sds_other_nt ? sds_other_nt : DFNT_FLOAT32;
    H4V_CHECK(sdsid >= 200 && sdsid < 200 + HI_NF, "SDgetinfo on an SDS of an HDF input");
    if (hi_lib_fails())
        return FAIL;
    *rank = g_hdfrank[k];
    /* ZYX (rank 3) or YX (rank 2): the trailing fields of nplanes,nrows,ncols */
    if (g_hdfrank[k] == 2) {
        dimsizes[0] = g_fdims[k][1];
        dimsizes[1] = g_fdims[k][2];
    }
    else if (g_hdfrank[k] == 3) {
        dimsizes[0] = g_fdims[k][0];
        dimsizes[1] = g_fdims[k][1];
        dimsizes[2] = g_fdims[k][2];
    }
    *nt    = sds_nt;
    *nattr = 0;
    name[0] = 0;
    return SUCCEED;
}
intn
SDgetrange(int32 sdsid, void *pmax, void *pmin)
{
    H4V_ND(uint32, rng_max);
    H4V_ND(uint32, rng_min);
    if (hi_lib_fails())
        return FAIL;
    memcpy(pmax, &rng_max, 4);
    memcpy(pmin, &rng_min, 4);
    return SUCCEED;
}
intn
SDgetdimscale(int32 id, void *data)
{
    return hi_lib_fails() ? FAIL : SUCCEED;
}
intn
SDreaddata(int32 sdsid, int32 *start, int32 *stride, int32 *end, void *data)
{
    H4V_CHECK(sdsid >= 200 && sdsid < 200 + HI_NF, "SDreaddata on an SDS of an HDF input");
    return hi_lib_fails() ? FAIL : SUCCEED;
}
intn
SDendaccess(int32 id)
{
    return hi_lib_fails() ? FAIL : SUCCEED;
}
int   g_created_n;
int32 g_created_nt[HI_NF], g_created_rank[HI_NF], g_created_dims[HI_NF][3];
int32
SDcreate(int32 fid, const char *name, int32 nt, int32 rank, int32 *dimsizes)
{
    if (hi_lib_fails())
        return FAIL;
    if (g_created_n >= 0 && g_created_n < HI_NF) {
        g_created_nt[g_created_n]   = nt;
        g_created_rank[g_created_n] = rank;
        for (int d = 0; d < 3; d++)
            g_created_dims[g_created_n][d] = d < rank ? dimsizes[d] : 0;
    }
    g_created_n++;
    return 300;
}
intn
SDsetrange(int32 sdsid, void *pmax, void *pmin)
{
    return hi_lib_fails() ? FAIL : SUCCEED;
}
int32
SDgetdimid(int32 sdsid, intn number)
{
    return 400 + number;
}
intn
SDsetdimscale(int32 id, int32 count, int32 nt, void *data)
{
    return hi_lib_fails() ? FAIL : SUCCEED;
}
intn
SDwritedata(int32 sdsid, int32 *start, int32 *stride, int32 *end, void *data)
{
    return hi_lib_fails() ? FAIL : SUCCEED;
}

#define fopen           hi_fopen
#define fread           hi_fread
#define fclose          hi_fclose
#define fscanf(s, f, p) hi_fscanf(s, f, (void *)(p), sizeof(*(p)))
#define fprintf(...)    hi_msg()
#define main            hdfimport_main
#include "../hdfimport/hdfimport.c"
#undef fopen
#undef fread
#undef fclose
#undef fscanf
#undef fprintf
#undef main

/* ---------------- contract vocabulary ---------------- */
/* the flags of *in are what a file of format `kind` demands -- determined by THAT file only */
#define HI_FLAGS_OK(in, kind)                                                                                \
    ((in)->is_hdf == ((kind) == K_HDF) && (in)->is_text == ((kind) == K_TEXT) && (in)->is_fp32 == ((kind) == K_FP32) && \
     (in)->is_fp64 == ((kind) == K_FP64))
#define HI_FLAGS_CLEAR(in) ((in)->is_hdf == FALSE && (in)->is_text == FALSE && (in)->is_fp32 == FALSE && (in)->is_fp64 == FALSE)
#define HI_FILE(path)      ((path)[0] - '0')
#define HI_FILE_OK(path)   ((path)[0] == '0' || (path)[0] == '1')
#define HI_STRM_FILE(s)    ((s) == (FILE *)g_fobj[1] ? 1 : 0)
#define HI_STRM_OK(s)      ((s) == (FILE *)g_fobj[0] || (s) == (FILE *)g_fobj[1])
int g_f; /* ghost: the input file a leaf-reader harness reads from */

/* gtype: with the flags cleared (as process() hands them over), success means: the flags are exactly those of the
   file's own header, the stream (for non-HDF input) is the file's stream, and the output type follows the header
   and the -t/-n request (in->outtype on entry: NO_NE = none) */
static int gtype(char *infile, struct Input *in, FILE **strm)
    __CPROVER_requires(infile != NULL && in != NULL && strm != NULL && HI_FILE_OK(infile))
    __CPROVER_requires(HI_FLAGS_CLEAR(in))
    __CPROVER_requires(in->outtype >= FP_32 && in->outtype <= NO_NE)
    __CPROVER_assigns(in->is_hdf, in->is_text, in->is_fp32, in->is_fp64, in->outtype, *strm, L, __CPROVER_object_whole(g_pos))
    __CPROVER_ensures(__CPROVER_return_value == 0 || __CPROVER_return_value == 1)
    __CPROVER_ensures(__CPROVER_return_value == 0 ==> HI_FLAGS_OK(in, g_kind[HI_FILE(infile)]))
    __CPROVER_ensures(__CPROVER_return_value == 0 ==> g_kind[HI_FILE(infile)] != K_BAD)
    __CPROVER_ensures((__CPROVER_return_value == 0 && g_kind[HI_FILE(infile)] != K_HDF) ==>
                      (*strm == (FILE *)g_fobj[HI_FILE(infile)] && g_pos[HI_FILE(infile)] == 1))
    __CPROVER_ensures((__CPROVER_return_value == 0 && g_kind[HI_FILE(infile)] == K_HDF) ==> in->outtype == __CPROVER_old(in->outtype))
    __CPROVER_ensures((__CPROVER_return_value == 0 && g_kind[HI_FILE(infile)] == K_TEXT) ==>
                      in->outtype == (__CPROVER_old(in->outtype) == NO_NE ? FP_32 : __CPROVER_old(in->outtype)))
    __CPROVER_ensures((__CPROVER_return_value == 0 && g_kind[HI_FILE(infile)] == K_FP64) ==>
                      (in->outtype == (__CPROVER_old(in->outtype) == NO_NE ? FP_32 : FP_64) &&
                       (__CPROVER_old(in->outtype) == NO_NE || __CPROVER_old(in->outtype) == FP_64)))
    __CPROVER_ensures((__CPROVER_return_value == 0 && g_kind[HI_FILE(infile)] >= K_FP32 && g_kind[HI_FILE(infile)] != K_FP64) ==>
                      (__CPROVER_old(in->outtype) == NO_NE &&
                       in->outtype == (g_kind[HI_FILE(infile)] == K_FP32 ? FP_32 : g_kind[HI_FILE(infile)] == K_IN32 ? INT_32 :
                                       g_kind[HI_FILE(infile)] == K_IN16 ? INT_16 : INT_8)));

/* leaf readers.  requires: the property clause (flags are those of the stream's own file); ensures: exactly one value
   fetched, in the form the format demands, and the value stored is the value delivered */
#define HI_LEAF_PRE(in, strm) (in != NULL && HI_STRM_OK(strm) && HI_FLAGS_OK(in, g_kind[HI_STRM_FILE(strm)]) && \
                               g_kind[HI_STRM_FILE(strm)] != K_HDF && g_kind[HI_STRM_FILE(strm)] != K_BAD && L.n == 0 && \
                               g_pos[HI_STRM_FILE(strm)] >= 1)
#define HI_ONE_FETCH(strm, text_conv, bin_size, where)                                                        \
    (L.n == 1 && L.file == HI_STRM_FILE(strm) && L.dst == (void *)(where) &&                                  \
     (g_kind[HI_STRM_FILE(strm)] == K_TEXT ? (L.io == IO_SCANF && L.conv == (text_conv)) : (L.io == IO_READ && L.size == (bin_size))))

static int gint(char *infile, FILE *strm, int32 *ival, struct Input *in)
    __CPROVER_requires(ival != NULL && HI_LEAF_PRE(in, strm))
    __CPROVER_requires(g_pos[HI_STRM_FILE(strm)] <= 3) /* gint fetches the dimension fields only */
    __CPROVER_assigns(*ival, L, __CPROVER_object_whole(g_pos))
    __CPROVER_ensures(__CPROVER_return_value == 0 || __CPROVER_return_value == 1)
    __CPROVER_ensures(__CPROVER_return_value == 0 ==> (HI_ONE_FETCH(strm, 'd', 4, ival) && *ival == (int32)(uint32)L.bits));
static int gint32(char *infile, FILE *strm, int32 *ival, struct Input *in)
    __CPROVER_requires(ival != NULL && HI_LEAF_PRE(in, strm))
    __CPROVER_requires(g_pos[HI_STRM_FILE(strm)] > 3 && (g_kind[HI_STRM_FILE(strm)] == K_TEXT || g_kind[HI_STRM_FILE(strm)] == K_IN32))
    __CPROVER_assigns(*ival, L, __CPROVER_object_whole(g_pos))
    __CPROVER_ensures(__CPROVER_return_value == 0 || __CPROVER_return_value == 1)
    __CPROVER_ensures(__CPROVER_return_value == 0 ==> (HI_ONE_FETCH(strm, 'd', 4, ival) && *ival == (int32)(uint32)L.bits));
static int gint16(char *infile, FILE *strm, int16 *ival, struct Input *in)
    __CPROVER_requires(ival != NULL && HI_LEAF_PRE(in, strm))
    __CPROVER_requires(g_pos[HI_STRM_FILE(strm)] > 3 && (g_kind[HI_STRM_FILE(strm)] == K_TEXT || g_kind[HI_STRM_FILE(strm)] == K_IN16))
    __CPROVER_assigns(*ival, L, __CPROVER_object_whole(g_pos))
    __CPROVER_ensures(__CPROVER_return_value == 0 || __CPROVER_return_value == 1)
    __CPROVER_ensures(__CPROVER_return_value == 0 ==> (HI_ONE_FETCH(strm, 'h', 2, ival) && *ival == (int16)(uint16)L.bits));
/* gint8: a TEXT value is scanned as a short and narrowed (the local it is scanned into is not named by the contract) */
static int gint8(char *infile, FILE *strm, int8 *ival, struct Input *in)
    __CPROVER_requires(ival != NULL && HI_LEAF_PRE(in, strm))
    __CPROVER_requires(g_pos[HI_STRM_FILE(strm)] > 3 && (g_kind[HI_STRM_FILE(strm)] == K_TEXT || g_kind[HI_STRM_FILE(strm)] == K_IN08))
    __CPROVER_assigns(*ival, L, __CPROVER_object_whole(g_pos))
    __CPROVER_ensures(__CPROVER_return_value == 0 || __CPROVER_return_value == 1)
    __CPROVER_ensures(__CPROVER_return_value == 0 ==>
                      (L.n == 1 && L.file == HI_STRM_FILE(strm) &&
                       (g_kind[HI_STRM_FILE(strm)] == K_TEXT ? (L.io == IO_SCANF && L.conv == 'h') : (L.io == IO_READ && L.size == 1 && L.dst == (void *)ival)) &&
                       *ival == (int8)(uint8)L.bits));
/* gfloat: TEXT -> %e; FP32 -> 4 bytes, stored as they are; FP64 written as float32 (no -n) -> 8 bytes, narrowed */
float32 g_f32;  /* harness-side decoding of L.bits is not possible inside a clause: the harness checks the value */
static int gfloat(char *infile, FILE *strm, float32 *fp32, struct Input *in)
    __CPROVER_requires(fp32 != NULL && HI_LEAF_PRE(in, strm))
    __CPROVER_requires(g_pos[HI_STRM_FILE(strm)] > 3 && (g_kind[HI_STRM_FILE(strm)] == K_TEXT || g_kind[HI_STRM_FILE(strm)] == K_FP32 || g_kind[HI_STRM_FILE(strm)] == K_FP64))
    __CPROVER_assigns(*fp32, L, __CPROVER_object_whole(g_pos))
    __CPROVER_ensures(__CPROVER_return_value == 0 || __CPROVER_return_value == 1)
    __CPROVER_ensures(__CPROVER_return_value == 0 ==>
                      (L.n == 1 && L.file == HI_STRM_FILE(strm) &&
                       (g_kind[HI_STRM_FILE(strm)] == K_TEXT ? (L.io == IO_SCANF && L.conv == 'e' && L.dst == (void *)fp32)
                        : g_kind[HI_STRM_FILE(strm)] == K_FP32 ? (L.io == IO_READ && L.size == 4 && L.dst == (void *)fp32)
                                                              : (L.io == IO_READ && L.size == 8))));
static int gfloat64(char *infile, FILE *strm, float64 *fp64, struct Input *in)
    __CPROVER_requires(fp64 != NULL && HI_LEAF_PRE(in, strm))
    __CPROVER_requires(g_pos[HI_STRM_FILE(strm)] > 3 && (g_kind[HI_STRM_FILE(strm)] == K_TEXT || g_kind[HI_STRM_FILE(strm)] == K_FP64))
    __CPROVER_assigns(*fp64, L, __CPROVER_object_whole(g_pos))
    __CPROVER_ensures(__CPROVER_return_value == 0 || __CPROVER_return_value == 1)
    __CPROVER_ensures(__CPROVER_return_value == 0 ==> HI_ONE_FETCH(strm, 'l', 8, fp64));

/* gdimen: "shape equals the numeric input": on success dims[] (XYZ) are the file's ncols, nrows, nplanes and the rank
   follows nplanes (non-HDF) / is the SDS rank (HDF); nothing but rank and dims of *in is written -- not the flags.
   requires: the property clause HI_FLAGS_OK (checked at the call site when the contract replaces the call) */
#define HI_INFO_PRE(info, in, strm)                                                                          \
    (in != NULL && HI_FILE_OK(info.filename) && HI_FLAGS_OK(in, g_kind[HI_FILE(info.filename)]) &&           \
     g_kind[HI_FILE(info.filename)] != K_BAD &&                                                              \
     (g_kind[HI_FILE(info.filename)] == K_HDF ? info.handle == 100 + HI_FILE(info.filename) : strm == (FILE *)g_fobj[HI_FILE(info.filename)]))
static int gdimen(struct infilesformat infile_info, struct Input *in, FILE *strm)
    __CPROVER_requires(HI_INFO_PRE(infile_info, in, strm))
    __CPROVER_requires(g_kind[HI_FILE(infile_info.filename)] == K_HDF || g_pos[HI_FILE(infile_info.filename)] == 1)
    __CPROVER_assigns(in->rank, in->dims[0], in->dims[1], in->dims[2], L, __CPROVER_object_whole(g_pos))
    __CPROVER_ensures(__CPROVER_return_value == 0 || __CPROVER_return_value == 1)
    __CPROVER_ensures((__CPROVER_return_value == 0 && g_kind[HI_FILE(infile_info.filename)] != K_HDF) ==>
                      (in->dims[0] == g_fdims[HI_FILE(infile_info.filename)][2] && in->dims[1] == g_fdims[HI_FILE(infile_info.filename)][1] &&
                       in->dims[2] == g_fdims[HI_FILE(infile_info.filename)][0] && in->rank == (in->dims[2] > 1 ? 3 : 2) &&
                       g_pos[HI_FILE(infile_info.filename)] == 4))
    __CPROVER_ensures((__CPROVER_return_value == 0 && g_kind[HI_FILE(infile_info.filename)] == K_HDF) ==>
                      (in->rank == g_hdfrank[HI_FILE(infile_info.filename)] && (in->rank == 2 || in->rank == 3) &&
                       in->dims[0] == g_fdims[HI_FILE(infile_info.filename)][2] && in->dims[1] == g_fdims[HI_FILE(infile_info.filename)][1] &&
                       in->dims[2] == (in->rank == 3 ? g_fdims[HI_FILE(infile_info.filename)][0] : 1)))
    __CPROVER_ensures(__CPROVER_return_value == 0 ==> (in->dims[0] >= 2 && in->dims[1] >= 2));

/* gmaxmin: frame -- the max/min pair of the output type and *is_maxmin; the flags are not written */
static int gmaxmin(struct infilesformat infile_info, struct Input *in, FILE *strm, int *is_maxmin)
    __CPROVER_requires(is_maxmin != NULL && HI_INFO_PRE(infile_info, in, strm))
    __CPROVER_requires(g_kind[HI_FILE(infile_info.filename)] == K_HDF || g_pos[HI_FILE(infile_info.filename)] > 3)
    __CPROVER_requires(g_kind[HI_FILE(infile_info.filename)] == K_HDF || g_kind[HI_FILE(infile_info.filename)] == K_TEXT ||
                       in->outtype == (g_kind[HI_FILE(infile_info.filename)] == K_FP32 ? FP_32 : g_kind[HI_FILE(infile_info.filename)] == K_IN32 ? INT_32 :
                                       g_kind[HI_FILE(infile_info.filename)] == K_IN16 ? INT_16 : g_kind[HI_FILE(infile_info.filename)] == K_IN08 ? INT_8 : in->outtype))
    __CPROVER_requires(g_kind[HI_FILE(infile_info.filename)] != K_FP64 || in->outtype == FP_32 || in->outtype == FP_64)
    __CPROVER_assigns(*is_maxmin, in->max, in->min, in->fp64s.max, in->fp64s.min, in->in32s.max, in->in32s.min, in->in16s.max,
                      in->in16s.min, in->in8s.max, in->in8s.min, L, __CPROVER_object_whole(g_pos))
    __CPROVER_ensures(__CPROVER_return_value == 0 || __CPROVER_return_value == 1);

/* gscale, gdata (loops over the data): used only as replaced calls inside process(); requires = the property clause,
   frame by reading (scale arrays / data buffer / max-min; the flags are not written) -- TRUSTED, see obligations file */
static int gscale(struct infilesformat infile_info, struct Input *in, FILE *strm, int *is_scale)
    __CPROVER_requires(is_scale != NULL && HI_INFO_PRE(infile_info, in, strm))
    __CPROVER_assigns(*is_scale, L, __CPROVER_object_whole(g_pos))
    __CPROVER_assigns((in->outtype == 0 || in->outtype == 5): __CPROVER_object_whole(in->hscale), __CPROVER_object_whole(in->vscale))
    __CPROVER_assigns(((in->outtype == 0 || in->outtype == 5) && in->rank == 3): __CPROVER_object_whole(in->dscale))
    __CPROVER_assigns(in->outtype == 1: __CPROVER_object_whole(in->fp64s.hscale), __CPROVER_object_whole(in->fp64s.vscale))
    __CPROVER_assigns((in->outtype == 1 && in->rank == 3): __CPROVER_object_whole(in->fp64s.dscale))
    __CPROVER_assigns(in->outtype == 2: __CPROVER_object_whole(in->in32s.hscale), __CPROVER_object_whole(in->in32s.vscale))
    __CPROVER_assigns((in->outtype == 2 && in->rank == 3): __CPROVER_object_whole(in->in32s.dscale))
    __CPROVER_assigns(in->outtype == 3: __CPROVER_object_whole(in->in16s.hscale), __CPROVER_object_whole(in->in16s.vscale))
    __CPROVER_assigns((in->outtype == 3 && in->rank == 3): __CPROVER_object_whole(in->in16s.dscale))
    __CPROVER_assigns(in->outtype == 4: __CPROVER_object_whole(in->in8s.hscale), __CPROVER_object_whole(in->in8s.vscale))
    __CPROVER_assigns((in->outtype == 4 && in->rank == 3): __CPROVER_object_whole(in->in8s.dscale))
    __CPROVER_ensures(__CPROVER_return_value == 0 || __CPROVER_return_value == 1);
static int gdata(struct infilesformat infile_info, struct Input *in, FILE *strm, int *is_maxmin)
    __CPROVER_requires(is_maxmin != NULL && HI_INFO_PRE(infile_info, in, strm))
    __CPROVER_assigns(*is_maxmin, in->max, in->min, in->fp64s.max, in->fp64s.min, in->in32s.max, in->in32s.min, in->in16s.max,
                      in->in16s.min, in->in8s.max, in->in8s.min, L, __CPROVER_object_whole(g_pos), __CPROVER_object_whole(in->data))
    __CPROVER_ensures(__CPROVER_return_value == 0 || __CPROVER_return_value == 1);

#ifdef H4V_NATIVE
#include "h4v_native_wrap.h"
#endif

/* ---------------- harnesses ---------------- */
static void
hi_reset(void)
{
    memset(&L, 0, sizeof L);
    g_created_n = 0;
    for (int k = 0; k < HI_NF; k++) {
        H4V_ND(int, kind);
        H4V_ND(int32, nplanes);
        H4V_ND(int32, nrows);
        H4V_ND(int32, ncols);
        H4V_ND(int32, hdfrank);
        H4V_ASSUME(kind >= K_HDF && kind <= K_BAD);
        g_kind[k]     = kind;
        g_fdims[k][0] = nplanes;
        g_fdims[k][1] = nrows;
        g_fdims[k][2] = ncols;
        g_hdfrank[k]  = hdfrank;
        g_pos[k]      = 0;
    }
    H4V_ND(int, open_fail);
    H4V_ND(int, sd_fail);
    g_open_fail = open_fail != 0;
    g_sd_fail   = sd_fail != 0;
}

static struct Input g_in;
static char         g_name[4];

/* an Input whose format flags and output type are arbitrary */
static void
hi_any_input(void)
{
    H4V_ND(int, f_hdf);
    H4V_ND(int, f_text);
    H4V_ND(int, f_fp32);
    H4V_ND(int, f_fp64);
    H4V_ND(int, outtype);
    g_in.is_hdf  = f_hdf;
    g_in.is_text = f_text;
    g_in.is_fp32 = f_fp32;
    g_in.is_fp64 = f_fp64;
    g_in.outtype = outtype;
}

void
h_gtype(void)
{
    hi_reset();
    hi_any_input();
    H4V_ND(int, file);
    H4V_ASSUME(file == 0 || file == 1);
    g_name[0]  = (char)('0' + file);
    g_name[1]  = 0;
    FILE *strm = NULL;
    int   r    = gtype(g_name, &g_in, &strm);
    H4V_COVER(r == 0 && g_in.is_text == TRUE, "gtype text");
    H4V_COVER(r == 0 && g_in.is_fp64 == TRUE && g_in.outtype == FP_64, "gtype fp64 -n");
    H4V_COVER(r == 0 && g_in.outtype == INT_16, "gtype in16");
    H4V_COVER(r == 0 && g_in.is_hdf == TRUE, "gtype hdf");
    H4V_COVER(r == 1, "gtype fails");
    H4V_CANARY("gtype end");
}

/* leaf readers: stream of file `file`, positioned after the header (dimension fields or data) */
#define HI_LEAF_ENV()                                                                                        \
    hi_reset();                                                                                              \
    hi_any_input();                                                                                          \
    H4V_ND(int, file);                                                                                       \
    H4V_ASSUME(file == 0 || file == 1);                                                                      \
    H4V_ND(int, pos);                                                                                        \
    H4V_ASSUME(pos >= 1 && pos <= 100);                                                                      \
    g_pos[file] = pos;                                                                                       \
    FILE *strm  = (FILE *)g_fobj[file];                                                                      \
    g_name[0]   = (char)('0' + file);                                                                        \
    g_name[1]   = 0

void
h_gint(void)
{
    HI_LEAF_ENV();
    int32 v = 0;
    int   r = gint(g_name, strm, &v, &g_in);
    H4V_CHECK(!(r == 0 && pos <= 3) || v == g_fdims[file][pos - 1], "C19 a dimension field is delivered as it is in the file");
    H4V_COVER(r == 0 && L.io == IO_SCANF, "gint text");
    H4V_COVER(r == 0 && L.io == IO_READ, "gint binary");
    H4V_CANARY("gint end");
}
void
h_gint32(void)
{
    HI_LEAF_ENV();
    int32 v = 0;
    int   r = gint32(g_name, strm, &v, &g_in);
    H4V_COVER(r == 0 && L.io == IO_SCANF, "gint32 text");
    H4V_COVER(r == 0 && L.io == IO_READ, "gint32 binary");
    H4V_CANARY("gint32 end");
}
void
h_gint16(void)
{
    HI_LEAF_ENV();
    int16 v = 0;
    int   r = gint16(g_name, strm, &v, &g_in);
    H4V_COVER(r == 0 && L.io == IO_SCANF, "gint16 text");
    H4V_COVER(r == 0 && L.io == IO_READ, "gint16 binary");
    H4V_CANARY("gint16 end");
}
void
h_gint8(void)
{
    HI_LEAF_ENV();
    int8 v = 0;
    int  r = gint8(g_name, strm, &v, &g_in);
    H4V_COVER(r == 0 && L.io == IO_SCANF, "gint8 text");
    H4V_COVER(r == 0 && L.io == IO_READ, "gint8 binary");
    H4V_CANARY("gint8 end");
}
void
h_gfloat(void)
{
    HI_LEAF_ENV();
    float32 v = 0;
    int     r = gfloat(g_name, strm, &v, &g_in);
    if (r == 0 && g_kind[file] != K_FP64) {
        uint32 w;
        memcpy(&w, &v, 4);
        H4V_CHECK(w == (uint32)L.bits, "C19 a float32 value is stored as the stream delivered it");
    }
    if (r == 0 && g_kind[file] == K_FP64) {
        float64 d;
        memcpy(&d, &L.bits, 8);
        H4V_CHECK(d != d || v == (float32)d, "C19 a float64 input value written as float32 is the narrowed value");
    }
    H4V_COVER(r == 0 && L.io == IO_SCANF, "gfloat text");
    H4V_COVER(r == 0 && L.io == IO_READ && L.size == 4, "gfloat fp32");
    H4V_COVER(r == 0 && L.io == IO_READ && L.size == 8, "gfloat fp64");
    H4V_CANARY("gfloat end");
}
void
h_gfloat64(void)
{
    HI_LEAF_ENV();
    float64 v = 0;
    int     r = gfloat64(g_name, strm, &v, &g_in);
    if (r == 0) {
        unsigned long long w;
        memcpy(&w, &v, 8);
        H4V_CHECK(w == L.bits, "C19 a float64 value is stored as the stream delivered it");
    }
    H4V_COVER(r == 0 && L.io == IO_SCANF, "gfloat64 text");
    H4V_COVER(r == 0 && L.io == IO_READ, "gfloat64 binary");
    H4V_CANARY("gfloat64 end");
}

static struct infilesformat g_info;
#define HI_INFO_ENV()                                                                                        \
    hi_reset();                                                                                              \
    hi_any_input();                                                                                          \
    H4V_ND(int, file);                                                                                       \
    H4V_ASSUME(file == 0 || file == 1);                                                                      \
    H4V_ND(int, pos);                                                                                        \
    H4V_ASSUME(pos >= 1 && pos <= 100);                                                                      \
    g_pos[file]        = pos;                                                                                \
    FILE *strm         = (FILE *)g_fobj[file];                                                               \
    g_info.filename[0] = (char)('0' + file);                                                                 \
    g_info.filename[1] = 0;                                                                                  \
    g_info.handle      = 100 + file

void
h_gdimen(void)
{
    HI_INFO_ENV();
    int r = gdimen(g_info, &g_in, strm);
    H4V_COVER(r == 0 && g_in.is_hdf == TRUE && g_in.rank == 3, "gdimen hdf rank 3");
    H4V_COVER(r == 0 && g_in.is_text == TRUE, "gdimen text");
    H4V_COVER(r == 0 && g_in.is_fp32 == TRUE && g_in.rank == 2, "gdimen binary rank 2");
    H4V_COVER(r == 1, "gdimen fails");
    H4V_CANARY("gdimen end");
}
void
h_gmaxmin(void)
{
    HI_INFO_ENV();
    H4V_ND(int, mm0);
    int mm = mm0;
    int r  = gmaxmin(g_info, &g_in, strm, &mm);
    H4V_COVER(r == 0 && mm == TRUE && mm0 == FALSE && g_in.is_hdf == TRUE, "gmaxmin hdf range");
    H4V_COVER(r == 0 && L.n == 2 && L.size == 2, "gmaxmin int16 pair");
    H4V_CANARY("gmaxmin end");
}

/* process(): 2 inputs of arbitrary formats.  gdimen/gmaxmin/gscale/gdata are replaced by their contracts, whose
   requires -- HI_FLAGS_OK for the file named by the infile_info argument -- is thereby asserted at each call.
   Bound: fcount <= 2, dimension fields 2..3 (the element count is a symbolic product), no raster output. */
static struct Options g_opt;
void
h_process(void)
{
    hi_reset();
    const int fcount = HI_NF; /* a constant: keeps the indices opt->infiles[i] concrete */
    for (int k = 0; k < HI_NF; k++) {
        H4V_ND(int, req_outtype);
        H4V_ASSUME(req_outtype >= FP_32 && req_outtype <= NO_NE);
        H4V_ASSUME(g_fdims[k][0] >= 1 && g_fdims[k][0] <= 3 && g_fdims[k][1] >= 2 && g_fdims[k][1] <= 3 && g_fdims[k][2] >= 2 && g_fdims[k][2] <= 3);
        H4V_ASSUME(g_hdfrank[k] == (g_fdims[k][0] > 1 ? 3 : 2));
#ifdef HI_DIMS_MIN
        /* observational variant (nothing replaced: the real gdimen/gmaxmin/gscale/gdata run on the ghost disk) */
        H4V_ASSUME(g_fdims[k][0] == 1 && g_fdims[k][1] == 2 && g_fdims[k][2] == 2);
#endif
        g_opt.infiles[k].filename[0] = (char)('0' + k);
        g_opt.infiles[k].filename[1] = 0;
        g_opt.infiles[k].outtype     = req_outtype;
        g_opt.infiles[k].handle      = FAIL;
    }
    g_opt.outfile[0] = 'o';
    g_opt.outfile[1] = 0;
    g_opt.fcount     = fcount;
    H4V_ND(int, to_float);
    g_opt.to_float = to_float ? TRUE : FALSE;
    g_opt.to_image = FALSE;
    g_opt.pal      = FALSE;
    g_opt.mean     = FALSE;
    g_opt.ctm      = EXPAND;
    g_opt.hres = g_opt.vres = g_opt.dres = 0;
    int r = process(&g_opt);
    /* every dataset created has the shape and type of its input */
    H4V_CHECK(!(r == 0 && g_opt.to_float == TRUE) || g_created_n == fcount, "C19 hdfimport creates one dataset per input");
    for (int k = 0; k < HI_NF; k++)
        if (r == 0 && g_opt.to_float == TRUE && k < fcount) {
            int rk = g_fdims[k][0] > 1 ? 3 : 2;
            H4V_CHECK(g_created_rank[k] == rk, "C19 dataset k has the rank of input k");
            H4V_CHECK(g_created_dims[k][rk - 1] == g_fdims[k][2] && g_created_dims[k][rk - 2] == g_fdims[k][1] &&
                          (rk == 2 || g_created_dims[k][0] == g_fdims[k][0]),
                      "C19 dataset k has the shape of input k");
            H4V_CHECK(g_kind[k] != K_FP32 || g_created_nt[k] == DFNT_FLOAT32, "C19 an FP32 input becomes a float32 dataset");
            H4V_CHECK(g_kind[k] != K_IN32 || g_created_nt[k] == DFNT_INT32, "C19 an IN32 input becomes an int32 dataset");
            H4V_CHECK(g_kind[k] != K_IN16 || g_created_nt[k] == DFNT_INT16, "C19 an IN16 input becomes an int16 dataset");
            H4V_CHECK(g_kind[k] != K_IN08 || g_created_nt[k] == DFNT_INT8, "C19 an IN08 input becomes an int8 dataset");
        }
    H4V_COVER(r == 0 && fcount == 2 && g_kind[0] == K_TEXT && g_kind[1] == K_FP32, "process TEXT then FP32");
    H4V_COVER(r == 0 && fcount == 2 && g_kind[0] == K_FP64 && g_kind[1] == K_TEXT, "process FP64 then TEXT");
    H4V_COVER(r == 0 && fcount == 2 && g_kind[0] == K_HDF && g_kind[1] == K_IN16, "process HDF then IN16");
    H4V_COVER(r == 0 && fcount == 2 && g_kind[0] == K_FP32 && g_kind[1] == K_HDF, "process FP32 then HDF");
    H4V_COVER(r == 1, "process fails");
    H4V_CANARY("process end");
}

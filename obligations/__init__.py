import importlib, pkgutil
from .core import OBS, PROPS
for m in sorted(pkgutil.iter_modules(__path__), key=lambda m: m.name):
    if m.name.startswith("c") and m.name != "core":
        importlib.import_module(f"{__name__}.{m.name}")

/* Verification unit: hdf/src/vrw.c -- C14 (read-only access): the gate of VSwrite on a vdata
 * attached "r".  Environment: stubs/c14_vsenv.h. */
#include "h4v.h"
#include "h4v_err.h"
#define C14_HAVE_HAatom_object
#define C14_HAVE_HAatom_group
#define C14_HAVE_HAregister_atom
#define C14_HAVE_HAremove_atom
#include "c14_common.h"
#include "c14_vsenv.h"
#include "vrw.c"

int32 VSwrite(int32 vkey, const uint8 buf[], int32 nelt, int32 interlace)
    __CPROVER_requires(C14_VS_ENV && C14_VS_ATTACHED_R && vkey == C14_VSKEY)
    __CPROVER_assigns(C14_VS_FRAME)
    __CPROVER_ensures(__CPROVER_return_value == FAIL)
    __CPROVER_ensures(g_mut_n == 0 && g_denied_n == 0)
    __CPROVER_ensures(g_vs->nvertices == __CPROVER_old(g_vs->nvertices) && g_vs->marked == __CPROVER_old(g_vs->marked));

#ifdef H4V_NATIVE
#include "h4v_native_wrap.h"
#endif

void
h_c14_VSwrite(void)
{
    c14_mk_vsenv();
    H4V_ND(int32, nelt);
    H4V_ND(int32, interlace);
    uint8 buf[8] = {0};
    int32 r = VSwrite(C14_VSKEY, buf, nelt, interlace);
    H4V_COVER(r == FAIL && nelt > 0, "VSwrite refused at the access check");
    H4V_CANARY("VSwrite end");
}

"""C13 (part): the handle manager hdf/src/atom.c -- ids never alias, stale ids are rejected.
The property itself (prop("C13")) is owned by another author; these obligations only list it.

Partitions (exhaustive, so that a finding sits in exactly one obligation and the rest stays green):
  *_g8     group == ANIDGROUP (8): MAKE_ATOM evaluates 8 << 28 in a signed int (UB, cbmc/UBSan report it)
  *_oom    the allocator refuses (named ghost g_oom_at, injected natively too): HAIget_atom_node
           memset()s NULL; HAinit_group frees the record the group table still refers to
"""
from .core import ob

CAD = dict(flags=["--sat-solver", "cadical"], backend="cbmc SAT (cadical)")  # minisat2: > 200 s on these
AT = dict(unit="atom_u.c", file="hdf/src/atom.c", cex_unwind=6,
          trusted=["HEclear/HEpush/HEreport (herr.c): no effect on atom state"], **CAD)
CHAIN = "bucket chain of the probed id <= 3 nodes (all other buckets/groups arbitrary)"

# --- id codec: loop free; all groups, all counters < 2^28, all power-of-two hash sizes <= 2^28
ob("atom_codec", ["C13"], entry="h_codec", enforce=None, **AT)
# group 8: the functional codec clauses; the signed-shift UB of MAKE_ATOM(8,i) itself is carried by
# HAregister_atom_g8 (real code, atom.c:266), here it would only be a macro expanded in the harness
ob("atom_codec_g8", ["C13"], entry="h_codec", enforce=None, defines=["H4V_G8"],
   **dict(AT, flags=CAD["flags"] + ["--no-signed-overflow-check"]))
ob("HAatom_group", ["C13"], entry="h_HAatom_group", enforce="HAatom_group", **AT)

# --- issue of an id: loop free, nothing behind the bucket head is looked at => proved
ob("HAregister_atom_reuse", ["C13"], entry="h_HAregister_atom", enforce="HAregister_atom",
   defines=["H4V_FL_NONEMPTY"], **AT)
ob("HAregister_atom_alloc", ["C13"], entry="h_HAregister_atom", enforce="HAregister_atom",
   defines=["H4V_FL_EMPTY"], **AT)
# HAregister_atom_oom (allocator refuses) is NOT registered: no property quantifies over allocation failure
# (assumption A-ALLOC); the harness variant -DH4V_OOM stays in the unit and shows HAIget_atom_node memset(NULL)
# (atom.c:575-580) -- recorded in DESIGN.md section 9 as a side observation, not a finding of C13.
# group 8: MAKE_ATOM evaluates 8 << 28 in a signed int (ISO C UB, two's-complement result with gcc/clang: the id
# is still unique and decodes correctly, so C13 holds); the signed-overflow check is switched off for this
# partition only (assumption A-SHIFT), everything else about the id is still proved
ob("HAregister_atom_g8", ["C13"], entry="h_HAregister_atom", enforce="HAregister_atom",
   defines=["H4V_G8", "H4V_FL_NONEMPTY"], **dict(AT, flags=CAD["flags"] + ["--no-signed-overflow-check"]))
# the full bucket/cache invariant is preserved (new id lands in the modelled bucket)
ob("HAregister_atom_wf", ["C13"], entry="h_HAregister_atom", enforce="HAregister_atom", mode="bounded",
   bound="target bucket chain <= 2 nodes before, node taken from the free list", tier="thorough",
   defines=["H4V_FL_NONEMPTY", "H4V_REG_WF"], **AT)

# --- lookup: chain walk bounded by the modelled chain; the cache part is loop free
ob("HAIfind_atom", ["C13"], entry="h_HAIfind_atom", enforce="HAIfind_atom", mode="bounded", bound=CHAIN,
   unwind=5, **AT)
ob("HAatom_object", ["C13"], entry="h_HAatom_object", enforce="HAatom_object", mode="bounded", bound=CHAIN,
   unwind=5, **AT)
# --- release: chain walk bounded, 4-entry cache loop fully unwound
ob("HAremove_atom", ["C13"], entry="h_HAremove_atom", enforce="HAremove_atom", mode="bounded", bound=CHAIN,
   unwind=5, **AT)
# --- group end: only the 4-entry cache loop
ob("HAdestroy_group", ["C13"], entry="h_HAdestroy_group", enforce="HAdestroy_group", mode="proved-finite",
   bound="ATOM_CACHE_SIZE = 4", unwind=5, **AT)
# --- group start
ob("HAinit_group", ["C13"], entry="h_HAinit_group", enforce="HAinit_group", **AT)
# HAinit_group_oom not registered (A-ALLOC, see above): calloc failure frees the record the table still points to
# (atom.c:171-179) -- side observation in DESIGN.md section 9.
# --- search by object (Hopen's "is this path already open"): whole table modelled
ob("HAsearch_atom", ["C13"], entry="h_HAsearch_atom", enforce="HAsearch_atom", mode="bounded",
   bound="hash_size <= 2, chains <= 3 and <= 1 nodes, comparison function = pointer equality", unwind=5,
   defines=["H4V_HS_CAP=2u"], **AT)

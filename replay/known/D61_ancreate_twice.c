/* Build: gcc D61_ancreate_twice.c -I/repo/hdf/src -I/repo/mfhdf/src -I/repo/_build -L/repo/_build/bin -lmfhdf -lhdf -lz -ljpeg -lm; run with LD_LIBRARY_PATH=/repo/_build/bin. Exit status 1 = defect present. */
/* D56: a second ANcreate before the first annotation is written fails (both get the same ref) */
#include "hdf.h"
#include <stdio.h>
int main(void)
{
    int32 f = Hopen("d56.hdf", DFACC_CREATE, 0), an = ANstart(f);
    int32 a = ANcreate(an, 1000, 1, AN_DATA_LABEL);
    int32 b = ANcreate(an, 1000, 2, AN_DATA_LABEL);
    uint16 ta, ra, tb, rb;
    printf("a=%d b=%d\n", (int)a, (int)b);
    if (b != FAIL) {
      ANid2tagref(a, &ta, &ra); ANid2tagref(b, &tb, &rb);
      printf("a: %u/%u  b: %u/%u\n", ta, ra, tb, rb);
      ANwriteann(a, "first", 5); ANwriteann(b, "second", 6);
      char buf[16] = {0};
      ANreadann(a, buf, 16); printf("a reads '%s'\n", buf);
    }
    ANend(an); Hclose(f);
    return b == FAIL;
}

/* Build: gcc D56_uchar_attr_count.c -I/repo/hdf/src -I/repo/mfhdf/src -I/repo/_build -L/repo/_build/bin -lmfhdf -lhdf -lz -ljpeg -lm; run with LD_LIBRARY_PATH=/repo/_build/bin. Exit status 1 = defect present. */
/* D55: a DFNT_UCHAR8 attribute with count > 1 comes back with count 1 after SDend/SDstart */
#include "mfhdf.h"
#include <stdio.h>
#include <string.h>
int main(void)
{
    int32 sd = SDstart("d55.hdf", DFACC_CREATE);
    unsigned char v[5] = {'a', 'b', 'c', 'd', 'e'}, r[16] = {0};
    char  name[64]; int32 nt, cnt;
    SDsetattr(sd, "u", DFNT_UCHAR8, 5, v);
    SDattrinfo(sd, 0, name, &nt, &cnt);
    printf("before close: nt=%d count=%d\n", (int)nt, (int)cnt);
    SDend(sd);
    sd = SDstart("d55.hdf", DFACC_READ);
    SDattrinfo(sd, 0, name, &nt, &cnt);
    SDreadattr(sd, 0, r);
    printf("after reopen: nt=%d count=%d values=%.5s\n", (int)nt, (int)cnt, r);
    SDend(sd);
    return cnt == 5 && memcmp(r, v, 5) == 0 ? 0 : 1;
}

"""C11: annotations (mfan.c)"""
from .core import ob, prop

AN = dict(unit="mfan_u.c", file="hdf/src/mfan.c", cex_unwind=14, objbits=10,
          trusted=["HAatom_object (ANIDGROUP: one registered node or NULL)",
                   "Hstartread/Hinquire/Hlength/Hread/Hendaccess (one ordinary element; Hread semantics of hfile.c:1247 incl. length 0 = to the end)"])
ob("an_key_codec", "C11", entry="h_an_key_codec", **AN)
ob("ANatype2tag", "C11", entry="h_ANatype2tag", enforce="ANatype2tag", **AN)
ob("ANtag2atype", "C11", entry="h_ANtag2atype", enforce="ANtag2atype", **AN)
ob("an_type_tag_inverse", "C11", entry="h_an_type_tag_inverse", **AN)
ob("ANIanncmp", "C11", entry="h_ANIanncmp", enforce="ANIanncmp", **AN)
ob("an_cmp_order", "C11", entry="h_an_cmp_order", **AN)
ob("ANIannlen", "C11", entry="h_ANIannlen", enforce="ANIannlen", **AN)
# the full domain: FAILS on the D14 inputs (label with maxlen == 1 / description with maxlen == 0 and text stored):
# the clamped length 0 reaches Hread, where 0 means "to the end" -> writes beyond ann[0..maxlen)
ob("ANIreadann", "C11", entry="h_ANIreadann", enforce="ANIreadann", **AN)
# same contract, D14 inputs excluded in the harness (everything else of the domain)
ob("ANIreadann_room", "C11", entry="h_ANIreadann_room", enforce="ANIreadann", **AN)
# faithful byte-by-byte Hread model instead of the sparse one, sizes capped
ob("ANIreadann_room_b", "C11", entry="h_ANIreadann_room", enforce="ANIreadann", mode="bounded",
   bound="stored element <= 12 bytes, maxlen <= 12", defines=["H4V_CEX"], unwind=14, **AN)

prop("C11",
     residual="decided per call: key codec, type<->tag maps, key order, ANIannlen, ANIreadann, ANIwriteann (first write / rewrite, c11_an_ext.py), "
              "ANIcreate (over a one-entry tree / one-element DD model, ANIcreate_ann_tree by ASSUMED contract), DFANIgetannlen, DFANIgetann.  "
              "NOT decided: whole-API histories, ANIcreate_ann_tree/ANIaddentry over the real tbbt, ANannlist/ANnumann listing, id<->tag/ref maps "
              "over the atom group, reopen, DFANIlocate/DFANIopen (ASSUMED contracts) and the put side of dfan.c",
     assumptions=["A-TBBT: tbbt.c is not verified",
                  "A-AN-HSTUB: Hstartread/Hinquire/Hlength/Hread/Hendaccess are modelled for one ordinary (non-special) element; "
                  "Hread follows hfile.c (length<0 fails, length 0 or beyond the end = read to the end)"])

/* Verification unit: mfhdf/hdiff/hdiff_array.c (C19: hdiff flags any change to a single data value)
 *
 * array_diff() is the element-wise comparison every hdiff data comparison (SDS, GR image) ends in.
 * Under contract: the integer number types, hdiff's DEFAULT options (err_limit 0.0 = "exact equal",
 * err_rel 0.0 = -p not given, statistics 0 = -S not given), no fill value.
 * The number type is a compile-time constant of the harness (one obligation per type, -DH4V_TYPE=...).
 */
#include "h4v.h"
#include <stdio.h>
#include <stdlib.h>

#ifndef H4V_TYPE
#define H4V_TYPE DFNT_INT8
#endif
#ifndef H4V_ELT
#define H4V_ELT int8
#endif
#define H4V_MAXRANK 2

/* ---------------- stubs (libc callees; cbmc only -- the native replay uses libc) ---------------- */
#ifdef H4V_CBMC
int  nondet_int(void);
char g_envbuf[2];
char g_dbg_obj[8]; /* stands for the FILE object of "hdiff.debug" */
char *
getenv(const char *name)
{
    /* the DEBUG variable may or may not be set */
    return nondet_int() ? NULL : g_envbuf;
}
FILE *
fopen(const char *path, const char *mode)
{
    /* A-DEBUGFILE: opening "hdiff.debug" succeeds (the real code does not check the result) */
    return (FILE *)g_dbg_obj;
}
int
fprintf(FILE *f, const char *fmt, ...)
{
    return 0;
}
int
fclose(FILE *f)
{
    return 0;
}
#endif

#include "hdf.h"
/* ---------------- ghosts ---------------- */
uint32 g_k;   /* ghost element index: a proof for arbitrary g_k is a proof for every element */
int    g_same; /* ghost flag set by the harness: the two buffers hold equal contents */

#include "hdiff_array.c"


#define AD_E1(k) (((H4V_ELT *)buf1)[k])
#define AD_E2(k) (((H4V_ELT *)buf2)[k])

/* print_pos: converts the linear index curr_pos into a matrix position pos[0..rank-1] using the
   strides acc[] (acc[rank-1] == 1) and prints it (the printed text is not modelled).
   Clauses: header flag 1 -> 0 (header printed once), otherwise unchanged; the position is the row-major decomposition of curr_pos
   (stated for rank <= 3; for larger ranks only sign and frame); nothing but *ph and pos[] written. */
int g_j;       /* ghost dimension index */
int g_pp_full; /* ghost switch: 1 = state the decomposition clauses (h_print_pos); 0 = frame only (inside
                  array_diff, where the position is only printed: keeps the replaced contract cheap) */
static void print_pos(int *ph, uint32 curr_pos, int32 *acc, int32 *pos, int rank, const char *obj1,
                      const char *obj2)
    __CPROVER_requires(ph != NULL && rank >= 1 && rank <= H4_MAX_VAR_DIMS && curr_pos <= 2147483647u)
    __CPROVER_requires(__CPROVER_r_ok(acc, rank * sizeof(int32)) && __CPROVER_w_ok(pos, rank * sizeof(int32)))
    __CPROVER_requires(g_j >= 0 && g_j < rank && acc[g_j] >= 1 && acc[rank - 1] == 1)
    __CPROVER_requires(rank < 2 || acc[0] >= 1)
    __CPROVER_requires(rank < 3 || acc[1] >= 1)
    __CPROVER_assigns(*ph, __CPROVER_object_upto(pos, rank * sizeof(int32)))
    __CPROVER_ensures(*ph == (__CPROVER_old(*ph) == 1 ? 0 : __CPROVER_old(*ph)))
    __CPROVER_ensures((g_pp_full && rank <= 3) ==> pos[g_j] >= 0)
    __CPROVER_ensures((g_pp_full && rank == 1) ==> pos[0] == (int32)curr_pos)
    __CPROVER_ensures((g_pp_full && rank == 2) ==> ((long long)pos[0] * acc[0] + pos[1] == (long long)curr_pos && pos[1] < acc[0]))
    __CPROVER_ensures((g_pp_full && rank == 3) ==> ((long long)pos[0] * acc[0] + (long long)pos[1] * acc[1] + pos[2] == (long long)curr_pos &&
                                     (long long)pos[1] * acc[1] + pos[2] < acc[0] && pos[2] < acc[1]));

/* array_diff under hdiff's DEFAULT options (err_limit 0.0 "exact equal", err_rel 0.0 = no -p,
   statistics 0 = no -S), without fill values, for the integer number type H4V_TYPE. */
uint32 array_diff(void *buf1, void *buf2, uint32 tot_cnt, const char *name1, const char *name2, int rank,
                  int32 *dims, int32 type, float32 err_limit, float32 err_rel, uint32 max_err_cnt,
                  int32 statistics, void *fill1, void *fill2)
    __CPROVER_requires(buf1 != NULL && buf2 != NULL && dims != NULL)
    __CPROVER_requires(tot_cnt <= 2147483647u)
    /* shape: rank 1 or 2 (GR images are always rank 2), positive extents */
    __CPROVER_requires(rank >= 1 && rank <= H4V_MAXRANK)
    __CPROVER_requires(__CPROVER_r_ok(dims, rank * sizeof(int32)))
    __CPROVER_requires(rank < 2 || dims[1] >= 1)
    __CPROVER_requires(type == H4V_TYPE)
    __CPROVER_requires(err_limit == 0.0F && err_rel == 0.0F && statistics == 0)
    __CPROVER_requires(fill1 == NULL && fill2 == NULL)
    __CPROVER_requires(g_k < tot_cnt)
    __CPROVER_assigns()
    /* C19 "flags any change to a single data value": element g_k differs ==> a difference is found */
    __CPROVER_ensures(AD_E1(g_k) != AD_E2(g_k) ==> __CPROVER_return_value > 0)
    /* C19 reflexivity: equal contents (ghost flag set by the harness that built them) ==> no difference */
    __CPROVER_ensures(g_same ==> __CPROVER_return_value == 0)
    /* never more differences than elements */
    __CPROVER_ensures(__CPROVER_return_value <= tot_cnt);

#ifdef H4V_NATIVE
#include "h4v_native_wrap.h"
#endif

/* ---------------- harnesses ---------------- */
H4V_DECL_ND(uint32);
H4V_DECL_ND(int);
H4V_DECL_ND(int32);
typedef H4V_ELT elt_t;

#ifndef H4V_MAXCNT
#define H4V_MAXCNT 8u /* cap on tot_cnt (the obligations are `bounded`) */
#endif
#define H4V_CAP H4V_MAXCNT

static int32 g_dims[H4V_MAXRANK];

/* environment common to all array_diff harnesses: shape and print limit arbitrary */
#define AD_ENV()                                                                                             \
    H4V_HAVOC(uint32, g_k);                                                                                  \
    H4V_HAVOC(int, g_j);                                                                                     \
    g_pp_full = 0;                                                                                           \
    H4V_ND(uint32, tot_cnt);                                                                                 \
    H4V_ASSUME(tot_cnt >= 1 && tot_cnt <= H4V_MAXCNT);                                                       \
    H4V_ND(uint32, max_err_cnt);                                                                             \
    H4V_ND(int, rank);                                                                                       \
    H4V_ASSUME(rank >= 1 && rank <= H4V_MAXRANK && g_j >= 0 && g_j < rank);                                  \
    H4V_ND(int32, dim0);                                                                                     \
    H4V_ND(int32, dim1);                                                                                     \
    H4V_ASSUME(dim0 >= 1 && dim1 >= 1);                                                                      \
    g_dims[0] = dim0;                                                                                        \
    g_dims[1] = dim1
#define AD_CALL(x, y) array_diff(x, y, tot_cnt, "a", "b", rank, g_dims, H4V_TYPE, 0.0F, 0.0F, max_err_cnt, 0, NULL, NULL)

/* two independent buffers with arbitrary contents */
void
h_array_diff(void)
{
    AD_ENV();
    g_same = 0;
    H4V_ND_BUF(elt_t, b1, tot_cnt, H4V_CAP);
    H4V_ND_BUF(elt_t, b2, tot_cnt, H4V_CAP);
    uint32 r = AD_CALL(b1, b2);
    H4V_COVER(r > 0, "array_diff reports a difference");
    H4V_COVER(r == 0, "array_diff reports no difference");
    H4V_COVER(r > 1, "array_diff reports several differences");
    H4V_CANARY("array_diff end");
}

/* equal contents: a second buffer holding a copy, or the same buffer twice */
void
h_array_diff_same(void)
{
    AD_ENV();
    g_same = 1;
    H4V_ND_BUF(elt_t, b1, tot_cnt, H4V_CAP);
    H4V_ND_BUF(elt_t, b2, tot_cnt, H4V_CAP);
    H4V_ND(int, alias);
    for (uint32 k = 0; k < H4V_MAXCNT; k++)
        if (k < tot_cnt)
            b2[k] = b1[k];
    uint32 r = AD_CALL(b1, alias ? b1 : b2);
    H4V_COVER(alias != 0, "array_diff same buffer");
    H4V_COVER(alias == 0, "array_diff equal copy");
    H4V_CANARY("array_diff_same end");
}

/* symmetry of "a difference is found", checked at the harness level (two calls) */
void
h_array_diff_sym(void)
{
    AD_ENV();
    g_same = 0;
    H4V_ND_BUF(elt_t, b1, tot_cnt, H4V_CAP);
    H4V_ND_BUF(elt_t, b2, tot_cnt, H4V_CAP);
    uint32 r12 = AD_CALL(b1, b2);
    uint32 r21 = AD_CALL(b2, b1);
    H4V_CHECK((r12 > 0) == (r21 > 0), "C19 hdiff(F,F') finds a difference iff hdiff(F',F) does");
    H4V_COVER(r12 > 0, "array_diff_sym difference");
    H4V_COVER(r12 == 0, "array_diff_sym no difference");
    H4V_CANARY("array_diff_sym end");
}

/* exact count: the result is the number of differing elements */
void
h_array_diff_count(void)
{
    AD_ENV();
    g_same = 0;
    H4V_ND_BUF(elt_t, b1, tot_cnt, H4V_CAP);
    H4V_ND_BUF(elt_t, b2, tot_cnt, H4V_CAP);
    uint32 n = 0;
    for (uint32 k = 0; k < H4V_MAXCNT; k++)
        if (k < tot_cnt && b1[k] != b2[k])
            n++;
    uint32 r = AD_CALL(b1, b2);
    H4V_CHECK(r == n, "C19 array_diff returns the number of differing elements");
    H4V_COVER(n == tot_cnt, "array_diff_count all differ");
    H4V_CANARY("array_diff_count end");
}

/* print_pos alone */
#ifndef H4V_PPRANK
#define H4V_PPRANK 3
#endif
#ifndef H4V_CBMC
#include <signal.h>
#include <unistd.h>
/* native replay: print_pos ends in a libc assert(); report its abort as a failed replay */
static void
h4v_on_abort(int sig)
{
    static const char m[] = "H4V-REPLAY FAILED: assert() of the real print_pos aborted\n";
    (void)!write(1, m, sizeof m - 1);
    _exit(1);
}
#endif
void
h_print_pos(void)
{
#ifndef H4V_CBMC
    signal(SIGABRT, h4v_on_abort);
#endif
    H4V_HAVOC(int, g_j);
    g_pp_full = 1;
    H4V_ND(int, rank);
    H4V_ASSUME(rank >= 1 && rank <= H4V_PPRANK && g_j >= 0 && g_j < rank);
    H4V_ND(uint32, curr_pos);
    H4V_ND(int, ph0);
    int    ph  = ph0;
    int32 *acc = malloc(rank * sizeof(int32));
    int32 *pos = malloc(rank * sizeof(int32));
    H4V_ASSUME(acc != NULL && pos != NULL);
    H4V_ND(int32, acc0);
    H4V_ND(int32, acc1);
    H4V_ND(int32, acc2);
#ifdef H4V_ACC0
    /* strides fixed per obligation (symbolic / and * of two unknowns does not terminate) */
    H4V_ASSUME(acc0 == (rank == 3 ? H4V_ACC0 : rank == 2 ? H4V_ACC1 : 1) && acc1 == (rank == 3 ? H4V_ACC1 : 1));
#endif
    acc[0] = acc0;
    if (rank > 1)
        acc[1] = acc1;
    if (rank > 2)
        acc[2] = acc2;
    print_pos(&ph, curr_pos, acc, pos, rank, "a", NULL);
    H4V_COVER(rank == H4V_PPRANK && pos[0] > 0 && pos[rank - 1] > 0, "print_pos interior position at the highest rank");
    H4V_COVER(ph0 == 1, "print_pos prints the header");
    H4V_CANARY("print_pos end");
}

"""C13 (part): the handle manager hdf/src/atom.c -- ids never alias, stale ids are rejected.
The property itself (prop("C13")) is owned by another author; these obligations only list it."""
from .core import ob

AT = dict(unit="atom_u.c", file="hdf/src/atom.c", cex_unwind=6,
          trusted=["HEclear (herr.c): no effect on atom state", "HEpush/HEreport: no effect on atom state"])
CHAIN = "bucket chain of the probed id <= 3 nodes (every other bucket/group arbitrary)"

# id codec: loop free, all 2^32 ids / all groups / all power-of-two hash sizes <= 2^28
ob("atom_codec", ["C13"], entry="h_codec", enforce=None, **AT)
ob("HAatom_group", ["C13"], entry="h_HAatom_group", enforce="HAatom_group", **AT)
# uncached and cached lookup: chain walk bounded by the modelled chain length
ob("HAIfind_atom", ["C13"], entry="h_HAIfind_atom", enforce="HAIfind_atom", mode="bounded", bound=CHAIN,
   unwind=5, **AT)
ob("HAatom_object", ["C13"], entry="h_HAatom_object", enforce="HAatom_object", mode="bounded", bound=CHAIN,
   unwind=5, **AT)
ob("HAremove_atom", ["C13"], entry="h_HAremove_atom", enforce="HAremove_atom", mode="bounded", bound=CHAIN,
   unwind=5, **AT)

/* Verification unit: hdf/src/hcomp.c -- the compression header of a compressed (or chunked and
   compressed) element: HCPquery_encode_header / HCPencode_header / HCPdecode_header.
   C04/C05: the coder and EVERY coder parameter a dataset was created with are the ones a later
            open decodes (otherwise the decoder runs with other parameters than the encoder);
   C02:     the header bytes are the documented big-endian layout and exactly
            HCPquery_encode_header() bytes long.
   Loop-free: mode "proved".  Nothing outside these three functions is reachable. */
#include "h4v.h"
#include "h4v_err.h"
#include "hdf_priv.h"
#include "hfile_priv.h"
#include "hcomp.c"

H4V_DECL_ND(int);
H4V_DECL_ND(int32);
typedef unsigned char h4v_uchar;
H4V_DECL_ND(h4v_uchar);

int g_k; /* ghost byte index inside the header buffer */

#define HB16(p, o) ((uint32)(((uint32)(p)[o] << 8) | (uint32)(p)[(o) + 1]))
#define HB32(p, o)                                                                                   \
    ((uint32)(((uint32)(p)[o] << 24) | ((uint32)(p)[(o) + 1] << 16) | ((uint32)(p)[(o) + 2] << 8) |  \
              (uint32)(p)[(o) + 3]))
/* header length per coder: 2 (model) + 2 (coder) + coder parameters */
#define HDR_LEN(c)                                                                                   \
    ((c) == COMP_CODE_NBIT ? 20 : (c) == COMP_CODE_SKPHUFF ? 12 : (c) == COMP_CODE_DEFLATE ? 6       \
     : (c) == COMP_CODE_SZIP ? 18 : 4)
#define HDR_MAX 20
#define ENC_REJECTS(c, ci)                                                                           \
    ((c) == COMP_CODE_IMCOMP || ((c) == COMP_CODE_SKPHUFF && (ci)->skphuff.skp_size < 1) ||          \
     ((c) == COMP_CODE_DEFLATE && ((ci)->deflate.level < 0 || (ci)->deflate.level > 9)))

int32 HCPquery_encode_header(comp_model_t model_type, model_info *m_info, comp_coder_t coder_type, comp_info *c_info)
    __CPROVER_requires(m_info != NULL && c_info != NULL)
    __CPROVER_assigns()
    __CPROVER_ensures(coder_type == COMP_CODE_IMCOMP ? __CPROVER_return_value == FAIL
                                                     : __CPROVER_return_value == HDR_LEN(coder_type));

int HCPencode_header(uint8 *p, comp_model_t model_type, model_info *m_info, comp_coder_t coder_type, comp_info *c_info)
    __CPROVER_requires(p != NULL && m_info != NULL && c_info != NULL && 0 <= g_k && g_k < HDR_MAX)
    __CPROVER_assigns(__CPROVER_object_upto(p, HDR_MAX))
    __CPROVER_ensures(__CPROVER_return_value == SUCCEED || __CPROVER_return_value == FAIL)
    __CPROVER_ensures((__CPROVER_return_value == FAIL) == (ENC_REJECTS(coder_type, c_info) ? 1 : 0))
    /* model and coder type: two big-endian 16-bit words */
    __CPROVER_ensures(__CPROVER_return_value == SUCCEED ==>
                      (HB16(p, 0) == (uint32)(uint16)model_type && HB16(p, 2) == (uint32)(uint16)coder_type))
    /* n-bit: number type (32), sign-extend flag (16), fill-one flag (16), start bit (32), bit length (32) */
    __CPROVER_ensures((__CPROVER_return_value == SUCCEED && coder_type == COMP_CODE_NBIT) ==>
                      (HB32(p, 4) == (uint32)c_info->nbit.nt && HB16(p, 8) == (uint32)(uint16)c_info->nbit.sign_ext &&
                       HB16(p, 10) == (uint32)(uint16)c_info->nbit.fill_one &&
                       HB32(p, 12) == (uint32)c_info->nbit.start_bit && HB32(p, 16) == (uint32)c_info->nbit.bit_len))
    /* skipping Huffman: skip size (32), twice */
    __CPROVER_ensures((__CPROVER_return_value == SUCCEED && coder_type == COMP_CODE_SKPHUFF) ==>
                      (HB32(p, 4) == (uint32)c_info->skphuff.skp_size && HB32(p, 8) == (uint32)c_info->skphuff.skp_size))
    /* deflate: level (16) */
    __CPROVER_ensures((__CPROVER_return_value == SUCCEED && coder_type == COMP_CODE_DEFLATE) ==>
                      HB16(p, 4) == (uint32)c_info->deflate.level)
    /* szip: pixels, pixels per scanline, options mask with the revision bit (32 each), bits per
       pixel, pixels per block (8 each) */
    __CPROVER_ensures((__CPROVER_return_value == SUCCEED && coder_type == COMP_CODE_SZIP) ==>
                      (HB32(p, 4) == (uint32)c_info->szip.pixels && HB32(p, 8) == (uint32)c_info->szip.pixels_per_scanline &&
                       HB32(p, 12) == (uint32)(c_info->szip.options_mask | SZ_H4_REV_2) &&
                       p[16] == (uint8)c_info->szip.bits_per_pixel && p[17] == (uint8)c_info->szip.pixels_per_block))
    /* nothing beyond the header length is written */
    __CPROVER_ensures(g_k >= HDR_LEN(coder_type) ==> p[g_k] == __CPROVER_old(p[g_k]));

int HCPdecode_header(uint8 *p, comp_model_t *model_type, model_info *m_info, comp_coder_t *coder_type, comp_info *c_info)
    __CPROVER_requires(p != NULL && model_type != NULL && m_info != NULL && coder_type != NULL && c_info != NULL)
    __CPROVER_assigns(*model_type, *coder_type, __CPROVER_object_whole(c_info))
    __CPROVER_ensures(__CPROVER_return_value == SUCCEED)
    __CPROVER_ensures((uint32)*model_type == HB16(p, 0) && (uint32)*coder_type == HB16(p, 2))
    __CPROVER_ensures(*coder_type == COMP_CODE_NBIT ==>
                      ((uint32)c_info->nbit.nt == HB32(p, 4) && (uint32)c_info->nbit.sign_ext == HB16(p, 8) &&
                       (uint32)c_info->nbit.fill_one == HB16(p, 10) && (uint32)c_info->nbit.start_bit == HB32(p, 12) &&
                       (uint32)c_info->nbit.bit_len == HB32(p, 16)))
    __CPROVER_ensures(*coder_type == COMP_CODE_SKPHUFF ==> (uint32)c_info->skphuff.skp_size == HB32(p, 4))
    __CPROVER_ensures(*coder_type == COMP_CODE_DEFLATE ==> (uint32)c_info->deflate.level == HB16(p, 4))
    __CPROVER_ensures(*coder_type == COMP_CODE_SZIP ==>
                      ((uint32)c_info->szip.pixels == HB32(p, 4) && (uint32)c_info->szip.pixels_per_scanline == HB32(p, 8) &&
                       (uint32)c_info->szip.options_mask == HB32(p, 12) && c_info->szip.bits_per_pixel == (int32)p[16] &&
                       c_info->szip.pixels_per_block == (int32)p[17]));

#ifdef H4V_NATIVE
#include "h4v_native_wrap.h"
#endif

/* ------------------------------------------------------------------ harnesses */
static comp_info  s_ci, s_co;
static model_info s_mi, s_mo;

/* arbitrary parameters for an arbitrary coder (every field of the coder's struct is a named input) */
static int
mk_params(void)
{
    H4V_HAVOC(int, g_k);
    H4V_ASSUME(0 <= g_k && g_k < HDR_MAX);
    H4V_ND(int, coder);
    H4V_ASSUME(coder >= 0 && coder <= 65535);
    H4V_ND(int32, f0);
    H4V_ND(int32, f1);
    H4V_ND(int32, f2);
    H4V_ND(int32, f3);
    H4V_ND(int32, f4);
    switch (coder) {
        case COMP_CODE_NBIT:
            s_ci.nbit.nt        = f0;
            s_ci.nbit.sign_ext  = f1;
            s_ci.nbit.fill_one  = f2;
            s_ci.nbit.start_bit = f3;
            s_ci.nbit.bit_len   = f4;
            break;
        case COMP_CODE_SKPHUFF:
            s_ci.skphuff.skp_size = f0;
            break;
        case COMP_CODE_DEFLATE:
            s_ci.deflate.level = f0;
            break;
        case COMP_CODE_SZIP:
            s_ci.szip.options_mask        = f0;
            s_ci.szip.pixels_per_block    = f1;
            s_ci.szip.pixels_per_scanline = f2;
            s_ci.szip.bits_per_pixel      = f3;
            s_ci.szip.pixels              = f4;
            break;
        default:
            break;
    }
    return coder;
}

void
h_HCPquery_encode_header(void)
{
    int   coder = mk_params();
    H4V_ND(int, model);
    int32 n = HCPquery_encode_header((comp_model_t)model, &s_mi, (comp_coder_t)coder, &s_ci);
    H4V_COVER(n == 20, "n-bit header length");
    H4V_COVER(n == FAIL, "IMCOMP rejected");
    H4V_CANARY("HCPquery_encode_header end");
}

void
h_HCPencode_header(void)
{
    int coder = mk_params();
    H4V_ND(int, model);
    H4V_ND_BUF(h4v_uchar, hdr, HDR_MAX, HDR_MAX);
    int r = HCPencode_header(hdr, (comp_model_t)model, &s_mi, (comp_coder_t)coder, &s_ci);
    H4V_COVER(r == SUCCEED && coder == COMP_CODE_NBIT, "encode n-bit");
    H4V_COVER(r == SUCCEED && coder == COMP_CODE_SZIP, "encode szip");
    H4V_COVER(r == FAIL && coder == COMP_CODE_DEFLATE, "encode rejects a deflate level");
    H4V_CANARY("HCPencode_header end");
}

void
h_HCPdecode_header(void)
{
    H4V_ND_BUF(h4v_uchar, hdr, HDR_MAX, HDR_MAX);
    comp_model_t m;
    comp_coder_t c;
    int          r = HCPdecode_header(hdr, &m, &s_mo, &c, &s_co);
    H4V_COVER(r == SUCCEED && c == COMP_CODE_NBIT, "decode n-bit");
    H4V_COVER(r == SUCCEED && c == COMP_CODE_SKPHUFF, "decode skphuff");
    H4V_CANARY("HCPdecode_header end");
}

/* decode(encode(model, coder, parameters)) == (model, coder, parameters), in a buffer of exactly
   HCPquery_encode_header() bytes (any access beyond it is a bounds violation).
   Parameter domains (what the header format can hold): model/coder 16 bit; n-bit flags 0..65535
   (callers pass TRUE/FALSE); skip size >= 1, deflate level 0..9 (encode rejects the rest); szip
   bits per pixel / pixels per block 0..255; the szip options mask comes back with SZ_H4_REV_2 set
   (the format's revision marker, added by encode). */
void
h_HCP_header_roundtrip(void)
{
    int coder = mk_params();
    H4V_ND(int, model);
    H4V_ASSUME(model >= 0 && model <= 65535);
    if (coder == COMP_CODE_NBIT)
        H4V_ASSUME(s_ci.nbit.sign_ext >= 0 && s_ci.nbit.sign_ext <= 65535 && s_ci.nbit.fill_one >= 0 &&
                   s_ci.nbit.fill_one <= 65535);
    if (coder == COMP_CODE_SZIP)
        H4V_ASSUME(s_ci.szip.bits_per_pixel >= 0 && s_ci.szip.bits_per_pixel <= 255 && s_ci.szip.pixels_per_block >= 0 &&
                   s_ci.szip.pixels_per_block <= 255);
    int32 n = HCPquery_encode_header((comp_model_t)model, &s_mi, (comp_coder_t)coder, &s_ci);
    H4V_CHECK(n == FAIL || (n >= 4 && n <= HDR_MAX), "header length 4..20");
    if (n != FAIL) {
        H4V_ND_BUF(h4v_uchar, hdr, n, HDR_MAX);
        int r = HCPencode_header(hdr, (comp_model_t)model, &s_mi, (comp_coder_t)coder, &s_ci);
        H4V_CHECK((r == FAIL) == (ENC_REJECTS(coder, &s_ci) ? 1 : 0), "encode rejects exactly the invalid parameters");
        if (r == SUCCEED) {
            comp_model_t m;
            comp_coder_t c;
            int          r2 = HCPdecode_header(hdr, &m, &s_mo, &c, &s_co);
            H4V_CHECK(r2 == SUCCEED, "decode succeeds on an encoded header");
            H4V_CHECK((int)m == model && (int)c == coder, "model and coder type round-trip");
            if (coder == COMP_CODE_NBIT) {
                H4V_CHECK(s_co.nbit.nt == s_ci.nbit.nt, "n-bit: number type");
                H4V_CHECK(s_co.nbit.sign_ext == s_ci.nbit.sign_ext, "n-bit: sign_ext");
                H4V_CHECK(s_co.nbit.fill_one == s_ci.nbit.fill_one, "n-bit: fill_one");
                H4V_CHECK(s_co.nbit.start_bit == s_ci.nbit.start_bit, "n-bit: start_bit");
                H4V_CHECK(s_co.nbit.bit_len == s_ci.nbit.bit_len, "n-bit: bit_len");
            }
            if (coder == COMP_CODE_SKPHUFF)
                H4V_CHECK(s_co.skphuff.skp_size == s_ci.skphuff.skp_size, "skphuff: skp_size");
            if (coder == COMP_CODE_DEFLATE)
                H4V_CHECK(s_co.deflate.level == s_ci.deflate.level, "deflate: level");
            if (coder == COMP_CODE_SZIP) {
                H4V_CHECK(s_co.szip.pixels == s_ci.szip.pixels, "szip: pixels");
                H4V_CHECK(s_co.szip.pixels_per_scanline == s_ci.szip.pixels_per_scanline, "szip: pixels_per_scanline");
                H4V_CHECK(s_co.szip.options_mask == (s_ci.szip.options_mask | SZ_H4_REV_2), "szip: options_mask (+ revision bit)");
                H4V_CHECK(s_co.szip.bits_per_pixel == s_ci.szip.bits_per_pixel, "szip: bits_per_pixel");
                H4V_CHECK(s_co.szip.pixels_per_block == s_ci.szip.pixels_per_block, "szip: pixels_per_block");
            }
            H4V_COVER(coder == COMP_CODE_NBIT, "round trip n-bit");
            H4V_COVER(coder == COMP_CODE_SKPHUFF, "round trip skphuff");
            H4V_COVER(coder == COMP_CODE_DEFLATE, "round trip deflate");
            H4V_COVER(coder == COMP_CODE_SZIP, "round trip szip");
            H4V_COVER(coder == COMP_CODE_RLE, "round trip rle");
        }
    }
    H4V_CANARY("HCP header round trip end");
}

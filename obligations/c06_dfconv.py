"""C06: number-type conversion (dfkswap.c, dfknat.c, dfconv.c)"""
from .core import ob, prop

SW = dict(unit="dfconv_swap_u.c", file="hdf/src/dfkswap.c", cex_unwind=60)
NA = dict(unit="dfconv_nat_u.c", file="hdf/src/dfknat.c", cex_unwind=60)
N = 8

for W in (2, 4, 8):
    ob(f"sb{W}b_zero", "C06", entry=f"h_sb{W}b_zero", enforce=f"DFKsb{W}b", unwind=1, **SW)
    ob(f"sb{W}b_one", "C06", entry=f"h_sb{W}b_one", enforce=f"DFKsb{W}b", mode="proved-finite", unwind=2, **SW)
    ob(f"sb{W}b_invol", "C06", entry=f"h_invol{W}", mode="proved-finite", unwind=2, **SW)
    for ip in (0, 1):
        ob(f"sb{W}b_contig_{'in' if ip else 'out'}", "C06", entry=f"h_sb{W}b", enforce=f"DFKsb{W}b", mode="bounded",
           bound=f"num_elm <= {N}", unwind=N + 1, defines=["SS=0", "DS=0", f"NMAX={N}", f"INPLACE={ip}"], **SW)

def pairs(W):
    """constant stride pairs of the design (plus two equal pairs with gaps for the in-place strided path)"""
    ps = [(W, W), (W, 2 * W), (2 * W, W), (W, 3 * W), (3 * W, W), (W, W + 1), (W + 1, W), (2 * W, 2 * W), (W + 1, W + 1)]
    out = []
    for p in ps:
        if p not in out:
            out.append(p)
    return out


for W in (2, 4, 8):
    for (ss, ds) in pairs(W):
        for ip in ((0, 1) if ss == ds else (0,)):
            ob(f"sb{W}b_str_{ss}_{ds}_{'in' if ip else 'out'}", "C06", entry=f"h_sb{W}b", enforce=f"DFKsb{W}b", mode="bounded",
               bound=f"num_elm <= {N}, strides ({ss},{ds})", unwind=N + 1,
               defines=[f"SS={ss}", f"DS={ds}", f"NMAX={N}", f"INPLACE={ip}"], **SW)
    for ip in (0, 1):
        ob(f"sb{W}b_symstr_{'in' if ip else 'out'}", "C06", entry=f"h_sb{W}b", enforce=f"DFKsb{W}b", mode="bounded",
           bound=f"num_elm <= 4, all strides {W}..65535" + (" (equal)" if ip else ""), unwind=5,
           defines=["NMAX=4", f"INPLACE={ip}", "TIGHT"], tier="thorough", **SW)

SE = dict(unit="dfconv_set_u.c", file="hdf/src/dfconv.c")
ob("DFKsetNT", "C06", entry="h_setnt", enforce="DFKsetNT", **SE)
ob("DFKNTsize", "C06", entry="h_ntsize", enforce="DFKNTsize", **SE)
ob("DFKislitendNT", "C06", entry="h_islitend", enforce="DFKislitendNT", **SE)
ob("DFKisnativeNT", "C06", entry="h_isnative", enforce="DFKisnativeNT", **SE)
ob("DFKconvert", "C06", entry="h_convert", enforce="DFKconvert", **SE)
ob("nt_flavours", "C06", entry="h_flavours", **SE)

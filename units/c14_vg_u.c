/* Verification unit: hdf/src/vg.c -- C14 (read-only access): VSsetname, VSsetclass, VSsetinterlace
 * on a vdata attached "r" (file opened read-only).  Environment: stubs/c14_vsenv.h. */
#include "h4v.h"
#include "h4v_err.h"
#define C14_HAVE_HAatom_object
#define C14_HAVE_HAatom_group
#define C14_HAVE_HAregister_atom
#define C14_HAVE_HAremove_atom
#include "c14_common.h"
#include "c14_vsenv.h"
H4V_DECL_ND(char);
#ifdef H4V_CBMC
/* libc strnlen (no model in cbmc's library) */
size_t
strnlen(const char *s, size_t maxlen)
{
    size_t n = 0;
    while (n < maxlen && s[n] != '\0')
        n++;
    return n;
}
#endif
#include "vg.c"

/* ghost character index into the name / class buffers */
int g_c;

/* changing name, class or interlace changes the stored vdata header: on a vdata attached "r" the call must be refused
   and leave the in-memory copy of the header as it was (else later inquiries report values the file never gets) */
int32 VSsetname(int32 vkey, const char *vsname)
    __CPROVER_requires(C14_VS_ENV && C14_VS_ATTACHED_R && vkey == C14_VSKEY && g_c >= 0 && g_c <= VSNAMELENMAX)
    __CPROVER_assigns(C14_VS_FRAME)
    __CPROVER_ensures(__CPROVER_return_value == FAIL)
    __CPROVER_ensures(g_vs->marked == __CPROVER_old(g_vs->marked) && g_vs->new_h_sz == __CPROVER_old(g_vs->new_h_sz))
    __CPROVER_ensures(g_vs->vsname[g_c] == __CPROVER_old(g_vs->vsname[g_c]));

int32 VSsetclass(int32 vkey, const char *vsclass)
    __CPROVER_requires(C14_VS_ENV && C14_VS_ATTACHED_R && vkey == C14_VSKEY && g_c >= 0 && g_c <= VSNAMELENMAX)
    __CPROVER_assigns(C14_VS_FRAME)
    __CPROVER_ensures(__CPROVER_return_value == FAIL)
    __CPROVER_ensures(g_vs->marked == __CPROVER_old(g_vs->marked) && g_vs->new_h_sz == __CPROVER_old(g_vs->new_h_sz))
    __CPROVER_ensures(g_vs->vsclass[g_c] == __CPROVER_old(g_vs->vsclass[g_c]));

int VSsetinterlace(int32 vkey, int32 interlace)
    __CPROVER_requires(C14_VS_ENV && C14_VS_ATTACHED_R && vkey == C14_VSKEY)
    __CPROVER_assigns(C14_VS_FRAME)
    __CPROVER_ensures(__CPROVER_return_value == FAIL)
    __CPROVER_ensures(g_vs->interlace == __CPROVER_old(g_vs->interlace) && g_vs->marked == __CPROVER_old(g_vs->marked));

#ifdef H4V_NATIVE
#include "h4v_native_wrap.h"
#endif

static void
mk_vg(void)
{
    c14_mk_vsenv();
    H4V_HAVOC(int, g_c);
    /* current name / class: short strings */
    H4V_ND(char, n0);
    H4V_ND(char, c0);
    g_vs->vsname[0]  = n0;
    g_vs->vsname[1]  = '\0';
    g_vs->vsclass[0] = c0;
    g_vs->vsclass[1] = '\0';
}

void
h_c14_VSsetname(void)
{
    mk_vg();
    char name[3] = {'a', 'b', '\0'};
    int32 r = VSsetname(C14_VSKEY, name);
    H4V_CANARY("VSsetname end");
}

void
h_c14_VSsetclass(void)
{
    mk_vg();
    char name[3] = {'a', 'b', '\0'};
    int32 r = VSsetclass(C14_VSKEY, name);
    H4V_CANARY("VSsetclass end");
}

void
h_c14_VSsetinterlace(void)
{
    mk_vg();
    H4V_ND(int32, interlace);
    int r = VSsetinterlace(C14_VSKEY, interlace);
    H4V_COVER(r == FAIL, "VSsetinterlace refused");
    H4V_CANARY("VSsetinterlace end");
}

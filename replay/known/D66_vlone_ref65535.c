/* Build: gcc D66_vlone_ref65535.c -I/repo/hdf/src -I/repo/_build -L/repo/_build/bin -lhdf -lz -ljpeg -lm; run under valgrind or ASan with LD_LIBRARY_PATH=/repo/_build/bin: invalid write in Vlone (vg.c:839) and VSlone (vg.c:771) on the tree as found */
/* D66: Vlone/VSlone index a 65535-byte work area with reference numbers up to 65535 */
#include "hdf.h"
#include <stdio.h>
int main(void)
{
    int32 f = Hopen("d66.hdf", DFACC_CREATE, 0), vg, refs[4], n;
    Vstart(f);
    vg = Vattach(f, -1, "w");
    Vsetname(vg, "g");
    Vaddtagref(vg, DFTAG_VG, 65535); /* a member with the highest legal reference number */
    Vaddtagref(vg, DFTAG_VH, 65535);
    Vdetach(vg);
    n = Vlone(f, refs, 4);   /* writes lonevg[65535]: one byte past the allocation */
    printf("Vlone -> %d\n", (int)n);
    n = VSlone(f, refs, 4);  /* idem lonevdata[65535] */
    printf("VSlone -> %d\n", (int)n);
    Vend(f); Hclose(f);
    return 0;
}

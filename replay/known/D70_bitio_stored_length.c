/* Build: gcc D70_bitio_stored_length.c -I/repo/hdf/src -I/repo/_build -L/repo/_build/bin -lhdf -lz -ljpeg -lm; run with LD_LIBRARY_PATH=/repo/_build/bin. Exit status != 0 = defect present (confirmed on a build of the tree before the repair). */
/* D70: bit I/O: the stored length after writing 5000 bytes and switching to reading is 8192 */
#include "hdf.h"
#include <stdio.h>
int main(void)
{
    int32 f = Hopen("d70.hdf", DFACC_CREATE, 0), bit, i, len; uint32 v;
    bit = Hstartbitwrite(f, 1000, 1, 0); Hbitappendable(bit);
    for (i = 0; i < 5000; i++) Hbitwrite(bit, 8, (uint32)(i & 0xff));
    Hbitseek(bit, 0, 0);
    Hbitread(bit, 8, &v);                  /* write -> read switch flushes the last block */
    Hendbitaccess(bit, 0);
    len = Hlength(f, 1000, 1);
    printf("element length: %d (expected 5000)\n", (int)len);
    Hclose(f);
    return len != 5000;
}

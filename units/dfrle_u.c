/* Verification unit: hdf/src/dfrle.c (C09: "results are unchanged ... under lossless compression" -- the old-style RLE of 8-bit
   rasters, DFTAG_RLE, which hcompri.c serves to GR through DFputcomp / DFgetcomp).
   BOUNDED round trip DFCIrle -> DFCIunrle on ONE ROW shaped "a run of R equal bytes followed by up to T other bytes" (R a constant
   per obligation: -DRL_RUN=R; with a symbolic R cbmc did not finish; the byte VALUES stay symbolic): the shape that
   exercises the run-length limit (a count byte is 128 | n with n <= 127; a run of 128 would be stored as 128 | 128 == 0x80, which
   decodes as a run of length 0).  Both functions are the real ones, every loop unwound. */
#include "h4v.h"
#include "h4v_err.h"
#include "hdf_priv.h"
#include "dfrle.c"

#ifndef RL_RUN
#define RL_RUN 135
#endif
#define RL_MAXRUN RL_RUN
#define RL_TAIL 2
#define RL_MAXLEN (RL_MAXRUN + RL_TAIL)
typedef unsigned char h4v_u8;
H4V_DECL_ND(int);
H4V_DECL_ND(h4v_u8);

static void
rl_one(int run, int tail, h4v_u8 a, h4v_u8 t0, h4v_u8 t1, int k)
{
    static uint8 in[RL_MAXLEN], out[2 * RL_MAXLEN + 8], back[RL_MAXLEN];
    int32        len = run + tail; /* a constant at every call: only the byte values and the checked position k are symbolic */
    if (len < 1)
        return;
    for (int i = 0; i < RL_MAXLEN; i++)
        in[i] = i < run ? a : (i == run ? t0 : t1);
    int32 n = DFCIrle(in, out, len);
    H4V_CHECK(n >= 1 && n <= 2 * RL_MAXLEN + 8, "DFCIrle: the encoded row fits the worst-case buffer");
    for (int i = 0; i < RL_MAXLEN; i++)
        back[i] = 0;
    int32 used = DFCIunrle(out, back, len, 1);
    H4V_CHECK(used == n, "DFCIunrle consumes exactly the bytes DFCIrle produced for the row");
    H4V_CHECK(k >= len || back[k] == in[k], "C09 old-style RLE: the decoded row is the encoded row");
}

void
h_dfrle_roundtrip(void)
{
    H4V_ND(h4v_u8, a);
    H4V_ND(h4v_u8, t0);
    H4V_ND(h4v_u8, t1);
    H4V_ND(int, k);
    H4V_ASSUME(t0 != a); /* the run ends where it is said to end */
    H4V_ASSUME(k >= 0 && k < RL_MAXLEN);
    rl_one(RL_RUN, 0, a, t0, t1, k);
    rl_one(RL_RUN, 1, a, t0, t1, k);
    rl_one(RL_RUN, 2, a, t0, t1, k);
    H4V_COVER(t1 == t0, "dfrle: the two bytes after the run are equal");
    H4V_COVER(t1 == a, "dfrle: the run value returns after one other byte");
    H4V_CANARY("dfrle_roundtrip end");
}

/* Verification unit: mfhdf/src/var.c (C03: NC_var_shape compiles shape, dsizes and len).
   Bounded stand-in: rank <= 3, at most 4 dimensions in the file, dimension sizes <= 8. */
#include "h4v.h"
#include "h4v_err.h"
#include "nc_priv.h"
#include "putget_pred.h"

int g_d;       /* ghost dimension index */
int g_baddim;  /* harness-computed: some dimension id is out of range or an unlimited dimension
                  is used at an index other than 0 */

H4V_DECL_ND(int);
H4V_DECL_ND(int32);
H4V_DECL_ND(unsigned);

void NCadvise(int err, const char *fmt, ...) {}
void nc_serror(const char *fmt, ...) {}

/* Assumption A-GUARD (see putget_u.c): NC_var_shape walks its freshly allocated shape/dsizes
   vectors downwards with `for (...; shp >= shape; shp--, dsp--)` and so forms the address one
   element before a heap block (undefined in ISO C; every real allocator keeps its own header
   there).  Under cbmc the allocator is modelled with an 8-byte header in front of every block. */
#ifdef H4V_CBMC
static void *
h4v_malloc(size_t n)
{
    char *b = malloc(n + 8);
    return b == NULL ? NULL : b + 8;
}
static void
h4v_free(void *p)
{
    if (p != NULL)
        free((char *)p - 8);
}
#ifndef C03_STRICT_PTR
#define malloc(n) h4v_malloc(n)
#define free(p) h4v_free(p)
#endif
#endif
void *g_old_shape_blk, *g_old_dsizes_blk; /* allocator blocks of the vectors on entry */

#include "var.c"

#define VS_ND 4
#define VS_DIMSIZE(dims, var, i) (((NC_dim **)(dims)->values)[(var)->assoc->values[i]]->size)

int H4_NC_var_shape(NC_var *var, NC_array *dims)
    __CPROVER_requires(var != NULL && dims != NULL && var->assoc != NULL && var->cdf != NULL)
    __CPROVER_requires(var->cdf->file_type == HDF_FILE)
    __CPROVER_requires(var->assoc->count <= 3 && dims->count >= 1 && dims->count <= VS_ND)
    __CPROVER_requires(var->HDFsize == 1 || var->HDFsize == 2 || var->HDFsize == 4 || var->HDFsize == 8)
    __CPROVER_requires(0 <= g_d && g_d < 3)
    __CPROVER_assigns(var->shape, var->dsizes, var->len)
    __CPROVER_frees(g_old_shape_blk, g_old_dsizes_blk)
    __CPROVER_ensures(__CPROVER_return_value == -1 || __CPROVER_return_value == (int)var->assoc->count)
    /* -1 exactly for a bad dimension id or a misplaced unlimited dimension; then nothing changed */
    __CPROVER_ensures((__CPROVER_return_value == -1) == (g_baddim != 0))
    __CPROVER_ensures(__CPROVER_return_value == -1 ==>
                      (var->shape == __CPROVER_old(var->shape) && var->dsizes == __CPROVER_old(var->dsizes) &&
                       var->len == __CPROVER_old(var->len)))
    /* scalar: one element */
    __CPROVER_ensures((__CPROVER_return_value == 0) ==> var->len == (unsigned long)var->HDFsize)
    /* shape[i] is the size of the i-th associated dimension */
    __CPROVER_ensures((__CPROVER_return_value >= 1 && g_d < (int)var->assoc->count) ==>
                      var->shape[g_d] == (unsigned long)VS_DIMSIZE(dims, var, g_d))
    /* dsizes are the row-major byte strides and len the byte size (of one record for a record
       variable): the predicate NC_varoffset's contract assumes (putget_u.c) */
    __CPROVER_ensures(__CPROVER_return_value >= 1 ==> C03_DSIZES_RM3(var, var->HDFsize));

#ifdef H4V_NATIVE
#include "h4v_native_wrap.h"
#endif

void
h_NC_var_shape(void)
{
    H4V_HAVOC(int, g_d);
    static NC        s_nc;
    static NC_var    s_var;
    static NC_iarray s_as;
    static NC_array  s_dims;
    static NC_dim    s_dim[VS_ND];
    static NC_dim   *s_dimtab[VS_ND];
    NC_var          *var = &s_var;
    H4V_ND(int, rank);
    H4V_ND(int, ndims);
    H4V_ASSUME(rank >= 0 && rank <= 3 && ndims >= 1 && ndims <= VS_ND);
#ifdef VS_MAXRANK
    H4V_ASSUME(rank <= VS_MAXRANK);
#endif
    H4V_ND_BUF(int, ids, rank, 3);
    s_as.count  = (unsigned)rank;
    s_as.values = ids;
    for (int i = 0; i < VS_ND; i++) {
        H4V_ND(int32, dim_size);
        H4V_ASSUME(dim_size >= 0 && dim_size <= 8);
        s_dim[i].size = dim_size;
        s_dim[i].name = NULL;
        s_dimtab[i]   = &s_dim[i];
    }
    s_dims.count  = (unsigned)ndims;
    s_dims.values = (uint8_t *)s_dimtab;
    s_dims.type   = NC_DIMENSION;
    s_nc.file_type = HDF_FILE;
    H4V_ND(int32, v_HDFsize);
    H4V_ND(int, v_type);
    H4V_ND(int, have_old);
    var->assoc   = &s_as;
    var->cdf     = &s_nc;
    var->HDFsize = v_HDFsize;
#ifdef C03_W /* one obligation per element size: keeps one factor of every product constant */
    H4V_ASSUME(v_HDFsize == C03_W);
#endif
    var->type    = v_type;
    var->len     = 0;
    var->shape   = NULL;
    var->dsizes  = NULL;
    g_old_shape_blk = g_old_dsizes_blk = NULL;
#ifdef VS_NO_OLD /* freshly created variable only (shape == dsizes == NULL on entry) */
    H4V_ASSUME(!have_old);
#endif
    if (have_old) { /* re-compilation of an already shaped variable (SDsetdimname etc.) */
        var->shape  = malloc(3 * sizeof(unsigned long));
        var->dsizes = malloc(3 * sizeof(unsigned long));
        H4V_ASSUME(var->shape != NULL && var->dsizes != NULL);
#if defined(H4V_CBMC) && !defined(C03_STRICT_PTR)
        g_old_shape_blk  = (char *)var->shape - 8;
        g_old_dsizes_blk = (char *)var->dsizes - 8;
#else
        g_old_shape_blk  = var->shape;
        g_old_dsizes_blk = var->dsizes;
#endif
    }
    int bad = 0;
    for (int i = 0; i < rank; i++) {
        if (ids[i] < 0 || ids[i] >= ndims)
            bad = 1;
        else if (s_dim[ids[i]].size == 0 && i != 0 && !bad)
            bad = 1;
    }
    g_baddim = bad;
    int r    = NC_var_shape(var, &s_dims);
    H4V_COVER(r == 3 && var->shape[0] == 0, "var_shape rank 3 record variable");
    H4V_COVER(r == 2 && var->shape[0] != 0, "var_shape rank 2 fixed");
    H4V_COVER(r == 0, "var_shape scalar");
    H4V_COVER(r == -1, "var_shape failure");
    H4V_CANARY("NC_var_shape end");
}

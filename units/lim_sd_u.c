/* Verification unit: mfhdf/src/mfsd.c -- C20 at the SD layer: SDcreate with a rank beyond H4_MAX_VAR_DIMS (or negative),
 * a name beyond H4_MAX_NC_NAME, a variable table already holding H4_MAX_NC_VARS variables.
 *
 * The netCDF-layer constructors (dim.c NC_new_dim, var.c NC_new_var / NC_var_shape, array.c NC_new_array / NC_incr_array)
 * are logging stubs that do what SDcreate needs and may fail; NC_new_var follows string.c:50 (NC_new_string refuses a name
 * longer than H4_MAX_NC_NAME) and CHECKs what it is handed (0 <= ndims <= H4_MAX_VAR_DIMS, ndims readable ints).
 */
#include "h4v.h"
#include "h4v_err.h"
#include <string.h>
#include <stdio.h>
#include "nc_priv.h"
H4V_DECL_ND(int);
H4V_DECL_ND(int32);
H4V_DECL_ND(unsigned);

/* ---------------- ghost environment ---------------- */
NC         *g_handle;  /* the open SD file */
int         g_cdfid;   /* its slot */
NC_array    g_dims;    /* its dimension table (when it has one) */
NC_array    g_vars;    /* its variable table (when it has one) */
unsigned    g_old_ndims, g_old_nvars, g_old_flags;
const char *g_name;    /* the caller's name */
int         g_name_len; /* its length */
int32      *g_dimsizes; /* the caller's dimension sizes */
int32       g_nt;
int         g_unmap_ret; /* hdf_unmap_type(nt) */
int         g_ntsize;    /* DFKNTsize(nt) */
int         g_shape_ret; /* NC_var_shape */
/* log */
int       g_newdim_calls, g_newvar_calls, g_newarr_calls, g_incr_calls, g_shape_calls, g_newref_calls;
NC_var   *g_newvar;       /* the variable NC_new_var built */
int       g_newvar_ndims; /* the rank it was asked for */
int       g_newvar_fudged; /* it was given the default name */
NC_array *g_newarr_dims, *g_newarr_vars; /* tables NC_new_array built */
int32     g_erank;       /* the rank asked for, without the ragged marker (harness) */
int       g_stub_failed; /* a constructor stub or malloc refused */
NC_var    g_newvar_obj;
NC_array  g_newdims_obj, g_newvars_obj;

NC *
NC_check_id(int cdfid)
{
    return cdfid == g_cdfid ? g_handle : NULL;
}
nc_type
hdf_unmap_type(int type)
{
    H4V_CHECK(type == (int)g_nt, "the caller's number type is mapped");
    return (nc_type)g_unmap_ret;
}
int
DFKNTsize(int32 number_type)
{
    H4V_CHECK(number_type == g_nt, "the caller's number type is sized");
    return g_ntsize;
}
uint16
Hnewref(int32 file_id)
{
    g_newref_calls++;
    return 7;
}
NC_dim *
NC_new_dim(const char *name, long size)
{
    H4V_CHECK(g_newdim_calls >= 0 && g_newdim_calls < H4_MAX_VAR_DIMS, "at most H4_MAX_VAR_DIMS dimensions are made");
    H4V_CHECK(g_erank >= 1 && g_erank <= H4_MAX_VAR_DIMS, "no dimension is made for a request beyond the limit");
    H4V_CHECK(size == (long)g_dimsizes[g_newdim_calls], "dimension i gets the caller's size i");
    H4V_CHECK(name != NULL && name[0] == 'f' && name[7] != 0, "fake dimension name");
    g_newdim_calls++;
    H4V_ND(int, newdim_fail);
    if (newdim_fail) {
        g_stub_failed = 1;
        return NULL;
    }
    static NC_dim a_dim; /* SDcreate only hands it on to the table */
    return &a_dim;
}
NC_var *
NC_new_var(const char *name, nc_type type, int ndims, const int *dims)
{
    g_newvar_calls++;
    H4V_CHECK(ndims >= 0 && ndims <= H4_MAX_VAR_DIMS, "a variable of 0..H4_MAX_VAR_DIMS dimensions is asked for");
    g_newvar_ndims = ndims;
    H4V_CHECK(type == (nc_type)g_unmap_ret, "mapped type");
    unsigned len;
    if (name == g_name && g_name != NULL)
        len = (unsigned)g_name_len;
    else {
        H4V_CHECK(name != NULL && name[0] == 'D' && name[7] == 0, "default name");
        g_newvar_fudged = 1;
        len             = 7;
    }
#ifdef H4V_CBMC
    H4V_CHECK(ndims <= 0 || __CPROVER_r_ok(dims, (size_t)ndims * sizeof(int)), "ndims dimension indices are readable");
#endif
    if (ndims <= H4_MAX_VAR_DIMS)
        for (int i = 0; i < ndims; i++)
            H4V_CHECK(dims[i] == (int)g_old_ndims + i, "dimension i of the variable is the i-th new dimension");
    if (len > H4_MAX_NC_NAME) /* string.c:50 NC_new_string */
        return NULL;
    H4V_ND(int, newvar_fail);
    if (newvar_fail) {
        g_stub_failed = 1;
        return NULL;
    }
    memset(&g_newvar_obj, 0, sizeof(NC_var));
    g_newvar = &g_newvar_obj;
    return g_newvar;
}
NC_array *
NC_new_array(nc_type type, unsigned count, const void *values)
{
    g_newarr_calls++;
    H4V_CHECK(count == 1 && (type == NC_DIMENSION || type == NC_VARIABLE), "a table with its first entry");
    H4V_ND(int, newarr_fail);
    if (newarr_fail) {
        g_stub_failed = 1;
        return NULL;
    }
    /* (static objects instead of calloc: what SDcreate does with them is the same, the proof is much cheaper) */
    NC_array *a = (type == NC_DIMENSION) ? &g_newdims_obj : &g_newvars_obj;
    memset(a, 0, sizeof(NC_array));
    {
        a->type  = type;
        a->count = count;
        if (type == NC_DIMENSION)
            g_newarr_dims = a;
        else
            g_newarr_vars = a;
    }
    return a;
}
uint8_t *
NC_incr_array(NC_array *array, uint8_t *tail)
{
    g_incr_calls++;
    H4V_CHECK(array != NULL && (array == g_handle->dims || array == g_handle->vars), "a table of this file grows");
    H4V_CHECK(array != g_handle->vars || array->count < H4_MAX_NC_VARS, "the variable table never grows beyond H4_MAX_NC_VARS");
    H4V_ND(int, incr_fail);
    if (incr_fail) {
        g_stub_failed = 1;
        return NULL;
    }
    array->count++;
    return (uint8_t *)array;
}
int
NC_var_shape(NC_var *var, NC_array *dims)
{
    g_shape_calls++;
    H4V_CHECK(var == g_newvar && dims == g_handle->dims && var->cdf == g_handle, "shape of the new variable");
    return g_shape_ret;
}
/* "fakeDim%d" into char dimname[H4_MAX_NC_NAME]: at most 7 + 11 characters and the terminator */
static int
h4v_sprintf_fakedim(char *dst, const char *fmt, int num)
{
    H4V_ND(int, fake_digits);
    H4V_ASSUME(fake_digits >= 1 && fake_digits <= 11);
    dst[18] = 0; /* the widest possible result ends here */
    dst[0] = 'f';
    dst[7] = '0';
    dst[7 + fake_digits] = 0;
    return 7 + fake_digits;
}
static void *
h4v_malloc(size_t n)
{
    void *p = malloc(n);
    if (p == NULL)
        g_stub_failed = 1;
    return p;
}
#define sprintf(d, f, n) h4v_sprintf_fakedim(d, f, n)
#define malloc(n) h4v_malloc(n)
#include "mfsd.c"
#undef sprintf
#undef malloc

/* ---------------- the contract ---------------- */
#define SD_FID_OK(fid)  ((fid) != -1 && (((fid) >> 16) & 0x0f) == CDFTYPE && (((fid) >> 20) & 0xfff) == g_cdfid)
#define SD_RAGGEDP(rank, ds) ((rank) > 1 && (ds)[(rank)-1] == SD_RAGGED)
#define SD_ERANK(rank, ds)   (SD_RAGGEDP(rank, ds) ? (rank)-1 : (rank))
#define SD_NVARS (g_handle->vars != NULL ? g_handle->vars->count : 0u)
#define SD_NDIMS (g_handle->dims != NULL ? g_handle->dims->count : 0u)
#define SD_NAMELEN ((g_name == NULL || g_name[0] == ' ' || g_name[0] == 0) ? 7 : g_name_len)
#define SD_ENV                                                                                                         \
    (g_handle != NULL && g_cdfid >= 0 && g_cdfid <= 0xfff && (g_handle->dims == NULL || g_handle->dims == &g_dims) &&   \
     (g_handle->vars == NULL || g_handle->vars == &g_vars) && SD_NDIMS == g_old_ndims && SD_NVARS == g_old_nvars &&     \
     g_old_nvars <= H4_MAX_NC_VARS && g_old_ndims <= 1000000 && g_handle->flags == g_old_flags &&                       \
     (g_name == NULL || (g_name_len >= 0 && g_name[g_name_len] == 0)) && g_newdim_calls == 0 && g_newvar_calls == 0 &&  \
     g_newarr_calls == 0 && g_incr_calls == 0 && g_shape_calls == 0 && g_newref_calls == 0 && g_newvar == NULL &&       \
     g_newvar_fudged == 0 && g_stub_failed == 0 && (g_ntsize == FAIL || (g_ntsize >= 1 && g_ntsize <= 8)) && (g_shape_ret == 0 || g_shape_ret == -1))
/* optional strict clauses (obligations of their own) */
#ifdef SD_STRICT_NOVAR
#define SD_NOVAR_ON_FAIL 1
#else
#define SD_NOVAR_ON_FAIL (g_shape_calls == 0)
#endif
#ifdef SD_STRICT_MAXDIMS
#define SD_MAXDIMS_CLAUSE (g_old_ndims > H4_MAX_NC_DIMS || SD_NDIMS <= H4_MAX_NC_DIMS)
#else
#define SD_MAXDIMS_CLAUSE 1
#endif
#ifdef SD_STRICT_NODIMS
#define SD_NODIMS_ON_FAIL(r) ((r) != FAIL || SD_NDIMS == g_old_ndims)
#else
#define SD_NODIMS_ON_FAIL(r) 1
#endif

int32 SDcreate(int32 fid, const char *name, int32 nt, int32 rank, int32 *dimsizes)
    __CPROVER_requires(SD_ENV && name == g_name && dimsizes == g_dimsizes && nt == g_nt)
    __CPROVER_assigns(__CPROVER_object_whole(g_handle), g_dims, g_vars, g_newdim_calls, g_newvar_calls, g_newarr_calls,
                      g_incr_calls, g_shape_calls, g_newref_calls, g_newvar, g_newvar_ndims, g_newvar_fudged, g_stub_failed,
                      g_newarr_dims, g_newarr_vars, g_newvar_obj, g_newdims_obj, g_newvars_obj)
    /* not an SD file id of an open file, or a file opened for reading only: refused before anything is built */
    __CPROVER_ensures((!SD_FID_OK(fid) || !(g_old_flags & NC_RDWR)) ==>
                      (__CPROVER_return_value == FAIL && g_newdim_calls == 0 && g_newvar_calls == 0 && g_newarr_calls == 0))
    /* C20: more than H4_MAX_VAR_DIMS dimensions (the ragged marker does not count), or a negative rank: FAIL, no
       dimension and no variable is made */
    __CPROVER_ensures((rank < 0 || SD_ERANK(rank, dimsizes) > H4_MAX_VAR_DIMS) ==>
                      (__CPROVER_return_value == FAIL && g_newdim_calls == 0 && g_newvar_calls == 0 && g_newarr_calls == 0 &&
                       SD_NDIMS == g_old_ndims))
    /* C20: a name longer than H4_MAX_NC_NAME is refused */
    __CPROVER_ensures(SD_NAMELEN > H4_MAX_NC_NAME ==> __CPROVER_return_value == FAIL)
    /* C20: the file already holds H4_MAX_NC_VARS variables: refused */
    __CPROVER_ensures(g_old_nvars >= H4_MAX_NC_VARS ==> __CPROVER_return_value == FAIL)
    __CPROVER_ensures(SD_NVARS <= H4_MAX_NC_VARS)
    /* unknown number type */
    __CPROVER_ensures((g_unmap_ret == FAIL || g_ntsize == FAIL) ==> __CPROVER_return_value == FAIL)
    /* FAIL: no variable was added, the file is not marked as changed */
    __CPROVER_ensures(__CPROVER_return_value == FAIL ==> g_handle->flags == g_old_flags)
    __CPROVER_ensures((__CPROVER_return_value == FAIL && SD_NOVAR_ON_FAIL) ==> SD_NVARS == g_old_nvars)
    __CPROVER_ensures(SD_NODIMS_ON_FAIL(__CPROVER_return_value))
    __CPROVER_ensures(SD_MAXDIMS_CLAUSE)
    /* a request inside every limit succeeds (unless memory runs out or the netCDF layer refuses) */
    __CPROVER_ensures((SD_FID_OK(fid) && (g_old_flags & NC_RDWR) && rank >= 0 && SD_ERANK(rank, dimsizes) <= H4_MAX_VAR_DIMS &&
                       SD_NAMELEN <= H4_MAX_NC_NAME && g_old_nvars < H4_MAX_NC_VARS && g_unmap_ret != FAIL && g_ntsize != FAIL &&
                       g_shape_ret != -1 && !g_stub_failed) ==> __CPROVER_return_value != FAIL)
    /* success: the id names the new, last variable; rank new dimensions; the variable is what was asked for */
    __CPROVER_ensures(__CPROVER_return_value != FAIL ==>
                      (SD_FID_OK(fid) && (g_old_flags & NC_RDWR) && rank >= 0 && SD_ERANK(rank, dimsizes) <= H4_MAX_VAR_DIMS &&
                       SD_NAMELEN <= H4_MAX_NC_NAME && g_old_nvars < H4_MAX_NC_VARS))
    __CPROVER_ensures(__CPROVER_return_value != FAIL ==>
                      (SD_NVARS == g_old_nvars + 1 && SD_NDIMS == g_old_ndims + (unsigned)SD_ERANK(rank, dimsizes) &&
                       g_newdim_calls == SD_ERANK(rank, dimsizes) && g_newvar_calls == 1 &&
                       g_newvar_ndims == SD_ERANK(rank, dimsizes) && g_shape_calls == 1 &&
                       (__CPROVER_return_value & 0xffff) == (int32)g_old_nvars &&
                       ((__CPROVER_return_value >> 16) & 0x0f) == SDSTYPE &&
                       ((__CPROVER_return_value >> 20) & 0xfff) == (fid & 0xfff) &&
                       g_handle->flags == (g_old_flags | NC_HDIRTY)))
    __CPROVER_ensures(__CPROVER_return_value != FAIL ==>
                      (g_newvar != NULL && g_newvar->created == TRUE && g_newvar->set_length == FALSE &&
                       g_newvar->var_type == IS_SDSVAR && g_newvar->HDFtype == nt && g_newvar->HDFsize == g_ntsize &&
                       g_newvar->cdf == g_handle && g_newvar->ndg_ref == 7 && g_newref_calls == 1 &&
                       g_newvar->is_ragged == SD_RAGGEDP(rank, dimsizes) &&
                       g_newvar_fudged == (g_name == NULL || g_name[0] == ' ' || g_name[0] == 0)));

#ifdef H4V_NATIVE
#include "h4v_native_wrap.h"
#endif

#ifndef SD_RANK_CAP
#define SD_RANK_CAP 0x00ffffff
#endif
#ifndef SD_NAME_CAP
#define SD_NAME_CAP 100000
#endif

void
h_SDcreate(void)
{
    g_handle = calloc(1, sizeof(NC));
    H4V_ASSUME(g_handle != NULL);
    H4V_HAVOC(int, g_cdfid);
    H4V_HAVOC(unsigned, g_old_flags);
    H4V_HAVOC(unsigned, g_old_ndims);
    H4V_HAVOC(unsigned, g_old_nvars);
    H4V_HAVOC(int32, g_nt);
    H4V_HAVOC(int, g_unmap_ret);
    H4V_HAVOC(int, g_ntsize);
    H4V_HAVOC(int, g_shape_ret);
    H4V_HAVOC(int, g_name_len);
    H4V_ND(int, dims_null);
    H4V_ND(int, vars_null);
    H4V_ND(int, name_null);
    H4V_ND(int32, fid);
#ifdef SD_RANK_FIX
    int32 rank = SD_RANK_FIX; /* one obligation per constant rank at the limit */
#else
    H4V_ND(int32, rank);
#endif
    H4V_ASSUME(g_cdfid >= 0 && g_cdfid <= 0xfff);
    H4V_ASSUME(g_old_nvars <= H4_MAX_NC_VARS && g_old_ndims <= 1000000);
    H4V_ASSUME(g_ntsize == FAIL || (g_ntsize >= 1 && g_ntsize <= 8));
    H4V_ASSUME(g_shape_ret == 0 || g_shape_ret == -1);
    g_handle->flags     = g_old_flags;
    g_handle->file_type = HDF_FILE;
    g_handle->hdf_file  = 3;
    if (dims_null)
        g_old_ndims = 0;
    else {
        g_dims.type   = NC_DIMENSION;
        g_dims.count  = g_old_ndims;
        g_dims.values = NULL;
        g_handle->dims = &g_dims;
    }
    if (vars_null)
        g_old_nvars = 0;
    else {
        g_vars.type   = NC_VARIABLE;
        g_vars.count  = g_old_nvars;
        g_vars.values = NULL;
        g_handle->vars = &g_vars;
    }
    /* the caller's name: any string of g_name_len characters, or none */
    H4V_ASSUME(g_name_len >= 0 && g_name_len <= SD_NAME_CAP);
    char *nm = malloc((size_t)g_name_len + 1);
    H4V_ASSUME(nm != NULL);
    H4V_ND(int, name_c0);
    if (g_name_len > 0) {
        H4V_ASSUME(name_c0 != 0 && name_c0 >= -128 && name_c0 <= 127);
        nm[0] = (char)name_c0;
    }
    nm[g_name_len] = 0;
    g_name         = name_null ? NULL : nm;
    /* the caller's dimension sizes: rank of them (at least one slot so that the pointer is valid) */
    H4V_ASSUME(rank <= SD_RANK_CAP);
#ifdef SD_RANK_ASSUME
    H4V_ASSUME(SD_RANK_ASSUME);
#endif
    size_t nds = rank > 0 ? (size_t)rank : 1;
    g_dimsizes = malloc(nds * sizeof(int32));
    H4V_ASSUME(g_dimsizes != NULL);
    H4V_ND(int32, last_dim);
#ifdef SD_LAST_ASSUME
    H4V_ASSUME(SD_LAST_ASSUME);
#endif
    if (rank > 0)
        g_dimsizes[rank - 1] = last_dim;
    g_newdim_calls = g_newvar_calls = g_newarr_calls = g_incr_calls = g_shape_calls = g_newref_calls = 0;
    g_newvar        = NULL;
    g_newvar_ndims  = -1;
    g_newvar_fudged = 0;
    g_stub_failed   = 0;
    g_newarr_dims = g_newarr_vars = NULL;

    g_erank = SD_ERANK(rank, g_dimsizes);
    int32 r = SDcreate(fid, g_name, g_nt, rank, g_dimsizes);
#if !defined(SD_RANK_ASSUME) || defined(SD_COV_33) || defined(SD_COV_33R)
    H4V_COVER(r == FAIL && rank == H4_MAX_VAR_DIMS + 1 && last_dim != SD_RAGGED && SD_FID_OK(fid) && (g_old_flags & NC_RDWR), "33 dimensions refused");
#endif
#if !defined(SD_RANK_ASSUME) || defined(SD_COV_33)
    H4V_COVER(r != FAIL && rank == H4_MAX_VAR_DIMS + 1, "32 dimensions and the ragged marker accepted");
#endif
#if !defined(SD_RANK_ASSUME) || defined(SD_COV_32)
    H4V_COVER(r != FAIL && rank == H4_MAX_VAR_DIMS, "32 dimensions accepted");
#endif
#if !defined(SD_RANK_ASSUME) || defined(SD_COV_BIG)
    H4V_COVER(r == FAIL && rank > 1000 && SD_FID_OK(fid) && (g_old_flags & NC_RDWR), "a huge rank refused");
#endif
#if !defined(SD_RANK_ASSUME) || defined(SD_COV_LOW)
    H4V_COVER(r == FAIL && g_newvar_calls == 1 && g_name_len == H4_MAX_NC_NAME + 1 && g_newvar == NULL, "257-character name refused");
    H4V_COVER(r != FAIL && g_name_len == H4_MAX_NC_NAME, "256-character name accepted");
    H4V_COVER(r == FAIL && g_old_nvars == H4_MAX_NC_VARS && g_newvar != NULL, "variable 5001 refused");
    H4V_COVER(r != FAIL && g_old_nvars == H4_MAX_NC_VARS - 1, "variable 5000 accepted");
    H4V_COVER(r != FAIL && rank == 0 && vars_null, "first variable, a scalar");
    H4V_COVER(r == FAIL && rank < 0 && SD_FID_OK(fid) && (g_old_flags & NC_RDWR), "negative rank refused");
#endif
    H4V_CANARY("SDcreate end");
}

"""C10 (extension): the Vdata / Vdata-field / Vgroup attribute interface of hdf/src/vattr.c under contract"""
from .core import ob

VA = dict(unit="vattr_api_u.c", file="hdf/src/vattr.c", objbits=8, unwind=5, cex_unwind=6,
          trusted=["HAatom_group/HAatom_object: the owner's instance and the attached attribute Vdatas of the ghost table",
                   "VSattach/VSdetach/VSwrite/VSread/VSinquire/VSsetfields/VHstoredatam: logging stubs over a ghost table of 3 attribute Vdatas "
                   "(ref -> name, class, field name, type, order, records, interlace); every one may fail",
                   "DFKNTsize (ghost size 1..8)", "strcmp/strncmp/strlen/strncpy: exact unrolled models for strings of at most 7 characters"])
BND = "attribute lists of at most 3 entries (loops unwound), ghost table of 3 attribute Vdatas, attribute names of one character"

ob("VSnattrs", ["C10"], entry="h_VSnattrs", enforce="VSnattrs", mode="proved", **VA)
ob("VSfnattrs_b", ["C10"], entry="h_VSfnattrs", enforce="VSfnattrs", mode="bounded", bound=BND, **VA)
ob("VSfindattr_b", ["C10"], entry="h_VSfindattr", enforce="VSfindattr", mode="bounded", bound=BND, **VA)
# NOT registered (unfinished): VSattrinfo (h_VSattrinfo; 290 s in cbmc, not re-run after the last harness fix)
ob("Vnattrs", ["C10"], entry="h_Vnattrs", enforce="Vnattrs", mode="proved", **VA)
ob("Vfindattr_b", ["C10"], entry="h_Vfindattr", enforce="Vfindattr", mode="bounded", bound=BND, **VA)
ob("Vattrinfo_b", ["C10"], entry="h_Vattrinfo", enforce="Vattrinfo", mode="bounded", bound=BND + "; attrindex >= 0", **VA)
# FAILS on the tree as found (defect candidate): Vattrinfo(vgid, -1, ..) reads vg->alist[-1] (vattr.c:1220/1224), replayed natively (ASan)
ob("Vattrinfo_neg_b", ["C10"], entry="h_Vattrinfo_neg", enforce="Vattrinfo", mode="bounded", bound=BND + "; attrindex in -4..-1", **VA)
# NOT registered (unfinished): Vsetattr (h_Vsetattr; 170 s; ensures clauses 3 and 6 fail in cbmc with no native failing input -- undiagnosed,
# the realloc path is the suspect)

"""C10 (extension 2): Vsetattr, Vgetattr, VSgetattr, VSattrinfo of hdf/src/vattr.c under contract (unit of c10_vattr)"""
from .core import ob
from .c10_vattr import VA as VA1, BND

VA = dict(VA1, trusted=VA1["trusted"] + [
    "malloc/realloc inside vattr.c: h4v_malloc / h4v_realloc (exact copy of the <= 3 old list entries into a fresh block, old block freed; "
    "fail exactly when the harness says so -- cbmc's own realloc may fail and copies a block of symbolic size)",
    "VSread: delivers the 4 value bytes of the ghost table row when at least one record is asked for; refuses a negative record count"])

ob("Vsetattr_b", ["C10"], entry="h_Vsetattr", enforce="Vsetattr", mode="bounded", bound=BND + "; allocations succeed", tier="thorough", **VA)
# NOT registered: Vsetattr_nomem_b (harness h_Vsetattr_nomem): when the realloc of the attribute list fails, Vsetattr returns FAIL with
# vg->alist == NULL and nattrs > 0 (vattr.c ~845; same pattern in VSsetattr ~352).  Allocation failure is outside what the checks decide
# (DESIGN 10.5, A-ALLOC); recorded as an observation in DESIGN 10.11, not as a finding.
# ob("Vsetattr_nomem_b", ["C10"], entry="h_Vsetattr_nomem", enforce="Vsetattr", mode="bounded", bound=BND + "; the list allocation fails",
#    tier="thorough", **VA)
GB = BND + "; attribute values of 4 bytes"
ob("Vgetattr_b", ["C10"], entry="h_Vgetattr", enforce="Vgetattr", mode="bounded", bound=GB, **VA)
ob("VSgetattr_b", ["C10"], entry="h_VSgetattr", enforce="VSgetattr", mode="bounded", bound=GB, **VA)
ob("VSattrinfo_b", ["C10"], entry="h_VSattrinfo", enforce="VSattrinfo", mode="bounded", bound=BND, **VA)

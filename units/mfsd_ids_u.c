/* Verification unit: mfhdf/src/mfsd.c (C13: SD identifiers -- file, dataset and dimension ids)
 *
 * An SD identifier is a plain int32 that ENCODES (file slot, kind, index):
 *      bits 20..31 file slot (index into file.c's _cdfs[]), bits 16..19 kind (SDSTYPE 4, DIMTYPE 5,
 *      CDFTYPE 6), bits 0..15 index into handle->vars / handle->dims (a file id repeats the slot there).
 * Contracts below state, for ANY int32 id:
 *   - decode: SDIhandle_from_id yields the file of the decoded slot iff id != -1 and the kind nibble
 *     equals the kind asked for (so a dataset id is never taken for a dimension or file id and vice
 *     versa), NULL otherwise; SDIget_var / SDIget_dim yield table entry (id & 0xffff) iff it is below
 *     the table's count, NULL otherwise -- no access outside vars->values / dims->values / _cdfs[];
 *   - encode: SDselect / SDgetdimid / SDstart return ids whose decoding is exactly (slot, kind, index);
 *   - every API given an id that names nothing returns its failure value, touching nothing (assigns);
 *   - the object reached through a valid id is the table entry the id names (ghost g_var), no other.
 * NC_check_id (file.c) is outside the unit: it is a STUB over a ghost table g_cdfs[NF] / g_ncdf with the
 * same body as the real one (trusted).  Tables of ARBITRARY size (count <= 65536) whose entries are
 * arbitrary (invalid) pointers except the one entry the id names: any dereference of another entry fails
 * the pointer checks.
 */
#include "h4v.h"
#include "h4v_err.h"
#include <string.h>
#include "nc_priv.h"

typedef NC_var *h4v_varp;
typedef NC_dim *h4v_dimp;
typedef unsigned short h4v_u16;
H4V_DECL_ND(int);
H4V_DECL_ND(int32);
H4V_DECL_ND(unsigned);
H4V_DECL_ND(h4v_u16);

#ifndef NF
#define NF 3 /* slots of the ghost _cdfs table */
#endif
#ifndef TABCAP
#define TABCAP 65536u /* largest table an index of 16 bits can address */
#endif

/* ------------------------------------------------------------------ ghost state */
NC     *g_cdfs[NF]; /* file.c: _cdfs[] */
int     g_ncdf;     /* file.c: _ncdf (high-water mark) */
NC     *g_file;     /* the file the probed id designates for the kind the API expects (NULL: refused) */
NC_var *g_var;      /* the variable the probed id names (NULL: it names none) */
NC_dim *g_dim;      /* the dimension the probed id names (NULL: none) */
int32   g_old_aid;  /* g_var->aid on entry */
int     g_endaccess;     /* Hendaccess calls */
int32   g_endaccess_aid; /* its argument */
int     g_endaccess_ret; /* its result */
int     g_open_cdfid;    /* what ncopen returns */
NC     *g_open_nc;       /* the file in that slot (NULL: none) */
int     g_k;             /* ghost index */

const char *cdf_routine_name;

/* ------------------------------------------------------------------ trusted stubs */
/* file.c:225, same body over the ghost table */
NC *
NC_check_id(int cdfid)
{
    return (cdfid >= 0 && cdfid < g_ncdf) ? g_cdfs[cdfid] : NULL;
}

int
Hendaccess(int32 access_id)
{
    g_endaccess++;
    g_endaccess_aid = access_id;
    return g_endaccess_ret;
}

int
ncopen(const char *path, int mode)
{
    return g_open_cdfid;
}

int16
HEvalue(int32 level)
{
    return DFE_TOOMANY;
}

#include "mfsd.c"

/* ------------------------------------------------------------------ id algebra */
#define ID_SLOT(id) ((int)(((id) >> 20) & 0xfff))
#define ID_KIND(id) ((int)(((id) >> 16) & 0x0f))
#define ID_IDX(id) ((int)((id)&0xffff))
#define ENV_WF (g_ncdf >= 0 && g_ncdf <= NF)
/* the open file a slot designates (NULL: none) */
#define ENV_SLOT(s) (((s) >= 0 && (s) < g_ncdf) ? g_cdfs[(s)] : (NC *)0)
#define ENV_FILE(id) ENV_SLOT(ID_SLOT(id))
/* the file an id of kind k designates (NULL: the id is refused) */
#define ID_FILE(id, k) (((id) != -1 && ID_KIND(id) == (k)) ? ENV_FILE(id) : (NC *)0)
#define TAB_VAR(h, i) (((NC_var **)(h)->vars->values)[i])
#define TAB_DIM(h, i) (((NC_dim **)(h)->dims->values)[i])
#define VAR_OF(h, id) (((h)->vars != NULL && (unsigned)ID_IDX(id) < (h)->vars->count) ? TAB_VAR(h, ID_IDX(id)) : (NC_var *)0)
#define DIM_OF(h, id) (((h)->dims != NULL && (unsigned)ID_IDX(id) < (h)->dims->count) ? TAB_DIM(h, ID_IDX(id)) : (NC_dim *)0)

/* ------------------------------------------------------------------ contracts */

NC *SDIhandle_from_id(int32 id, int typ)
    __CPROVER_requires(ENV_WF)
    __CPROVER_assigns()
    __CPROVER_ensures(__CPROVER_return_value == ID_FILE(id, typ))
    /* the three kinds exclude each other: whatever the id, at most one kind is accepted */
    __CPROVER_ensures(__CPROVER_return_value != NULL ==> (typ == ID_KIND(id) && id != -1 && ID_SLOT(id) < g_ncdf));

NC_var *SDIget_var(NC *handle, int32 sdsid)
    __CPROVER_requires(handle != NULL && (handle->vars == NULL || handle->vars->count <= TABCAP))
    __CPROVER_assigns()
    __CPROVER_ensures(__CPROVER_return_value == VAR_OF(handle, sdsid));

NC_dim *SDIget_dim(NC *handle, int32 id)
    __CPROVER_requires(handle != NULL && (handle->dims == NULL || handle->dims->count <= TABCAP))
    __CPROVER_assigns()
    __CPROVER_ensures(__CPROVER_return_value == DIM_OF(handle, id));

/* SDselect: the dataset id of (file, index).  ISSUED file ids repeat the slot in the low 16 bits (SDstart): for them the
   result is the dataset id of that file.  A forged id whose two slot fields differ was never issued (h_SDselect_forged):
   the index is checked against the table of the file in bits 20..31 and the id returned carries the slot of bits 0..11
   -- no memory is touched (assigns()), and whoever uses the returned id is checked again against THAT file's table. */
#define SEL_OK(fid, index) (g_file != NULL && g_file->vars != NULL && (index) >= 0 && (unsigned)(index) < g_file->vars->count)
int32 SDselect(int32 fid, int32 index)
    __CPROVER_requires(ENV_WF && g_file == ID_FILE(fid, CDFTYPE))
    __CPROVER_assigns()
    __CPROVER_ensures(!SEL_OK(fid, index) ==> __CPROVER_return_value == FAIL)
    __CPROVER_ensures(SEL_OK(fid, index) ==>
                      (__CPROVER_return_value != FAIL && ID_SLOT(__CPROVER_return_value) == (ID_IDX(fid) & 0xfff) &&
                       ID_KIND(__CPROVER_return_value) == SDSTYPE && ID_IDX(__CPROVER_return_value) == index))
    /* hence: never accepted where a file id or a dimension id is expected, accepted as dataset id of that file */
    __CPROVER_ensures((SEL_OK(fid, index) && ID_IDX(fid) == ID_SLOT(fid)) ==>
                      (ID_FILE(__CPROVER_return_value, CDFTYPE) == NULL && ID_FILE(__CPROVER_return_value, DIMTYPE) == NULL &&
                       ID_FILE(__CPROVER_return_value, SDSTYPE) == g_file));

/* SDgetdimid: id of the dimension on axis `number` of the dataset */
#define GD_OK(sdsid, number)                                                                         \
    (g_var != NULL && (number) >= 0 && g_var->assoc != NULL && (unsigned)(number) < g_var->assoc->count &&   \
     g_var->assoc->values != NULL)
int32 SDgetdimid(int32 sdsid, int number)
    __CPROVER_requires(ENV_WF)
    __CPROVER_requires(g_file == ID_FILE(sdsid, SDSTYPE) && g_var == (g_file != NULL ? VAR_OF(g_file, sdsid) : (NC_var *)0))
    __CPROVER_assigns()
    __CPROVER_ensures(!GD_OK(sdsid, number) ==> __CPROVER_return_value == FAIL)
    __CPROVER_ensures(GD_OK(sdsid, number) ==>
                      (__CPROVER_return_value != FAIL && ID_SLOT(__CPROVER_return_value) == ID_SLOT(sdsid) &&
                       ID_KIND(__CPROVER_return_value) == DIMTYPE &&
                       ID_IDX(__CPROVER_return_value) == g_var->assoc->values[number]))
    __CPROVER_ensures(GD_OK(sdsid, number) ==>
                      (ID_FILE(__CPROVER_return_value, CDFTYPE) == NULL && ID_FILE(__CPROVER_return_value, SDSTYPE) == NULL &&
                       ID_FILE(__CPROVER_return_value, DIMTYPE) == g_file));

/* SDendaccess: releases the access element of the dataset the id names, of nothing else */
int SDendaccess(int32 id)
    __CPROVER_requires(ENV_WF)
    __CPROVER_requires(g_file == ID_FILE(id, SDSTYPE) && g_var == (g_file != NULL ? VAR_OF(g_file, id) : (NC_var *)0))
    __CPROVER_requires(g_endaccess == 0 && (g_var == NULL || g_var->aid == g_old_aid))
    __CPROVER_requires(g_endaccess_ret == SUCCEED || g_endaccess_ret == FAIL)
    __CPROVER_assigns(g_var != NULL: g_var->aid; g_endaccess, g_endaccess_aid)
    __CPROVER_ensures(g_var == NULL ==> (__CPROVER_return_value == FAIL && g_endaccess == 0))
    __CPROVER_ensures(g_var != NULL ==>
                      (g_endaccess == ((g_old_aid != 0 && g_old_aid != FAIL) ? 1 : 0) &&
                       (g_endaccess == 0 || g_endaccess_aid == g_old_aid) &&
                       __CPROVER_return_value == ((g_endaccess == 1 && g_endaccess_ret == FAIL) ? FAIL : SUCCEED) &&
                       g_var->aid == (__CPROVER_return_value == SUCCEED ? FAIL : g_old_aid)));

int32 SDidtoref(int32 id)
    __CPROVER_requires(ENV_WF)
    __CPROVER_requires(g_file == ID_FILE(id, SDSTYPE) && g_var == (g_file != NULL ? VAR_OF(g_file, id) : (NC_var *)0))
    __CPROVER_assigns()
    __CPROVER_ensures(__CPROVER_return_value ==
                      ((g_var != NULL && g_file->file_type == HDF_FILE) ? (int32)g_var->ndg_ref : FAIL));

/* SDiscoordvar, new-style variables (the kind is recorded in the variable) */
int SDiscoordvar(int32 id)
    __CPROVER_requires(ENV_WF)
    __CPROVER_requires(g_file == ID_FILE(id, SDSTYPE) && g_var == (g_file != NULL ? VAR_OF(g_file, id) : (NC_var *)0))
    __CPROVER_assigns()
    __CPROVER_ensures(g_var == NULL ==> __CPROVER_return_value == FAIL)
    __CPROVER_ensures((g_var != NULL && g_var->var_type == IS_SDSVAR) ==> __CPROVER_return_value == FALSE)
    __CPROVER_ensures((g_var != NULL && g_var->var_type == IS_CRDVAR) ==> __CPROVER_return_value == TRUE)
    __CPROVER_ensures(g_var != NULL ==> (__CPROVER_return_value == FALSE || __CPROVER_return_value == TRUE));

/* SDgetinfo, id handling (no output requested) */
int SDgetinfo(int32 sdsid, char *name, int32 *rank, int32 *dimsizes, int32 *nt, int32 *nattrs)
    __CPROVER_requires(ENV_WF)
    __CPROVER_requires(name == NULL && rank == NULL && dimsizes == NULL && nt == NULL && nattrs == NULL)
    __CPROVER_requires(g_file == ID_FILE(sdsid, SDSTYPE) && g_var == (g_file != NULL ? VAR_OF(g_file, sdsid) : (NC_var *)0))
    __CPROVER_assigns()
    __CPROVER_ensures(__CPROVER_return_value == (g_var != NULL ? SUCCEED : FAIL));

/* SDreftoindex: the first dataset (in index order) with that reference number */
int32 SDreftoindex(int32 fid, int32 ref)
    __CPROVER_requires(ENV_WF && g_file == ID_FILE(fid, CDFTYPE))
    __CPROVER_assigns()
    __CPROVER_ensures((g_file == NULL || g_file->file_type != HDF_FILE || g_file->vars == NULL) ==> __CPROVER_return_value == FAIL)
    __CPROVER_ensures(__CPROVER_return_value == FAIL ||
                      (__CPROVER_return_value >= 0 && (unsigned)__CPROVER_return_value < g_file->vars->count &&
                       (int32)TAB_VAR(g_file, __CPROVER_return_value)->ndg_ref == ref))
    /* ghost index: no dataset before the result (or none at all on FAIL) has that reference number */
    __CPROVER_ensures((g_file != NULL && g_file->file_type == HDF_FILE && g_file->vars != NULL && g_k >= 0 &&
                       (unsigned)g_k < g_file->vars->count && (__CPROVER_return_value == FAIL || g_k < __CPROVER_return_value)) ==>
                      (int32)TAB_VAR(g_file, g_k)->ndg_ref != ref);

/* SDstart: the file id of the slot ncopen() assigned */
int32 SDstart(const char *name, int32 HDFmode)
    __CPROVER_requires(ENV_WF && name != NULL && !(HDFmode & DFACC_CREATE) && library_terminate == TRUE)
    __CPROVER_requires(g_open_cdfid >= -1 && g_open_cdfid < g_ncdf)
    __CPROVER_requires(g_open_nc == ENV_SLOT(g_open_cdfid))
    __CPROVER_assigns(ncopts; g_open_nc != NULL: g_open_nc->flags)
    __CPROVER_ensures(ENV_SLOT(g_open_cdfid) == NULL ==> __CPROVER_return_value == FAIL)
    __CPROVER_ensures(ENV_SLOT(g_open_cdfid) != NULL ==>
                      (__CPROVER_return_value != FAIL && ID_SLOT(__CPROVER_return_value) == g_open_cdfid &&
                       ID_KIND(__CPROVER_return_value) == CDFTYPE && ID_IDX(__CPROVER_return_value) == g_open_cdfid &&
                       ID_FILE(__CPROVER_return_value, CDFTYPE) == g_cdfs[g_open_cdfid] &&
                       ID_FILE(__CPROVER_return_value, SDSTYPE) == NULL && ID_FILE(__CPROVER_return_value, DIMTYPE) == NULL));

#ifdef H4V_NATIVE
#include "h4v_native_wrap.h"
#endif

/* ------------------------------------------------------------------ environment */
static NC        s_nc[3];
static NC_array  s_vars[3], s_dims[3];
static NC_var    s_var;
static NC_dim    s_dim;
static NC_iarray s_assoc;

/* three file records at arbitrary slots of the table (the others are closed), tables of arbitrary size
   with arbitrary entries */
static void
build_env(void)
{
    H4V_HAVOC(int, g_ncdf);
    H4V_HAVOC(int, g_k);
    H4V_ASSUME(ENV_WF);
    for (int f = 0; f < NF; f++)
        g_cdfs[f] = NULL;
    for (int f = 0; f < 3; f++) {
        H4V_ND(int, f_slot); /* -1: this record is not in the table */
        H4V_ASSUME(f_slot >= -1 && f_slot < NF);
        if (f_slot >= 0)
            g_cdfs[f_slot] = &s_nc[f];
        H4V_ND(unsigned, nvars);
        H4V_ND(unsigned, ndims);
        /* record 0: tables of any size; records 1, 2: at most two entries (keeps the formula small) */
        H4V_ASSUME(nvars <= (f == 0 ? TABCAP : 2u) && ndims <= (f == 0 ? TABCAP : 2u));
        H4V_ND_BUF(h4v_varp, vtab, nvars, 3);
        H4V_ND_BUF(h4v_dimp, dtab, ndims, 3);
        H4V_ND(int, vars_null);
        H4V_ND(int, dims_null);
        H4V_ND(int, f_type);
        s_vars[f].count   = nvars;
        s_vars[f].values  = (uint8_t *)vtab;
        s_dims[f].count   = ndims;
        s_dims[f].values  = (uint8_t *)dtab;
        s_nc[f].vars      = vars_null ? NULL : &s_vars[f];
        s_nc[f].dims      = dims_null ? NULL : &s_dims[f];
        s_nc[f].file_type = f_type;
        H4V_ND(unsigned, f_flags);
        s_nc[f].flags = f_flags;
    }
    g_var = NULL;
    g_dim = NULL;
    g_endaccess = 0;
}

#ifndef MAXRANK
#define MAXRANK 64u
#endif
/* make the table entry a dataset id names a real variable (arbitrary contents): g_var */
static void
name_var(int32 id)
{
    NC *h = ID_FILE(id, SDSTYPE);
    h     = (h == &s_nc[0]) ? &s_nc[0] : (h == &s_nc[1]) ? &s_nc[1] : (h == &s_nc[2]) ? &s_nc[2] : NULL;
    g_file = h;
    if (h != NULL && h->vars != NULL && (unsigned)ID_IDX(id) < h->vars->count) {
        H4V_ND(int32, v_aid);
        H4V_ND(h4v_u16, v_ref);
        H4V_ND(int, v_type);
        H4V_ND(unsigned, v_rank);
        H4V_ND(int, assoc_null);
        H4V_ASSUME(v_rank <= MAXRANK);
        H4V_ND_BUF(int, avals, v_rank, 4);
        s_assoc.count  = v_rank;
        s_assoc.values = v_rank == 0 ? NULL : avals; /* iarray.c NC_new_iarray */
        s_var.assoc    = assoc_null ? NULL : &s_assoc;
        s_var.aid      = v_aid;
        s_var.ndg_ref  = v_ref;
        s_var.var_type = (hdf_vartype_t)v_type;
        s_var.name     = NULL;
        s_var.shape    = NULL;
        s_var.attrs    = NULL;
        TAB_VAR(h, ID_IDX(id)) = &s_var;
        g_var                  = &s_var;
        g_old_aid              = v_aid;
    }
}

/* ------------------------------------------------------------------ harnesses */
void
h_SDIhandle_from_id(void)
{
    build_env();
    H4V_ND(int32, id);
    H4V_ND(int, typ);
    NC *r = SDIhandle_from_id(id, typ);
    H4V_COVER(r != NULL && typ == SDSTYPE, "dataset id accepted");
    H4V_COVER(r != NULL && typ == DIMTYPE, "dimension id accepted");
    H4V_COVER(r != NULL && typ == CDFTYPE, "file id accepted");
    H4V_COVER(r == NULL && id != -1 && ID_KIND(id) == typ, "closed slot refused");
    H4V_COVER(r == NULL && ID_KIND(id) != typ && ENV_FILE(id) != NULL, "wrong kind refused");
    H4V_CANARY("SDIhandle_from_id");
}

/* decode(encode(slot, kind, index)) == (slot, kind, index) for all slot < 2^11 (no signed overflow; < 2^12 with
   wrap-around), kind < 16, index < 2^16 -- the arithmetic SDstart / SDselect / SDgetdimid use */
void
h_id_codec(void)
{
    H4V_ND(int32, slot);
    H4V_ND(int32, kind);
    H4V_ND(int32, index);
    H4V_ASSUME(slot >= 0 && slot < 2048 && kind >= 0 && kind < 16 && index >= 0 && index < 65536);
    int32 id = (slot << 20) + (kind << 16) + index;
    H4V_CHECK(ID_SLOT(id) == slot && ID_KIND(id) == kind && ID_IDX(id) == index, "decode(encode(x)) == x");
    H4V_CHECK(id != -1, "an encoded id is never the failure value");
    H4V_ND(int32, slot2);
    H4V_ND(int32, kind2);
    H4V_ND(int32, index2);
    H4V_ASSUME(slot2 >= 0 && slot2 < 2048 && kind2 >= 0 && kind2 < 16 && index2 >= 0 && index2 < 65536);
    int32 id2 = (slot2 << 20) + (kind2 << 16) + index2;
    H4V_CHECK(id != id2 || (slot == slot2 && kind == kind2 && index == index2), "encode is injective");
    H4V_CANARY("id_codec");
}

void
h_SDIget_var(void)
{
    build_env();
    H4V_ND(int, f);
    H4V_ASSUME(f >= 0 && f < 3);
    H4V_ND(int32, sdsid);
    NC_var *r = SDIget_var(&s_nc[f], sdsid);
    H4V_COVER(r != NULL && ID_IDX(sdsid) == 40000, "large index accepted");
    H4V_COVER(r == NULL && s_nc[f].vars != NULL && (unsigned)ID_IDX(sdsid) == s_nc[f].vars->count, "index == count refused");
    H4V_CANARY("SDIget_var");
}

void
h_SDIget_dim(void)
{
    build_env();
    H4V_ND(int, f);
    H4V_ASSUME(f >= 0 && f < 3);
    H4V_ND(int32, id);
    NC_dim *r = SDIget_dim(&s_nc[f], id);
    H4V_COVER(r != NULL && ID_IDX(id) == 40000, "large index accepted");
    H4V_COVER(r == NULL && s_nc[f].dims != NULL && (unsigned)ID_IDX(id) == s_nc[f].dims->count, "index == count refused");
    H4V_CANARY("SDIget_dim");
}

/* file ids as SDstart issues them (both slot fields agree), or ids of any other kind / closed slots */
void
h_SDselect(void)
{
    build_env();
    H4V_ND(int32, fid);
    H4V_ND(int32, index);
    H4V_ASSUME(ID_FILE(fid, CDFTYPE) == NULL || ID_IDX(fid) == ID_SLOT(fid));
    g_file = ID_FILE(fid, CDFTYPE);
    int32 r = SDselect(fid, index);
    H4V_COVER(r != FAIL && index == 65535, "last encodable index");
    H4V_COVER(r == FAIL && ID_FILE(fid, CDFTYPE) != NULL && ID_FILE(fid, CDFTYPE)->vars != NULL, "index out of range");
    H4V_COVER(r == FAIL && ID_FILE(fid, SDSTYPE) != NULL, "dataset id refused as file id");
    H4V_CANARY("SDselect");
}

/* file ids that were never issued: right kind, open slot in bits 20..31, another value in bits 0..15 */
void
h_SDselect_forged(void)
{
    build_env();
    H4V_ND(int32, fid);
    H4V_ND(int32, index);
    H4V_ASSUME(ID_FILE(fid, CDFTYPE) != NULL && ID_IDX(fid) != ID_SLOT(fid) && ID_IDX(fid) < 2048);
    g_file = ID_FILE(fid, CDFTYPE);
    int32 r = SDselect(fid, index);
    H4V_COVER(r == FAIL, "refused");
    H4V_CANARY("SDselect_forged");
}

void
h_SDgetdimid(void)
{
    build_env();
    H4V_ND(int32, sdsid);
    H4V_ND(int, number);
    name_var(sdsid);
    /* var.c NC_var_shape: every entry of assoc is an index into handle->dims (count <= 65536) */
    if (GD_OK(sdsid, number))
        H4V_ASSUME(s_assoc.values[number] >= 0 && s_assoc.values[number] < 65536);
    int32 r = SDgetdimid(sdsid, number);
    H4V_COVER(r != FAIL && number == 5, "axis 5");
    H4V_COVER(r == FAIL && g_var != NULL && number > 0, "axis out of range");
    H4V_COVER(r == FAIL && ID_FILE(sdsid, DIMTYPE) != NULL, "dimension id refused as dataset id");
    H4V_CANARY("SDgetdimid");
}

void
h_SDendaccess(void)
{
    build_env();
    H4V_ND(int32, id);
    H4V_HAVOC(int, g_endaccess_ret);
    H4V_ASSUME(g_endaccess_ret == SUCCEED || g_endaccess_ret == FAIL);
    name_var(id);
    int r = SDendaccess(id);
    H4V_COVER(r == SUCCEED && g_endaccess == 1, "access element released");
    H4V_COVER(r == SUCCEED && g_endaccess == 0, "nothing to release");
    H4V_COVER(r == FAIL && g_var != NULL, "Hendaccess failed");
    H4V_COVER(r == FAIL && g_file != NULL && g_file->vars != NULL, "index out of range");
    H4V_CANARY("SDendaccess");
}

void
h_SDidtoref(void)
{
    build_env();
    H4V_ND(int32, id);
    name_var(id);
    int32 r = SDidtoref(id);
    H4V_COVER(r != FAIL, "ref found");
    H4V_COVER(r == FAIL && g_var != NULL, "not an HDF file");
    H4V_CANARY("SDidtoref");
}

/* new-style variables: the kind is recorded */
void
h_SDiscoordvar(void)
{
    build_env();
    H4V_ND(int32, id);
    name_var(id);
    H4V_ASSUME(g_var == NULL || g_var->var_type == IS_SDSVAR || g_var->var_type == IS_CRDVAR);
    int r = SDiscoordvar(id);
    H4V_COVER(r == TRUE, "coordinate variable");
    H4V_COVER(r == FALSE, "dataset");
    H4V_CANARY("SDiscoordvar");
}

/* old-style / netCDF variables (var_type UNKNOWN) of rank 0: assoc->count == 0, assoc->values == NULL */
void
h_SDiscoordvar_scalar(void)
{
    build_env();
    H4V_ND(int32, id);
    name_var(id);
    H4V_ASSUME(g_var != NULL && g_var->var_type == UNKNOWN && g_var->assoc != NULL && g_var->assoc->count == 0);
    int r = SDiscoordvar(id);
    H4V_COVER(r == FALSE, "scalar is no coordinate variable");
    H4V_CANARY("SDiscoordvar_scalar");
}

void
h_SDgetinfo_id(void)
{
    build_env();
    H4V_ND(int32, id);
    name_var(id);
    int r = SDgetinfo(id, NULL, NULL, NULL, NULL, NULL);
    H4V_COVER(r == SUCCEED, "id accepted");
    H4V_COVER(r == FAIL && g_file != NULL, "index out of range");
    H4V_CANARY("SDgetinfo_id");
}

/* every entry of the addressed file's table is a real variable (the search looks at all of them) */
#ifndef NV
#define NV 3
#endif
void
h_SDreftoindex(void)
{
    static NC_var s_v[NV];
    build_env();
    H4V_ND(int32, fid);
    H4V_ND(int32, ref);
    NC *h  = ID_FILE(fid, CDFTYPE);
    g_file = h;
    if (h != NULL && h->vars != NULL) {
        H4V_ASSUME(h->vars->count <= NV);
        for (unsigned i = 0; i < NV; i++)
            if (i < h->vars->count) {
                H4V_ND(h4v_u16, vref);
                s_v[i].ndg_ref = vref;
                TAB_VAR(h, i)  = &s_v[i];
            }
    }
    int32 r = SDreftoindex(fid, ref);
    H4V_COVER(r == 2, "third dataset");
    H4V_COVER(r == FAIL && h != NULL && h->vars != NULL && h->vars->count == NV, "no such ref");
    H4V_CANARY("SDreftoindex");
}

void
h_SDstart(void)
{
    build_env();
    H4V_HAVOC(int, g_open_cdfid);
    H4V_ASSUME(g_open_cdfid >= -1 && g_open_cdfid < g_ncdf);
    g_open_nc = ENV_SLOT(g_open_cdfid);
    H4V_ND(int32, mode);
    H4V_ASSUME(!(mode & DFACC_CREATE));
    library_terminate = TRUE;
    int32 r = SDstart("f", mode);
    H4V_COVER(r != FAIL, "file id issued");
    H4V_COVER(r == FAIL, "open failed");
    H4V_CANARY("SDstart");
}

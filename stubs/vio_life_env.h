/* vio_life -- ghost environment for units/vio_life_u.c (life cycle of Vdata handles: VSattach / VSdetach, vio.c).
 *
 * Derived from stubs/c14_common.h + stubs/c14_vsenv.h (same representatives, same one-vdata table), changed where the
 * life-cycle clauses need more than the C14 gates did:
 *   - the file may be writable or read-only (g_frec->access is an input);
 *   - the VSIDGROUP atom table is a 3-slot finite map (ids VL_K0..2) with registration state, so "the id designates the
 *     Vdata", "the id is no longer registered", "the other ids stay usable" can be stated (atom.c itself: obligations of
 *     atom_u.c; here a trusted finite map, ids compared for equality only);
 *   - the H layer keeps an open/closed flag for two access elements (VL_AID, VL_AID2), logs every start / end /
 *     Hputelement call, and every H call may fail nondeterministically when g_h_may_fail is set (g_h_failed records it: C16).
 * Ids that are not in the model (any other int32) are "not registered": the code under test treats ids as opaque.
 */
#ifndef VIO_LIFE_ENV_H
#define VIO_LIFE_ENV_H
#include "hdf_priv.h"
#include "hfile_priv.h"
#include "vg_priv.h"

H4V_DECL_ND(int);
H4V_DECL_ND(int32);
H4V_DECL_ND(uint32);
H4V_DECL_ND(uint16);
H4V_DECL_ND(int16);
H4V_DECL_ND(char);

#define VL_FID  0x10000007 /* the file id */
#define VL_AID  0x30000005 /* access element ids the H layer hands out (first free one) */
#define VL_AID2 0x30000006
#define VL_K0   0x50000004 /* vdata ids HAregister_atom(VSIDGROUP) hands out (first free one) */
#define VL_K1   0x50000009
#define VL_K2   0x5000000e

filerec_t    *g_frec; /* file record behind VL_FID */
vfile_t      *g_vf;   /* its V-layer record */
void         *g_vfp;
vsinstance_t *g_w;    /* THE vdata instance of the file's vstree */
void         *g_wp;
VDATA        *g_vs;   /* its VDATA */
accrec_t     *g_arec; /* access record behind VL_AID */
accrec_t     *g_arec2;
static int    g_dummy_vstree, g_dummy_vgtree;

/* ---- atom table of VSIDGROUP: slot i <-> id VL_Ki */
int   g_k_used[3];
void *g_k_obj[3];
int   g_reg_n;  /* HAregister_atom calls */
int   g_rem_n;  /* HAremove_atom calls that removed something */
int32 g_rem_id; /* id given to the last HAremove_atom call */
int   g_rem_calls;
#define VL_SLOT(id) ((id) == VL_K0 ? 0 : (id) == VL_K1 ? 1 : (id) == VL_K2 ? 2 : -1)
#define VL_IS_REG(id) (((id) == VL_K0 && g_k_used[0]) || ((id) == VL_K1 && g_k_used[1]) || ((id) == VL_K2 && g_k_used[2]))
#define VL_OBJ(id) ((id) == VL_K0 ? g_k_obj[0] : (id) == VL_K1 ? g_k_obj[1] : (id) == VL_K2 ? g_k_obj[2] : NULL)
#define VL_NREG ((g_k_used[0] != 0) + (g_k_used[1] != 0) + (g_k_used[2] != 0))
/* id is registered and designates the vdata instance */
#define VL_DESIGNATES_W(id) (VL_IS_REG(id) && VL_OBJ(id) == (void *)g_w)

/* ---- H layer: access elements */
int    g_elA_open, g_elB_open; /* VL_AID / VL_AID2 currently open */
int    g_start_n;              /* Hstartaccess/Hstartread/Hstartwrite calls */
uint32 g_start_flags;          /* access flags of the last one */
uint16 g_start_tag, g_start_ref;
int    g_end_n;   /* Hendaccess calls */
int32  g_end_aid; /* id given to the last one */
int    g_put_n;   /* Hputelement calls */
int32  g_put_len;
uint16 g_put_tag, g_put_ref;
const uint8 *g_put_data;
int    g_denied_n;   /* write requests refused because the file is read-only */
int    g_mut_n;      /* mutation primitives reached (DD reuse, element write) */
int    g_h_may_fail; /* H-layer calls may fail for an I/O reason */
int    g_h_failed;   /* ... and one did */
int    g_tree_ins_n;
int    g_newref_n;

#define VL_RDONLY(f) (((f)->access & DFACC_WRITE) == 0)

static int
vl_fault(void)
{
    if (g_h_may_fail) {
        H4V_ND(int, h_fault);
        if (h_fault) {
            g_h_failed = 1;
            return 1;
        }
    }
    return 0;
}

/* ------------------------------------------------------------------ atom.c (trusted finite map) */
void *
HAatom_object(atom_t atm)
{
    if (atm == VL_FID)
        return g_frec;
    if (atm == VL_AID)
        return g_elA_open ? g_arec : NULL;
    if (atm == VL_AID2)
        return g_elB_open ? g_arec2 : NULL;
    if (atm == VL_K0)
        return g_k_used[0] ? g_k_obj[0] : NULL;
    if (atm == VL_K1)
        return g_k_used[1] ? g_k_obj[1] : NULL;
    if (atm == VL_K2)
        return g_k_used[2] ? g_k_obj[2] : NULL;
    return NULL;
}
group_t
HAatom_group(atom_t atm)
{
    if (atm == VL_FID)
        return FIDGROUP;
    if (atm == VL_AID)
        return g_elA_open ? AIDGROUP : BADGROUP;
    if (atm == VL_AID2)
        return g_elB_open ? AIDGROUP : BADGROUP;
    if (VL_IS_REG(atm))
        return VSIDGROUP;
    return BADGROUP;
}
/* allocation failure is out of scope (DESIGN 10.5, A-ALLOC): registration succeeds while the model has a free slot */
atom_t
HAregister_atom(group_t grp, void *object)
{
    g_reg_n++;
    if (grp != VSIDGROUP)
        return FAIL;
    if (!g_k_used[0]) {
        g_k_used[0] = 1;
        g_k_obj[0]  = object;
        return VL_K0;
    }
    if (!g_k_used[1]) {
        g_k_used[1] = 1;
        g_k_obj[1]  = object;
        return VL_K1;
    }
    if (!g_k_used[2]) {
        g_k_used[2] = 1;
        g_k_obj[2]  = object;
        return VL_K2;
    }
    return FAIL;
}
void *
HAremove_atom(atom_t atm)
{
    void *o = NULL;
    g_rem_calls++;
    g_rem_id = atm;
    if (atm == VL_K0 && g_k_used[0]) {
        g_k_used[0] = 0;
        o           = g_k_obj[0];
    }
    else if (atm == VL_K1 && g_k_used[1]) {
        g_k_used[1] = 0;
        o           = g_k_obj[1];
    }
    else if (atm == VL_K2 && g_k_used[2]) {
        g_k_used[2] = 0;
        o           = g_k_obj[2];
    }
    if (o != NULL)
        g_rem_n++;
    return o;
}

/* ------------------------------------------------------------------ vgp.c / tbbt.c (A-TBBT: trusted finite maps) */
vfile_t *
Get_vfile(HFILEID f)
{
    return f == VL_FID ? g_vf : NULL;
}
TBBT_NODE *
tbbtdfind(TBBT_TREE *tree, void *key, TBBT_NODE **pp)
{
    if (tree == (TBBT_TREE *)&g_dummy_vstree)
        return (g_w != NULL && *(int32 *)key == g_w->key) ? (TBBT_NODE *)&g_wp : NULL;
    return NULL;
}
TBBT_NODE *
tbbtdins(TBBT_TREE *tree, void *item, void *key)
{
    g_tree_ins_n++;
    return (TBBT_NODE *)&g_wp;
}

/* ------------------------------------------------------------------ hfile.c / hfiledd.c */
/* Hstartaccess: obligation `Hstartaccess` (hfile_u.c) proves that a request with DFACC_WRITE on a file opened read-only
   is refused before anything is allocated or created. */
int32
Hstartaccess(int32 file_id, uint16 tag, uint16 ref, uint32 flags)
{
    g_start_n++;
    g_start_flags = flags;
    g_start_tag   = tag;
    g_start_ref   = ref;
    if (file_id != VL_FID || g_frec == NULL)
        return FAIL;
    if ((flags & DFACC_WRITE) && VL_RDONLY(g_frec)) {
        g_denied_n++;
        return FAIL;
    }
    if (vl_fault())
        return FAIL;
    if (!g_elA_open) {
        g_elA_open = 1;
        return VL_AID;
    }
    if (!g_elB_open) {
        g_elB_open = 1;
        return VL_AID2;
    }
    g_h_failed = 1; /* the model has two elements only */
    return FAIL;
}
int32
Hstartread(int32 file_id, uint16 tag, uint16 ref)
{
    return Hstartaccess(file_id, tag, ref, DFACC_READ);
}
int32
Hstartwrite(int32 file_id, uint16 tag, uint16 ref, int32 length)
{
    return Hstartaccess(file_id, tag, ref, DFACC_RDWR);
}
/* Hendaccess: caller obligation (C13): the id is an open access element.  A failing call leaves the element open. */
int
Hendaccess(int32 access_id)
{
    g_end_n++;
    g_end_aid = access_id;
    H4V_CHECK((access_id == VL_AID && g_elA_open) || (access_id == VL_AID2 && g_elB_open),
              "C13: Hendaccess is given an id that is not an open access element");
    if (!((access_id == VL_AID && g_elA_open) || (access_id == VL_AID2 && g_elB_open)))
        return FAIL;
    if (vl_fault())
        return FAIL;
    if (access_id == VL_AID)
        g_elA_open = 0;
    else
        g_elB_open = 0;
    return SUCCEED;
}
/* hfile.c:1041: fails only for an id that is not an access element */
int
Happendable(int32 aid)
{
    if ((aid == VL_AID && g_elA_open) || (aid == VL_AID2 && g_elB_open))
        return SUCCEED;
    return FAIL;
}
int32
Hputelement(int32 file_id, uint16 tag, uint16 ref, const uint8 *data, int32 length)
{
    g_put_n++;
    g_put_len  = length;
    g_put_tag  = tag;
    g_put_ref  = ref;
    g_put_data = data;
    if (file_id != VL_FID || g_frec == NULL)
        return FAIL;
    if (VL_RDONLY(g_frec)) {
        g_denied_n++;
        return FAIL;
    }
    g_mut_n++;
    if (vl_fault())
        return FAIL;
    return length;
}
int
HDcheck_tagref(int32 file_id, uint16 tag, uint16 ref)
{
    H4V_ND(int, check_tagref);
    H4V_ASSUME(check_tagref >= -1 && check_tagref <= 1);
    if (check_tagref == -1)
        g_h_failed = 1;
    return check_tagref;
}
int
HDreuse_tagref(int32 file_id, uint16 tag, uint16 ref)
{
    g_mut_n++;
    if (vl_fault())
        return FAIL;
    return SUCCEED;
}
uint16
Hnewref(int32 file_id)
{
    g_newref_n++;
    H4V_ND(uint16, newref);
    return newref;
}

/* ------------------------------------------------------------------ the environment */
/* one file (writable or not), its vfile_t, one vdata instance in an ARBITRARY CONSISTENT life-cycle state:
     nattach == 0: not attached, no id of the model designates it, no element open;
     nattach  > 0: attached 'r' (any count) or 'w' (count 1), vs->aid == VL_AID is an open element; up to three of its ids are
                   in the atom model (more may exist outside it when nattach > 3: they are never touched). */
static void
vl_mk_env(void)
{
    g_frec = malloc(sizeof(filerec_t));
    H4V_ASSUME(g_frec != NULL);
    memset(g_frec, 0, sizeof(filerec_t));
    H4V_ND(int, f_writable);
    H4V_ND(int, f_refcount);
    H4V_ASSUME(f_refcount >= 1);
    g_frec->access      = f_writable ? DFACC_RDWR : DFACC_READ; /* what Hopen stores */
    g_frec->refcount    = f_refcount;
    g_frec->version_set = 1;

    g_arec  = calloc(1, sizeof(accrec_t));
    g_arec2 = calloc(1, sizeof(accrec_t));
    H4V_ASSUME(g_arec != NULL && g_arec2 != NULL);
    H4V_ND(int32, a_posn);
    H4V_ASSUME(a_posn >= 0);
    g_arec->posn     = a_posn;
    g_arec->file_id  = VL_FID;
    g_arec2->posn    = a_posn;
    g_arec2->file_id = VL_FID;

    g_vf = malloc(sizeof(vfile_t));
    H4V_ASSUME(g_vf != NULL);
    H4V_ND(int32, vf_vstabn);
    H4V_ASSUME(vf_vstabn >= 1 && vf_vstabn < 100000);
    g_vf->f      = VL_FID;
    g_vf->vgtabn = 0;
    g_vf->vgtree = (TBBT_TREE *)&g_dummy_vgtree;
    g_vf->vstabn = vf_vstabn;
    g_vf->vstree = (TBBT_TREE *)&g_dummy_vstree;
    g_vf->access = 1;
    g_vfp        = g_vf;

    g_vs = malloc(sizeof(VDATA));
    H4V_ASSUME(g_vs != NULL);
    memset(g_vs, 0, sizeof(VDATA));
    H4V_ND(uint16, vs_oref);
    H4V_ND(uint16, vs_otag);
    H4V_ND(int32, vs_nvertices);
    H4V_ND(int, vs_marked);
    H4V_ND(int, vs_new_h_sz);
    H4V_ND(int, vs_nattrs);
    H4V_ND(int, vs_access_w);
    H4V_ND(int32, w_nvertices);
    H4V_ASSUME(vs_nvertices >= 0 && w_nvertices >= 0 && (vs_marked == 0 || vs_marked == 1) && vs_nattrs >= 0 && vs_nattrs <= 65535);
    g_vs->otag      = vs_otag; /* DFTAG_VH for a vdata; anything else must be refused by VSdetach */
    g_vs->oref      = vs_oref;
    g_vs->f         = VL_FID;
    g_vs->interlace = FULL_INTERLACE;
    g_vs->nvertices = vs_nvertices;
    g_vs->marked    = vs_marked;
    g_vs->new_h_sz  = vs_new_h_sz;
    g_vs->nattrs    = vs_nattrs;
    g_vs->version   = VSET_VERSION;
    g_vs->nusym     = 0;
    g_vs->usym      = NULL;

    g_w = malloc(sizeof(vsinstance_t));
    H4V_ASSUME(g_w != NULL);
    H4V_ND(int, w_nattach);
    H4V_ND(int, k0_used);
    H4V_ND(int, k1_used);
    H4V_ND(int, k2_used);
    H4V_ASSUME(w_nattach >= 0 && w_nattach <= 0x0fffffff); /* at most 2^28 ids per group exist */
    g_w->key       = (int32)vs_oref;
    g_w->ref       = (unsigned)vs_oref;
    g_w->nattach   = w_nattach;
    g_w->nvertices = w_nvertices;
    g_w->vs        = g_vs;
    g_w->next      = NULL;
    g_vs->instance = g_w;
    g_wp           = g_w;

    g_k_used[0] = k0_used != 0;
    g_k_used[1] = k1_used != 0;
    g_k_used[2] = k2_used != 0;
    g_k_obj[0] = g_k_obj[1] = g_k_obj[2] = g_w;
    H4V_ASSUME(VL_NREG <= w_nattach);
    if (w_nattach > 0) {
        g_vs->access = (vs_access_w && w_nattach == 1 && f_writable) ? 'w' : 'r';
        g_vs->aid    = VL_AID;
        g_elA_open   = 1;
    }
    else {
        g_vs->access = vs_access_w ? 'w' : 'r'; /* left over from the last attachment */
        g_vs->aid    = FAIL;
        g_elA_open   = 0;
    }
    g_elB_open = 0;
    g_reg_n = g_rem_n = g_rem_calls = 0;
    g_rem_id  = 0;
    g_start_n = g_end_n = g_put_n = 0;
    g_start_flags = 0;
    g_start_tag = g_start_ref = 0;
    g_end_aid = 0;
    g_put_len = 0;
    g_put_tag = g_put_ref = 0;
    g_put_data = NULL;
    g_denied_n = g_mut_n = g_h_failed = g_tree_ins_n = g_newref_n = 0;
    H4V_HAVOC(int, g_h_may_fail);
}

#define VL_ENV                                                                                                             \
    (g_frec != NULL && g_frec->refcount >= 1 && g_vf != NULL && g_w != NULL && g_vs != NULL && g_arec != NULL && g_w->vs == g_vs && \
     g_vs->f == VL_FID && g_w->key == (int32)g_vs->oref && g_reg_n == 0 && g_rem_n == 0 && g_rem_calls == 0 && g_start_n == 0 && \
     g_end_n == 0 && g_put_n == 0 && g_denied_n == 0 && g_mut_n == 0 && g_h_failed == 0 && g_elB_open == 0 &&                \
     g_k_obj[0] == (void *)g_w && g_k_obj[1] == (void *)g_w && g_k_obj[2] == (void *)g_w)
/* consistent life-cycle state of the instance */
#define VL_INST_WF                                                                                                         \
    (g_w->nattach >= 0 && g_w->nattach <= 0x0fffffff && VL_NREG <= g_w->nattach && (g_vs->access == 'r' || g_vs->access == 'w') && \
     (g_w->nattach > 0 ? (g_vs->aid == VL_AID && g_elA_open && (g_vs->access == 'r' || (g_w->nattach == 1 && !VL_RDONLY(g_frec)))) \
                       : (g_vs->aid == FAIL && !g_elA_open)))
#define VL_FRAME                                                                                                           \
    __CPROVER_object_whole(g_vs), __CPROVER_object_whole(g_w), __CPROVER_object_whole(g_vf), __CPROVER_object_whole(g_arec), \
        __CPROVER_object_whole(g_arec2), __CPROVER_object_whole(g_k_used), __CPROVER_object_whole(g_k_obj), g_reg_n, g_rem_n, g_rem_id, \
        g_rem_calls, g_elA_open, g_elB_open, g_start_n, g_start_flags, g_start_tag, g_start_ref, g_end_n, g_end_aid, g_put_n, \
        g_put_len, g_put_tag, g_put_ref, g_put_data, g_denied_n, g_mut_n, g_h_failed, g_tree_ins_n, g_newref_n
#endif

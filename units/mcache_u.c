/* Verification unit: hdf/src/mcache.c (C04: the chunk cache must not change the data) */
#include "h4v.h"
#include "h4v_err.h"

/* allocator stub (malloc/calloc are callees outside the unit): allocation succeeds unless the
   harness switches fault injection on (g_alloc_fail_at = k: the k-th allocation returns NULL; a
   constant, so that pointers stay concrete for cbmc).
   Under cbmc the three object kinds of mcache.c are allocated with their struct type (same
   size, no padding added): an untyped malloc(sizeof(BKT) + pagesize) is a byte array to cbmc and
   every queue pointer stored in it is lost to its points-to analysis (no answer in 5 min). */
#include "mcache_priv.h"
#define PGSZ 8
typedef unsigned char h4v_u8;
H4V_DECL_ND(int32);
H4V_DECL_ND(int);
H4V_DECL_ND(h4v_u8);
struct h4v_bktpage {
    BKT   b;
    uint8 page[PGSZ];
};
static int g_alloc_fail_at; /* fault injection: the allocation with this ordinal fails (-1: none) */
static int g_alloc_n;
static void *
h4v_malloc(size_t n)
{
    void *p;
    if (g_alloc_fail_at >= 0 && g_alloc_n++ == g_alloc_fail_at)
        return NULL;
#ifdef H4V_CBMC
    __CPROVER_assert(sizeof(struct h4v_bktpage) == sizeof(BKT) + PGSZ, "typed bucket+page object has exactly the requested size");
    /* __CPROVER_allocate never yields NULL: pointers stay plain addresses for cbmc's constant
       propagation (with "p = malloc(); assume(p != NULL)" every queue pointer is an
       if-then-else with NULL and the symbolic execution does not finish) */
    if (n == sizeof(L_ELEM))
        p = __CPROVER_allocate(sizeof(L_ELEM), 0);
    else if (n == sizeof(BKT) + PGSZ)
        p = __CPROVER_allocate(sizeof(struct h4v_bktpage), 0);
    else
        p = __CPROVER_allocate(n, 0);
#else
    p = malloc(n);
#endif
    H4V_ASSUME(p != NULL);
    return p;
}
static void *
h4v_calloc(size_t a, size_t b)
{
    void *p;
    if (g_alloc_fail_at >= 0 && g_alloc_n++ == g_alloc_fail_at)
        return NULL;
#ifdef H4V_CBMC
    if (a == 1 && b == sizeof(MCACHE))
        p = __CPROVER_allocate(sizeof(MCACHE), 1);
    else
        p = __CPROVER_allocate(a * b, 1);
#else
    p = calloc(a, b);
#endif
    H4V_ASSUME(p != NULL);
    return p;
}
#define malloc h4v_malloc
#define calloc h4v_calloc
#include "mcache.c"
#undef malloc
#undef calloc

/* Bounded protocol harnesses: the heap (LRU queue, hash chains of BKTs and L_ELEMs, all
   H4_CIRCLEQ based) is built by the real mcache_open/mcache_get, never by hand.  The application
   side and the "disk" behind the pgin/pgout callbacks are modelled by ghost arrays:
     g_disk[p]   bytes of page p as last written through pgout (initially arbitrary)
     g_model[p]  bytes of page p as the application last left them (get, modify, put DIRTY)
     g_dirty[p]  page p was put back DIRTY and has not been written through pgout since
   The cache is correct iff what mcache_get hands out always equals g_model, whatever the cache
   size and access order, and after mcache_sync g_disk equals g_model. */
#ifndef NPG
#define NPG 3 /* pages in the object (bound) */
#endif
#ifndef NSTEPS
#define NSTEPS 3 /* get/put operations (bound) */
#endif
#ifndef MAXCACHE
#define MAXCACHE 2 /* cache sizes 1..MAXCACHE (bound) */
#endif

static uint8 g_disk[NPG + 1][PGSZ];
static uint8 g_model[NPG + 1][PGSZ];
static int   g_dirty[NPG + 1];
static int   g_out_cnt[NPG + 1]; /* pgout calls per page */
static int   g_in_cnt[NPG + 1];  /* pgin calls per page */
static int32 g_npages;
static int   g_cookie;
static int   g_fail_out; /* fault injection: the next pgout fails */

#define BKT_OF(pg) ((BKT *)((char *)(pg) - sizeof(BKT)))

/* page-out callback (HMCPchunkwrite in production; page numbers are 0 based here) */
static int32
st_pgout(void *cookie, int32 pgno, const void *page)
{
    int32        p  = pgno + 1;
    const uint8 *pg = page;
    H4V_CHECK(cookie == (void *)&g_cookie, "pgout gets the registered cookie");
    H4V_CHECK(p >= 1 && p <= g_npages, "pgout page number in range");
    if (!(p >= 1 && p <= g_npages))
        return FAIL;
    H4V_CHECK(g_dirty[p], "pgout only for a dirty page: each dirty page is written back exactly once");
    H4V_CHECK(pg[0] == g_model[p][0] && pg[PGSZ - 1] == g_model[p][PGSZ - 1],
              "the page written back carries the data the application last put");
    if (g_fail_out) {
        g_fail_out = 0;
        return FAIL;
    }
    g_disk[p][0]        = pg[0];
    g_disk[p][PGSZ - 1] = pg[PGSZ - 1];
    g_dirty[p]          = 0;
    g_out_cnt[p]++;
    return SUCCEED;
}

/* page-in callback (HMCPchunkread in production) */
static int32
st_pgin(void *cookie, int32 pgno, void *page)
{
    int32  p  = pgno + 1;
    uint8 *pg = page;
    H4V_CHECK(cookie == (void *)&g_cookie, "pgin gets the registered cookie");
    H4V_CHECK(p >= 1 && p <= g_npages, "pgin page number in range");
    if (!(p >= 1 && p <= g_npages))
        return FAIL;
    H4V_CHECK(!g_dirty[p], "a page is never re-read while its dirty copy has not been written back");
    pg[0]        = g_disk[p][0];
    pg[PGSZ - 1] = g_disk[p][PGSZ - 1];
    g_in_cnt[p]++;
    return SUCCEED;
}

#ifdef H4V_NATIVE
#include "h4v_native_wrap.h"
#endif

static MCACHE *
mk_cache(void)
{
    H4V_ND(int32, maxcache);
    H4V_ND(int32, npages);
    /* one run per (cache size, page count): constants keep the heap concrete */
    H4V_ASSUME(maxcache == MAXCACHE && npages == NPG);
    maxcache = MAXCACHE;
    npages   = NPG;
    g_npages   = npages;
    g_fail_out = 0;
    g_alloc_fail_at = -1;
    g_alloc_n       = 0;
    for (int p = 0; p <= NPG; p++) {
        H4V_ND(h4v_u8, disk0);
        H4V_ND(h4v_u8, disk1);
        g_disk[p][0] = g_model[p][0] = disk0;
        g_disk[p][PGSZ - 1] = g_model[p][PGSZ - 1] = disk1;
        g_dirty[p] = g_out_cnt[p] = g_in_cnt[p] = 0;
    }
    /* flags 0 = "object exists": the only value hchunks.c passes (1209, 1712) and the header allows */
    MCACHE *mp = mcache_open(NULL, 7, PGSZ, maxcache, npages, 0);
    H4V_ASSUME(mp != NULL);
    mcache_filter(mp, st_pgin, st_pgout, &g_cookie);
    return mp;
}

/* number of cached buckets / list elements carrying page number q */
static int
count_bkt(MCACHE *mp, int32 q)
{
    int  n = 0;
    BKT *bp;
    for (bp = mp->lqh.cqh_first; bp != (void *)&mp->lqh; bp = bp->q.cqe_next)
        if (bp->pgno == q)
            n++;
    return n;
}
static int
count_hash_bkt(MCACHE *mp, int32 q)
{
    int          n    = 0;
    struct _hqh *head = &mp->hqh[HASHKEY(q)];
    BKT         *bp;
    for (bp = head->cqh_first; bp != (void *)head; bp = bp->hq.cqe_next)
        if (bp->pgno == q)
            n++;
    return n;
}
static int
count_lelem(MCACHE *mp, int32 q)
{
    int           n     = 0;
    struct _lhqh *lhead = &mp->lhqh[HASHKEY(q)];
    L_ELEM       *lp;
    for (lp = lhead->cqh_first; lp != (void *)lhead; lp = lp->hl.cqe_next)
        if (lp->pgno == q)
            n++;
    return n;
}
static int
count_dirty_bkt(MCACHE *mp)
{
    int  n = 0;
    BKT *bp;
    for (bp = mp->lqh.cqh_first; bp != (void *)&mp->lqh; bp = bp->q.cqe_next)
        if (bp->flags & MCACHE_DIRTY)
            n++;
    return n;
}

static uint8 *g_hold[NPG + 1]; /* pages the application currently holds pinned */

static void
check_page(MCACHE *mp, int32 q)
{
    /* a pinned page is never evicted or reused */
    if (g_hold[q] != NULL) {
        H4V_CHECK(BKT_OF(g_hold[q])->pgno == q && (BKT_OF(g_hold[q])->flags & MCACHE_PINNED) != 0,
                  "a pinned page is never evicted");
        H4V_CHECK(g_hold[q][0] == g_model[q][0] && g_hold[q][PGSZ - 1] == g_model[q][PGSZ - 1],
                  "a pinned page keeps its data");
    }
    /* page numbers in the queues and hash chains stay unique */
    H4V_CHECK(count_bkt(mp, q) <= 1, "at most one bucket per page number in the lru queue");
    H4V_CHECK(count_hash_bkt(mp, q) == count_bkt(mp, q), "hash chain and lru queue agree");
    H4V_CHECK(count_lelem(mp, q) == 1, "exactly one list element per page number");
}
static void
check_all_pages(MCACHE *mp)
{
    for (int32 q = 1; q <= NPG; q++)
        check_page(mp, q);
}

/* one application step on page p: get it if not held; then keep it, put it back clean, or modify
   it and put it back dirty */
static void
app_step_on(MCACHE *mp, int32 p, int op_kind)
{
    if (g_hold[p] == NULL) {
        int    was_cached = count_bkt(mp, p);
        int    in_before  = g_in_cnt[p];
        uint8 *pg         = mcache_get(mp, p, 0);
        H4V_CHECK(pg != NULL, "mcache_get succeeds when allocation and pgin succeed");
        if (pg == NULL)
            return;
        H4V_CHECK(BKT_OF(pg)->pgno == p, "mcache_get returns the page with the requested number");
        H4V_CHECK(BKT_OF(pg)->page == (void *)pg, "bucket and page belong together");
        H4V_CHECK((BKT_OF(pg)->flags & MCACHE_PINNED) != 0, "mcache_get pins the page");
        H4V_CHECK(((BKT_OF(pg)->flags & MCACHE_DIRTY) != 0) == (g_dirty[p] != 0), "dirty flag = put dirty and not yet written back");
        H4V_CHECK(pg[0] == g_model[p][0] && pg[PGSZ - 1] == g_model[p][PGSZ - 1],
                  "the data handed out is the data last stored, whatever the cache size");
        H4V_CHECK(g_in_cnt[p] == in_before + (was_cached ? 0 : 1), "a cached page is not re-read, an uncached one is read once");
        g_hold[p] = pg;
    }
    if (op_kind == 1) {
        uint8 old = BKT_OF(g_hold[p])->flags;
        int   r   = mcache_put(mp, g_hold[p], 0);
        H4V_CHECK(r == RET_SUCCESS, "mcache_put succeeds");
        H4V_CHECK((BKT_OF(g_hold[p])->flags & MCACHE_PINNED) == 0, "mcache_put unpins");
        H4V_CHECK((BKT_OF(g_hold[p])->flags & MCACHE_DIRTY) == (old & MCACHE_DIRTY), "mcache_put(0) keeps the dirty flag");
        g_hold[p] = NULL;
    }
    else if (op_kind == 2) {
        H4V_ND(h4v_u8, v0);
        H4V_ND(h4v_u8, v1);
        g_hold[p][0] = g_model[p][0] = v0;
        g_hold[p][PGSZ - 1] = g_model[p][PGSZ - 1] = v1;
        int r      = mcache_put(mp, g_hold[p], MCACHE_DIRTY);
        g_dirty[p] = 1;
        H4V_CHECK(r == RET_SUCCESS, "mcache_put succeeds");
        H4V_CHECK((BKT_OF(g_hold[p])->flags & MCACHE_PINNED) == 0, "mcache_put unpins");
        H4V_CHECK((BKT_OF(g_hold[p])->flags & MCACHE_DIRTY) != 0, "mcache_put(DIRTY) sets the dirty flag");
        g_hold[p] = NULL;
    }
    /* every page (constant page numbers: the run explores one concrete schedule per path) */
    check_all_pages(mp);
}

/* Every schedule of NSTEPS operations (page 1..NPG x {get and hold, put clean, modify and put
   dirty}) is run on a fresh cache, one after the other.  Page numbers and operation kinds are
   constants in each unwound iteration, so the heap stays concrete for cbmc (a symbolic
   schedule merges queue pointers at every step: no answer in 5 min even for 2 pages); the page
   contents stay symbolic. */
#define NOPS (3 * NPG)
#ifndef SCHED_LO /* the schedules SCHED_LO <= sched < SCHED_HI of the NOPS^NSTEPS are run by one obligation */
#define SCHED_LO 0
#define SCHED_HI (NOPS * NOPS * NOPS)
#endif
void
h_mcache_protocol(void)
{
    int evicted_dirty = 0, reread = 0, grew = 0, synced = 0;
    for (int sched = SCHED_LO; sched < SCHED_HI; sched++) {
        MCACHE *mp   = mk_cache();
        int32   maxc = mp->maxcache;
        int     code = sched;
        for (int p = 0; p <= NPG; p++)
            g_hold[p] = NULL;
        for (int s = 0; s < NSTEPS; s++) {
            int op = code % NOPS;
            code /= NOPS;
            app_step_on(mp, op / 3 + 1, op % 3);
        }
        evicted_dirty |= (g_out_cnt[1] > 0);
        reread |= (g_in_cnt[1] > 1);
        grew |= (mp->curcache > maxc);
        /* release what is still held, then sync */
        for (int p = 1; p <= NPG; p++)
            if (g_hold[p] != NULL) {
                mcache_put(mp, g_hold[p], 0);
                g_hold[p] = NULL;
            }
        int was_dirty[NPG + 1], out_before[NPG + 1];
        for (int p = 1; p <= NPG; p++) {
            was_dirty[p]  = g_dirty[p];
            out_before[p] = g_out_cnt[p];
            synced |= g_dirty[p];
        }
        int r = mcache_sync(mp);
        H4V_CHECK(r == RET_SUCCESS, "mcache_sync succeeds when pgout succeeds");
        H4V_CHECK(count_dirty_bkt(mp) == 0, "mcache_sync leaves no dirty page");
        for (int p = 1; p <= NPG; p++) {
            H4V_CHECK(g_dirty[p] == 0, "every page put dirty has been written back");
            H4V_CHECK(g_out_cnt[p] == out_before[p] + (was_dirty[p] ? 1 : 0),
                      "mcache_sync writes each dirty page exactly once, clean pages not at all");
            H4V_CHECK(g_disk[p][0] == g_model[p][0] && g_disk[p][PGSZ - 1] == g_model[p][PGSZ - 1],
                      "after sync the disk holds the data last stored");
        }
        check_all_pages(mp);
#ifdef WITH_CLOSE /* mcache_close frees everything exactly once (cbmc: no double free; native: ASan) */
        r = mcache_close(mp);
        H4V_CHECK(r == RET_SUCCESS, "mcache_close succeeds");
#endif
    }
#ifdef COVER_ALL /* defined for a range of schedules known to contain all four situations */
    H4V_COVER(evicted_dirty, "a dirty page was evicted and written back");
    H4V_COVER(reread, "a page was read in twice");
    H4V_COVER(grew, "cache grew because every page was pinned");
#endif
    H4V_COVER(synced, "sync wrote a page");
    H4V_CANARY("mcache protocol end");
}

/* fault path: the write-back of a dirty page fails during eviction.  mcache_get must report the
   failure and the cache must stay a well-formed structure: the dirty page is still there (its
   data are not lost) and sync/close afterwards are memory safe */
void
h_mcache_evict_fail(void)
{
    MCACHE *mp = mk_cache();
    for (int p = 0; p <= NPG; p++)
        g_hold[p] = NULL;
    H4V_ASSUME(mp->maxcache == 1 && g_npages >= 2); /* MAXCACHE=1, NPG>=2 by defines */
    uint8 *pg = mcache_get(mp, 1, 0);
    H4V_ASSUME(pg != NULL);
    H4V_ND(h4v_u8, v0);
    pg[0] = g_model[1][0] = v0;
    mcache_put(mp, pg, MCACHE_DIRTY);
    g_dirty[1] = 1;
    g_fail_out = 1;
    uint8 *pg2 = mcache_get(mp, 2, 0);
    H4V_CHECK(pg2 == NULL, "mcache_get fails when the dirty page it wants to evict cannot be written");
    /* the cache must still be a well-formed structure holding the unwritten data */
    int r = mcache_sync(mp);
    H4V_CHECK(r == RET_SUCCESS && g_disk[1][0] == g_model[1][0], "a later sync writes the data");
    H4V_CHECK(count_bkt(mp, 1) == 1, "the page is still cached");
    check_all_pages(mp);
    mcache_close(mp);
    H4V_CANARY("mcache evict fail end");
}

/* allocation failure inside mcache_open (the FAIL_AT-th allocation fails: 0 = the MCACHE itself,
   k = the k-th list element): must return NULL and be memory safe */
#ifndef FAIL_AT
#define FAIL_AT 0
#endif
void
h_mcache_open_oom(void)
{
    g_alloc_fail_at = FAIL_AT;
    g_alloc_n       = 0;
    MCACHE *mp      = mcache_open(NULL, 7, PGSZ, MAXCACHE, NPG, 0);
    g_alloc_fail_at = -1;
    H4V_CHECK(mp == NULL, "mcache_open reports the allocation failure");
    H4V_CANARY("mcache open oom end");
}

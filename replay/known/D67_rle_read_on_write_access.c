/* Build: gcc D67_rle_read_on_write_access.c -I/repo/hdf/src -I/repo/_build -L/repo/_build/bin -lhdf -lz -ljpeg -lm; run with LD_LIBRARY_PATH=/repo/_build/bin. Exit status != 0 = defect present (confirmed on a build of the tree before the repair). */
/* D67: reading from an RLE element through a WRITE access and closing it corrupts the element */
#include "hdf.h"
#include "hcomp.h"
#include <stdio.h>
#include <string.h>
int main(void)
{
    uint8 data[300], back[300], tmp[8];
    model_info m; comp_info c;
    int32 f, aid, i, n;
    for (i = 0; i < 300; i++) data[i] = (uint8)(i < 100 ? i : (i < 250 ? 7 : i)); /* mix, long run, mix */
    f = Hopen("d67.hdf", DFACC_CREATE, 0);
    memset(&m, 0, sizeof m); memset(&c, 0, sizeof c);
    aid = HCcreate(f, 1000, 1, COMP_MODEL_STDIO, &m, COMP_CODE_RLE, &c);
    Hwrite(aid, 300, data); Hendaccess(aid);
    aid = Hstartwrite(f, 1000, 1, 300);      /* access that MAY write */
    n = Hread(aid, 5, tmp);                  /* ... but only reads */
    Hendaccess(aid);
    n = Hgetelement(f, 1000, 1, back);
    for (i = 0; i < 300 && back[i] == data[i]; i++) ;
    printf("Hgetelement -> %d, first differing byte: %d (300 = none)\n", (int)n, (int)i);
    Hclose(f);
    return !(n == 300 && i == 300);
}

/* Verification unit: hdf/src/vg.c -- C07 "record count, record size, field names ... are consistent with that table":
   the inquiry functions VSelts, VSgetinterlace, VSsetinterlace, VSsizeof, VSgetfields, VSfexist, VSgetname, VSgetclass
   and VSinquire (each output equals the corresponding accessor; FAIL if any part fails).
   Environment as in units/vsfld_u.c: HAatom_group / HAatom_object hand out a harness-built vsinstance_t;
   vparse.c:scanattrs is a trusted stub (FAIL or a token vector). */
#include "h4v.h"
#include "h4v_err.h"
#include <string.h>
#include "vg_priv.h"

/* ---------------- ghost environment ---------------- */
vsinstance_t *g_w;         /* the instance HAatom_object hands out */
VDATA        *g_vs;        /* the vdata object (always valid memory; g_w->vs is g_vs or NULL) */
int           g_grp;       /* answer of HAatom_group */
int           g_inst_null; /* HAatom_object answers NULL */
int32         g_scan_ret;  /* answer of scanattrs */
int32         g_scan_ac;   /* token count scanattrs reports */
char         *g_av[5];     /* token vector scanattrs reports */
/* specification-level expectations computed by the harness */
int32 g_exp_ok;      /* every requested name is a field of the vdata */
int32 g_exp_total;   /* sum of the memory sizes of the requested fields (first field of that name) / of all fields */
char  g_exp_str[16]; /* the field names joined by commas */
int32 g_exp_len;     /* its length */
int32 g_len;         /* length of the current name / class */
int32 g_c, g_d;      /* ghost character positions */
char  g_old_c, g_old_d; /* output buffer characters at g_c / g_d on entry */

/* ---------------- stubs (callees outside the unit) ---------------- */
group_t
HAatom_group(atom_t atm)
{
    return (group_t)g_grp;
}
void *
HAatom_object(atom_t atm)
{
    return g_inst_null ? NULL : (void *)g_w;
}
/* vparse.c:scanattrs -- trusted stub: FAIL, or a vector of g_scan_ac NUL-terminated tokens */
int32
scanattrs(const char *attrs, int32 *attrc, char ***attrv)
{
    H4V_CHECK(attrs != NULL, "scanattrs is given a string");
    if (g_scan_ret == FAIL)
        return FAIL;
    *attrc = g_scan_ac;
    *attrv = g_av;
    return SUCCEED;
}

#ifndef NMLEN
#define NMLEN 2 /* field names of this unit have 1..NMLEN characters */
#endif
#ifdef H4V_CBMC
/* libc models: exact for the strings of this unit (field names of at most NMLEN characters; cbmc's own string models make
   the search run out of memory on heap strings) */
static int
h4v_strcmp(const char *a, const char *b)
{
    for (int i = 0; i <= NMLEN; i++) {
        if (a[i] != b[i])
            return a[i] < b[i] ? -1 : 1;
        if (a[i] == 0)
            return 0;
    }
    return 0;
}
static char *
h4v_strcat(char *d, const char *s)
{
    size_t i = 0, j = 0;
    while (d[i] != 0)
        i++;
    while (s[j] != 0) {
        d[i + j] = s[j];
        j++;
    }
    d[i + j] = 0;
    return d;
}
static char *
h4v_strcpy(char *d, const char *s)
{
    size_t j = 0;
    while (s[j] != 0) {
        d[j] = s[j];
        j++;
    }
    d[j] = 0;
    return d;
}
size_t
strnlen(const char *s, size_t maxlen)
{
    size_t i = 0;
    while (i < maxlen && s[i] != 0)
        i++;
    return i;
}
#define strcmp(a, b) h4v_strcmp(a, b)
#define strcat(d, s) h4v_strcat(d, s)
#define strcpy(d, s) h4v_strcpy(d, s)
#endif

#include "vg.c"

/* ---------------- contracts ---------------- */
#define WL      (g_vs->wlist)
#define ENV_WF  (g_w != NULL && g_vs != NULL && (g_w->vs == NULL || g_w->vs == g_vs))
#define KEY_BAD (g_grp != VSIDGROUP || g_inst_null || g_w->vs == NULL)

/* record count */
int32 VSelts(int32 vkey)
    __CPROVER_requires(ENV_WF)
    __CPROVER_assigns()
    __CPROVER_ensures((KEY_BAD || g_vs->otag != DFTAG_VH) ==> __CPROVER_return_value == FAIL)
    __CPROVER_ensures(!(KEY_BAD || g_vs->otag != DFTAG_VH) ==> __CPROVER_return_value == g_vs->nvertices);

int32 VSgetinterlace(int32 vkey)
    __CPROVER_requires(ENV_WF)
    __CPROVER_assigns()
    __CPROVER_ensures(KEY_BAD ==> __CPROVER_return_value == FAIL)
    __CPROVER_ensures(!KEY_BAD ==> __CPROVER_return_value == (int32)g_vs->interlace);

/* the interlace of a vdata can be chosen (FULL_INTERLACE / NO_INTERLACE only) as long as it has no records and is
   attached for writing; a refused request leaves it as it was */
#define SI_REFUSED (KEY_BAD || g_vs->access == 'r' || g_vs->nvertices > 0 || (interlace != FULL_INTERLACE && interlace != NO_INTERLACE))
int VSsetinterlace(int32 vkey, int32 interlace)
    __CPROVER_requires(ENV_WF)
    __CPROVER_assigns(g_vs->interlace)
    __CPROVER_ensures(SI_REFUSED ==> (__CPROVER_return_value == FAIL && g_vs->interlace == __CPROVER_old(g_vs->interlace)))
    __CPROVER_ensures(!SI_REFUSED ==> (__CPROVER_return_value == SUCCEED && (int32)g_vs->interlace == interlace));

/* record size in memory: sum over the named fields (all fields when no list is given) */
#define SZ_LIST_BAD (g_scan_ret == FAIL || g_scan_ac < 1 || g_scan_ac > VSFIELDMAX || !g_exp_ok)
int32 VSsizeof(int32 vkey, char *fields)
    __CPROVER_requires(ENV_WF && WL.n >= 0 && WL.n <= VSFIELDMAX)
    __CPROVER_assigns()
    __CPROVER_ensures((KEY_BAD || (fields != NULL && SZ_LIST_BAD)) ==> __CPROVER_return_value == FAIL)
    __CPROVER_ensures(!(KEY_BAD || (fields != NULL && SZ_LIST_BAD)) ==> __CPROVER_return_value == g_exp_total);

/* all named fields exist: TRUE; else FAIL */
int VSfexist(int32 vkey, char *fields)
    __CPROVER_requires(ENV_WF && WL.n >= 0 && WL.n <= VSFIELDMAX && fields != NULL)
    __CPROVER_assigns()
    __CPROVER_ensures((KEY_BAD || SZ_LIST_BAD) ==> __CPROVER_return_value == FAIL)
    __CPROVER_ensures(!(KEY_BAD || SZ_LIST_BAD) ==> __CPROVER_return_value == TRUE);

/* field names, comma separated, in table order; the result is the number of fields.  The caller provides room for the
   list (here: a block of GF_CAP bytes); nothing beyond the terminating NUL is written, a refused call writes nothing */
#define GF_CAP 12
int32 VSgetfields(int32 vkey, char *fields)
    __CPROVER_requires(ENV_WF && WL.n >= 0 && g_exp_len >= 0 && g_exp_len < GF_CAP)
    __CPROVER_assigns(fields != NULL: __CPROVER_object_whole(fields))
    __CPROVER_ensures((KEY_BAD || fields == NULL || WL.n > VSFIELDMAX) ==> __CPROVER_return_value == FAIL)
    __CPROVER_ensures(!(KEY_BAD || fields == NULL || WL.n > VSFIELDMAX) ==> __CPROVER_return_value == WL.n)
    __CPROVER_ensures((__CPROVER_return_value != FAIL && g_c >= 0 && g_c <= g_exp_len) ==> fields[g_c] == g_exp_str[g_c])
    __CPROVER_ensures((fields != NULL && g_c >= 0 && g_c < GF_CAP && (__CPROVER_return_value == FAIL || g_c > g_exp_len)) ==>
                      fields[g_c] == g_old_c);

/* name and class: copied with their terminating NUL into the caller's block of VSNAMELENMAX+1 bytes */
#ifndef NAME_MAX_LEN
#define NAME_MAX_LEN VSNAMELENMAX /* bounded runs: the current name has at most this many characters */
#endif
#define NM_OUT (NAME_MAX_LEN + 1) /* size of the caller's block for the name */
#define NM_WF(f) (g_len >= 0 && g_len <= NAME_MAX_LEN && g_vs->f[g_len] == 0 && (!(g_d >= 0 && g_d < g_len) || g_vs->f[g_d] != 0))
int32 VSgetname(int32 vkey, char *vsname)
    __CPROVER_requires(ENV_WF && NM_WF(vsname))
    __CPROVER_assigns(vsname != NULL: __CPROVER_object_whole(vsname))
    __CPROVER_ensures((KEY_BAD || vsname == NULL) ==> __CPROVER_return_value == FAIL)
    __CPROVER_ensures(!(KEY_BAD || vsname == NULL) ==> __CPROVER_return_value == SUCCEED)
    __CPROVER_ensures((__CPROVER_return_value == SUCCEED && g_d >= 0 && g_d <= g_len) ==> vsname[g_d] == g_vs->vsname[g_d])
    __CPROVER_ensures((vsname != NULL && g_d >= 0 && g_d < NM_OUT && (__CPROVER_return_value == FAIL || g_d > g_len)) ==>
                      vsname[g_d] == g_old_d);

int32 VSgetclass(int32 vkey, char *vsclass)
    __CPROVER_requires(ENV_WF && NM_WF(vsclass))
    __CPROVER_assigns(vsclass != NULL: __CPROVER_object_whole(vsclass))
    __CPROVER_ensures((KEY_BAD || vsclass == NULL) ==> __CPROVER_return_value == FAIL)
    __CPROVER_ensures(!(KEY_BAD || vsclass == NULL) ==> __CPROVER_return_value == SUCCEED)
    __CPROVER_ensures((__CPROVER_return_value == SUCCEED && g_d >= 0 && g_d <= g_len) ==> vsclass[g_d] == g_vs->vsclass[g_d])
    __CPROVER_ensures((vsclass != NULL && g_d >= 0 && g_d < NM_OUT && (__CPROVER_return_value == FAIL || g_d > g_len)) ==>
                      vsclass[g_d] == g_old_d);

/* VSinquire: every requested output is what the single accessor answers (FAIL included); the result is FAIL exactly if
   the key is not a vdata key or one of the requested parts fails; outputs not requested (NULL) are skipped */
#define GRP_BAD   (g_grp != VSIDGROUP)
#define ELTS_BAD  (KEY_BAD || g_vs->otag != DFTAG_VH)
#define INQ_FAILS (GRP_BAD || ((fields != NULL || interlace != NULL || eltsize != NULL || vsname != NULL) && KEY_BAD) || (nelt != NULL && ELTS_BAD))
int VSinquire(int32 vkey, int32 *nelt, int32 *interlace, char *fields, int32 *eltsize, char *vsname)
    __CPROVER_requires(ENV_WF && NM_WF(vsname) && WL.n >= 0 && WL.n <= VSFIELDMAX && g_exp_len >= 0 && g_exp_len < GF_CAP)
    /* FAIL is not a record count / an interlace */
    __CPROVER_requires(g_vs->nvertices >= 0 && (g_vs->interlace == FULL_INTERLACE || g_vs->interlace == NO_INTERLACE))
    __CPROVER_assigns(nelt != NULL: *nelt; interlace != NULL: *interlace; eltsize != NULL: *eltsize)
    __CPROVER_assigns(fields != NULL: __CPROVER_object_whole(fields); vsname != NULL: __CPROVER_object_whole(vsname))
    __CPROVER_ensures(INQ_FAILS ==> __CPROVER_return_value == FAIL)
    __CPROVER_ensures(!INQ_FAILS ==> __CPROVER_return_value == SUCCEED)
    __CPROVER_ensures((!GRP_BAD && nelt != NULL) ==> *nelt == (ELTS_BAD ? FAIL : g_vs->nvertices))
    __CPROVER_ensures((!GRP_BAD && interlace != NULL) ==> *interlace == (KEY_BAD ? FAIL : (int32)g_vs->interlace))
    __CPROVER_ensures((!GRP_BAD && eltsize != NULL) ==> *eltsize == (KEY_BAD ? FAIL : g_exp_total))
    __CPROVER_ensures((!KEY_BAD && fields != NULL && g_c >= 0 && g_c <= g_exp_len) ==> fields[g_c] == g_exp_str[g_c])
    __CPROVER_ensures((fields != NULL && g_c >= 0 && g_c < GF_CAP && (KEY_BAD || g_c > g_exp_len)) ==> fields[g_c] == g_old_c)
    __CPROVER_ensures((!KEY_BAD && vsname != NULL && g_d >= 0 && g_d <= g_len) ==> vsname[g_d] == g_vs->vsname[g_d])
    __CPROVER_ensures((vsname != NULL && g_d >= 0 && g_d < NM_OUT && (KEY_BAD || g_d > g_len)) ==> vsname[g_d] == g_old_d);

#ifdef H4V_NATIVE
#include "h4v_native_wrap.h"
#endif

/* ---------------- harnesses ---------------- */
H4V_DECL_ND(int);
H4V_DECL_ND(int16);
H4V_DECL_ND(uint16);
H4V_DECL_ND(int32);
H4V_DECL_ND(uint8);

/* key, instance and vdata object; the "bad key" cases are input choices */
static VDATA *
mk_env(void)
{
    static vsinstance_t w_obj;
    static VDATA        vs_obj;
    H4V_ND(int, grp);
    H4V_ND(int, inst_null);
    H4V_ND(int, vs_null);
    H4V_ND(uint16, otag);
    g_grp       = grp;
    g_inst_null = inst_null;
    g_w         = &w_obj;
    g_vs        = &vs_obj;
    memset(&vs_obj, 0, sizeof(VDATA));
    g_vs->otag = otag;
    g_w->vs    = vs_null ? NULL : g_vs;
    H4V_HAVOC(int32, g_c);
    H4V_HAVOC(int32, g_d);
    return g_vs;
}

void
h_VSelts(void)
{
    VDATA *vs = mk_env();
    H4V_ND(int32, nvertices);
    vs->nvertices = nvertices;
    int32 r       = VSelts(7);
    H4V_COVER(r == 5, "VSelts five records");
    H4V_COVER(r == FAIL && !KEY_BAD && nvertices == 5, "VSelts refuses a non-VH object");
    H4V_CANARY("VSelts end");
}

void
h_VSgetinterlace(void)
{
    VDATA *vs = mk_env();
    H4V_ND(int16, il);
    vs->interlace = il;
    int32 r       = VSgetinterlace(7);
    H4V_COVER(r == NO_INTERLACE, "VSgetinterlace NO_INTERLACE");
    H4V_COVER(r == FAIL && il == 0, "VSgetinterlace refuses a bad key");
    H4V_CANARY("VSgetinterlace end");
}

void
h_VSsetinterlace(void)
{
    VDATA *vs = mk_env();
    H4V_ND(int16, il);
    H4V_ND(int32, nvertices);
    H4V_ND(int, access);
    H4V_ND(int32, interlace);
    vs->interlace = il;
    vs->nvertices = nvertices;
    vs->access    = access;
    int r         = VSsetinterlace(7, interlace);
    H4V_COVER(r == SUCCEED && interlace == NO_INTERLACE && il == FULL_INTERLACE, "VSsetinterlace switches to NO_INTERLACE");
    H4V_COVER(r == FAIL && !KEY_BAD && access == 'w' && nvertices == 0, "VSsetinterlace refuses an unknown interlace");
    H4V_COVER(r == FAIL && !KEY_BAD && access == 'w' && nvertices == 1 && interlace == NO_INTERLACE, "VSsetinterlace refuses a vdata with records");
    H4V_CANARY("VSsetinterlace end");
}

/* ---- a field table of n <= 3 fields with arbitrary memory sizes and arbitrary names of 1..NMLEN characters ---- */
#define NF_MAX 3
static uint16 t_esz[NF_MAX], t_isz[NF_MAX]; /* memory sizes; stored sizes (different on purpose) */
static char   t_nm[NF_MAX][NMLEN + 1];
static char  *t_names[NF_MAX];
static char   t_tok[4][NMLEN + 1];
static int
spec_streq(const char *a, const char *b)
{
    for (int i = 0; i <= NMLEN; i++) {
        if (a[i] != b[i])
            return 0;
        if (a[i] == 0)
            return 1;
    }
    return 1;
}
static void
mk_table(VDATA *vs)
{
    H4V_ND(int32, wl_n);
    H4V_ASSUME(wl_n >= 0 && wl_n <= NF_MAX);
    H4V_ND_BUF(uint16, wl_esize, NF_MAX, NF_MAX);
    H4V_ND_BUF(uint8, wl_name, NF_MAX *(NMLEN + 1), NF_MAX *(NMLEN + 1));
    for (int i = 0; i < NF_MAX; i++) {
        t_esz[i] = wl_esize[i];
        t_isz[i] = (uint16)(wl_esize[i] + 1);
        for (int k = 0; k < NMLEN; k++)
            t_nm[i][k] = (char)(wl_name[i * (NMLEN + 1) + k] & 0x7f);
        t_nm[i][NMLEN] = 0;
        H4V_ASSUME(t_nm[i][0] != 0 && t_nm[i][0] != ',');
        H4V_ASSUME(t_nm[i][1] != ',');
        t_names[i] = t_nm[i];
    }
    vs->wlist.n     = wl_n;
    vs->wlist.esize = t_esz;
    vs->wlist.isize = t_isz;
    vs->wlist.name  = t_names;
    /* expectations: all fields */
    g_exp_total = 0;
    g_exp_len   = 0;
    for (int i = 0; i < NF_MAX; i++)
        if (i < wl_n) {
            g_exp_total += t_esz[i];
            if (i > 0)
                g_exp_str[g_exp_len++] = ',';
            for (int k = 0; k < NMLEN; k++)
                if (t_nm[i][k] != 0 && (k == 0 || t_nm[i][k - 1] != 0))
                    g_exp_str[g_exp_len++] = t_nm[i][k];
        }
    g_exp_str[g_exp_len] = 0;
    g_exp_ok             = 1;
}
/* a token vector of ac <= 3 arbitrary names; expectations for the named fields (first field of that name) */
static void
mk_request(VDATA *vs)
{
    H4V_ND(int32, scan_ret);
    H4V_ND(int32, scan_ac);
    H4V_ASSUME(scan_ret == FAIL || scan_ret == SUCCEED);
    H4V_ASSUME(scan_ac >= 0 && (scan_ac <= 3 || scan_ac > VSFIELDMAX));
    H4V_ND_BUF(uint8, tk, 3 * (NMLEN + 1), 3 * (NMLEN + 1));
    g_scan_ret  = scan_ret;
    g_scan_ac   = scan_ac;
    g_exp_total = 0;
    g_exp_ok    = 1;
    for (int i = 0; i < 3; i++) {
        for (int k = 0; k < NMLEN; k++)
            t_tok[i][k] = (char)(tk[i * (NMLEN + 1) + k] & 0x7f);
        t_tok[i][NMLEN] = 0;
        g_av[i]         = t_tok[i];
        if (i < scan_ac) {
            int f = -1;
            for (int j = NF_MAX - 1; j >= 0; j--)
                if (j < vs->wlist.n && spec_streq(t_tok[i], t_nm[j]))
                    f = j;
            if (f < 0)
                g_exp_ok = 0;
            else
                g_exp_total += t_esz[f];
        }
    }
    g_av[3] = NULL;
}

void
h_VSsizeof(void)
{
    VDATA *vs = mk_env();
    mk_table(vs);
    H4V_ND(int, fields_null);
    if (!fields_null)
        mk_request(vs);
    int32 r = VSsizeof(7, fields_null ? NULL : "x");
    H4V_COVER(r != FAIL && fields_null && vs->wlist.n == 3, "VSsizeof all three fields");
    H4V_COVER(r != FAIL && !fields_null && g_scan_ac == 2 && vs->wlist.n == 3 && r == t_esz[2] + t_esz[0] && t_esz[0] != t_esz[1], "VSsizeof two named fields");
    H4V_COVER(r == FAIL && !KEY_BAD && !fields_null && g_scan_ret == SUCCEED && g_scan_ac == 1, "VSsizeof refuses an unknown name");
    H4V_CANARY("VSsizeof end");
}

void
h_VSfexist(void)
{
    VDATA *vs = mk_env();
    mk_table(vs);
    mk_request(vs);
    int r = VSfexist(7, "x");
    H4V_COVER(r == TRUE && g_scan_ac == 3, "VSfexist three fields exist");
    H4V_COVER(r == FAIL && !KEY_BAD && g_scan_ret == SUCCEED && g_scan_ac == 2, "VSfexist misses a field");
    H4V_CANARY("VSfexist end");
}

void
h_VSgetfields(void)
{
    VDATA *vs = mk_env();
    mk_table(vs);
    H4V_ND(int, fields_null);
    H4V_ND_BUF(uint8, out, GF_CAP, GF_CAP);
    g_old_c = (g_c >= 0 && g_c < GF_CAP) ? (char)out[g_c] : 0;
    int32 r = VSgetfields(7, fields_null ? NULL : (char *)out);
    H4V_COVER(r == 3 && g_exp_len == 3 * NMLEN + 2, "VSgetfields three long names");
    H4V_COVER(r == 0, "VSgetfields no field");
    H4V_COVER(r == FAIL && !fields_null, "VSgetfields refuses a bad key");
    H4V_CANARY("VSgetfields end");
}

/* ---- current name / class: any NUL-terminated content of the 65-byte field (length g_len) ---- */
/* the caller's block of NM_OUT bytes with arbitrary contents (named inputs) */
#define MK_OUT(out)                                                                                  \
    H4V_ND_BUF(uint8, out##_c, NM_OUT - 1, NM_OUT - 1);                                                     \
    H4V_ND(uint8, out##_last);                                                                       \
    uint8 *out = malloc(NM_OUT);                                                                     \
    H4V_ASSUME(out != NULL);                                                                         \
    for (int i = 0; i < NM_OUT - 1; i++)                                                             \
        out[i] = out##_c[i];                                                                         \
    out[NM_OUT - 1] = out##_last
static void
mk_curname(char *field)
{
    H4V_ND(int32, curlen);
    H4V_ASSUME(curlen >= 0 && curlen <= NAME_MAX_LEN);
    H4V_ND_BUF(uint8, cur, NAME_MAX_LEN, NAME_MAX_LEN);
    for (int i = 0; i < NAME_MAX_LEN; i++)
        field[i] = (char)(cur[i] ? cur[i] : 1); /* no NUL before curlen ... */
    field[curlen] = 0;                    /* ... the terminator (whatever follows is arbitrary and must not matter) */
    g_len         = curlen;
}

void
h_VSgetname(void)
{
    VDATA *vs = mk_env();
    mk_curname(vs->vsname);
    H4V_ND(int, out_null);
    MK_OUT(out);
    g_old_d = (g_d >= 0 && g_d < NM_OUT) ? (char)out[g_d] : 0;
    int32 r = VSgetname(7, out_null ? NULL : (char *)out);
    H4V_COVER(r == SUCCEED && g_len == NAME_MAX_LEN, "VSgetname longest name");
    H4V_COVER(r == SUCCEED && g_len == 0, "VSgetname empty name");
    H4V_COVER(r == FAIL && !out_null, "VSgetname refuses a bad key");
    H4V_CANARY("VSgetname end");
}

void
h_VSgetclass(void)
{
    VDATA *vs = mk_env();
    mk_curname(vs->vsclass);
    H4V_ND(int, out_null);
    MK_OUT(out);
    g_old_d = (g_d >= 0 && g_d < NM_OUT) ? (char)out[g_d] : 0;
    int32 r = VSgetclass(7, out_null ? NULL : (char *)out);
    H4V_COVER(r == SUCCEED && g_len == NAME_MAX_LEN, "VSgetclass longest name");
    H4V_COVER(r == SUCCEED && g_len == 0, "VSgetclass empty name");
    H4V_COVER(r == FAIL && !out_null, "VSgetclass refuses a bad key");
    H4V_CANARY("VSgetclass end");
}

/* ---- VSinquire: table of <= 3 fields with DISTINCT names (the size is asked for by name: see VSsizeof), the parser
   stub answers the vdata's own field names for the list VSgetfields has just produced (trusted) ---- */
void
h_VSinquire(void)
{
    VDATA *vs = mk_env();
    mk_table(vs);
#ifdef INQ_NOFIELDS
    H4V_ASSUME(vs->wlist.n == 0);
#else
    H4V_ASSUME(vs->wlist.n >= 1);
#endif
    for (int i = 0; i < NF_MAX; i++)
        for (int j = 0; j < NF_MAX; j++)
            if (i < j)
                H4V_ASSUME(!spec_streq(t_nm[i], t_nm[j]));
    g_scan_ret = vs->wlist.n >= 1 ? SUCCEED : FAIL; /* scanattrs("") fails */
    g_scan_ac  = vs->wlist.n;
    for (int i = 0; i < NF_MAX; i++)
        g_av[i] = t_nm[i];
    g_av[3] = NULL;
    mk_curname(vs->vsname);
    H4V_ND(int32, nvertices);
    H4V_ND(int16, il);
    H4V_ASSUME(nvertices >= 0 && (il == FULL_INTERLACE || il == NO_INTERLACE));
    vs->nvertices = nvertices;
    vs->interlace = il;
    H4V_ND(int, want);
    H4V_ND(int32, o_nelt);
    H4V_ND(int32, o_il);
    H4V_ND(int32, o_sz);
    H4V_ND_BUF(uint8, o_fields, GF_CAP, GF_CAP);
    MK_OUT(o_name);
    g_old_c = (g_c >= 0 && g_c < GF_CAP) ? (char)o_fields[g_c] : 0;
    g_old_d = (g_d >= 0 && g_d < NM_OUT) ? (char)o_name[g_d] : 0;
    int r = VSinquire(7, (want & 1) ? &o_nelt : NULL, (want & 2) ? &o_il : NULL, (want & 4) ? (char *)o_fields : NULL,
                      (want & 8) ? &o_sz : NULL, (want & 16) ? (char *)o_name : NULL);
#ifndef INQ_NOFIELDS
    H4V_COVER(r == SUCCEED && (want & 31) == 31 && vs->wlist.n == 3, "VSinquire everything of a three-field vdata");
    H4V_COVER(r == SUCCEED && (want & 31) == 8 && vs->wlist.n == 2, "VSinquire the record size only");
    H4V_COVER(r == SUCCEED && (want & 31) == 30 && !KEY_BAD && vs->otag != DFTAG_VH, "VSinquire without the count on a non-VH object");
#else
    H4V_COVER((want & 31) == 31 && !KEY_BAD && vs->otag == DFTAG_VH, "VSinquire everything of a vdata without fields");
#endif
    H4V_COVER(r == FAIL && (want & 31) == 31 && !KEY_BAD, "VSinquire fails on a non-VH object");
    H4V_CANARY("VSinquire end");
}

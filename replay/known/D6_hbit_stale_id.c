/* D6 (C13): Hbitwrite/Hbitread keep a function-static (id -> record) cache that Hendbitaccess does not invalidate: a call with
   the released bit id uses the freed record instead of failing.
   Build: gcc -g D6_hbit_stale_id.c -I/repo/hdf/src -I/repo/_build -L/repo/_build/bin -lhdf -Wl,-rpath,/repo/_build/bin
   Before the fix: "Hbitwrite on the released id -> 8" (FAIL; under valgrind: invalid read of freed memory).  After: -1, PASS. */
#include "hdf.h"
#include <stdio.h>
int main(void)
{
    int32 fid = Hopen("d6.hdf", DFACC_CREATE, 0);
    int32 bid = Hstartbitwrite(fid, 700, 1, 16);
    Hbitwrite(bid, 8, 0xAB);
    Hendbitaccess(bid, 0);
    int r = Hbitwrite(bid, 8, 0xCD); /* the id was released */
    printf("Hbitwrite on the released id -> %d (FAIL = -1 expected)\n", r);
    Hclose(fid);
    remove("d6.hdf");
    printf(r == FAIL ? "PASS\n" : "FAIL\n");
    return r != FAIL;
}

"""C14: read-only access -- gates of the mutating entry points (one small harness per gate)"""
from .core import ob, prop

C14STUBS = ["C14 mutation-primitive stubs (stubs/c14_common.h): HP_write, HPgetdiskblock, HTPcreate/HTPupdate/HTPdelete, "
            "Hdupdd/Hdeldd/HDreuse_tagref, Hsetlength CHECK 'never reached on a read-only file'; Hstartaccess(DFACC_WRITE)/"
            "Hstartwrite/Hputelement/Hwrite/Htrunc return FAIL on a read-only file (proved-dependency: obligations Hstartaccess, Hwrite, Htrunc)",
            "HEpush/HEreport/HEPclear (stubs/h4v_err.h)"]

# ----------------------------------------------------------------------------- hfiledd.c (DESIGN section 9, D15)
DD = dict(unit="c14_hfiledd_u.c", file="hdf/src/hfiledd.c", objbits=10, cex_unwind=6,
          trusted=C14STUBS + ["tbbtdfind/DAget_elem/DAdel_elem/bv_get/bv_set stubs (units/c14_hfiledd_u.c): finite map finding one DD or none"])
ob("c14_Hdeldd", "C14", entry="h_c14_Hdeldd", enforce="Hdeldd", **DD)
ob("c14_HDreuse_tagref", "C14", entry="h_c14_HDreuse_tagref", enforce="HDreuse_tagref", **DD)
ob("c14_Hdupdd", "C14", entry="h_c14_Hdupdd", enforce="Hdupdd", mode="bounded", bound="one DD block of 2 descriptors (HTIfind_dd / HTInew_dd_block loops unwound)",
   unwind=4, **DD)

prop("C14",
     residual="'no byte changes' for whole SD/GR/AN programs and histories; write-open/close without edits leaves content identical "
              "(Hclose/HIupdate_version path); HXPwrite/HLPwrite/HCPwrite/HMCPwrite under the Hstartaccess invariant (reached only "
              "through Hwrite, which refuses access records without DFACC_WRITE); VSfdefine/VSsetfields/VSsetattr/Vsetattr, AN and "
              "GR creators, SDsetattr/SDsetdimname/SDwritedata; a second Hopen of the same path with write access (refcount path)",
     assumptions=["A-C14-INV: no access record of a read-only file carries DFACC_WRITE (established by Hstartaccess, obligation Hstartaccess)",
                  "A-C14-IDS: file/access/vgroup/vdata handles are fixed pairwise distinct representatives (handles are opaque: the code "
                  "under test passes them on, the atom stubs compare them for equality only)",
                  "A-C14-RDONLY: a read-only file record has access == DFACC_READ (what Hopen stores for DFACC_READ)",
                  "A-C14-ATTACH-R: groups / vdatas of a read-only file are attached 'r' (follows from the Vattach gate; for vdatas it "
                  "presupposes the VSattach gate that is missing today)",
                  "A-TBBT: tbbt.c trees are trusted finite maps"])

# ----------------------------------------------------------------------------- hblocks.c
# unwind=1: every loop of these functions lies BEHIND the gate; the unwinding assertions (always on) prove that no loop
# is entered on a read-only file, so the result holds for all inputs (mode "proved", no input-size cap).
HL = dict(unit="c14_hblocks_u.c", file="hdf/src/hblocks.c", objbits=10, cex_unwind=4, unwind=1, trusted=C14STUBS)
ob("c14_HLcreate", "C14", entry="h_c14_HLcreate", enforce="HLcreate", **HL)
ob("c14_HLconvert", "C14", entry="h_c14_HLconvert", enforce="HLconvert", **HL)
ob("c14_HLIstaccess_w", "C14", entry="h_c14_HLIstaccess", enforce="HLIstaccess", **HL)
ob("c14_HLsetblockinfo", "C14", entry="h_c14_HLsetblockinfo", enforce="HLsetblockinfo", **HL)

# ----------------------------------------------------------------------------- vgp.c
VGTR = C14STUBS + ["tbbtdfind/tbbtdins/tbbtrem stubs (units/c14_vgp_u.c): file id -> vfile_t, ref -> vgroup instance (A-TBBT)",
                   "HAatom_object/HAatom_group one-entry maps (units/c14_vgp_u.c)"]
# unwind=4: as for hblocks.c (loops lie behind the gates); 4 lets libc strlen of the 2-character test name finish when a gate is missing
VG14 = dict(unit="c14_vgp_u.c", file="hdf/src/vgp.c", objbits=10, cex_unwind=6, unwind=4, trusted=VGTR)
ob("c14_Vattach_w", "C14", entry="h_c14_Vattach_w", enforce="Vattach", **VG14)
ob("c14_Vdelete", "C14", entry="h_c14_Vdelete", enforce="Vdelete", **VG14)
ob("c14_Vsetname", "C14", entry="h_c14_Vsetname", enforce="Vsetname", **VG14)
ob("c14_Vsetclass", "C14", entry="h_c14_Vsetclass", enforce="Vsetclass", **VG14)
ob("c14_Vinsert", "C14", entry="h_c14_Vinsert", enforce="Vinsert", **VG14)
ob("c14_Vaddtagref", "C14", entry="h_c14_Vaddtagref", enforce="Vaddtagref", **VG14)
ob("c14_Vdeletetagref", "C14", entry="h_c14_Vdeletetagref", enforce="Vdeletetagref", **VG14)
ob("c14_Vdetach", "C14", entry="h_c14_Vdetach", enforce="Vdetach", mode="bounded",
   bound="group of <= 1 member, no name/class/attributes (vpackvg loops unwound)", **VG14)

# ----------------------------------------------------------------------------- vio.c
VSTR = C14STUBS + ["V-layer environment (stubs/c14_vsenv.h): tbbtdfind/tbbtdins/tbbtrem, Get_vfile, HAatom_* one-entry maps (A-TBBT)"]
VS14 = dict(objbits=10, cex_unwind=6, unwind=4, trusted=VSTR)
VIO = dict(unit="c14_vio_u.c", file="hdf/src/vio.c", **VS14)
ob("c14_VSattach_w", "C14", entry="h_c14_VSattach_w", enforce="VSattach", **VIO)
ob("c14_VSdelete", "C14", entry="h_c14_VSdelete", enforce="VSdelete", **VIO)
ob("c14_VSappendable", "C14", entry="h_c14_VSappendable", enforce="VSappendable", **VIO)

# ----------------------------------------------------------------------------- vg.c
VGC = dict(unit="c14_vg_u.c", file="hdf/src/vg.c", **VS14)
ob("c14_VSsetname", "C14", entry="h_c14_VSsetname", enforce="VSsetname", **VGC)
ob("c14_VSsetclass", "C14", entry="h_c14_VSsetclass", enforce="VSsetclass", **VGC)
ob("c14_VSsetinterlace", "C14", entry="h_c14_VSsetinterlace", enforce="VSsetinterlace", **VGC)

# ----------------------------------------------------------------------------- vrw.c, hextelt.c, hcomp.c, hchunks.c
ob("c14_VSwrite", "C14", entry="h_c14_VSwrite", enforce="VSwrite", unit="c14_vrw_u.c", file="hdf/src/vrw.c", **VS14)
GATE = dict(objbits=10, cex_unwind=4, unwind=1, trusted=C14STUBS)
ob("c14_HXcreate", "C14", entry="h_c14_HXcreate", enforce="HXcreate", unit="c14_hextelt_u.c", file="hdf/src/hextelt.c", **GATE)
ob("c14_HCcreate", "C14", entry="h_c14_HCcreate", enforce="HCcreate", unit="c14_hcomp_u.c", file="hdf/src/hcomp.c", **GATE)
ob("c14_HMCcreate", "C14", entry="h_c14_HMCcreate", enforce="HMCcreate", unit="c14_hchunks_u.c", file="hdf/src/hchunks.c", **GATE)

# ----------------------------------------------------------------------------- mfsd.c (netCDF layer: handle->flags & NC_RDWR)
ob("c14_SDcreate", "C14", entry="h_c14_SDcreate", enforce="SDcreate", unit="c14_mfsd_u.c", file="mfhdf/src/mfsd.c", mode="bounded",
   bound="rank == 0 (scalar dataset: the dimension loop is not entered)", objbits=10, unwind=2, cex_unwind=4,
   trusted=["NC_check_id/NC_new_var/NC_new_array/NC_incr_array/NC_var_shape/hdf_unmap_type stubs (units/c14_mfsd_u.c)",
            "HEpush/HEreport/HEPclear (stubs/h4v_err.h)"])

/* Verification unit: hdf/src/cnbit.c (C05) -- HCPcnbit_seek (random access: loop-free) and the partition of reads
 * into calls of differing sizes (HCIcnbit_decode, bounded).
 *  seek: only whole values; the bit stream is positioned at value_index * mask_len; the expansion buffer is invalidated;
 *        an unaligned target or a failing bit seek changes nothing.
 *  decode partition: "the n-bit coder returns exactly the documented projection of each value for any partition into
 *        whole-value transfers": with nt_size 1 and the whole byte kept (mask_off 7, mask_len 8) the projection is
 *        the identity, so reading L1 values and then L2 values must deliver the stream bytes 0..L1+L2-1 in order.
 */
#include "h4v.h"
#include "h4v_err.h"
#include <string.h>

typedef long long h4v_i64;
#define NB_STREAM 8
struct { int32 aid; int seek_fail; uint8 stream[NB_STREAM]; } CSC;
struct { int nbs; int32 bs_byte; int bs_bit; int rd; int rd_beyond; int failed; } CS;
#define CS_ALL __CPROVER_object_whole(&CS)

int
Hbitseek(int32 bitid, int32 byte_offset, int bit_offset)
{
    H4V_CHECK(bitid == CSC.aid, "the coder seeks its own bit id");
    H4V_CHECK(byte_offset >= 0 && bit_offset >= 0 && bit_offset <= 7, "a valid bit position");
    CS.nbs++;
    if (CSC.seek_fail) {
        CS.failed = 1;
        return FAIL;
    }
    CS.bs_byte = byte_offset;
    CS.bs_bit  = bit_offset;
    return SUCCEED;
}
/* decode harness: byte-wide fields only; delivers the stream bytes in order */
int
Hbitread(int32 bitid, int count, uint32 *data)
{
    H4V_CHECK(bitid == CSC.aid && count == 8, "decode harness: whole bytes from the coder's own bit id");
    if (CS.rd < 0 || CS.rd >= NB_STREAM) {
        CS.rd_beyond = 1;
        return FAIL;
    }
    *data = CSC.stream[CS.rd++];
    return count;
}
int
Hbitwrite(int32 bitid, int count, uint32 data)
{
    return FAIL;
}
int32
Hstartbitread(int32 file_id, uint16 tag, uint16 ref)
{
    return CSC.aid;
}
int32
Hstartbitwrite(int32 file_id, uint16 tag, uint16 ref, int32 length)
{
    return CSC.aid;
}
int
Hbitappendable(int32 bitid)
{
    return SUCCEED;
}
int32
Hendbitaccess(int32 bitfile_id, int flushbit)
{
    return SUCCEED;
}
/* hkit.c: fill dest with num_items copies of the item (the decode harness uses 1-byte items only) */
void *
HDmemfill(void *dest, const void *src, uint32 item_size, uint32 num_items)
{
    H4V_CHECK(item_size == 1, "decode harness: 1-byte items");
    for (uint32 i = 0; i < num_items; i++)
        ((uint8 *)dest)[i] = *(const uint8 *)src;
    return dest;
}

#include "cnbit.c"

#define NF(info, f) ((info)->cinfo.coder_info.nbit_info.f)
#define AR_INFO(ar) ((compinfo_t *)(ar)->special_info)
#ifndef NB_NT
#define NB_NT 1
#endif
/* bit position of value number v */
#define NB_BITPOS(ar, offset) (((h4v_i64)(offset) / NB_NT) * NF(AR_INFO(ar), mask_len))

int32 HCPcnbit_seek(accrec_t *access_rec, int32 offset, int origin)
    __CPROVER_requires(access_rec != NULL && access_rec->special_info != NULL && AR_INFO(access_rec)->aid == CSC.aid)
    __CPROVER_requires(NF(AR_INFO(access_rec), nt_size) == NB_NT && NF(AR_INFO(access_rec), mask_len) >= 1 &&
                       NF(AR_INFO(access_rec), mask_len) <= 8 * NB_NT)
    /* A-NBIT-BITS: the bit offset of the target fits int32 (the code computes it in int32) */
    __CPROVER_requires(offset >= 0 && NB_BITPOS(access_rec, offset) <= 0x7fffffff && CS.nbs >= 0 && CS.nbs < 1000)
    __CPROVER_assigns(NF(AR_INFO(access_rec), buf_pos), NF(AR_INFO(access_rec), nt_pos), NF(AR_INFO(access_rec), offset), CS_ALL)
    __CPROVER_ensures(__CPROVER_return_value == SUCCEED || __CPROVER_return_value == FAIL)
    /* only whole values */
    __CPROVER_ensures(offset % NB_NT != 0 ==> (__CPROVER_return_value == FAIL && CS.nbs == __CPROVER_old(CS.nbs)))
    __CPROVER_ensures(offset % NB_NT == 0 ==> (CS.nbs == __CPROVER_old(CS.nbs) + 1 && __CPROVER_return_value == (CSC.seek_fail ? FAIL : SUCCEED)))
    /* the bit stream is positioned at value_index * mask_len */
    __CPROVER_ensures(__CPROVER_return_value == SUCCEED ==> 8 * (h4v_i64)CS.bs_byte + CS.bs_bit == NB_BITPOS(access_rec, offset))
    /* the expansion buffer is invalidated, the coder's own position is the target */
    __CPROVER_ensures(__CPROVER_return_value == SUCCEED ==>
                      (NF(AR_INFO(access_rec), buf_pos) == NBIT_BUF_SIZE && NF(AR_INFO(access_rec), nt_pos) == 0 &&
                       NF(AR_INFO(access_rec), offset) == offset))
    /* a rejected / failed seek changes nothing */
    __CPROVER_ensures(__CPROVER_return_value == FAIL ==>
                      (NF(AR_INFO(access_rec), buf_pos) == __CPROVER_old(NF(AR_INFO(access_rec), buf_pos)) &&
                       NF(AR_INFO(access_rec), nt_pos) == __CPROVER_old(NF(AR_INFO(access_rec), nt_pos)) &&
                       NF(AR_INFO(access_rec), offset) == __CPROVER_old(NF(AR_INFO(access_rec), offset))));

#ifdef H4V_NATIVE
#include "h4v_native_wrap.h"
#endif

H4V_DECL_ND(int32);
H4V_DECL_ND(int);
H4V_DECL_ND(uint8);

static accrec_t *
mk_env(void)
{
    H4V_ND(int32, g_aid_0);
    H4V_ND(int, g_seek_fail_0);
    H4V_ND(int, g_nbs_0);
    CSC.aid       = g_aid_0;
    CSC.seek_fail = g_seek_fail_0 != 0;
    CS.nbs        = g_nbs_0;
    CS.failed     = 0;
    CS.rd         = 0;
    CS.rd_beyond  = 0;
    compinfo_t *info = malloc(sizeof(compinfo_t));
    accrec_t   *ar   = malloc(sizeof(accrec_t));
    H4V_ASSUME(info != NULL && ar != NULL);
#ifdef H4V_NATIVE
    memset(info, 0, sizeof(compinfo_t));
#endif
    info->aid        = CSC.aid;
    ar->special_info = info;
    return ar;
}

void
h_cnbit_seek(void)
{
    accrec_t *ar = mk_env();
    H4V_ND(int, st_mask_len);
    H4V_ND(int, st_buf_pos);
    H4V_ND(int, st_nt_pos);
    H4V_ND(int32, st_offset);
    H4V_ND(int32, offset);
    H4V_ND(int, origin);
    NF(AR_INFO(ar), nt_size)  = NB_NT;
    NF(AR_INFO(ar), mask_len) = st_mask_len;
    NF(AR_INFO(ar), buf_pos)  = st_buf_pos;
    NF(AR_INFO(ar), nt_pos)   = st_nt_pos;
    NF(AR_INFO(ar), offset)   = st_offset;
    int32 r = HCPcnbit_seek(ar, offset, origin);
    H4V_COVER(r == SUCCEED && offset == st_offset, "seek to the current position");
    H4V_COVER(r == SUCCEED && CS.bs_bit != 0, "unaligned bit target");
#if NB_NT > 1
    H4V_COVER(r == FAIL && !CSC.seek_fail, "target inside a value rejected");
#endif
    H4V_COVER(r == FAIL && CSC.seek_fail, "bit seek failure");
    H4V_CANARY("cnbit_seek end");
}

/* reads partitioned into two calls of L1 and L2 one-byte values (identity projection) */
#ifndef NB_L
#define NB_L 3
#endif
void
h_cnbit_decode_partition(void)
{
    accrec_t   *ar   = mk_env();
    compinfo_t *info = AR_INFO(ar);
    H4V_ND(uint8, s0);
    H4V_ND(uint8, s1);
    H4V_ND(uint8, s2);
    H4V_ND(uint8, s3);
    H4V_ND(uint8, s4);
    H4V_ND(uint8, s5);
    CSC.stream[0] = s0;
    CSC.stream[1] = s1;
    CSC.stream[2] = s2;
    CSC.stream[3] = s3;
    CSC.stream[4] = s4;
    CSC.stream[5] = s5;
    CSC.stream[6] = CSC.stream[7] = 0;
    /* the state HCIcnbit_init leaves for nt_size 1, mask_off 7, mask_len 8, no fill, no sign extension */
    NF(info, nt_size)             = 1;
    NF(info, mask_off)            = 7;
    NF(info, mask_len)            = 8;
    NF(info, fill_one)            = 0;
    NF(info, sign_ext)            = 0;
    NF(info, buf_pos)             = NBIT_BUF_SIZE;
    NF(info, nt_pos)              = 0;
    NF(info, offset)              = 0;
    NF(info, mask_buf)[0]         = 0;
    NF(info, mask_info)[0].offset = 7;
    NF(info, mask_info)[0].length = 8;
    NF(info, mask_info)[0].mask   = 0xff;
#ifdef NB_L1 /* one run per (L1, L2): with symbolic lengths the 6 KB coder-state object makes the run intractable (> 600 s) */
    int32 l1 = NB_L1, l2 = NB_L2;
#else
    H4V_ND(int32, l1);
    H4V_ND(int32, l2);
#endif
    H4V_ASSUME(l1 >= 1 && l1 <= NB_L && l2 >= 1 && l2 <= NB_L);
    uint8 out[2 * NB_L];
    memset(out, 0xee, sizeof(out));
    int32 r1 = HCIcnbit_decode(info, l1, out);
    H4V_CHECK(r1 == SUCCEED, "first read");
    int32 r2 = HCIcnbit_decode(info, l2, out + l1);
    H4V_CHECK(r2 == SUCCEED, "second read");
    H4V_CHECK(NF(info, offset) == l1 + l2, "offset accounting over both reads");
    H4V_ND(int32, chk_i);
    if (chk_i >= 0 && chk_i < l1 + l2)
        H4V_CHECK(out[chk_i] == CSC.stream[chk_i], "partitioned reads deliver the stream values in order");
    H4V_CHECK(CS.rd == l1 + l2, "exactly the values delivered were taken from the bit stream");
#ifndef NB_L1
    H4V_COVER(l1 < l2, "second read larger than the first");
    H4V_COVER(l1 > l2, "second read smaller than the first");
#endif
    H4V_CANARY("cnbit_decode_partition end");
}

"""C12 (and C20 where stated): dynarray.c and the in-memory directory side of hfiledd.c"""
from .core import ob

# ----------------------------------------------------------------------------- dynarray.c
DA = dict(unit="dynarray_u.c", file="hdf/src/dynarray.c", cex_unwind=22, trusted=["HEclear/HEpush (error stack)"])
ob("da_get", "C12", entry="h_da_get", enforce="DAget_elem", **DA)
ob("da_set_inplace", "C12", entry="h_da_set", enforce="DAset_elem", defines=["DA_PATH=0"], **DA)
ob("da_set_first", "C12", entry="h_da_set", enforce="DAset_elem", defines=["DA_PATH=1"], **DA)
ob("da_set_grow", "C12", entry="h_da_set", enforce="DAset_elem", defines=["DA_PATH=2"], loops=True, nloops=1, loopcls="P", **DA)
ob("da_set_grow_b", "C12", entry="h_da_set", enforce="DAset_elem", defines=["DA_PATH=2", "DA_INCR=8", "DA_MAXELEM=63", "DA_MAXN=64"], loops=True, nloops=1, loopcls="P",
   mode="bounded", bound="incr_mult 8, table <= 64 slots", **DA)
ob("da_set_null", "C12", entry="h_da_set", enforce="DAset_elem", defines=["DA_NULLCASE"], **DA)
ob("da_del", "C12", entry="h_da_del", enforce="DAdel_elem", **DA)
ob("da_del_null", "C12", entry="h_da_del", enforce="DAdel_elem", defines=["DA_NULLCASE"], **DA)
ob("da_size", "C12", entry="h_da_size", enforce="DAsize_array", **DA)
ob("da_create", "C12", entry="h_da_create", enforce="DAcreate_array", **DA)

/* Verification unit: mfhdf/src/array.c NC_arrayfill (C03: "otherwise the type's default" fill value).
   NC_arrayfill(low, len, type) makes every element of the len-byte region the default fill of the type
   (FILL_BYTE, FILL_CHAR, FILL_SHORT, FILL_LONG, FILL_FLOAT, FILL_DOUBLE; 0xff bytes for any other type) and
   writes nothing behind len.  One obligation per type (ARR_T constant); the element loops are unwound and
   memset lengths kept small (cbmc limit on this image): at most ARR_N elements -> mode "bounded".
   Callers (NC_new_array, NC_re_array, hdf_xdr_NCvdata, NCcoordck, NC_fill_buffer) always pass len = count * szof:
   the requires says so (a len that is not a multiple of the element size makes the loop write past len). */
#include "h4v.h"
#include "h4v_err.h"
#include "array.c"

#ifndef ARR_T
#define ARR_T NC_SHORT
#endif
#ifndef ARR_N
#define ARR_N 6
#endif
#define ARR_SZ (ARR_T == NC_SHORT ? 2 : ARR_T == NC_LONG ? 4 : ARR_T == NC_FLOAT ? 4 : ARR_T == NC_DOUBLE ? 8 : 1)
#define ARR_PAD 3

unsigned g_k;   /* ghost element index */
unsigned g_o;   /* ghost byte index of the destination object */
unsigned g_cap; /* bytes of the destination object from low on */

void H4_NC_arrayfill(void *low, size_t len, nc_type type)
    __CPROVER_requires(low != NULL && type == ARR_T)
    __CPROVER_requires(len <= ARR_N * ARR_SZ && len % ARR_SZ == 0)
    __CPROVER_requires(g_cap >= ARR_N * ARR_SZ && g_o < g_cap && g_k < ARR_N)
    __CPROVER_assigns(len > 0: __CPROVER_object_upto((char *)low, len))
    __CPROVER_ensures((g_k < len / ARR_SZ && ARR_T == NC_BYTE) ==> ((char *)low)[g_k] == FILL_BYTE)
    __CPROVER_ensures((g_k < len / ARR_SZ && ARR_T == NC_CHAR) ==> ((char *)low)[g_k] == FILL_CHAR)
    __CPROVER_ensures((g_k < len / ARR_SZ && ARR_T == NC_SHORT) ==> ((short *)low)[ARR_T == NC_SHORT ? g_k : 0] == FILL_SHORT)
    __CPROVER_ensures((g_k < len / ARR_SZ && ARR_T == NC_LONG) ==> ((int32_t *)low)[ARR_T == NC_LONG ? g_k : 0] == -2147483647)
    __CPROVER_ensures((g_k < len / ARR_SZ && ARR_T == NC_FLOAT) ==> ((float *)low)[ARR_T == NC_FLOAT ? g_k : 0] == FILL_FLOAT)
    __CPROVER_ensures((g_k < len / ARR_SZ && ARR_T == NC_DOUBLE) ==> ((double *)low)[ARR_T == NC_DOUBLE ? g_k : 0] == FILL_DOUBLE)
    __CPROVER_ensures((g_k < len && ARR_T != NC_BYTE && ARR_T != NC_CHAR && ARR_T != NC_SHORT && ARR_T != NC_LONG &&
                       ARR_T != NC_FLOAT && ARR_T != NC_DOUBLE) ==> ((unsigned char *)low)[ARR_SZ == 1 ? g_k : 0] == 0xff)
    /* nothing behind len is written */
    __CPROVER_ensures(g_o >= len ==> ((char *)low)[g_o] == __CPROVER_old(((char *)low)[g_o]));

#ifdef H4V_NATIVE
#include "h4v_native_wrap.h"
#endif

H4V_DECL_ND(unsigned);
H4V_DECL_ND(uint8);

void
h_NC_arrayfill(void)
{
    H4V_HAVOC(unsigned, g_k);
    H4V_HAVOC(unsigned, g_o);
    /* 8-byte aligned destination (malloc), arbitrary contents in proof mode, one named byte value otherwise */
    char *buf = malloc(ARR_N * ARR_SZ + ARR_PAD);
    H4V_ASSUME(buf != NULL);
#if !defined(H4V_CBMC) || defined(H4V_CEX)
    H4V_ND(uint8, dinit);
    memset(buf, dinit, ARR_N * ARR_SZ + ARR_PAD);
#endif
    H4V_ND(unsigned, count);
    H4V_ASSUME(count <= ARR_N);
    g_cap = ARR_N * ARR_SZ + ARR_PAD;
    NC_arrayfill(buf, (size_t)count * ARR_SZ, ARR_T);
    H4V_COVER(count == 0, "empty region");
    H4V_COVER(count == ARR_N, "largest region");
    H4V_CANARY("NC_arrayfill end");
}

"""C05: lossless coders and bit I/O (crle.c, cnbit.c, hbitio.c)"""
from .core import ob, prop

# ----------------------------------------------------------------------------- crle.c
RLE = dict(unit="crle_u.c", file="hdf/src/crle.c", cex_unwind=14)
ob("crle_encode", "C05", entry="h_crle_encode", enforce="HCIcrle_encode", loops=True, nloops=1, loopcls="P", **RLE)
ob("crle_term", "C05", entry="h_crle_term", enforce="HCIcrle_term", **RLE)
ob("crle_decode", "C05", entry="h_crle_decode", enforce="HCIcrle_decode", loops=True, nloops=1, loopcls="P", **RLE)
ob("crle_init", "C05", entry="h_crle_init", enforce="HCIcrle_init", **RLE)
ob("crle_roundtrip6", "C05", entry="h_crle_roundtrip", mode="bounded",
   bound="stream <= 6 bytes, full alphabet, any split into <= 3 encode calls + term and <= 3 decode calls",
   unwind=8, defines=["RT_N=6"], **RLE)

prop("C05",
     residual="skipping-Huffman, deflate (zlib external), HCPcrle_seek restart, hcomp.c dispatch/header, reopen",
     assumptions=[])

/* Verification unit: hdf/src/vio.c (C07/C02: the vdata header written by vpackvs is read back
   field by field by the static vunpackvs).  hdfalloc.c is included for the REAL HIstrncpy,
   dfconv.c for the REAL DFKNTsize. */
#include "h4v.h"
#include "h4v_err.h"
#include <string.h>
#include "vg_priv.h"

/* only reached for headers of version <= 2 (outside the domain of the round trip) */
int16
map_from_old_types(int type)
{
    return (int16)type;
}

#include "hdfalloc.c"
#include "dfconv.c"
#include "vio.c"

#ifdef H4V_NATIVE
#include "h4v_native_wrap.h"
#endif

H4V_DECL_ND(int);
H4V_DECL_ND(int16);
H4V_DECL_ND(uint16);
H4V_DECL_ND(int32);
H4V_DECL_ND(uint32);
H4V_DECL_ND(uint8);

#define NF   3 /* bound: fields */
#define NML  3 /* bound: characters in a field name / vdata name / class */
#define NAT  2 /* bound: attributes */
#define PBUF 100
/* with -DLSEED=k every name is a fixed text per run (length (k + position) mod 4): all offsets
   inside the packed header become constants, which keeps cbmc's memory in check; every numeric
   field stays symbolic.  Without LSEED names are symbolic (not tractable here: out of memory). */
#ifdef LSEED
#define FIXLEN(ch, c, seed)                                                                          \
    do {                                                                                             \
        if ((c) < ((seed) % (NML + 1)))                                                              \
            (ch) = (char)('A' + (seed) + (c)); /* concrete text: lets cbmc fold strlen/strcpy */     \
        else                                                                                         \
            (ch) = 0;                                                                                \
    } while (0)
#else
#define FIXLEN(ch, c, seed) ((void)0)
#define LSEED 0
#endif

static int
str_eq(const char *a, const char *b)
{
    for (int i = 0; i <= NML; i++) {
        if (a[i] != b[i])
            return 0;
        if (a[i] == 0)
            return 1;
    }
    return 1;
}
static int
str_len(const char *a)
{
    int i = 0;
    while (i < NML && a[i] != 0)
        i++;
    return i;
}

/* vunpackvs(vpackvs(vs)) == vs, field by field; *size == bytes written */
void
h_vpack_roundtrip(void)
{
    static const VDATA zero_vdata;
    static VDATA s_vs, s_vs2;
    VDATA *vs = &s_vs, *vs2 = &s_vs2;
    *vs  = zero_vdata;
    *vs2 = zero_vdata; /* VSIget_vdata_node hands out zeroed nodes */
    H4V_ND(int16, interlace);
    H4V_ND(int32, nvertices);
    H4V_ND(uint16, ivsize);
#ifdef NFIX /* one run per field count keeps every allocation size constant */
    int n = NFIX;
#else
    H4V_ND(int, n);
#endif
    H4V_ND(uint16, extag);
    H4V_ND(uint16, exref);
    H4V_ND(int16, version);
    H4V_ND(int16, more);
    H4V_ND(uint32, flags);
#ifdef NATFIX
    int nattrs = NATFIX;
#else
    H4V_ND(int, nattrs);
#endif
    H4V_ND(int, g_i); /* ghost field */
    H4V_ND(int, g_a); /* ghost attribute */
    H4V_ND(int, g_b); /* ghost byte of the pack buffer beyond the packed size */
    H4V_ASSUME(n >= 0 && n <= NF && nattrs >= 0 && nattrs <= NAT);
    /* representation invariant kept by VSattach (version 3, flags 0) and VSsetattr (version 4, flag set) */
    H4V_ASSUME(version == VSET_VERSION || version == VSET_NEW_VERSION);
    H4V_ASSUME((flags != 0) == (version == VSET_NEW_VERSION));
    vs->interlace    = interlace;
    vs->nvertices    = nvertices;
    vs->wlist.ivsize = ivsize;
    vs->wlist.n      = n;
    vs->extag        = extag;
    vs->exref        = exref;
    vs->version      = version;
    vs->more         = more;
    vs->flags        = flags;
    vs->nattrs       = nattrs;
    H4V_ND_BUF(uint16, f_type, n, NF);
    H4V_ND_BUF(uint16, f_isize, n, NF);
    H4V_ND_BUF(uint16, f_off, n, NF);
    H4V_ND_BUF(uint16, f_order, n, NF);
    H4V_ND_BUF(uint8, f_name, n *(NML + 1), NF *(NML + 1));
    H4V_ND_BUF(uint8, vnm, 2 * (NML + 1), 2 * (NML + 1));
    H4V_ND_BUF(uint16, at, 4 * nattrs, 4 * NAT);
    if (n > 0) {
        vs->wlist.bptr  = malloc(sizeof(uint16) * (size_t)(n * 5));
        vs->wlist.name  = malloc(sizeof(char *) * (size_t)n);
        H4V_ASSUME(vs->wlist.bptr != NULL && vs->wlist.name != NULL);
        vs->wlist.type  = (int16 *)vs->wlist.bptr;
        vs->wlist.off   = (uint16 *)vs->wlist.type + n;
        vs->wlist.isize = vs->wlist.off + n;
        vs->wlist.order = vs->wlist.isize + n;
        vs->wlist.esize = vs->wlist.order + n;
    }
    for (int i = 0; i < NF; i++)
        if (i < n) {
            H4V_ASSUME(f_type[i] <= 32767);
            vs->wlist.type[i]  = (int16)f_type[i];
            vs->wlist.isize[i] = f_isize[i];
            vs->wlist.off[i]   = f_off[i];
            vs->wlist.order[i] = f_order[i];
            vs->wlist.esize[i] = 0;
            for (int c = 0; c < NML; c++) {
                f_name[i * (NML + 1) + c] &= 0x7f;
                FIXLEN(f_name[i * (NML + 1) + c], c, LSEED + i);
            }
            f_name[i * (NML + 1) + NML] = 0;
            vs->wlist.name[i]           = (char *)&f_name[i * (NML + 1)];
        }
    for (int c = 0; c < NML; c++) {
        vs->vsname[c]  = (char)(vnm[c] & 0x7f);
        vs->vsclass[c] = (char)(vnm[NML + 1 + c] & 0x7f);
        FIXLEN(vs->vsname[c], c, LSEED + 1);
        FIXLEN(vs->vsclass[c], c, LSEED + 2);
    }
    vs->vsname[NML]  = 0;
    vs->vsclass[NML] = 0;
    if (nattrs > 0) {
        vs->alist = malloc((size_t)nattrs * sizeof(vs_attr_t));
        H4V_ASSUME(vs->alist != NULL);
    }
    for (int a = 0; a < NAT; a++)
        if (a < nattrs) {
            vs->alist[a].findex = (int32)(((uint32)at[4 * a] << 16) | at[4 * a + 1]);
            vs->alist[a].atag   = at[4 * a + 2];
            vs->alist[a].aref   = at[4 * a + 3];
        }

    /* expected size from the documented layout (vio.c header comment + vattr.c) */
    int32 expect = 2 + 4 + 2 + 2;
    for (int i = 0; i < NF; i++)
        if (i < n)
            expect += 2 + 2 + 2 + 2 + 2 + str_len(vs->wlist.name[i]);
    expect += 2 + str_len(vs->vsname) + 2 + str_len(vs->vsclass);
    expect += 2 + 2 + 2 + 2;
    if (flags != 0) {
        expect += 4;
        if (flags & VS_ATTR_SET)
            expect += 4 + 8 * nattrs;
    }
    expect += 2 + 2 + 1;

    static uint8 s_buf[PBUF]; /* static + --max-field-sensitivity-array-size: constant offsets fold */
    uint8 *buf = s_buf;
    H4V_ASSUME(g_b >= 0 && g_b < PBUF);
    uint8 sentinel = buf[g_b];
    int32 size     = -1;
    int   r        = vpackvs(vs, buf, &size);
    H4V_CHECK(r == SUCCEED, "vpackvs succeeds");
    H4V_CHECK(size == expect, "vpackvs: *size is the size of the documented layout");
    H4V_CHECK(size <= PBUF && (g_b < size || buf[g_b] == sentinel), "vpackvs writes nothing beyond *size bytes");
    H4V_CHECK(vs->wlist.n == n && vs->interlace == interlace && vs->nvertices == nvertices && vs->version == version &&
                  vs->flags == flags,
              "vpackvs leaves the vdata unchanged");

    int r2 = vunpackvs(vs2, buf, size);
    /* malloc may fail inside vunpackvs: only then may it refuse */
    H4V_COVER(r2 == SUCCEED && n == NF && nattrs == NAT && (flags & VS_ATTR_SET), "round trip with fields and attributes");
    H4V_COVER(r2 == SUCCEED && n == 0, "round trip of a vdata without fields");
    if (r2 == SUCCEED) {
        H4V_CHECK(vs2->interlace == interlace && vs2->nvertices == nvertices && vs2->wlist.ivsize == ivsize &&
                      vs2->wlist.n == n,
                  "round trip: interlace, nvertices, ivsize, nfields");
        H4V_CHECK(vs2->extag == extag && vs2->exref == exref && vs2->version == version && vs2->more == more,
                  "round trip: extag/exref/version/more");
        H4V_CHECK(str_eq(vs2->vsname, vs->vsname) && str_eq(vs2->vsclass, vs->vsclass), "round trip: vsname, vsclass");
        H4V_CHECK(vs2->flags == flags, "round trip: flags");
        if (g_i >= 0 && g_i < n) {
            H4V_CHECK(vs2->wlist.type[g_i] == vs->wlist.type[g_i] && vs2->wlist.isize[g_i] == vs->wlist.isize[g_i] &&
                          vs2->wlist.off[g_i] == vs->wlist.off[g_i] && vs2->wlist.order[g_i] == vs->wlist.order[g_i],
                      "round trip: type/isize/off/order of the ghost field");
            H4V_CHECK(str_eq(vs2->wlist.name[g_i], vs->wlist.name[g_i]), "round trip: name of the ghost field");
            H4V_CHECK(vs2->wlist.esize[g_i] ==
                          (uint16)(vs->wlist.order[g_i] * DFKNTsize((int32)vs->wlist.type[g_i] | (int32)DFNT_NATIVE)),
                      "unpack: esize = order * native size");
        }
        if (flags & VS_ATTR_SET) {
            H4V_CHECK(vs2->nattrs == nattrs, "round trip: nattrs");
            if (g_a >= 0 && g_a < nattrs)
                H4V_CHECK(vs2->alist[g_a].findex == vs->alist[g_a].findex && vs2->alist[g_a].atag == vs->alist[g_a].atag &&
                              vs2->alist[g_a].aref == vs->alist[g_a].aref,
                          "round trip: ghost attribute");
        }
    }
    H4V_CANARY("vpack round trip end");
}

"""C12/C02: directory functions of hfiledd.c over an ABSTRACTED bit-vector/dynarray/tag tree (cheap, no input-size bound)."""
from .core import ob

L = dict(unit="hfiledd_light_u.c", file="hdf/src/hfiledd.c", objbits=10, cex_unwind=6,
         trusted=["bv_* / DA* stub bodies: abstraction of one tag's ref set at one ghost ref (their contracts: bitvect_u.c, dynarray_u.c)",
                  "tbbtdfind/tbbtdins one-key finite map (A-TBBT)", "HP-level ghost disk (stubs/h4v_hp.h)", "HAatom_object/HAregister_atom stubs"])
ob("Htagnewref_abs", ["C12", "C20"], entry="h_Htagnewref", enforce="Htagnewref", **L)
ob("HTIregister_tag_ref_abs", ["C12"], entry="h_HTIregister_tag_ref", enforce="HTIregister_tag_ref", **L)
ob("HTIunregister_tag_ref_abs", ["C12"], entry="h_HTIunregister_tag_ref", enforce="HTIunregister_tag_ref", **L)
ob("HTPcreate_abs", ["C12", "C02"], entry="h_HTPcreate", enforce="HTPcreate", replace=["HTIfind_dd"], **L)

/* Verification unit: hdf/src/vattr.c (C10: Vdata / field attributes) -- VSsetattr on an attribute that already exists.
   C10: "re-setting an existing name either replaces its value ... or, where the interface forbids changing type or count, fails
   leaving the old value": the attribute's OWN stored type and count (its Vdata's single field) decide, nothing else does --
     same type and count  -> the new values are written into the attribute's Vdata (one record), SUCCEED, no new attribute
     other type or count  -> FAIL, nothing written, attribute list unchanged
   Harness level (no contract), ONE existing attribute of the addressed field, the V layer as logging stubs.  Every loop unwound
   (the list has one entry): bounded. */
#include "h4v.h"
#include "h4v_err.h"
#include <string.h>
#include "hdf_priv.h"
#include "vg_priv.h"

#define VA_VSID  0x50001 /* the parent Vdata's id */
#define VA_ATTID 0x50002 /* the id VSattach hands out for the attribute Vdata */
static vsinstance_t *g_par_inst, *g_att_inst;
static int32         g_file;
static uint16        g_att_ref;
static int           g_n_attach, g_n_detach, g_n_write, g_n_store, g_v_failed;
static const void   *g_wr_values;
static int32         g_wr_nelt;
typedef unsigned char h4v_u8;
H4V_DECL_ND(int);
H4V_DECL_ND(int32);
H4V_DECL_ND(h4v_u8);

group_t
HAatom_group(atom_t atm)
{
    return (atm == VA_VSID || atm == VA_ATTID) ? VSIDGROUP : BADGROUP;
}
void *
HAatom_object(atom_t atm)
{
    if (atm == VA_VSID)
        return g_par_inst;
    if (atm == VA_ATTID && g_n_attach > g_n_detach)
        return g_att_inst;
    return NULL;
}
int32
VSattach(HFILEID f, int32 vsid, const char *accesstype)
{
    H4V_CHECK(f == g_file && vsid == (int32)g_att_ref && accesstype != NULL && accesstype[0] == 'w',
              "VSsetattr attaches the attribute's own Vdata, for writing");
    H4V_ND(int, vsattach_fails);
    if (vsattach_fails) {
        g_v_failed = 1;
        return FAIL;
    }
    g_n_attach++;
    return VA_ATTID;
}
int32
VSdetach(int32 vkey)
{
    H4V_CHECK(vkey == VA_ATTID && g_n_attach > g_n_detach, "VSdetach of the attached attribute Vdata");
    g_n_detach++;
    H4V_ND(int, vsdetach_fails);
    if (vsdetach_fails) {
        g_v_failed = 1;
        return FAIL;
    }
    return SUCCEED;
}
int32
VSwrite(int32 vkey, const uint8 buf[], int32 nelt, int32 interlace)
{
    (void)interlace;
    H4V_CHECK(vkey == VA_ATTID && g_n_attach > g_n_detach, "VSwrite into the attached attribute Vdata");
    g_n_write++;
    g_wr_values = buf;
    g_wr_nelt   = nelt;
    H4V_ND(int, vswrite_fails);
    if (vswrite_fails) {
        g_v_failed = 1;
        return FAIL;
    }
    return nelt;
}
int32
VHstoredatam(HFILEID f, const char *field, const uint8 *buf, int32 n, int32 datatype, const char *vsname, const char *vsclass,
             int32 order)
{
    (void)f; (void)field; (void)buf; (void)n; (void)datatype; (void)vsname; (void)vsclass; (void)order;
    g_n_store++;
    H4V_ND(int32, stored_ref);
    if (stored_ref == FAIL)
        g_v_failed = 1;
    return stored_ref;
}
/* names of one character (vsname is a 65-byte array: cbmc's strcmp does not fold on it) */
#ifdef H4V_CBMC
int
strcmp(const char *a, const char *b)
{
    if (a[0] != b[0])
        return (unsigned char)a[0] < (unsigned char)b[0] ? -1 : 1;
    if (a[0] == 0)
        return 0;
    return (unsigned char)a[1] < (unsigned char)b[1] ? -1 : ((unsigned char)a[1] > (unsigned char)b[1] ? 1 : 0);
}
int
strncmp(const char *a, const char *b, size_t n)
{
    (void)n; /* n == VSNAMELENMAX >= 2: the one-character names end before it */
    return strcmp(a, b);
}
#endif

#include "vattr.c"

#ifdef H4V_NATIVE
#include "h4v_native_wrap.h"
#endif

void
h_VSsetattr_existing(void)
{
    static vsinstance_t par_i, att_i;
    static VDATA        par, att;
    static vs_attr_t    alist[1];
    static int16        par_type[1], att_type[1];
    static uint16       par_order[1], att_order[1];
    H4V_HAVOC(int32, g_file);
    H4V_ND(int32, findex);
    H4V_ND(int32, a_findex);
    H4V_ND(int, par_n);
    H4V_ND(int, p_type);
    H4V_ND(int, p_order);
    H4V_ND(int, a_type);
    H4V_ND(int, a_order);
    H4V_ND(int, a_n);
    H4V_ND(int, a_ref);
    H4V_ND(h4v_u8, a_name);
    H4V_ND(h4v_u8, q_name);
    H4V_ND(int32, datatype);
    H4V_ND(int32, count);
    H4V_ASSUME(par_n == 1 && p_order >= 1 && p_order <= 65535 && a_order >= 1 && a_order <= 65535 && a_ref >= 1 && a_ref <= 65535);
    H4V_ASSUME(a_name != 0 && q_name != 0);
    H4V_ASSUME(p_type >= -32768 && p_type <= 32767 && a_type >= -32768 && a_type <= 32767 && a_n >= 0 && a_n <= 2);
    memset(&par, 0, sizeof par);
    memset(&att, 0, sizeof att);
    par_type[0]     = (int16)p_type;
    par_order[0]    = (uint16)p_order;
    att_type[0]     = (int16)a_type;
    att_order[0]    = (uint16)a_order;
    par.access      = 'w';
    par.f           = g_file;
    par.wlist.n     = par_n;
    par.wlist.type  = par_type;
    par.wlist.order = par_order;
    par.nattrs      = 1;
    par.alist       = alist;
    alist[0].findex = a_findex;
    alist[0].atag   = DFTAG_VH;
    alist[0].aref   = (uint16)a_ref;
    att.wlist.n     = a_n;
    att.wlist.type  = att_type;
    att.wlist.order = att_order;
    att.vsname[0]   = (char)a_name;
    att.vsname[1]   = 0;
    par_i.vs        = &par;
    att_i.vs        = &att;
    g_par_inst      = &par_i;
    g_att_inst      = &att_i;
    g_att_ref       = (uint16)a_ref;
    g_n_attach = g_n_detach = g_n_write = g_n_store = g_v_failed = 0;
    g_wr_values = NULL;
    g_wr_nelt   = 0;
    /* the request addresses the field the existing attribute belongs to, by the attribute's name */
    H4V_ASSUME((findex == 0 || findex == _HDF_VDATA) && a_findex == findex && q_name == a_name);
    char name[2];
    name[0] = (char)q_name;
    name[1] = 0;
    unsigned char vals[4] = {1, 2, 3, 4};
    int32 r = VSsetattr(VA_VSID, findex, name, datatype, count, vals);
    int   same = (a_n == 1 && datatype == (int32)att_type[0] && count == (int32)att_order[0]);
    H4V_CHECK(r == SUCCEED || r == FAIL, "SUCCEED or FAIL");
    H4V_CHECK(!(same && !g_v_failed) || r == SUCCEED, "C10 VSsetattr: a re-set with the attribute's own type and count is accepted");
    H4V_CHECK(!(same && r == SUCCEED) || (g_n_write == 1 && g_wr_values == (const void *)vals && g_wr_nelt == 1 && g_n_store == 0 && par.nattrs == 1),
              "C10 VSsetattr: the new values replace the old ones (one record written, no second attribute)");
    H4V_CHECK(same || (r == FAIL && g_n_write == 0 && g_n_store == 0 && par.nattrs == 1),
              "C10 VSsetattr: another type or count is refused and nothing is written");
    H4V_CHECK(g_n_attach == g_n_detach, "VSsetattr detaches the attribute Vdata again");
    H4V_COVER(r == SUCCEED && same && p_order != a_order, "setattr: multi-valued attribute of a single-valued field re-set");
    H4V_COVER(r == FAIL && !same && !g_v_failed, "setattr: changed count refused");
    H4V_COVER(r == FAIL && g_v_failed, "setattr: V layer failure");
    H4V_CANARY("VSsetattr_existing end");
}

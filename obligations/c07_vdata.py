"""C07: Vdata tables (vsfld.c, vg.c, vrw.c, vio.c); several obligations also serve C20 / C02"""
from .core import ob, prop

# ----------------------------------------------------------------------------- vsfld.c / vg.c
VSF = dict(unit="vsfld_u.c", file="hdf/src/vsfld.c",
           trusted=["scanattrs (vparse.c): FAIL or a vector of >=1 NUL-terminated tokens",
                    "HAatom_group/HAatom_object: group id / harness-built vsinstance_t or NULL"])
ob("VSfdefine", ["C07", "C20"], entry="h_VSfdefine", enforce="VSfdefine", loops=True, nloops=1, loopcls="A",
   overflow=True, defines=["H4V_ABS_STR", "NUSYM_CAP=11", "NMLEN=1"], cex_unwind=24, timeout=900,
   **dict(VSF, trusted=VSF["trusted"] + ["strcmp abstracted to an arbitrary result, strdup to NULL-or-fresh (proof mode only)"]))
NM = dict(VSF, file="hdf/src/vg.c", mode="bounded", unwind=131, cex_unwind=131,
          bound="new name length <= 128 = 2 x VSNAMELENMAX (libc string loops unwound)")
ob("VSsetname", ["C07", "C20"], entry="h_VSsetname", enforce="VSsetname", **NM)          # ~100 s
ob("VSsetclass", ["C07", "C20"], entry="h_VSsetclass", enforce="VSsetclass", tier="thorough", **NM)
ob("VSsetfields_new", ["C07", "C20"], entry="h_VSsetfields_new", enforce="VSsetfields", mode="bounded",
   bound="<= 4 requested fields (or > VSFIELDMAX), <= 3 user symbols, names <= 2 characters", overflow=True,
   defines=["H4V_SMALL_STR", "NMLEN=2"], unwind=12, cex_unwind=14, timeout=900,
   **dict(VSF, trusted=VSF["trusted"] + ["strcmp/strdup replaced by unrolled models that are exact for names <= 2 characters"]))

# ----------------------------------------------------------------------------- vrw.c
VRW = dict(unit="vrw_u.c", file="hdf/src/vrw.c",
           trusted=["Hseek: logs (aid, offset, origin), answers SUCCEED/FAIL", "HAatom_group/HAatom_object: harness-built instance or NULL"])
ob("VSseek", ["C07", "C20"], entry="h_VSseek", enforce="VSseek", overflow=True, **VRW)

# ----------------------------------------------------------------------------- vio.c
ob("vpack_roundtrip", ["C07", "C02"], unit="vio_u.c", file="hdf/src/vio.c", entry="h_vpack_roundtrip", enforce=None,
   mode="bounded", bound="<= 3 fields, names/vsname/vsclass <= 3 characters, <= 2 attributes, version in {3,4}",
   unwind=14, cex_unwind=14, trusted=["map_from_old_types (vconv.c): identity, only reached for version <= 2 (outside the domain)"])

"""C07: Vdata tables (vsfld.c, vg.c, vrw.c, vio.c); several obligations also serve C20 / C02"""
from .core import ob, prop

# ----------------------------------------------------------------------------- vsfld.c / vg.c
VSF = dict(unit="vsfld_u.c", file="hdf/src/vsfld.c",
           trusted=["scanattrs (vparse.c): FAIL or a vector of >=1 NUL-terminated tokens",
                    "HAatom_group/HAatom_object: group id / harness-built vsinstance_t or NULL"])
ob("VSfdefine", ["C07", "C20"], entry="h_VSfdefine", enforce="VSfdefine", loops=True, nloops=1, loopcls="A",
   overflow=True, defines=["H4V_ABS_STR", "NUSYM_CAP=11", "NMLEN=1"], cex_unwind=24, timeout=900,
   **dict(VSF, trusted=VSF["trusted"] + ["strcmp abstracted to an arbitrary result, strdup to NULL-or-fresh (proof mode only)"]))
NM = dict(VSF, file="hdf/src/vg.c", mode="bounded")
for f in ("VSsetname", "VSsetclass"):
    ob(f, ["C07", "C20"], entry="h_" + f, enforce=f, defines=["NLEN_MAX=72"], unwind=75, cex_unwind=75,
       bound="new name length <= 72 (limit VSNAMELENMAX = 64; libc string loops unwound)", **NM)
    ob(f + "_2x", ["C07", "C20"], entry="h_" + f, enforce=f, unwind=131, cex_unwind=131, tier="thorough",
       bound="new name length <= 128 = 2 x VSNAMELENMAX (libc string loops unwound)", **NM)

/* Verification unit: hdiff driver glue -- mfhdf/hdiff/hdiff_sds.c (diff_sds), hdiff_gr.c (diff_gr), hdiff.c (match),
 * (C19: "hdiff reports no difference exactly when two files hold equal comparable content ... flags
 * any change to a single data value ... or added/removed object within the classes it compares")
 *
 * array_diff (hdiff_array.c, under contract in hdiff_array_u.c / hdiff_float_u.c) is a stub here: an exact reference
 * count for int8 data over the tot_cnt elements it is given, plus a log of what it was asked to compare.  The
 * library readers (SDreaddata, GRreadimage) deliver the contents of two ghost datasets.
 *   h_sds_slabs   diff_sds on a dataset too large for one buffer (3 rows of 1 MiB int8): the result is the SUM of
 *                 the per-hyperslab counts -- a difference in any slab makes the result > 0
 *   h_gr_comps    diff_gr on an image with ncomps components: all dims[0]*dims[1]*ncomps values are compared
 *   h_match_only  match(): an object present in only one of the two files is a difference
 */
#include "h4v.h"
#include <stdio.h>
#include <stdlib.h>
#include <string.h>
#include "hdf.h"
#include "mfhdf.h"

H4V_DECL_ND(int);
H4V_DECL_ND(int32);
H4V_DECL_ND(uint32);
typedef signed char dr_i8;
H4V_DECL_ND(dr_i8);

static int
dr_print(void)
{
    return 0;
}
#define printf(...) dr_print()

/* ---------------- ghost state ---------------- */
#define DR_MAXSLAB 4
int    g_ad_calls;                /* array_diff calls */
uint32 g_ad_cnt[DR_MAXSLAB];      /* tot_cnt of call k */
uint32 g_ad_ret[DR_MAXSLAB];      /* what call k returned */
uint32 g_ad_total;                /* elements handed to array_diff over all calls */
int    g_slab_mode;               /* 1: array_diff returns harness-chosen per-slab counts (buffers too big to model) */
uint32 g_slab_diffs[DR_MAXSLAB];  /*    those counts */
/* two ghost images for diff_gr (pixel interlace, int8 components) */
#define DR_MAXVAL 12
dr_i8 g_img1[DR_MAXVAL], g_img2[DR_MAXVAL];
int32 g_dim0, g_dim1, g_ncomps;   /* shape of both */
/* SDS shape for diff_sds */
int32 g_sds_dims[2];
int   g_lib_fail;

uint32
array_diff(void *buf1, void *buf2, uint32 tot_cnt, const char *name1, const char *name2, int rank, int32 *dims,
           int32 type, float32 err_limit, float32 err_rel, uint32 max_err_cnt, int32 statistics, void *fill1, void *fill2)
{
    uint32 n = 0;
    if (g_slab_mode) {
        n = (g_ad_calls >= 0 && g_ad_calls < DR_MAXSLAB) ? g_slab_diffs[g_ad_calls] : 0;
        if (n > tot_cnt)
            n = tot_cnt;
    }
    else {
        /* reference count for int8 */
        for (uint32 k = 0; k < DR_MAXVAL; k++)
            if (k < tot_cnt && ((dr_i8 *)buf1)[k] != ((dr_i8 *)buf2)[k])
                n++;
    }
    if (g_ad_calls >= 0 && g_ad_calls < DR_MAXSLAB) {
        g_ad_cnt[g_ad_calls] = tot_cnt;
        g_ad_ret[g_ad_calls] = n;
    }
    if (g_ad_calls < 1000)
        g_ad_calls++;
    g_ad_total += tot_cnt;
    return n;
}

static int
dr_fails(void)
{
    if (!g_lib_fail)
        return 0;
    H4V_ND(int, lib_fails);
    return lib_fails != 0;
}

/* SD stubs (two files: sd ids 1 and 2; sds ids 11 and 12) */
int32
SDreftoindex(int32 fid, int32 ref)
{
    return 0;
}
int32
SDselect(int32 fid, int32 idx)
{
    return 10 + fid;
}
intn
SDgetinfo(int32 sdsid, char *name, int32 *rank, int32 *dimsizes, int32 *nt, int32 *nattr)
{
    if (dr_fails())
        return FAIL;
    name[0]     = 's';
    name[1]     = 0;
    *rank       = 2;
    dimsizes[0] = g_sds_dims[0];
    dimsizes[1] = g_sds_dims[1];
    *nt         = DFNT_INT8;
    *nattr      = 0;
    return SUCCEED;
}
intn
SDcheckempty(int32 sdsid, intn *emptySDS)
{
    *emptySDS = 0;
    return dr_fails() ? FAIL : SUCCEED;
}
int
DFKNTsize(int32 nt)
{
    return 1;
}
intn
SDgetfillvalue(int32 sdsid, void *val)
{
    return FAIL; /* no fill value set */
}
int   g_rd_calls;
intn
SDreaddata(int32 sdsid, int32 *start, int32 *stride, int32 *end, void *data)
{
    if (g_rd_calls < 1000)
        g_rd_calls++;
    return dr_fails() ? FAIL : SUCCEED;
}
intn
SDendaccess(int32 id)
{
    return SUCCEED;
}

/* GR stubs (ri ids 21 / 22) */
int32
GRreftoindex(int32 grid, uint16 ref)
{
    return 0;
}
int32
GRselect(int32 grid, int32 idx)
{
    return 20 + grid;
}
intn
GRgetiminfo(int32 riid, char *name, int32 *ncomp, int32 *nt, int32 *il, int32 dimsizes[2], int32 *nattr)
{
    if (dr_fails())
        return FAIL;
    name[0]     = 'g';
    name[1]     = 0;
    *ncomp      = g_ncomps;
    *nt         = DFNT_INT8;
    *il         = 0;
    dimsizes[0] = g_dim0;
    dimsizes[1] = g_dim1;
    *nattr      = 0;
    return SUCCEED;
}
intn
GRreqimageil(int32 riid, intn il)
{
    return dr_fails() ? FAIL : SUCCEED;
}
intn
GRreadimage(int32 riid, int32 start[2], int32 stride[2], int32 count[2], void *data)
{
    /* the whole image: count[0]*count[1] pixels of g_ncomps int8 components */
    int32        n   = count[0] * count[1] * g_ncomps;
    const dr_i8 *src = riid == 21 ? g_img1 : g_img2;
    H4V_CHECK(start[0] == 0 && start[1] == 0 && count[0] == g_dim0 && count[1] == g_dim1, "diff_gr reads the whole image");
    if (dr_fails())
        return FAIL;
    for (int k = 0; k < DR_MAXVAL; k++)
        if (k < n)
            ((dr_i8 *)data)[k] = src[k];
    return SUCCEED;
}
intn
GRendaccess(int32 riid)
{
    return SUCCEED;
}

/* per-object comparisons reached from match(): diff() is real; diff_vs is outside; diff_sds/diff_gr are the real ones
   above but match's harness uses tags of a class hdiff compares (DFTAG_VH -> diff_vs stub) */
int g_vs_calls;

/* exact small models (names of at most 1 character): cbmc's strcmp/strcpy on 256-byte name arrays do not fold */
#ifdef H4V_CBMC
int
strcmp(const char *a, const char *b)
{
    if (a[0] != b[0])
        return (unsigned char)a[0] < (unsigned char)b[0] ? -1 : 1;
    if (a[0] == 0)
        return 0;
    if (a[1] != b[1])
        return (unsigned char)a[1] < (unsigned char)b[1] ? -1 : 1;
    return 0;
}
char *
strcpy(char *d, const char *s)
{
    d[0] = s[0];
    if (s[0] != 0) {
        d[1] = s[1];
        if (s[1] != 0)
            d[2] = 0;
    }
    return d;
}
#endif

#include "hdiff_sds.c"
#include "hdiff_gr.c"
#include "hdiff.c"
/* hdiff_mattbl.c is NOT part of this unit: the 20-entry table of 280-byte records written at a symbolic index did not
   fit cbmc (8 min, out of memory).  Stub bodies: the same table with capacity DR_TBL and no growth. */
#define DR_TBL 4
void
match_table_init(match_table_t **tbl)
{
    match_table_t *table = (match_table_t *)malloc(sizeof(match_table_t));
    H4V_ASSUME(table != NULL);
    table->size  = DR_TBL;
    table->nobjs = 0;
    table->objs  = (match_info_t *)malloc(DR_TBL * sizeof(match_info_t));
    H4V_ASSUME(table->objs != NULL);
    *tbl = table;
}
void
match_table_add(match_table_t *table, int *flags, char *path, int32 tag1, int32 ref1, int32 tag2, int32 ref2)
{
    uint32 i = table->nobjs;
    H4V_CHECK(i < DR_TBL, "match table model: capacity");
    if (i >= DR_TBL)
        return;
    table->nobjs++;
    table->objs[i].tag1 = tag1;
    table->objs[i].ref1 = ref1;
    table->objs[i].tag2 = tag2;
    table->objs[i].ref2 = ref2;
    strcpy(table->objs[i].obj_name, path);
    table->objs[i].flags[0] = flags[0];
    table->objs[i].flags[1] = flags[1];
}
void
match_table_free(match_table_t *table)
{
    free(table->objs);
    free(table);
}
#undef printf

uint32
diff_vs(int32 file1_id, int32 file2_id, int32 ref1, int32 ref2, diff_opt_t *opt)
{
    if (g_vs_calls < 1000)
        g_vs_calls++;
    return 0; /* the common objects are equal */
}

/* ---------------- harnesses ---------------- */
static diff_opt_t g_o;
static void
dr_opts(void)
{
    memset(&g_o, 0, sizeof g_o);
    g_o.sd = g_o.gr = g_o.vd = 1;
    g_o.sa = g_o.ga = 0;
    g_o.verbose     = 0;
    g_o.max_err_cnt = MAX_DIFF;
    g_o.err_limit   = 0.0F;
    g_o.err_rel     = 0.0F;
    g_o.statistics  = 0;
    g_o.nlvars      = 0;
    g_ad_calls = g_rd_calls = g_vs_calls = 0;
    g_ad_total = 0;
    for (int k = 0; k < DR_MAXSLAB; k++)
        g_ad_cnt[k] = g_ad_ret[k] = 0;
}

/* diff_sds, hyperslab path: an int8 dataset of nrows x 1 MiB (nrows 2..3) does not fit H4TOOLS_MALLOCSIZE; it is compared
   row by row.  C19: a difference in ANY slab is a difference of the datasets: the result is the sum of the slab
   counts (no attributes compared). */
void
h_sds_slabs(void)
{
    dr_opts();
    g_slab_mode = 1;
    g_lib_fail  = 0;
    H4V_ND(int32, nrows);
    H4V_ASSUME(nrows >= 2 && nrows <= 3);
    g_sds_dims[0] = nrows;
    g_sds_dims[1] = 1024 * 1024;
    uint32 sum    = 0;
    for (int k = 0; k < DR_MAXSLAB; k++) {
        H4V_ND(uint32, slab_diffs);
        H4V_ASSUME(slab_diffs <= 1024u * 1024u);
        g_slab_diffs[k] = slab_diffs;
        if (k < nrows)
            sum += slab_diffs;
    }
    uint32 r = diff_sds(1, 2, 5, 5, &g_o);
    H4V_CHECK(g_o.err_stat != 0 || (g_ad_calls == nrows && g_ad_total == (uint32)nrows * 1024u * 1024u), "C19 diff_sds compares every element of the dataset (one slab per row)");
    H4V_CHECK(!(g_slab_diffs[0] > 0 && g_o.err_stat == 0) || r > 0, "C19 a difference in the first hyperslab is a difference of the datasets");
    H4V_CHECK(g_o.err_stat != 0 || r == sum, "C19 diff_sds returns the sum of the per-hyperslab difference counts");
    H4V_COVER(g_ad_calls == 3 && g_o.err_stat == 0, "diff_sds three slabs");
    H4V_CANARY("sds_slabs end");
}

/* diff_gr: images of dim0 x dim1 pixels with ncomps int8 components (at most 12 values): every value takes part in
   the comparison */
void
h_gr_comps(void)
{
    dr_opts();
    g_slab_mode = 0;
    g_lib_fail  = 0;
    H4V_ND(int32, dim0);
    H4V_ND(int32, dim1);
    H4V_ND(int32, ncomps);
    H4V_ASSUME(dim0 >= 1 && dim0 <= 2 && dim1 >= 1 && dim1 <= 2 && ncomps >= 1 && ncomps <= 3);
    g_dim0         = dim0;
    g_dim1         = dim1;
    g_ncomps       = ncomps;
    int32 nvals    = dim0 * dim1 * ncomps;
    int   differ   = 0;
    for (int k = 0; k < DR_MAXVAL; k++) {
        H4V_ND(dr_i8, v1);
        H4V_ND(dr_i8, v2);
        g_img1[k] = v1;
        g_img2[k] = v2;
        if (k < nvals && v1 != v2)
            differ++;
    }
    uint32 r = diff_gr(1, 2, 7, 7, &g_o);
    H4V_CHECK(!(differ > 0 && g_o.err_stat == 0) || r > 0, "C19 diff_gr flags a change of any single component value of the image");
    H4V_CHECK(differ > 0 || r == 0, "C19 diff_gr reports no difference for equal images");
    H4V_CHECK(g_ad_calls == 0 || g_ad_cnt[0] == (uint32)nvals, "C19 diff_gr compares nelms * ncomps values");
    H4V_COVER(ncomps == 3 && differ == 1 && g_o.err_stat == 0, "diff_gr one value of a 3-component image differs");
    H4V_CANARY("gr_comps end");
}

/* C library qsort, exact for the <= 2 records of the match() harness */
void
qsort(void *base, size_t nmemb, size_t size, int (*compar)(const void *, const void *))
{
    H4V_CHECK(nmemb <= 2 && size == sizeof(dobj_info_t), "qsort model: at most 2 object records");
    if (nmemb == 2 && size == sizeof(dobj_info_t)) {
        dobj_info_t *a = (dobj_info_t *)base;
        if (compar(&a[0], &a[1]) > 0) {
            dobj_info_t t = a[0];
            a[0]          = a[1];
            a[1]          = t;
        }
    }
}

/* match(): two object lists in ANY order (hdiff_list delivers them in file order) of at most 2 Vdatas each, names of one
   character out of {a,b,c}: ONE pair of lists per run, chosen by -DMO_A / -DMO_B (constant names, nothing symbolic).
   Symbolic names were tried first and had to be given up: cbmc 6.11 is not field-sensitive for arrays of more than 64 elements
   (obj_name has 256), and after a partial update with a symbolic value match()'s pointer reads returned bytes the harness had
   never stored (a 25-line program reproduces it; spurious failure of the 'every common object is compared' check, DESIGN 10.6).
   An object whose name occurs in only one list is an added/removed object: the result must be > 0. */
#ifndef MO_A
#define MO_A 4
#define MO_B 5
#endif
static const char MO_OPT[10][3] = {"", "a", "b", "c", "ab", "ba", "ac", "ca", "bc", "cb"};
void
h_match_only(void)
{
    dtable_t    g_l1, g_l2;
    dobj_info_t g_objs1[2], g_objs2[2];
    int         seen_one_sided = 0, seen_two_common = 0, seen_other_order = 0;
    for (int a = MO_A; a <= MO_A; a++)
        for (int b = MO_B; b <= MO_B; b++) {
            dr_opts();
            memset(g_objs1, 0, sizeof g_objs1);
            memset(g_objs2, 0, sizeof g_objs2);
            uint32 n1 = MO_OPT[a][0] == 0 ? 0 : MO_OPT[a][1] == 0 ? 1 : 2;
            uint32 n2 = MO_OPT[b][0] == 0 ? 0 : MO_OPT[b][1] == 0 ? 1 : 2;
            for (int k = 0; k < 2; k++) {
                g_objs1[k].obj_name[0] = (uint32)k < n1 ? MO_OPT[a][k] : 'z';
                g_objs1[k].tag         = DFTAG_VH;
                g_objs1[k].ref         = 2 + k;
                g_objs2[k].obj_name[0] = (uint32)k < n2 ? MO_OPT[b][k] : 'z';
                g_objs2[k].tag         = DFTAG_VH;
                g_objs2[k].ref         = 2 + k;
            }
            g_l1.size = g_l2.size = 2;
            g_l1.nobjs            = n1;
            g_l2.nobjs            = n2;
            g_l1.objs             = g_objs1;
            g_l2.objs             = g_objs2;
            int only = 0, common = 0;
            for (uint32 i = 0; i < 2; i++) {
                int in2 = 0, in1 = 0;
                for (uint32 j = 0; j < 2; j++) {
                    if (i < n1 && j < n2 && g_objs1[i].obj_name[0] == g_objs2[j].obj_name[0])
                        in2 = 1;
                    if (i < n2 && j < n1 && g_objs2[i].obj_name[0] == g_objs1[j].obj_name[0])
                        in1 = 1;
                }
                if (i < n1 && !in2)
                    only++;
                if (i < n2 && !in1)
                    only++;
                if (i < n1 && in2)
                    common++;
            }
            int other_order = n1 == 2 && n2 == 2 && g_objs1[0].obj_name[0] != g_objs2[0].obj_name[0]; /* (match sorts in place) */
            uint32 r = match(n1, &g_l1, n2, &g_l2, 1, 1, 1, 2, 2, 2, &g_o);
            H4V_CHECK(g_vs_calls == common, "C19 match compares every object common to both files");
            H4V_CHECK(!(only > 0) || r > 0, "C19 an object present in only one file is a difference");
            H4V_CHECK(only > 0 || r == 0, "C19 equal object sets with equal contents: no difference");
            if (only == 1 && common == 1)
                seen_one_sided = 1;
            if (only == 0 && common == 2)
                seen_two_common = 1;
            if (only == 0 && common == 2 && other_order)
                seen_other_order = 1;
        }
    (void)seen_one_sided;
    (void)seen_two_common;
    (void)seen_other_order;
    H4V_CANARY("match_only end");
}

/* Verification unit: mfhdf/hdiff/hdiff_array.c, floating-point branches (C19: hdiff flags any change to a single
 * data value).  Copy of hdiff_array_u.c (same stubs, same contract text) with the element type float32/float64:
 * under hdiff's DEFAULT options (err_limit 0.0, err_rel 0.0: no tolerance given) two finite elements whose values
 * differ -- by one ulp, or between two subnormals -- are a difference: ret > 0; equal buffers: ret == 0.
 * Elements are built from named bit patterns (uint32/uint64 halves) so that the native replay gets the exact values.
 * -DH4V_FBITS=32|64 selects the type (a harness constant, as in hdiff_array_u.c).
 */
#include "h4v.h"
#include <stdio.h>
#include <stdlib.h>
#include <string.h>

#ifndef H4V_FBITS
#define H4V_FBITS 32
#endif
#if H4V_FBITS == 32
#define H4V_TYPE DFNT_FLOAT32
#define H4V_ELT  float32
#else
#define H4V_TYPE DFNT_FLOAT64
#define H4V_ELT  float64
#endif
#define H4V_MAXRANK 2

/* ---------------- stubs (libc callees; cbmc only -- the native replay uses libc) ---------------- */
#ifdef H4V_CBMC
int  nondet_int(void);
char g_envbuf[2];
char g_dbg_obj[8]; /* stands for the FILE object of "hdiff.debug" */
char *
getenv(const char *name)
{
    /* the DEBUG variable may or may not be set */
    return nondet_int() ? NULL : g_envbuf;
}
FILE *
fopen(const char *path, const char *mode)
{
    /* A-DEBUGFILE: opening "hdiff.debug" succeeds (the real code does not check the result) */
    return (FILE *)g_dbg_obj;
}
int
fclose(FILE *f)
{
    return 0;
}
#endif

#include "hdf.h"
/* ---------------- ghosts ---------------- */
uint32 g_k;   /* ghost element index: a proof for arbitrary g_k is a proof for every element */
int    g_same; /* ghost flag set by the harness: the two buffers hold equal contents */

/* printf/fprintf with double arguments: a variadic callee does not survive dfcc (the write-set parameter is appended
   to the variadic list: "parameter type mismatch, got floatbv expected pointer") -> non-variadic no-ops */
static int
fd_print(void)
{
    return 0;
}
#define printf(...)  fd_print()
#define fprintf(...) fd_print()
#include "hdiff_array.c"
#undef printf
#undef fprintf


#define AD_E1(k) (((H4V_ELT *)buf1)[k])
#define AD_E2(k) (((H4V_ELT *)buf2)[k])

/* print_pos: converts the linear index curr_pos into a matrix position pos[0..rank-1] using the
   strides acc[] (acc[rank-1] == 1) and prints it (the printed text is not modelled).
   Clauses: header flag 1 -> 0 (header printed once), otherwise unchanged; the position is the row-major decomposition of curr_pos
   (stated for rank <= 3; for larger ranks only sign and frame); nothing but *ph and pos[] written. */
int g_j;       /* ghost dimension index */
int g_pp_full; /* ghost switch: 1 = state the decomposition clauses (h_print_pos); 0 = frame only (inside
                  array_diff, where the position is only printed: keeps the replaced contract cheap) */
static void print_pos(int *ph, uint32 curr_pos, int32 *acc, int32 *pos, int rank, const char *obj1,
                      const char *obj2)
    __CPROVER_requires(ph != NULL && rank >= 1 && rank <= H4_MAX_VAR_DIMS && curr_pos <= 2147483647u)
    __CPROVER_requires(__CPROVER_r_ok(acc, rank * sizeof(int32)) && __CPROVER_w_ok(pos, rank * sizeof(int32)))
    __CPROVER_requires(g_j >= 0 && g_j < rank && acc[g_j] >= 1 && acc[rank - 1] == 1)
    __CPROVER_requires(rank < 2 || acc[0] >= 1)
    __CPROVER_requires(rank < 3 || acc[1] >= 1)
    __CPROVER_assigns(*ph, __CPROVER_object_upto(pos, rank * sizeof(int32)))
    __CPROVER_ensures(*ph == (__CPROVER_old(*ph) == 1 ? 0 : __CPROVER_old(*ph)))
    __CPROVER_ensures((g_pp_full && rank <= 3) ==> pos[g_j] >= 0)
    __CPROVER_ensures((g_pp_full && rank == 1) ==> pos[0] == (int32)curr_pos)
    __CPROVER_ensures((g_pp_full && rank == 2) ==> ((long long)pos[0] * acc[0] + pos[1] == (long long)curr_pos && pos[1] < acc[0]))
    __CPROVER_ensures((g_pp_full && rank == 3) ==> ((long long)pos[0] * acc[0] + (long long)pos[1] * acc[1] + pos[2] == (long long)curr_pos &&
                                     (long long)pos[1] * acc[1] + pos[2] < acc[0] && pos[2] < acc[1]));

/* array_diff under hdiff's DEFAULT options (err_limit 0.0 "exact equal", err_rel 0.0 = no -p,
   statistics 0 = no -S), without fill values, for the floating-point number type H4V_TYPE; the elements
   are finite (the harness builds them so; the property quantifies over NaN-free data). */
uint32 array_diff(void *buf1, void *buf2, uint32 tot_cnt, const char *name1, const char *name2, int rank,
                  int32 *dims, int32 type, float32 err_limit, float32 err_rel, uint32 max_err_cnt,
                  int32 statistics, void *fill1, void *fill2)
    __CPROVER_requires(buf1 != NULL && buf2 != NULL && dims != NULL)
    __CPROVER_requires(tot_cnt <= 2147483647u)
    /* shape: rank 1 or 2 (GR images are always rank 2), positive extents */
    __CPROVER_requires(rank >= 1 && rank <= H4V_MAXRANK)
    __CPROVER_requires(__CPROVER_r_ok(dims, rank * sizeof(int32)))
    __CPROVER_requires(rank < 2 || dims[1] >= 1)
    __CPROVER_requires(type == H4V_TYPE)
    __CPROVER_requires(err_limit == 0.0F && err_rel == 0.0F && statistics == 0)
    __CPROVER_requires(fill1 == NULL && fill2 == NULL)
    __CPROVER_requires(g_k < tot_cnt)
    __CPROVER_assigns()
    /* C19 "flags any change to a single data value": element g_k differs ==> a difference is found */
    __CPROVER_ensures(AD_E1(g_k) != AD_E2(g_k) ==> __CPROVER_return_value > 0)
    /* C19 reflexivity: equal contents (ghost flag set by the harness that built them) ==> no difference */
    __CPROVER_ensures(g_same ==> __CPROVER_return_value == 0)
    /* never more differences than elements */
    __CPROVER_ensures(__CPROVER_return_value <= tot_cnt);

#ifdef H4V_NATIVE
#include "h4v_native_wrap.h"
#endif

/* ---------------- harnesses ---------------- */
H4V_DECL_ND(uint32);
H4V_DECL_ND(int);
H4V_DECL_ND(int32);
typedef H4V_ELT elt_t;

#ifndef H4V_MAXCNT
#define H4V_MAXCNT 2u /* cap on tot_cnt (the obligations are `bounded`) */
#endif

static int32 g_dims[H4V_MAXRANK];
static elt_t g_b1[H4V_MAXCNT], g_b2[H4V_MAXCNT];

/* element from two named 32-bit halves; finite = exponent field not all ones */
#if H4V_FBITS == 32
#define FD_ELT(dst, lo, hi)                                                                                  \
    do {                                                                                                     \
        uint32 w_ = (lo);                                                                                    \
        H4V_ASSUME(((w_ >> 23) & 0xffu) != 0xffu && (hi) == 0);                                              \
        memcpy(&(dst), &w_, 4);                                                                              \
    } while (0)
#else
#define FD_ELT(dst, lo, hi)                                                                                  \
    do {                                                                                                     \
        unsigned long long w_ = ((unsigned long long)(hi) << 32) | (lo);                                     \
        H4V_ASSUME(((w_ >> 52) & 0x7ffu) != 0x7ffu);                                                         \
        memcpy(&(dst), &w_, 8);                                                                              \
    } while (0)
#endif

#define FD_ENV()                                                                                             \
    H4V_HAVOC(uint32, g_k);                                                                                  \
    H4V_HAVOC(int, g_j);                                                                                     \
    g_pp_full = 0;                                                                                           \
    H4V_ND(uint32, tot_cnt);                                                                                 \
    H4V_ASSUME(tot_cnt >= 1 && tot_cnt <= H4V_MAXCNT);                                                       \
    H4V_ND(uint32, max_err_cnt);                                                                             \
    H4V_ND(int, rank);                                                                                       \
    H4V_ASSUME(rank >= 1 && rank <= H4V_MAXRANK && g_j >= 0 && g_j < rank);                                  \
    H4V_ND(int32, dim0);                                                                                     \
    H4V_ND(int32, dim1);                                                                                     \
    H4V_ASSUME(dim0 >= 1 && dim1 >= 1);                                                                      \
    g_dims[0] = dim0;                                                                                        \
    g_dims[1] = dim1;                                                                                        \
    H4V_ND(uint32, a0_lo);                                                                                   \
    H4V_ND(uint32, a0_hi);                                                                                   \
    H4V_ND(uint32, a1_lo);                                                                                   \
    H4V_ND(uint32, a1_hi);                                                                                   \
    H4V_ND(uint32, b0_lo);                                                                                   \
    H4V_ND(uint32, b0_hi);                                                                                   \
    H4V_ND(uint32, b1_lo);                                                                                   \
    H4V_ND(uint32, b1_hi);                                                                                   \
    FD_ELT(g_b1[0], a0_lo, a0_hi);                                                                           \
    FD_ELT(g_b2[0], b0_lo, b0_hi);                                                                           \
    if (H4V_MAXCNT > 1) {                                                                                    \
        FD_ELT(g_b1[H4V_MAXCNT - 1], a1_lo, a1_hi);                                                          \
        FD_ELT(g_b2[H4V_MAXCNT - 1], b1_lo, b1_hi);                                                          \
    }
#define AD_CALL(x, y) array_diff(x, y, tot_cnt, "a", "b", rank, g_dims, H4V_TYPE, 0.0F, 0.0F, max_err_cnt, 0, NULL, NULL)

/* two independent buffers with arbitrary finite contents */
void
h_fdiff(void)
{
    FD_ENV();
    g_same   = 0;
    uint32 r = AD_CALL(g_b1, g_b2);
    H4V_COVER(r > 0, "array_diff float reports a difference");
    H4V_COVER(r == 0, "array_diff float reports no difference");
    H4V_CANARY("array_diff float end");
}

/* the smallest differences there are: adjacent bit patterns of the same sign (1 ulp apart; both subnormal when
   the exponent field is 0) must be reported -- stated at the harness level as well, for element 0 */
void
h_fdiff_ulp(void)
{
    FD_ENV();
    g_same = 0;
#if H4V_FBITS == 32
    H4V_ASSUME(b0_lo == a0_lo + 1u && (a0_lo >> 31) == (b0_lo >> 31));
#else
    H4V_ASSUME(b0_hi == a0_hi && b0_lo == a0_lo + 1u && a0_lo != 0xffffffffu);
#endif
    H4V_ND(int, swap);
    uint32 r = swap ? AD_CALL(g_b2, g_b1) : AD_CALL(g_b1, g_b2);
    H4V_CHECK(r > 0, "C19 two finite values one ulp apart are reported as a difference");
    H4V_COVER(swap != 0, "fdiff_ulp swapped");
#if H4V_FBITS == 32
    H4V_COVER(((a0_lo >> 23) & 0xffu) == 0, "fdiff_ulp subnormal pair");
    H4V_COVER(((a0_lo >> 23) & 0xffu) == 0xfe, "fdiff_ulp huge pair");
#else
    H4V_COVER(((a0_hi >> 20) & 0x7ffu) == 0, "fdiff_ulp subnormal pair");
    H4V_COVER(((a0_hi >> 20) & 0x7ffu) == 0x7fe, "fdiff_ulp huge pair");
#endif
    H4V_CANARY("fdiff_ulp end");
}

/* equal contents: a second buffer holding a copy, or the same buffer twice */
void
h_fdiff_same(void)
{
    FD_ENV();
    g_same = 1;
    H4V_ND(int, alias);
    for (uint32 k = 0; k < H4V_MAXCNT; k++)
        g_b2[k] = g_b1[k];
    uint32 r = AD_CALL(g_b1, alias ? g_b1 : g_b2);
    H4V_COVER(alias != 0, "array_diff float same buffer");
    H4V_COVER(alias == 0, "array_diff float equal copy");
    H4V_CANARY("array_diff float same end");
}

/* Verification unit: hdf/src/dfkswap.c (C06: byte-swapping conversion kernels DFKsb2b/4b/8b)
 *
 * Obligation parameters (obligations/c06_dfconv.py, passed as -D):
 *   SS, DS   constant source/destination stride of the run (0,0 = contiguous path); when they are
 *            not defined the strides are symbolic (bounded stand-in, needs NMAX small)
 *   NMAX     cap on num_elm (only the bounded stand-ins define it)
 */
#include "h4v.h"
#include "hdf_priv.h"

#ifdef H4_WORDS_BIGENDIAN
#error "C06 contracts are written for the little-endian host configuration"
#endif

#include "h4v_err.h" /* trusted stubs: error stack (HEclear, HEpush) */

/* ---- ghost state --------------------------------------------------------------------------
 * g_k   ghost element index: a proof for arbitrary g_k < num_elm is a proof for all elements
 * g_s   the W source bytes of element g_k as they were BEFORE the call (snapshot taken by the
 *       harness, tied to the buffer by `requires`; needed because in place dest == source)
 * g_o   ghost byte offset inside the destination extent, g_ov its value before the call
 *       (bytes in the gaps between strided elements must keep their value)               */
uint32 g_k;
uint8  g_s[8];
size_t g_o;
uint8  g_ov;

#define B(p) ((uint8 *)(p))
#define EQ2(p, o, a, b) (B(p)[(o)] == (a) && B(p)[(o) + 1] == (b))
#define EQ4(p, o, a, b, c, e) (EQ2(p, o, a, b) && EQ2(p, (o) + 2, c, e))
/* element at byte offset o of p holds the snapshot (SNAP) / the byte-reversed snapshot (SWAP) */
#define SNAP_2(p, o) EQ2(p, o, g_s[0], g_s[1])
#define SWAP_2(p, o) EQ2(p, o, g_s[1], g_s[0])
#define SNAP_4(p, o) EQ4(p, o, g_s[0], g_s[1], g_s[2], g_s[3])
#define SWAP_4(p, o) EQ4(p, o, g_s[3], g_s[2], g_s[1], g_s[0])
#define SNAP_8(p, o) (EQ4(p, o, g_s[0], g_s[1], g_s[2], g_s[3]) && EQ4(p, (o) + 4, g_s[4], g_s[5], g_s[6], g_s[7]))
#define SWAP_8(p, o) (EQ4(p, o, g_s[7], g_s[6], g_s[5], g_s[4]) && EQ4(p, (o) + 4, g_s[3], g_s[2], g_s[1], g_s[0]))

/* effective strides: stride 0/0 means "contiguous", i.e. stride W */
#define CONTIG (source_stride == 0 && dest_stride == 0)
#define ESS(W) (CONTIG ? (size_t)(W) : (size_t)source_stride)
#define EDS(W) (CONTIG ? (size_t)(W) : (size_t)dest_stride)
/* number of bytes spanned by num_elm (>= 1) elements */
#define SEXT(W) (ESS(W) * (size_t)(num_elm - 1) + (W))
#define DEXT(W) (EDS(W) * (size_t)(num_elm - 1) + (W))

/* Domain: the callers (DFKconvert from SD/GR with 0/0, the Vdata layer with record sizes) pass
   either 0/0 or two strides that are at least the element width; in place only with equal
   strides (in-place expansion would overwrite elements not yet read); out of place the two
   buffers are distinct objects. */
#define SB_DOMAIN(W)                                                                                 \
    (s != NULL && d != NULL && (CONTIG || (source_stride >= (W) && dest_stride >= (W))) &&           \
     (s != d || source_stride == dest_stride))
/* ghosts are in range (only meaningful when there is at least one element) */
#define SB_GHOSTS(W) (num_elm == 0 || (g_k < num_elm && g_o < DEXT(W)))

#include "dfkswap.c"

/* ---------------- contracts (taken from the C06 statement) ---------------- */
int DFKsb2b(void *s, void *d, uint32 num_elm, uint32 source_stride, uint32 dest_stride)
    __CPROVER_requires(SB_DOMAIN(2))
    __CPROVER_requires(s == d || !__CPROVER_same_object(s, d))
    __CPROVER_requires(SB_GHOSTS(2))
    __CPROVER_requires(num_elm == 0 || (SNAP_2(s, ESS(2) * g_k) && B(d)[g_o] == g_ov))
    __CPROVER_assigns(num_elm >= 1 && CONTIG: __CPROVER_object_upto(B(d), 2 * (size_t)num_elm);
                      num_elm >= 1 && !CONTIG: __CPROVER_object_upto(B(d), (size_t)dest_stride * (size_t)(num_elm - 1) + 2))
    /* no elements is an error, anything else succeeds */
    __CPROVER_ensures(num_elm == 0 ? __CPROVER_return_value == FAIL : __CPROVER_return_value == SUCCEED)
    /* every element of the destination is the byte-reversed source element */
    __CPROVER_ensures(num_elm >= 1 ==> SWAP_2(d, EDS(2) * g_k))
    /* bytes between strided destination elements keep their value */
    __CPROVER_ensures((num_elm >= 1 && g_o % EDS(2) >= 2) ==> B(d)[g_o] == g_ov);

int DFKsb4b(void *s, void *d, uint32 num_elm, uint32 source_stride, uint32 dest_stride)
    __CPROVER_requires(SB_DOMAIN(4))
    __CPROVER_requires(s == d || !__CPROVER_same_object(s, d))
    __CPROVER_requires(SB_GHOSTS(4))
    __CPROVER_requires(num_elm == 0 || (SNAP_4(s, ESS(4) * g_k) && B(d)[g_o] == g_ov))
    __CPROVER_assigns(num_elm >= 1 && CONTIG: __CPROVER_object_upto(B(d), 4 * (size_t)num_elm);
                      num_elm >= 1 && !CONTIG: __CPROVER_object_upto(B(d), (size_t)dest_stride * (size_t)(num_elm - 1) + 4))
    __CPROVER_ensures(num_elm == 0 ? __CPROVER_return_value == FAIL : __CPROVER_return_value == SUCCEED)
    __CPROVER_ensures(num_elm >= 1 ==> SWAP_4(d, EDS(4) * g_k))
    __CPROVER_ensures((num_elm >= 1 && g_o % EDS(4) >= 4) ==> B(d)[g_o] == g_ov);

int DFKsb8b(void *s, void *d, uint32 num_elm, uint32 source_stride, uint32 dest_stride)
    __CPROVER_requires(SB_DOMAIN(8))
    __CPROVER_requires(s == d || !__CPROVER_same_object(s, d))
    __CPROVER_requires(SB_GHOSTS(8))
    __CPROVER_requires(num_elm == 0 || (SNAP_8(s, ESS(8) * g_k) && B(d)[g_o] == g_ov))
    __CPROVER_assigns(num_elm >= 1 && CONTIG: __CPROVER_object_upto(B(d), 8 * (size_t)num_elm);
                      num_elm >= 1 && !CONTIG: __CPROVER_object_upto(B(d), (size_t)dest_stride * (size_t)(num_elm - 1) + 8))
    __CPROVER_ensures(num_elm == 0 ? __CPROVER_return_value == FAIL : __CPROVER_return_value == SUCCEED)
    __CPROVER_ensures(num_elm >= 1 ==> SWAP_8(d, EDS(8) * g_k))
    __CPROVER_ensures((num_elm >= 1 && g_o % EDS(8) >= 8) ==> B(d)[g_o] == g_ov);

#ifdef H4V_NATIVE
#include "h4v_native_wrap.h"
#endif

/* ---------------- harnesses ---------------- */
H4V_DECL_ND(uint32);
H4V_DECL_ND(uint8);
H4V_DECL_ND(int);
H4V_DECL_ND(size_t);

#ifndef NMAX
#define NMAX 0xffffffffu
#endif
#ifndef CAPB
#define CAPB 48 /* bytes per buffer in counterexample mode */
#endif

#define SNAPSHOT_2(p, o) (g_s[0] = (p)[(o)], g_s[1] = (p)[(o) + 1])
#define SNAPSHOT_4(p, o) (SNAPSHOT_2(p, o), g_s[2] = (p)[(o) + 2], g_s[3] = (p)[(o) + 3])
#define SNAPSHOT_8(p, o)                                                                             \
    (SNAPSHOT_4(p, o), g_s[4] = (p)[(o) + 4], g_s[5] = (p)[(o) + 5], g_s[6] = (p)[(o) + 6], g_s[7] = (p)[(o) + 7])

/* Environment for one call of FN (width W): tight buffers (exactly the bytes the strides span, so
   any access beyond the last element is out of bounds), in place or out of place. */
#if defined(SS) && defined(DS)
#define GET_STRIDES(W)                                                                               \
    uint32 source_stride = (SS), dest_stride = (DS)
#else
#define GET_STRIDES(W)                                                                               \
    H4V_ND(uint32, source_stride);                                                                   \
    H4V_ND(uint32, dest_stride);                                                                     \
    H4V_ASSUME(source_stride >= (W) && source_stride <= 65535 && dest_stride >= (W) && dest_stride <= 65535)
#endif

#define SB_HARNESS(FN, W)                                                                            \
    H4V_ND(uint32, num_elm);                                                                         \
    GET_STRIDES(W);                                                                                  \
    H4V_ND(int, in_place);                                                                           \
    H4V_ASSUME(num_elm <= NMAX);                                                                     \
    H4V_ASSUME(!in_place || source_stride == dest_stride);                                           \
    size_t sbytes = num_elm == 0 ? 1 : SEXT(W);                                                      \
    size_t dbytes = num_elm == 0 ? 1 : DEXT(W);                                                      \
    H4V_ND_BUF(uint8, src, sbytes, CAPB);                                                            \
    H4V_ND_BUF(uint8, dst, dbytes, CAPB);                                                            \
    uint8 *d = in_place ? src : dst;                                                                 \
    H4V_HAVOC(uint32, g_k);                                                                          \
    H4V_HAVOC(size_t, g_o);                                                                          \
    if (num_elm >= 1) {                                                                              \
        H4V_ASSUME(g_k < num_elm && g_o < dbytes);                                                   \
        SNAPSHOT_##W(src, ESS(W) * g_k);                                                             \
        g_ov = d[g_o];                                                                               \
    }                                                                                                \
    int r = FN(src, d, num_elm, source_stride, dest_stride);                                         \
    H4V_COVER(r == SUCCEED && !in_place, #FN " out-of-place path");                                  \
    H4V_COVER(r == SUCCEED && in_place, #FN " in-place path");                                       \
    H4V_COVER(r == SUCCEED && num_elm > 2 && g_k == num_elm - 1, #FN " last element");               \
    H4V_COVER(r == FAIL, #FN " no elements");                                                        \
    H4V_CANARY(#FN " end")

void
h_sb2b(void)
{
    SB_HARNESS(DFKsb2b, 2);
}

void
h_sb4b(void)
{
    SB_HARNESS(DFKsb4b, 4);
}

void
h_sb8b(void)
{
    SB_HARNESS(DFKsb8b, 8);
}

/* Involution lemma on one element: swapping twice gives the original bit pattern, so numin after
   numout (and numout after numin) is the identity for every swapped type; both ways of calling
   (between buffers, in place). */
#define INVOL_HARNESS(FN, W)                                                                         \
    GET_STRIDES(W);                                                                                  \
    H4V_ND_BUF(uint8, a, W, 8);                                                                      \
    H4V_ND_BUF(uint8, b, W, 8);                                                                      \
    H4V_ND_BUF(uint8, c, W, 8);                                                                      \
    SNAPSHOT_##W(a, 0);                                                                              \
    int r1 = FN(a, b, 1, source_stride, dest_stride);                                                \
    int r2 = FN(b, c, 1, source_stride, dest_stride);                                                \
    H4V_CHECK(r1 == SUCCEED && r2 == SUCCEED, #FN " twice succeeds");                                \
    H4V_CHECK(SNAP_##W(c, 0), #FN " twice between buffers is the identity");                         \
    H4V_CHECK(SNAP_##W(a, 0), #FN " source untouched");                                              \
    int r3 = FN(a, a, 1, source_stride, source_stride);                                              \
    H4V_CHECK(r3 == SUCCEED && SWAP_##W(a, 0), #FN " in place reverses the bytes");                  \
    H4V_CHECK(EQ2(a, 0, b[0], b[1]), #FN " in place and between buffers agree");                     \
    int r4 = FN(a, a, 1, source_stride, source_stride);                                              \
    H4V_CHECK(r4 == SUCCEED && SNAP_##W(a, 0), #FN " twice in place is the identity");               \
    H4V_CANARY(#FN " involution end")

void
h_invol2(void)
{
    INVOL_HARNESS(DFKsb2b, 2);
}

void
h_invol4(void)
{
    INVOL_HARNESS(DFKsb4b, 4);
}

void
h_invol8(void)
{
    INVOL_HARNESS(DFKsb8b, 8);
}

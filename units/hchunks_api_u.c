/* Verification unit: hdf/src/hchunks.c -- C04, the chunked-element access layer above the index arithmetic:
 *   HMCPchunkread / HMCPchunkwrite (page-in / page-out callbacks of the chunk cache), HMCPseek, HMCreadChunk /
 *   HMCwriteChunk (whole-chunk access), HMCPread / HMCPwrite (split of a request over chunks), HMCPcloseAID (flush).
 * Outside the unit (logging stubs with ghost state): mcache_* (proved on its own, mcache_u.c), tbbtd* (the chunk tree:
 * a map chunk number -> CHUNK_REC), VSwrite/VSdetach/Vfinish (chunk table Vdata), Hstartread/Hstartwrite/Hread/Hwrite/
 * Hendaccess/Htagnewref (H layer, hfile_u.c), HDmemfill (proved in fill_u.c), HCcreate.
 * One open file FID (writable), one access record AID on it that is a chunked element with special info g_info. */
#include "h4v.h"
#include "h4v_err.h"
#include "hdf_priv.h"
#include "hfile_priv.h"
#include "tbbt_priv.h"
#include "mcache_priv.h"

#ifndef NT
#define NT 1 /* number-type size: a constant per obligation keeps the arithmetic linear */
#endif
#ifndef MAXCH
#define MAXCH 4 /* chunks of the bounded HMCPread/HMCPwrite model */
#endif
#ifndef PGSZ
#define PGSZ 8 /* bytes per page of the bounded model (>= chunk bytes there) */
#endif

/* names used by loops/hchunks.loops (injected into the shared scratch copy of hchunks.c; not applied in this unit) */
int32 g_k;
#define C2A_VAL(ci, cp, d) 0
#define POS_OK(d, sb, sp) 1
/* cbmc's malloc may fail: make that observable (the totality clauses exclude it) */
int g_oom;
static void *
h4v_malloc(size_t n)
{
    void *p = malloc(n);
    if (p == NULL)
        g_oom = 1;
    return p;
}
#define malloc h4v_malloc
#ifdef NOFREE
/* HMCPcloseAID obligation only: free() as a counting stub (nine frees under dfcc: 6 M variables, no answer) */
int g_free_n;
static void
h4v_free(void *p)
{
    g_free_n++;
}
#define free h4v_free
#endif
#include "hchunks.c"
#undef malloc
#undef free

#define FID 0x10000007
#define AID 0x30000005
#define VSID 0x50000003 /* the chunk table Vdata */
#define CHKID 0x30000009 /* access id the H layer hands out for one chunk object */

H4V_DECL_ND(int);
H4V_DECL_ND(int32);
H4V_DECL_ND(uint16);
H4V_DECL_ND(uint8);

/* ---------------------------------------------------------------- environment */
filerec_t   *g_frec;
accrec_t    *g_arec;
chunkinfo_t *g_info;
TBBT_TREE   *g_tree;  /* opaque handles: only compared */
MCACHE      *g_mc;
int32        g_j;     /* ghost byte index of a buffer / request */

/* chunk tree.  mode 0: one lookup result g_node for whatever key (key logged); mode 1: a map over chunk numbers 0..MAXCH-1 */
int        g_tree_mode;
TBBT_NODE *g_node;
CHUNK_REC *g_chk;
int        g_find_n, g_ins_n;
int32      g_find_key, g_ins_key;
CHUNK_REC *g_ins_item;
TBBT_NODE  g_nodes[MAXCH];
int        g_present[MAXCH];
TBBT_NODE  g_newnode;

TBBT_NODE *
tbbtdfind(TBBT_TREE *tree, void *key, TBBT_NODE **pp)
{
    H4V_CHECK(tree == g_tree, "chunk tree handle of this element");
    g_find_n++;
    g_find_key = *(int32 *)key;
    if (g_tree_mode == 0)
        return g_node;
    if (g_find_key < 0 || g_find_key >= MAXCH)
        return NULL;
    return g_present[g_find_key] ? &g_nodes[g_find_key] : NULL;
}
TBBT_NODE *
tbbtdins(TBBT_TREE *tree, void *item, void *key)
{
    H4V_CHECK(tree == g_tree, "chunk tree handle of this element");
    g_ins_n++;
    g_ins_key  = *(int32 *)key;
    g_ins_item = (CHUNK_REC *)item;
    if (g_tree_mode == 0) {
        g_newnode.data = item;
        g_newnode.key  = key;
        return &g_newnode;
    }
    if (g_ins_key < 0 || g_ins_key >= MAXCH)
        return NULL;
    H4V_CHECK(!g_present[g_ins_key], "a chunk record is inserted in the chunk tree once");
    g_present[g_ins_key]    = 1;
    g_nodes[g_ins_key].data = item;
    g_nodes[g_ins_key].key  = key;
    return &g_nodes[g_ins_key];
}
int g_tfree_n;
TBBT_TREE *
tbbtdfree(TBBT_TREE *tree, void (*fd)(void *), void (*fk)(void *))
{
    g_tfree_n++;
    return NULL;
}

/* chunk cache.  mode 0: one page g_page (heap, chunk bytes) for whatever page number (logged);
   mode 1: pages 1..MAXCH are g_pages[0..MAXCH-1] */
uint8 *g_page;
uint8 *g_pagesv; /* MAXCH pages of PGSZ bytes */
int    g_dirty[MAXCH];
int    g_get_n, g_put_n, g_get_fail, g_put_fail, g_pinned, g_put_flags, g_sync_n, g_close_n, g_sync_ret, g_close_ret;
int32  g_get_pgno;
void  *g_pinned_page;

void *
mcache_get(MCACHE *mp, int32 pgno, int32 flags)
{
    H4V_CHECK(mp == g_mc, "chunk cache handle of this element");
    H4V_CHECK(!g_pinned, "at most one chunk pinned at a time");
    g_get_n++;
    g_get_pgno = pgno;
    if (g_get_fail)
        return NULL;
    g_pinned = 1;
    if (g_tree_mode == 0)
        g_pinned_page = g_page;
    else {
        H4V_CHECK(pgno >= 1 && pgno <= MAXCH, "page number = chunk number + 1 of a chunk of the element");
        if (pgno < 1 || pgno > MAXCH)
            return NULL;
        g_pinned_page = g_pagesv + (pgno - 1) * PGSZ;
    }
    return g_pinned_page;
}
int
mcache_put(MCACHE *mp, void *page, int32 flags)
{
    H4V_CHECK(mp == g_mc, "chunk cache handle of this element");
    H4V_CHECK(g_pinned && page == g_pinned_page, "the page put back is the page pinned");
    g_put_n++;
    g_pinned = 0;
    if (g_put_fail)
        return FAIL;
    g_put_flags = flags;
    if (g_tree_mode != 0 && g_get_pgno >= 1 && g_get_pgno <= MAXCH && (flags & MCACHE_DIRTY))
        g_dirty[g_get_pgno - 1] = 1;
    return SUCCEED;
}
int
mcache_sync(MCACHE *mp)
{
    H4V_CHECK(mp == g_mc, "chunk cache handle of this element");
    g_sync_n++;
    return g_sync_ret;
}
int
mcache_close(MCACHE *mp)
{
    H4V_CHECK(mp == g_mc, "chunk cache handle of this element");
    H4V_CHECK(g_sync_n == 1 && g_close_n == 0, "cache synced before it is closed, closed once");
    g_close_n++;
    return g_close_ret;
}

/* atoms */
void *
HAatom_object(atom_t atm)
{
    if (atm == FID)
        return g_frec;
    if (atm == AID)
        return g_arec;
    return NULL;
}

/* HDmemfill (hdfalloc.c; proved in fill_u.c): dest = num_items copies of the item.  Modelled on the ghost byte. */
int    g_mf_n;
void  *g_mf_dest;
uint32 g_mf_isize, g_mf_items;
void *
HDmemfill(void *dest, const void *src, uint32 item_size, uint32 num_items)
{
    g_mf_n++;
    g_mf_dest  = dest;
    g_mf_isize = item_size;
    g_mf_items = num_items;
    if (item_size == NT && g_j >= 0 && (uint32)g_j / NT < num_items)
        ((uint8 *)dest)[g_j] = ((const uint8 *)src)[g_j % NT];
    return dest;
}

/* H layer: one chunk object at a time */
int    g_sr_n, g_sw_n, g_rd_n, g_wr_n, g_end_n, g_open, g_start_fail, g_rw_fail, g_end_fail, g_newref_n, g_hc_n;
int32  g_st_fid, g_st_len, g_rw_id, g_rw_len, g_end_id;
uint16 g_st_tag, g_st_ref, g_newref;
const void *g_rw_buf;
uint8  g_stored_j; /* byte g_j of the stored chunk object */
uint8  g_written_j;

int32
Hstartread(int32 file_id, uint16 tag, uint16 ref)
{
    g_sr_n++;
    g_st_fid = file_id;
    g_st_tag = tag;
    g_st_ref = ref;
    if (g_start_fail)
        return FAIL;
    g_open++;
    return CHKID;
}
int32
Hstartwrite(int32 file_id, uint16 tag, uint16 ref, int32 length)
{
    g_sw_n++;
    g_st_fid = file_id;
    g_st_tag = tag;
    g_st_ref = ref;
    g_st_len = length;
    if (g_start_fail)
        return FAIL;
    g_open++;
    return CHKID;
}
int32
HCcreate(int32 file_id, uint16 tag, uint16 ref, comp_model_t model_type, model_info *m_info, comp_coder_t coder_type, comp_info *c_info)
{
    g_hc_n++;
    g_st_fid = file_id;
    g_st_tag = tag;
    g_st_ref = ref;
    if (g_start_fail)
        return FAIL;
    g_open++;
    return CHKID;
}
int32
Hread(int32 access_id, int32 length, void *data)
{
    g_rd_n++;
    g_rw_id  = access_id;
    g_rw_len = length;
    g_rw_buf = data;
    if (g_rw_fail)
        return FAIL;
    if (g_j >= 0 && g_j < length)
        ((uint8 *)data)[g_j] = g_stored_j;
    return length;
}
int32
Hwrite(int32 access_id, int32 length, const void *data)
{
    g_wr_n++;
    g_rw_id  = access_id;
    g_rw_len = length;
    g_rw_buf = data;
    if (g_rw_fail)
        return FAIL;
    if (g_j >= 0 && g_j < length)
        g_written_j = ((const uint8 *)data)[g_j];
    return length;
}
int
Hendaccess(int32 access_id)
{
    g_end_n++;
    g_end_id = access_id;
    if (g_end_fail || access_id != CHKID)
        return FAIL;
    H4V_CHECK(g_open > 0, "access to a chunk object ended once");
    g_open--;
    return SUCCEED;
}
uint16
Htagnewref(int32 file_id, uint16 tag)
{
    H4V_CHECK(file_id == FID && tag == DFTAG_CHUNK, "new ref asked for a chunk object of this file");
    g_newref_n++;
    return g_newref;
}

/* chunk table Vdata */
int    g_vsw_n, g_vsw_fail, g_vsd_n, g_vsd_fail, g_vend_n, g_vend_fail;
int32  g_vsw_id, g_vsw_nelt, g_vsw_il, g_vsw_origin_k;
uint16 g_vsw_tag, g_vsw_ref;
int32
VSwrite(int32 vkey, const uint8 buf[], int32 nelt, int32 interlace)
{
    g_vsw_n++;
    g_vsw_id   = vkey;
    g_vsw_nelt = nelt;
    g_vsw_il   = interlace;
    /* the record: origin[ndims], tag, ref in native order */
    memcpy(&g_vsw_origin_k, buf + 4 * g_k, 4);
    memcpy(&g_vsw_tag, buf + 4 * g_info->ndims, 2);
    memcpy(&g_vsw_ref, buf + 4 * g_info->ndims + 2, 2);
    return g_vsw_fail ? FAIL : nelt;
}
int32
VSdetach(int32 vkey)
{
    H4V_CHECK(vkey == VSID, "chunk table id");
    g_vsd_n++;
    return g_vsd_fail ? FAIL : SUCCEED;
}
int
Vfinish(HFILEID f)
{
    g_vend_n++;
    return g_vend_fail ? FAIL : SUCCEED;
}
int g_htpend_n, g_rel_n;
int
HTPendaccess(atom_t ddid)
{
    g_htpend_n++;
    return SUCCEED;
}
void
HIrelease_accrec_node(accrec_t *acc)
{
    g_rel_n++;
}

/* ---------------------------------------------------------------- contracts */
/* chunk bytes fit int32 and the fill value is one number (SDsetchunk / GRsetchunk pass fill_val_len == nt_size) */
#define INFO_WF                                                                                              \
    (g_arec != NULL && g_info != NULL && g_arec->special_info == (void *)g_info && g_arec->file_id == FID && \
     g_info->nt_size == NT && g_info->chunk_size >= 1 && g_info->chunk_size <= 0x1000000 / NT && g_info->chk_tree == g_tree && \
     g_info->chk_cache == g_mc && g_info->aid == VSID && g_info->fill_val_len == NT && g_info->fill_val != NULL)
#define LOGS0                                                                                                \
    (g_find_n == 0 && g_ins_n == 0 && g_mf_n == 0 && g_sr_n == 0 && g_sw_n == 0 && g_rd_n == 0 && g_wr_n == 0 && g_end_n == 0 && \
     g_open == 0 && g_newref_n == 0 && g_hc_n == 0 && g_vsw_n == 0 && g_get_n == 0 && g_put_n == 0 && g_pinned == 0)
#define CBYTES (g_info->chunk_size * NT)
#define NODE_WF (g_node == NULL || (g_node->data == (void *)g_chk && g_chk != NULL))
#define ABSENT (g_node == NULL || g_chk->chk_tag == DFTAG_NULL)
#define STORED (g_node != NULL && g_chk->chk_tag != DFTAG_NULL && BASETAG(g_chk->chk_tag) == DFTAG_CHUNK)

/* page-in callback of the chunk cache */
static int32 HMCPchunkread(void *cookie, int32 chunk_num, void *datap)
    __CPROVER_requires(INFO_WF && LOGS0 && g_tree_mode == 0 && NODE_WF && cookie == (void *)g_arec)
    __CPROVER_requires(datap != NULL && g_j >= 0 && g_j < CBYTES)
    __CPROVER_assigns(__CPROVER_object_upto(datap, (size_t)CBYTES), g_find_n, g_find_key, g_mf_n, g_mf_dest, g_mf_isize, g_mf_items,
                      g_sr_n, g_st_fid, g_st_tag, g_st_ref, g_rd_n, g_rw_id, g_rw_len, g_rw_buf, g_end_n, g_end_id, g_open)
    /* the chunk looked up is the chunk asked for */
    __CPROVER_ensures(g_find_n == 1 && g_find_key == chunk_num)
    /* C04: a chunk that has no record, or a record without a stored object, is delivered as the fill value repeated
       over the WHOLE chunk (every byte g_j of the page), never stale bytes; nothing is read from the file */
    __CPROVER_ensures(ABSENT ==> (__CPROVER_return_value == 0 && g_mf_n == 1 && g_mf_dest == datap && g_mf_isize == NT &&
                                  g_mf_items == (uint32)g_info->chunk_size && g_sr_n == 0 && g_rd_n == 0 &&
                                  ((uint8 *)datap)[g_j] == ((uint8 *)g_info->fill_val)[g_j % NT]))
    /* a stored chunk is read from exactly its tag/ref, with exactly the chunk length, into the page; access ended */
    __CPROVER_ensures((STORED && !g_start_fail && !g_rw_fail && !g_end_fail) ==>
                      (__CPROVER_return_value == CBYTES && g_mf_n == 0 && g_sr_n == 1 && g_st_fid == FID &&
                       g_st_tag == g_chk->chk_tag && g_st_ref == g_chk->chk_ref && g_rd_n == 1 && g_rw_id == CHKID &&
                       g_rw_len == CBYTES && g_rw_buf == datap && g_end_n == 1 && g_end_id == CHKID &&
                       ((uint8 *)datap)[g_j] == g_stored_j))
    /* failures are reported (the cache must not hand out a page that was not filled) and no access id is leaked */
    __CPROVER_ensures((STORED && (g_start_fail || g_rw_fail || g_end_fail)) ==> __CPROVER_return_value == FAIL)
    __CPROVER_ensures((!ABSENT && !STORED) ==> (__CPROVER_return_value == FAIL && g_sr_n == 0 && g_mf_n == 0))
    __CPROVER_ensures(!g_end_fail ==> g_open == 0);

/* ---- page-out callback of the chunk cache ------------------------------------------------------------------- */
#ifndef NDIMS
#define NDIMS 1
#endif
#ifndef MAXCB
#define MAXCB 16 /* chunk bytes where a whole chunk is copied with memcpy (bounded obligations) */
#endif
#ifndef CSZ
#define CSZ 4 /* chunk_size (elements) of the whole-chunk obligations: a memcpy of unknown length gets no answer */
#endif
uint16 g_tag0, g_ref0; /* tag/ref of the chunk record on entry */
#define DIMS_OK (g_info->ndims == NDIMS && g_info->ddims != NULL && g_k >= 0 && g_k < NDIMS)
#define NEWCH (g_node != NULL && g_tag0 == DFTAG_NULL)
#define OLDCH (g_node != NULL && g_tag0 != DFTAG_NULL)
#define ALL_OK (!g_start_fail && !g_rw_fail && !g_end_fail && !g_vsw_fail)
#define IS_COMP ((g_info->flag & 0xff) == SPECIAL_COMP)

/* STRICT_RETRY: a failed page-out of a new chunk leaves the record "not stored": otherwise the retry (the page is still dirty)
   takes the "already in table" branch and the chunk never gets its chunk-table record -- it reads as fill after a reopen */
#ifdef STRICT_RETRY
#define STRICT 1
#else
#define STRICT 0
#endif
static int32 HMCPchunkwrite(void *cookie, int32 chunk_num, const void *datap)
    __CPROVER_requires(INFO_WF && LOGS0 && g_tree_mode == 0 && NODE_WF && cookie == (void *)g_arec && DIMS_OK)
    __CPROVER_requires(datap != NULL && g_j >= 0 && g_j < CBYTES)
    __CPROVER_requires(g_node != NULL ==> (g_chk->chk_tag == g_tag0 && g_chk->chk_ref == g_ref0))
    __CPROVER_assigns(g_find_n, g_find_key, g_sw_n, g_hc_n, g_st_fid, g_st_tag, g_st_ref, g_st_len, g_wr_n, g_rw_id, g_rw_len, g_rw_buf,
                      g_written_j, g_end_n, g_end_id, g_open, g_newref_n, g_vsw_n, g_vsw_id, g_vsw_nelt, g_vsw_il, g_vsw_origin_k,
                      g_vsw_tag, g_vsw_ref, g_oom; g_node != NULL: g_chk->chk_tag, g_chk->chk_ref)
    __CPROVER_ensures(g_find_n == 1 && g_find_key == chunk_num)
    /* a chunk without a record in the tree cannot be paged out: nothing reaches the file */
    __CPROVER_ensures(g_node == NULL ==> (__CPROVER_return_value == FAIL && g_sw_n == 0 && g_hc_n == 0 && g_wr_n == 0 && g_vsw_n == 0))
    /* success: exactly chunk_size*nt_size bytes of the page, written once, under the tag/ref of the chunk record */
    __CPROVER_ensures(__CPROVER_return_value != FAIL ==>
                      (__CPROVER_return_value == CBYTES && g_wr_n == 1 && g_rw_id == CHKID && g_rw_len == CBYTES && g_rw_buf == datap &&
                       g_written_j == ((const uint8 *)datap)[g_j] && g_end_n == 1 && g_end_id == CHKID && g_open == 0 &&
                       g_sw_n + g_hc_n == 1 && g_st_fid == FID && g_st_tag == g_chk->chk_tag && g_st_ref == g_chk->chk_ref &&
                       (g_sw_n == 1 ==> g_st_len == CBYTES)))
    /* a chunk that is already in the chunk table keeps its tag/ref; no second table record, no new ref */
    __CPROVER_ensures(OLDCH ==> (g_chk->chk_tag == g_tag0 && g_chk->chk_ref == g_ref0 && g_vsw_n == 0 && g_newref_n == 0 && g_hc_n == 0))
    /* a new chunk: one new ref, exactly one chunk-table record (origin, tag, ref) appended to the table of THIS element */
    __CPROVER_ensures((NEWCH && __CPROVER_return_value != FAIL) ==>
                      (g_chk->chk_tag == DFTAG_CHUNK && g_chk->chk_ref == g_newref && g_newref != 0 && g_newref_n == 1 && g_vsw_n == 1 &&
                       g_vsw_id == VSID && g_vsw_nelt == 1 && g_vsw_il == FULL_INTERLACE && g_vsw_tag == DFTAG_CHUNK &&
                       g_vsw_ref == g_newref && g_vsw_origin_k == g_chk->origin[g_k] && (IS_COMP ? g_hc_n == 1 : g_sw_n == 1)))
    __CPROVER_ensures(g_vsw_n <= 1 && g_newref_n <= 1 && g_wr_n <= 1)
    /* totality: when the layers below succeed the page-out succeeds */
    __CPROVER_ensures((g_node != NULL && ALL_OK && !g_oom && (NEWCH ==> g_newref != 0)) ==> __CPROVER_return_value == CBYTES)
    __CPROVER_ensures(!g_end_fail ==> g_open == 0)
    __CPROVER_ensures((STRICT && NEWCH && __CPROVER_return_value == FAIL && (g_vsw_n == 0 || g_vsw_fail)) ==> g_chk->chk_tag == DFTAG_NULL);

/* ---- HMCPseek: 1 dimension (dimension and chunk length arbitrary) -------------------------------------------- */
#ifndef DL
#define DL 10 /* dimension and chunk length of the HMCPseek obligations (division by an unknown: no answer in 10 min) */
#define CL 3
#endif
#define EFF(off, org, p0) ((int64_t)(off) + ((org) == DF_CURRENT ? (int64_t)(p0) : 0) + ((org) == DF_END ? (int64_t)g_info->length * NT : 0))
#define SEEK_WF                                                                                              \
    (DIMS_OK && NDIMS == 1 && g_info->seek_chunk_indices != NULL && g_info->seek_pos_chunk != NULL &&         \
     g_info->ddims[0].dim_length == DL && g_info->ddims[0].chunk_length == CL && g_info->length >= 0 && g_info->length <= 0x7fffffff / NT)
static int32 HMCPseek(accrec_t *access_rec, int32 offset, int origin)
    __CPROVER_requires(INFO_WF && SEEK_WF && access_rec == g_arec && g_arec->special == SPECIAL_CHUNKED)
    /* the position arithmetic itself stays inside int32 (positions beyond 2 GB: property C20) */
    __CPROVER_requires(EFF(offset, origin, g_arec->posn) <= 0x7fffffff && EFF(offset, origin, g_arec->posn) >= -0x7fffffff)
    __CPROVER_assigns(g_arec->posn, g_info->seek_chunk_indices[0], g_info->seek_pos_chunk[0])
    /* a position before the start of the element is refused and nothing moves */
    __CPROVER_ensures(EFF(offset, origin, __CPROVER_old(g_arec->posn)) < 0 ==>
                      (__CPROVER_return_value == FAIL && g_arec->posn == __CPROVER_old(g_arec->posn) &&
                       g_info->seek_chunk_indices[0] == __CPROVER_old(g_info->seek_chunk_indices[0]) &&
                       g_info->seek_pos_chunk[0] == __CPROVER_old(g_info->seek_pos_chunk[0])))
    /* otherwise: DF_START absolute, DF_CURRENT relative to the position, DF_END relative to length*nt_size;
       the chunk index and the position in the chunk are those of element EFF/NT */
    __CPROVER_ensures(EFF(offset, origin, __CPROVER_old(g_arec->posn)) >= 0 ==>
                      (__CPROVER_return_value == SUCCEED && g_arec->posn == EFF(offset, origin, __CPROVER_old(g_arec->posn)) &&
                       g_info->seek_chunk_indices[0] == ((g_arec->posn / NT) % DL) / CL &&
                       g_info->seek_pos_chunk[0] == ((g_arec->posn / NT) % DL) % CL));

/* ---- helpers already under contract in hchunks_u.c (obligations seek_pos_chunk, chunk_to_array, array_to_seek) -- */
#define MAXND 32
static void compute_chunk_to_array(int32 *chunk_indices, int32 *chunk_array_ind, int32 *array_indices, int32 ndims, DIM_REC *ddims)
    __CPROVER_requires(ndims >= 1 && ndims <= 1024 && g_k >= 0 && g_k < ndims)
    __CPROVER_assigns(__CPROVER_object_upto(array_indices, sizeof(int32) * ndims))
    __CPROVER_ensures(1);
static void compute_array_to_seek(int32 *user_seek, int32 *array_indices, int32 nt_size, int32 ndims, DIM_REC *ddims)
    __CPROVER_requires(ndims >= 1 && ndims <= 1024 && nt_size == NT)
    __CPROVER_assigns(*user_seek)
    __CPROVER_ensures(ndims == 1 ==> *user_seek == array_indices[0] * NT);
static void update_seek_pos_chunk(int32 chunk_seek, int32 ndims, int32 nt_size, int32 *spb, DIM_REC *ddims)
    __CPROVER_requires(ndims >= 1 && ndims <= MAXND && nt_size == NT && chunk_seek >= 0 && g_k >= 0 && g_k < ndims)
    __CPROVER_requires(__CPROVER_forall { int i; (0 <= i && i < MAXND) ==> (i < ndims ==> ddims[i].chunk_length >= 1) })
    __CPROVER_assigns(__CPROVER_object_upto(spb, sizeof(int32) * ndims))
    __CPROVER_ensures(spb[g_k] >= 0 && spb[g_k] < ddims[g_k].chunk_length);

/* ---- whole-chunk access ---------------------------------------------------------------------------------------- */
int32 *g_origin; /* the origin argument (NDIMS entries) */
int32  g_num_recs0;
/* chunk origin -> chunk number: row-major over the chunk grid (the same map the hyperslab path uses) */
#if NDIMS == 1
#define CHNUM(o) ((o)[0])
#else
#define CHNUM(o) ((o)[0] * g_info->ddims[1].num_chunks + (o)[1])
#endif
#if NDIMS == 1
#define CLEN(i) CSZ
#define CLEN_OK (g_info->ddims[0].chunk_length == CSZ && g_info->ddims[0].num_chunks <= 0xfff && g_info->ddims[0].dim_length <= 0x3fff)
#else
#define CLEN(i) ((i) == 0 ? 2 : CSZ / 2)
#define CLEN_OK (g_info->ddims[0].chunk_length == 2 && g_info->ddims[1].chunk_length == CSZ / 2 && g_info->ddims[0].num_chunks <= 0xfff && g_info->ddims[1].num_chunks <= 0xfff && g_info->ddims[0].dim_length <= 0x3fff && g_info->ddims[1].dim_length <= 0x3fff)
#endif
#define CHUNK_WF                                                                                             \
    (DIMS_OK && g_info->seek_chunk_indices != NULL && g_info->seek_pos_chunk != NULL && g_info->seek_user_indices != NULL &&   \
     g_info->chunk_size == CSZ && CLEN_OK && CBYTES <= MAXCB && g_page != NULL && g_frec != NULL && g_frec->refcount >= 1 && g_info->num_recs == g_num_recs0 && g_num_recs0 >= 0 && g_num_recs0 < 0x7fffffff)
#define ARGS_OK(id, o, d) ((id) == AID && (o) != NULL && (d) != NULL)

int32 HMCreadChunk(int32 access_id, int32 *origin, void *datap)
    __CPROVER_requires(INFO_WF && LOGS0 && g_tree_mode == 0 && CHUNK_WF && (origin == NULL || origin == g_origin) && g_j >= 0 && g_j < CBYTES)
    __CPROVER_assigns(__CPROVER_object_upto(datap, (size_t)CBYTES), g_get_n, g_get_pgno, g_put_n, g_put_flags, g_pinned, g_pinned_page,
                      g_arec->posn, __CPROVER_object_whole(g_info->seek_chunk_indices), __CPROVER_object_whole(g_info->seek_pos_chunk),
                      __CPROVER_object_whole(g_info->seek_user_indices))
    __CPROVER_ensures((!ARGS_OK(access_id, origin, datap) || !(g_frec->access & DFACC_READ) || g_arec->special != SPECIAL_CHUNKED) ==>
                      (__CPROVER_return_value == FAIL && g_get_n == 0))
    /* the page asked from the cache is the chunk at that origin (cache pages are numbered from 1) */
    __CPROVER_ensures(g_get_n == 1 ==> g_get_pgno == CHNUM(g_origin) + 1)
    /* success: the whole chunk, byte for byte the cached page; the page goes back clean; exactly one get/put */
    __CPROVER_ensures(__CPROVER_return_value != FAIL ==>
                      (__CPROVER_return_value == CBYTES && g_get_n == 1 && g_put_n == 1 && g_put_flags == 0 && !g_pinned &&
                       ((uint8 *)datap)[g_j] == g_page[g_j] && g_info->seek_chunk_indices[g_k] == g_origin[g_k]))
    __CPROVER_ensures((ARGS_OK(access_id, origin, datap) && (g_frec->access & DFACC_READ) && g_arec->special == SPECIAL_CHUNKED) ==>
                      ((__CPROVER_return_value == FAIL) == (g_get_fail || g_put_fail)))
    __CPROVER_ensures(g_get_fail ==> g_put_n == 0);

int32 HMCwriteChunk(int32 access_id, int32 *origin, const void *datap)
    __CPROVER_requires(INFO_WF && LOGS0 && g_tree_mode == 0 && NODE_WF && CHUNK_WF && (origin == NULL || origin == g_origin) && g_j >= 0 && g_j < CBYTES)
    __CPROVER_assigns(__CPROVER_object_upto(g_page, (size_t)CBYTES), g_get_n, g_get_pgno, g_put_n, g_put_flags, g_pinned, g_pinned_page,
                      g_find_n, g_find_key, g_ins_n, g_ins_key, g_ins_item, __CPROVER_object_whole(&g_newnode), g_info->num_recs, g_oom,
                      g_arec->posn, __CPROVER_object_whole(g_info->seek_chunk_indices), __CPROVER_object_whole(g_info->seek_pos_chunk),
                      __CPROVER_object_whole(g_info->seek_user_indices))
    __CPROVER_ensures((!ARGS_OK(access_id, origin, datap) || !(g_frec->access & DFACC_WRITE) || g_arec->special != SPECIAL_CHUNKED) ==>
                      (__CPROVER_return_value == FAIL && g_get_n == 0 && g_ins_n == 0 && g_info->num_recs == g_num_recs0))
    __CPROVER_ensures(g_get_n == 1 ==> (g_get_pgno == CHNUM(g_origin) + 1 && g_find_n == 1 && g_find_key == CHNUM(g_origin)))
    /* success: the page of that chunk holds the caller's bytes and goes back DIRTY */
    __CPROVER_ensures(__CPROVER_return_value != FAIL ==>
                      (__CPROVER_return_value == CBYTES && g_get_n == 1 && g_put_n == 1 && g_put_flags == MCACHE_DIRTY && !g_pinned &&
                       g_page[g_j] == ((const uint8 *)datap)[g_j] && g_info->seek_chunk_indices[g_k] == g_origin[g_k]))
    __CPROVER_ensures((ARGS_OK(access_id, origin, datap) && (g_frec->access & DFACC_WRITE) && g_arec->special == SPECIAL_CHUNKED && !g_oom) ==>
                      ((__CPROVER_return_value == FAIL) == (g_get_fail || g_put_fail)))
    /* a chunk seen for the first time gets ONE record in the chunk tree: not stored yet (tag NULL), keyed by its chunk
       number, carrying its origin, numbered as the next chunk-table record */
    __CPROVER_ensures((g_get_n == 1 && g_node == NULL) ==>
                      (g_ins_n == 1 && g_ins_key == CHNUM(g_origin) && g_ins_item != NULL && g_ins_item->chk_tag == DFTAG_NULL &&
                       g_ins_item->chk_ref == 0 && g_ins_item->chunk_number == CHNUM(g_origin) && g_ins_item->chk_vnum == g_num_recs0 &&
                       g_ins_item->origin[g_k] == g_origin[g_k] && g_info->num_recs == g_num_recs0 + 1))
    __CPROVER_ensures(g_node != NULL ==> (g_ins_n == 0 && g_info->num_recs == g_num_recs0));

/* ---- HMCPcloseAID: the last detach flushes the chunk cache --------------------------------------------------- */
#ifdef NOFREE
#ifdef STRICT_REPORT
#define REPORT 1
#else
#define REPORT 0
#endif
int32 HMCPcloseAID(accrec_t *access_rec)
    __CPROVER_requires(INFO_WF && access_rec == g_arec && g_info->attached == 1 && g_sync_n == 0 && g_close_n == 0 && g_free_n == 0)
    __CPROVER_assigns(g_sync_n, g_close_n, g_vsd_n, g_vend_n, g_tfree_n, g_free_n, g_arec->special_info, g_info->attached)
    /* the last detach flushes the chunk cache exactly once and closes it */
    __CPROVER_ensures(g_sync_n == 1 && g_close_n == 1)
    /* dirty chunks that could not be written back (mcache_sync / mcache_close report it) must not be lost silently */
    __CPROVER_ensures((REPORT && (g_sync_ret == FAIL || g_close_ret == FAIL)) ==> __CPROVER_return_value == FAIL)
    __CPROVER_ensures((g_sync_ret != FAIL && g_close_ret != FAIL && !g_vsd_fail && !g_vend_fail) ==>
                      (__CPROVER_return_value == SUCCEED && g_arec->special_info == NULL && g_vsd_n == 1 && g_vend_n == 1 && g_free_n == 9));
#endif

/* ---- HMCPread / HMCPwrite: split of a request over chunks (bounded: constant extents and chunk shape) ----------- */
#ifndef D1
#define D0 1 /* slow dimension, chunk length along it */
#define C0 1
#define D1 7 /* fast dimension, chunk length along it (does not divide: the last chunk is partial) */
#define C1 3
#endif
#define NC0 ((D0 + C0 - 1) / C0)
#define NC1 ((D1 + C1 - 1) / C1)
#define TOTB (D0 * D1 * NT) /* bytes of the element */
#define CHB (C0 * C1 * NT)  /* bytes of a chunk */
int32 g_posn0, g_c, g_o;    /* position on entry; ghost (chunk, offset in chunk) */
/* where byte j of a request that starts at g_posn0 lives: element e -> (row, column) -> chunk of the row-major chunk grid,
   row-major offset inside the chunk */
#define EL(j) ((g_posn0 + (j)) / NT)
#define ROW(j) (EL(j) / D1)
#define COL(j) (EL(j) % D1)
#define CH(j) ((ROW(j) / C0) * NC1 + COL(j) / C1)
#define OFF(j) (((ROW(j) % C0) * C1 + COL(j) % C1) * NT + (g_posn0 + (j)) % NT)
/* the inverse: element position of (chunk c, offset o), or -1 for a byte in the ghost area of an edge chunk */
#define LROW(c, o) (((c) / NC1) * C0 + ((o) / NT) / C1)
#define LCOL(c, o) (((c) % NC1) * C1 + ((o) / NT) % C1)
#define LIN(c, o) ((LROW(c, o) < D0 && LCOL(c, o) < D1) ? (LROW(c, o) * D1 + LCOL(c, o)) * NT + (o) % NT : -1)
#define DIMK_OK(k, D, C)                                                                                     \
    (g_info->ddims[k].dim_length == (D) && g_info->ddims[k].chunk_length == (C) && g_info->ddims[k].num_chunks == ((D) + (C)-1) / (C) && \
     g_info->ddims[k].last_chunk_length == (((D) % (C)) ? (D) % (C) : (C)))
#if NDIMS == 1
#define RW_DIMS (DIMK_OK(0, D1, C1))
#else
#define RW_DIMS (DIMK_OK(0, D0, C0) && DIMK_OK(1, D1, C1))
#endif
#define RW_WF                                                                                                \
    (INFO_WF && LOGS0 && g_tree_mode == 1 && DIMS_OK && RW_DIMS && g_info->chunk_size == C0 * C1 && g_info->length == D0 * D1 &&       \
     g_info->seek_chunk_indices != NULL && g_info->seek_pos_chunk != NULL && g_pagesv != NULL && NC0 * NC1 <= MAXCH && CHB <= PGSZ &&     \
     g_arec->posn == g_posn0 && g_posn0 >= 0 && g_posn0 <= TOTB && g_posn0 % NT == 0 && g_frec != NULL && g_frec->refcount >= 1)
#define RD_N(len) (((len) == 0 || g_posn0 + (len) > TOTB) ? TOTB - g_posn0 : (len))

static int32 HMCPread(accrec_t *access_rec, int32 length, void *datap)
    __CPROVER_requires(RW_WF && access_rec == g_arec && datap != NULL && length <= TOTB && g_j >= 0 && g_j < TOTB)
    __CPROVER_assigns(__CPROVER_object_upto(datap, (size_t)TOTB), g_get_n, g_get_pgno, g_put_n, g_put_flags, g_pinned, g_pinned_page, g_arec->posn,
                      __CPROVER_object_whole(g_info->seek_chunk_indices), __CPROVER_object_whole(g_info->seek_pos_chunk))
    __CPROVER_ensures(length < 0 ==> (__CPROVER_return_value == FAIL && g_get_n == 0 && g_arec->posn == g_posn0))
    /* the request is cut at the end of the element; length 0 = the rest; the position advances by what was delivered */
    __CPROVER_ensures((length >= 0 && !g_get_fail && !g_put_fail) ==>
                      (__CPROVER_return_value == RD_N(length) && g_arec->posn == g_posn0 + RD_N(length) && g_get_n == g_put_n && !g_pinned))
    /* C04: byte j of the result is the byte of the chunk that holds element (posn+j)/nt_size, at its row-major place in the chunk */
    __CPROVER_ensures((length >= 0 && !g_get_fail && !g_put_fail && g_j < RD_N(length)) ==>
                      ((uint8 *)datap)[g_j] == g_pagesv[CH(g_j) * PGSZ + OFF(g_j)])
    /* reading never marks a chunk dirty (g_dirty is not assignable) */
    __CPROVER_ensures((g_get_fail && length >= 0 && RD_N(length) > 0) ==> __CPROVER_return_value == FAIL);

static int32 HMCPwrite(accrec_t *access_rec, int32 length, const void *datap)
    __CPROVER_requires(RW_WF && access_rec == g_arec && datap != NULL && length <= TOTB - g_posn0 && g_j >= 0 && g_j < TOTB)
    __CPROVER_requires(g_c >= 0 && g_c < NC0 * NC1 && g_o >= 0 && g_o < CHB)
    __CPROVER_assigns(__CPROVER_object_upto(g_pagesv, (size_t)(MAXCH * PGSZ)), g_get_n, g_get_pgno, g_put_n, g_put_flags, g_pinned, g_pinned_page,
                      g_arec->posn, __CPROVER_object_whole(g_info->seek_chunk_indices), __CPROVER_object_whole(g_info->seek_pos_chunk),
                      g_find_n, g_find_key, g_ins_n, g_ins_key, g_ins_item, __CPROVER_object_whole(g_nodes), __CPROVER_object_whole(g_present),
                      __CPROVER_object_whole(g_dirty), g_info->num_recs, g_oom)
    __CPROVER_ensures(length <= 0 ==> (__CPROVER_return_value == FAIL && g_get_n == 0 && g_arec->posn == g_posn0))
    __CPROVER_ensures((length > 0 && !g_get_fail && !g_put_fail && !g_oom) ==>
                      (__CPROVER_return_value == length && g_arec->posn == g_posn0 + length && g_get_n == g_put_n && !g_pinned))
    /* C04: byte j of the request lands in the chunk that holds its element, at its row-major place; that chunk is dirty and
       has a record in the chunk tree */
    __CPROVER_ensures((length > 0 && !g_get_fail && !g_put_fail && !g_oom && g_j < length) ==>
                      (g_pagesv[CH(g_j) * PGSZ + OFF(g_j)] == ((const uint8 *)datap)[g_j] && g_dirty[CH(g_j)] == 1 && g_present[CH(g_j)] == 1))
    /* nothing else changes: a byte of any chunk whose element is outside the request (or that lies in the ghost area of an
       edge chunk) keeps its value */
    __CPROVER_ensures((LIN(g_c, g_o) < g_posn0 || LIN(g_c, g_o) >= g_posn0 + (length > 0 ? length : 0)) ==>
                      g_pagesv[g_c * PGSZ + g_o] == __CPROVER_old(g_pagesv[g_c * PGSZ + g_o]));

#ifdef H4V_NATIVE
#include "h4v_native_wrap.h"
#endif

/* ---------------------------------------------------------------- harnesses */
static void
mk_env(void)
{
    g_frec = calloc(1, sizeof(filerec_t));
    g_arec = calloc(1, sizeof(accrec_t));
    g_info = calloc(1, sizeof(chunkinfo_t));
    g_tree = malloc(sizeof(TBBT_TREE));
    g_mc   = malloc(8);
    H4V_ASSUME(g_frec && g_arec && g_info && g_tree && g_mc);
    H4V_HAVOC(int32, g_j);
    H4V_HAVOC(int32, g_k);
    H4V_ND(int32, i_chunk_size);
    H4V_ND(int32, i_length);
    H4V_ND(int32, i_num_recs);
    H4V_ND(int32, i_flag);
    H4V_ND(int32, a_posn);
    H4V_ND(int, i_attached);
    g_frec->access   = DFACC_RDWR;
    g_frec->refcount = 1;
    g_frec->attach   = 1;
    g_arec->file_id      = FID;
    g_arec->special      = SPECIAL_CHUNKED;
    g_arec->special_info = g_info;
    g_arec->access       = DFACC_RDWR;
    g_arec->posn         = a_posn;
    g_info->attached     = i_attached;
    g_info->aid          = VSID;
    g_info->flag         = i_flag;
    g_info->length       = i_length;
    g_info->chunk_size   = i_chunk_size;
    g_info->nt_size      = NT;
    g_info->num_recs     = i_num_recs;
    g_info->chk_tree     = g_tree;
    g_info->chk_cache    = g_mc;
    g_info->fill_val_len = NT;
    H4V_ND_BUF(uint8, fillv, NT, 8);
    g_info->fill_val = fillv;
    g_tree_mode = 0;
    g_node = NULL;
    g_chk  = NULL;
    g_find_n = g_ins_n = g_mf_n = g_sr_n = g_sw_n = g_rd_n = g_wr_n = g_end_n = g_open = g_newref_n = g_hc_n = g_vsw_n = 0;
    g_get_n = g_put_n = g_pinned = g_sync_n = g_close_n = g_tfree_n = g_vsd_n = g_vend_n = g_htpend_n = g_rel_n = 0;
    g_oom = g_get_fail = g_put_fail = g_start_fail = g_rw_fail = g_end_fail = g_vsw_fail = g_vsd_fail = g_vend_fail = 0;
    g_sync_ret = g_close_ret = 0;
    g_put_flags = -1;
    g_find_key = g_ins_key = g_get_pgno = -1;
    g_ins_item = NULL;
    g_page = NULL;
    g_pinned_page = NULL;
    g_mf_dest = NULL;
    g_rw_buf = NULL;
}

/* a chunk record in the tree (or none) */
static void
mk_node(int32 ndims)
{
    H4V_ND(int, chunk_known);
    if (chunk_known) {
        g_node = malloc(sizeof(TBBT_NODE));
        g_chk  = malloc(sizeof(CHUNK_REC));
        H4V_ASSUME(g_node != NULL && g_chk != NULL);
        H4V_ND(uint16, c_tag);
        H4V_ND(uint16, c_ref);
        H4V_ND(int32, c_num);
        g_chk->chunk_number = c_num;
        g_chk->chk_vnum     = 0;
        g_chk->chk_tag      = c_tag;
        g_chk->chk_ref      = c_ref;
        H4V_ND_BUF(int32, c_origin, ndims, 2);
        g_chk->origin = c_origin;
        g_node->data  = g_chk;
        g_node->key   = NULL;
        g_node->priv  = NULL;
    }
}

void
h_HMCPchunkread(void)
{
    mk_env();
    mk_node(1);
    H4V_ASSUME(g_info->chunk_size >= 1 && g_info->chunk_size <= 0x1000000 / NT);
    H4V_ND(int32, chunk_num);
    H4V_ND(int, st_fail);
    H4V_ND(int, rw_fail);
    H4V_ND(int, en_fail);
    H4V_HAVOC(uint8, g_stored_j);
    g_start_fail = st_fail != 0;
    g_rw_fail    = rw_fail != 0;
    g_end_fail   = en_fail != 0;
    H4V_ASSUME(g_j >= 0 && g_j < g_info->chunk_size * NT);
    H4V_ND_BUF(uint8, page, g_info->chunk_size * NT, 16);
    int32 r = HMCPchunkread(g_arec, chunk_num, page);
    H4V_COVER(g_node == NULL && r == 0, "HMCPchunkread chunk without a record: fill");
    H4V_COVER(g_node != NULL && g_chk->chk_tag == DFTAG_NULL && r == 0, "HMCPchunkread record without object: fill");
    H4V_COVER(r > 0 && g_chk->chk_tag == DFTAG_CHUNK, "HMCPchunkread stored chunk read");
    H4V_COVER(r == FAIL && g_rw_fail && !g_start_fail, "HMCPchunkread Hread fails");
    H4V_COVER(r == FAIL && g_node != NULL && g_chk->chk_tag == DFTAG_VH, "HMCPchunkread wrong tag");
    H4V_CANARY("HMCPchunkread end");
}

static void
mk_dims(void)
{
    g_info->ndims              = NDIMS;
    g_info->ddims              = malloc(NDIMS * sizeof(DIM_REC));
    g_info->seek_chunk_indices = malloc(NDIMS * sizeof(int32));
    g_info->seek_pos_chunk     = malloc(NDIMS * sizeof(int32));
    g_info->seek_user_indices  = malloc(NDIMS * sizeof(int32));
    H4V_ASSUME(g_info->ddims && g_info->seek_chunk_indices && g_info->seek_pos_chunk && g_info->seek_user_indices);
    H4V_ASSUME(g_k >= 0 && g_k < NDIMS);
    for (int i = 0; i < NDIMS; i++) {
        H4V_ND(int32, dim_length);
        H4V_ND(int32, chunk_length);
        H4V_ND(int32, num_chunks);
        H4V_ND(int32, last_chunk_length);
        H4V_ND(int32, sbi0);
        H4V_ND(int32, spb0);
        H4V_ASSUME(dim_length >= 1 && chunk_length >= 1 && num_chunks >= 1 && num_chunks <= 0x7fff && last_chunk_length >= 1 &&
                   last_chunk_length <= chunk_length);
        g_info->ddims[i].flag = g_info->ddims[i].distrib_type = g_info->ddims[i].unlimited = 0;
        g_info->ddims[i].dim_length        = dim_length;
        g_info->ddims[i].chunk_length      = chunk_length;
        g_info->ddims[i].num_chunks        = num_chunks;
        g_info->ddims[i].last_chunk_length = last_chunk_length;
        g_info->seek_chunk_indices[i]      = sbi0;
        g_info->seek_pos_chunk[i]          = spb0;
        g_info->seek_user_indices[i]       = 0;
    }
}

void
h_HMCPchunkwrite(void)
{
    mk_env();
    mk_dims();
    mk_node(NDIMS);
    H4V_ASSUME(g_info->chunk_size >= 1 && g_info->chunk_size <= 0x1000000 / NT);
    if (g_node != NULL) {
        g_tag0 = g_chk->chk_tag;
        g_ref0 = g_chk->chk_ref;
    }
    else
        g_tag0 = g_ref0 = 0;
    H4V_ND(int32, chunk_num);
    H4V_ND(int, st_fail);
    H4V_ND(int, rw_fail);
    H4V_ND(int, en_fail);
    H4V_ND(int, vs_fail);
    H4V_HAVOC(uint16, g_newref);
    g_start_fail = st_fail != 0;
    g_rw_fail    = rw_fail != 0;
    g_end_fail   = en_fail != 0;
    g_vsw_fail   = vs_fail != 0;
    H4V_ASSUME(g_j >= 0 && g_j < g_info->chunk_size * NT);
    H4V_ND_BUF(uint8, page, g_info->chunk_size * NT, 16);
    int32 r = HMCPchunkwrite(g_arec, chunk_num, page);
    H4V_COVER(r > 0 && g_tag0 == DFTAG_NULL && (g_info->flag & 0xff) == 0, "HMCPchunkwrite new chunk");
    H4V_COVER(r > 0 && g_tag0 == DFTAG_NULL && (g_info->flag & 0xff) == SPECIAL_COMP, "HMCPchunkwrite new compressed chunk");
    H4V_COVER(r > 0 && g_tag0 == DFTAG_CHUNK, "HMCPchunkwrite stored chunk rewritten");
    H4V_COVER(r == FAIL && g_node == NULL, "HMCPchunkwrite no record");
    H4V_COVER(r == FAIL && g_vsw_fail && g_tag0 == DFTAG_NULL && g_node != NULL, "HMCPchunkwrite chunk table write fails");
    H4V_CANARY("HMCPchunkwrite end");
}

void
h_HMCPseek(void)
{
    mk_env();
    mk_dims();
    H4V_ASSUME(g_info->chunk_size >= 1 && g_info->chunk_size <= 0x1000000 / NT);
    H4V_ASSUME(g_info->length >= 0 && g_info->length <= 0x7fffffff / NT);
    g_info->ddims[0].dim_length   = DL;
    g_info->ddims[0].chunk_length = CL;
    H4V_ND(int32, offset);
    H4V_ND(int, origin);
    H4V_ASSUME(EFF(offset, origin, g_arec->posn) <= 0x7fffffff && EFF(offset, origin, g_arec->posn) >= -0x7fffffff);
    int32 r = HMCPseek(g_arec, offset, origin);
    H4V_COVER(r == FAIL && origin == DF_START, "HMCPseek negative absolute offset refused");
    H4V_COVER(r == FAIL && origin == DF_END, "HMCPseek before start from the end refused");
    H4V_COVER(r == SUCCEED && origin == DF_END && offset < 0, "HMCPseek from the end");
    H4V_COVER(r == SUCCEED && origin == DF_CURRENT && offset < 0, "HMCPseek backwards");
    H4V_COVER(r == SUCCEED && g_info->seek_chunk_indices[0] > 0 && g_info->seek_pos_chunk[0] > 0, "HMCPseek inner chunk, inner position");
    H4V_CANARY("HMCPseek end");
}

static int32 h_origin[NDIMS];
static void
mk_chunk_env(void)
{
    mk_env();
    mk_dims();
    g_info->chunk_size = CSZ;
    /* the chunk shape is a constant of the obligation (CSZ = product of the chunk lengths); the chunk grid and the dimension lengths are arbitrary */
    for (int i = 0; i < NDIMS; i++) {
        g_info->ddims[i].chunk_length = CLEN(i);
        H4V_ASSUME(g_info->ddims[i].num_chunks <= 0xfff && g_info->ddims[i].dim_length <= 0x3fff && g_info->ddims[i].last_chunk_length <= CLEN(i));
    }
    H4V_ASSUME(g_j >= 0 && g_j < g_info->chunk_size * NT);
    H4V_ASSUME(g_info->num_recs >= 0 && g_info->num_recs < 0x7fffffff);
    g_num_recs0 = g_info->num_recs;
    H4V_ND(int, f_access);
    H4V_ND(int, a_special);
    H4V_ASSUME((f_access & DFACC_ALL) == f_access);
    g_frec->access  = f_access;
    g_arec->special = a_special;
    for (int i = 0; i < NDIMS; i++) {
        H4V_ND(int32, org);
        H4V_ASSUME(org >= 0 && org < g_info->ddims[i].num_chunks);
        h_origin[i] = org;
    }
    g_origin = h_origin;
    H4V_ND_BUF(uint8, cpage, CSZ * NT, 16);
    g_page = cpage;
    H4V_ND(int, get_fail);
    H4V_ND(int, put_fail);
    g_get_fail = get_fail != 0;
    g_put_fail = put_fail != 0;
}

void
h_HMCreadChunk(void)
{
    mk_chunk_env();
    H4V_ND(int32, access_id);
    H4V_ND(int, null_origin);
    H4V_ND(int, null_data);
    H4V_ND_BUF(uint8, ubuf, CSZ * NT, 16);
    int32 r = HMCreadChunk(access_id, null_origin ? NULL : h_origin, null_data ? NULL : ubuf);
    H4V_COVER(r > 0 && h_origin[NDIMS - 1] > 0 && h_origin[0] > 0, "HMCreadChunk inner chunk read");
    H4V_COVER(r == FAIL && access_id == AID && g_get_fail && g_get_n == 1, "HMCreadChunk cache cannot deliver the chunk");
    H4V_COVER(r == FAIL && access_id == AID && !null_origin && !null_data && !(g_frec->access & DFACC_READ), "HMCreadChunk no read access");
    H4V_CANARY("HMCreadChunk end");
}

void
h_HMCwriteChunk(void)
{
    mk_chunk_env();
    mk_node(NDIMS);
    H4V_ND(int32, access_id);
    H4V_ND(int, null_origin);
    H4V_ND(int, null_data);
    H4V_ND_BUF(uint8, ubuf, CSZ * NT, 16);
    int32 r = HMCwriteChunk(access_id, null_origin ? NULL : h_origin, null_data ? NULL : ubuf);
    H4V_COVER(r > 0 && g_node == NULL && h_origin[NDIMS - 1] > 0 && h_origin[0] > 0, "HMCwriteChunk first write of an inner chunk");
    H4V_COVER(r > 0 && g_node != NULL, "HMCwriteChunk chunk already known");
    H4V_COVER(r == FAIL && g_put_fail && g_put_n == 1, "HMCwriteChunk put fails");
    H4V_COVER(r == FAIL && access_id == AID && !null_origin && !null_data && !(g_frec->access & DFACC_WRITE), "HMCwriteChunk read-only file");
    H4V_CANARY("HMCwriteChunk end");
}

#ifdef NOFREE
void
h_HMCPcloseAID(void)
{
    g_free_n = 0;
    mk_env();
    mk_dims();
    H4V_ASSUME(g_info->chunk_size >= 1 && g_info->chunk_size <= 0x1000000 / NT);
    g_info->attached = 1;
    H4V_ND(int, sync_ret);
    H4V_ND(int, close_ret);
    H4V_ND(int, vsd_fail);
    H4V_ND(int, vend_fail);
    H4V_ASSUME(sync_ret == FAIL || sync_ret == SUCCEED);
    H4V_ASSUME(close_ret == FAIL || close_ret == SUCCEED);
    g_sync_ret  = sync_ret;
    g_close_ret = close_ret;
    g_vsd_fail  = vsd_fail != 0;
    g_vend_fail = vend_fail != 0;
    int32 r = HMCPcloseAID(g_arec);
    H4V_COVER(r == SUCCEED, "HMCPcloseAID flushed and closed");
    H4V_COVER(g_sync_ret == FAIL, "HMCPcloseAID cache sync fails");
    H4V_CANARY("HMCPcloseAID end");
}
#endif

static void
mk_rw_env(void)
{
    mk_env();
    mk_dims();
    g_tree_mode        = 1;
    g_info->chunk_size = C0 * C1;
    g_info->length     = D0 * D1;
#if NDIMS == 1
    g_info->ddims[0].dim_length = D1; g_info->ddims[0].chunk_length = C1;
#else
    g_info->ddims[0].dim_length = D0; g_info->ddims[0].chunk_length = C0;
    g_info->ddims[1].dim_length = D1; g_info->ddims[1].chunk_length = C1;
#endif
    for (int i = 0; i < NDIMS; i++) { /* as HMCcreate / HMCIstaccess compute them */
        g_info->ddims[i].num_chunks        = (g_info->ddims[i].dim_length + g_info->ddims[i].chunk_length - 1) / g_info->ddims[i].chunk_length;
        g_info->ddims[i].last_chunk_length = (g_info->ddims[i].dim_length % g_info->ddims[i].chunk_length)
                                                 ? g_info->ddims[i].dim_length % g_info->ddims[i].chunk_length
                                                 : g_info->ddims[i].chunk_length;
    }
    H4V_ASSUME(g_arec->posn >= 0 && g_arec->posn <= TOTB && g_arec->posn % NT == 0);
    g_posn0 = g_arec->posn;
    H4V_ASSUME(g_info->num_recs >= 0 && g_info->num_recs < 1000);
    H4V_ASSUME(g_j >= 0 && g_j < TOTB);
    H4V_HAVOC(int32, g_c);
    H4V_HAVOC(int32, g_o);
    H4V_ASSUME(g_c >= 0 && g_c < NC0 * NC1 && g_o >= 0 && g_o < CHB);
    H4V_ND_BUF(uint8, pages, MAXCH * PGSZ, 64);
    g_pagesv = pages;
    for (int i = 0; i < MAXCH; i++) {
        H4V_ND(int, present);
        g_present[i]    = present != 0;
        g_dirty[i]      = 0;
        g_nodes[i].data = g_nodes[i].key = NULL;
    }
    H4V_ND(int, get_fail);
    H4V_ND(int, put_fail);
    g_get_fail = get_fail != 0;
    g_put_fail = put_fail != 0;
}

void
h_HMCPread(void)
{
    mk_rw_env();
    H4V_ND(int32, length);
    H4V_ASSUME(length <= TOTB);
    H4V_ND_BUF(uint8, ubuf, TOTB, 64);
    int32 r = HMCPread(g_arec, length, ubuf);
    H4V_COVER(r == TOTB, "HMCPread whole element over all chunks");
    H4V_COVER(r > 0 && g_get_n == 1 && g_posn0 > 0, "HMCPread inside one chunk");
    H4V_COVER(r > 0 && length > r, "HMCPread cut at the end of the element");
    H4V_CANARY("HMCPread end");
}

void
h_HMCPwrite(void)
{
    mk_rw_env();
    H4V_ND(int32, length);
    H4V_ASSUME(length <= TOTB - g_posn0);
    H4V_ND_BUF(uint8, ubuf, TOTB, 64);
    int32 r = HMCPwrite(g_arec, length, ubuf);
    H4V_COVER(r == TOTB, "HMCPwrite whole element over all chunks");
    H4V_COVER(r > 0 && g_ins_n == 0, "HMCPwrite into known chunks");
    H4V_COVER(r > 0 && g_ins_n >= 2, "HMCPwrite creates two chunk records");
    H4V_CANARY("HMCPwrite end");
}

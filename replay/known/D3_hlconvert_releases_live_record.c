/* D3 (C13): a failing HLconvert (here: DFE_DENIED on a read-only file, reached through Happendable + Hseek past the end of an
   element that is not last in the file) put the CALLER's still-registered access record on the free list; after Hendaccess the
   record is on the list twice and two later AIDs share it.
   Build: gcc D3_hlconvert_releases_live_record.c -I/repo/hdf/src -I/repo/_build -L/repo/_build/bin -lhdf -Wl,-rpath,/repo/_build/bin
   Before the fix: the two AIDs report the same ref (FAIL).  After: refs 1 and 2 (PASS). */
#include "hdf.h"
#include <stdio.h>
int main(void)
{
    int32 fid = Hopen("d3.hdf", DFACC_CREATE, 0);
    Hputelement(fid, 1000, 1, (const uint8 *)"0123456789", 10);
    Hputelement(fid, 1000, 2, (const uint8 *)"abcdefghij", 10);
    Hclose(fid);
    fid = Hopen("d3.hdf", DFACC_READ, 0);
    int32 aid = Hstartread(fid, 1000, 1);
    Happendable(aid);
    intn r = Hseek(aid, 100, DF_START); /* needs promotion to linked blocks: denied on a read-only file */
    printf("Hseek past the end on a read-only file: %d (FAIL expected)\n", r);
    Hendaccess(aid);
    int32 a1 = Hstartread(fid, 1000, 1), a2 = Hstartread(fid, 1000, 2);
    uint16 r1 = 0, r2 = 0;
    Hinquire(a1, NULL, NULL, &r1, NULL, NULL, NULL, NULL, NULL);
    Hinquire(a2, NULL, NULL, &r2, NULL, NULL, NULL, NULL, NULL);
    printf("aid %d -> ref %u, aid %d -> ref %u\n", (int)a1, r1, (int)a2, r2);
    int bad = !(r1 == 1 && r2 == 2);
    printf(bad ? "FAIL: two valid handles alias one record\n" : "PASS\n");
    return bad;
}

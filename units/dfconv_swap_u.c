/* Verification unit: hdf/src/dfkswap.c (C06: byte-swapping conversion kernels DFKsb2b/4b/8b)
 * Ghost state, predicates, domain and harness bodies: stubs/dfconv_common.h */
#include "dfconv_common.h"
#include "h4v_err.h" /* trusted stubs: error stack (HEclear, HEpush) */

#include "dfkswap.c"

/* ---------------- contracts (taken from the C06 statement) ---------------- */
int DFKsb2b(void *s, void *d, uint32 num_elm, uint32 source_stride, uint32 dest_stride)
    __CPROVER_requires(DFK_DOMAIN(2))
    __CPROVER_requires(num_elm == 0 || s == d || !__CPROVER_same_object(s, d))
    __CPROVER_requires(DFK_GHOSTS(2))
    __CPROVER_requires(num_elm == 0 || (SNAP_2(s, ESS(2) * g_k) && B(d)[g_o] == g_ov))
    __CPROVER_assigns(num_elm >= 1 && CONTIG: __CPROVER_object_upto(B(d), 2 * (size_t)num_elm);
                      num_elm >= 1 && !CONTIG: __CPROVER_object_upto(B(d), (size_t)dest_stride * (size_t)(num_elm - 1) + 2))
    /* no elements is an error, anything else succeeds */
    __CPROVER_ensures(num_elm == 0 ? __CPROVER_return_value == FAIL : __CPROVER_return_value == SUCCEED)
    /* every element of the destination is the byte-reversed source element */
    __CPROVER_ensures(num_elm >= 1 ==> SWAP_2(d, EDS(2) * g_k))
    /* bytes between strided destination elements keep their value */
    __CPROVER_ensures(DFK_IN_GAP(2) ==> B(d)[g_o] == g_ov);

int DFKsb4b(void *s, void *d, uint32 num_elm, uint32 source_stride, uint32 dest_stride)
    __CPROVER_requires(DFK_DOMAIN(4))
    __CPROVER_requires(num_elm == 0 || s == d || !__CPROVER_same_object(s, d))
    __CPROVER_requires(DFK_GHOSTS(4))
    __CPROVER_requires(num_elm == 0 || (SNAP_4(s, ESS(4) * g_k) && B(d)[g_o] == g_ov))
    __CPROVER_assigns(num_elm >= 1 && CONTIG: __CPROVER_object_upto(B(d), 4 * (size_t)num_elm);
                      num_elm >= 1 && !CONTIG: __CPROVER_object_upto(B(d), (size_t)dest_stride * (size_t)(num_elm - 1) + 4))
    /* no elements is an error, anything else succeeds */
    __CPROVER_ensures(num_elm == 0 ? __CPROVER_return_value == FAIL : __CPROVER_return_value == SUCCEED)
    /* every element of the destination is the byte-reversed source element */
    __CPROVER_ensures(num_elm >= 1 ==> SWAP_4(d, EDS(4) * g_k))
    /* bytes between strided destination elements keep their value */
    __CPROVER_ensures(DFK_IN_GAP(4) ==> B(d)[g_o] == g_ov);

int DFKsb8b(void *s, void *d, uint32 num_elm, uint32 source_stride, uint32 dest_stride)
    __CPROVER_requires(DFK_DOMAIN(8))
    __CPROVER_requires(num_elm == 0 || s == d || !__CPROVER_same_object(s, d))
    __CPROVER_requires(DFK_GHOSTS(8))
    __CPROVER_requires(num_elm == 0 || (SNAP_8(s, ESS(8) * g_k) && B(d)[g_o] == g_ov))
    __CPROVER_assigns(num_elm >= 1 && CONTIG: __CPROVER_object_upto(B(d), 8 * (size_t)num_elm);
                      num_elm >= 1 && !CONTIG: __CPROVER_object_upto(B(d), (size_t)dest_stride * (size_t)(num_elm - 1) + 8))
    /* no elements is an error, anything else succeeds */
    __CPROVER_ensures(num_elm == 0 ? __CPROVER_return_value == FAIL : __CPROVER_return_value == SUCCEED)
    /* every element of the destination is the byte-reversed source element */
    __CPROVER_ensures(num_elm >= 1 ==> SWAP_8(d, EDS(8) * g_k))
    /* bytes between strided destination elements keep their value */
    __CPROVER_ensures(DFK_IN_GAP(8) ==> B(d)[g_o] == g_ov);

#ifdef H4V_NATIVE
#include "h4v_native_wrap.h"
#endif

/* ---------------- harnesses ---------------- */
H4V_DECL_ND(uint32);
H4V_DECL_ND(uint8);
H4V_DECL_ND(int);
H4V_DECL_ND(size_t);

void
h_sb2b(void)
{
    DFK_HARNESS(DFKsb2b, 2);
}

void
h_sb2b_zero(void)
{
    DFK_ZERO_HARNESS(DFKsb2b, 2);
}

void
h_sb2b_one(void)
{
    DFK_ONE_HARNESS(DFKsb2b, 2);
}

void
h_sb4b(void)
{
    DFK_HARNESS(DFKsb4b, 4);
}

void
h_sb4b_zero(void)
{
    DFK_ZERO_HARNESS(DFKsb4b, 4);
}

void
h_sb4b_one(void)
{
    DFK_ONE_HARNESS(DFKsb4b, 4);
}

void
h_sb8b(void)
{
    DFK_HARNESS(DFKsb8b, 8);
}

void
h_sb8b_zero(void)
{
    DFK_ZERO_HARNESS(DFKsb8b, 8);
}

void
h_sb8b_one(void)
{
    DFK_ONE_HARNESS(DFKsb8b, 8);
}

/* Involution lemma on one element: swapping twice gives the original bit pattern, so numin after
   numout (and numout after numin) is the identity for every swapped type; both ways of calling
   (between buffers, in place) agree. */
#define AGREE_2(p, q) EQ2(p, 0, (q)[0], (q)[1])
#define AGREE_4(p, q) EQ4(p, 0, (q)[0], (q)[1], (q)[2], (q)[3])
#define AGREE_8(p, q) (AGREE_4(p, q) && EQ4(p, 4, (q)[4], (q)[5], (q)[6], (q)[7]))
#define INVOL_HARNESS(FN, W)                                                                         \
    H4V_ND(uint32, source_stride);                                                                   \
    H4V_ND(uint32, dest_stride);                                                                     \
    H4V_ND_BUF(uint8, a, W, 8);                                                                      \
    H4V_ND_BUF(uint8, b, W, 8);                                                                      \
    H4V_ND_BUF(uint8, c, W, 8);                                                                      \
    SNAPSHOT_##W(a, 0);                                                                              \
    int r1 = FN(a, b, 1, source_stride, dest_stride);                                                \
    int r2 = FN(b, c, 1, source_stride, dest_stride);                                                \
    H4V_CHECK(r1 == SUCCEED && r2 == SUCCEED, #FN " twice succeeds");                                \
    H4V_CHECK(SWAP_##W(b, 0), #FN " reverses the bytes");                                            \
    H4V_CHECK(SNAP_##W(c, 0), #FN " twice between buffers is the identity");                         \
    H4V_CHECK(SNAP_##W(a, 0), #FN " leaves the source untouched");                                   \
    int r3 = FN(a, a, 1, source_stride, dest_stride);                                                \
    H4V_CHECK(r3 == SUCCEED && AGREE_##W(a, b), #FN " in place and between buffers agree");          \
    int r4 = FN(a, a, 1, source_stride, dest_stride);                                                \
    H4V_CHECK(r4 == SUCCEED && SNAP_##W(a, 0), #FN " twice in place is the identity");               \
    H4V_CANARY(#FN " involution end")

void
h_invol2(void)
{
    INVOL_HARNESS(DFKsb2b, 2);
}

void
h_invol4(void)
{
    INVOL_HARNESS(DFKsb4b, 4);
}

void
h_invol8(void)
{
    INVOL_HARNESS(DFKsb8b, 8);
}

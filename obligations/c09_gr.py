"""C09: raster interlace permutation (mfgr.c)"""
from .core import ob, prop

GR = dict(unit="mfgr_u.c", file="hdf/src/mfgr.c", cex_unwind=4,
          trusted=["DFKNTsize (returns the component size chosen by the harness)"])
BOUND = "xdim,ydim in 1..3, ncomp in 1..3, component size in {1,2}; all 9 (in,out) interlace pairs"
# symbolic extents and all 9 (in,out) pairs at once; ncomp and the component size are constants of the run
for n in (1, 2, 3):
    for cs in (1, 2):
        ob(f"GRIil_convert_n{n}s{cs}_b", "C09", entry="h_GRIil_convert", enforce="GRIil_convert", mode="bounded",
           bound=f"xdim,ydim in 1..3, ncomp = {n}, component size = {cs}, all 9 interlace pairs; buffers of capacity 54 "
                 "(write frame exact by the assigns clause)",
           defines=[f"GR_NCOMP={n}", f"GR_CS={cs}", "GR_CAPBUF"], unwind=4, **GR)
        ob(f"il_roundtrip_n{n}s{cs}_b", "C09", entry="h_il_roundtrip", mode="bounded",
           bound=f"xdim,ydim in 1..3, ncomp = {n}, component size = {cs}, all 9 interlace pairs; buffers of capacity 54",
           defines=[f"GR_NCOMP={n}", f"GR_CS={cs}", "GR_CAPBUF"], unwind=4, **GR)
# exact-size buffers (over-reads of the input are bounds violations), constant non-square extents
for n, cs in ((3, 2), (2, 1)):
    ob(f"GRIil_convert_exact_n{n}s{cs}_b", "C09", entry="h_GRIil_convert", enforce="GRIil_convert", mode="bounded",
       bound=f"xdim = 3, ydim = 2, ncomp = {n}, component size = {cs}, all 9 interlace pairs; buffers of exactly xdim*ydim*ncomp*size bytes",
       defines=[f"GR_NCOMP={n}", f"GR_CS={cs}", "GR_XDIM=3", "GR_YDIM=2"], unwind=4, **GR)

prop("C09",
     residual="decided bounded: the interlace permutation kernel; region/stride addressing and first-write fill of GRreadimage/GRwriteimage for images "
              "<= 4x4, pixel sizes 1..3 bytes, over a ghost H layer (c09_gr_ext.py); decided per call (proved): GRwritelut/GRgetlutinfo bookkeeping.  "
              "Round 3 (c09_grinfo.py): GRreqimageil/GRreqlutil/GRgetnluts/GRluttoref (proved), GRgetiminfo, GRcreate, GRreadlut in the three interlaces for constant small palettes (bounded).  "
              "NOT decided: write-side interlace other than pixel, metadata persistence (GRIupdatemeta/GRIupdateRIG/GRend), compressed and chunked "
              "images, number types > 2 bytes per component, images larger than the stated bounds, requests reaching outside the image (no range "
              "check in mfgr.c: outside C09's quantifier)",
     assumptions=["A-GR-NTSIZE: DFKNTsize is stubbed (component size in {1,2} chosen by the harness)"])

"""C19: inspection tools -- hdiff's element-wise comparison (mfhdf/hdiff/hdiff_array.c: array_diff, print_pos)

Unit hdiff_array_u.c includes the real hdiff_array.c.  The number type is a harness constant (one
obligation per type); the options are hdiff's defaults (err_limit 0.0, err_rel 0.0, statistics 0), no
fill values; rank 1..2; print limit (max_err_cnt) arbitrary.

Why `bounded` and not `proved` (DESIGN section 5 planned a loop contract on the per-type loop): the loop
body assigns 26 locals (double-precision statistics included).  dfcc havocs every loop-assigns target
through a pointer fetched from its write-set array; cbmc 6.11 resolves each of these 26 pointers against
~50 candidate objects of different types (nested if/byte_update, seen in gdb: symex_assignt::assign_if
50 deep).  Measured on the 8-bit loop with the invariant
  i <= tot_cnt && i1ptr1 == (int8*)buf1 + i && i1ptr2 == (int8*)buf2 + i && n_diff <= i &&
  ((g_k < i && buf1[g_k] != buf2[g_k]) ==> n_diff > 0) && (g_same ==> n_diff == 0)
(+ bookkeeping contracts on the two set-up loops, print_pos replaced by its contract, --slice-formula):
symex 430-490 s, then the SSA conversion did not finish (run 1: 10 min timeout; run 2: process died
6 min after symex).  Same mechanism as obligations/c06_dfconv.py describes for DFKsb2b.  Also
max_err_cnt == 0 (print_pos unreachable, 24 targets) did not help.
What made the unwound loop cheap (0.3-1 s per element): the type a harness constant; --slice-formula
(drops the float statistics that only -S prints); rank <= 2 -- with rank 3 the requires "dims[1]*dims[2]
fits" against the code's int multiplication is a multiplier-equivalence problem (no answer in 5 min);
print_pos replaced by a contract whose decomposition clauses are switched off inside array_diff (g_pp_full).
print_pos itself: symbolic strides (quotient, then product with the same stride) did not close in 10 min
even for rank <= 2 (minisat and cadical); with the strides constants of the obligation 30-60 s (cadical).
"""
from .core import ob, prop

AD = dict(unit="hdiff_array_u.c", file="mfhdf/hdiff/hdiff_array.c", mode="bounded", replace=["print_pos"],
          flags=["--slice-formula"], objbits=12,
          trusted=["printf: cbmc built-in (no effect)",
                   "getenv(\"DEBUG\"): NULL or a string; fopen succeeds; fprintf/fclose: no effect on program state"])
TYPES = [("INT8", "int8"), ("UINT8", "int8"), ("CHAR8", "int8"), ("UCHAR8", "int8"),
         ("INT16", "int16"), ("UINT16", "int16"), ("INT32", "int32"), ("UINT32", "int32")]


def ad(suffix, n, tier_main, tier_laws, types):
    for t, e in types:
        d = [f"H4V_TYPE=DFNT_{t}", f"H4V_ELT={e}", f"H4V_MAXCNT={n}u"]
        kw = dict(AD, bound=f"tot_cnt <= {n}, rank <= 2, type DFNT_{t}, default options, no fill value", defines=d,
                  unwind=n + 2, cex_unwind=n + 2)
        main = tier_main if t not in ("CHAR8", "UCHAR8") else "thorough"   # same code path as INT8/UINT8
        laws = tier_laws if t in ("INT8", "INT16", "INT32") else "thorough"
        # contract of array_diff: flags any change of one element / reflexivity / result <= tot_cnt
        ob(f"array_diff_{t}{suffix}", "C19", entry="h_array_diff", enforce="array_diff", tier=main, **kw)
        ob(f"array_diff_same_{t}{suffix}", "C19", entry="h_array_diff_same", enforce="array_diff", tier=main, **kw)
        # harness level: symmetry of "a difference is found" (two calls); exact count against a reference count
        ob(f"array_diff_sym_{t}{suffix}", "C19", entry="h_array_diff_sym", enforce=None, tier=laws, **kw)
        ob(f"array_diff_count_{t}{suffix}", "C19", entry="h_array_diff_count", enforce=None, tier=laws, **kw)


ad("", 16, "quick", "quick", TYPES)                                     # ~10 s each
ad("_n32", 32, "thorough", "thorough", [TYPES[0], TYPES[4], TYPES[6]])  # ~20-40 s each

# print_pos: row-major decomposition of the linear index.  Strides (acc[]) are constants of the obligation:
# with symbolic strides the quotient/product pair did not close in 10 min even for rank <= 2.
PP = dict(unit="hdiff_array_u.c", file="mfhdf/hdiff/hdiff_array.c", entry="h_print_pos", enforce="print_pos", mode="bounded",
          unwind=5, cex_unwind=5, flags=["--sat-solver", "cadical"], trusted=["printf/fprintf: no effect on program state"])
ob("print_pos_r2_7", "C19", bound="rank <= 2, strides {7,1}; curr_pos arbitrary", defines=["H4V_PPRANK=2", "H4V_ACC0=1", "H4V_ACC1=7"], **PP)
ob("print_pos_r3_15_5", "C19", bound="rank <= 3, strides {15,5,1} / {5,1} / {1}; curr_pos arbitrary", tier="thorough",
   defines=["H4V_PPRANK=3", "H4V_ACC0=15", "H4V_ACC1=5"], **PP)
ob("print_pos_r3_65536_256", "C19", bound="rank <= 3, strides {65536,256,1} / {256,1} / {1}; curr_pos arbitrary", tier="thorough",
   defines=["H4V_PPRANK=3", "H4V_ACC0=65536", "H4V_ACC1=256"], **PP)

prop("C19",
     residual="decided: array_diff's verdict for the eight integer number types under hdiff's default options (no -e/-t/-p/-S), "
              "no fill value, at most 16 (thorough tier: 32) elements per call and rank <= 2; print_pos index decomposition for rank <= 3 and three fixed stride vectors; "
              "(c19_tools_ext.py) float32/float64 comparison for <= 2 finite elements without tolerance; diff_sds hyperslab glue, diff_gr component "
              "count and match() pairing over enumerated small object lists (three OPEN findings K1-K3 there); the conversion and promoted "
              "argument each hdp fmt* formatter hands to fprintf; hdfimport's per-input format state (gtype..gmaxmin proved, process() bounded to 2 inputs).  "
              "NOT decided: the tolerance options (-e limit, -t, -p relative), NaN/infinity, fill-value handling, statistics; Vdata, palette and "
              "attribute comparison (hdiff_vs.c, hdiff_gattr.c), hdiff_list traversal, the exit status of main(); the TEXT hdp prints "
              "(the C library's rendering of a conversion is not modelled) and hdfimport's data conversion",
     assumptions=["A-HDIFF-OPTS: err_limit == 0.0, err_rel == 0.0, statistics == 0, fill1 == fill2 == NULL (hdiff's defaults; SDS without fill value)",
                  "A-DEBUGFILE: if the DEBUG environment variable is set, fopen(\"hdiff.debug\") succeeds (array_diff does not check it)",
                  "A-PRINTF: printf/fprintf have no effect on program state"])

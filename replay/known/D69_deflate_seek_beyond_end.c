/* Build: gcc D69_deflate_seek_beyond_end.c -I/repo/hdf/src -I/repo/_build -L/repo/_build/bin -lhdf -lz -ljpeg -lm; run with LD_LIBRARY_PATH=/repo/_build/bin. Exit status != 0 = defect present (confirmed on a build of the tree before the repair). */
/* D69: Hseek far beyond the data of a deflate element never returns */
#include "hdf.h"
#include "hcomp.h"
#include <stdio.h>
#include <string.h>
#include <unistd.h>
int main(void)
{
    uint8 data[100]; model_info m; comp_info c; int32 f, aid, r;
    memset(data, 7, 100);
    f = Hopen("d69.hdf", DFACC_CREATE, 0);
    memset(&m, 0, sizeof m); memset(&c, 0, sizeof c); c.deflate.level = 6;
    aid = HCcreate(f, 1000, 1, COMP_MODEL_STDIO, &m, COMP_CODE_DEFLATE, &c);
    Hwrite(aid, 100, data); Hendaccess(aid);
    aid = Hstartread(f, 1000, 1);
    alarm(5);                              /* the tree as found spins here until the alarm kills the process */
    r = Hseek(aid, 100000, DF_START);
    printf("Hseek -> %d (returned)\n", (int)r);
    Hendaccess(aid); Hclose(f);
    return 0;
}

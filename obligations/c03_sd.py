"""C03: SDS hyperslabs (mfsd.c, putget.c, var.c)"""
from .core import ob, prop

PG = dict(unit="putget_u.c", file="mfhdf/src/putget.c", objbits=8)
CK_TRUST = ["hdf_get_vp_aid", "Hseek", "Hwrite", "DFKconvert", "HDmemfill", "NC_arrayfill", "NC_findattr", "strstr"]
ob("NCcoordck", "C03", entry="h_NCcoordck", enforce="H4_NCcoordck", mode="proved",
   replace=["hdf_get_vp_aid"], loops=True, nloops=3, loopcls="P", unwind=34, cex_unwind=34, trusted=CK_TRUST, **PG)
ob("NCcoordck_verdict", "C03", entry="h_NCcoordck_verdict", enforce="H4_NCcoordck", mode="bounded",
   bound="at most 2 fill records per call (rank <= 32 is complete: loops unwound 34 times)",
   replace=["hdf_get_vp_aid"], unwind=34, cex_unwind=34, trusted=CK_TRUST, **PG)
ob("NC_varoffset", "C03", entry="h_NC_varoffset", enforce="NC_varoffset", mode="bounded",
   bound="rank<=3, extents<=8, record index<=8, element size in {1,2,4,8}", unwind=5, cex_unwind=5,
   defines=["MAXR=3"], **PG)
ob("NCvcmaxcontig", "C03", entry="h_NCvcmaxcontig", enforce="NCvcmaxcontig", mode="proved-finite", unwind=34,
   cex_unwind=34, **PG)
ob("NC_var_shape", "C03", unit="var_u.c", file="mfhdf/src/var.c", entry="h_NC_var_shape", enforce="H4_NC_var_shape",
   mode="bounded", bound="rank<=3, <=4 dimensions, dimension sizes<=8, element size in {1,2,4,8}", unwind=6,
   cex_unwind=6)

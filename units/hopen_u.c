/* Verification unit: hdf/src/hfile.c -- Hopen (C13: repeated opens of one path share one consistent view;
 * a file cannot be closed out from under attached access elements; a failed open leaves nothing behind).
 *
 * The whole real hfile.c.  stdio is the two-stream ghost disk of stubs/hopen_stdio.h; the lookup of the path in the
 * file-id group (HAsearch_atom), the atom registry, the DD layer (HTPstart/HTPinit) are stub bodies controlled by the
 * harness; the version-tag functions HIread_version / HIupdate_version (same file, they run a whole element read /
 * write) are replaced by trusted contracts.
 *
 * H4V_CASE selects the region of the input space (one obligation each; the regions cover it):
 *   1  path already open, request needs no write upgrade (compatible mode, or DFACC_CREATE -> refused)
 *   2  path already open read-only, write requested: the documented re-open for writing, fclose fault-free
 *   3  as 2, plus the clause "the record says writable iff its stream is"       (consistent view)
 *   4  as 2 with fclose faults, plus "a failed Hopen leaves the shared record usable"
 *   5  first open of an existing file (no create path)
 *   6  first open, create path (DFACC_CREATE, or write access to a file that does not exist), version tag written
 *   7  as 6, the version tag cannot be written, plus "a failed open leaves no stream open"
 *   8  invalid arguments, library start-up (HIstart) failure
 */
#include "h4v.h"
#ifndef H4V_CASE
#define H4V_CASE 1
#endif
#include <limits.h>
#include <string.h>
#include <errno.h>
#include "h4v_err.h"
#include "hdf_priv.h"
#include "hfile_priv.h"
#include "hfile_atexit_priv.h"
#include "hopen_stdio.h"

H4V_DECL_ND(int32);
H4V_DECL_ND(uint16);
H4V_DECL_ND(int16);

/* ------------------------------------------------------------------ ghost environment */
filerec_t *g_frec;        /* the record registered for the path (returned by the lookup iff g_found) */
int        g_found;
int32      g_newfid;      /* the id the registry hands out next */
void      *g_reg_ptr;     /* object of the last HAregister_atom */
int        g_reg_grp;
int        g_registered, g_reg_n, g_rem_n, g_reg_may_fail;
int        g_search_n;
int        g_htp_may_fail, g_htpstart_n, g_htpinit_n;
int        g_upd_may_fail; /* HIupdate_version may fail */
int        g_start_may_fail;
int        g_dup_failed;   /* strdup of the path failed */
int        g_wr0;          /* WR(g_frec) on entry */
static char g_path[2]  = "f";
static char g_path0[2] = "f";
static char g_dd_obj[8];

#define WR(f) (((f)->access & DFACC_WRITE) != 0)
#define SIDX(f) ((f)->file == HS1 ? 1 : 0)
/* seek-cache coherence between a record and the stream it holds */
#define HCOH(f)                                                                                              \
    (g_io_failed || (f)->last_op == H4_OP_UNKNOWN || (g_s_posvalid[SIDX(f)] && g_s_pos[SIDX(f)] == (f)->f_cur_off))
/* the stream a record holds is open, and the record says writable iff the stream was opened for writing */
#define STREAM_OK(f) (((f)->file == HS0 || (f)->file == HS1) && g_s_open[SIDX(f)])
#define VIEW_OK(f) (g_s_writable[SIDX(f)] == WR(f))
#define NEWREC ((filerec_t *)g_reg_ptr)

/* ------------------------------------------------------------------ trusted stubs (atom.c, hfiledd.c, hfile_atexit.c) */
void *
HAsearch_atom(group_t grp, HAsearch_func_t func, const void *key)
{
    H4V_CHECK(grp == FIDGROUP && key != NULL, "path looked up in the file-id group");
    g_search_n++;
    return g_found ? (void *)g_frec : NULL;
}
atom_t
HAregister_atom(group_t grp, void *object)
{
    g_reg_n++;
    if (g_reg_may_fail) {
        H4V_ND(int, reg_fault);
        if (reg_fault)
            return FAIL;
    }
    g_reg_ptr    = object;
    g_reg_grp    = (int)grp;
    g_registered = 1;
    return g_newfid;
}
void *
HAremove_atom(atom_t atm)
{
    g_rem_n++;
    if (atm == g_newfid && g_registered) {
        g_registered = 0;
        return g_reg_ptr;
    }
    return NULL;
}
void *
HAatom_object(atom_t atm)
{
    return (atm == g_newfid && g_registered) ? g_reg_ptr : NULL;
}
int
HAinit_group(group_t grp, unsigned hash_size)
{
    H4V_ND(int, init_fault);
    return (g_start_may_fail && init_fault) ? FAIL : SUCCEED;
}
int
hfile_atexit_create(hfile_atexit_t **ha)
{
    H4V_ND(int, atexit_fault);
    return (g_start_may_fail && atexit_fault) ? FAIL : SUCCEED;
}
/* DD layer: reads (HTPstart) or writes (HTPinit) the first DD block through the record's stream */
int
HTPstart(filerec_t *file_rec)
{
    H4V_CHECK(STREAM_OK(file_rec) && HCOH(file_rec), "HTPstart gets an open stream and a coherent seek cache");
    g_htpstart_n++;
    file_rec->last_op = H4_OP_UNKNOWN;
    if (g_htp_may_fail) {
        H4V_ND(int, htp_fault);
        if (htp_fault)
            return FAIL;
    }
    {
        H4V_ND(int32, dd_end_off);
        H4V_ND(uint16, dd_maxref);
        H4V_ASSUME(dd_end_off >= 0 && dd_end_off < INT32_MAX);
        file_rec->f_end_off = dd_end_off;
        file_rec->maxref    = dd_maxref;
        file_rec->ddhead = file_rec->ddlast = (struct ddblock_t *)g_dd_obj;
    }
    return SUCCEED;
}
/* DD layer teardown on the failed-create path: gives the DD list back (as in Hclose) */
int
HTPend(filerec_t *file_rec)
{
    file_rec->ddhead = NULL;
    return SUCCEED;
}

int
HTPinit(filerec_t *file_rec, int16 ndds)
{
    H4V_CHECK(STREAM_OK(file_rec) && HCOH(file_rec), "HTPinit gets an open stream and a coherent seek cache");
    H4V_CHECK(g_s_writable[SIDX(file_rec)], "C14: DD block written through a stream opened read-only");
    g_htpinit_n++;
    file_rec->last_op = H4_OP_UNKNOWN;
    if (g_htp_may_fail) {
        H4V_ND(int, htp_fault);
        if (htp_fault)
            return FAIL;
    }
    {
        H4V_ND(int32, dd_end_off);
        H4V_ASSUME(dd_end_off >= 0 && dd_end_off < INT32_MAX);
        file_rec->f_end_off = dd_end_off;
        file_rec->ddhead = file_rec->ddlast = (struct ddblock_t *)g_dd_obj;
    }
    return SUCCEED;
}
#ifdef H4V_NATIVE
/* native replay only: the real HIread_version / HIupdate_version run there (under cbmc they are replaced by their
   contracts); the element they look for is not found / cannot be created */
atom_t
HTPselect(filerec_t *file_rec, uint16 tag, uint16 ref)
{
    return FAIL;
}
atom_t
HTPcreate(filerec_t *file_rec, uint16 tag, uint16 ref)
{
    return FAIL;
}
intn
Hfind(int32 file_id, uint16 search_tag, uint16 search_ref, uint16 *find_tag, uint16 *find_ref, int32 *find_offset,
      int32 *find_length, intn direction)
{
    return FAIL;
}
char *
HIstrncpy(char *dest, const char *source, int len)
{
    int i = 0;
    if (len == 0)
        return dest;
    while (i < len - 1 && source[i] != 0) {
        dest[i] = source[i];
        i++;
    }
    dest[i] = 0;
    return dest;
}
#endif
#ifdef H4V_CBMC
/* the path is opaque to Hopen (passed to the lookup, strdup and fopen only): NULL or a fresh copy */
char *
strdup(const char *s)
{
    H4V_ND(int, dup_fault);
    if (dup_fault) {
        g_dup_failed = 1;
        return NULL;
    }
    char *p = malloc(2);
    if (p != NULL) {
        p[0] = s[0];
        p[1] = 0;
    }
    return p;
}
#endif

#include "hfile.c"

/* ------------------------------------------------------------------ contracts */

/* TRUSTED (replaced, not proved here): the version-tag functions run a whole element read / write through the new id.
   They touch the version fields, the seek cache and -- the writer -- the DD bookkeeping, nothing else of the record
   (attach is raised and lowered again by the element access they open and end).  Their own stdio calls are not counted
   in the ghost counters, which log what Hopen itself does. */
static int HIread_version(int32 file_id)
    __CPROVER_requires(file_id == g_newfid && g_registered && g_reg_ptr != NULL && STREAM_OK(NEWREC) && HCOH(NEWREC))
    __CPROVER_assigns(NEWREC->version, NEWREC->version_set, NEWREC->f_cur_off, NEWREC->last_op, g_io_failed,
                      __CPROVER_object_whole(g_s_pos), __CPROVER_object_whole(g_s_posvalid))
    __CPROVER_ensures(HCOH(NEWREC))
    __CPROVER_ensures(__CPROVER_return_value == SUCCEED || __CPROVER_return_value == FAIL);

static int HIupdate_version(int32 file_id)
    __CPROVER_requires(file_id == g_newfid && g_registered && g_reg_ptr != NULL && STREAM_OK(NEWREC) && HCOH(NEWREC))
    __CPROVER_requires(WR(NEWREC) && g_s_writable[SIDX(NEWREC)]) /* C14: the version tag is written to a writable file only */
    __CPROVER_assigns(NEWREC->version, NEWREC->version_set, NEWREC->f_cur_off, NEWREC->last_op, NEWREC->f_end_off, NEWREC->dirty,
                      NEWREC->maxref, NEWREC->ddlast, NEWREC->ddnull, NEWREC->ddnull_idx, g_io_failed, __CPROVER_object_whole(g_s_pos), __CPROVER_object_whole(g_s_posvalid))
    __CPROVER_ensures(HCOH(NEWREC))
    __CPROVER_ensures(__CPROVER_return_value == SUCCEED || (g_upd_may_fail && __CPROVER_return_value == FAIL));

/* The clause "the record says writable iff its stream is" fails on the write-upgrade path of the real code (defect
   candidate): it is checked everywhere except in the two obligations that look at the other clauses of that path. */
#if H4V_CASE == 2 || H4V_CASE == 4 || H4V_CASE == 8
#define CL_VIEW(e) 1
#else
#define CL_VIEW(e) (e)
#endif
#define ARGS_OK (path != NULL && (acc_mode & DFACC_ALL) == acc_mode)
#define OLD_WR (g_wr0 != 0) /* write permission of the shared record on entry (ghost snapshot: HO_ENV ties it to the record) */
#define AGAIN (g_found && ARGS_OK)
/* the documented "attempt to reopen the file with write permission" */
#define UPGRADE (AGAIN && acc_mode != DFACC_CREATE && (acc_mode & DFACC_WRITE) && !OLD_WR)
#define NO_STDIO (g_open_n == 0 && g_s_close_n[0] == 0 && g_s_close_n[1] == 0 && g_rd_n == 0 && g_wr_n == 0 && g_flush_n == 0)
#define HO_ENV                                                                                               \
    (g_frec != NULL && g_frec->refcount >= 1 && g_frec->refcount < INT_MAX && g_frec->attach >= 0 && g_frec->file == HS0 &&      \
     g_s_open[0] && !g_s_open[1] && g_s_writable[0] == WR(g_frec) && g_wr0 == WR(g_frec) && (WR(g_frec) || !g_frec->cache || !g_frec->dirty) &&          \
     g_frec->path == g_path0 && HCOH(g_frec) && g_path_open == g_found && !g_registered && g_reg_n == 0 && g_rem_n == 0 &&        \
     g_newfid != FAIL && NO_STDIO && g_seek_n == 0 && g_io_failed == 0 && g_create_n == 0 && g_open_ok_n == 0 &&                \
     g_open1_failed == 0 && g_htpstart_n == 0 && g_htpinit_n == 0 && g_s_close_n[0] == 0)
#define FIRST_ACCESS (acc_mode == DFACC_CREATE ? DFACC_ALL : (acc_mode | DFACC_READ))

int32 Hopen(const char *path, int acc_mode, int16 ndds)
    __CPROVER_requires(HO_ENV && (path == NULL || path == g_path))
    __CPROVER_assigns(__CPROVER_object_whole(g_frec), g_reg_ptr, g_reg_grp, g_registered, g_reg_n, g_rem_n, g_search_n, g_htpstart_n,
                      g_htpinit_n, g_dup_failed, library_terminate, atexit_functions, g_io_failed, g_open_n, g_open_ok_n, g_create_n, g_open1_failed,
                      g_open_write, g_magic_ok, g_rd_n, g_wr_n, g_seek_n, g_flush_n, g_wr_off, g_wr_len, __CPROVER_object_whole(g_s_open),
                      __CPROVER_object_whole(g_s_writable), __CPROVER_object_whole(g_s_posvalid), __CPROVER_object_whole(g_s_close_n),
                      __CPROVER_object_whole(g_s_pos))
    /* ---- every branch: a new id for a registered record, or FAIL and no id left registered */
    __CPROVER_ensures(__CPROVER_return_value == FAIL ||
                      (__CPROVER_return_value == g_newfid && g_registered && g_reg_n == 1 && g_rem_n == 0 && g_reg_grp == (int)FIDGROUP))
    __CPROVER_ensures(__CPROVER_return_value == FAIL ==> !g_registered)
    __CPROVER_ensures(!ARGS_OK ==> (__CPROVER_return_value == FAIL && NO_STDIO && g_reg_n == 0 && g_search_n == 0))
    /* the record behind the new id holds an open stream, and its seek cache is coherent with that stream */
    __CPROVER_ensures(__CPROVER_return_value != FAIL ==> (STREAM_OK(NEWREC) && HCOH(NEWREC)))
    /* ---- the path is already open (lookup finds the shared record, refcount > 0) */
    /* a successful second open: the SAME record, one more open, ... */
    __CPROVER_ensures((g_found && __CPROVER_return_value != FAIL) ==>
                      (g_reg_ptr == (void *)g_frec && g_frec->refcount == __CPROVER_old(g_frec->refcount) + 1))
    __CPROVER_ensures((g_found && __CPROVER_return_value == FAIL) ==> g_frec->refcount == __CPROVER_old(g_frec->refcount))
    /* ... and nothing else of the shared record changes, whatever the outcome: attached access elements, DD list,
       end of file, caching state, ref high-water mark, name (the version fields are re-read by HIread_version) */
    __CPROVER_ensures(g_found ==> (g_frec->attach == __CPROVER_old(g_frec->attach) && g_frec->ddhead == __CPROVER_old(g_frec->ddhead) &&
                                   g_frec->ddlast == __CPROVER_old(g_frec->ddlast) && g_frec->ddnull == __CPROVER_old(g_frec->ddnull) &&
                                   g_frec->ddnull_idx == __CPROVER_old(g_frec->ddnull_idx) &&
                                   g_frec->tag_tree == __CPROVER_old(g_frec->tag_tree) &&
                                   g_frec->f_end_off == __CPROVER_old(g_frec->f_end_off) && g_frec->cache == __CPROVER_old(g_frec->cache) &&
                                   g_frec->dirty == __CPROVER_old(g_frec->dirty) && g_frec->maxref == __CPROVER_old(g_frec->maxref) &&
                                   g_frec->path == __CPROVER_old(g_frec->path)))
    /* the access mode only ever gains write access, and only through a successful or attempted write upgrade whose new
       stream is in place (the stream and the recorded mode agree: VIEW_OK below) */
    __CPROVER_ensures(g_found ==> (g_frec->access == __CPROVER_old(g_frec->access) ||
                                   (UPGRADE && g_frec->file == HS1 && g_frec->access == (__CPROVER_old(g_frec->access) | DFACC_WRITE))))
    /* never re-created, never looked at by the DD layer again */
    __CPROVER_ensures(g_found ==> (g_create_n == 0 && g_htpstart_n == 0 && g_htpinit_n == 0 && g_wr_n == 0))
    /* no write upgrade needed: the stream is not touched at all */
    __CPROVER_ensures((g_found && !UPGRADE) ==> (NO_STDIO && g_frec->file == HS0 && g_s_open[0]))
    /* DFACC_CREATE on an open path is refused and leaves the record exactly as it was */
    __CPROVER_ensures((AGAIN && acc_mode == DFACC_CREATE) ==>
                      (__CPROVER_return_value == FAIL && g_reg_n == 0 && g_frec->version_set == __CPROVER_old(g_frec->version_set) &&
                       g_frec->f_cur_off == __CPROVER_old(g_frec->f_cur_off) && g_frec->last_op == __CPROVER_old(g_frec->last_op)))
    /* a compatible request succeeds (A-ALLOC: the registry does not fail) */
    __CPROVER_ensures((AGAIN && acc_mode != DFACC_CREATE && !UPGRADE && !g_reg_may_fail && __CPROVER_old(library_terminate)) ==>
                      __CPROVER_return_value != FAIL)
    /* write upgrade of a record opened read-only, as documented in the function header: the stream is replaced by one
       opened "rb+" (never a truncating mode), the old one is closed exactly once */
    __CPROVER_ensures((UPGRADE && __CPROVER_return_value != FAIL) ==>
                      (g_frec->file == HS1 && g_s_open[1] && g_s_writable[1] && !g_s_open[0] && g_s_close_n[0] == 1 &&
                       g_s_close_n[1] == 0 && g_open_n == 1))
    /* a refused upgrade leaks no stream */
    __CPROVER_ensures((UPGRADE && __CPROVER_return_value == FAIL) ==> (!g_s_open[1] || g_frec->file == HS1))
    /* a failed Hopen never takes the file away from the handles (and attached access elements) that hold it */
    __CPROVER_ensures((g_found && __CPROVER_return_value == FAIL) ==> STREAM_OK(g_frec))
    /* one consistent view: the shared record says writable exactly if its stream was opened for writing, so a
       handle requested with DFACC_WRITE and granted can write ("file_rec members are filled in correctly") */
    __CPROVER_ensures(CL_VIEW((g_found && __CPROVER_return_value != FAIL) ==> (VIEW_OK(g_frec) && (!(acc_mode & DFACC_WRITE) || WR(g_frec)))))
    /* ---- first open of the path: a fresh record */
    __CPROVER_ensures((!g_found && __CPROVER_return_value != FAIL) ==>
                      (g_reg_ptr != (void *)g_frec && NEWREC->refcount == 1 && NEWREC->attach == 0 && NEWREC->access == FIRST_ACCESS &&
                       NEWREC->file == HS1 && VIEW_OK(NEWREC) && NEWREC->cache == default_cache && NEWREC->path != NULL))
    __CPROVER_ensures((!g_found && __CPROVER_return_value != FAIL) ==> (g_htpstart_n + g_htpinit_n == 1 && g_open_ok_n == 1))
    /* C14: a file is created / truncated only on request (DFACC_CREATE alone, or write access to a file that cannot be
       opened), an existing file that opened is never re-created, a read-only open writes nothing */
    __CPROVER_ensures(g_create_n <= 1 && (g_create_n == 1 ==> (acc_mode == DFACC_CREATE || ((acc_mode & DFACC_WRITE) && g_open1_failed))))
    __CPROVER_ensures((!(acc_mode & DFACC_WRITE) && acc_mode != DFACC_CREATE) ==> (g_wr_n == 0 && g_htpinit_n == 0 && !g_open_write))
    /* a failed first open leaves nothing behind: no id (above), the other record untouched, no stream open */
    __CPROVER_ensures(!g_found ==> (g_frec->refcount == __CPROVER_old(g_frec->refcount) && g_frec->file == HS0 && g_s_open[0] &&
                                    g_s_close_n[0] == 0))
    __CPROVER_ensures((!g_found && __CPROVER_return_value == FAIL) ==> !g_s_open[1])
    __CPROVER_ensures((!g_found && __CPROVER_return_value != FAIL && g_create_n == 0) ==> (NEWREC->dirty == 0 && g_wr_n == 0))
    /* without a fault the first open succeeds: an existing HDF file, or a file that may be created */
    __CPROVER_ensures((!g_found && ARGS_OK && __CPROVER_old(library_terminate) && !g_dup_failed && g_open_ok_n == 1 && !g_io_failed &&
                       !g_htp_may_fail && !g_upd_may_fail && !g_reg_may_fail && (g_create_n == 1 || g_magic_ok)) ==>
                      __CPROVER_return_value != FAIL);

#ifdef H4V_NATIVE
#include "h4v_native_wrap.h"
#endif

/* ------------------------------------------------------------------ harnesses */
static filerec_t *
mk_rec(void)
{
    filerec_t *f = calloc(1, sizeof(filerec_t));
    H4V_ASSUME(f != NULL);
    H4V_ND(int, f_access);
    H4V_ND(int, f_refcount);
    H4V_ND(int, f_attach);
    H4V_ND(int, f_version_set);
    H4V_ND(int16, f_modified);
    H4V_ND(int32, f_cur_off);
    H4V_ND(int, f_last_op);
    H4V_ND(int, f_cache);
    H4V_ND(int, f_dirty);
    H4V_ND(int32, f_end_off);
    H4V_ND(uint16, f_maxref);
    H4V_ND(int, f_has_dd);
    H4V_ND(int32, f_ddnull_idx);
    H4V_ASSUME(f_last_op >= 0 && f_last_op <= 3);
    H4V_ASSUME((f_access & DFACC_ALL) == f_access && (f_access & DFACC_READ));
    f->path             = g_path0;
    f->file             = HS0;
    f->maxref           = f_maxref;
    f->access           = f_access;
    f->refcount         = f_refcount;
    f->attach           = f_attach;
    f->version_set      = f_version_set;
    f->version.modified = f_modified;
    f->f_cur_off        = f_cur_off;
    f->last_op          = (fileop_t)f_last_op;
    f->cache            = f_cache;
    f->dirty            = f_dirty;
    f->f_end_off        = f_end_off;
    f->ddhead = f->ddlast = f->ddnull = f_has_dd ? (struct ddblock_t *)g_dd_obj : NULL;
    f->ddnull_idx = f_ddnull_idx;
    f->tag_tree   = NULL;
    return f;
}

void
h_Hopen(void)
{
    ho_stdio_init();
    g_frec = mk_rec();
    H4V_ND(int, s0_writable);
    H4V_ND(int, s0_posvalid);
    H4V_ND(long, s0_pos);
    g_s_open[0]     = 1;
    g_s_writable[0] = s0_writable != 0;
    g_s_posvalid[0] = s0_posvalid != 0;
    g_s_pos[0]      = s0_pos;
    H4V_HAVOC(int, g_found);
    H4V_HAVOC(int32, g_newfid);
    H4V_HAVOC(int, g_open_may_fail);
    H4V_HAVOC(int, g_io_may_fail);
    H4V_HAVOC(int, g_htp_may_fail);
    H4V_HAVOC(int, g_upd_may_fail);
    H4V_HAVOC(int, g_start_may_fail);
    H4V_ASSUME(g_found == 0 || g_found == 1);
    g_path_open  = g_found;
    g_wr0        = WR(g_frec);
    g_reg_ptr    = NULL;
    g_reg_grp    = -1;
    g_registered = g_reg_n = g_rem_n = g_search_n = g_htpstart_n = g_htpinit_n = 0;
    g_dup_failed = 0;
    g_reg_may_fail = 0; /* A-ALLOC: atom registration (malloc) does not fail; no property quantifies over allocation failure */
    install_atexit = FALSE; /* registering HPend with atexit() is outside the properties */
    H4V_ND(int, lib_started);
    library_terminate = lib_started ? TRUE : FALSE;
    H4V_ND(int, d_cache);
    default_cache = d_cache ? TRUE : FALSE;
    H4V_ND(int, acc_mode);
    H4V_ND(int16, ndds);
    H4V_ND(int, null_path);
#define IN_UPGRADE (!null_path && (acc_mode & DFACC_ALL) == acc_mode && acc_mode != DFACC_CREATE && (acc_mode & DFACC_WRITE) && !WR(g_frec))
#define IN_CREATE (acc_mode == DFACC_CREATE || (acc_mode & DFACC_WRITE))
#if H4V_CASE == 1
    H4V_ASSUME(g_found && !IN_UPGRADE && !null_path && (acc_mode & DFACC_ALL) == acc_mode && lib_started);
#elif H4V_CASE == 2 || H4V_CASE == 3
    H4V_ASSUME(g_found && IN_UPGRADE && lib_started);
    g_io_may_fail = 0;
#elif H4V_CASE == 4
    H4V_ASSUME(g_found && IN_UPGRADE && lib_started);
#elif H4V_CASE == 5
    H4V_ASSUME(!g_found && !null_path && (acc_mode & DFACC_ALL) == acc_mode && !IN_CREATE && lib_started);
#elif H4V_CASE == 6
    H4V_ASSUME(!g_found && !null_path && (acc_mode & DFACC_ALL) == acc_mode && IN_CREATE && lib_started);
    g_upd_may_fail = 0;
#elif H4V_CASE == 7
    H4V_ASSUME(!g_found && !null_path && (acc_mode & DFACC_ALL) == acc_mode && IN_CREATE && lib_started);
#elif H4V_CASE == 8
    H4V_ASSUME(null_path || (acc_mode & DFACC_ALL) != acc_mode || !lib_started);
    g_io_may_fail = 0; /* the fault paths of the branches behind the start-up are cases 4 and 7 */
    g_upd_may_fail = 0;
#endif
    int32 old_refcount = g_frec->refcount;
    int32 r = Hopen(null_path ? NULL : g_path, acc_mode, ndds);
#if H4V_CASE == 1
    H4V_COVER(r != FAIL && g_frec->refcount == old_refcount + 1 && g_frec->attach > 0, "Hopen second open of a file with attached elements");
    H4V_COVER(r != FAIL && (acc_mode & DFACC_WRITE), "Hopen second open for writing of a writable record");
    H4V_COVER(r == FAIL && acc_mode == DFACC_CREATE, "Hopen DFACC_CREATE on an open path refused");
#elif H4V_CASE == 2 || H4V_CASE == 3 || H4V_CASE == 4
    H4V_COVER(r != FAIL && g_frec->file == HS1, "Hopen upgraded the stream");
    H4V_COVER(r == FAIL && g_open_n == 1 && g_open_ok_n == 0, "Hopen upgrade refused (cannot open for writing)");
#if H4V_CASE == 4
    H4V_COVER(r == FAIL && g_open_ok_n == 1, "Hopen upgrade failed after the new stream was opened");
#endif
#elif H4V_CASE == 5
    H4V_COVER(r != FAIL, "Hopen first open of an existing file");
    H4V_COVER(r == FAIL && g_open_ok_n == 0, "Hopen file cannot be opened");
    H4V_COVER(r == FAIL && g_open_ok_n == 1 && g_htpstart_n == 0, "Hopen not an HDF file");
    H4V_COVER(r == FAIL && g_htpstart_n == 1, "Hopen DD list cannot be read");
#elif H4V_CASE == 6 || H4V_CASE == 7
    H4V_COVER(r != FAIL && g_create_n == 1 && acc_mode == DFACC_CREATE, "Hopen created a file");
    H4V_COVER(r != FAIL && g_create_n == 1 && acc_mode != DFACC_CREATE, "Hopen created a missing file for writing");
    H4V_COVER(r != FAIL && g_create_n == 0, "Hopen opened an existing file for writing");
    H4V_COVER(r == FAIL && g_create_n == 1 && g_open_ok_n == 1, "Hopen create path failed after the file was created");
#elif H4V_CASE == 8
    H4V_COVER(r == FAIL && !lib_started && !null_path, "Hopen library start-up failed");
    H4V_COVER(r != FAIL && !lib_started, "Hopen started the library");
#endif
    H4V_CANARY("Hopen end");
}

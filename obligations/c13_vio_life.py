"""vio_life: life cycle of Vdata handles (vio.c VSattach / VSdetach) -- C13 attach counting, C16/C07 header write-back at the
last detach, C14 spellings of the write mode.  Staging module (obligations/staging.txt): load with H4V_STAGING=1."""
from .core import ob

VLTR = ["V-layer environment (stubs/vio_life_env.h): one file (writable or read-only), one vdata instance in an arbitrary consistent "
        "life-cycle state; HAatom_object/HAatom_group/HAregister_atom/HAremove_atom: 3-slot finite map of VSIDGROUP ids + file id + "
        "2 access-element ids (atom.c: obligations of atom_u.c; A-ALLOC: registration does not fail while a slot is free)",
        "Get_vfile/tbbtdfind/tbbtdins one-entry maps (A-TBBT)",
        "H layer (stubs/vio_life_env.h): Hstartaccess/Hstartread/Hstartwrite (DFACC_WRITE refused on a read-only file: proved-dependency, "
        "obligation Hstartaccess), Hendaccess (CHECK: id is an open element), Happendable, Hputelement, HDcheck_tagref, HDreuse_tagref, "
        "Hnewref: logging stubs, each may fail nondeterministically (g_h_failed)",
        "HEpush/HEreport/HEPclear/HEclear (stubs/h4v_err.h)"]
PACK = ["vpackvs replaced by an UNPROVED contract (needs `need` writable bytes, returns SUCCEED and a length g_packsize >= 1); "
        "its round trip is units/vio_u.c"]
VL = dict(unit="vio_life_u.c", file="hdf/src/vio.c", cex_unwind=4)

# ---- VSattach: single call, arbitrary consistent state, any access string (loop-free path: proved)
ob("vl_VSattach", ["C13", "C14", "C16"], entry="h_vl_VSattach", enforce="VSattach", trusted=VLTR, **VL)
# the state left out above: "r" on a vdata that is attached "w" (clause A1 / A9)
ob("vl_VSattach_r_on_w", ["C13"], entry="h_vl_VSattach", enforce="VSattach", defines=["VL_R_ON_W"], trusted=VLTR, **VL)

# creation of a new vdata: VSattach(f, -1, mode); harness-level checks
ob("vl_VSattach_new", ["C13", "C14", "C16"], entry="h_vl_VSattach_new", trusted=VLTR, **VL)

# ---- VSdetach: single call, any int32 as id.  nusym == 0 is fixed by the environment (the symbol-freeing loop of the "w" path
# is not entered: --unwindset ...:1 + unwinding assertion shows that); vpackvs replaced by its (trusted) contract.
# (the global --unwind would also cut the loops of the dfcc library that checks the replaced contract's frame: --unwindset instead)
NOSYM = ["--unwindset", "VSdetach_wrapped_for_contract_checking.0:1", "--unwinding-assertions"]
VD = dict(entry="h_vl_VSdetach", enforce="VSdetach", replace=["vpackvs"], flags=NOSYM, mode="bounded",
          bound="vdata without user-defined field symbols (nusym == 0); vpackvs abstracted by a trusted contract", trusted=VLTR + PACK, **VL)
ob("vl_VSdetach", ["C13", "C16", "C07"], **VD)
# C13 in full: EVERY successful VSdetach invalidates the id it was given
ob("vl_VSdetach_release", ["C13"], defines=["VL_STRICT"], **VD)
# ---- bounded histories (harness-level checks); the "w" path of VSdetach is never taken (unwinding assertion of its loop included)
HNOSYM = ["--unwindset", "VSdetach.0:1", "--unwinding-assertions"]
ob("vl_history", ["C13"], entry="h_vl_history", mode="bounded", bound="history of 5 calls: attach r, attach r, detach, detach (either order), detach(stale); one representative ref, start state: not attached",
   replace=["vpackvs"], flags=HNOSYM, trusted=VLTR + PACK, **VL)
ob("vl_history_release", ["C13"], entry="h_vl_history", defines=["VL_STRICT"], mode="bounded",
   bound="history of 6 calls: attach r, attach r, detach, detach (either order), detach(stale), detach(stale); one representative ref, start state: not attached", replace=["vpackvs"], flags=HNOSYM, trusted=VLTR + PACK, **VL)

/* D47 (C07): redefining a user-defined Vdata field with only the order (or only the type) changed is silently ignored:
   VSfdefine appends a duplicate that no lookup ever reaches (the duplicate test used && where || is meant).
   D48 (C07/C20): a refused VSsetfields ("A,Q" with Q undefined) leaves a half-built field list behind: every later VSsetfields
   on that Vdata is refused, while VSwrite works on the partial list.
   Build: gcc D47_vsfdefine_redefine.c -I/repo/hdf/src -I/repo/_build -L/repo/_build/bin -lhdf -Wl,-rpath,/repo/_build/bin */
#include "hdf.h"
#include <stdio.h>
int main(void)
{
    int bad = 0;
    int32 fid = Hopen("d47.hdf", DFACC_CREATE, 0);
    Vstart(fid);
    int32 vs = VSattach(fid, -1, "w");
    VSfdefine(vs, "A", DFNT_INT16, 1);
    VSfdefine(vs, "A", DFNT_INT16, 2); /* same name, new order */
    VSsetfields(vs, "A");
    int32 order = VFfieldorder(vs, 0);
    printf("D47: order of A after redefinition = %d (2 expected)\n", (int)order);
    bad += order != 2;
    VSdetach(vs);
    vs = VSattach(fid, -1, "w");
    VSfdefine(vs, "B", DFNT_INT32, 1);
    intn r1 = VSsetfields(vs, "B,Q");  /* Q is not defined: refused */
    intn r2 = VSsetfields(vs, "B");    /* a correct request afterwards */
    printf("D48: VSsetfields(\"B,Q\") = %d (FAIL expected), then VSsetfields(\"B\") = %d (SUCCEED expected)\n", r1, r2);
    bad += !(r1 == FAIL && r2 == SUCCEED);
    VSdetach(vs);
    Vend(fid); Hclose(fid); remove("d47.hdf");
    printf(bad ? "FAIL\n" : "PASS\n");
    return bad;
}

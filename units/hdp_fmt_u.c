/* Verification unit: mfhdf/hdp/hdp_dump.c (C19: "the values printed by the hdp dump commands are the values the
 * library API returns")
 *
 * Under contract: the per-element formatters fmtint8 ... fmtfloat64 (every hdp dumpsds/dumpvd/dumpgr -d value goes
 * through exactly one of them, selected by select_func()).  The element buffer x holds what the library API returned
 * (SDreaddata/VSread/GRreadimage output, native byte order); a formatter is right when the number it hands to
 * fprintf -- after the C default argument promotions, read back with the type the conversion specifier names -- is,
 * AS A MATHEMATICAL INTEGER, the value of the element type stored at x, and the conversion prints base 10.
 *
 * fprintf/fwrite/putc are replaced (macro rename, cbmc and native alike) by logging bodies:
 *   hf_fprintf parses the format (loop-free: '%', up to 3 flag/width characters, optional 'l', conversion) and
 *   fetches the single variadic argument with the type the format demands (d: int, ld: long, u/x/o: unsigned,
 *   lu: unsigned long, f: double).  It records the sign and magnitude of that argument (G.fp_neg, G.fp_mag), the
 *   base, and for %f the double.  Formats without '%' are recorded as literal text (G.fp_lit).
 */
#include "h4v.h"
#include <stdio.h>
#include <string.h>

/* ---------------- ghost log of the output calls (one object: one assigns target) ---------------- */
struct hf_log {
    int                fp_calls; /* fprintf calls so far */
    int                fp_lit;   /* last fprintf: format without conversion (literal text) */
    int                fp_lit0;  /*   its first character */
    int                fp_conv;  /* last fprintf: conversion character ('d','u','x','o','f'), 0 if unknown */
    int                fp_long;  /*   'l' length modifier present */
    int                fp_base;  /*   10, 16, 8 (0 for %f / literal) */
    int                fp_width; /*   minimum field width (0: none) */
    int                fp_neg;   /*   the integer argument is negative */
    unsigned long long fp_mag;   /*   its magnitude */
    double             fp_dbl;   /*   the double argument of %f */
    int                fp_ret;   /*   what fprintf returned */
    FILE              *fp_file;  /*   stream */
    int                fw_calls; /* fwrite calls */
    size_t             fw_size, fw_n;
    unsigned char      fw_bytes[8];
    FILE              *fw_file;
    int                pc_calls; /* putc calls */
    int                pc_ch[2]; /* the first two characters put */
    FILE              *pc_file;
} G;
char               g_ofp_obj[8]; /* stands for the FILE object */

H4V_DECL_ND(int);

/* one conversion, one argument.  cls: 4 = 32-bit integer argument, 8 = 64-bit integer argument, 1 = double, 0 = other
   (after the default argument promotions; taken from the argument's C type by _Generic in the fprintf macro below --
   a variadic stub body is not usable: dfcc appends its write-set parameter to the parameter list).  bits: the
   integer argument's bit pattern; dv: the double argument.  The argument is read back the way the conversion says
   (%d: int, %ld: long, %u %x %o: unsigned, %lu: unsigned long, %f: double); an argument whose size does not fit
   the conversion is recorded as "unknown conversion" (undefined behaviour of printf). */
int
hf_fp1(FILE *f, const char *fmt, int cls, unsigned long long bits, double dv)
{
    int p = 0;
    H4V_ND(int, fp_ret);
    H4V_ASSUME(fp_ret >= -1 && fp_ret <= 64);
    G.fp_calls++;
    G.fp_file  = f;
    G.fp_ret   = fp_ret;
    G.fp_lit   = 0;
    G.fp_lit0  = 0;
    G.fp_conv  = 0;
    G.fp_long  = 0;
    G.fp_base  = 0;
    G.fp_width = 0;
    G.fp_neg   = 0;
    G.fp_mag   = 0;
    G.fp_dbl   = 0.0;
    if (fmt[0] != '%') {
        /* literal text ("FloatInf", error messages): no value of the data buffer is printed by it */
        G.fp_lit  = 1;
        G.fp_lit0 = fmt[0];
        return fp_ret;
    }
    p = 1;
    /* width: at most three characters out of "0".."9" (e.g. %02x, %03o) */
    if (fmt[p] >= '0' && fmt[p] <= '9') {
        G.fp_width = fmt[p] - '0';
        p++;
        if (fmt[p] >= '0' && fmt[p] <= '9') {
            G.fp_width = 10 * G.fp_width + (fmt[p] - '0');
            p++;
            if (fmt[p] >= '0' && fmt[p] <= '9') {
                G.fp_width = 10 * G.fp_width + (fmt[p] - '0');
                p++;
            }
        }
    }
    if (fmt[p] == 'l') {
        G.fp_long = 1;
        p++;
    }
    G.fp_conv = fmt[p];
    if ((G.fp_conv == 'd' || G.fp_conv == 'i') && cls == (G.fp_long ? 8 : 4)) {
        long long v = G.fp_long ? (long long)(long)bits : (long long)(int)(unsigned)bits;
        G.fp_base   = 10;
        G.fp_neg    = v < 0;
        G.fp_mag    = v < 0 ? 0ULL - (unsigned long long)v : (unsigned long long)v;
    }
    else if ((G.fp_conv == 'u' || G.fp_conv == 'x' || G.fp_conv == 'o') && cls == (G.fp_long ? 8 : 4)) {
        G.fp_base = G.fp_conv == 'u' ? 10 : G.fp_conv == 'x' ? 16 : 8;
        G.fp_mag  = G.fp_long ? bits : (unsigned long long)(unsigned)bits;
    }
    else if ((G.fp_conv == 'f' || G.fp_conv == 'e' || G.fp_conv == 'g') && cls == 1 && !G.fp_long) {
        G.fp_dbl = dv;
    }
    else
        G.fp_conv = 0; /* unknown conversion / argument of the wrong size: every contract clause on it fails */
    return fp_ret;
}

#define HF_CLS(a)                                                                                            \
    _Generic((a) + 0, int: 4, unsigned: 4, long: 8, unsigned long: 8, long long: 8, unsigned long long: 8, float: 1, double: 1, default: 0)
#define HF_IBITS(a)                                                                                          \
    _Generic((a) + 0, int: (unsigned long long)(unsigned)(unsigned long long)(a),                             \
             unsigned: (unsigned long long)(unsigned)(unsigned long long)(a), long: (unsigned long long)(a),   \
             unsigned long: (unsigned long long)(a), long long: (unsigned long long)(a),                       \
             unsigned long long: (unsigned long long)(a), default: 0ULL)
#define HF_DVAL(a)               _Generic((a) + 0, float: (a), double: (a), default: 0.0)
#define HF_SEL(_1, _2, _3, _4, _5, _6, _7, _8, NAME, ...) NAME
#define hf_fprintf2(f, fmt)      hf_fp1(f, fmt, 0, 0ULL, 0.0)
#define hf_fprintf3(f, fmt, a)   hf_fp1(f, fmt, HF_CLS(a), HF_IBITS(a), HF_DVAL(a))
#define hf_fprintfN(f, fmt, ...) hf_fp1(f, fmt, 0, 0ULL, 0.0)
#define hf_fprintf(...)                                                                                      \
    HF_SEL(__VA_ARGS__, hf_fprintfN, hf_fprintfN, hf_fprintfN, hf_fprintfN, hf_fprintfN, hf_fprintf3, hf_fprintf2, x)(__VA_ARGS__)

size_t
hf_fwrite(const void *ptr, size_t size, size_t n, FILE *f)
{
    G.fw_calls++;
    G.fw_size = size;
    G.fw_n    = n;
    G.fw_file = f;
    H4V_CHECK(size * n <= 8, "hdp formatter writes at most one element");
    if (size * n <= 8)
        memcpy(G.fw_bytes, ptr, size * n);
    H4V_ND(int, fw_ret);
    H4V_ASSUME(fw_ret >= 0 && (size_t)fw_ret <= n);
    return (size_t)fw_ret;
}

int
hf_putc(int c, FILE *f)
{
    if (G.pc_calls >= 0 && G.pc_calls < 2)
        G.pc_ch[G.pc_calls] = c;
    G.pc_calls++;
    G.pc_file = f;
    return c;
}

/* C locale (hdp never calls setlocale) */
int
hf_isprint(int c)
{
    return c >= 0x20 && c <= 0x7e;
}

#include <ctype.h>
#include <float.h>
#include <math.h>
#include "mfhdf.h"
#undef fprintf
#undef fwrite
#undef putc
#undef isprint
#define fprintf(...) hf_fprintf(__VA_ARGS__)
#define fwrite  hf_fwrite
#define putc    hf_putc
#define isprint hf_isprint

#ifdef H4V_CBMC
/* callees of dumpfull/dumpclean (not under contract here) */
int32
DFKNTsize(int32 nt)
{
    return nondet_int();
}
#endif

#include "../hdp/hdp_dump.c"

/* ---------------- contract vocabulary ---------------- */
/* the typed value stored at x (x is not necessarily aligned: byte-wise read, native little-endian order as cbmc
   and the replay host have it) */
#define HF_U8(x)  ((unsigned long long)((const unsigned char *)(x))[0])
#define HF_U16(x) (HF_U8(x) | ((unsigned long long)((const unsigned char *)(x))[1] << 8))
#define HF_U32(x) (HF_U16(x) | ((unsigned long long)((const unsigned char *)(x))[2] << 16) | ((unsigned long long)((const unsigned char *)(x))[3] << 24))
/* mathematical values as long long */
#define HF_VAL_U8(x)  ((long long)HF_U8(x))
#define HF_VAL_I8(x)  (HF_VAL_U8(x) >= 128 ? HF_VAL_U8(x) - 256 : HF_VAL_U8(x))
#define HF_VAL_U16(x) ((long long)HF_U16(x))
#define HF_VAL_I16(x) (HF_VAL_U16(x) >= 32768 ? HF_VAL_U16(x) - 65536 : HF_VAL_U16(x))
#define HF_VAL_U32(x) ((long long)HF_U32(x))
#define HF_VAL_I32(x) (HF_VAL_U32(x) >= 2147483648LL ? HF_VAL_U32(x) - 4294967296LL : HF_VAL_U32(x))
/* "exactly one fprintf with one base-`b` integer conversion whose argument is the mathematical integer v" */
#define HF_PRINTED(v, b)                                                                                     \
    (G.fp_calls == 1 && G.fw_calls == 0 && !G.fp_lit && G.fp_base == (b) && G.fp_file == ofp &&             \
     ((v) < 0 ? (G.fp_neg && G.fp_mag == (unsigned long long)(-(v))) : (!G.fp_neg && G.fp_mag == (unsigned long long)(v))))
/* binary mode: exactly one fwrite of one element whose bytes are the stored bytes (ghost byte index g_b) */
#define HF_WRITTEN(x, sz)                                                                                    \
    (G.fw_calls == 1 && G.fp_calls == 0 && G.fw_size == (sz) && G.fw_n == 1 && G.fw_file == ofp &&           \
     G.fw_bytes[g_b] == ((const unsigned char *)(x))[g_b])
int g_b; /* ghost byte index inside the element */

#define HF_PRE(sz)                                                                                           \
    (x != NULL && ofp != NULL && G.fp_calls == 0 && G.fw_calls == 0 && G.pc_calls == 0 && g_b >= 0 && g_b < (sz) && \
     (ff == DASCII || ff == DBINARY))

/* integer formatters: ASCII -> the decimal text of the typed value; binary -> the element's bytes;
   the result is what the output call returned; the element is not written */
int fmtint8(void *x, file_format_t ff, FILE *ofp)
    __CPROVER_requires(__CPROVER_r_ok(x, 1))
    __CPROVER_requires(HF_PRE(1))
    __CPROVER_assigns(G)
    __CPROVER_ensures(ff == DASCII ==> (HF_PRINTED(HF_VAL_I8(x), 10) && __CPROVER_return_value == G.fp_ret))
    __CPROVER_ensures(ff != DASCII ==> HF_WRITTEN(x, 1));
int fmtuint8(void *x, file_format_t ff, FILE *ofp)
    __CPROVER_requires(__CPROVER_r_ok(x, 1))
    __CPROVER_requires(HF_PRE(1))
    __CPROVER_assigns(G)
    __CPROVER_ensures(ff == DASCII ==> (HF_PRINTED(HF_VAL_U8(x), 10) && __CPROVER_return_value == G.fp_ret))
    __CPROVER_ensures(ff != DASCII ==> HF_WRITTEN(x, 1));
int fmtuchar8(void *x, file_format_t ff, FILE *ofp)
    __CPROVER_requires(__CPROVER_r_ok(x, 1))
    __CPROVER_requires(HF_PRE(1))
    __CPROVER_assigns(G)
    __CPROVER_ensures(ff == DASCII ==> (HF_PRINTED(HF_VAL_U8(x), 10) && __CPROVER_return_value == G.fp_ret))
    __CPROVER_ensures(ff != DASCII ==> HF_WRITTEN(x, 1));
int fmtint16(void *x, file_format_t ff, FILE *ofp)
    __CPROVER_requires(__CPROVER_r_ok(x, 2))
    __CPROVER_requires(HF_PRE(2))
    __CPROVER_assigns(G)
    __CPROVER_ensures(ff == DASCII ==> (HF_PRINTED(HF_VAL_I16(x), 10) && __CPROVER_return_value == G.fp_ret))
    __CPROVER_ensures(ff != DASCII ==> HF_WRITTEN(x, 2));
int fmtuint16(void *x, file_format_t ff, FILE *ofp)
    __CPROVER_requires(__CPROVER_r_ok(x, 2))
    __CPROVER_requires(HF_PRE(2))
    __CPROVER_assigns(G)
    __CPROVER_ensures(ff == DASCII ==> (HF_PRINTED(HF_VAL_U16(x), 10) && __CPROVER_return_value == G.fp_ret))
    __CPROVER_ensures(ff != DASCII ==> HF_WRITTEN(x, 2));
int fmtshort(void *x, file_format_t ff, FILE *ofp)
    __CPROVER_requires(__CPROVER_r_ok(x, 2))
    __CPROVER_requires(HF_PRE(2))
    __CPROVER_assigns(G)
    __CPROVER_ensures(ff == DASCII ==> (HF_PRINTED(HF_VAL_I16(x), 10) && __CPROVER_return_value == G.fp_ret))
    __CPROVER_ensures(ff != DASCII ==> HF_WRITTEN(x, 2));
int fmtint32(void *x, file_format_t ff, FILE *ofp)
    __CPROVER_requires(__CPROVER_r_ok(x, 4))
    __CPROVER_requires(HF_PRE(4))
    __CPROVER_assigns(G)
    __CPROVER_ensures(ff == DASCII ==> (HF_PRINTED(HF_VAL_I32(x), 10) && __CPROVER_return_value == G.fp_ret))
    __CPROVER_ensures(ff != DASCII ==> HF_WRITTEN(x, 4));
int fmtuint32(void *x, file_format_t ff, FILE *ofp)
    __CPROVER_requires(__CPROVER_r_ok(x, 4))
    __CPROVER_requires(HF_PRE(4))
    __CPROVER_assigns(G)
    __CPROVER_ensures(ff == DASCII ==> (HF_PRINTED(HF_VAL_U32(x), 10) && __CPROVER_return_value == G.fp_ret))
    __CPROVER_ensures(ff != DASCII ==> HF_WRITTEN(x, 4));
int fmtint(void *x, file_format_t ff, FILE *ofp)
    __CPROVER_requires(__CPROVER_r_ok(x, 4))
    __CPROVER_requires(HF_PRE(4))
    __CPROVER_assigns(G)
    __CPROVER_ensures(ff == DASCII ==> (HF_PRINTED(HF_VAL_I32(x), 10) && __CPROVER_return_value == G.fp_ret))
    __CPROVER_ensures(ff != DASCII ==> HF_WRITTEN(x, 4));
/* fmtbyte is the hex dump of a byte ("%02x "): base 16, width 2 -- not used by the -d data dumps */
int fmtbyte(unsigned char *x, file_format_t ff, FILE *ofp)
    __CPROVER_requires(__CPROVER_r_ok(x, 1))
    __CPROVER_requires(HF_PRE(1))
    __CPROVER_assigns(G)
    __CPROVER_ensures(ff == DASCII ==> (HF_PRINTED(HF_VAL_U8(x), 16) && G.fp_width == 2 && __CPROVER_return_value == G.fp_ret))
    __CPROVER_ensures(ff != DASCII ==> HF_WRITTEN(x, 1));
/* fmtchar: a printable character is put as itself (1 column); anything else as backslash + 3-digit octal code */
int fmtchar(void *x, file_format_t ff, FILE *ofp)
    __CPROVER_requires(__CPROVER_r_ok(x, 1))
    __CPROVER_requires(HF_PRE(1))
    __CPROVER_assigns(G)
    __CPROVER_ensures((HF_U8(x) >= 0x20 && HF_U8(x) <= 0x7e) ==>
                      (G.pc_calls == 1 && G.fp_calls == 0 && G.fw_calls == 0 && (G.pc_ch[0] & 0xff) == (int)HF_U8(x) &&
                       G.pc_file == ofp && __CPROVER_return_value == 1))
    __CPROVER_ensures(!(HF_U8(x) >= 0x20 && HF_U8(x) <= 0x7e) ==>
                      (G.pc_calls == 1 && G.pc_ch[0] == '\\' && G.pc_file == ofp && HF_PRINTED(HF_VAL_U8(x), 8) && G.fp_width == 3 &&
                       __CPROVER_return_value == 1 + G.fp_ret));

/* float formatters: the double handed to %f equals the stored value (no claim about the text); the netCDF fill
   value FILL_FLOAT/FILL_DOUBLE is printed as the literal "FloatInf"/"DoubleInf" (documented hdp behaviour);
   g_fbits/g_dbits: the harness' copy of the stored value, so that the clause is a float equality (NaN-free) */
float32 g_fval;
float64 g_dval;
#define HF_ISFILL32(v) ((v) == FILL_FLOAT)
#define HF_ISFILL64(v) ((v) == FILL_DOUBLE)
int fmtfloat32(void *x, file_format_t ff, FILE *ofp)
    __CPROVER_requires(__CPROVER_r_ok(x, 4))
    __CPROVER_requires(HF_PRE(4))
    __CPROVER_assigns(G)
    __CPROVER_requires(g_fval == g_fval) /* NaN-free (property quantifier) */
    __CPROVER_ensures((ff == DASCII && !HF_ISFILL32(g_fval)) ==>
                      (G.fp_calls == 1 && G.fw_calls == 0 && G.fp_conv == 'f' && G.fp_file == ofp && G.fp_dbl == (double)g_fval &&
                       __CPROVER_return_value == G.fp_ret))
    __CPROVER_ensures((ff == DASCII && HF_ISFILL32(g_fval)) ==>
                      (G.fp_calls == 1 && G.fw_calls == 0 && G.fp_lit && G.fp_lit0 == 'F' && __CPROVER_return_value == G.fp_ret))
    __CPROVER_ensures(ff != DASCII ==> HF_WRITTEN(x, 4));
int fmtfloat64(void *x, file_format_t ff, FILE *ofp)
    __CPROVER_requires(__CPROVER_r_ok(x, 8))
    __CPROVER_requires(HF_PRE(8))
    __CPROVER_assigns(G)
    __CPROVER_requires(g_dval == g_dval)
    __CPROVER_ensures((ff == DASCII && !HF_ISFILL64(g_dval)) ==>
                      (G.fp_calls == 1 && G.fw_calls == 0 && G.fp_conv == 'f' && G.fp_file == ofp && G.fp_dbl == g_dval &&
                       __CPROVER_return_value == G.fp_ret))
    __CPROVER_ensures((ff == DASCII && HF_ISFILL64(g_dval)) ==>
                      (G.fp_calls == 1 && G.fw_calls == 0 && G.fp_lit && G.fp_lit0 == 'D' && __CPROVER_return_value == G.fp_ret))
    __CPROVER_ensures(ff != DASCII ==> HF_WRITTEN(x, 8));

/* select_func: the formatter matches the number type (the native bit DFNT_NATIVE etc. is masked) */
fmtfunct_t select_func(int32 nt)
    __CPROVER_requires(1)
    __CPROVER_assigns(G)
    __CPROVER_ensures(((nt & 0xff) == DFNT_INT8) ==> __CPROVER_return_value == fmtint8)
    __CPROVER_ensures(((nt & 0xff) == DFNT_UINT8) ==> __CPROVER_return_value == fmtuint8)
    __CPROVER_ensures(((nt & 0xff) == DFNT_INT16) ==> __CPROVER_return_value == fmtint16)
    __CPROVER_ensures(((nt & 0xff) == DFNT_UINT16) ==> __CPROVER_return_value == fmtuint16)
    __CPROVER_ensures(((nt & 0xff) == DFNT_INT32) ==> __CPROVER_return_value == fmtint32)
    __CPROVER_ensures(((nt & 0xff) == DFNT_UINT32) ==> __CPROVER_return_value == fmtuint32)
    __CPROVER_ensures(((nt & 0xff) == DFNT_FLOAT32) ==> __CPROVER_return_value == fmtfloat32)
    __CPROVER_ensures(((nt & 0xff) == DFNT_FLOAT64) ==> __CPROVER_return_value == fmtfloat64)
    __CPROVER_ensures(((nt & 0xff) == DFNT_UCHAR8) ==> __CPROVER_return_value == fmtuchar8)
    __CPROVER_ensures(((nt & 0xff) == DFNT_CHAR8) ==> __CPROVER_return_value == fmtchar);

#ifdef H4V_NATIVE
#include "h4v_native_wrap.h"
#endif

/* ---------------- harnesses ---------------- */
typedef unsigned char hf_byte;
H4V_DECL_ND(hf_byte);
H4V_DECL_ND(int32);
H4V_DECL_ND(uint32);

#define HF_RESET()                                                                                           \
    G.fp_calls = G.fw_calls = G.pc_calls = 0;                                                                \
    G.fp_lit = G.fp_lit0 = G.fp_conv = G.fp_long = G.fp_base = G.fp_width = G.fp_neg = G.fp_ret = 0;        \
    G.fp_mag = 0;                                                                                            \
    G.fp_dbl = 0.0;                                                                                          \
    G.fp_file = G.fw_file = G.pc_file = NULL;                                                                \
    G.fw_size = G.fw_n = 0;                                                                                  \
    G.pc_ch[0] = G.pc_ch[1] = 0

/* an element buffer of SZ arbitrary bytes at an arbitrary (possibly odd) offset inside a record, as hdp's vdata
   dump hands them over */
#define HF_ENV(SZ)                                                                                           \
    HF_RESET();                                                                                              \
    H4V_HAVOC(int, g_b);                                                                                     \
    H4V_ASSUME(g_b >= 0 && g_b < (SZ));                                                                      \
    H4V_ND(int, off);                                                                                        \
    H4V_ASSUME(off >= 0 && off <= 3);                                                                        \
    H4V_ND(int, ffi);                                                                                        \
    H4V_ASSUME(ffi == 0 || ffi == 1);                                                                        \
    file_format_t  ff  = ffi ? DBINARY : DASCII;                                                             \
    unsigned char *rec = malloc(12);                                                                         \
    H4V_ASSUME(rec != NULL);                                                                                 \
    H4V_ND(uint32, bits_lo);                                                                                 \
    H4V_ND(uint32, bits_hi);                                                                                 \
    for (int i_ = 0; i_ < 4; i_++) {                                                                         \
        rec[off + i_]     = (unsigned char)(bits_lo >> (8 * i_));                                            \
        rec[off + 4 + i_] = (unsigned char)(bits_hi >> (8 * i_));                                            \
    }                                                                                                        \
    void *x   = rec + off;                                                                                   \
    FILE *ofp = (FILE *)g_ofp_obj

#define HF_HARNESS(fn, SZ, XT, covers)                                                                       \
    void h_##fn(void)                                                                                        \
    {                                                                                                        \
        HF_ENV(SZ);                                                                                          \
        int r = fn((XT)x, ff, ofp);                                                                          \
        covers;                                                                                              \
        H4V_COVER(ff == DASCII, #fn " ascii");                                                               \
        H4V_COVER(ff == DBINARY, #fn " binary");                                                             \
        H4V_CANARY(#fn " end");                                                                              \
    }

HF_HARNESS(fmtint8, 1, void *, H4V_COVER(ff == DASCII && G.fp_neg, "fmtint8 negative"))
HF_HARNESS(fmtuint8, 1, void *, H4V_COVER(ff == DASCII && G.fp_mag >= 128, "fmtuint8 high"))
HF_HARNESS(fmtuchar8, 1, void *, H4V_COVER(ff == DASCII && G.fp_mag >= 128, "fmtuchar8 high"))
HF_HARNESS(fmtbyte, 1, unsigned char *, H4V_COVER(ff == DASCII && G.fp_mag >= 128, "fmtbyte high"))
HF_HARNESS(fmtint16, 2, void *, H4V_COVER(ff == DASCII && G.fp_neg, "fmtint16 negative"))
HF_HARNESS(fmtuint16, 2, void *, H4V_COVER(ff == DASCII && G.fp_mag >= 32768, "fmtuint16 high"))
HF_HARNESS(fmtshort, 2, void *, H4V_COVER(ff == DASCII && G.fp_neg, "fmtshort negative"))
HF_HARNESS(fmtint32, 4, void *, H4V_COVER(ff == DASCII && G.fp_neg, "fmtint32 negative"))
HF_HARNESS(fmtuint32, 4, void *, H4V_COVER(ff == DASCII && G.fp_mag >= 2147483648ULL, "fmtuint32 high"))
HF_HARNESS(fmtint, 4, void *, H4V_COVER(ff == DASCII && G.fp_neg, "fmtint negative"))
HF_HARNESS(fmtchar, 1, void *, H4V_COVER(G.fp_calls == 1, "fmtchar octal escape"); H4V_COVER(G.fp_calls == 0, "fmtchar printable"))

void
h_fmtfloat32(void)
{
    HF_ENV(4);
    memcpy(&g_fval, x, 4);
    H4V_ASSUME(g_fval == g_fval);
    int r = fmtfloat32(x, ff, ofp);
    H4V_COVER(ff == DASCII && G.fp_lit, "fmtfloat32 fill value");
    H4V_COVER(ff == DASCII && !G.fp_lit, "fmtfloat32 value");
    H4V_COVER(ff == DBINARY, "fmtfloat32 binary");
    H4V_CANARY("fmtfloat32 end");
}

void
h_fmtfloat64(void)
{
    HF_ENV(8);
    memcpy(&g_dval, x, 8);
    H4V_ASSUME(g_dval == g_dval);
    int r = fmtfloat64(x, ff, ofp);
    H4V_COVER(ff == DASCII && G.fp_lit, "fmtfloat64 fill value");
    H4V_COVER(ff == DASCII && !G.fp_lit, "fmtfloat64 value");
    H4V_COVER(ff == DBINARY, "fmtfloat64 binary");
    H4V_CANARY("fmtfloat64 end");
}

void
h_select_func(void)
{
    HF_RESET();
    H4V_ND(int32, nt);
    fmtfunct_t f = select_func(nt);
    H4V_COVER(f == fmtuint32, "select_func uint32");
    H4V_COVER(G.fp_calls == 1, "select_func unsupported type");
    H4V_CANARY("select_func end");
}

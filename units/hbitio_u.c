/* Verification unit: hdf/src/hbitio.c (C05 bit-granular element I/O; C13 stale bit ids)
 *
 * The data element behind the bit layer is a ghost byte store behind Hwrite/Hread/Hseek/Hinquire
 * (one element, one access id).  The atom layer is a one-slot ghost registry: HAregister_atom
 * hands out g_reg_id for the record, HAatom_object knows exactly that id while it is registered,
 * HAremove_atom forgets it.  All histories run through the REAL API functions of hbitio.c
 * (Hstartbitwrite/Hstartbitread/Hbitwrite/Hbitread/Hbitseek/Hendbitaccess and the statics they
 * call), so the function-static record caches of Hbitwrite/Hbitread are driven by real calls.
 */
#include "h4v.h"
#include "h4v_err.h"
#include <string.h>
#include "atom_priv.h"

#ifndef BIT_CAP
#define BIT_CAP 16 /* capacity of the ghost store in bytes (3 fields of <= 32 bits need 12) */
#endif

/* ------------------------------- ghost state ------------------------------- */
uint8  g_store[BIT_CAP]; /* element contents */
int32  g_len;            /* element length */
int32  g_pos;            /* position of the access id */
int32  g_aid;            /* the access id of the element */
int    g_aid_open;       /* Hstart* handed it out and Hendaccess has not closed it */
int32  g_reg_id;         /* the bit id the atom layer hands out */
void  *g_reg_obj;        /* object registered under it */
int    g_registered;     /* ... while this is 1 */
int    g_unknown_lookups; /* HAatom_object calls that returned NULL */

/* --------------------------------- stubs ----------------------------------- */
#ifdef H4V_CBMC
/* calloc never fails in these histories (the allocation-failure path of HIget_bitfile_rec is not
   what they are about): with cbmc's may-fail model the record's fields become
   `failed ? 0 : value` after Hstartbit*, nothing folds any more and the recursion
   Hbitwrite -> HIread2write -> Hbitseek -> HIbitflush -> Hbitwrite is unfolded to the bound. */
void *
calloc(size_t n, size_t s)
{
    return __CPROVER_allocate(n * s, 1);
}
#endif
int
HAinit_group(group_t grp, unsigned hash_size)
{
    return SUCCEED;
}
int
HAdestroy_group(group_t grp)
{
    return SUCCEED;
}
atom_t
HAregister_atom(group_t grp, void *object)
{
    H4V_CHECK(grp == BITIDGROUP && object != NULL, "bit records are registered in BITIDGROUP");
    g_reg_obj    = object;
    g_registered = 1;
    return g_reg_id;
}
void *
HAatom_object(atom_t atm)
{
    if (g_registered && atm == g_reg_id)
        return g_reg_obj;
    g_unknown_lookups++;
    return NULL;
}
void *
HAremove_atom(atom_t atm)
{
    if (g_registered && atm == g_reg_id) {
        g_registered = 0;
        return g_reg_obj;
    }
    return NULL;
}

int
Hexist(int32 file_id, uint16 search_tag, uint16 search_ref)
{
    return g_len > 0 ? SUCCEED : FAIL;
}
int32
Hstartwrite(int32 file_id, uint16 tag, uint16 ref, int32 length)
{
    g_aid_open = 1;
    g_pos      = 0;
    return g_aid;
}
int32
Hstartread(int32 file_id, uint16 tag, uint16 ref)
{
    g_aid_open = 1;
    g_pos      = 0;
    return g_aid;
}
int
Hendaccess(int32 access_id)
{
    H4V_CHECK(access_id == g_aid && g_aid_open, "Hendaccess on the open aid of the element");
    g_aid_open = 0;
    return SUCCEED;
}
int
Happendable(int32 aid)
{
    return SUCCEED;
}
int
Hinquire(int32 access_id, int32 *pfile_id, uint16 *ptag, uint16 *pref, int32 *plength, int32 *poffset, int32 *pposn,
         int16 *paccess, int16 *pspecial)
{
    H4V_CHECK(access_id == g_aid && g_aid_open, "Hinquire on the open aid of the element");
    if (plength)
        *plength = g_len;
    return SUCCEED;
}
int
Hseek(int32 access_id, int32 offset, int origin)
{
    H4V_CHECK(access_id == g_aid && g_aid_open, "Hseek on the open aid of the element");
    H4V_CHECK(origin == 0 /* DF_START */, "bit layer seeks from the start");
    if (offset < 0 || offset > g_len)
        return FAIL;
    g_pos = offset;
    return SUCCEED;
}
int32
Hwrite(int32 access_id, int32 length, const void *data)
{
    const uint8 *p = (const uint8 *)data;
    H4V_CHECK(access_id == g_aid && g_aid_open, "Hwrite on the open aid of the element");
    H4V_CHECK(length > 0, "Hwrite length > 0");
    H4V_CHECK(g_pos >= 0 && length <= BIT_CAP - g_pos, "ghost store capacity (bound of the harness, not of the code)");
    if (!(length > 0 && g_pos >= 0 && length <= BIT_CAP - g_pos))
        return FAIL;
    for (int32 i = 0; i < length; i++)
        g_store[g_pos + i] = p[i];
    g_pos += length;
    if (g_pos > g_len)
        g_len = g_pos;
    return length;
}
/* as the real Hread: length 0 or a request beyond the end is cut to the rest of the element */
int32
Hread(int32 access_id, int32 length, void *data)
{
    uint8 *p = (uint8 *)data;
    H4V_CHECK(access_id == g_aid && g_aid_open, "Hread on the open aid of the element");
    if (length < 0 || g_pos < 0 || g_pos > g_len)
        return FAIL;
    if (length == 0 || length > g_len - g_pos)
        length = g_len - g_pos;
    for (int32 i = 0; i < length; i++)
        p[i] = g_store[g_pos + i];
    g_pos += length;
    return length;
}

#include "hbitio.c"

#ifdef H4V_NATIVE
#include "h4v_native_wrap.h"
#endif

/* -------------------------------- harnesses -------------------------------- */
H4V_DECL_ND(int32);
H4V_DECL_ND(int);
H4V_DECL_ND(uint32);

#define LOWBITS(c) ((c) >= 32 ? 0xffffffffu : ((1u << (c)) - 1u))

/* mask tables: entry i has exactly the i low bits set (ghost index: all entries) */
void
h_bit_masks(void)
{
    H4V_ND(int, mi);
    if (mi >= 0 && mi <= 8)
        H4V_CHECK(maskc[mi] == LOWBITS(mi), "maskc[i] == 2^i - 1");
    if (mi >= 0 && mi <= 32)
        H4V_CHECK(maskl[mi] == LOWBITS(mi), "maskl[i] == 2^i - 1");
    H4V_COVER(mi == 32, "maskl[32]");
    H4V_CANARY("bit_masks end");
}

static void
ghost_init(void)
{
    /* concrete ids (hbitio.c treats ids as opaque): with symbolic ids cbmc cannot fold
       `bitid != last_bit_id` nor `mode == 'r'`, and then unfolds the recursion
       Hbitwrite -> HIread2write -> Hbitseek -> HIbitflush -> Hbitwrite to the unwind bound */
    g_aid    = 0x30000001;
    g_reg_id = 0x70000001;
    g_len = g_pos = 0;
    g_aid_open = g_registered = 0;
    g_unknown_lookups = 0;
    g_reg_obj         = NULL;
    memset(g_store, 0, BIT_CAP);
}

#ifndef BIT_NF
#define BIT_NF 3
#endif

/* write nf <= BIT_NF fields of width 1..32, close (flush with zeros), reopen for reading, read
   the same widths: same bits; byte/bit accounting; stored length */
void
h_bit_roundtrip(void)
{
    ghost_init();
    int    cnt[BIT_NF];
    uint32 val[BIT_NF];
    H4V_ND(int, nf);
    H4V_ASSUME(nf >= 1 && nf <= BIT_NF);
    H4V_ND(int, c0);
    H4V_ND(uint32, v0);
    H4V_ND(int, c1);
    H4V_ND(uint32, v1);
    H4V_ND(int, c2);
    H4V_ND(uint32, v2);
    cnt[0] = c0;
    val[0] = v0;
#if BIT_NF > 1
    cnt[1] = c1;
    val[1] = v1;
#endif
#if BIT_NF > 2
    cnt[2] = c2;
    val[2] = v2;
#endif
    int total = 0;
    for (int i = 0; i < BIT_NF; i++) {
        H4V_ASSUME(cnt[i] >= 1 && cnt[i] <= 32);
        if (i < nf)
            total += cnt[i];
    }

    int32 id = Hstartbitwrite(1, 2, 3, 0);
    H4V_CHECK(id == g_reg_id && g_registered, "Hstartbitwrite returns the registered id");
    bitrec_t *rec = (bitrec_t *)g_reg_obj;
    for (int i = 0; i < BIT_NF; i++)
        if (i < nf) {
            int r = Hbitwrite(id, cnt[i], val[i]);
            H4V_CHECK(r == cnt[i], "Hbitwrite returns the number of bits written");
        }
    /* accounting while writing: whole bytes done, free bits in the bit buffer */
    H4V_CHECK(rec->byte_offset == total / 8 && rec->count == 8 - total % 8, "write side byte_offset/count accounting");
    H4V_CHECK(rec->count == 8 || (rec->bits & ((1u << rec->count) - 1u)) == 0, "unused low bits of the bit buffer are zero");
    int32 e = Hendbitaccess(id, 0);
    H4V_CHECK(e == SUCCEED && !g_registered && !g_aid_open, "Hendbitaccess closes everything");
    H4V_CHECK(g_len == (total + 7) / 8, "stored size is the bit count rounded up to bytes");

    int32 id2 = Hstartbitread(1, 2, 3);
    H4V_CHECK(id2 == g_reg_id && g_registered, "Hstartbitread returns the registered id");
    rec = (bitrec_t *)g_reg_obj;
    for (int i = 0; i < BIT_NF; i++)
        if (i < nf) {
            uint32 got = 0xdeadbeefu;
            int    r   = Hbitread(id2, cnt[i], &got);
            H4V_CHECK(r == cnt[i], "Hbitread returns the number of bits read");
            H4V_CHECK(got == (val[i] & LOWBITS(cnt[i])), "round trip: bits read back equal bits written");
        }
    H4V_CHECK(rec->byte_offset == (total + 7) / 8 && rec->count == (8 - total % 8) % 8, "read side byte_offset/count accounting");
    e = Hendbitaccess(id2, 0);
    H4V_CHECK(e == SUCCEED, "second Hendbitaccess");
    H4V_COVER(nf == BIT_NF && total % 8 != 0, "all fields, unaligned end");
    H4V_COVER(nf == BIT_NF && total == 32 * BIT_NF, "all fields full width");
    H4V_CANARY("bit_roundtrip end");
}

/* write 2 fields, seek back to a bit position inside what was written (Hbitseek in write mode),
   switch to reading (HIwrite2read -> HIbitflush -> Hbitseek) and read the rest back */
void
h_bit_seek(void)
{
    ghost_init();
    H4V_ND(int, c0);
    H4V_ND(uint32, v0);
    H4V_ND(int, c1);
    H4V_ND(uint32, v1);
    H4V_ASSUME(c0 >= 1 && c0 <= 32 && c1 >= 1 && c1 <= 32);
    int32 id = Hstartbitwrite(1, 2, 3, 0);
    H4V_CHECK(id == g_reg_id && g_registered, "Hstartbitwrite returns the registered id");
    bitrec_t *rec = (bitrec_t *)g_reg_obj;
    int       r   = Hbitwrite(id, c0, v0);
    H4V_CHECK(r == c0, "write 1");
    r = Hbitwrite(id, c1, v1);
    H4V_CHECK(r == c1, "write 2");
    /* seek to the start of field 2 and read it back through the mode switch */
    int s = Hbitseek(id, c0 / 8, c0 % 8);
    H4V_CHECK(s == SUCCEED, "Hbitseek inside the written range succeeds");
    H4V_CHECK(rec->byte_offset == c0 / 8, "Hbitseek sets byte_offset");
    uint32 got = 0xdeadbeefu;
    r          = Hbitread(id, c1, &got);
    H4V_CHECK(r == c1, "read after seek returns the count");
    H4V_CHECK(got == (v1 & LOWBITS(c1)), "bits read after a bit seek equal the bits written there");
    /* and seeking outside is rejected */
    s = Hbitseek(id, -1, 0);
    H4V_CHECK(s == FAIL, "negative byte offset rejected");
    s = Hbitseek(id, 0, 8);
    H4V_CHECK(s == FAIL, "bit offset 8 rejected");
    H4V_COVER(c0 % 8 != 0 && (c0 + c1) % 8 != 0, "unaligned seek target and end");
    H4V_CANARY("bit_seek end");
}

#ifndef BIT_STALE_MAXC
#define BIT_STALE_MAXC 7 /* field width in the stale-id histories (the width is irrelevant to the clause) */
#endif
/* C13 (D6): a bit id that the atom layer no longer knows must be rejected without touching the
   freed record.  2-call history per function: a valid call (fills the function-static cache),
   Hendbitaccess (HAremove_atom forgets the id, the record is freed), the same call again. */
void
h_bit_stale_write(void)
{
    ghost_init();
    H4V_ND(int, c0);
    H4V_ND(uint32, v0);
    H4V_ASSUME(c0 >= 1 && c0 <= BIT_STALE_MAXC);
    int32 id = Hstartbitwrite(1, 2, 3, 0);
    H4V_CHECK(id == g_reg_id && g_registered, "Hstartbitwrite returns the registered id");
    int r = Hbitwrite(id, c0, v0);
    H4V_CHECK(r == c0, "valid Hbitwrite");
    int32 e = Hendbitaccess(id, 0);
    H4V_CHECK(e == SUCCEED && !g_registered, "Hendbitaccess removed the id; record freed");
    r = Hbitwrite(id, c0, v0);
    H4V_CHECK(r == FAIL, "C13: Hbitwrite with an id the atom layer no longer knows returns FAIL");
    H4V_CANARY("bit_stale_write end");
}

void
h_bit_stale_read(void)
{
    ghost_init();
    H4V_ND(int, c0);
    H4V_ASSUME(c0 >= 1 && c0 <= BIT_STALE_MAXC);
    g_len = 4; /* a 4-byte element exists */
    int32 id = Hstartbitread(1, 2, 3);
    H4V_CHECK(id == g_reg_id && g_registered, "Hstartbitread returns the registered id");
    uint32 got = 0;
    int    r   = Hbitread(id, c0, &got);
    H4V_CHECK(r == c0, "valid Hbitread");
    int32 e = Hendbitaccess(id, 0);
    H4V_CHECK(e == SUCCEED && !g_registered, "Hendbitaccess removed the id; record freed");
    r = Hbitread(id, c0, &got);
    H4V_CHECK(r == FAIL, "C13: Hbitread with an id the atom layer no longer knows returns FAIL");
    H4V_CANARY("bit_stale_read end");
}

/* control: an id that was never registered IS rejected (the lookup path itself is right) */
void
h_bit_unknown_id(void)
{
    ghost_init();
    H4V_ND(int32, some_id);
    H4V_ND(int, c0);
    H4V_ND(uint32, v0);
    int s = Hbitseek(some_id, 0, 0);
    H4V_CHECK(s == FAIL, "Hbitseek rejects an unknown id");
    int32 e = Hendbitaccess(some_id, 0);
    H4V_CHECK(e == FAIL, "Hendbitaccess rejects an unknown id");
    H4V_CANARY("bit_unknown_id end");
}


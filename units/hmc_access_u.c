/* Verification unit: hdf/src/hchunks.c -- HMCIstaccess (C14 invariant of the access bits, C13 protocol of Hstartaccess).
 * Environment and stubs: stubs/stacc_common.h.
 * BOUNDED: only the paths that do not read the chunk table -- refusal, failure of HTPinquire, and the element whose
 * special info is already held by another access record (HIgetspinfo finds it).  The access bits are assigned before
 * these paths fork (hchunks.c:870-872) and nowhere else in the function. */
#include "h4v.h"
#include "h4v_err.h"
#include "stacc_common.h"
/* names used by loops/hchunks.loops (loop contracts are injected into the shared scratch copy of hchunks.c; they are
   not applied in this unit) */
int32 g_k;
#define C2A_VAL(ci, cp, d) 0
#define POS_OK(d, sb, sp) 1
#include "hchunks.c"

static int32 HMCIstaccess(accrec_t *access_rec, int16 acc_mode)
    __CPROVER_requires(ST_ENV)
    __CPROVER_requires(g_shared != NULL && ((chunkinfo_t *)g_shared)->attached >= 1 && ((chunkinfo_t *)g_shared)->attached < INT_MAX)
    __CPROVER_assigns(__CPROVER_object_whole(g_arec), g_frec->attach, g_reg_ptr, g_reg_grp, g_registered, g_reg_n, g_relrec_n, g_inner_n, g_inner_w_n,
                      ((chunkinfo_t *)g_shared)->attached)
    /* C14: the invariant Hwrite relies on -- a write bit only on a file opened for writing */
    __CPROVER_ensures(__CPROVER_return_value != FAIL ==> (!(g_arec->access & DFACC_WRITE) || (g_frec->access & DFACC_WRITE) != 0))
    __CPROVER_ensures((__CPROVER_return_value != FAIL && acc_mode == DFACC_READ) ==> (g_arec->access & DFACC_WRITE) == 0)
    /* write access to a file opened read-only (or through a bad file id) is refused before the record is touched */
    __CPROVER_ensures((g_frec_bad || (acc_mode == DFACC_WRITE && (g_frec->access & DFACC_WRITE) == 0)) ==>
                      (__CPROVER_return_value == FAIL && g_arec->access == g_access0 && g_reg_n == 0 && g_inner_n == 0 &&
                       g_arec->special == __CPROVER_old(g_arec->special) && g_arec->posn == __CPROVER_old(g_arec->posn)))
    /* C13: success = exactly one new id for this record, one more attached element, the shared special info */
    __CPROVER_ensures(__CPROVER_return_value != FAIL ==>
                      (__CPROVER_return_value == g_newaid && g_registered && g_reg_n == 1 && g_reg_ptr == (void *)g_arec &&
                       g_reg_grp == (int)AIDGROUP && g_arec->access == (uint32)(acc_mode | DFACC_READ) && g_arec->posn == 0 &&
                       g_arec->special == SPECIAL_CHUNKED && g_arec->special_info == g_shared && g_arec->file_id == g_fid &&
                       g_frec->attach == __CPROVER_old(g_frec->attach) + 1 &&
                       ((chunkinfo_t *)g_shared)->attached == __CPROVER_old(((chunkinfo_t *)g_shared)->attached) + 1))
    /* failure: no id, attach unchanged; the record stays with the caller (Hstartaccess releases it, hfile.c:965) */
    __CPROVER_ensures(__CPROVER_return_value == FAIL ==>
                      (!g_registered && g_reg_n == 0 && g_frec->attach == __CPROVER_old(g_frec->attach) && g_relrec_n == 0 &&
                       ((chunkinfo_t *)g_shared)->attached == __CPROVER_old(((chunkinfo_t *)g_shared)->attached)))
    __CPROVER_ensures(g_inner_w_n == 0);

#ifdef H4V_NATIVE
#include "h4v_native_wrap.h"
#endif

void
h_HMCIstaccess(void)
{
    stacc_mk_env();
    chunkinfo_t *x = calloc(1, sizeof(chunkinfo_t));
    H4V_ASSUME(x != NULL);
    H4V_ND(int, x_attached);
    x->attached = x_attached;
    x->aid      = FAIL;
    g_shared    = x;
    H4V_ND(int16, acc_mode);
    int32 r = HMCIstaccess(g_arec, acc_mode);
    H4V_COVER(r != FAIL && acc_mode == DFACC_READ && !ST_WR(g_frec), "HMCIstaccess read access on a read-only file");
    H4V_COVER(r != FAIL && acc_mode == DFACC_WRITE, "HMCIstaccess write access on a writable file");
    H4V_COVER(r == FAIL && acc_mode == DFACC_WRITE && !ST_WR(g_frec), "HMCIstaccess write access on a read-only file refused");
    H4V_COVER(r == FAIL && acc_mode == DFACC_READ && !g_frec_bad, "HMCIstaccess failed late");
    H4V_CANARY("HMCIstaccess end");
}

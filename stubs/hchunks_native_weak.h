/* Native replay only: hchunks.c is linked alone, so every function it calls outside the file is
   declared weak (an unresolved weak symbol links as address 0).  The harnesses of hchunks_u.c
   reach none of them: the chunk index helpers are leaf functions. */
#ifndef H4V_HCHUNKS_NATIVE_WEAK_H
#define H4V_HCHUNKS_NATIVE_WEAK_H
#ifdef H4V_NATIVE
#pragma weak HAatom_object
#pragma weak HAregister_atom
#pragma weak HCPdecode_header
#pragma weak HCPencode_header
#pragma weak HCPquery_encode_header
#pragma weak HCcreate
#pragma weak HDmemfill
#pragma weak HEclear
#pragma weak HIget_access_rec
#pragma weak HIgetspinfo
#pragma weak HIrelease_accrec_node
#pragma weak HLgetdatainfo
#pragma weak HP_read
#pragma weak HPseek
#pragma weak HTPendaccess
#pragma weak HTPinquire
#pragma weak HTPis_special
#pragma weak HTPselect
#pragma weak Hendaccess
#pragma weak Hfind
#pragma weak Hlength
#pragma weak Hoffset
#pragma weak Hread
#pragma weak Hseek
#pragma weak Hstartaccess
#pragma weak Hstartread
#pragma weak Hstartwrite
#pragma weak Htagnewref
#pragma weak Hwrite
#pragma weak VSQueryref
#pragma weak VSQuerytag
#pragma weak VSappendable
#pragma weak VSattach
#pragma weak VSdetach
#pragma weak VSfdefine
#pragma weak VSgetclass
#pragma weak VSinquire
#pragma weak VSread
#pragma weak VSsetclass
#pragma weak VSsetfields
#pragma weak VSsetname
#pragma weak VSwrite
#pragma weak Vfinish
#pragma weak Vinitialize
#pragma weak mcache_close
#pragma weak mcache_filter
#pragma weak mcache_get
#pragma weak mcache_open
#pragma weak mcache_put
#pragma weak mcache_set_maxcache
#pragma weak mcache_sync
#pragma weak tbbtdfind
#pragma weak tbbtdfree
#pragma weak tbbtdins
#pragma weak tbbtdmake
#endif
#endif

"""C19 (extension): hdp value formatting, hdfimport per-input state, hdiff float comparison, hdiff driver glue."""
from .core import ob

# ----------------------------------------------------------------------------- hdp_dump.c formatters
HF = dict(unit="hdp_fmt_u.c", file="mfhdf/hdp/hdp_dump.c", mode="proved", cex_unwind=9,
          trusted=["fprintf/fwrite/putc: logging bodies (units/hdp_fmt_u.c): the format's conversion and the promoted argument are recorded; "
                   "the text produced by the C library for a given conversion and argument is not modelled",
                   "isprint: C locale (0x20..0x7e)"])
for fn in ("fmtint8", "fmtuint8", "fmtuchar8", "fmtbyte", "fmtint16", "fmtuint16", "fmtshort", "fmtint32", "fmtuint32", "fmtint",
           "fmtchar", "fmtfloat32", "fmtfloat64"):
    ob(f"hdp_{fn}", ["C19"], entry=f"h_{fn}", enforce=fn, **HF)
ob("hdp_select_func", ["C19"], entry="h_select_func", enforce="select_func", **HF)

# ----------------------------------------------------------------------------- hdiff_array.c float branches
# same recipe as c19_hdiff.py (type a harness constant, --slice-formula, print_pos replaced, rank <= 2); tot_cnt <= 2
FD = dict(unit="hdiff_float_u.c", file="mfhdf/hdiff/hdiff_array.c", mode="bounded", replace=["print_pos"],
          flags=["--slice-formula"], objbits=12, unwind=4, cex_unwind=4, tier="thorough", timeout=600,
          trusted=["printf: cbmc built-in (no effect)",
                   "getenv(\"DEBUG\"): NULL or a string; fopen succeeds; fprintf/fclose: no effect on program state"])
for bits in (32, 64):
    for n in (1, 2):
        kw = dict(FD, bound=f"tot_cnt <= {n}, rank <= 2, type DFNT_FLOAT{bits}, finite elements, default options (no tolerance), no fill value",
                  defines=[f"H4V_FBITS={bits}", f"H4V_MAXCNT={n}u"])
        ob(f"fdiff_F{bits}_n{n}", ["C19"], entry="h_fdiff", enforce="array_diff", **kw)
        ob(f"fdiff_same_F{bits}_n{n}", ["C19"], entry="h_fdiff_same", enforce="array_diff", **kw)
        ob(f"fdiff_ulp_F{bits}_n{n}", ["C19"], entry="h_fdiff_ulp", enforce=None, **kw)

# ----------------------------------------------------------------------------- hdfimport.c per-input format state
HI = dict(unit="hdfimport_u.c", file="mfhdf/hdfimport/hdfimport.c", cex_unwind=6, unwind=6, objbits=10,
          trusted=["ghost disk (units/hdfimport_u.c): fopen/fread/fscanf/fclose bodies deliver the header tag of the input's format, its "
                   "three dimension fields, then arbitrary values; fprintf(stderr) has no effect",
                   "Hishdf/Hopen/SDstart/SDselect/SDgetinfo/SDcreate/...: logging bodies, may fail nondeterministically"])
# loop-free functions; `unwind` only bounds the constant loops of the harness environment (2 files) and of memcmp(.., 4) -> proved
for fn in ("gtype", "gint", "gint32", "gint16", "gint8", "gfloat", "gfloat64", "gdimen", "gmaxmin"):
    ob(f"hdfimport_{fn}", ["C19"], entry=f"h_{fn}", enforce=fn, mode="proved", **HI)
ob("hdfimport_process_flags", ["C19"], entry="h_process", enforce=None, mode="bounded",
   bound="2 input files of arbitrary formats, dimension fields 2..3, SDS output only (no raster/palette); gdimen/gmaxmin/gscale/gdata "
         "replaced by contracts whose requires is the per-input flag clause (gscale/gdata frames trusted)",
   replace=["gdimen", "gmaxmin", "gscale", "gdata"], **HI)

/* Verification unit: hdf/src/hfile.c (C01, C13, C14, C16, C17, C20) -- the whole real file. */
#include "h4v.h"
#include "h4v_err.h"
#include "h4v_stdio.h"
#include "hfile.c"

H4V_DECL_ND(int32);
H4V_DECL_ND(uint32);
H4V_DECL_ND(uint16);

/* ------------------------------------------------------------------ ghost environment */
accrec_t  *g_arec;        /* the access record behind g_aid (NULL: id not valid) */
int32      g_aid;
filerec_t *g_frec;        /* the file record behind g_fid */
int32      g_fid;
int32      g_dd_off;      /* the DD the access record is attached to */
int32      g_dd_len;
int        g_htp_may_fail;
int        g_htp_failed;
int        g_upd_n;       /* number of HTPupdate calls */
int32      g_cap;         /* capacity in bytes of the caller's data buffer */
int        g_hlconvert_n; /* HLconvert calls */
int        g_special_n;   /* calls through the special function table */
atom_t     g_ddB;         /* a second DD id and the tag/ref of the two DDs */
uint16     g_tagA, g_refA, g_tagB, g_refB;
static char g_dummy_stream[8];

/* trusted stubs for callees outside hfile.c */
void *
HAatom_object(atom_t atm)
{
    if (atm == g_aid)
        return g_arec;
    if (atm == g_fid)
        return g_frec;
    return NULL;
}

intn
HTPinquire(atom_t ddid, uint16 *ptag, uint16 *pref, int32 *poff, int32 *plen)
{
    if (g_htp_may_fail) {
        H4V_ND(int, htp_fault);
        if (htp_fault) {
            g_htp_failed = 1;
            return FAIL;
        }
    }
    if (poff != NULL)
        *poff = g_dd_off;
    if (plen != NULL)
        *plen = g_dd_len;
    /* tag/ref of the DD: a second DD (g_ddB) with its own tag/ref for functions that compare two records */
    if (ptag != NULL)
        *ptag = (ddid == g_ddB) ? g_tagB : g_tagA;
    if (pref != NULL)
        *pref = (ddid == g_ddB) ? g_refB : g_refA;
    return SUCCEED;
}

intn
HTPupdate(atom_t ddid, int32 new_off, int32 new_len)
{
    if (g_htp_may_fail) {
        H4V_ND(int, htp_fault);
        if (htp_fault) {
            g_htp_failed = 1;
            return FAIL;
        }
    }
    if (new_off != -2)
        g_dd_off = new_off;
    if (new_len != -2)
        g_dd_len = new_len;
    g_upd_n++;
    return SUCCEED;
}

/* HLconvert (hblocks.c): promotes the element to linked blocks or fails.  Trusted stub: on
   success the record becomes special and further I/O goes through the special table. */
static int32 h4v_sp_rw(accrec_t *r, int32 length, void *data) { g_special_n++; H4V_ND(int32, sp_ret); return sp_ret; }
static int32 h4v_sp_w(accrec_t *r, int32 length, const void *data) { g_special_n++; H4V_ND(int32, sp_ret); return sp_ret; }
static int32 h4v_sp_seek(accrec_t *r, int32 off, int origin) { g_special_n++; H4V_ND(int32, sp_ret); return sp_ret; }
static funclist_t h4v_sp_funcs = {NULL, NULL, h4v_sp_seek, NULL, h4v_sp_rw, h4v_sp_w, NULL, NULL, NULL};
intn
HLconvert(int32 aid, int32 block_length, int32 number_blocks)
{
    g_hlconvert_n++;
    H4V_ND(int, hl_ok);
    if (!hl_ok || g_arec == NULL)
        return FAIL;
    g_arec->special      = SPECIAL_LINKED;
    g_arec->special_func = &h4v_sp_funcs;
    return SUCCEED;
}


/* ---- ownership registry of access records / file ids (C13) ---- */
void *g_reg_ptr;     /* last object handed to HAregister_atom(AIDGROUP) */
int   g_registered;  /* ... and still registered */
int   g_reg_n, g_rem_n;
int   g_reg_may_fail;
atom_t
HAregister_atom(group_t grp, void *object)
{
    if (g_reg_may_fail) {
        H4V_ND(int, reg_fault);
        if (reg_fault)
            return FAIL;
    }
    g_reg_n++;
    g_reg_ptr    = object;
    g_registered = 1;
    return g_aid;
}
void *
HAremove_atom(atom_t atm)
{
    if (atm == g_aid && g_arec != NULL && g_registered && g_reg_ptr == (void *)g_arec) {
        g_registered = 0;
        g_rem_n++;
        return g_arec;
    }
    if (atm == g_fid && g_frec != NULL) {
        g_rem_n++;
        return g_frec;
    }
    return NULL;
}
/* ---- DD layer used by Hstartaccess/Hendaccess/Hclose: trusted stubs ---- */
int g_htpcreate_n, g_htpend_n, g_htpsync_n;
intn
Hfind(int32 file_id, uint16 search_tag, uint16 search_ref, uint16 *find_tag, uint16 *find_ref, int32 *find_offset,
      int32 *find_length, intn direction)
{
    H4V_ND(int, hfind_ok);
    if (!hfind_ok)
        return FAIL;
    *find_tag    = search_tag;
    *find_ref    = search_ref;
    *find_offset = g_dd_off;
    *find_length = g_dd_len;
    return SUCCEED;
}
atom_t
HTPselect(filerec_t *file_rec, uint16 tag, uint16 ref)
{
    H4V_ND(int, select_ok);
    H4V_ND(int32, select_ddid);
    if (!select_ok)
        return FAIL;
    H4V_ASSUME(select_ddid != FAIL);
    return select_ddid;
}
atom_t
HTPcreate(filerec_t *file_rec, uint16 tag, uint16 ref)
{
    H4V_CHECK((file_rec->access & DFACC_WRITE) != 0, "C14: DD created in a file opened read-only");
    g_htpcreate_n++;
    H4V_ND(int, create_ok);
    H4V_ND(int32, create_ddid);
    if (!create_ok)
        return FAIL;
    H4V_ASSUME(create_ddid != FAIL);
    return create_ddid;
}
intn
HTPis_special(atom_t ddid)
{
    return FALSE; /* assumption: ordinary element (special start functions are in hblocks.c etc.) */
}
intn
HTPendaccess(atom_t ddid)
{
    g_htpend_n++;
    if (g_htp_may_fail) {
        H4V_ND(int, htp_fault);
        if (htp_fault) {
            g_htp_failed = 1;
            return FAIL;
        }
    }
    return SUCCEED;
}
intn
HTPsync(filerec_t *file_rec)
{
    g_htpsync_n++;
    if (g_htp_may_fail) {
        H4V_ND(int, htp_fault);
        if (htp_fault) {
            g_htp_failed = 1;
            return FAIL;
        }
    }
    return SUCCEED;
}
intn
HTPend(filerec_t *file_rec)
{
    g_htpend_n++;
    if (g_htp_may_fail) {
        H4V_ND(int, htp_fault);
        if (htp_fault) {
            g_htp_failed = 1;
            return FAIL;
        }
    }
    return SUCCEED;
}

/* ------------------------------------------------------------------ representation predicates */
#define FREC_WF(f)                                                                                           \
    ((f)->refcount >= 1 && (f)->f_end_off >= 0 && (f)->f_end_off < INT32_MAX && (f)->f_cur_off >= 0 && ((f)->cache == 0 || (f)->cache == 1) && \
     (int)(f)->last_op >= 0 && (int)(f)->last_op <= 3)
/* seek-cache coherence between the file record and the OS stream (ghost disk) */
#define COH(f)                                                                                               \
    (g_io_failed || ((f)->last_op == H4_OP_UNKNOWN || (g_pos_valid && g_fpos == (f)->f_cur_off)) &&           \
                        (g_last_stdio != 1 || (f)->last_op == H4_OP_READ || (f)->last_op == H4_OP_UNKNOWN) && \
                        (g_last_stdio != 2 || (f)->last_op == H4_OP_WRITE || (f)->last_op == H4_OP_UNKNOWN))
#define WRITABLE(f) (((f)->access & DFACC_WRITE) != 0)
#define ENV_WF                                                                                               \
    (g_frec != NULL && FREC_WF(g_frec) && COH(g_frec) && g_file_writable == WRITABLE(g_frec) &&               \
     (g_arec != NULL && g_arec->file_id == g_fid && g_arec->posn >= 0 &&                                       \
     (!(g_arec->access & DFACC_WRITE) || WRITABLE(g_frec))) &&                          \
     g_aid != g_fid && g_dd_off >= 0 && g_dd_len >= 0 && (int64_t)g_dd_off + g_dd_len <= g_frec->f_end_off)

/* ------------------------------------------------------------------ contracts */

/* C16/C01: the three stdio wrappers */
int HPseek(filerec_t *file_rec, int32 offset)
    __CPROVER_requires(file_rec == g_frec && FREC_WF(file_rec) && COH(file_rec) && offset >= 0)
    __CPROVER_assigns(file_rec->f_cur_off, file_rec->last_op, g_fpos, g_pos_valid, g_io_failed, g_seek_n, g_last_stdio)
    /* a fault inside the call is reported */
    __CPROVER_ensures((g_io_failed && !__CPROVER_old(g_io_failed)) ==> __CPROVER_return_value == FAIL)
    __CPROVER_ensures(__CPROVER_return_value == SUCCEED || __CPROVER_return_value == FAIL)
    __CPROVER_ensures(__CPROVER_return_value == SUCCEED ==> (file_rec->f_cur_off == offset && COH(file_rec)))
    /* on success the OS stream really is at offset, unless an earlier fault made it unknown */
    __CPROVER_ensures((__CPROVER_return_value == SUCCEED && !g_io_failed) ==>
                      (file_rec->last_op != H4_OP_UNKNOWN && g_fpos == offset))
    __CPROVER_ensures(__CPROVER_return_value == FAIL ==> file_rec->f_cur_off == __CPROVER_old(file_rec->f_cur_off));

int HP_read(filerec_t *file_rec, void *buf, int32 bytes)
    __CPROVER_requires(file_rec == g_frec && FREC_WF(file_rec) && COH(file_rec))
    __CPROVER_requires(bytes >= 0 && bytes <= g_cap)
    __CPROVER_requires((int64_t)file_rec->f_cur_off + bytes <= file_rec->f_end_off) /* callers read stored data only */
    __CPROVER_assigns(file_rec->f_cur_off, file_rec->last_op, g_fpos, g_pos_valid, g_io_failed, g_seek_n, g_last_stdio,
                      g_rd_n, g_rd_off, g_rd_len, __CPROVER_object_whole(buf))
    __CPROVER_ensures((g_io_failed && !__CPROVER_old(g_io_failed)) ==> __CPROVER_return_value == FAIL)
    __CPROVER_ensures(__CPROVER_return_value == SUCCEED || __CPROVER_return_value == FAIL)
    __CPROVER_ensures(__CPROVER_return_value == SUCCEED ==>
                      (file_rec->f_cur_off == __CPROVER_old(file_rec->f_cur_off) + bytes && COH(file_rec) &&
                       g_rd_n == __CPROVER_old(g_rd_n) + 1 && g_rd_len == bytes))
    __CPROVER_ensures((__CPROVER_return_value == SUCCEED && !g_io_failed) ==> g_rd_off == __CPROVER_old(file_rec->f_cur_off))
    __CPROVER_ensures(__CPROVER_return_value == FAIL ==> file_rec->f_cur_off == __CPROVER_old(file_rec->f_cur_off));

int HP_write(filerec_t *file_rec, const void *buf, int32 bytes)
    __CPROVER_requires(file_rec == g_frec && FREC_WF(file_rec) && COH(file_rec))
    __CPROVER_requires(bytes >= 0 && bytes <= g_cap)
    __CPROVER_requires((int64_t)file_rec->f_cur_off + bytes <= INT32_MAX) /* C20: callers keep offsets representable */
    __CPROVER_requires(g_file_writable == WRITABLE(file_rec) && WRITABLE(file_rec)) /* C14: callers hold write access */
    __CPROVER_assigns(file_rec->f_cur_off, file_rec->last_op, g_fpos, g_pos_valid, g_io_failed, g_seek_n, g_last_stdio,
                      g_wr_n, g_wr_off, g_wr_len, g_min_wr_off, g_off_written, g_off_byte)
    __CPROVER_ensures((g_io_failed && !__CPROVER_old(g_io_failed)) ==> __CPROVER_return_value == FAIL)
    __CPROVER_ensures(__CPROVER_return_value == SUCCEED || __CPROVER_return_value == FAIL)
    __CPROVER_ensures(__CPROVER_return_value == SUCCEED ==>
                      (file_rec->f_cur_off == __CPROVER_old(file_rec->f_cur_off) + bytes && COH(file_rec) &&
                       g_wr_n == __CPROVER_old(g_wr_n) + 1 && g_wr_len == bytes))
    __CPROVER_ensures((__CPROVER_return_value == SUCCEED && !g_io_failed) ==> g_wr_off == __CPROVER_old(file_rec->f_cur_off))
    __CPROVER_ensures(__CPROVER_return_value == FAIL ==> file_rec->f_cur_off == __CPROVER_old(file_rec->f_cur_off));

/* C01: Hread on an ordinary (non-special) element = read of a byte array */
int32 Hread(int32 access_id, int32 length, void *data)
    __CPROVER_requires(ENV_WF)
    __CPROVER_requires(access_id != g_fid) /* A-KIND: ids of the right kind (wrong-kind ids: see C13) */
    __CPROVER_requires(g_arec->special == 0 && g_arec->posn <= g_dd_len)
    /* the caller's buffer holds `length` bytes, or the rest of the element when length == 0 */
    __CPROVER_requires(g_cap >= 0 && length <= g_cap && (length != 0 || g_dd_len - g_arec->posn <= g_cap))
    __CPROVER_assigns(g_arec->posn, g_frec->f_cur_off, g_frec->last_op, g_fpos, g_pos_valid, g_io_failed, g_seek_n,
                      g_last_stdio, g_rd_n, g_rd_off, g_rd_len, g_htp_failed; data != NULL: __CPROVER_object_whole(data))
    /* rejected requests change nothing */
    __CPROVER_ensures((access_id != g_aid || data == NULL || length < 0 || g_arec->new_elem == TRUE) ==>
                      (__CPROVER_return_value == FAIL && g_rd_n == __CPROVER_old(g_rd_n)))
    __CPROVER_ensures(__CPROVER_return_value == FAIL ==> g_arec->posn == __CPROVER_old(g_arec->posn))
    /* transfer count: min(length, remaining), "0" meaning the rest */
    __CPROVER_ensures(__CPROVER_return_value != FAIL ==>
                      __CPROVER_return_value == ((length == 0 || length > g_dd_len - __CPROVER_old(g_arec->posn))
                                                     ? g_dd_len - __CPROVER_old(g_arec->posn) : length))
    __CPROVER_ensures(__CPROVER_return_value != FAIL ==> g_arec->posn == __CPROVER_old(g_arec->posn) + __CPROVER_return_value)
    /* exactly one physical read, of exactly those bytes of the element */
    __CPROVER_ensures(__CPROVER_return_value != FAIL ==>
                      (g_rd_n == __CPROVER_old(g_rd_n) + 1 && g_rd_len == __CPROVER_return_value &&
                       (g_io_failed || g_rd_off == (long)g_dd_off + __CPROVER_old(g_arec->posn))))
    /* C16: an I/O fault during the call is reported */
    __CPROVER_ensures(((g_io_failed && !__CPROVER_old(g_io_failed)) || g_htp_failed) ==> __CPROVER_return_value == FAIL)
    /* without a fault a valid request succeeds */
    __CPROVER_ensures((access_id == g_aid && data != NULL && length >= 0 && g_arec->new_elem != TRUE &&
                       !g_io_failed && !g_htp_failed) ==> __CPROVER_return_value != FAIL);


/* C01: Hseek on an ordinary element.  TGT = base(origin) + offset as a mathematical integer. */
#define SEEK_BASE(origin, posn) ((origin) == DF_START ? (int64_t)0 : (origin) == DF_CURRENT ? (int64_t)(posn) : (int64_t)g_dd_len)
#define SEEK_V (access_id == g_aid && (origin == DF_START || origin == DF_CURRENT || origin == DF_END))
#define SEEK_T (SEEK_BASE(origin, __CPROVER_old(g_arec->posn)) + offset)
int Hseek(int32 access_id, int32 offset, int origin)
    __CPROVER_requires(ENV_WF && access_id != g_fid)
    __CPROVER_requires(g_arec->special == 0 || g_arec->special_func == &h4v_sp_funcs)
    __CPROVER_assigns(g_arec->posn, g_arec->appendable, g_arec->special, g_arec->special_func, g_hlconvert_n, g_special_n, g_htp_failed)
    __CPROVER_ensures(!SEEK_V ==> __CPROVER_return_value == FAIL)
    /* a special element is handled by its own seek function and nothing else */
    __CPROVER_ensures((SEEK_V && __CPROVER_old(g_arec->special)) ==>
                      (g_special_n == __CPROVER_old(g_special_n) + 1 && g_hlconvert_n == __CPROVER_old(g_hlconvert_n) &&
                       g_arec->posn == __CPROVER_old(g_arec->posn) && g_arec->appendable == __CPROVER_old(g_arec->appendable) &&
                       g_htp_failed == __CPROVER_old(g_htp_failed)))
    /* ordinary element: position is exactly the requested one on success, unchanged on failure */
    __CPROVER_ensures(!__CPROVER_old(g_arec->special) ==> (__CPROVER_return_value == SUCCEED || __CPROVER_return_value == FAIL))
    __CPROVER_ensures((SEEK_V && !__CPROVER_old(g_arec->special) && __CPROVER_return_value == SUCCEED) ==> (int64_t)g_arec->posn == SEEK_T)
    __CPROVER_ensures((!__CPROVER_old(g_arec->special) && __CPROVER_return_value == FAIL) ==> g_arec->posn == __CPROVER_old(g_arec->posn))
    /* a target outside the element is refused (appendable elements may seek past the end) */
    __CPROVER_ensures((SEEK_V && !__CPROVER_old(g_arec->special) && !g_htp_failed && SEEK_T != __CPROVER_old(g_arec->posn) &&
                       (SEEK_T < 0 || SEEK_T > INT32_MAX || (!__CPROVER_old(g_arec->appendable) && SEEK_T > g_dd_len))) ==>
                      __CPROVER_return_value == FAIL)
    /* a target inside the element is always accepted, without promotion */
    __CPROVER_ensures((SEEK_V && !__CPROVER_old(g_arec->special) && !g_htp_failed && SEEK_T >= 0 && SEEK_T < g_dd_len) ==>
                      (__CPROVER_return_value == SUCCEED && g_hlconvert_n == __CPROVER_old(g_hlconvert_n)))
    /* promotion to linked blocks is attempted only for an appendable element that is not last in the file */
    __CPROVER_ensures(g_hlconvert_n != __CPROVER_old(g_hlconvert_n) ==>
                      (__CPROVER_old(g_arec->appendable) && (int64_t)g_dd_off + g_dd_len != g_frec->f_end_off && SEEK_T >= g_dd_len));

int32 Htell(int32 access_id)
    __CPROVER_requires(ENV_WF && access_id != g_fid)
    __CPROVER_assigns()
    __CPROVER_ensures(__CPROVER_return_value == (access_id == g_aid ? g_arec->posn : FAIL));

/* C01/C14/C17/C20: Hwrite */
#define WR_V (access_id == g_aid && (g_arec->access & DFACC_WRITE) && data != NULL)
#define WR_ORD (!__CPROVER_old(g_arec->special))
#define WR_END ((int64_t)__CPROVER_old(g_arec->posn) + length)
int32 Hwrite(int32 access_id, int32 length, const void *data)
    __CPROVER_requires(ENV_WF && access_id != g_fid)
    __CPROVER_requires(g_arec->special == 0 || g_arec->special_func == &h4v_sp_funcs)
    __CPROVER_requires(g_arec->new_elem != TRUE) /* first write of a new element: see Hsetlength */
    __CPROVER_requires(g_cap >= 0 && length <= g_cap)
    __CPROVER_assigns(g_arec->posn, g_arec->appendable, g_arec->special, g_arec->special_func, g_hlconvert_n, g_special_n,
                      g_htp_failed, g_dd_len, g_upd_n, g_frec->f_cur_off, g_frec->last_op, g_frec->f_end_off, g_fpos, g_pos_valid,
                      g_io_failed, g_seek_n, g_last_stdio, g_wr_n, g_wr_off, g_wr_len, g_min_wr_off, g_off_written, g_off_byte)
    /* refused requests write nothing and move nothing */
    __CPROVER_ensures(!WR_V ==> (__CPROVER_return_value == FAIL && g_wr_n == __CPROVER_old(g_wr_n) &&
                                 g_special_n == __CPROVER_old(g_special_n) && g_arec->posn == __CPROVER_old(g_arec->posn) &&
                                 g_dd_len == __CPROVER_old(g_dd_len)))
    /* a special element is written by its own write function and nothing else */
    __CPROVER_ensures((WR_V && !WR_ORD) ==> (g_special_n == __CPROVER_old(g_special_n) + 1 && g_wr_n == __CPROVER_old(g_wr_n) &&
                                            g_hlconvert_n == __CPROVER_old(g_hlconvert_n) && g_arec->posn == __CPROVER_old(g_arec->posn) &&
                                            g_dd_len == __CPROVER_old(g_dd_len) && g_frec->f_end_off == __CPROVER_old(g_frec->f_end_off) &&
                                            g_htp_failed == __CPROVER_old(g_htp_failed) && g_io_failed == __CPROVER_old(g_io_failed)))
    __CPROVER_ensures((WR_ORD && length <= 0) ==> (__CPROVER_return_value == FAIL && g_wr_n == __CPROVER_old(g_wr_n)))
    /* C20: a write that would end beyond 2^31-1 bytes is refused, nothing written */
    __CPROVER_ensures((WR_ORD && WR_END > INT32_MAX) ==> (__CPROVER_return_value == FAIL && g_wr_n == __CPROVER_old(g_wr_n) &&
                                                         g_dd_len == __CPROVER_old(g_dd_len)))
    /* a non-appendable element never grows; writing past its end fails */
    __CPROVER_ensures((WR_ORD && !__CPROVER_old(g_arec->appendable) && WR_END > __CPROVER_old(g_dd_len)) ==>
                      (__CPROVER_return_value == FAIL && g_wr_n == __CPROVER_old(g_wr_n)))
    __CPROVER_ensures((WR_ORD && __CPROVER_return_value == FAIL) ==> g_arec->posn == __CPROVER_old(g_arec->posn))
    /* success without promotion: all bytes, at the right place, bookkeeping exact */
    __CPROVER_ensures((WR_ORD && __CPROVER_return_value != FAIL && g_hlconvert_n == __CPROVER_old(g_hlconvert_n)) ==>
                      (__CPROVER_return_value == length && g_wr_n == __CPROVER_old(g_wr_n) + 1 && g_wr_len == length &&
                       (g_io_failed || g_wr_off == (long)g_dd_off + __CPROVER_old(g_arec->posn)) &&
                       g_arec->posn == __CPROVER_old(g_arec->posn) + length &&
                       g_dd_len == (WR_END > __CPROVER_old(g_dd_len) ? (int32)WR_END : __CPROVER_old(g_dd_len)) &&
                       (int64_t)g_dd_off + g_dd_len <= g_frec->f_end_off))
    /* in-place growth only for the last element of the file (otherwise promotion is attempted), never past 2^31-1 */
    __CPROVER_ensures((WR_ORD && g_dd_len != __CPROVER_old(g_dd_len)) ==>
                      ((int64_t)g_dd_off + __CPROVER_old(g_dd_len) == __CPROVER_old(g_frec->f_end_off) &&
                       g_hlconvert_n == __CPROVER_old(g_hlconvert_n) && (int64_t)g_dd_off + WR_END <= INT32_MAX))
    __CPROVER_ensures(g_hlconvert_n != __CPROVER_old(g_hlconvert_n) ==>
                      (WR_ORD && __CPROVER_old(g_arec->appendable) && WR_END > __CPROVER_old(g_dd_len) &&
                       (int64_t)g_dd_off + __CPROVER_old(g_dd_len) != __CPROVER_old(g_frec->f_end_off)))
    /* C16 */
    __CPROVER_ensures((WR_ORD && ((g_io_failed && !__CPROVER_old(g_io_failed)) || g_htp_failed)) ==> __CPROVER_return_value == FAIL);

int32 Htrunc(int32 aid, int32 trunc_len)
    __CPROVER_requires(ENV_WF && aid != g_fid)
    __CPROVER_assigns(g_arec->posn, g_dd_len, g_upd_n, g_htp_failed)
    __CPROVER_ensures((aid != g_aid || !(g_arec->access & DFACC_WRITE)) ==> __CPROVER_return_value == FAIL)
    __CPROVER_ensures(__CPROVER_return_value == FAIL ==>
                      (g_dd_len == __CPROVER_old(g_dd_len) && g_arec->posn == __CPROVER_old(g_arec->posn)))
    __CPROVER_ensures(__CPROVER_return_value != FAIL ==>
                      (__CPROVER_return_value == trunc_len && trunc_len >= 0 && trunc_len < __CPROVER_old(g_dd_len) &&
                       g_dd_len == trunc_len &&
                       g_arec->posn == (__CPROVER_old(g_arec->posn) > trunc_len ? trunc_len : __CPROVER_old(g_arec->posn))))
    __CPROVER_ensures((aid == g_aid && (g_arec->access & DFACC_WRITE) && !g_htp_failed && trunc_len >= 0 &&
                       trunc_len < __CPROVER_old(g_dd_len)) ==> __CPROVER_return_value != FAIL)
    /* a negative or not-smaller length is refused */
    __CPROVER_ensures((trunc_len < 0 || trunc_len >= __CPROVER_old(g_dd_len)) ==> __CPROVER_return_value == FAIL);

/* C01/C02/C17/C20: space is handed out only at the end of the file, which only grows, never past 2^31-1 */
int32 HPgetdiskblock(filerec_t *file_rec, int32 block_size, int moveto)
    __CPROVER_requires(file_rec == g_frec && FREC_WF(file_rec) && COH(file_rec) && g_file_writable == WRITABLE(file_rec) &&
                       WRITABLE(file_rec))
    __CPROVER_requires(g_add_session == 0 || g_L <= file_rec->f_end_off)
    __CPROVER_assigns(file_rec->f_cur_off, file_rec->last_op, file_rec->f_end_off, file_rec->dirty, g_fpos, g_pos_valid,
                      g_io_failed, g_seek_n, g_last_stdio, g_wr_n, g_wr_off, g_wr_len, g_min_wr_off, g_off_written, g_off_byte)
    __CPROVER_ensures((file_rec == NULL || block_size < 0) ==> __CPROVER_return_value == FAIL)
    __CPROVER_ensures((file_rec != NULL && __CPROVER_return_value != FAIL) ==>
                      (__CPROVER_return_value == __CPROVER_old(file_rec->f_end_off) &&
                       (int64_t)file_rec->f_end_off == (int64_t)__CPROVER_old(file_rec->f_end_off) + block_size))
    /* C20: a block that would end beyond 2^31-1 is refused and the end of file stays */
    __CPROVER_ensures((file_rec != NULL && block_size >= 0 && (int64_t)__CPROVER_old(file_rec->f_end_off) + block_size > INT32_MAX) ==>
                      (__CPROVER_return_value == FAIL && file_rec->f_end_off == __CPROVER_old(file_rec->f_end_off)))
    __CPROVER_ensures(file_rec != NULL ==> FREC_WF(file_rec))
    __CPROVER_ensures((file_rec != NULL && __CPROVER_return_value == FAIL) ==> file_rec->f_end_off == __CPROVER_old(file_rec->f_end_off))
    /* C17: nothing is written below the old end of file; with caching nothing is written at all */
    __CPROVER_ensures(g_wr_n != __CPROVER_old(g_wr_n) ==>
                      (!__CPROVER_old(file_rec->cache) && (g_io_failed || g_wr_off >= __CPROVER_old(file_rec->f_end_off))))
    __CPROVER_ensures((file_rec != NULL && ((g_io_failed && !__CPROVER_old(g_io_failed)))) ==> __CPROVER_return_value == FAIL);

int Hsetlength(int32 aid, int32 length)
    __CPROVER_requires(ENV_WF && aid != g_fid && WRITABLE(g_frec))
    __CPROVER_assigns(g_arec->new_elem, g_dd_off, g_dd_len, g_upd_n, g_htp_failed, g_frec->f_cur_off, g_frec->last_op, g_frec->f_end_off,
                      g_frec->dirty, g_fpos, g_pos_valid, g_io_failed, g_seek_n, g_last_stdio, g_wr_n, g_wr_off, g_wr_len, g_min_wr_off,
                      g_off_written, g_off_byte)
    __CPROVER_ensures(__CPROVER_return_value == SUCCEED || __CPROVER_return_value == FAIL)
    __CPROVER_ensures((aid != g_aid || __CPROVER_old(g_arec->new_elem) != TRUE || length < 0) ==> __CPROVER_return_value == FAIL)
    __CPROVER_ensures(__CPROVER_return_value == SUCCEED ==>
                      (g_dd_off == __CPROVER_old(g_frec->f_end_off) && g_dd_len == length && g_arec->new_elem == FALSE &&
                       (int64_t)g_frec->f_end_off == (int64_t)g_dd_off + g_dd_len))
    __CPROVER_ensures(((g_io_failed && !__CPROVER_old(g_io_failed)) || g_htp_failed) ==> __CPROVER_return_value == FAIL);

int HIextend_file(filerec_t *file_rec)
    __CPROVER_requires(file_rec == g_frec && FREC_WF(file_rec) && COH(file_rec) && g_file_writable == WRITABLE(file_rec) && WRITABLE(file_rec))
    __CPROVER_requires(g_add_session == 0 || g_L <= file_rec->f_end_off)
    __CPROVER_assigns(file_rec->f_cur_off, file_rec->last_op, g_fpos, g_pos_valid, g_io_failed, g_seek_n, g_last_stdio, g_wr_n, g_wr_off,
                      g_wr_len, g_min_wr_off, g_off_written, g_off_byte)
    __CPROVER_ensures((g_io_failed && !__CPROVER_old(g_io_failed)) ==> __CPROVER_return_value == FAIL)
    __CPROVER_ensures(__CPROVER_return_value == SUCCEED ==>
                      (g_wr_n == __CPROVER_old(g_wr_n) + 1 && g_wr_len == 1 && (g_io_failed || g_wr_off == file_rec->f_end_off)));

/* C13: a record goes to the free list only if it is not (still) registered and not already there */
void HIrelease_accrec_node(accrec_t *acc)
    __CPROVER_requires(acc != NULL)
    __CPROVER_requires(acc != accrec_free_list)                     /* no double release */
    __CPROVER_requires(!(g_registered && (void *)acc == g_reg_ptr)) /* no release of a live handle's record */
    __CPROVER_assigns(acc->next, accrec_free_list)
    __CPROVER_ensures(accrec_free_list == acc && acc->next == __CPROVER_old(accrec_free_list));

/* C16: the stream is never left open-looking after fclose ran, and a failed close is reported */
int hi_close_stdio(FILE **f)
    __CPROVER_requires(f != NULL && *f != NULL && g_close_n == 0)
    __CPROVER_assigns(*f, g_close_n, g_closed_twice, g_stream, g_io_failed, g_pos_valid)
    __CPROVER_ensures(*f == NULL)
    __CPROVER_ensures(__CPROVER_return_value == ((g_io_failed && !__CPROVER_old(g_io_failed)) ? FAIL : SUCCEED));

/* C13/C14: Hstartaccess on an ordinary element */
int32 Hstartaccess(int32 file_id, uint16 tag, uint16 ref, uint32 flags)
    __CPROVER_requires(g_frec != NULL && FREC_WF(g_frec) && g_file_writable == WRITABLE(g_frec) && g_frec->version_set)
    __CPROVER_requires(g_aid != g_fid && g_aid != FAIL && !g_registered && g_reg_n == 0 && g_htpcreate_n == 0)
    __CPROVER_requires(accrec_free_list == NULL || accrec_free_list == g_arec)
    __CPROVER_requires(g_frec->attach >= 0 && g_frec->attach < INT_MAX)
    __CPROVER_assigns(g_frec->attach, g_frec->maxref, accrec_free_list, g_reg_n, g_reg_ptr, g_registered, g_htpcreate_n;
                      g_arec != NULL: __CPROVER_object_whole(g_arec))
    __CPROVER_ensures((file_id != g_fid || ((flags & DFACC_WRITE) && !WRITABLE(g_frec))) ==>
                      (__CPROVER_return_value == FAIL && g_htpcreate_n == 0 && g_reg_n == 0))
    __CPROVER_ensures(__CPROVER_return_value == FAIL ==> (g_frec->attach == __CPROVER_old(g_frec->attach) && !g_registered))
    __CPROVER_ensures(__CPROVER_return_value != FAIL ==>
                      (__CPROVER_return_value == g_aid && g_registered && g_frec->attach == __CPROVER_old(g_frec->attach) + 1 &&
                       ((accrec_t *)g_reg_ptr)->access == flags && ((accrec_t *)g_reg_ptr)->posn == 0 &&
                       ((accrec_t *)g_reg_ptr)->file_id == file_id && ((accrec_t *)g_reg_ptr)->special == 0 &&
                       /* the C14 invariant every later write relies on */
                       (!(flags & DFACC_WRITE) || WRITABLE(g_frec)) &&
                       /* a live record is not on the free list */
                       accrec_free_list != (accrec_t *)g_reg_ptr))
    /* read access never creates a DD */
    __CPROVER_ensures(!(flags & DFACC_WRITE) ==> g_htpcreate_n == 0);

/* C13: Hendaccess on an ordinary element */
int Hendaccess(int32 access_id)
    __CPROVER_requires(ENV_WF && access_id != g_fid && g_arec->special == 0)
    __CPROVER_requires(g_registered && g_reg_ptr == (void *)g_arec && g_rem_n == 0 && accrec_free_list != g_arec)
    __CPROVER_requires(g_frec->attach >= 1 && g_htpend_n == 0)
    __CPROVER_assigns(g_frec->attach, accrec_free_list, g_arec->next, g_registered, g_rem_n, g_htpend_n, g_htp_failed)
    __CPROVER_ensures(access_id != g_aid ==> (__CPROVER_return_value == FAIL && g_registered && g_frec->attach == __CPROVER_old(g_frec->attach) &&
                                              accrec_free_list == __CPROVER_old(accrec_free_list)))
    /* a valid id is always invalidated and its record released exactly once, even when the DD layer fails */
    __CPROVER_ensures(access_id == g_aid ==> (!g_registered && g_rem_n == 1 && accrec_free_list == g_arec &&
                                              g_arec->next == __CPROVER_old(accrec_free_list)))
    __CPROVER_ensures((access_id == g_aid && __CPROVER_return_value == SUCCEED) ==> g_frec->attach == __CPROVER_old(g_frec->attach) - 1)
    __CPROVER_ensures(g_htp_failed ==> __CPROVER_return_value == FAIL);

/* C13/C16: Hclose */
int Hclose(int32 file_id)
    __CPROVER_requires(g_frec != NULL && FREC_WF(g_frec) && COH(g_frec) && g_file_writable == WRITABLE(g_frec) && WRITABLE(g_frec))
    __CPROVER_requires(g_frec->version.modified == 0 && g_frec->path == NULL && g_frec->file == g_stream && g_stream != NULL)
    __CPROVER_requires(g_close_n == 0 && g_rem_n == 0 && g_aid != g_fid && g_frec->attach >= 0 && (g_frec->dirty & ~3) == 0)
    __CPROVER_requires(g_add_session == 0 && g_htpsync_n == 0 && g_htpend_n == 0)
    __CPROVER_assigns(__CPROVER_object_whole(g_frec), g_fpos, g_pos_valid, g_io_failed, g_seek_n, g_last_stdio, g_wr_n, g_wr_off, g_wr_len,
                      g_min_wr_off, g_off_written, g_off_byte, g_close_n, g_closed_twice, g_stream, g_rem_n, g_htpsync_n, g_htpend_n,
                      g_htp_failed)
    __CPROVER_frees(g_frec)
    __CPROVER_ensures(file_id != g_fid ==> (__CPROVER_return_value == FAIL && g_close_n == 0 && g_rem_n == 0))
    /* a file with attached access elements cannot be closed out from under them */
    __CPROVER_ensures((file_id == g_fid && __CPROVER_old(g_frec->refcount) == 1 && __CPROVER_old(g_frec->attach) > 0) ==>
                      (__CPROVER_return_value == FAIL && g_close_n == 0 && g_rem_n == 0 && g_wr_n == 0))
    __CPROVER_ensures((file_id == g_fid && __CPROVER_old(g_frec->refcount) == 1 && __CPROVER_old(g_frec->attach) > 0) ==> g_frec->refcount == 1)
    /* one of several opens: only the count drops */
    __CPROVER_ensures((file_id == g_fid && __CPROVER_old(g_frec->refcount) > 1) ==>
                      (__CPROVER_return_value == SUCCEED && g_close_n == 0 && g_rem_n == 1))
    __CPROVER_ensures((file_id == g_fid && __CPROVER_old(g_frec->refcount) > 1) ==> g_frec->refcount == __CPROVER_old(g_frec->refcount) - 1)
    /* C16: any failed flush or close makes Hclose fail */
    __CPROVER_ensures((g_io_failed || g_htp_failed) ==> __CPROVER_return_value == FAIL)
    __CPROVER_ensures(g_close_n <= 1);

/* C16/C17: the deferred flush.  Nothing happens unless caching is on and something is dirty; DD blocks first, then the
   end-of-file marker; any failure is reported and leaves the dirty flags set so that a later flush retries. */
static int HIsync(filerec_t *file_rec)
    __CPROVER_requires(file_rec == g_frec && FREC_WF(file_rec) && COH(file_rec) && g_file_writable == WRITABLE(file_rec))
    __CPROVER_requires((!file_rec->cache || !file_rec->dirty) || WRITABLE(file_rec)) /* only a writable file gets dirty */
    __CPROVER_requires(g_htpsync_n == 0 && g_wr_n == 0 && (file_rec->dirty & ~3) == 0)
    __CPROVER_requires(g_add_session == 0 || g_L <= file_rec->f_end_off)
    __CPROVER_assigns(file_rec->dirty, file_rec->f_cur_off, file_rec->last_op, g_fpos, g_pos_valid, g_io_failed, g_seek_n, g_last_stdio, g_wr_n,
                      g_wr_off, g_wr_len, g_min_wr_off, g_off_written, g_off_byte, g_htpsync_n, g_htp_failed)
    __CPROVER_ensures((g_io_failed && !__CPROVER_old(g_io_failed)) || g_htp_failed ==> __CPROVER_return_value == FAIL)
    __CPROVER_ensures(__CPROVER_return_value == SUCCEED || __CPROVER_return_value == FAIL)
    __CPROVER_ensures((!__CPROVER_old(file_rec->cache) || !__CPROVER_old(file_rec->dirty)) ==>
                      (__CPROVER_return_value == SUCCEED && g_htpsync_n == 0 && g_wr_n == 0 && file_rec->dirty == __CPROVER_old(file_rec->dirty)))
    __CPROVER_ensures((__CPROVER_old(file_rec->cache) && __CPROVER_old(file_rec->dirty) && __CPROVER_return_value == SUCCEED) ==>
                      (file_rec->dirty == 0 && g_htpsync_n == ((__CPROVER_old(file_rec->dirty) & DDLIST_DIRTY) ? 1 : 0) &&
                       g_wr_n == ((__CPROVER_old(file_rec->dirty) & FILE_END_DIRTY) ? 1 : 0)))
    __CPROVER_ensures(__CPROVER_return_value == FAIL ==> file_rec->dirty == __CPROVER_old(file_rec->dirty))
    /* the end-of-file byte goes at (not below) the end of the file */
    __CPROVER_ensures((g_wr_n == 1 && !g_io_failed) ==> g_wr_off == file_rec->f_end_off);

/* C13/C01: two access records denote the same stored element (and may share special info) exactly when they are different
   records of the same file with the same tag/ref */
int HPcompare_accrec_tagref(const void *rec1, const void *rec2)
    __CPROVER_requires(rec1 != NULL && rec2 != NULL && g_htp_failed == 0)
    __CPROVER_assigns(g_htp_failed)
    __CPROVER_ensures(g_htp_failed || __CPROVER_return_value ==
                      ((rec1 != rec2 && ((const accrec_t *)rec1)->file_id == ((const accrec_t *)rec2)->file_id &&
                        (((const accrec_t *)rec1)->ddid == g_ddB ? g_tagB : g_tagA) == (((const accrec_t *)rec2)->ddid == g_ddB ? g_tagB : g_tagA) &&
                        (((const accrec_t *)rec1)->ddid == g_ddB ? g_refB : g_refA) == (((const accrec_t *)rec2)->ddid == g_ddB ? g_refB : g_refA))
                           ? TRUE : FALSE));

#ifdef H4V_NATIVE
#include "h4v_native_wrap.h"
#endif

/* ------------------------------------------------------------------ harnesses */
static void
mk_env(int io_may_fail)
{
    h4v_stdio_init(io_may_fail);
    g_frec = malloc(sizeof(filerec_t));
    H4V_ASSUME(g_frec != NULL);
    H4V_ND(int, f_access);
    H4V_ND(int, f_refcount);
    H4V_ND(int, f_attach);
    H4V_ND(int32, f_cur_off);
    H4V_ND(int, f_last_op);
    H4V_ND(int, f_cache);
    H4V_ND(int, f_dirty);
    H4V_ND(int32, f_end_off);
    H4V_ASSUME(f_last_op >= 0 && f_last_op <= 3);
    g_stream            = (FILE *)g_dummy_stream;
    g_frec->path        = NULL;
    g_frec->file        = g_stream;
    g_frec->maxref      = 0;
    g_frec->access      = f_access;
    g_frec->refcount    = f_refcount;
    g_frec->attach      = f_attach;
    g_frec->version_set = 0;
    g_frec->f_cur_off   = f_cur_off;
    g_frec->last_op     = (fileop_t)f_last_op;
    g_frec->cache       = f_cache;
    g_frec->dirty       = f_dirty;
    g_frec->f_end_off   = f_end_off;
    g_frec->ddhead = g_frec->ddlast = g_frec->ddnull = NULL;
    g_frec->ddnull_idx = -1;
    g_frec->tag_tree   = NULL;
    g_file_writable    = (f_access & DFACC_WRITE) != 0;
    H4V_HAVOC(int32, g_fid);
    H4V_HAVOC(int32, g_aid);
    H4V_HAVOC(int32, g_dd_off);
    H4V_HAVOC(int32, g_dd_len);
    H4V_HAVOC(int32, g_cap);
    g_htp_failed = 0;
    g_upd_n = g_hlconvert_n = g_special_n = 0;
    {
        g_arec = malloc(sizeof(accrec_t));
        H4V_ASSUME(g_arec != NULL);
        H4V_ND(int, a_appendable);
        H4V_ND(int, a_special);
        H4V_ND(int, a_new_elem);
        H4V_ND(int32, a_block_size);
        H4V_ND(int32, a_num_blocks);
        H4V_ND(uint32, a_access);
        H4V_ND(int32, a_ddid);
        H4V_ND(int32, a_posn);
        g_arec->appendable   = a_appendable;
        g_arec->special      = a_special;
        g_arec->new_elem     = a_new_elem;
        g_arec->block_size   = a_block_size;
        g_arec->num_blocks   = a_num_blocks;
        g_arec->access       = a_access;
        g_arec->access_type  = 0;
        g_arec->file_id      = g_fid;
        g_arec->ddid         = a_ddid;
        g_arec->posn         = a_posn;
        g_arec->special_info = NULL;
        g_arec->special_func = NULL;
        g_arec->next         = NULL;
    }
}

void
h_HPseek(void)
{
    mk_env(1);
    H4V_ND(int32, offset);
    int r = HPseek(g_frec, offset);
    H4V_COVER(r == SUCCEED && g_seek_n == 0, "HPseek avoided");
    H4V_COVER(r == SUCCEED && g_seek_n == 1, "HPseek taken");
    H4V_COVER(r == FAIL, "HPseek fault");
    H4V_CANARY("HPseek end");
}

void
h_HP_read(void)
{
    mk_env(1);
    H4V_ND(int32, bytes);
    H4V_ASSUME(g_cap >= 0 && g_cap <= 4096);
    H4V_ND_BUF(uint8, buf, g_cap, 8);
    int r = HP_read(g_frec, buf, bytes);
    H4V_COVER(r == SUCCEED && g_seek_n == 1, "HP_read forced seek");
    H4V_COVER(r == SUCCEED && g_seek_n == 0, "HP_read no seek");
    H4V_COVER(r == FAIL, "HP_read fault");
    H4V_CANARY("HP_read end");
}

void
h_HP_write(void)
{
    mk_env(1);
    H4V_ND(int32, bytes);
    H4V_ASSUME(g_cap >= 0 && g_cap <= 4096);
    H4V_ND_BUF(uint8, buf, g_cap, 8);
    int r = HP_write(g_frec, buf, bytes);
    H4V_COVER(r == SUCCEED && g_seek_n == 1, "HP_write forced seek");
    H4V_COVER(r == SUCCEED && g_seek_n == 0, "HP_write no seek");
    H4V_COVER(r == FAIL, "HP_write fault");
    H4V_CANARY("HP_write end");
}

void
h_Hread(void)
{
    mk_env(1);
    g_htp_may_fail = 1;
    H4V_ND(int32, access_id);
    H4V_ND(int32, length);
    H4V_ND(int, null_data);
    H4V_ASSUME(g_cap >= 0 && g_cap <= 4096);
    H4V_ND_BUF(uint8, buf, g_cap, 8);
    int32 r = Hread(access_id, length, null_data ? NULL : buf);
    H4V_COVER(r > 0 && length == 0, "Hread to end");
    H4V_COVER(r > 0 && length > 0 && r < length, "Hread clamped");
    H4V_COVER(r == 0, "Hread at end");
    H4V_COVER(r == FAIL && g_io_failed, "Hread fault");
    H4V_CANARY("Hread end");
}

void
h_Hseek(void)
{
    mk_env(0);
    g_htp_may_fail = 1;
    H4V_ND(int32, access_id);
    H4V_ND(int32, offset);
    H4V_ND(int, origin);
    int old_hl = g_hlconvert_n;
    int r = Hseek(access_id, offset, origin);
    H4V_COVER(r == SUCCEED && g_hlconvert_n == old_hl && g_arec->posn > g_dd_len, "Hseek past end of last element");
    H4V_COVER(r == SUCCEED && g_hlconvert_n != old_hl, "Hseek promoted");
    H4V_COVER(r == FAIL && g_hlconvert_n != old_hl, "Hseek promotion failed");
    H4V_COVER(r == FAIL && access_id == g_aid && !g_htp_failed, "Hseek refused");
    H4V_CANARY("Hseek end");
}

void
h_Htell(void)
{
    mk_env(0);
    H4V_ND(int32, access_id);
    int32 r = Htell(access_id);
    H4V_COVER(r == FAIL, "Htell bad id");
    H4V_CANARY("Htell end");
}

void
h_Hwrite(void)
{
    mk_env(1);
    g_htp_may_fail = 1;
    H4V_ND(int32, access_id);
    H4V_ND(int32, length);
    H4V_ND(int, null_data);
    H4V_ASSUME(g_cap >= 0 && g_cap <= 4096);
    H4V_ND_BUF(uint8, buf, g_cap, 8);
    int32 old_len = g_dd_len;
    int old_hl = g_hlconvert_n;
    int32 r = Hwrite(access_id, length, null_data ? NULL : buf);
    H4V_COVER(r > 0 && g_dd_len > old_len, "Hwrite grew last element in place");
    H4V_COVER(r > 0 && g_dd_len == old_len && g_hlconvert_n == old_hl, "Hwrite inside element");
    H4V_COVER(g_hlconvert_n != old_hl, "Hwrite promotion attempted");
    H4V_COVER(r == FAIL && g_io_failed, "Hwrite fault");
    H4V_CANARY("Hwrite end");
}

void
h_Htrunc(void)
{
    mk_env(0);
    g_htp_may_fail = 1;
    H4V_ND(int32, aid);
    H4V_ND(int32, trunc_len);
    int32 r = Htrunc(aid, trunc_len);
    H4V_COVER(r != FAIL && g_arec->posn == trunc_len, "Htrunc moved position back");
    H4V_COVER(r == FAIL && aid == g_aid && !g_htp_failed, "Htrunc refused");
    H4V_CANARY("Htrunc end");
}

void
h_HPgetdiskblock(void)
{
    mk_env(1);
    H4V_ND(int32, block_size);
    H4V_ND(int, moveto);
    H4V_HAVOC(int, g_add_session);
    H4V_HAVOC(long, g_L);
    int32 r = HPgetdiskblock(g_frec, block_size, moveto);
    H4V_COVER(r != FAIL && g_wr_n == 1, "HPgetdiskblock wrote end marker");
    H4V_COVER(r != FAIL && g_wr_n == 0 && block_size > 0, "HPgetdiskblock cached");
    H4V_COVER(r == FAIL && g_io_failed, "HPgetdiskblock fault");
    H4V_CANARY("HPgetdiskblock end");
}

void
h_Hsetlength(void)
{
    mk_env(1);
    g_htp_may_fail = 1;
    H4V_ND(int32, aid);
    H4V_ND(int32, length);
    int r = Hsetlength(aid, length);
    H4V_COVER(r == SUCCEED, "Hsetlength ok");
    H4V_COVER(r == FAIL && g_io_failed, "Hsetlength fault");
    H4V_CANARY("Hsetlength end");
}

void
h_HIextend_file(void)
{
    mk_env(1);
    H4V_HAVOC(int, g_add_session);
    H4V_HAVOC(long, g_L);
    int r = HIextend_file(g_frec);
    H4V_COVER(r == SUCCEED, "HIextend_file ok");
    H4V_COVER(r == FAIL, "HIextend_file fault");
    H4V_CANARY("HIextend_file end");
}

void
h_HIrelease_accrec_node(void)
{
    mk_env(0);
    H4V_HAVOC(int, g_registered);
    g_reg_ptr = NULL;
    accrec_free_list = NULL;
    HIrelease_accrec_node(g_arec);
    H4V_CANARY("HIrelease_accrec_node end");
}

void
h_hi_close_stdio(void)
{
    h4v_stdio_init(1);
    g_stream = (FILE *)g_dummy_stream;
    FILE *f  = g_stream;
    int   r  = hi_close_stdio(&f);
    H4V_COVER(r == FAIL, "hi_close_stdio fault");
    H4V_COVER(r == SUCCEED, "hi_close_stdio ok");
    H4V_CANARY("hi_close_stdio end");
}

void
h_Hstartaccess(void)
{
    mk_env(0);
    g_frec->version_set = 1;
    g_registered = 0;
    g_reg_n = g_htpcreate_n = 0;
    g_reg_ptr = NULL;
    g_reg_may_fail = 0; /* A-ALLOC: atom registration (malloc) does not fail; no property quantifies over allocation failure */
    H4V_ND(int, free_list_has_one);
    accrec_free_list = free_list_has_one ? g_arec : NULL;
    if (!free_list_has_one) {
        free(g_arec);
        g_arec = NULL;
    }
    else
        g_arec->next = NULL;
    H4V_ND(int32, file_id);
    H4V_ND(uint16, tag);
    H4V_ND(uint16, ref);
    H4V_ND(uint32, flags);
    int32 r = Hstartaccess(file_id, tag, ref, flags);
    H4V_COVER(r != FAIL && g_htpcreate_n == 1, "Hstartaccess created element");
    H4V_COVER(r != FAIL && g_htpcreate_n == 0, "Hstartaccess existing element");
    H4V_COVER(r == FAIL && g_reg_n == 0 && file_id == g_fid, "Hstartaccess refused");
    H4V_COVER(r == FAIL && accrec_free_list != NULL, "Hstartaccess released record on failure");
    H4V_CANARY("Hstartaccess end");
}

void
h_Hendaccess(void)
{
    mk_env(0);
    g_htp_may_fail = 1;
    g_registered = 1;
    g_reg_ptr    = g_arec;
    g_rem_n      = 0;
    H4V_ND(int, free_list_empty);
    if (free_list_empty)
        accrec_free_list = NULL;
    else {
        accrec_free_list = malloc(sizeof(accrec_t));
        H4V_ASSUME(accrec_free_list != NULL);
        accrec_free_list->next = NULL;
    }
    H4V_ND(int32, access_id);
    int r = Hendaccess(access_id);
    H4V_COVER(r == SUCCEED, "Hendaccess ok");
    H4V_COVER(r == FAIL && access_id == g_aid, "Hendaccess DD layer failure");
    H4V_CANARY("Hendaccess end");
}

void
h_Hclose(void)
{
    mk_env(1);
    g_htp_may_fail = 1;
    g_rem_n = 0;
    g_htpsync_n = g_htpend_n = 0;
    H4V_ND(int, v_modified);
    g_frec->version.modified = (int16)v_modified;
    H4V_ND(int32, file_id);
    int r = Hclose(file_id);
    H4V_COVER(r == SUCCEED && g_close_n == 1, "Hclose closed the file");
    H4V_COVER(r == FAIL && g_close_n == 0 && file_id == g_fid, "Hclose refused (attached)");
    H4V_COVER(r == FAIL && g_io_failed, "Hclose reports I/O failure");
    H4V_CANARY("Hclose end");
}

void
h_HIsync(void)
{
    mk_env(1);
    g_htp_may_fail = 1;
    g_htpsync_n    = 0;
    H4V_HAVOC(int, g_add_session);
    H4V_HAVOC(long, g_L);
    int r = HIsync(g_frec);
    H4V_COVER(r == SUCCEED && g_htpsync_n == 1 && g_wr_n == 1, "HIsync flushed DDs and extended the file");
    H4V_COVER(r == SUCCEED && g_htpsync_n == 0 && g_wr_n == 0, "HIsync nothing to do");
    H4V_COVER(r == FAIL, "HIsync reports failure");
    H4V_CANARY("HIsync end");
}

void
h_HPcompare_accrec_tagref(void)
{
    mk_env(0);
    g_htp_may_fail = 1;
    accrec_t *other = malloc(sizeof(accrec_t));
    H4V_ASSUME(other != NULL);
    H4V_ND(int32, o_file_id);
    H4V_ND(int32, o_ddid);
    H4V_ND(int, same_rec);
    other->file_id = o_file_id;
    other->ddid    = o_ddid;
    H4V_HAVOC(int32, g_ddB);
    H4V_HAVOC(uint16, g_tagA);
    H4V_HAVOC(uint16, g_refA);
    H4V_HAVOC(uint16, g_tagB);
    H4V_HAVOC(uint16, g_refB);
    int r = HPcompare_accrec_tagref(g_arec, same_rec ? g_arec : other);
    H4V_COVER(r == TRUE, "HPcompare_accrec_tagref same element");
    H4V_COVER(r == FALSE && !same_rec && !g_htp_failed && other->file_id != g_arec->file_id && g_arec->ddid == g_ddB && other->ddid == g_ddB,
              "HPcompare_accrec_tagref same tag/ref in another file");
    H4V_CANARY("HPcompare_accrec_tagref end");
}

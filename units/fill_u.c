/* Verification unit: hdf/src/hdfalloc.c HDmemfill (C03: the fill pattern generator used for every SDS fill:
   leading/trailing fill of hdf_xdr_NCvdata, record fill of NCcoordck, NC_fill_buffer, chunk fill in hchunks.c).
   Property clause served: "cells never written hold the dataset's fill value": HDmemfill(dest, item, W, n) leaves
   n exact copies of the W-byte item in dest, touches nothing beyond n*W bytes and returns dest.

   cbmc limits (measured on this image): the doubling structure (copy 1, 2, 4, ... items with memcpy from dest to
   dest) has no per-byte inductive invariant with a single ghost index (byte k of the second half depends on byte
   k - copy_size, another ghost), and memcpy of a symbolic length into a large object exhausts memory.  So: item
   size constant per obligation (FILL_W = 1, 2, 4, 8, also 0 and 3), number of items <= FILL_N (loop unwound:
   log2(FILL_N) + 2 iterations): mode "bounded", bound stated.  Inside the bound every byte is checked through the
   ghost index g_k, the frame through assigns and the ghost index g_o. */
#include "h4v.h"
#include "hdfalloc.c"

#ifndef FILL_W
#define FILL_W 4
#endif
#ifndef FILL_N
#define FILL_N 12
#endif
/* bytes of the destination object that lie behind the largest fill (frame witness) */
#define FILL_PAD 4

uint32 g_k;    /* ghost byte index inside the filled region */
uint32 g_o;    /* ghost byte index of the destination object (for "unchanged" clauses) */
uint32 g_dcap; /* bytes of the destination object from dest on (environment fact) */

void *HDmemfill(void *dest, const void *src, uint32 item_size, uint32 num_items)
    __CPROVER_requires(dest != NULL && src != NULL)
    __CPROVER_requires(item_size == FILL_W && num_items <= FILL_N)
    __CPROVER_requires(g_dcap >= FILL_N * FILL_W && g_o < g_dcap)
    __CPROVER_requires(FILL_W == 0 || g_k < FILL_N * FILL_W)
    __CPROVER_assigns((item_size > 0 && num_items > 0): __CPROVER_object_upto((uint8 *)dest, num_items * FILL_W))
    __CPROVER_ensures(__CPROVER_return_value == dest)
    /* every byte of the n items equals the corresponding byte of the pattern */
    __CPROVER_ensures((FILL_W > 0 && g_k < num_items * FILL_W) ==>
                      ((uint8 *)dest)[g_k] == ((const uint8 *)src)[FILL_W == 0 ? 0 : g_k % (FILL_W == 0 ? 1 : FILL_W)])
    /* nothing behind the n items (and nothing at all for an empty request) is written */
    __CPROVER_ensures((g_o >= num_items * FILL_W) ==> ((uint8 *)dest)[g_o] == __CPROVER_old(((uint8 *)dest)[g_o]));

#ifdef H4V_NATIVE
#include "h4v_native_wrap.h"
#endif

H4V_DECL_ND(uint32);
H4V_DECL_ND(uint8);
H4V_DECL_ND(int);

#define FILL_TOT (FILL_W + FILL_N * FILL_W + FILL_PAD)

/* dest and the pattern: either two objects, or (as hfiledd.c does: HDmemfill(&list[1], &list[0], ...)) the pattern
   directly in front of the destination inside one object */
void
h_HDmemfill(void)
{
    H4V_HAVOC(uint32, g_k);
    H4V_HAVOC(uint32, g_o);
    /* destination object: arbitrary contents in proof mode; in counterexample/replay mode one named byte value
       everywhere (the doubling loop under a large --unwind makes element-wise named contents intractable) */
    uint8 *dbuf = malloc(FILL_TOT);
    H4V_ASSUME(dbuf != NULL);
#if !defined(H4V_CBMC) || defined(H4V_CEX)
    H4V_ND(uint8, dinit);
    memset(dbuf, dinit, FILL_TOT);
#endif
    /* the pattern: up to 8 named bytes */
    H4V_ND(uint8, p0); H4V_ND(uint8, p1); H4V_ND(uint8, p2); H4V_ND(uint8, p3);
    H4V_ND(uint8, p4); H4V_ND(uint8, p5); H4V_ND(uint8, p6); H4V_ND(uint8, p7);
    uint8 item[9] = {p0, p1, p2, p3, p4, p5, p6, p7, 0};
    H4V_ND(uint32, num_items);
    H4V_ND(int, adjacent);
    uint8       *dest = dbuf + FILL_W;
    const uint8 *src  = adjacent ? dbuf : item;
    g_dcap            = FILL_N * FILL_W + FILL_PAD;
    void *r = HDmemfill(dest, src, FILL_W, num_items);
    H4V_CHECK(r == dest, "HDmemfill returns dest");
    H4V_COVER(num_items == 0, "empty fill");
    H4V_COVER(num_items == 1, "one item");
    H4V_COVER(num_items == FILL_N, "largest fill");
    H4V_COVER(num_items == 5, "five items: doubling plus a remainder");
    H4V_COVER(adjacent != 0, "pattern in front of the destination");
    H4V_CANARY("HDmemfill end");
}

/* Verification unit: hdf/src/hextelt.c -- external elements (C01, C14, C16).
 * The whole real file; stdio (the external file) is the two-stream ghost disk of stubs/hextelt_stdio.h; the H-layer
 * primitives used on the HDF file itself (HAatom_object, HTPinquire, HPseek, HP_write, hi_close_stdio) are stub bodies.
 */
#include "h4v.h"
#ifndef H4V_CASE
#define H4V_CASE 0
#endif
#include <limits.h>
#include <string.h>
#include "h4v_err.h"
#include "hfile_priv.h"
#include "hextelt_stdio.h"
#include "hextelt.c"

H4V_DECL_ND(int32);
H4V_DECL_ND(uint32);

/* ------------------------------------------------------------------ ghost environment */
int32      g_fid;
filerec_t *g_frec;
accrec_t  *g_arec;
extinfo_t *g_xinfo;
int32      g_posn0, g_len0;    /* position and element length on entry */
uint8     *g_buf;              /* caller's buffer and the bytes the caller is entitled to */
int32      g_cap;
int32      g_dd_off;           /* offset of the special header element in the HDF file */
int        g_was_open;         /* on entry the record held an open stream and HXsetdir had not been called since */
int        g_htp_may_fail, g_htp_failed, g_hp_may_fail, g_hp_failed;
int        g_hp_seek_n, g_hp_wr_n;
int32      g_hp_off, g_hp_len;
uint8      g_hp_bytes[4];

void *
HAatom_object(atom_t atm)
{
    return atm == g_fid ? (void *)g_frec : NULL;
}
intn
HTPinquire(atom_t ddid, uint16 *ptag, uint16 *pref, int32 *poff, int32 *plen)
{
    H4V_CHECK(ddid == g_arec->ddid, "HTPinquire on the access record's DD");
    if (g_htp_may_fail) {
        H4V_ND(int, htp_fault);
        if (htp_fault) {
            g_htp_failed = 1;
            return FAIL;
        }
    }
    if (poff)
        *poff = g_dd_off;
    return SUCCEED;
}
intn
HPseek(filerec_t *file_rec, int32 offset)
{
    H4V_CHECK(file_rec == g_frec && offset >= 0, "C20: seek in the HDF file to a representable offset");
    if (g_hp_may_fail) {
        H4V_ND(int, hp_fault);
        if (hp_fault) {
            g_hp_failed = 1;
            return FAIL;
        }
    }
    g_hp_seek_n++;
    g_hp_off = offset;
    return SUCCEED;
}
intn
HP_write(filerec_t *file_rec, const void *buf, int32 bytes)
{
    H4V_CHECK(file_rec == g_frec && (file_rec->access & DFACC_WRITE) != 0, "C14: HP_write on a file opened read-only");
    H4V_CHECK(bytes == 4 && g_hp_seek_n == 1, "the stored length is one 4-byte write after one seek");
    if (g_hp_may_fail) {
        H4V_ND(int, hp_fault);
        if (hp_fault) {
            g_hp_failed = 1;
            return FAIL;
        }
    }
    if (bytes == 4)
        memcpy(g_hp_bytes, buf, 4);
    g_hp_len = bytes;
    g_hp_wr_n++;
    return SUCCEED;
}
/* hfile.c; the stream is gone whether or not the close succeeded (contract proved in hfile_u.c) */
int
hi_close_stdio(FILE **f)
{
    int r = (EOF == fclose(*f)) ? FAIL : SUCCEED;
    *f    = NULL;
    return r;
}

#define BE32B(v, k) ((uint8)(((uint32)(v)) >> (8 * (3 - (k)))))
#define XENV_WF                                                                                              \
    (g_arec->special_info == (void *)g_xinfo && g_arec->file_id == g_fid && g_arec->posn >= 0 && g_xinfo->length >= 0 &&            \
     g_xinfo->extern_offset >= 0 && (int64_t)g_xinfo->extern_offset + g_xinfo->length <= INT32_MAX && g_frec != NULL && g_frec->refcount >= 1 && g_posn0 == g_arec->posn && g_len0 == g_xinfo->length)
#define NO_FAULT (!g_io_failed && !g_htp_failed && !g_hp_failed)
#define XMAX(a, b) ((a) > (b) ? (a) : (b))

/* ------------------------------------------------------------------ contracts */

/* building the file name (string handling, environment) is outside the properties: NULL or a fresh string */
static char *HXIbuildfilename(const char *ext_fname, const int acc_mode)
    __CPROVER_requires(ext_fname != NULL)
    __CPROVER_assigns()
    __CPROVER_ensures(__CPROVER_return_value == NULL || __CPROVER_is_fresh(__CPROVER_return_value, 8));

/* C01: HXPseek */
#define XSEEK_T                                                                                              \
    ((int64_t)offset + (origin == DF_CURRENT ? (int64_t)g_posn0 : origin == DF_END ? (int64_t)g_xinfo->length : (int64_t)0))
int32 HXPseek(accrec_t *access_rec, int32 offset, int origin)
    __CPROVER_requires(access_rec == g_arec && XENV_WF)
    __CPROVER_requires(origin == DF_START || origin == DF_CURRENT || origin == DF_END) /* checked by Hseek, the only caller */
    __CPROVER_assigns(access_rec->posn)
    __CPROVER_ensures(__CPROVER_return_value == SUCCEED || __CPROVER_return_value == FAIL)
    __CPROVER_ensures(__CPROVER_return_value == SUCCEED ==> (int64_t)access_rec->posn == XSEEK_T)
    __CPROVER_ensures(__CPROVER_return_value == FAIL ==> access_rec->posn == g_posn0)
    __CPROVER_ensures((XSEEK_T >= 0 && XSEEK_T <= INT32_MAX) ==> __CPROVER_return_value == SUCCEED)
    __CPROVER_ensures((XSEEK_T < 0 || XSEEK_T > INT32_MAX) ==> __CPROVER_return_value == FAIL);

/* C01: HXPread -- the element is bytes [extern_offset, extern_offset + length) of the external file */
#define XRD_AVAIL (g_posn0 >= g_len0 ? 0 : g_len0 - g_posn0)
#define XRD_WANT ((length == 0 || length > XRD_AVAIL) ? XRD_AVAIL : length)
int32 HXPread(accrec_t *access_rec, int32 length, void *data)
    __CPROVER_requires(access_rec == g_arec && XENV_WF && data == (void *)g_buf)
    __CPROVER_requires((g_xinfo->file_open == 0 || g_xinfo->file_open == 1) && (!g_xinfo->file_open || (g_xinfo->file_external == XS0 && g_s_open[0])))
    __CPROVER_requires(g_rd_n == 0 && g_wr_n == 0 && g_open_n == 0 && g_close_n == 0 && !g_s_open[1] && g_io_failed == 0)
    __CPROVER_assigns(access_rec->posn, g_xinfo->file_external, g_xinfo->file_open, extdir_changed, __CPROVER_object_whole(data), g_io_failed, g_close_failed,
                      g_rd_n, g_rd_s, g_rd_off, g_rd_len, g_seek_n, g_open_n, g_close_n, g_open_write, __CPROVER_object_whole(g_s_open),
                      __CPROVER_object_whole(g_s_writable), __CPROVER_object_whole(g_s_posvalid), __CPROVER_object_whole(g_s_pos))
    __CPROVER_ensures(length < 0 ==> (__CPROVER_return_value == FAIL && g_rd_n == 0))
    __CPROVER_ensures(__CPROVER_return_value == FAIL ==> access_rec->posn == g_posn0)
    /* transfer count: min(length or rest, element length - position); 0 at or after the end */
    __CPROVER_ensures(__CPROVER_return_value != FAIL ==> __CPROVER_return_value == XRD_WANT)
    __CPROVER_ensures(__CPROVER_return_value != FAIL ==> access_rec->posn == g_posn0 + __CPROVER_return_value)
    /* the bytes come from extern_offset + posn of the external file, exactly `count` of them, in one read */
    __CPROVER_ensures((__CPROVER_return_value != FAIL && __CPROVER_return_value > 0) ==>
                      (g_rd_n == 1 && g_rd_len == __CPROVER_return_value && g_rd_off == (long)g_xinfo->extern_offset + g_posn0))
    __CPROVER_ensures(g_rd_n <= 1 && g_wr_n == 0)
    /* C16 */
    __CPROVER_ensures(g_io_failed ==> __CPROVER_return_value == FAIL)
    /* a valid request on an open file without a fault succeeds */
    __CPROVER_ensures((length >= 0 && !g_io_failed && g_was_open) ==> __CPROVER_return_value != FAIL);

/* C01/C14: HXPwrite */
#define XWR_END ((int64_t)g_posn0 + length)
int32 HXPwrite(accrec_t *access_rec, int32 length, const void *data)
    __CPROVER_requires(access_rec == g_arec && XENV_WF && data == (const void *)g_buf && length <= g_cap)
    __CPROVER_requires(length != 0) /* Hwrite, the only caller, refuses length <= 0 before it dispatches (negative: checked here too) */
    /* the invariant Hstartaccess establishes and Hwrite checks before it dispatches here */
    __CPROVER_requires((g_arec->access & DFACC_WRITE) && (g_frec->access & DFACC_WRITE) && g_hdf_writable)
    __CPROVER_requires((g_xinfo->file_open == 0 || g_xinfo->file_open == 1) && (!g_xinfo->file_open || (g_xinfo->file_external == XS0 && g_s_open[0])))
    __CPROVER_requires(g_rd_n == 0 && g_wr_n == 0 && g_open_n == 0 && g_close_n == 0 && !g_s_open[1] && g_io_failed == 0 && g_htp_failed == 0 &&
                       g_hp_failed == 0 && g_hp_seek_n == 0 && g_hp_wr_n == 0 && g_xinfo->extern_file_name != NULL)
    __CPROVER_assigns(access_rec->posn, g_xinfo->length, g_xinfo->file_external, g_xinfo->file_open, extdir_changed, g_io_failed, g_close_failed, g_wr_n, g_wr_s,
                      g_wr_off, g_wr_len, g_seek_n, g_open_n, g_close_n, g_open_write, __CPROVER_object_whole(g_s_open),
                      __CPROVER_object_whole(g_s_writable), __CPROVER_object_whole(g_s_posvalid), __CPROVER_object_whole(g_s_pos),
                      g_htp_failed, g_hp_failed, g_hp_seek_n, g_hp_wr_n, g_hp_off, g_hp_len, __CPROVER_object_whole(g_hp_bytes))
    __CPROVER_ensures(length < 0 ==> (__CPROVER_return_value == FAIL && g_wr_n == 0))
    __CPROVER_ensures(__CPROVER_return_value == FAIL ==> (access_rec->posn == g_posn0 && g_xinfo->length == g_len0))
    /* C20: a write that would end beyond 2^31-1 is refused */
    __CPROVER_ensures((XWR_END > INT32_MAX || (int64_t)g_xinfo->extern_offset + XWR_END > INT32_MAX) ==> (__CPROVER_return_value == FAIL && g_wr_n == 0))
    /* everything is written, at extern_offset + posn of the external file */
    __CPROVER_ensures(__CPROVER_return_value != FAIL ==>
                      (__CPROVER_return_value == length && (int64_t)access_rec->posn == XWR_END && g_wr_n == 1 && g_wr_len == length &&
                       g_wr_off == (long)g_xinfo->extern_offset + g_posn0))
    /* the element grows exactly to the end of the write; the stored length (4 bytes at offset 2 of the header) follows */
    __CPROVER_ensures(__CPROVER_return_value != FAIL ==> (int64_t)g_xinfo->length == XMAX((int64_t)g_len0, XWR_END))
    __CPROVER_ensures((__CPROVER_return_value != FAIL && XWR_END > g_len0) ==>
                      (g_hp_wr_n == 1 && g_hp_off == g_dd_off + 2 && g_hp_bytes[0] == BE32B(g_xinfo->length, 0) &&
                       g_hp_bytes[1] == BE32B(g_xinfo->length, 1) && g_hp_bytes[2] == BE32B(g_xinfo->length, 2) &&
                       g_hp_bytes[3] == BE32B(g_xinfo->length, 3)))
    __CPROVER_ensures((__CPROVER_return_value != FAIL && XWR_END <= g_len0) ==> g_hp_wr_n == 0)
    /* C16: a failure of the header update is reported */
    __CPROVER_ensures((g_htp_failed || g_hp_failed) ==> __CPROVER_return_value == FAIL)
    /* the stream the record holds afterwards is open */
    __CPROVER_ensures(__CPROVER_return_value != FAIL ==>
                      (g_xinfo->file_open == 1 && ((g_xinfo->file_external == XS0 && g_s_open[0]) || (g_xinfo->file_external == XS1 && g_s_open[1]))));

#ifdef H4V_NATIVE
#include "h4v_native_wrap.h"
#endif

/* ------------------------------------------------------------------ harnesses */
static char g_name[2] = "x";

static void
mk_xenv(void)
{
    hx_stdio_init();
    H4V_HAVOC(int32, g_fid);
    g_frec = malloc(sizeof(filerec_t));
    H4V_ASSUME(g_frec != NULL);
    H4V_ND(int, f_access);
    g_frec->path = NULL;
    g_frec->file = NULL;
    g_frec->maxref = 0;
    g_frec->access = f_access;
    g_frec->refcount = 1;
    g_frec->attach = 1;
    g_frec->version_set = 1;
    g_frec->f_cur_off = 0;
    g_frec->f_end_off = 0;
    g_frec->cache = 0;
    g_frec->dirty = 0;
    g_frec->ddhead = g_frec->ddlast = g_frec->ddnull = NULL;
    g_frec->ddnull_idx = -1;
    g_frec->tag_tree = NULL;
    g_hdf_writable = (f_access & DFACC_WRITE) != 0;
    g_arec = malloc(sizeof(accrec_t));
    H4V_ASSUME(g_arec != NULL);
    g_xinfo = malloc(sizeof(extinfo_t));
    H4V_ASSUME(g_xinfo != NULL);
    H4V_ND(uint32, a_access);
    H4V_ND(int32, a_ddid);
    H4V_ND(int32, a_posn);
    g_arec->appendable   = 0;
    g_arec->special      = SPECIAL_EXT;
    g_arec->new_elem     = 0;
    g_arec->block_size   = 0;
    g_arec->num_blocks   = 0;
    g_arec->access       = a_access;
    g_arec->access_type  = 0;
    g_arec->file_id      = g_fid;
    g_arec->ddid         = a_ddid;
    g_arec->posn         = a_posn;
    g_arec->special_info = g_xinfo;
    g_arec->special_func = &ext_funcs;
    g_arec->next         = NULL;
    H4V_ND(int32, x_extern_offset);
    H4V_ND(int32, x_length);
    H4V_ND(int, x_file_open);
    H4V_ND(int, x_stream_writable);
    H4V_ND(int, x_extdir_changed);
    H4V_ASSUME(x_file_open == 0 || x_file_open == 1);
    g_xinfo->attached         = 1;
    g_xinfo->extern_offset    = x_extern_offset;
    g_xinfo->length           = x_length;
    g_xinfo->length_file_name = 1;
    g_xinfo->para_extfile_id  = 0;
    g_xinfo->file_external    = x_file_open ? XS0 : NULL;
    g_xinfo->extern_file_name = g_name;
    g_xinfo->file_open        = x_file_open;
    g_s_open[0]               = x_file_open;
    g_s_writable[0]           = x_stream_writable != 0; /* it may have been opened through a read-only handle on the same element */
    extdir_changed            = x_extdir_changed != 0;
    g_posn0                   = a_posn;
    g_len0                    = x_length;
    g_was_open                = x_file_open && !extdir_changed;
    H4V_HAVOC(int32, g_dd_off);
    H4V_ASSUME(g_dd_off >= 0 && g_dd_off <= INT32_MAX - 16);
    g_htp_failed = g_hp_failed = 0;
    g_hp_seek_n = g_hp_wr_n = 0;
    g_hp_off = g_hp_len = -1;
}

void
h_HXPseek(void)
{
    mk_xenv();
    g_io_may_fail = g_open_may_fail = g_htp_may_fail = g_hp_may_fail = 0;
    H4V_ND(int32, offset);
    H4V_ND(int, origin);
    int32 r = HXPseek(g_arec, offset, origin);
    H4V_COVER(r == SUCCEED && g_arec->posn > g_xinfo->length, "HXPseek past the end");
    H4V_COVER(r == FAIL, "HXPseek refused");
    H4V_CANARY("HXPseek end");
}

void
h_HXPread(void)
{
    mk_xenv();
    H4V_HAVOC(int, g_io_may_fail);
    H4V_HAVOC(int, g_open_may_fail);
    g_htp_may_fail = g_hp_may_fail = 0;
    H4V_ND(int32, length);
    /* regions: 1 = position inside the element, posn + length representable; 2 = inside, posn + length > INT32_MAX;
       3 = exactly at the end; 4 = beyond the end; 0 = everything */
    H4V_ASSUME(g_posn0 >= 0 && g_len0 >= 0);
#if H4V_CASE == 1
    H4V_ASSUME(g_posn0 < g_len0 && (int64_t)g_posn0 + length <= INT32_MAX && g_was_open);
#elif H4V_CASE == 5 /* as 1, but the external file has to be (re)opened first */
    H4V_ASSUME(g_posn0 < g_len0 && (int64_t)g_posn0 + length <= INT32_MAX && !g_was_open);
#elif H4V_CASE == 2
    H4V_ASSUME(g_posn0 < g_len0 && (int64_t)g_posn0 + length > INT32_MAX);
#elif H4V_CASE == 3
    H4V_ASSUME(g_posn0 == g_len0 && (int64_t)g_posn0 + length <= INT32_MAX);
#elif H4V_CASE == 4
    H4V_ASSUME(g_posn0 > g_len0 && (int64_t)g_posn0 + length <= INT32_MAX);
#endif
    /* the caller's buffer holds exactly what the caller is entitled to (capped at 4096 to keep the model small) */
    int32 avail = g_posn0 >= g_len0 ? 0 : g_len0 - g_posn0;
    g_cap       = length > 0 ? length : length == 0 ? avail : 0;
    H4V_ASSUME(g_cap <= 4096);
    g_buf = malloc((size_t)g_cap);
    H4V_ASSUME(g_buf != NULL);
    int32 r = HXPread(g_arec, length, g_buf);
#if H4V_CASE == 1 || H4V_CASE == 5
    H4V_COVER(r > 0 && r < length, "HXPread clamped");
    H4V_COVER(r > 0 && length == 0, "HXPread to the end");
#endif
#if H4V_CASE == 5
    H4V_COVER(r > 0 && g_open_n == 1 && g_close_n == 1, "HXPread reopened after HXsetdir");
#endif
#if H4V_CASE != 3 && H4V_CASE != 4 /* at or after the end nothing is read, so no stdio call can fail */
    H4V_COVER(r == FAIL && g_io_failed, "HXPread fault");
#else
    H4V_COVER(r == 0, "HXPread at/after the end returns 0");
#endif
    H4V_CANARY("HXPread end");
}

void
h_HXPwrite(void)
{
    mk_xenv();
    H4V_HAVOC(int, g_io_may_fail);
    H4V_HAVOC(int, g_open_may_fail);
    H4V_HAVOC(int, g_htp_may_fail);
    H4V_HAVOC(int, g_hp_may_fail);
    H4V_ND(int32, length);
    /* regions: 1 = no fault of any kind, the stream the record holds is writable (no retry), the write ends at a
       representable offset; 2 = the stream held was opened read-only, or stdio faults: the retry path; 3 = faults of the
       header update in the HDF file only; 4 = the write would end beyond 2^31-1; 0 = everything */
#define XNOOVF ((int64_t)g_posn0 + length <= INT32_MAX && (int64_t)g_xinfo->extern_offset + g_posn0 + length <= INT32_MAX)
#if H4V_CASE == 1
    g_io_may_fail = g_open_may_fail = g_htp_may_fail = g_hp_may_fail = 0;
    H4V_ASSUME(g_s_writable[0] && XNOOVF && g_was_open);
#elif H4V_CASE == 5 /* as 1, but the external file has to be (re)opened first */
    g_io_may_fail = g_open_may_fail = g_htp_may_fail = g_hp_may_fail = 0;
    H4V_ASSUME(XNOOVF && !g_was_open);
#elif H4V_CASE == 2
    g_htp_may_fail = g_hp_may_fail = 0;
    H4V_ASSUME(XNOOVF);
#elif H4V_CASE == 3
    g_io_may_fail = g_open_may_fail = 0;
    H4V_ASSUME(g_s_writable[0] && XNOOVF && g_was_open);
#elif H4V_CASE == 4
    g_io_may_fail = g_open_may_fail = g_htp_may_fail = g_hp_may_fail = 0;
    H4V_ASSUME(g_s_writable[0] && !XNOOVF && length >= 0 && g_was_open);
#endif
    /* model bound: two streams -- a stream (re)opened in this call is not followed by a retry on a third one */
    H4V_ASSUME(g_was_open || !g_io_may_fail);
    g_cap = length > 0 ? length : 0;
    H4V_ASSUME(g_cap <= 4096);
    g_buf = malloc((size_t)g_cap);
    H4V_ASSUME(g_buf != NULL);
#ifndef H4V_CBMC
    for (int32 bi = 0; bi < g_cap; bi++)
        g_buf[bi] = (uint8)bi;
#endif
    int32 r = HXPwrite(g_arec, length, g_buf);
#if H4V_CASE != 4
    H4V_COVER(r > 0 && g_xinfo->length > g_len0, "HXPwrite grew the element");
    H4V_COVER(r > 0 && g_xinfo->length == g_len0, "HXPwrite inside the element");
#endif
#if H4V_CASE == 2 || H4V_CASE == 0
    H4V_COVER(r > 0 && g_wr_s == 1 && g_open_n == 1 && g_close_n == 1, "HXPwrite retry on a second stream");
#endif
#if H4V_CASE == 2 || H4V_CASE == 0 || H4V_CASE == 3
    H4V_COVER(r == FAIL, "HXPwrite failure reported");
#endif
    H4V_CANARY("HXPwrite end");
}

"""C07 (extension): Vdata accessors -- vsfld.c VFnfields/VFfield*/VSfpack, vg.c VSelts/VSgetinterlace/VSsetinterlace/
VSsizeof/VSgetfields/VSfexist/VSgetname/VSgetclass/VSinquire.  Staged module: no prop() here."""
from .core import ob

VSA = dict(unit="vsacc_u.c", file="hdf/src/vsfld.c",
           trusted=["HAatom_group/HAatom_object: group id / harness-built vsinstance_t or NULL"])

# ----------------------------------------------------------------------------- VF accessors (loop-free: proved)
ob("VFnfields", "C07", entry="h_VFnfields", enforce="VFnfields", cex_unwind=10, **VSA)
for f in ("VFfieldname", "VFfieldtype", "VFfieldisize", "VFfieldesize", "VFfieldorder"):
    # any index: the property demands FAIL/NULL outside [0, n)
    ob(f, "C07", entry=f"h_{f}", enforce=f, cex_unwind=10, **VSA)
    # the same contract with the index restricted to the table (what remains true if the range check is missing)
    ob(f"{f}_inrange", "C07", entry=f"h_{f}", enforce=f, defines=["VF_INRANGE"], cex_unwind=10, mode="bounded",
       bound="index in [0, n) or empty table (stand-in for the any-index obligation)", **VSA)

# ----------------------------------------------------------------------------- VSfpack (bounded, constant schemas)
FP = dict(VSA, mode="bounded", unwind=5, cex_unwind=26,
          trusted=VSA["trusted"] + ["scanattrs (vparse.c): scripted answers (token vectors of the run's constant name lists)",
                                    "strcmp: exact unrolled model for names of <= 1 character"])
FPB = "vdata of 3 fields A,B,C of 2,1,4 bytes; buffer fields %s, selected fields %s; n_records <= 3, bufsz <= 24"
for tag, inb, fl in (("all_all", None, None), ("AC_C", "AC", "C"), ("all_CA", None, "CA"), ("CB_all", "CB", None),
                     ("all_X", None, "X"), ("AX_all", "AX", None), ("AC_B", "AC", "B")):
    d = []
    if inb: d.append(f'FP_INBUF="{inb}"')
    if fl: d.append(f'FP_FLDS="{fl}"')
    if tag in ("all_X", "AX_all", "AC_B"): d.append("FP_EXPECT_REFUSED")
    ob(f"VSfpack_{tag}", "C07", entry="h_VSfpack", enforce="VSfpack", defines=d,
       bound=FPB % (inb or "all", fl or "all"), **FP)
ob("VSfpack_badkey", "C07", entry="h_VSfpack", enforce="VSfpack", defines=["FP_BADKEY"],
   bound=FPB % ("all", "all") + "; key of another group / without instance / without vdata", **FP)

# ----------------------------------------------------------------------------- vg.c inquiry functions
VGA = dict(unit="vgacc_u.c", file="hdf/src/vg.c",
           trusted=["HAatom_group/HAatom_object: group id / harness-built vsinstance_t or NULL"])
for f in ("VSelts", "VSgetinterlace", "VSsetinterlace"):
    ob(f, "C07", entry=f"h_{f}", enforce=f, **VGA)           # loop-free: proved
TB = dict(VGA, mode="bounded", cex_unwind=14,
          trusted=VGA["trusted"] + ["scanattrs (vparse.c): FAIL or a token vector",
                                    "strcmp/strcat/strcpy: exact loop models (names of <= 2 characters)"])
TBB = "field table of <= 3 fields, names of 1..2 characters, arbitrary sizes; request of <= 3 names (or > VSFIELDMAX)"
ob("VSsizeof", "C07", entry="h_VSsizeof", enforce="VSsizeof", unwind=5, bound=TBB, **TB)
ob("VSfexist", "C07", entry="h_VSfexist", enforce="VSfexist", unwind=5, bound=TBB, **TB)
ob("VSgetfields", "C07", entry="h_VSgetfields", enforce="VSgetfields", unwind=10, bound=TBB, **TB)
# the name field has 65 bytes: the copy loop is bounded by the type
NMG = dict(VGA, mode="proved-finite", unwind=67, cex_unwind=67,
           trusted=VGA["trusted"] + ["strcpy: exact loop model"])
ob("VSgetname", "C07", entry="h_VSgetname", enforce="VSgetname", **NMG)
ob("VSgetclass", "C07", entry="h_VSgetclass", enforce="VSgetclass", **NMG)
INQ = dict(TB, unwind=12, cex_unwind=14)
ob("VSinquire", "C07", entry="h_VSinquire", enforce="VSinquire",
   defines=["NAME_MAX_LEN=4"], bound="1..3 fields with distinct names of 1..2 characters; vdata name of <= 4 characters", **INQ)
# NOT registered: VSinquire on a vdata WITHOUT fields (harness variant -DINQ_NOFIELDS).  With both `fields` and `eltsize` requested the real
# code answers FAIL (VSsizeof(vkey, "") fails where VSsizeof(vkey, NULL) answers 0).  C07 speaks of tables with "any set of typed fields" and
# does not say what an inquiry on a table without a schema returns, so demanding SUCCEED would ask more than the property: not a finding.
# the buffer-size gate for ANY record count (the product record size x count is the true product, no wrap-around)
ob("VSfpack_gate", "C07", entry="h_VSfpack", enforce="VSfpack", defines=["FP_GATE"], tier="thorough",
   bound="vdata of 3 fields A,B,C of 2,1,4 bytes, all fields; bufsz <= 24; any n_records with 7*n_records > bufsz", **FP)

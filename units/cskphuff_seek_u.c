/* Verification unit: hdf/src/cskphuff.c (C05) -- HCPcskphuff_seek: compressed-element seek semantics
 *   seek to the CURRENT offset : nothing is touched (no rewind of the bit stream, no tree reset, no decode)
 *   seek BACKWARD              : the coder is re-initialised exactly once (alloc_buf == FALSE: the trees are reset,
 *                                not re-allocated), then skips forward from 0
 *   seek FORWARD               : skips forward, no rewind
 * Ghost counters (helper contracts, used through --replace-call-with-contract; both helpers contain table / splay
 * loops and are TRUSTED here):  CS.ninit calls of HCIcskphuff_init, CS.nalloc of them with alloc_buf != FALSE,
 * CS.ndec decode calls, CS.dpos stream bytes decoded since the last init.
 */
#include "h4v.h"
#include "h4v_err.h"
#include <string.h>

typedef long long h4v_i64;
struct { int32 aid; } CSC;
struct cs_ghost {
    int      ninit, nalloc, failed;
    unsigned ndec; /* unsigned: a counter that the skip loop bumps an unbounded number of times */
    h4v_i64 dpos;
} CS;
#define CS_ALL __CPROVER_object_whole(&CS)
#define H4V_LOOPS_CSKPHUFF_SEEK

/* bit layer: only reached natively (under cbmc both helpers are replaced by their contracts) */
int
Hbitseek(int32 bitid, int32 byte_offset, int bit_offset)
{
    return SUCCEED;
}
int
Hbitread(int32 bitid, int count, uint32 *data)
{
    *data = 0;
    return count;
}
int
Hbitwrite(int32 bitid, int count, uint32 data)
{
    return count;
}
int32
Hstartbitread(int32 file_id, uint16 tag, uint16 ref)
{
    return CSC.aid;
}
int32
Hstartbitwrite(int32 file_id, uint16 tag, uint16 ref, int32 length)
{
    return CSC.aid;
}
int
Hbitappendable(int32 bitid)
{
    return SUCCEED;
}
int32
Hendbitaccess(int32 bitfile_id, int flushbit)
{
    return SUCCEED;
}

#include "cskphuff.c"

#define SF(info, f) ((info)->cinfo.coder_info.skphuff_info.f)
#define AR_INFO(ar) ((compinfo_t *)(ar)->special_info)

/* TRUSTED: one (re)initialisation: offset and lane position back to 0, decoded-stream position 0 */
static int32 HCIcskphuff_init(accrec_t *access_rec, unsigned alloc_buf)
    __CPROVER_requires(access_rec != NULL && access_rec->special_info != NULL && AR_INFO(access_rec)->aid == CSC.aid)
    __CPROVER_assigns(SF(AR_INFO(access_rec), offset), SF(AR_INFO(access_rec), skip_pos), CS_ALL)
    __CPROVER_ensures(__CPROVER_return_value == SUCCEED || __CPROVER_return_value == FAIL)
    __CPROVER_ensures(CS.ninit == __CPROVER_old(CS.ninit) + 1 && CS.ndec == __CPROVER_old(CS.ndec) &&
                      CS.nalloc == __CPROVER_old(CS.nalloc) + (alloc_buf != FALSE ? 1 : 0))
    __CPROVER_ensures(__CPROVER_return_value == SUCCEED ==>
                      (SF(AR_INFO(access_rec), offset) == 0 && SF(AR_INFO(access_rec), skip_pos) == 0 && CS.dpos == 0))
    __CPROVER_ensures(__CPROVER_return_value == FAIL ==>
                      (CS.failed == 1 && SF(AR_INFO(access_rec), offset) == __CPROVER_old(SF(AR_INFO(access_rec), offset))));

/* TRUSTED: a successful decode of `length` bytes advances offset and the decoded-stream position by `length`.
   The requires is the obligation of the seek loop: 1..TMP_BUF_SIZE bytes into a buffer that can take them. */
static int32 HCIcskphuff_decode(compinfo_t *info, int32 length, uint8 *buf)
    __CPROVER_requires(info != NULL && info->aid == CSC.aid && length >= 1 && length <= TMP_BUF_SIZE)
    __CPROVER_requires(__CPROVER_w_ok(buf, length))
    __CPROVER_requires(SF(info, offset) >= 0 && length <= 0x7fffffff - SF(info, offset))
    __CPROVER_assigns(SF(info, offset), SF(info, skip_pos), __CPROVER_object_upto(buf, length), CS_ALL)
    __CPROVER_ensures(__CPROVER_return_value == SUCCEED || __CPROVER_return_value == FAIL)
    __CPROVER_ensures(CS.ninit == __CPROVER_old(CS.ninit) && CS.nalloc == __CPROVER_old(CS.nalloc) && CS.ndec == __CPROVER_old(CS.ndec) + 1)
    __CPROVER_ensures(__CPROVER_return_value == SUCCEED ==>
                      (SF(info, offset) == __CPROVER_old(SF(info, offset)) + length && CS.dpos == __CPROVER_old(CS.dpos) + length))
    __CPROVER_ensures(__CPROVER_return_value == FAIL ==> CS.failed == 1);

int32 HCPcskphuff_seek(accrec_t *access_rec, int32 offset, int origin)
    __CPROVER_requires(access_rec != NULL && access_rec->special_info != NULL && AR_INFO(access_rec)->aid == CSC.aid)
    __CPROVER_requires(offset >= 0 && SF(AR_INFO(access_rec), offset) >= 0)
    /* A-SKPHUFF-2G: `offset + TMP_BUF_SIZE` is computed in int32 */
    __CPROVER_requires(SF(AR_INFO(access_rec), offset) <= 0x7fffffff - TMP_BUF_SIZE && offset <= 0x7fffffff - TMP_BUF_SIZE)
    __CPROVER_requires(CS.dpos == SF(AR_INFO(access_rec), offset))
    __CPROVER_assigns(SF(AR_INFO(access_rec), offset), SF(AR_INFO(access_rec), skip_pos), CS_ALL)
    __CPROVER_ensures(__CPROVER_return_value == SUCCEED || __CPROVER_return_value == FAIL)
    __CPROVER_ensures(__CPROVER_return_value == FAIL ==> CS.failed == 1)
    /* a seek to the current position is not a backward seek: nothing is touched */
    __CPROVER_ensures(offset == __CPROVER_old(SF(AR_INFO(access_rec), offset)) ==>
                      (__CPROVER_return_value == SUCCEED && CS.ninit == __CPROVER_old(CS.ninit) && CS.ndec == __CPROVER_old(CS.ndec) &&
                       CS.dpos == __CPROVER_old(CS.dpos) && SF(AR_INFO(access_rec), offset) == __CPROVER_old(SF(AR_INFO(access_rec), offset)) &&
                       SF(AR_INFO(access_rec), skip_pos) == __CPROVER_old(SF(AR_INFO(access_rec), skip_pos))))
    /* backward: re-initialised exactly once, without re-allocating the trees */
    __CPROVER_ensures(offset < __CPROVER_old(SF(AR_INFO(access_rec), offset)) ==> CS.ninit == __CPROVER_old(CS.ninit) + 1)
    __CPROVER_ensures(CS.nalloc == __CPROVER_old(CS.nalloc))
    /* forward (or current): no re-initialisation */
    __CPROVER_ensures(offset >= __CPROVER_old(SF(AR_INFO(access_rec), offset)) ==> CS.ninit == __CPROVER_old(CS.ninit))
    /* reads restart from 0 (backward) or continue (forward) and skip exactly to the target */
    __CPROVER_ensures(__CPROVER_return_value == SUCCEED ==> (SF(AR_INFO(access_rec), offset) == offset && CS.dpos == offset));

#ifdef H4V_NATIVE
#include "h4v_native_wrap.h"
#endif

H4V_DECL_ND(int32);
H4V_DECL_ND(int);

void
h_cskphuff_seek(void)
{
    H4V_ND(int32, g_aid_0);
    H4V_ND(int, g_ninit_0);
    H4V_ND(int, g_nalloc_0);
    H4V_ND(int, g_ndec_0);
    H4V_ASSUME(g_ninit_0 >= 0 && g_ninit_0 < 1000 && g_nalloc_0 >= 0 && g_nalloc_0 < 1000 && g_ndec_0 >= 0 && g_ndec_0 < 1000);
    CSC.aid   = g_aid_0;
    CS.ninit  = g_ninit_0;
    CS.nalloc = g_nalloc_0;
    CS.ndec   = g_ndec_0;
    CS.failed = 0;
    compinfo_t *info = malloc(sizeof(compinfo_t));
    accrec_t   *ar   = malloc(sizeof(accrec_t));
    H4V_ASSUME(info != NULL && ar != NULL);
    H4V_ND(int32, st_offset);
    H4V_ND(int, st_skip_pos);
    H4V_ND(int32, offset);
    H4V_ND(int, origin);
    info->aid           = CSC.aid;
    SF(info, offset)    = st_offset;
    SF(info, skip_pos)  = st_skip_pos;
    SF(info, skip_size) = 1;
    ar->special_info    = info;
    CS.dpos             = st_offset;
    int32 r = HCPcskphuff_seek(ar, offset, origin);
    H4V_COVER(r == SUCCEED && offset == st_offset, "seek to the current position");
    H4V_COVER(r == SUCCEED && offset < st_offset && offset > 0, "backward seek with skip");
    H4V_COVER(r == SUCCEED && (h4v_i64)offset > (h4v_i64)st_offset + 3 * 8192, "forward seek over several chunks");
    H4V_COVER(r == FAIL, "seek failure");
    H4V_CANARY("cskphuff_seek end");
}

"""C12 (and C20 where stated): dynarray.c and the in-memory directory side of hfiledd.c"""
from .core import ob

# ----------------------------------------------------------------------------- dynarray.c
DA = dict(unit="dynarray_u.c", file="hdf/src/dynarray.c", cex_unwind=22, trusted=["HEclear/HEpush (error stack)"])
ob("da_get", "C12", entry="h_da_get", enforce="DAget_elem", **DA)
ob("da_set", "C12", entry="h_da_set", enforce="DAset_elem", **DA)
ob("da_set_incr8", "C12", entry="h_da_set", enforce="DAset_elem", defines=["DA_INCR=8"], **DA)
ob("da_set_incr1", "C12", entry="h_da_set", enforce="DAset_elem", defines=["DA_INCR=1"], **DA)
ob("da_del", "C12", entry="h_da_del", enforce="DAdel_elem", **DA)
ob("da_size", "C12", entry="h_da_size", enforce="DAsize_array", **DA)
ob("da_create", "C12", entry="h_da_create", enforce="DAcreate_array", **DA)
ob("da_set_t1", "C12", entry="h_da_set", enforce="DAset_elem", defines=["DA_NOGROW"], **DA)
ob("da_set_t2", "C12", entry="h_da_set", enforce="DAset_elem", defines=["DA_INCR=8", "DA_MAXELEM=63", "DA_MAXN=64"], **DA)
ob("da_set_t3", "C12", entry="h_da_set", enforce="DAset_elem", defines=["DA_INCR=256", "DA_MAXELEM=511", "DA_MAXN=512"], **DA)

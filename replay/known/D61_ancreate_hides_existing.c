/* Build: gcc D61_ancreate_hides_existing.c -I/repo/hdf/src -I/repo/mfhdf/src -I/repo/_build -L/repo/_build/bin -lmfhdf -lhdf -lz -ljpeg -lm; run with LD_LIBRARY_PATH=/repo/_build/bin. Exit status 1 = defect present. */
/* D57: ANcreate as the first annotation call of a session hides the annotations already in the file */
#include "hdf.h"
#include <stdio.h>
int main(void)
{
    int32 f = Hopen("d57.hdf", DFACC_CREATE, 0), an = ANstart(f), a, nfl, nfd, ndl, ndd, seen;
    a = ANcreate(an, 1000, 1, AN_DATA_LABEL); ANwriteann(a, "first", 5); ANendaccess(a);
    a = ANcreate(an, 1000, 2, AN_DATA_LABEL); ANwriteann(a, "second", 6); ANendaccess(a);
    ANend(an); Hclose(f);
    f = Hopen("d57.hdf", DFACC_RDWR, 0); an = ANstart(f);
    a = ANcreate(an, 1000, 3, AN_DATA_LABEL); ANwriteann(a, "third", 5); ANendaccess(a);
    ANfileinfo(an, &nfl, &nfd, &ndl, &ndd);
    printf("data labels seen in the session that added the third: %d (expected 3)\n", (int)ndl); seen = ndl;
    ANend(an); Hclose(f);
    f = Hopen("d57.hdf", DFACC_READ, 0); an = ANstart(f);
    ANfileinfo(an, &nfl, &nfd, &ndl, &ndd);
    printf("data labels after reopen: %d\n", (int)ndl);
    ANend(an); Hclose(f);
    return ndl != 3 || seen != 3;
}

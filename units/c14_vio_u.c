/* Verification unit: hdf/src/vio.c -- C14 (read-only access): VSattach(..., "w"), VSdelete,
 * VSappendable on a file opened read-only.  Environment: stubs/c14_vsenv.h. */
#include "h4v.h"
#include "h4v_err.h"
#define C14_HAVE_HAatom_object
#define C14_HAVE_HAatom_group
#define C14_HAVE_HAregister_atom
#define C14_HAVE_HAremove_atom
#include "c14_common.h"
#include "c14_vsenv.h"
H4V_DECL_ND(char);
#include "vio.c"

/* ------------------------------------------------------------------ contracts */
/* VSattach for writing (new vdata: vsid == -1, or an existing one) on a read-only file: the call would have to create /
   rewrite a stored object, so it must report failure; nothing of the file may be touched */
int32 VSattach(HFILEID f, int32 vsid, const char *accesstype)
    __CPROVER_requires(C14_VS_ENV && f == C14_FID && accesstype != NULL && (accesstype[0] == 'w' || accesstype[0] == 'W'))
    __CPROVER_requires(vsid == -1 || g_w->nattach == 0) /* an attached vdata cannot be attached for writing anyway */
    __CPROVER_assigns(C14_VS_FRAME, vdata_free_list, vsinstance_free_list)
    __CPROVER_ensures(__CPROVER_return_value == FAIL)
    __CPROVER_ensures(g_mut_n == 0);

/* VSdelete: must be refused before the vdata leaves the table or the DD list */
int32 VSdelete(int32 f, int32 vsid)
    __CPROVER_requires(C14_VS_ENV && f == C14_FID)
    __CPROVER_assigns(C14_VS_FRAME, vdata_free_list, vsinstance_free_list)
    __CPROVER_ensures(__CPROVER_return_value == FAIL)
    __CPROVER_ensures(g_mut_n == 0 && g_tree_rem_n == 0);

/* VSappendable: no mutation; if it had to ask for write access and was refused it reports failure.  A vdata attached "r"
   always has an open read element (aid != 0); aid == 0 is the state in which VSattach(f, -1, "w") calls it. */
int32 VSappendable(int32 vkey, int32 blk)
    __CPROVER_requires(C14_VS_ENV && vkey == C14_VSKEY && g_vs->f == C14_FID)
    __CPROVER_requires((g_vs->access == 'r' && g_vs->aid != 0) || (g_vs->access == 'w' && g_vs->aid == 0))
    __CPROVER_assigns(C14_VS_FRAME)
    __CPROVER_ensures(g_mut_n == 0)
    __CPROVER_ensures(g_denied_n != 0 ==> __CPROVER_return_value == FAIL);

#ifdef H4V_NATIVE
#include "h4v_native_wrap.h"
#endif

/* ------------------------------------------------------------------ harnesses */
static void
mk_vio(void)
{
    c14_mk_vsenv();
    vdata_free_list      = NULL;
    vsinstance_free_list = NULL;
    Vhbuf                = NULL;
    Vhbufsize            = 0;
}

void
h_c14_VSattach_w(void)
{
    mk_vio();
    H4V_ND(int32, vsid);
    H4V_ND(char, acc0);
    H4V_ASSUME(acc0 == 'w' || acc0 == 'W');
    H4V_ASSUME(vsid == -1 || g_w->nattach == 0);
    char acc[2];
    acc[0] = acc0;
    acc[1] = '\0';
    int32 r = VSattach(C14_FID, vsid, acc);
    H4V_COVER(r == FAIL && vsid == g_w->key, "VSattach existing vdata for writing refused");
    H4V_CANARY("VSattach end");
}

void
h_c14_VSdelete(void)
{
    mk_vio();
    H4V_ND(int32, vsid);
    int32 r = VSdelete(C14_FID, vsid);
    H4V_COVER(r == FAIL, "VSdelete refused");
    H4V_CANARY("VSdelete end");
}

void
h_c14_VSappendable(void)
{
    mk_vio();
    H4V_ND(int32, blk);
    H4V_ND(int, fresh_w);
    if (fresh_w) { /* the state VSattach(f, -1, "w") builds before it calls VSappendable */
        g_vs->access = 'w';
        g_vs->aid    = 0;
    }
    else
        H4V_ASSUME(g_vs->aid != 0);
    int32 r = VSappendable(C14_VSKEY, blk);
    H4V_COVER(r == SUCCEED && g_denied_n == 0, "VSappendable on an open read element");
    H4V_CANARY("VSappendable end");
}

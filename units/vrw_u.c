/* Verification unit: hdf/src/vrw.c (C07 record addressing and gather/scatter; C20 offset product) */
#include "h4v.h"
#include "h4v_err.h"
#include <string.h>
#include "vg_priv.h"

/* ---------------- ghost environment ---------------- */
vsinstance_t *g_w;
VDATA        *g_vs;
int           g_grp, g_inst_null;
/* Hseek log */
int32 g_seek_n, g_seek_aid, g_seek_off, g_seek_origin, g_seek_ret;
/* ghost record store behind Hread/Hwrite: the data element of the vdata */
#ifndef STORE_CAP
#define STORE_CAP 32
#endif
uint8 g_store[STORE_CAP];
int32 g_store_len; /* bytes in the element */
int32 g_pos;       /* position of the access element */
int32 g_io_n;      /* number of Hread/Hwrite calls */
int32 g_io_short;  /* make the next transfer fail */
int32 g_exist;     /* answer of vexistvs */
/* ghost user-buffer position for "nothing outside nelt*uvsize is written" */
int32 g_k;

/* ---------------- stubs ---------------- */
group_t
HAatom_group(atom_t atm)
{
    return (group_t)g_grp;
}
void *
HAatom_object(atom_t atm)
{
    return g_inst_null ? NULL : (void *)g_w;
}
int
Hseek(int32 access_id, int32 offset, int origin)
{
    g_seek_n++;
    g_seek_aid    = access_id;
    g_seek_off    = offset;
    g_seek_origin = origin;
    if (g_seek_ret != FAIL)
        g_pos = offset;
    return g_seek_ret;
}
int32
vexistvs(HFILEID f, uint16 vsid)
{
    return g_exist;
}
int
VSPhshutdown(void)
{
    return SUCCEED;
}
/* Hread/Hwrite over the ghost store: the caller must pass a positive length and a buffer that
   holds it (checked); transfers are whole or fail */
int32
Hread(int32 access_id, int32 length, void *data)
{
    g_io_n++;
    H4V_CHECK(access_id == g_vs->aid, "Hread on the vdata's access id");
    H4V_CHECK(length > 0, "Hread sub-request has positive length");
    if (g_io_short || length <= 0 || g_pos < 0 || g_pos + length > g_store_len)
        return FAIL;
    memcpy(data, g_store + g_pos, (size_t)length);
    g_pos += length;
    return length;
}
int32
Hwrite(int32 access_id, int32 length, const void *data)
{
    g_io_n++;
    H4V_CHECK(access_id == g_vs->aid, "Hwrite on the vdata's access id");
    H4V_CHECK(length > 0, "Hwrite sub-request has positive length");
    if (g_io_short || length <= 0 || g_pos < 0 || g_pos + length > STORE_CAP)
        return FAIL;
    memcpy(g_store + g_pos, data, (size_t)length);
    g_pos += length;
    if (g_pos > g_store_len)
        g_store_len = g_pos;
    return length;
}
int
Hinquire(int32 access_id, int32 *pfile_id, uint16 *ptag, uint16 *pref, int32 *plength, int32 *poffset, int32 *pposn,
         int16 *paccess, int16 *pspecial)
{
    if (pposn != NULL)
        *pposn = g_pos;
    return SUCCEED;
}
/* DFKconvert (dfconv.c, C06): trusted stand-in -- strided byte copy of num_elm elements of the
   type's size (1-byte and 2-byte types only in the bounded runs), with 16-bit elements byte-swapped
   the way the real DFKsb2b does on a little-endian host.  Strides 0,0 mean contiguous. */
int32 g_conv_bad; /* set if the caller passes a non-positive count */
int32
DFKconvert(void *source, void *dest, int32 ntype, int32 num_elm, int16 acc_mode, int32 source_stride, int32 dest_stride)
{
    uint8 *s = (uint8 *)source, *d = (uint8 *)dest;
    int    sz = (ntype == DFNT_INT16 || ntype == DFNT_UINT16) ? 2 : 1;
    if (num_elm <= 0) {
        g_conv_bad = 1;
        return FAIL;
    }
    if (source_stride == 0 && dest_stride == 0)
        source_stride = dest_stride = sz;
    for (int32 e = 0; e < num_elm; e++) {
        if (sz == 1)
            d[0] = s[0];
        else {
            uint8 b0 = s[0], b1 = s[1];
            d[0] = b1;
            d[1] = b0;
        }
        s += source_stride;
        d += dest_stride;
    }
    return 0;
}

#include "vrw.c"

/* ---------------- contracts ---------------- */
#define KEY_BAD (g_grp != VSIDGROUP || g_inst_null || g_w->vs == NULL)
#define ENV_WF  (g_w != NULL && g_vs != NULL && (g_w->vs == NULL || g_w->vs == g_vs))
#define SEEK_REFUSED (KEY_BAD || eltpos < 0 || g_vs->wlist.n <= 0)

#ifndef VSSEEK_W
#define VSSEEK_W 1
#endif
int32 VSseek(int32 vkey, int32 eltpos)
    __CPROVER_requires(ENV_WF && g_seek_n == 0 && (g_seek_ret == SUCCEED || g_seek_ret == FAIL))
    __CPROVER_assigns(g_seek_n, g_seek_aid, g_seek_off, g_seek_origin, g_pos)
    /* negative position, bad key or a vdata without fields: FAIL, and no seek is issued */
    __CPROVER_ensures(SEEK_REFUSED ==> (__CPROVER_return_value == FAIL && g_seek_n == 0))
    /* otherwise exactly one seek, from the start, on the vdata's element ... */
    __CPROVER_ensures(!SEEK_REFUSED ==> (g_seek_n == 1 && g_seek_aid == g_vs->aid && g_seek_origin == DF_START))
    /* ... to byte eltpos*ivsize, the true product, whenever that is a representable offset.  One record
       size W per run (symbolic x symbolic products are not tractable): W = VSSEEK_W */
    __CPROVER_ensures((!SEEK_REFUSED && g_seek_n == 1 && g_vs->wlist.ivsize == VSSEEK_W &&
                       (long long)eltpos * (long long)VSSEEK_W <= 2147483647LL) ==>
                      (long long)g_seek_off == (long long)eltpos * (long long)VSSEEK_W)
    /* a record beyond the 2^31-1 byte limit cannot be addressed: refused */
    __CPROVER_ensures((!SEEK_REFUSED && (long long)eltpos * (long long)g_vs->wlist.ivsize > 2147483647LL) ==>
                      __CPROVER_return_value == FAIL)
    __CPROVER_ensures(!SEEK_REFUSED ==> __CPROVER_return_value == (g_seek_ret == FAIL ? FAIL : eltpos));

#ifdef H4V_NATIVE
#include "h4v_native_wrap.h"
#endif

/* ---------------- harnesses ---------------- */
H4V_DECL_ND(int);
H4V_DECL_ND(int16);
H4V_DECL_ND(uint16);
H4V_DECL_ND(int32);
H4V_DECL_ND(uint8);

static VDATA *
mk_env(void)
{
    H4V_ND(int, grp);
    H4V_ND(int, inst_null);
    H4V_ND(int, vs_null);
    g_grp       = grp;
    g_inst_null = inst_null;
    g_w         = malloc(sizeof(vsinstance_t));
    g_vs        = malloc(sizeof(VDATA));
    H4V_ASSUME(g_w != NULL && g_vs != NULL);
    memset(g_vs, 0, sizeof(VDATA));
    g_w->vs = vs_null ? NULL : g_vs;
    return g_vs;
}

void
h_VSseek(void)
{
    VDATA *vs = mk_env();
    H4V_ND(int32, eltpos);
    H4V_ND(int32, nfields);
    H4V_ND(uint16, ivsize);
    H4V_ND(int32, aid);
    H4V_ND(int32, seek_ret);
#ifdef VSSEEK_FIX
    H4V_ASSUME(ivsize == VSSEEK_W);
#endif
    H4V_ASSUME(nfields >= 0 && nfields <= VSFIELDMAX);
    H4V_ASSUME(seek_ret == SUCCEED || seek_ret == FAIL);
    vs->wlist.n      = nfields;
    vs->wlist.ivsize = ivsize;
    vs->aid          = aid;
    g_seek_n         = 0;
    g_seek_ret       = seek_ret;
    g_pos            = 0;
    int32 r          = VSseek(7, eltpos);
    H4V_COVER(r == eltpos && eltpos > 0, "VSseek succeeds");
    H4V_COVER(r == FAIL && eltpos == -2, "VSseek refuses a negative position");
    H4V_COVER(r == FAIL && nfields == 0 && eltpos > 0, "VSseek refuses a vdata without fields");
    H4V_CANARY("VSseek end");
}

/* OBSERVATION (not found by a check, not repaired): rewriting an old-style DFTAG_RLE raster through GRwriteimage reports SUCCEED but the old pixels are read back after reopening.  Build: gcc OBS_rle_raster_rewrite_lost.c -I/repo/hdf/src -I/repo/_build -L/repo/_build/bin -lhdf -lz -ljpeg -lm; run with LD_LIBRARY_PATH=/repo/_build/bin. */
#include "hdf.h"
#include <stdio.h>
#include <string.h>
int main(void)
{
    static uint8 img1[64 * 64], img2[64 * 64], back[64 * 64];
    int32 f, gr, ri, start[2] = {0, 0}, count[2] = {64, 64}, i, bad = 0; intn rc;
    memset(img1, 5, sizeof img1);                                   /* compresses very well */
    for (i = 0; i < 64 * 64; i++) img2[i] = (uint8)(i * 7 + i / 64); /* hardly compresses */
    DFR8restart();
    DFR8putimage("o2.hdf", img1, 64, 64, COMP_RLE);
    f = Hopen("o2.hdf", DFACC_RDWR, 0); gr = GRstart(f); ri = GRselect(gr, 0);
    rc = GRwriteimage(ri, start, NULL, count, img2);
    printf("GRwriteimage -> %d\n", (int)rc);
    GRendaccess(ri); GRend(gr); Hclose(f);
    f = Hopen("o2.hdf", DFACC_READ, 0); gr = GRstart(f); ri = GRselect(gr, 0);
    GRreadimage(ri, start, NULL, count, back);
    for (i = 0; i < 64 * 64; i++) if (back[i] != img2[i]) bad++;
    printf("%d of 4096 pixels differ from what was written last (first pixel %d, written %d)\n", (int)bad, back[0], img2[0]);
    GRendaccess(ri); GRend(gr); Hclose(f);
    return bad != 0;
}

/* D14 (C11): ANreadann of a data label with maxlen == 1 (or a description with maxlen == 0): the length to read clamps to 0
   and Hread(aid, 0, buf) means "read to the end of the element", so the whole text lands in the 1-byte buffer.
   Build: gcc -fsanitize=address -g D14_anreadann_maxlen1.c -I/repo/hdf/src -I/repo/_build -L/repo/_build/bin -lhdf -Wl,-rpath,/repo/_build/bin
   Before the fix: ASan heap-buffer-overflow in fread (or the guard bytes are clobbered). After: returns SUCCEED, buffer holds "". */
#include "hdf.h"
#include <stdio.h>
#include <stdlib.h>
#include <string.h>
int main(void)
{
    int32 fid = Hopen("d14.hdf", DFACC_CREATE, 0);
    int32 an  = ANstart(fid);
    int32 ann = ANcreate(an, 1000, 7, AN_DATA_LABEL);
    ANwriteann(ann, "a label of some length", 22);
    ANendaccess(ann);
    ANend(an); Hclose(fid);
    fid = Hopen("d14.hdf", DFACC_READ, 0);
    an  = ANstart(fid);
    int32 nfl, nfd, ndl, ndd;
    ANfileinfo(an, &nfl, &nfd, &ndl, &ndd);
    ann = ANselect(an, 0, AN_DATA_LABEL);
    char *guard = malloc(8);
    memset(guard, 'G', 8);
    int r = ANreadann(ann, guard, 1); /* room for the terminator only */
    printf("ANreadann(maxlen=1) = %d, buffer: %.8s\n", r, guard);
    int bad = memcmp(guard + 1, "GGGGGGG", 7) != 0;
    printf(bad ? "FAIL: bytes beyond maxlen were written\n" : "PASS\n");
    return bad;
}

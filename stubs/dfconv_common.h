/* Shared vocabulary of the C06 units dfconv_swap_u.c (dfkswap.c) and dfconv_nat_u.c (dfknat.c):
 * ghost state, byte predicates, the common domain of the DFK?b?b kernels and the harness body.
 *
 * Obligation parameters (obligations/c06_dfconv.py, passed as -D):
 *   SS, DS    constant source/destination stride of the run (0,0 = contiguous path); when they are
 *             not defined the strides are symbolic in [W, STRMAX]
 *   NMAX      cap on num_elm (all runs that execute loops are bounded stand-ins: see the note on
 *             loop contracts in the obligations file)
 *   INPLACE   0 / 1 fixes out-of-place / in-place; undefined: both
 */
#ifndef DFCONV_COMMON_H
#define DFCONV_COMMON_H
#include "h4v.h"
#include "hdf_priv.h"

#ifdef H4_WORDS_BIGENDIAN
#error "C06 contracts are written for the little-endian host configuration"
#endif

/* ---- ghost state --------------------------------------------------------------------------
 * g_k   ghost element index: a proof for arbitrary g_k < num_elm is a proof for all elements
 * g_s   the W source bytes of element g_k as they were BEFORE the call (snapshot taken by the
 *       harness, tied to the buffer by `requires`; needed because in place dest == source)
 * g_o   ghost byte offset inside the destination extent, g_ov its value before the call
 *       (bytes in the gaps between strided elements must keep their value)               */
uint32 g_k;
uint8  g_s[8];
uint32 g_o;
uint8  g_ov;

#define B(p) ((uint8 *)(p))
#define EQ2(p, o, a, b) (B(p)[(o)] == (a) && B(p)[(o) + 1] == (b))
#define EQ4(p, o, a, b, c, e) (EQ2(p, o, a, b) && EQ2(p, (o) + 2, c, e))
/* element at byte offset o of p holds the snapshot (SNAP) / the byte-reversed snapshot (SWAP) */
#define SNAP_1(p, o) (B(p)[(o)] == g_s[0])
#define SNAP_2(p, o) EQ2(p, o, g_s[0], g_s[1])
#define SWAP_2(p, o) EQ2(p, o, g_s[1], g_s[0])
#define SNAP_4(p, o) EQ4(p, o, g_s[0], g_s[1], g_s[2], g_s[3])
#define SWAP_4(p, o) EQ4(p, o, g_s[3], g_s[2], g_s[1], g_s[0])
#define SNAP_8(p, o) (EQ4(p, o, g_s[0], g_s[1], g_s[2], g_s[3]) && EQ4(p, (o) + 4, g_s[4], g_s[5], g_s[6], g_s[7]))
#define SWAP_8(p, o) (EQ4(p, o, g_s[7], g_s[6], g_s[5], g_s[4]) && EQ4(p, (o) + 4, g_s[3], g_s[2], g_s[1], g_s[0]))

/* effective strides: stride 0/0 means "contiguous", i.e. stride W */
#define CONTIG (source_stride == 0 && dest_stride == 0)
#define ESS(W) (CONTIG ? (size_t)(W) : (size_t)source_stride)
#define EDS(W) (CONTIG ? (size_t)(W) : (size_t)dest_stride)
/* number of bytes spanned by num_elm (>= 1) elements */
#define SEXT(W) (ESS(W) * (size_t)(num_elm - 1) + (W))
#define DEXT(W) (EDS(W) * (size_t)(num_elm - 1) + (W))

/* Domain of the kernels.  No elements: anything (the call must fail before touching memory).
   One element: any strides.  More: the callers (DFKconvert from SD/GR with 0/0, the Vdata layer
   with record sizes) pass either 0/0 or two strides that are at least the element width; in
   place only with equal strides (an in-place expansion would overwrite elements not yet read). */
#define DFK_DOMAIN(W)                                                                                \
    (num_elm == 0 || (s != NULL && d != NULL &&                                                      \
                      (num_elm == 1 || ((CONTIG || (source_stride >= (W) && dest_stride >= (W))) &&  \
                                        (s != d || source_stride == dest_stride)))))
/* ghosts are in range (only meaningful when there is at least one element) */
#define DFK_GHOSTS(W) (num_elm == 0 || (g_k < num_elm && g_o < DEXT(W)))
/* gap bytes exist only between two or more strided elements */
#define DFK_IN_GAP(W) (num_elm >= 2 && g_o % (uint32)EDS(W) >= (W))

/* ---------------- harness vocabulary ---------------- */
#define SNAPSHOT_1(p, o) (g_s[0] = (p)[(o)])
#define SNAPSHOT_2(p, o) (g_s[0] = (p)[(o)], g_s[1] = (p)[(o) + 1])
#define SNAPSHOT_4(p, o) (SNAPSHOT_2(p, o), g_s[2] = (p)[(o) + 2], g_s[3] = (p)[(o) + 3])
#define SNAPSHOT_8(p, o)                                                                             \
    (SNAPSHOT_4(p, o), g_s[4] = (p)[(o) + 4], g_s[5] = (p)[(o) + 5], g_s[6] = (p)[(o) + 6], g_s[7] = (p)[(o) + 7])

#ifndef NMAX
#define NMAX 8
#endif
#if defined(H4V_CEX) || defined(H4V_NATIVE)
/* counterexample mode enumerates buffer contents: keep the buffers small; the native replay uses
   the same caps so that the named buffer bytes of a trace land at the same place */
#undef STRMAX
#define STRMAX 16
#undef NMAX
#define NMAX 3
#endif
#ifndef STRMAX
#define STRMAX 65535 /* largest symbolic stride */
#endif

#if defined(SS) && defined(DS)
#define GET_STRIDES(W) uint32 source_stride = (SS), dest_stride = (DS)
#define MAXSTR ((SS) > (DS) ? ((SS) > 8 ? (SS) : 8) : ((DS) > 8 ? (DS) : 8))
#else
#define GET_STRIDES(W)                                                                               \
    H4V_ND(uint32, source_stride);                                                                   \
    H4V_ND(uint32, dest_stride);                                                                     \
    H4V_ASSUME(source_stride >= (W) && source_stride <= STRMAX && dest_stride >= (W) && dest_stride <= STRMAX)
#define MAXSTR STRMAX
#endif
#ifdef INPLACE
#define GET_INPLACE int in_place = (INPLACE)
#if INPLACE
#define COVER_OUT(c, m) ((void)0)
#define COVER_IN(c, m) H4V_COVER(c, m)
#else
#define COVER_OUT(c, m) H4V_COVER(c, m)
#define COVER_IN(c, m) ((void)0)
#endif
#else
#define GET_INPLACE H4V_ND(int, in_place)
#define COVER_OUT(c, m) H4V_COVER(c, m)
#define COVER_IN(c, m) H4V_COVER(c, m)
#endif
/* constant buffer size that holds NMAX elements at the largest stride of the run */
#define FIXB ((size_t)MAXSTR * (NMAX - 1) + 8)

#ifdef TIGHT
/* allocations of exactly the spanned size (symbolic size: only affordable for very few elements) */
#define DFK_BUFFERS                                                                                  \
    H4V_ND_BUF(uint8, src, sbytes, FIXB);                                                            \
    H4V_ND_BUF(uint8, dst, dbytes, FIXB)
#else
#define DFK_BUFFERS                                                                                  \
    H4V_ND_BUF(uint8, sbase, FIXB, FIXB);                                                            \
    H4V_ND_BUF(uint8, dbase, FIXB, FIXB);                                                            \
    uint8 *src = sbase + (FIXB - sbytes);                                                            \
    uint8 *dst = dbase + (FIXB - dbytes)
#endif

/* Environment for one call of FN (width W).  The buffers are constant-size allocations (symbolic
   allocation sizes are very slow once loops are unwound); the element range is END-ALIGNED in
   them, so that any access beyond the last byte spanned by the strides is out of bounds for every
   num_elm, not only for num_elm == NMAX. */
#define DFK_HARNESS(FN, W)                                                                           \
    H4V_ND(uint32, num_elm);                                                                         \
    GET_STRIDES(W);                                                                                  \
    GET_INPLACE;                                                                                     \
    H4V_ASSUME(num_elm <= NMAX);                                                                     \
    H4V_ASSUME(!in_place || source_stride == dest_stride);                                           \
    size_t sbytes = num_elm == 0 ? 1 : SEXT(W);                                                      \
    size_t dbytes = num_elm == 0 ? 1 : DEXT(W);                                                      \
    DFK_BUFFERS;                                                                                     \
    uint8 *d   = in_place ? src : dst;                                                               \
    H4V_HAVOC(uint32, g_k);                                                                          \
    H4V_HAVOC(uint32, g_o);                                                                          \
    if (num_elm >= 1) {                                                                              \
        H4V_ASSUME(g_k < num_elm && g_o < dbytes);                                                   \
        SNAPSHOT_##W(src, ESS(W) * g_k);                                                             \
        g_ov = d[g_o];                                                                               \
    }                                                                                                \
    int r = FN(src, d, num_elm, source_stride, dest_stride);                                         \
    COVER_OUT(r == SUCCEED && !in_place, #FN " out-of-place path");                                  \
    COVER_IN(r == SUCCEED && in_place, #FN " in-place path");                                        \
    H4V_COVER(r == SUCCEED && num_elm >= 2 && g_k == num_elm - 1, #FN " last element");              \
    H4V_COVER(r == FAIL, #FN " no elements");                                                        \
    H4V_CANARY(#FN " end")

/* No elements: FAIL for every combination of pointers (NULL or not) and strides, nothing touched. */
#define DFK_ZERO_HARNESS(FN, W)                                                                      \
    H4V_ND(uint32, source_stride);                                                                   \
    H4V_ND(uint32, dest_stride);                                                                     \
    H4V_ND(int, snull);                                                                              \
    H4V_ND(int, dnull);                                                                              \
    H4V_ND(int, in_place);                                                                           \
    H4V_ND_BUF(uint8, src, 1, 1);                                                                    \
    H4V_ND_BUF(uint8, dst, 1, 1);                                                                    \
    H4V_HAVOC(uint32, g_k);                                                                          \
    H4V_HAVOC(uint32, g_o);                                                                          \
    uint8 *s = snull ? NULL : src;                                                                   \
    uint8 *d = dnull ? NULL : in_place ? s : dst;                                                    \
    int    r = FN(s, d, 0, source_stride, dest_stride);                                              \
    H4V_COVER(r == FAIL && s == NULL && d == NULL, #FN " zero elements, NULL buffers");              \
    H4V_COVER(r == FAIL && s != NULL && s == d, #FN " zero elements, in place");                     \
    H4V_CANARY(#FN " zero end")

/* One element: every pair of strides (they are irrelevant), in place or between buffers, buffers
   of exactly W bytes.  The loops run once: complete for its statement (all 2^(8W) bit patterns). */
#define DFK_ONE_HARNESS(FN, W)                                                                       \
    H4V_ND(uint32, source_stride);                                                                   \
    H4V_ND(uint32, dest_stride);                                                                     \
    H4V_ND(int, in_place);                                                                           \
    uint32 num_elm = 1;                                                                              \
    H4V_ND_BUF(uint8, src, W, 8);                                                                    \
    H4V_ND_BUF(uint8, dst, W, 8);                                                                    \
    uint8 *d = in_place ? src : dst;                                                                 \
    H4V_HAVOC(uint32, g_k);                                                                          \
    H4V_HAVOC(uint32, g_o);                                                                          \
    H4V_ASSUME(g_k == 0 && g_o < (W));                                                               \
    SNAPSHOT_##W(src, 0);                                                                            \
    g_ov  = d[g_o];                                                                                  \
    int r = FN(src, d, num_elm, source_stride, dest_stride);                                         \
    H4V_COVER(r == SUCCEED && !in_place && source_stride == 0 && dest_stride == 0, #FN " one, contiguous");  \
    H4V_COVER(r == SUCCEED && in_place && source_stride == 1 && dest_stride == 7, #FN " one, odd strides");  \
    H4V_CANARY(#FN " one end")

/* DFKnb?b, fast path in place (strides 0/0 or W/W, source == dest): nothing to do, for EVERY
   num_elm (no loop and no memcpy is reached; the buffer has exactly the spanned size). */
#define DFK_NB_INPLACE_HARNESS(FN, W)                                                                \
    H4V_ND(uint32, num_elm);                                                                         \
    H4V_ND(int, explicit_stride);                                                                    \
    uint32 source_stride = explicit_stride ? (W) : 0, dest_stride = source_stride;                   \
    size_t sbytes        = num_elm == 0 ? 1 : (size_t)(W) * num_elm;                                 \
    H4V_ND_BUF(uint8, src, sbytes, 32);                                                              \
    H4V_HAVOC(uint32, g_k);                                                                          \
    H4V_HAVOC(uint32, g_o);                                                                          \
    if (num_elm >= 1) {                                                                              \
        H4V_ASSUME(g_k < num_elm && g_o < sbytes);                                                   \
        SNAPSHOT_##W(src, (size_t)(W) * g_k);                                                        \
        g_ov = src[g_o];                                                                             \
    }                                                                                                \
    int r = FN(src, src, num_elm, source_stride, dest_stride);                                       \
    H4V_COVER(r == SUCCEED && num_elm > 1000000 && explicit_stride, #FN " in place, many elements"); \
    H4V_COVER(r == SUCCEED && !explicit_stride, #FN " in place, 0/0");                               \
    H4V_CANARY(#FN " in-place end")

#endif

"""C04: storage layout does not change data (hchunks.c index arithmetic, mcache.c page cache)"""
from .core import ob, prop

HC = dict(unit="hchunks_u.c", file="hdf/src/hchunks.c", objbits=10)

# bounded stand-ins: the whole seek <-> chunk <-> array chain on the real static helpers
ob("chunk_roundtrip_q", "C04", entry="h_chunk_roundtrip", mode="bounded",
   bound="rank<=2, dim_length<=8, chunk_length 1..8 (any, incl. non-dividing and > dim), nt_size in {1,2,4,8}",
   defines=["MAXR=2", "MAXE=8"], unwind=3, cex_unwind=3, timeout=300, **HC)
ob("chunk_num_injective_q", "C04", entry="h_chunk_num_injective", mode="bounded",
   bound="rank<=2, dim_length<=8, chunk_length 1..8, nt_size in {1,2,4,8}",
   defines=["MAXR=2", "MAXE=8"], unwind=3, cex_unwind=3, timeout=300, **HC)

ob("chunk_roundtrip_r3", "C04", entry="h_chunk_roundtrip", mode="bounded", tier="thorough",
   bound="rank<=3, dim_length<=5, chunk_length 1..5, nt_size in {1,2,4,8}",
   defines=["MAXR=3", "MAXE=5"], unwind=4, cex_unwind=4, timeout=300, **HC)
ob("chunk_roundtrip_t", "C04", entry="h_chunk_roundtrip", mode="bounded", tier="thorough",
   bound="rank<=3, dim_length<=12, chunk_length 1..12 (any, incl. non-dividing and > dim), nt_size in {1,2,4,8}",
   defines=["MAXR=3", "MAXE=12"], unwind=4, cex_unwind=4, timeout=3000, **HC)
ob("chunk_num_injective_t", "C04", entry="h_chunk_num_injective", mode="bounded", tier="thorough",
   bound="rank<=3, dim_length<=12, chunk_length 1..12, nt_size in {1,2,4,8}",
   defines=["MAXR=3", "MAXE=12"], unwind=4, cex_unwind=4, timeout=3000, **HC)

# proved: loop-free, one run per number-type size (keeps the arithmetic linear)
for nt in (1, 2, 4, 8):
    ob(f"chunk_for_chunk_nt{nt}", "C04", entry="h_chunk_for_chunk", enforce="calculate_chunk_for_chunk",
       defines=[f"NT={nt}"], overflow=True, **HC)

# proved for every rank 1..1024 with injected loop contracts: memory safety, frame, and for
# compute_chunk_to_array the value of the ghost dimension
HL = dict(loops=True, nloops=1, cex_unwind=5, timeout=120, flags=["--no-signed-overflow-check"], **HC)
ob("chunk_to_array", "C04", entry="h_chunk_to_array", enforce="compute_chunk_to_array", loopcls="P", **HL)
ob("chunk_num_safe", "C04", entry="h_chunk_num", enforce="calculate_chunk_num", loopcls="A", **HL)
ob("seek_in_chunk_safe", "C04", entry="h_seek_in_chunk", enforce="calculate_seek_in_chunk", loopcls="A", **HL)
ob("array_to_seek_safe", "C04", entry="h_array_to_seek", enforce="compute_array_to_seek", loopcls="A", **HL)
ob("seek_pos_chunk", "C04", entry="h_seek_pos_chunk", enforce="update_seek_pos_chunk", loopcls="P", **HL)
ob("chunk_indices_seek", "C04", entry="h_chunk_indices_seek", enforce="update_chunk_indices_seek", loopcls="P", **HL)

# ----------------------------------------------------------------------------- mcache.c
# Bounded protocol runs on heaps built by the real mcache_open/mcache_get.  Every schedule of 3
# operations (page x {get+hold, put clean, modify+put dirty}) runs on a fresh cache with symbolic
# page contents; schedules are enumerated concretely (a symbolic schedule merges queue pointers:
# no answer), split over obligations by range.
MC = dict(unit="mcache_u.c", file="hdf/src/mcache.c", mode="bounded", objbits=12, unwind=140, cex_unwind=140,
          flags=["--max-field-sensitivity-array-size", "300"], timeout=300,
          trusted=["st_pgin/st_pgout: page callbacks modelled as a byte store per page number",
                   "h4v_malloc/h4v_calloc: allocation succeeds unless fault injection (k-th allocation fails) is on"])


def mcache_sched(tag, cache, npg, chunk, tier):
    total = (3 * npg) ** 3
    for lo in range(0, total, chunk):
        hi = min(total, lo + chunk)
        ob(f"mcache_protocol_{tag}_{lo}", "C04", entry="h_mcache_protocol", tier=tier,
           bound=f"{npg} pages, cache size {cache}, schedules {lo}..{hi - 1} of the {total} 3-step get/put schedules, "
                 "page size 8 bytes, allocation and callbacks succeed",
           defines=[f"MAXCACHE={cache}", f"NPG={npg}", "NSTEPS=3", f"SCHED_LO={lo}", f"SCHED_HI={hi}"],
           **dict(MC, timeout=300 if tier == "quick" else 1200))


mcache_sched("c1p2", 1, 2, 27, "quick")
mcache_sched("c2p3", 2, 3, 81, "thorough")
mcache_sched("c1p3", 1, 3, 81, "thorough")
ob("mcache_close", "C04", entry="h_mcache_protocol",
   bound="2 pages, cache size 1, schedules 100..117, then mcache_close",
   defines=["MAXCACHE=1", "NPG=2", "NSTEPS=3", "SCHED_LO=100", "SCHED_HI=118", "WITH_CLOSE"], **MC)
ob("mcache_evict_fail", ["C04", "C16"], entry="h_mcache_evict_fail",
   bound="2 pages, cache size 1, pgout fails once during eviction", defines=["MAXCACHE=1", "NPG=2"], **MC)
# mcache_open_oom<k> (allocation number k inside mcache_open fails) is NOT registered: no property quantifies over allocation
# failure (A-ALLOC).  The harness h_mcache_open_oom stays in the unit; it shows mcache_open's error cleanup walking mp->lhqh[]
# after free(mp) (mcache.c:246-254) -- a side observation in DESIGN.md section 10.5, not a finding.

prop("C04",
     residual="equality of reads across layouts (a relation between two complete stacks); HMCPread/HMCPwrite loops, "
              "chunk table Vdata, compression under chunks, SD/GR layout setters",
     assumptions=[])

/* Verification unit: hdf/src/mfgr.c (C09: raster interlace permutation) -- whole file */
#include "h4v.h"
#include "h4v_err.h"
#include <string.h>

/* trusted stub: size in bytes of one component of the (native) number type.  The harness picks
   g_csize; GRIil_convert only uses the value (twice, same argument). */
static int g_csize;
int
DFKNTsize(int32 number_type)
{
    (void)number_type;
    return g_csize;
}

/* ---- "proved" variant: xdim, ncomp and the component size are constants of the run (GRP_XD, GRP_NC,
   GRP_CS), ydim is symbolic (1..GRP_YMAX); the row loop of GRIil_convert runs under the loop contract
   of loops/mfgr.loops, the inner loops (constant trip counts) are unwound.  The macros below are
   the text of that loop invariant. ---- */
#ifndef GRP_NC
#define GRP_NC 2
#endif
#ifndef GRP_CS
#define GRP_CS 1
#endif
#ifndef GRP_XD
#define GRP_XD 2
#endif
#define GRP_YMAX 1000000
/* c * ydim without a symbolic product (c < 3) */
#define GRP_CY(c, yd) ((c) == 0 ? 0L : (c) == 1 ? (long)(yd) : 2L * (long)(yd))
#define GRP_IDX(il, x, y, c, yd)                                                                     \
    ((il) == MFGR_INTERLACE_PIXEL  ? (((long)(y)*GRP_XD + (x)) * GRP_NC + (c))                         \
     : (il) == MFGR_INTERLACE_LINE ? (((long)(y)*GRP_NC + (c)) * GRP_XD + (x))                         \
                                   : ((GRP_CY(c, yd) + (long)(y)) * GRP_XD + (x)))
/* byte offset of the component-k cursor at the start of row i: base + i * bytes per row step */
#define GRP_BASE(il, k, yd)                                                                          \
    ((il) == MFGR_INTERLACE_PIXEL ? (long)(k)*GRP_CS : (il) == MFGR_INTERLACE_LINE ? (long)(k)*GRP_XD * GRP_CS : GRP_CY(k, yd) * GRP_XD * GRP_CS)
#define GRP_STEP(il) ((il) == MFGR_INTERLACE_COMPONENT ? (long)GRP_XD * GRP_CS : (long)GRP_XD * GRP_NC * GRP_CS)
/* bytes a cursor moves per pixel, and the extra move at the end of a row (the code's *_pixel_add, *_line_add) */
#define GRP_PADD(il) ((il) == MFGR_INTERLACE_PIXEL ? (long)GRP_NC * GRP_CS : (long)GRP_CS)
#define GRP_LADD(il) ((il) == MFGR_INTERLACE_LINE ? (long)(GRP_NC - 1) * GRP_XD * GRP_CS : 0L)
#define GRP_AT(k, off_in, off_out)                                                                   \
    (in_comp_ptr[k] == (const uint8 *)inbuf + (GRP_BASE(inil, k, dims[1]) + (off_in)) &&                                  \
     out_comp_ptr[k] == (uint8 *)outbuf + (GRP_BASE(outil, k, dims[1]) + (off_out)))
#define GRP_K1 (GRP_NC < 2 ? 0 : 1)
#define GRP_K2 (GRP_NC < 3 ? 0 : 2)
#define GRP_ALLK(M) (M(0) && (GRP_NC < 2 || M(GRP_K1)) && (GRP_NC < 3 || M(GRP_K2)))
/* the property clause for the ghost component */
#define GRP_EQ                                                                                       \
    (((const uint8 *)outbuf)[GRP_IDX(outil, g_x, g_y, g_c, dims[1]) * GRP_CS + g_b] ==                                    \
     ((const uint8 *)inbuf)[GRP_IDX(inil, g_x, g_y, g_c, dims[1]) * GRP_CS + g_b])
#define GRP_TOTAL ((__CPROVER_size_t)dims[1] * (GRP_XD * GRP_NC * GRP_CS))
/* loop 7 (rows) */
#define GRP_AT7(kk) GRP_AT(kk, (long)i *GRP_STEP(inil), (long)i *GRP_STEP(outil))
#define GRP_INV7 (0 <= i && i <= dims[1] && GRP_ALLK(GRP_AT7) && (g_y < i ==> GRP_EQ))
/* loop 8 (pixels of row i) */
#define GRP_AT8(kk) GRP_AT(kk, (long)i *GRP_STEP(inil) + (long)j * GRP_PADD(inil), (long)i * GRP_STEP(outil) + (long)j * GRP_PADD(outil))
#define GRP_INV8 (0 <= j && j <= GRP_XD && GRP_ALLK(GRP_AT8) && ((g_y < i || (g_y == i && g_x < j)) ==> GRP_EQ))
/* loop 9 (components of pixel (j,i)): cursors below k have already moved on */
#define GRP_AT9(kk)                                                                                  \
    GRP_AT(kk, (long)i *GRP_STEP(inil) + (long)(j + ((kk) < k ? 1 : 0)) * GRP_PADD(inil),                                 \
           (long)i * GRP_STEP(outil) + (long)(j + ((kk) < k ? 1 : 0)) * GRP_PADD(outil))
#define GRP_INV9                                                                                     \
    (0 <= k && k <= GRP_NC && GRP_ALLK(GRP_AT9) && ((g_y < i || (g_y == i && (g_x < j || (g_x == j && g_c < k)))) ==> GRP_EQ))
/* loop 10 (end-of-row wrap) */
#define GRP_AT10(kk)                                                                                 \
    GRP_AT(kk, (long)i *GRP_STEP(inil) + (long)GRP_XD * GRP_PADD(inil) + ((kk) < k ? GRP_LADD(inil) : 0L),                \
           (long)i * GRP_STEP(outil) + (long)GRP_XD * GRP_PADD(outil) + ((kk) < k ? GRP_LADD(outil) : 0L))
#define GRP_INV10 (0 <= k && k <= GRP_NC && GRP_ALLK(GRP_AT10) && (g_y <= i ==> GRP_EQ))
int32 g_x, g_y, g_c, g_b;

#include "mfgr.c"

/* ghost pixel component (x,y,c), ghost byte inside the component, ghost byte of the whole buffer */
int32 g_i;

/* The three address maps, written from the interlace DEFINITIONS (element index, in components):
     pixel:     all components of pixel (x,y) are adjacent, pixels row-major
     line:      for each row y, a line of component 0, then a line of component 1, ...
     component: a whole xdim*ydim plane per component                                            */
#define IL_PIXEL_IDX(x, y, c, xd, yd, nc) (((y) * (xd) + (x)) * (nc) + (c))
#define IL_LINE_IDX(x, y, c, xd, yd, nc) (((y) * (nc) + (c)) * (xd) + (x))
#define IL_COMP_IDX(x, y, c, xd, yd, nc) (((c) * (yd) + (y)) * (xd) + (x))
#define IL_IDX(il, x, y, c, xd, yd, nc)                                                              \
    ((il) == MFGR_INTERLACE_PIXEL  ? IL_PIXEL_IDX(x, y, c, xd, yd, nc)                                \
     : (il) == MFGR_INTERLACE_LINE ? IL_LINE_IDX(x, y, c, xd, yd, nc)                                 \
                                   : IL_COMP_IDX(x, y, c, xd, yd, nc))
#ifdef GRP_PROVED
#undef IL_IDX
#define IL_IDX(il, x, y, c, xd, yd, nc) GRP_IDX(il, x, y, c, yd)
#define GR_MAXX GRP_XD
#define GR_MAXY GRP_YMAX
#else
#define GR_MAXX GR_MAXDIM
#define GR_MAXY GR_MAXDIM
#endif
#define IL_VALID(il) ((il) == MFGR_INTERLACE_PIXEL || (il) == MFGR_INTERLACE_LINE || (il) == MFGR_INTERLACE_COMPONENT)
#define IL_TOTAL(dims, ncomp) ((dims)[0] * (dims)[1] * (ncomp)*g_csize)

#ifndef GR_MAXDIM
#define GR_MAXDIM 3
#endif
#ifndef GR_MAXCOMP
#define GR_MAXCOMP 3
#endif
#define GR_CAP (GR_MAXDIM * GR_MAXDIM * GR_MAXCOMP * 2)
/* GR_CAPBUF (proof runs with symbolic extents): the buffers are allocated with the constant
   capacity GR_CAP instead of exactly xdim*ydim*ncomp*size bytes (symbolic object sizes cost
   5 GB / 100 s here).  The exact WRITE frame is still enforced by the assigns clause; exact
   object sizes (over-reads too) are used in the *_exact obligations, in counterexample mode
   and in the native replay. */
#if defined(GR_CAPBUF) && defined(H4V_CBMC)
#define GR_BUFSZ(total) GR_CAP
#else
#define GR_BUFSZ(total) (total)
#endif
/* buffer with arbitrary contents.  Counterexample mode: the named element values come from one
   nondet struct and are copied without a loop (a global --unwind 56 for H4V_ND_BUF's loop would
   also unwind the triple loop nest of GRIil_convert 56^3 times). */
#if defined(H4V_CBMC) && defined(H4V_CEX)
#define GR_ND_BUF(T, p, n, CAP)                                                                      \
    T *p = malloc((size_t)GR_BUFSZ(n) * sizeof(T));                                                  \
    __CPROVER_assume(p != NULL);                                                                     \
    struct h4v_nb_##p { T a[CAP]; };                                                                 \
    struct h4v_nb_##p nondet_h4v_nb_##p(void);                                                       \
    struct h4v_nb_##p p##_nd = nondet_h4v_nb_##p();                                                  \
    memcpy(p, p##_nd.a, (size_t)(n) * sizeof(T))
#elif defined(H4V_CBMC)
#define GR_ND_BUF(T, p, n, CAP) H4V_ND_BUF(T, p, GR_BUFSZ(n), CAP)
#else
#define GR_ND_BUF(T, p, n, CAP) H4V_ND_BUF(T, p, n, CAP)
#endif

int GRIil_convert(const void *inbuf, gr_interlace_t inil, void *outbuf, gr_interlace_t outil, int32 dims[2], int32 ncomp, int32 nt)
    /* callers (GRwriteimage/GRreadimage/GRreadlut/chunk I/O) pass validated interlaces, count[] >= 1,
       ncomps >= 1 and two distinct buffers of exactly xdim*ydim*ncomp*size bytes */
    __CPROVER_requires(IL_VALID(inil) && IL_VALID(outil))
    __CPROVER_requires(dims != NULL && dims[0] >= 1 && dims[0] <= GR_MAXX && dims[1] >= 1 && dims[1] <= GR_MAXY)
    __CPROVER_requires(ncomp >= 1 && ncomp <= GR_MAXCOMP && (g_csize == 1 || g_csize == 2))
    __CPROVER_requires(inbuf != NULL && outbuf != NULL)
    __CPROVER_requires(0 <= g_x && g_x < dims[0] && 0 <= g_y && g_y < dims[1] && 0 <= g_c && g_c < ncomp && 0 <= g_b && g_b < g_csize)
    /* frame: exactly the xdim*ydim*ncomp*size bytes of the output buffer */
    __CPROVER_assigns(__CPROVER_object_upto(outbuf, (__CPROVER_size_t)IL_TOTAL(dims, ncomp)))
    /* FAIL only when the six small work arrays cannot be allocated (checked in the harness: buffer untouched) */
    __CPROVER_ensures(__CPROVER_return_value == SUCCEED || __CPROVER_return_value == FAIL)
    /* the permutation: component c of pixel (x,y) moves from its input address to its output address */
    __CPROVER_ensures(__CPROVER_return_value == FAIL ||
                      ((const uint8 *)outbuf)[IL_IDX(outil, g_x, g_y, g_c, dims[0], dims[1], ncomp) * g_csize + g_b] ==
                      ((const uint8 *)inbuf)[IL_IDX(inil, g_x, g_y, g_c, dims[0], dims[1], ncomp) * g_csize + g_b]);

#ifdef H4V_NATIVE
#include "h4v_native_wrap.h"
#endif

/* ---------------- harnesses ---------------- */
H4V_DECL_ND(int32);
H4V_DECL_ND(int);
H4V_DECL_ND(gr_interlace_t);

static void
mk_ghosts(void)
{
    H4V_HAVOC(int32, g_x);
    H4V_HAVOC(int32, g_y);
    H4V_HAVOC(int32, g_c);
    H4V_HAVOC(int32, g_b);
    H4V_HAVOC(int32, g_i);
    H4V_HAVOC(int, g_csize);
}

void
h_GRIil_convert(void)
{
    mk_ghosts();
    H4V_ND(gr_interlace_t, inil);
    H4V_ND(gr_interlace_t, outil);
    H4V_ND(int32, xdim);
    H4V_ND(int32, ydim);
    H4V_ND(int32, ncomp);
    H4V_ND(int32, nt);
#ifdef GR_INIL
    H4V_ASSUME(inil == GR_INIL);
#endif
#ifdef GR_OUTIL
    H4V_ASSUME(outil == GR_OUTIL);
#endif
#ifdef GR_NCOMP
    H4V_ASSUME(ncomp == GR_NCOMP);
#endif
#ifdef GR_CS
    H4V_ASSUME(g_csize == GR_CS);
#endif
#ifdef GR_XDIM
    H4V_ASSUME(xdim == GR_XDIM);
#endif
#ifdef GR_YDIM
    H4V_ASSUME(ydim == GR_YDIM);
#endif
    H4V_ASSUME(xdim >= 1 && xdim <= GR_MAXDIM && ydim >= 1 && ydim <= GR_MAXDIM && ncomp >= 1 && ncomp <= GR_MAXCOMP);
    H4V_ASSUME(g_csize == 1 || g_csize == 2);
    int32 dims[2];
    dims[0]     = xdim;
    dims[1]     = ydim;
    int32 total = xdim * ydim * ncomp * g_csize;
    GR_ND_BUF(uint8, inb, total, GR_CAP);
    GR_ND_BUF(uint8, outb, total, GR_CAP);
    H4V_ASSUME(g_i >= 0 && g_i < total);
    uint8 old_i = outb[g_i];
    int   r     = GRIil_convert(inb, inil, outb, outil, dims, ncomp, nt);
    H4V_CHECK(r == SUCCEED || outb[g_i] == old_i, "il_convert: on failure (no memory) the output buffer is untouched");
    H4V_COVER(r == SUCCEED && inil == outil, "il_convert identity path");
    H4V_COVER(r == SUCCEED && inil == MFGR_INTERLACE_LINE && outil == MFGR_INTERLACE_COMPONENT && xdim > 1 && ydim > 1,
              "il_convert line->component");
    H4V_COVER(r == SUCCEED && inil == MFGR_INTERLACE_COMPONENT && outil == MFGR_INTERLACE_PIXEL && xdim != ydim,
              "il_convert component->pixel, non-square");
#ifndef GR_XDIM
    H4V_COVER(r == SUCCEED && inil == MFGR_INTERLACE_PIXEL && outil == MFGR_INTERLACE_LINE && xdim == 1,
              "il_convert pixel->line, one column");
#endif
    H4V_CANARY("GRIil_convert end");
}

/* proved variant: ydim symbolic up to GRP_YMAX, exact-size buffers, xdim/ncomp/size constants */
void
h_GRIil_convert_p(void)
{
    mk_ghosts();
    H4V_ND(gr_interlace_t, inil);
    H4V_ND(gr_interlace_t, outil);
    H4V_ND(int32, ydim);
    H4V_ND(int32, nt);
#ifdef GR_INIL
    H4V_ASSUME(inil == GR_INIL);
#endif
#ifdef GR_OUTIL
    H4V_ASSUME(outil == GR_OUTIL);
#endif
    H4V_ASSUME(ydim >= 1 && ydim <= GRP_YMAX);
    g_csize = GRP_CS;
    int32 dims[2];
    dims[0]     = GRP_XD;
    dims[1]     = ydim;
    int32 total = ydim * (GRP_XD * GRP_NC * GRP_CS);
    H4V_ND_BUF(uint8, pin, total, GR_CAP);
    H4V_ND_BUF(uint8, pout, total, GR_CAP);
    int r = GRIil_convert(pin, inil, pout, outil, dims, GRP_NC, nt);
    H4V_COVER(r == SUCCEED && ydim > 100 && inil != outil, "il_convert proved variant, many rows");
    H4V_CANARY("GRIil_convert_p end");
}

/* convert(B->A) after convert(A->B) is the identity (real code twice, harness-level) */
void
h_il_roundtrip(void)
{
    mk_ghosts();
    H4V_ND(gr_interlace_t, ila);
    H4V_ND(gr_interlace_t, ilb);
    H4V_ND(int32, xdim);
    H4V_ND(int32, ydim);
    H4V_ND(int32, ncomp);
    H4V_ND(int32, nt);
    H4V_ASSUME(IL_VALID(ila) && IL_VALID(ilb));
#ifdef GR_NCOMP
    H4V_ASSUME(ncomp == GR_NCOMP);
#endif
#ifdef GR_CS
    H4V_ASSUME(g_csize == GR_CS);
#endif
    H4V_ASSUME(xdim >= 1 && xdim <= GR_MAXDIM && ydim >= 1 && ydim <= GR_MAXDIM && ncomp >= 1 && ncomp <= GR_MAXCOMP);
    H4V_ASSUME(g_csize == 1 || g_csize == 2);
    int32 dims[2];
    dims[0]     = xdim;
    dims[1]     = ydim;
    int32 total = xdim * ydim * ncomp * g_csize;
    GR_ND_BUF(uint8, rt_in, total, GR_CAP);
    GR_ND_BUF(uint8, rt_mid, total, GR_CAP);
    GR_ND_BUF(uint8, rt_out, total, GR_CAP);
    H4V_ASSUME(g_i >= 0 && g_i < total);
    int r1 = GRIil_convert(rt_in, ila, rt_mid, ilb, dims, ncomp, nt);
    int r2 = GRIil_convert(rt_mid, ilb, rt_out, ila, dims, ncomp, nt);
    H4V_CHECK(!(r1 == SUCCEED && r2 == SUCCEED) || rt_out[g_i] == rt_in[g_i],
              "il round trip: convert(B->A) after convert(A->B) is the identity");
    H4V_COVER(r1 == SUCCEED && r2 == SUCCEED && ila != ilb, "roundtrip both succeed");
    H4V_COVER(r1 == SUCCEED && r2 == SUCCEED && ila == MFGR_INTERLACE_LINE && ilb == MFGR_INTERLACE_COMPONENT, "roundtrip line/component");
    H4V_CANARY("il_roundtrip end");
}

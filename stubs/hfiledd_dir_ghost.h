/* Ghost state referenced by loops/hfiledd_dir.loops (loop contract of Hnewref in hfiledd.c).
 * Every unit that includes the real hfiledd.c must include this header BEFORE it, because the
 * loop contracts of all tables are injected into the one scratch copy of the file. */
#ifndef H4V_HFILEDD_DIR_GHOST_H
#define H4V_HFILEDD_DIR_GHOST_H
/* ghost ref: a proof for arbitrary g_nr_r is a proof for all refs */
unsigned g_nr_r;
/* abstraction of the DD list: g_nr_used[r] != 0 iff some DD with tag != DFTAG_NULL has ref r
   (what HTIfind_dd(file, DFTAG_WILDCARD, r, NULL, DF_FORWARD) decides) */
#ifndef H4V_NR_N
#define H4V_NR_N 65536
#endif
unsigned char g_nr_used[H4V_NR_N];
/* Hnewref's search loop: every ref below the loop counter is in use */
#define H4V_HNEWREF_INV(i) ((g_nr_r >= 1 && g_nr_r < (i)) ==> g_nr_used[g_nr_r] != 0)
#endif

"""C09 (extension): requested read interlace, image information, image creation and the palette read path (mfgr.c).
Property record C09 is owned by c09_gr.py (no prop() call here)."""
from .core import ob

TR = ["HAatom_group/HAatom_object/HAregister_atom: finite map of the image id, the GR id and one stale image id; registration hands out "
      "an arbitrary id and does not fail (the image group exists)",
      "DFKNTsize (size table)", "strlen/strcpy/strcmp: exact, unrolled to 10 characters"]
GI = dict(unit="mfgr_info_u.c", file="hdf/src/mfgr.c", cex_unwind=3, trusted=TR)

# ---- loop-free: proved
ob("GRreqimageil", "C09", entry="h_GRreqimageil", enforce="GRreqimageil", **GI)
ob("GRreqlutil", "C09", entry="h_GRreqlutil", enforce="GRreqlutil", **GI)
ob("GRgetiminfo", "C09", entry="h_GRgetiminfo", enforce="GRgetiminfo", mode="bounded",
   bound="image names of at most 10 characters (everything else arbitrary)", **GI)
ob("GRgetnluts", "C09", entry="h_GRgetnluts", enforce="GRgetnluts", **GI)
ob("GRluttoref", "C09", entry="h_GRluttoref", enforce="GRluttoref", **GI)

# ---- GRcreate (allocation failure: A-ALLOC)
NOMF = dict(flags=["--no-malloc-may-fail"], gi_flags=["--no-malloc-may-fail"])
CR = {**GI, **NOMF, "trusted": TR + ["Vattach/VQueryref/Vdetach: a fresh Vgroup whose ref is arbitrary, every call may fail",
                                     "tbbtdmake/tbbtdins: the GR's image tree is a ghost (insertion logged), tree creation may fail"]}
CRB = "image names of at most 10 characters; everything else arbitrary"
ob("GRcreate", "C09", entry="h_GRcreate", enforce="GRcreate", mode="bounded", bound=CRB + "; number type known to DFKNTsize", **CR)
ob("GRcreate_badnt", "C09", entry="h_GRcreate", enforce="GRcreate", mode="bounded", bound=CRB + "; number type NOT known to DFKNTsize",
   defines=["CR_BADNT"], **CR)
ob("create_info", "C09", entry="h_create_info", mode="bounded", bound=CRB, defines=["GI_NOFAULT"], **CR)

# ---- GRreadlut in the requested interlace: real GRIil_convert inlined, palette geometry constant per run
LT = TR + ["Hgetelement: ONE palette element of constant length in pixel interlace, may fail (then nothing is delivered)"]
for nc, ne, cs in ((3, 4, 1), (2, 3, 2), (4, 2, 1), (1, 5, 1), (2, 3, 4), (3, 16, 1), (4, 8, 2)):
    for il, nm in ((0, "pixel"), (1, "line"), (2, "component")):
        ob(f"GRreadlut_{nm}_c{nc}e{ne}s{cs}", "C09", entry="h_GRreadlut", enforce="GRreadlut", mode="bounded",
           bound=f"palette of {ne} entries x {nc} component(s) of {cs} byte(s); requested interlace {nm}; image with palette; the image's id",
           defines=[f"LR_NC={nc}", f"LR_NE={ne}", f"LR_CS={cs}", f"LR_IL={il}", "LR_HASLUT", "LR_GOODID"], unwind=max(nc, ne) + 2,
           **{**GI, **NOMF, "trusted": LT, "cex_unwind": max(nc, ne) + 2})
ob("GRreadlut_ids", "C09", entry="h_GRreadlut", enforce="GRreadlut", mode="bounded",
   bound="palette of 2 entries x 2 components of 1 byte; all three requested interlaces; image with / without palette; any id",
   defines=["LR_NC=2", "LR_NE=2", "LR_CS=1"], unwind=4, **{**GI, **NOMF, "trusted": LT, "cex_unwind": 4})
ob("GRreadlut_nolut", "C09", entry="h_GRreadlut", enforce="GRreadlut", mode="bounded",
   bound="image without palette (palette geometry all zero, as GRcreate leaves it); all three requested interlaces",
   defines=["LR_NC=3", "LR_NE=2", "LR_CS=1", "LR_NOLUT"], unwind=5, **{**GI, **NOMF, "trusted": LT, "cex_unwind": 8})
ob("lut_req_read", "C09", entry="h_lut_req_read", mode="bounded",
   bound="palette of 4 entries x 3 components of 1 byte; any requested interlace value (valid or not)",
   defines=["LR_NC=3", "LR_NE=4", "LR_CS=1", "LR_HASLUT"], unwind=6, **{**GI, **NOMF, "trusted": LT, "cex_unwind": 6})
# the standard palette (256 x 3 x uint8): only the verbatim (pixel) delivery is tractable; line / component runs of that size ran cbmc out of
# memory (10 GB) -- not registered
ob("GRreadlut_std_pixel", "C09", entry="h_GRreadlut", enforce="GRreadlut", mode="bounded",
   bound="palette of 256 entries x 3 components of 1 byte; requested interlace pixel; image with palette; the image's id",
   defines=["LR_NC=3", "LR_NE=256", "LR_CS=1", "LR_IL=0", "LR_HASLUT", "LR_GOODID"], unwind=5, tier="thorough",
   **{**GI, **NOMF, "trusted": LT, "cex_unwind": 5})

/* Shared predicates for the C03 units (putget_u.c, var_u.c, mfsd_gate_u.c).
   NC_var geometry: rank = vp->assoc->count, shape[i] extents (shape[0] == 0: record variable),
   dsizes[i] byte strides in units of the on-disk element size vp->HDFsize. */
#ifndef PUTGET_PRED_H
#define PUTGET_PRED_H

typedef long          h4v_long;
typedef unsigned long h4v_ulong;

#define C03_RANK(vp) ((int)(vp)->assoc->count)
#define C03_REC(vp) ((vp)->shape[0] == 0)
/* dimension i is a fixed-size dimension (everything but the record dimension) */
#define C03_FIXED(vp, i) (!(C03_REC(vp) && (i) == 0))
#define C03_OUTSIDE(vp, co, i) ((co)[i] < 0 || (co)[i] >= (long)(vp)->shape[i])

/* extent of dimension i with the record dimension counted as 1 (one record) */
#define C03_EXT1(vp, i) (((i) == 0 && (vp)->shape[0] == 0) ? 1UL : (vp)->shape[i])

/* dsizes are the row-major byte strides, rank <= 3 (bounded stand-in vocabulary):
   dsizes[rank-1] == esz; dsizes[i] == dsizes[i+1] * shape[i+1];
   len == dsizes[0] * (record ? 1 : shape[0]) */
#define C03_DSIZES_RM3(vp, esz)                                                                      \
    ((vp)->dsizes[C03_RANK(vp) - 1] == (unsigned long)(esz) &&                                       \
     (C03_RANK(vp) < 2 || (vp)->dsizes[C03_RANK(vp) - 2] ==                                          \
                              (vp)->dsizes[C03_RANK(vp) - 1] * (vp)->shape[C03_RANK(vp) - 1]) &&     \
     (C03_RANK(vp) < 3 || (vp)->dsizes[0] == (vp)->dsizes[1] * (vp)->shape[1]) &&                    \
     (vp)->len == (vp)->dsizes[0] * C03_EXT1(vp, 0))

#endif

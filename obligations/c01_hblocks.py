"""hblocks.c (linked-block elements) and hextelt.c (external elements): C01 byte streams, C02 raw locations, C13 ownership, C14"""
from .core import ob

HB = dict(unit="hblocks_u.c", file="hdf/src/hblocks.c", objbits=10,
          trusted=["H-layer sub-access stubs with ghost tiling log (units/hblocks_u.c: Hstartread/Hstartwrite/Hseek/Hread/Hwrite/Hendaccess/"
                   "Htagnewref/HTPinquire/Hstartaccess/HAatom_object; memset of the hole fill modelled as a checked byte loop)",
                   "HEpush/HEreport/HEclear (stubs/h4v_err.h)"])

ob("HLPseek", ["C01"], entry="h_HLPseek", enforce="HLPseek", cex_unwind=4, **HB)

# HLPread: one obligation per region of the input space, so that each defect fails its own obligation and the
# well-formed region stays a passing (mutant-killing) obligation.
CASES = {1: "position inside the element, all blocks of the element present", 2: "position inside the element, missing blocks (holes) allowed",
         3: "position exactly at the end of the element", 4: "position beyond the end of the element"}
for nb in (1, 2):
    for case, txt in CASES.items():
        quick = nb == 1 or case == 1
        ob(f"HLPread_c{case}_nb{nb}", ["C01"], entry="h_HLPread", enforce="HLPread", mode="bounded",
           bound=f"<= 2 block tables of number_blocks == {nb}, first_length 0..3, block_length 1..3, posn <= 8, length -1..8 "
                 f"(symbolic); {txt}; sub-access faults injected",
           unwind=5, cex_unwind=5, timeout=900, tier="quick" if quick else "thorough",
           defines=[f"H4V_NBC={nb}", "H4V_MAXPOS=8", "H4V_MAXLEN=3", f"H4V_CASE={case}"], **HB)

/* Verification unit: hdf/src/hchunks.c -- C14 (read-only access): the gate of HMCcreate. */
#include "h4v.h"
#include "h4v_err.h"
#include "c14_common.h"
/* names used by loops/hchunks.loops (loop contracts are injected into the shared scratch copy of hchunks.c; they are
   not applied in this unit) */
int32 g_k;
#define C2A_VAL(ci, cp, d) 0
#define POS_OK(d, sb, sp) 1
#include "hchunks.c"

#define C14_ENV (g_frec != NULL && C14_RDONLY(g_frec) && g_mut_n == 0 && g_denied_n == 0 && g_reg_n == 0 && g_getrec_n == 0)
int32 HMCcreate(int32 file_id, uint16 tag, uint16 ref, uint8 nlevels, int32 fill_val_len, void *fill_val, HCHUNK_DEF *chk_array)
    __CPROVER_requires(C14_ENV)
    __CPROVER_assigns(g_mut_n, g_denied_n, g_reg_n, g_rem_n, g_getrec_n, g_relrec_n, __CPROVER_object_whole(g_frec))
    __CPROVER_ensures(__CPROVER_return_value == FAIL)
    __CPROVER_ensures(g_mut_n == 0 && g_denied_n == 0 && g_reg_n == 0 && g_getrec_n == 0)
    __CPROVER_ensures(g_frec->attach == __CPROVER_old(g_frec->attach));

#ifdef H4V_NATIVE
#include "h4v_native_wrap.h"
#endif

typedef unsigned char h4v_u8;
H4V_DECL_ND(h4v_u8);
void
h_c14_HMCcreate(void)
{
    c14_mk_file();
    H4V_ND(uint16, tag);
    H4V_ND(uint16, ref);
    H4V_ND(h4v_u8, nlevels);
    H4V_ND(int32, fill_val_len);
    H4V_ND(int, no_chunk_def);
    HCHUNK_DEF *cd = malloc(sizeof(HCHUNK_DEF));
    H4V_ASSUME(cd != NULL);
    uint8 fill[4] = {0, 0, 0, 0};
    int32 r = HMCcreate(g_fid, tag, ref, nlevels, fill_val_len, fill, no_chunk_def ? NULL : cd);
    H4V_COVER(r == FAIL && !no_chunk_def && !SPECIALTAG(tag), "HMCcreate denied at the gate");
    H4V_CANARY("HMCcreate end");
}

/* Verification unit: hdf/src/hfiledd.c -- the DD-id (HTP*) layer and the public tag/ref functions built on it
 * (HTPselect HTPdelete HTPupdate HTPinquire HTPendaccess HTPis_special Hdupdd Hdeldd HDreuse_tagref HDcheck_tagref
 *  Hnumber Hfind), property C12: "deleting or duplicating one entry affects no other", exact counts, wildcard search.
 *
 * Environment: ONE file record, ONE DD block of API_NDDS descriptors with arbitrary contents (typed static objects),
 * descriptor caching arbitrary.  The tag tree / bit-vector / ref table (tbbt.c, bitvect.c, dynarray.c; own contracts in
 * bitvect_u.c, dynarray_u.c) are abstracted by stub bodies over TWO ghost (base tag, ref) entries; any other (tag, ref)
 * answers nondeterministically.  Atoms: the file id and at most two live DD ids.  Disk: ghost disk of stubs/h4v_hp.h.
 * The frame clause "no other DD of the block changes" is the assigns clause: only fields of the selected DD are listed.
 */
#include "h4v.h"
#include "h4v_err.h"
#include "h4v_hp.h"
#include "hfiledd.c"

H4V_DECL_ND(int);
H4V_DECL_ND(long);
H4V_DECL_ND(int32);
H4V_DECL_ND(uint16);

#ifndef API_NDDS
#define API_NDDS 4
#endif
#define NE 2

/* ------------------------------------------------------------------ ghost environment */
filerec_t *g_frec;
int32      g_fid;              /* the valid file id */
static filerec_t g_frec_obj;
static ddblock_t g_blk;        /* the DD block */
static dd_t      g_ddl[API_NDDS];
int        g_sel;              /* index of the selected DD (the one a DD id / ghost entry 0 stands for) */
dd_t      *g_seldd;            /* == &g_ddl[g_sel] */
uint16     g_tag0, g_ref0;     /* its contents on entry */
int32      g_off0, g_len0;
int32      g_fend0;            /* f_end_off on entry */
int        g_found0;           /* ghost entry 0 has a descriptor on entry */
int        g_fsel;             /* index of the free slot HTIfind_dd hands out (Hdupdd) */
dd_t      *g_free_slot;
static dd_t g_other_dd;        /* "some other descriptor" for refs outside the ghost entries */

/* tag tree abstraction: ghost entry i = (base tag g_etag[i], ref g_eref[i]) */
uint16 g_etag[NE];
int32  g_eref[NE];
int    g_epres[NE];            /* the tag has a node in the tree */
int    g_ebit[NE];             /* ref-in-use bit */
void  *g_eslot[NE];            /* ref table slot */
static tag_info  g_ti[NE + 1];
static tag_info *g_tip[NE + 1];
static int g_bvo[NE + 1], g_dao[NE + 1];
int    g_ins_n, g_ins_node, g_da_destroyed;
#define NODE(i) (((i) == 1 && g_etag[1] == g_etag[0]) ? 0 : (i))

static int
ent_of(const void *o, int is_da, int32 ref)
{
    for (int i = 0; i < NE; i++) {
        int n = NODE(i);
        if (g_tip[n] != NULL && o == (is_da ? (const void *)g_tip[n]->d : (const void *)g_tip[n]->b) && ref == g_eref[i] && g_epres[i])
            return i;
    }
    return -1;
}
TBBT_NODE *
tbbtdfind(TBBT_TREE *tree, void *key, TBBT_NODE **pp)
{
    for (int i = 0; i < NE; i++)
        if (g_epres[i] && *(uint16 *)key == g_etag[i])
            return (TBBT_NODE *)&g_tip[NODE(i)]; /* callers only cast the result back to (tag_info **) */
    return NULL;
}
TBBT_NODE *
tbbtdins(TBBT_TREE *tree, void *item, void *key)
{
    g_ins_n++;
    g_ins_node = NE;
    for (int i = NE - 1; i >= 0; i--)
        if (!g_epres[i] && ((tag_info *)item)->tag == g_etag[i])
            g_ins_node = NODE(i);
    g_tip[g_ins_node] = (tag_info *)item;
    for (int i = 0; i < NE; i++)
        if (!g_epres[i] && ((tag_info *)item)->tag == g_etag[i])
            g_epres[i] = 1;
    return NULL;
}
bv_ptr   bv_new(int32 num_bits) { return (bv_ptr)&g_bvo[g_ins_node]; }
dynarr_p DAcreate_array(int start_size, int incr_mult) { return (dynarr_p)&g_dao[g_ins_node]; }
int
bv_get(bv_ptr b, int32 bit_num)
{
    int i = ent_of(b, 0, bit_num);
    if (i >= 0)
        return g_ebit[i];
    H4V_ND(int, other_bit);
    return other_bit ? BV_TRUE : BV_FALSE;
}
int
bv_set(bv_ptr b, int32 bit_num, bv_bool value)
{
    int i = ent_of(b, 0, bit_num);
    if (i >= 0)
        g_ebit[i] = value;
    return SUCCEED;
}
int32 bv_find_next_zero(bv_ptr b) { return FAIL; }
int
DAdestroy_array(dynarr_p arr, int free_elem)
{
    g_da_destroyed++;
    return SUCCEED;
}
void *
DAget_elem(dynarr_p arr, int elem)
{
    int i = ent_of(arr, 1, elem);
    if (i >= 0)
        return g_eslot[i];
    H4V_ND(int, other_slot);
    return other_slot ? (void *)&g_other_dd : NULL;
}
int
DAset_elem(dynarr_p arr, int elem, void *obj)
{
    int i = ent_of(arr, 1, elem);
    if (i >= 0)
        g_eslot[i] = obj;
    return SUCCEED;
}
void *
DAdel_elem(dynarr_p arr, int elem)
{
    int i = ent_of(arr, 1, elem);
    if (i >= 0) {
        void *o    = g_eslot[i];
        g_eslot[i] = NULL;
        return o;
    }
    H4V_ND(int, other_del);
    return other_del ? (void *)&g_other_dd : NULL;
}

/* atoms: the file id and at most two live DD ids g_ddid0, g_ddid0+1 */
void  *g_ddobj[2];
atom_t g_ddid0;
int    g_reg_n, g_rem_n, g_reg_failed, g_free_n;
void *
HAatom_object(atom_t atm)
{
    if (atm == g_fid)
        return g_frec;
    if (atm == g_ddid0)
        return g_ddobj[0];
    if (atm == g_ddid0 + 1)
        return g_ddobj[1];
    return NULL;
}
atom_t
HAregister_atom(group_t grp, void *object)
{
    H4V_ND(int, reg_fault);
    if (reg_fault) {
        g_reg_failed = 1;
        return FAIL;
    }
    g_reg_n++;
    if (g_ddobj[0] == NULL) {
        g_ddobj[0] = object;
        return g_ddid0;
    }
    if (g_ddobj[1] == NULL) {
        g_ddobj[1] = object;
        return g_ddid0 + 1;
    }
    g_reg_failed = 1;
    return FAIL;
}
void *
HAremove_atom(atom_t atm)
{
    void *o = NULL;
    g_rem_n++;
    if (atm == g_ddid0) {
        o          = g_ddobj[0];
        g_ddobj[0] = NULL;
    }
    else if (atm == g_ddid0 + 1) {
        o          = g_ddobj[1];
        g_ddobj[1] = NULL;
    }
    return o;
}
int
HPfreediskblock(filerec_t *file_rec, int32 block_off, int32 block_size)
{
    g_free_n++;
    return SUCCEED;
}

/* ------------------------------------------------------------------ predicates */
#define DD_LIVE_TAG(t) ((t) != DFTAG_NULL && (t) != DFTAG_WILDCARD)
/* a descriptor whose data extent is representable (what HTPstart/Hstartaccess leave behind) */
#define EXT_OK(o, l) ((o) >= INVALID_OFFSET && (l) >= INVALID_LENGTH && ((o) == INVALID_OFFSET || (l) == INVALID_LENGTH || (o) <= INT32_MAX - (l)))
#define FILE_OK                                                                                               \
    (g_frec == &g_frec_obj && g_fid != FAIL && g_ddid0 != g_fid && g_ddid0 + 1 != g_fid && g_ddid0 > 0 &&         \
     g_ddid0 < INT32_MAX - 1 && g_frec->ddhead == &g_blk && g_frec->ddlast == &g_blk && g_blk.frec == g_frec &&   \
     g_blk.ddlist == g_ddl && g_blk.ndds == API_NDDS && g_blk.myoffset >= MAGICLEN &&                             \
     g_blk.myoffset < INT32_MAX - 1024 && g_frec->f_end_off >= 0 && g_frec->f_end_off == g_fend0 &&               \
     (g_frec->cache == 0 || g_frec->cache == 1))
#define TREE_OK                                                                                               \
    (g_tip[0] == &g_ti[0] && g_tip[1] == &g_ti[1] && g_ti[0].tag == g_etag[0] && g_ti[1].tag == g_etag[1] &&      \
     g_ti[0].b == (bv_ptr)&g_bvo[0] && g_ti[1].b == (bv_ptr)&g_bvo[1] && g_ti[0].d == (dynarr_p)&g_dao[0] &&      \
     g_ti[1].d == (dynarr_p)&g_dao[1] && !(g_etag[0] == g_etag[1] && g_eref[0] == g_eref[1]) &&                   \
     (g_etag[0] != g_etag[1] || g_epres[0] == g_epres[1]) && g_eref[0] >= 0 && g_eref[0] <= 65535 &&              \
     g_eref[1] >= 0 && g_eref[1] <= 65535 && BASETAG(g_etag[0]) == g_etag[0] && BASETAG(g_etag[1]) == g_etag[1] && \
     (g_epres[0] || (!g_ebit[0] && g_eslot[0] == NULL)) && (g_epres[1] || (!g_ebit[1] && g_eslot[1] == NULL)) &&  \
     g_ins_n == 0 && g_da_destroyed == 0 && g_reg_n == 0 && g_rem_n == 0 && g_reg_failed == 0 && g_free_n == 0)
/* the selected DD and its id: DD id g_ddid0 stands for g_seldd, a live descriptor registered as ghost entry 0 */
#define SEL_OK                                                                                                \
    (g_sel >= 0 && g_sel < API_NDDS && g_seldd == &g_ddl[g_sel] && g_seldd->blk == &g_blk &&                      \
     g_seldd->tag == g_tag0 && g_seldd->ref == g_ref0 && g_seldd->offset == g_off0 && g_seldd->length == g_len0)
#define SEL_REGISTERED                                                                                        \
    (DD_LIVE_TAG(g_tag0) && g_etag[0] == BASETAG(g_tag0) && g_eref[0] == g_ref0 && g_epres[0] && g_ebit[0] == 1 && \
     g_eslot[0] == (void *)g_seldd)
#define DD_DISK_OFF ((long)g_blk.myoffset + NDDS_SZ + OFFSET_SZ + (long)g_sel * DD_SZ)
#define BE16(v, j) ((unsigned char)((j) == 0 ? ((v) >> 8) & 0xff : (v) & 0xff))
#define BE32(v, j) ((unsigned char)((((uint32)(v)) >> (8 * (3 - (j)))) & 0xff))
#define DD_BYTE(t, r, o, l, j) ((j) < 2 ? BE16(t, j) : (j) < 4 ? BE16(r, (j) - 2) : (j) < 8 ? BE32(o, (j) - 4) : BE32(l, (j) - 8))
#define A_IN_DD (g_offA >= DD_DISK_OFF && g_offA < DD_DISK_OFF + DD_SZ)
#define HP_GHOSTS g_seq, g_wr_n, g_wr_off, g_wr_len, g_seek_n, g_seqA, g_seqB, g_firstA, g_firstB, g_byteA, g_byteB, g_hp_min_wr, g_hp_failed
#define NEWV(x, old) ((x) != -2 ? (x) : (old))
#define MAXEND(e, o, l) (((o) != INVALID_OFFSET && (l) != INVALID_LENGTH && (o) + (l) > (e)) ? (o) + (l) : (e))

/* ------------------------------------------------------------------ HTPinquire: pure read of exactly that DD */
int HTPinquire(atom_t ddid, uint16 *tag, uint16 *ref, int32 *off, int32 *len)
    __CPROVER_requires(FILE_OK && SEL_OK && (ddid == g_ddid0 || ddid == g_ddid0 + 1))
    __CPROVER_requires((g_ddobj[0] == NULL || g_ddobj[0] == (void *)g_seldd) && g_ddobj[1] == NULL)
    __CPROVER_requires(tag == NULL || __CPROVER_is_fresh(tag, sizeof(uint16)))
    __CPROVER_requires(ref == NULL || __CPROVER_is_fresh(ref, sizeof(uint16)))
    __CPROVER_requires(off == NULL || __CPROVER_is_fresh(off, sizeof(int32)))
    __CPROVER_requires(len == NULL || __CPROVER_is_fresh(len, sizeof(int32)))
    __CPROVER_assigns(tag != NULL: *tag; ref != NULL: *ref; off != NULL: *off; len != NULL: *len)
    __CPROVER_ensures(__CPROVER_return_value == ((ddid == g_ddid0 && g_ddobj[0] != NULL) ? SUCCEED : FAIL))
    __CPROVER_ensures((__CPROVER_return_value == SUCCEED && tag != NULL) ==> *tag == g_tag0)
    __CPROVER_ensures((__CPROVER_return_value == SUCCEED && ref != NULL) ==> *ref == g_ref0)
    __CPROVER_ensures((__CPROVER_return_value == SUCCEED && off != NULL) ==> *off == g_off0)
    __CPROVER_ensures((__CPROVER_return_value == SUCCEED && len != NULL) ==> *len == g_len0);

/* ------------------------------------------------------------------ HTPis_special */
int HTPis_special(atom_t ddid)
    __CPROVER_requires(FILE_OK && SEL_OK && (ddid == g_ddid0 || ddid == g_ddid0 + 1))
    __CPROVER_requires((g_ddobj[0] == NULL || g_ddobj[0] == (void *)g_seldd) && g_ddobj[1] == NULL)
    __CPROVER_assigns()
    __CPROVER_ensures(__CPROVER_return_value ==
                      ((ddid == g_ddid0 && g_ddobj[0] != NULL && (g_tag0 & 0x8000) == 0 && (g_tag0 & 0x4000) != 0) ? TRUE : FALSE));

/* ------------------------------------------------------------------ HTPendaccess */
int HTPendaccess(atom_t ddid)
    __CPROVER_requires(FILE_OK && SEL_OK && TREE_OK && (ddid == g_ddid0 || ddid == g_ddid0 + 1))
    __CPROVER_requires((g_ddobj[0] == NULL || g_ddobj[0] == (void *)g_seldd) && g_ddobj[1] == NULL)
    __CPROVER_assigns(g_ddobj[0], g_ddobj[1], g_rem_n)
    __CPROVER_ensures(__CPROVER_return_value == ((ddid == g_ddid0 && __CPROVER_old(g_ddobj[0]) != NULL) ? SUCCEED : FAIL))
    __CPROVER_ensures(ddid == g_ddid0 ==> g_ddobj[0] == NULL)
    __CPROVER_ensures(ddid != g_ddid0 ==> g_ddobj[0] == __CPROVER_old(g_ddobj[0]));

/* ------------------------------------------------------------------ HTPupdate: only the fields asked for change, only in that DD */
int HTPupdate(atom_t ddid, int32 new_off, int32 new_len)
    __CPROVER_requires(FILE_OK && SEL_OK && TREE_OK && ddid == g_ddid0 && g_ddobj[0] == (void *)g_seldd && g_ddobj[1] == NULL)
    __CPROVER_requires(g_seq == 0 && EXT_OK(NEWV(new_off, g_off0), NEWV(new_len, g_len0)))
    __CPROVER_assigns(g_seldd->offset, g_seldd->length, g_blk.dirty, g_frec->dirty, g_frec->f_cur_off, g_frec->f_end_off, HP_GHOSTS)
    __CPROVER_ensures(__CPROVER_return_value == SUCCEED || (__CPROVER_return_value == FAIL && g_hp_failed && !g_frec->cache))
    /* -2 means "leave it" */
    __CPROVER_ensures(__CPROVER_return_value == SUCCEED ==>
                      (g_seldd->offset == NEWV(new_off, g_off0) && g_seldd->length == NEWV(new_len, g_len0)))
    /* caching on: nothing written, block and file marked dirty; caching off: exactly that DD rewritten on disk */
    __CPROVER_ensures(g_frec->cache ==> (g_seq == 0 && g_blk.dirty == TRUE && (g_frec->dirty & DDLIST_DIRTY) != 0))
    __CPROVER_ensures((!g_frec->cache && __CPROVER_return_value == SUCCEED) ==>
                      (g_seq == 1 && g_wr_off == DD_DISK_OFF && g_wr_len == DD_SZ && g_blk.dirty == __CPROVER_old(g_blk.dirty)))
    __CPROVER_ensures((!g_frec->cache && __CPROVER_return_value == SUCCEED && A_IN_DD) ==>
                      g_byteA == DD_BYTE(g_tag0, g_ref0, NEWV(new_off, g_off0), NEWV(new_len, g_len0), g_offA - DD_DISK_OFF))
    /* the end of file only grows, to the end of the element */
    __CPROVER_ensures(__CPROVER_return_value == SUCCEED ==>
                      g_frec->f_end_off == MAXEND(g_fend0, NEWV(new_off, g_off0), NEWV(new_len, g_len0)));

/* ------------------------------------------------------------------ HTPdelete */
int HTPdelete(atom_t ddid)
    __CPROVER_requires(FILE_OK && SEL_OK && TREE_OK && SEL_REGISTERED && ddid == g_ddid0 && g_ddobj[0] == (void *)g_seldd && g_ddobj[1] == NULL)
    __CPROVER_requires(g_seq == 0 && EXT_OK(g_off0, g_len0))
    __CPROVER_assigns(g_seldd->tag, g_frec->ddnull, g_frec->ddnull_idx, g_blk.dirty, g_frec->dirty, g_frec->f_cur_off, g_frec->f_end_off,
                      HP_GHOSTS, g_ebit[0], g_eslot[0], g_ddobj[0], g_rem_n, g_free_n)
    __CPROVER_ensures(__CPROVER_return_value == SUCCEED || (__CPROVER_return_value == FAIL && g_hp_failed && !g_frec->cache))
    /* the descriptor becomes an empty slot, the pair is unregistered, the DD id is gone */
    __CPROVER_ensures(__CPROVER_return_value == SUCCEED ==>
                      (g_seldd->tag == DFTAG_NULL && g_ebit[0] == BV_FALSE && g_eslot[0] == NULL && g_ddobj[0] == NULL))
    /* the empty-slot cursor is reset as a pair (search restarts at the head, so the new hole is found) */
    __CPROVER_ensures(g_frec->ddnull == NULL && g_frec->ddnull_idx == -1)
    /* persistence: caching on -> block and file dirty (HTPsync writes the block); caching off -> the slot ON DISK is empty */
    __CPROVER_ensures((g_frec->cache && __CPROVER_return_value == SUCCEED) ==>
                      (g_seq == 0 && g_blk.dirty == TRUE && (g_frec->dirty & DDLIST_DIRTY) != 0))
    __CPROVER_ensures((!g_frec->cache && __CPROVER_return_value == SUCCEED && A_IN_DD && g_offA - DD_DISK_OFF < 2) ==>
                      (g_seqA != 0 && g_byteA == BE16(DFTAG_NULL, g_offA - DD_DISK_OFF)));

/* ------------------------------------------------------------------ HTPselect */
atom_t HTPselect(filerec_t *file_rec, uint16 tag, uint16 ref)
    __CPROVER_requires(FILE_OK && TREE_OK && file_rec == g_frec && g_ddobj[0] == NULL && g_ddobj[1] == NULL)
    __CPROVER_requires(BASETAG(tag) == g_etag[0] && ref == g_eref[0])
    __CPROVER_assigns(g_ddobj[0], g_ddobj[1], g_reg_n, g_reg_failed)
    __CPROVER_ensures((tag == DFTAG_NULL || tag == DFTAG_WILDCARD || ref == DFREF_WILDCARD || !g_epres[0] || g_eslot[0] == NULL) ==>
                      (__CPROVER_return_value == FAIL && g_reg_n == 0 && !g_reg_failed))
    __CPROVER_ensures((DD_LIVE_TAG(tag) && ref != DFREF_WILDCARD && g_epres[0] && g_eslot[0] != NULL && !g_reg_failed) ==>
                      (__CPROVER_return_value == g_ddid0 && g_ddobj[0] == g_eslot[0] && g_reg_n == 1))
    __CPROVER_ensures(__CPROVER_return_value == FAIL ==> (g_ddobj[0] == NULL && g_ddobj[1] == NULL));

/* ------------------------------------------------------------------ HDcheck_tagref */
int HDcheck_tagref(int32 file_id, uint16 tag, uint16 ref)
    __CPROVER_requires(FILE_OK && TREE_OK && BASETAG(tag) == g_etag[0] && ref == g_eref[0])
    __CPROVER_assigns()
    __CPROVER_ensures((file_id != g_fid || tag == DFTAG_NULL || tag == DFTAG_WILDCARD || ref == DFREF_WILDCARD) ==> __CPROVER_return_value == -1)
    __CPROVER_ensures((file_id == g_fid && DD_LIVE_TAG(tag) && ref != DFREF_WILDCARD) ==>
                      __CPROVER_return_value == ((g_epres[0] && g_eslot[0] != NULL) ? 1 : 0));


/* ------------------------------------------------------------------ Hdeldd / HDreuse_tagref (public: select by (tag, ref), then delete / reset) */
#define PUB_ARGS_BAD(file_id, tag, ref) ((file_id) != g_fid || g_frec->refcount == 0 || (tag) == DFTAG_WILDCARD || (ref) == DFREF_WILDCARD)
#define PUB_ENV(tag, ref)                                                                                     \
    (FILE_OK && SEL_OK && TREE_OK && g_ddobj[0] == NULL && g_ddobj[1] == NULL && BASETAG(tag) == g_etag[0] &&     \
     (ref) == g_eref[0] && g_found0 == (g_epres[0] && g_eslot[0] != NULL) && g_seq == 0 && EXT_OK(g_off0, g_len0) && (g_eslot[0] == NULL || SEL_REGISTERED))
#define PUB_FOUND(tag) (g_epres[0] && g_eslot[0] != NULL && DD_LIVE_TAG(tag))
#define PUB_FOUND0(tag) (g_found0 && DD_LIVE_TAG(tag)) /* the same on entry */
int Hdeldd(int32 file_id, uint16 tag, uint16 ref)
    __CPROVER_requires(PUB_ENV(tag, ref) && file_id != g_ddid0 && file_id != g_ddid0 + 1)
    __CPROVER_assigns(g_seldd->tag, g_frec->ddnull, g_frec->ddnull_idx, g_blk.dirty, g_frec->dirty, g_frec->f_cur_off, g_frec->f_end_off,
                      HP_GHOSTS, g_ebit[0], g_eslot[0], g_ddobj[0], g_ddobj[1], g_rem_n, g_free_n, g_reg_n, g_reg_failed)
    /* refused calls and "no such object" change nothing */
    __CPROVER_ensures((PUB_ARGS_BAD(file_id, tag, ref) || !(g_frec->access & DFACC_WRITE) || !PUB_FOUND0(tag)) ==>
                      (__CPROVER_return_value == FAIL && g_seq == 0 && g_reg_n == 0))
    /* (after a failed disk write the in-memory state is not specified by C12) */
    __CPROVER_ensures((__CPROVER_return_value == FAIL && !g_hp_failed) ==>
                      (g_seldd->tag == g_tag0 && g_ebit[0] == __CPROVER_old(g_ebit[0]) && g_eslot[0] == __CPROVER_old(g_eslot[0])))
    /* an existing object on a writable file is deleted unless the disk or the atom table fails */
    __CPROVER_ensures((!PUB_ARGS_BAD(file_id, tag, ref) && (g_frec->access & DFACC_WRITE) && PUB_FOUND0(tag) && !g_hp_failed &&
                       !g_reg_failed) ==> __CPROVER_return_value == SUCCEED)
    __CPROVER_ensures(__CPROVER_return_value == SUCCEED ==>
                      (g_seldd->tag == DFTAG_NULL && g_ebit[0] == BV_FALSE && g_eslot[0] == NULL && g_ddobj[0] == NULL && g_ddobj[1] == NULL &&
                       g_frec->ddnull == NULL && g_frec->ddnull_idx == -1))
    __CPROVER_ensures((g_frec->cache && __CPROVER_return_value == SUCCEED) ==>
                      (g_seq == 0 && g_blk.dirty == TRUE && (g_frec->dirty & DDLIST_DIRTY) != 0))
    /* persistence with caching off: the slot on disk is empty */
    __CPROVER_ensures((!g_frec->cache && __CPROVER_return_value == SUCCEED && A_IN_DD && g_offA - DD_DISK_OFF < 2) ==>
                      (g_seqA != 0 && g_byteA == BE16(DFTAG_NULL, g_offA - DD_DISK_OFF)));

int HDreuse_tagref(int32 file_id, uint16 tag, uint16 ref)
    __CPROVER_requires(PUB_ENV(tag, ref) && file_id != g_ddid0 && file_id != g_ddid0 + 1)
    __CPROVER_assigns(g_seldd->offset, g_seldd->length, g_blk.dirty, g_frec->dirty, g_frec->f_cur_off, g_frec->f_end_off, HP_GHOSTS,
                      g_ddobj[0], g_ddobj[1], g_rem_n, g_reg_n, g_reg_failed)
    __CPROVER_ensures((PUB_ARGS_BAD(file_id, tag, ref) || !(g_frec->access & DFACC_WRITE) || !PUB_FOUND(tag)) ==>
                      (__CPROVER_return_value == FAIL && g_seq == 0 && g_reg_n == 0 && g_seldd->offset == g_off0 && g_seldd->length == g_len0))
    __CPROVER_ensures((!PUB_ARGS_BAD(file_id, tag, ref) && (g_frec->access & DFACC_WRITE) && PUB_FOUND(tag) && !g_hp_failed && !g_reg_failed) ==>
                      __CPROVER_return_value == SUCCEED)
    /* the descriptor keeps its tag/ref and registration (not in the frame) and loses its data extent */
    __CPROVER_ensures(__CPROVER_return_value == SUCCEED ==>
                      (g_seldd->offset == INVALID_OFFSET && g_seldd->length == INVALID_LENGTH && g_ddobj[0] == NULL && g_ddobj[1] == NULL &&
                       g_frec->f_end_off == g_fend0))
    __CPROVER_ensures((!g_frec->cache && __CPROVER_return_value == SUCCEED && A_IN_DD) ==>
                      g_byteA == DD_BYTE(g_tag0, g_ref0, INVALID_OFFSET, INVALID_LENGTH, g_offA - DD_DISK_OFF));

/* ------------------------------------------------------------------ Hdupdd */
#ifdef H4V_OB_DUPDD
/* trusted contract (body: DD-list search, hfiledd_dir_u.c): the case 'a free slot exists' */
static int HTIfind_dd(filerec_t *file_rec, uint16 look_tag, uint16 look_ref, dd_t **pdd, int direction)
    __CPROVER_requires(pdd != NULL && file_rec == g_frec && look_tag == DFTAG_NULL && look_ref == DFREF_WILDCARD && direction == DF_FORWARD)
    __CPROVER_assigns(*pdd, g_frec->ddnull, g_frec->ddnull_idx)
    __CPROVER_ensures(__CPROVER_return_value == SUCCEED)
    __CPROVER_ensures(__CPROVER_pointer_equals(*pdd, g_free_slot));
#define FREE_DISK_OFF ((long)g_blk.myoffset + NDDS_SZ + OFFSET_SZ + (long)g_fsel * DD_SZ)
#define DUP_BAD(file_id) ((file_id) != g_fid || g_frec->refcount == 0 || !(g_frec->access & DFACC_WRITE))
#define NEW_ARGS_BAD(tag, ref) ((tag) == DFTAG_NULL || (tag) == DFTAG_WILDCARD || (ref) == DFREF_WILDCARD)
int Hdupdd(int32 file_id, uint16 tag, uint16 ref, uint16 old_tag, uint16 old_ref)
    __CPROVER_requires(PUB_ENV(old_tag, old_ref) && file_id != g_ddid0 && file_id != g_ddid0 + 1)
    __CPROVER_requires(BASETAG(tag) == g_etag[1] && ref == g_eref[1] && (g_eslot[1] == NULL || g_eslot[1] == (void *)&g_other_dd) &&
                       (!g_ebit[1] == (g_eslot[1] == NULL)))
    __CPROVER_requires(g_fsel >= 0 && g_fsel < API_NDDS && g_fsel != g_sel && g_free_slot == &g_ddl[g_fsel] && g_free_slot->tag == DFTAG_NULL &&
                       g_free_slot->blk == &g_blk)
    __CPROVER_assigns(g_free_slot->tag, g_free_slot->ref, g_free_slot->offset, g_free_slot->length, g_frec->ddnull, g_frec->ddnull_idx, g_blk.dirty,
                      g_frec->dirty, g_frec->f_cur_off, g_frec->f_end_off, HP_GHOSTS, g_ebit[1], g_eslot[1], g_epres[0], g_epres[1], g_tip[0], g_tip[1],
                      g_tip[2], g_ins_n, g_ins_node, g_da_destroyed, g_ddobj[0], g_ddobj[1], g_rem_n, g_reg_n, g_reg_failed)
    /* refused: bad id / read-only / no such old object / the new pair exists already: nothing is created */
    __CPROVER_ensures((DUP_BAD(file_id) || !(PUB_FOUND0(old_tag) && old_ref != DFREF_WILDCARD) || NEW_ARGS_BAD(tag, ref) || __CPROVER_old(g_ebit[1])) ==>
                      (__CPROVER_return_value == FAIL && g_free_slot->tag == DFTAG_NULL && g_seq == 0 && g_ebit[1] == __CPROVER_old(g_ebit[1]) &&
                       g_eslot[1] == __CPROVER_old(g_eslot[1]) && g_da_destroyed == 0))
    /* success: the new descriptor has the old one's extent and is registered; the old one is outside the frame */
    __CPROVER_ensures(__CPROVER_return_value == SUCCEED ==>
                      (g_free_slot->tag == tag && g_free_slot->ref == ref && g_free_slot->offset == g_off0 && g_free_slot->length == g_len0 &&
                       g_ebit[1] == BV_TRUE && g_eslot[1] == (void *)g_free_slot && g_epres[1] && g_ddobj[0] == NULL && g_ddobj[1] == NULL &&
                       g_da_destroyed == 0))
    __CPROVER_ensures((!DUP_BAD(file_id) && (PUB_FOUND0(old_tag) && old_ref != DFREF_WILDCARD) && !NEW_ARGS_BAD(tag, ref) && !__CPROVER_old(g_ebit[1]) &&
                       __CPROVER_old(g_epres[1]) && !g_hp_failed && !g_reg_failed) ==> __CPROVER_return_value == SUCCEED)
    __CPROVER_ensures((g_frec->cache && __CPROVER_return_value == SUCCEED) ==>
                      (g_seq == 0 && g_blk.dirty == TRUE && (g_frec->dirty & DDLIST_DIRTY) != 0))
    __CPROVER_ensures((!g_frec->cache && __CPROVER_return_value == SUCCEED && g_offA >= FREE_DISK_OFF && g_offA < FREE_DISK_OFF + DD_SZ) ==>
                      g_byteA == DD_BYTE(tag, ref, g_off0, g_len0, g_offA - FREE_DISK_OFF));
#endif

/* ------------------------------------------------------------------ Hnumber (real HTIcount_dd inlined, one block) */
unsigned g_cnt_ref; /* reference count made by the harness: wildcard = every descriptor that is neither empty nor free */
int32 Hnumber(int32 file_id, uint16 tag)
    __CPROVER_requires(FILE_OK && file_id != g_ddid0 && file_id != g_ddid0 + 1)
    __CPROVER_assigns()
    __CPROVER_ensures((file_id != g_fid || g_frec->refcount == 0) ==> __CPROVER_return_value == FAIL)
    __CPROVER_ensures((file_id == g_fid && g_frec->refcount != 0) ==> __CPROVER_return_value == (int32)g_cnt_ref);

/* ------------------------------------------------------------------ Hfind */
#ifdef H4V_OB_FIND
/* HTIfind_dd as an oracle with a call log (its search contract: hfiledd_dir_u.c): call n answers g_fres[n] (NULL: FAIL) */
dd_t *g_fres1, *g_fres2;
int   g_fn;                                  /* number of HTIfind_dd calls */
uint16 g_l1_tag, g_l1_ref, g_l2_tag, g_l2_ref;
int    g_l1_dir, g_l2_dir, g_l1_start, g_l2_start; /* start cursor: 0 NULL, 1 == g_fres1, 2 anything else */
uint16 g_ft0, g_fr0;                         /* *find_tag, *find_ref on entry */
int32  g_fo0, g_fl0;
#define START_CODE(p) ((p) == NULL ? 0 : (p) == g_fres1 ? 1 : 2)
static int HTIfind_dd(filerec_t *file_rec, uint16 look_tag, uint16 look_ref, dd_t **pdd, int direction)
    __CPROVER_requires(pdd != NULL && file_rec == g_frec && g_fn >= 0 && g_fn < 2)
    __CPROVER_assigns(*pdd, g_fn, g_l1_tag, g_l1_ref, g_l1_dir, g_l1_start, g_l2_tag, g_l2_ref, g_l2_dir, g_l2_start)
    __CPROVER_ensures(g_fn == __CPROVER_old(g_fn) + 1)
    __CPROVER_ensures(g_fn == 1 ==> (g_l1_tag == look_tag && g_l1_ref == look_ref && g_l1_dir == direction && g_l1_start == START_CODE(__CPROVER_old(*pdd))))
    __CPROVER_ensures(g_fn == 2 ==> (g_l2_tag == look_tag && g_l2_ref == look_ref && g_l2_dir == direction && g_l2_start == START_CODE(__CPROVER_old(*pdd)) &&
                                     g_l1_tag == __CPROVER_old(g_l1_tag) && g_l1_ref == __CPROVER_old(g_l1_ref) && g_l1_dir == __CPROVER_old(g_l1_dir) &&
                                     g_l1_start == __CPROVER_old(g_l1_start)))
    __CPROVER_ensures(__CPROVER_return_value == ((g_fn == 1 ? g_fres1 : g_fres2) != NULL ? SUCCEED : FAIL))
    __CPROVER_ensures(__CPROVER_return_value == FAIL || __CPROVER_pointer_equals(*pdd, g_fn == 1 ? g_fres1 : g_fres2));
#define FIND_ARGS_BAD(file_id, direction) ((file_id) == FAIL || (file_id) != g_fid || g_frec->refcount == 0 || ((direction) != DF_FORWARD && (direction) != DF_BACKWARD))
#define FIND_CONT (g_ft0 != 0 || g_fr0 != 0)
#define FIND_OUT_IS(d) (*find_tag == (d)->tag && *find_ref == (d)->ref && *find_offset == (d)->offset && *find_length == (d)->length)
#define FIND_OUT_OLD (*find_tag == g_ft0 && *find_ref == g_fr0 && *find_offset == g_fo0 && *find_length == g_fl0)
int Hfind(int32 file_id, uint16 search_tag, uint16 search_ref, uint16 *find_tag, uint16 *find_ref, int32 *find_offset, int32 *find_length, int direction)
    __CPROVER_requires(FILE_OK && file_id != g_ddid0 && file_id != g_ddid0 + 1 && g_fn == 0)
    __CPROVER_requires(__CPROVER_is_fresh(find_tag, sizeof(uint16)) && __CPROVER_is_fresh(find_ref, sizeof(uint16)) &&
                       __CPROVER_is_fresh(find_offset, sizeof(int32)) && __CPROVER_is_fresh(find_length, sizeof(int32)))
    __CPROVER_requires(*find_tag == g_ft0 && *find_ref == g_fr0 && *find_offset == g_fo0 && *find_length == g_fl0)
    /* what HTIfind_dd's contract says about its answers: a live descriptor of the list */
    __CPROVER_requires((g_fres1 == NULL || (g_fres1 == &g_ddl[g_sel] && g_fres1->tag != DFTAG_NULL)) &&
                       (g_fres2 == NULL || (g_fres2 == &g_ddl[g_fsel] && g_fres2->tag != DFTAG_NULL)) && g_sel >= 0 && g_sel < API_NDDS &&
                       g_fsel >= 0 && g_fsel < API_NDDS)
    __CPROVER_assigns(*find_tag, *find_ref, *find_offset, *find_length, g_fn, g_l1_tag, g_l1_ref, g_l1_dir, g_l1_start, g_l2_tag, g_l2_ref,
                      g_l2_dir, g_l2_start)
    __CPROVER_ensures(FIND_ARGS_BAD(file_id, direction) ==> (__CPROVER_return_value == FAIL && g_fn == 0 && FIND_OUT_OLD))
    /* a fresh search: ONE lookup of (search_tag, search_ref) from the end of the list the direction starts at */
    __CPROVER_ensures((!FIND_ARGS_BAD(file_id, direction) && !FIND_CONT) ==>
                      (g_fn == 1 && g_l1_tag == search_tag && g_l1_ref == search_ref && g_l1_dir == direction && g_l1_start == 0 &&
                       __CPROVER_return_value == (g_fres1 != NULL ? SUCCEED : FAIL) && (g_fres1 != NULL ? FIND_OUT_IS(g_fres1) : FIND_OUT_OLD)))
    /* continuing: locate the entry reported last time, then the NEXT match strictly after/before it in the same direction */
    __CPROVER_ensures((!FIND_ARGS_BAD(file_id, direction) && FIND_CONT) ==>
                      (g_l1_tag == g_ft0 && g_l1_ref == g_fr0 && g_l1_dir == direction && g_l1_start == 0))
    __CPROVER_ensures((!FIND_ARGS_BAD(file_id, direction) && FIND_CONT && g_fres1 == NULL) ==>
                      (__CPROVER_return_value == FAIL && g_fn == 1 && FIND_OUT_OLD))
    __CPROVER_ensures((!FIND_ARGS_BAD(file_id, direction) && FIND_CONT && g_fres1 != NULL) ==>
                      (g_fn == 2 && g_l2_tag == search_tag && g_l2_ref == search_ref && g_l2_dir == direction && g_l2_start == 1 &&
                       __CPROVER_return_value == (g_fres2 != NULL ? SUCCEED : FAIL) && (g_fres2 != NULL ? FIND_OUT_IS(g_fres2) : FIND_OUT_OLD)))
    /* never an empty slot */
    __CPROVER_ensures(__CPROVER_return_value == SUCCEED ==> *find_tag != DFTAG_NULL);
#endif

#ifdef H4V_NATIVE
#include "h4v_native_wrap.h"
#endif

/* ================================================================== harnesses */
#define FILL_DD(i)                                                                                            \
    do {                                                                                                      \
        H4V_ND(uint16, dd##i##_tag);                                                                          \
        H4V_ND(uint16, dd##i##_ref);                                                                          \
        H4V_ND(int32, dd##i##_off);                                                                           \
        H4V_ND(int32, dd##i##_len);                                                                           \
        g_ddl[i].tag = dd##i##_tag; g_ddl[i].ref = dd##i##_ref; g_ddl[i].offset = dd##i##_off;                \
        g_ddl[i].length = dd##i##_len; g_ddl[i].blk = &g_blk;                                                 \
    } while (0)

static void
mk_env(void)
{
    h4v_hp_init(1);
    g_frec = &g_frec_obj;
    H4V_ND(int, f_cache);
    H4V_ND(int, f_access);
    H4V_ND(int, f_refcount);
    H4V_ND(int32, f_end_off);
    H4V_ND(int32, f_dirty);
    H4V_ND(int32, b_off);
    H4V_ND(int, b_dirty);
    H4V_ND(int32, f_nullidx);
    H4V_ND(int, f_nullset);
    H4V_HAVOC(int32, g_fid);
    H4V_HAVOC(int32, g_ddid0);
    H4V_ASSUME(f_refcount >= 0 && g_ddid0 > 0 && g_ddid0 < INT32_MAX - 1 && g_fid != FAIL && g_fid != g_ddid0 && g_fid != g_ddid0 + 1);
    g_frec->access = f_access;
    g_frec->refcount = f_refcount;
    g_frec->cache = f_cache ? 1 : 0;
    g_frec->dirty = f_dirty;
    g_frec->f_cur_off = 0;
    g_frec->f_end_off = f_end_off;
    g_fend0 = f_end_off;
    g_frec->tag_tree = NULL;
    g_frec->ddhead = g_frec->ddlast = &g_blk;
    g_frec->ddnull = f_nullset ? &g_blk : NULL;
    g_frec->ddnull_idx = f_nullidx;
    g_blk.myoffset = b_off;
    g_blk.ndds = API_NDDS;
    g_blk.dirty = b_dirty ? TRUE : FALSE;
    g_blk.frec = g_frec;
    g_blk.next = g_blk.prev = NULL;
    g_blk.nextoffset = 0;
    g_blk.ddlist = g_ddl;
    FILL_DD(0);
    FILL_DD(1);
    FILL_DD(2);
#if API_NDDS > 3
    FILL_DD(3);
#endif
    g_other_dd = g_ddl[0];
    H4V_HAVOC(int, g_sel);
    H4V_ASSUME(g_sel >= 0 && g_sel < API_NDDS);
    g_seldd = &g_ddl[g_sel];
    g_tag0 = g_seldd->tag; g_ref0 = g_seldd->ref; g_off0 = g_seldd->offset; g_len0 = g_seldd->length;
    /* tag tree */
    H4V_ND(uint16, e0_tag); H4V_ND(uint16, e1_tag); H4V_ND(int32, e0_ref); H4V_ND(int32, e1_ref);
    H4V_ND(int, e0_pres); H4V_ND(int, e1_pres); H4V_ND(int, e0_bit); H4V_ND(int, e1_bit);
    g_etag[0] = e0_tag; g_etag[1] = e1_tag; g_eref[0] = e0_ref; g_eref[1] = e1_ref;
    g_epres[0] = e0_pres ? 1 : 0; g_epres[1] = e1_pres ? 1 : 0;
    g_ebit[0] = e0_bit ? 1 : 0; g_ebit[1] = e1_bit ? 1 : 0;
    g_eslot[0] = g_eslot[1] = NULL;
    for (int i = 0; i <= NE; i++) {
        g_tip[i]  = &g_ti[i];
        g_ti[i].tag = i < NE ? g_etag[i] : 0;
        g_ti[i].b = (bv_ptr)&g_bvo[i];
        g_ti[i].d = (dynarr_p)&g_dao[i];
    }
    g_ins_n = g_ins_node = g_da_destroyed = g_reg_n = g_rem_n = g_reg_failed = g_free_n = 0;
    g_ddobj[0] = g_ddobj[1] = NULL;
}
/* ghost entry 0 := the selected DD, registered */
static void
reg_sel(void)
{
    g_etag[0] = BASETAG(g_tag0);
    g_ti[0].tag = g_etag[0];
    g_eref[0] = g_ref0;
    g_epres[0] = 1;
    g_ebit[0] = 1;
    g_eslot[0] = g_seldd;
    if (g_etag[1] == g_etag[0])
        g_epres[1] = 1;
}

void
h_HTPinquire(void)
{
    mk_env();
    H4V_ND(int, id_live); H4V_ND(int, id_other);
    H4V_ND(int, want_tag); H4V_ND(int, want_ref); H4V_ND(int, want_off); H4V_ND(int, want_len);
    uint16 o_tag = 7, o_ref = 7; int32 o_off = 7, o_len = 7;
    if (id_live) g_ddobj[0] = g_seldd;
    H4V_ASSUME(FILE_OK);
    int r = HTPinquire(id_other ? g_ddid0 + 1 : g_ddid0, want_tag ? &o_tag : NULL, want_ref ? &o_ref : NULL, want_off ? &o_off : NULL,
                       want_len ? &o_len : NULL);
    H4V_COVER(r == SUCCEED && !want_tag && want_len, "HTPinquire partial");
    H4V_COVER(r == FAIL, "HTPinquire bad id");
    H4V_CANARY("HTPinquire end");
}
void
h_HTPis_special(void)
{
    mk_env();
    H4V_ND(int, id_live); H4V_ND(int, id_other);
    if (id_live) g_ddobj[0] = g_seldd;
    H4V_ASSUME(FILE_OK);
    int r = HTPis_special(id_other ? g_ddid0 + 1 : g_ddid0);
    H4V_COVER(r == TRUE, "HTPis_special yes");
    H4V_COVER(r == FALSE && id_live && !id_other, "HTPis_special no");
    H4V_CANARY("HTPis_special end");
}
void
h_HTPendaccess(void)
{
    mk_env();
    H4V_ND(int, id_live); H4V_ND(int, id_other);
    if (id_live) g_ddobj[0] = g_seldd;
    H4V_ASSUME(FILE_OK && TREE_OK);
    int r = HTPendaccess(id_other ? g_ddid0 + 1 : g_ddid0);
    H4V_COVER(r == SUCCEED, "HTPendaccess ok");
    H4V_COVER(r == FAIL, "HTPendaccess bad id");
    H4V_CANARY("HTPendaccess end");
}
void
h_HTPupdate(void)
{
    mk_env();
    g_frec->access = DFACC_RDWR;
    g_ddobj[0] = g_seldd;
    H4V_ND(int32, new_off); H4V_ND(int32, new_len);
    H4V_ASSUME(FILE_OK && TREE_OK && EXT_OK(NEWV(new_off, g_off0), NEWV(new_len, g_len0)));
    int r = HTPupdate(g_ddid0, new_off, new_len);
    H4V_COVER(r == SUCCEED && new_off == -2 && new_len != -2 && !g_frec->cache, "HTPupdate length only, write-through");
    H4V_COVER(r == SUCCEED && new_off != -2 && new_len == -2 && g_frec->cache, "HTPupdate offset only, cached");
    H4V_COVER(r == SUCCEED && g_frec->f_end_off > g_fend0, "HTPupdate grows the file");
    H4V_COVER(r == FAIL, "HTPupdate write failure");
    H4V_CANARY("HTPupdate end");
}
void
h_HTPdelete(void)
{
    mk_env();
    g_frec->access = DFACC_RDWR;
    reg_sel();
    g_ddobj[0] = g_seldd;
    H4V_ASSUME(FILE_OK && TREE_OK && SEL_REGISTERED && EXT_OK(g_off0, g_len0));
    int r = HTPdelete(g_ddid0);
    H4V_COVER(r == SUCCEED && g_frec->cache, "HTPdelete cached");
    H4V_COVER(r == SUCCEED && !g_frec->cache, "HTPdelete write-through");
    H4V_COVER(r == FAIL, "HTPdelete write failure");
    H4V_CANARY("HTPdelete end");
}
void
h_HTPselect(void)
{
    mk_env();
    H4V_ND(int, sel_present);
    if (sel_present) reg_sel();
    H4V_ND(uint16, tag);
    H4V_ASSUME(FILE_OK && TREE_OK && BASETAG(tag) == g_etag[0]);
    atom_t r = HTPselect(g_frec, tag, (uint16)g_eref[0]);
    H4V_COVER(r != FAIL, "HTPselect found");
    H4V_COVER(r == FAIL && g_epres[0], "HTPselect no such ref");
    H4V_COVER(r == FAIL && !g_epres[0], "HTPselect no such tag");
    H4V_CANARY("HTPselect end");
}
void
h_HDcheck_tagref(void)
{
    mk_env();
    H4V_ND(int, sel_present); H4V_ND(int, good_id);
    if (sel_present) reg_sel();
    H4V_ND(uint16, tag);
    H4V_ND(int32, bad_fid);
    H4V_ASSUME(bad_fid != g_ddid0 && bad_fid != g_ddid0 + 1);
    H4V_ASSUME(FILE_OK && TREE_OK && BASETAG(tag) == g_etag[0]);
    int r = HDcheck_tagref(good_id ? g_fid : bad_fid, tag, (uint16)g_eref[0]);
    H4V_COVER(r == 1, "HDcheck_tagref exists");
    H4V_COVER(r == 0, "HDcheck_tagref does not exist");
    H4V_COVER(r == -1, "HDcheck_tagref bad args");
    H4V_CANARY("HDcheck_tagref end");
}

static int32
pub_setup(uint16 *ptag)
{
    mk_env();
    H4V_ND(int, sel_present); H4V_ND(int, good_id);
    if (sel_present) reg_sel();
    H4V_ND(uint16, tag);
    H4V_ND(int32, bad_fid);
    H4V_ASSUME(bad_fid != g_ddid0 && bad_fid != g_ddid0 + 1);
    H4V_ASSUME(FILE_OK && TREE_OK && BASETAG(tag) == g_etag[0] && EXT_OK(g_off0, g_len0));
    *ptag = tag;
    g_found0 = (g_epres[0] && g_eslot[0] != NULL);
    return good_id ? g_fid : bad_fid;
}
void
h_Hdeldd(void)
{
    uint16 tag;
    int32  fid = pub_setup(&tag);
    int    r   = Hdeldd(fid, tag, (uint16)g_eref[0]);
    H4V_COVER(r == SUCCEED && !g_frec->cache, "Hdeldd write-through");
    H4V_COVER(r == SUCCEED && g_frec->cache, "Hdeldd cached");
    H4V_COVER(r == FAIL && g_hp_failed, "Hdeldd disk failure");
    H4V_COVER(r == FAIL && fid == g_fid && (g_frec->access & DFACC_WRITE) && g_frec->refcount && !g_hp_failed && !g_reg_failed, "Hdeldd no such object");
    H4V_CANARY("Hdeldd end");
}
void
h_HDreuse_tagref(void)
{
    uint16 tag;
    int32  fid = pub_setup(&tag);
    int    r   = HDreuse_tagref(fid, tag, (uint16)g_eref[0]);
    H4V_COVER(r == SUCCEED && !g_frec->cache, "HDreuse_tagref write-through");
    H4V_COVER(r == SUCCEED && g_frec->cache, "HDreuse_tagref cached");
    H4V_COVER(r == FAIL && !(g_frec->access & DFACC_WRITE), "HDreuse_tagref read-only");
    H4V_CANARY("HDreuse_tagref end");
}
#ifdef H4V_OB_DUPDD
void
h_Hdupdd(void)
{
    uint16 old_tag;
    int32  fid = pub_setup(&old_tag);
    H4V_ND(uint16, tag);
    H4V_ND(int, new_exists);
    H4V_HAVOC(int, g_fsel);
    H4V_ASSUME(g_fsel >= 0 && g_fsel < API_NDDS && g_fsel != g_sel);
    g_free_slot = &g_ddl[g_fsel];
    g_free_slot->tag = DFTAG_NULL;
    g_free_slot->ref = DFREF_NONE;
    g_ebit[1]  = (new_exists && g_epres[1]) ? 1 : 0;
    g_eslot[1] = g_ebit[1] ? (void *)&g_other_dd : NULL;
    H4V_ASSUME(BASETAG(tag) == g_etag[1]);
    int r = Hdupdd(fid, tag, (uint16)g_eref[1], old_tag, (uint16)g_eref[0]);
    H4V_COVER(r == SUCCEED && g_ins_n == 0 && g_etag[0] == g_etag[1], "Hdupdd same tag");
    H4V_COVER(r == SUCCEED && g_ins_n == 1, "Hdupdd new tag");
    H4V_COVER(r == FAIL && new_exists && fid == g_fid, "Hdupdd new pair exists");
    H4V_COVER(r == SUCCEED && !g_frec->cache, "Hdupdd write-through");
    H4V_CANARY("Hdupdd end");
}
#endif
void
h_Hnumber(void)
{
    mk_env();
    H4V_ND(int, good_id);
    H4V_ND(uint16, tag);
    H4V_ND(int32, bad_fid);
    H4V_ASSUME(bad_fid != g_ddid0 && bad_fid != g_ddid0 + 1);
    H4V_ASSUME(FILE_OK);
    uint16 sp = (uint16)((~tag & 0x8000) ? (tag | 0x4000) : DFTAG_NULL);
    g_cnt_ref = 0;
    for (int i = 0; i < API_NDDS; i++) {
        uint16 t = g_ddl[i].tag;
        if (tag == DFTAG_WILDCARD ? (t != DFTAG_NULL && t != DFTAG_FREE) : (t == tag || (sp != DFTAG_NULL && t == sp)))
            g_cnt_ref++;
    }
    int32 r = Hnumber(good_id ? g_fid : bad_fid, tag);
    H4V_COVER(r == API_NDDS, "Hnumber all");
    H4V_COVER(r == 1 && tag == DFTAG_WILDCARD, "Hnumber wildcard one live");
    H4V_COVER(r == FAIL, "Hnumber bad id");
    H4V_CANARY("Hnumber end");
}
#ifdef H4V_OB_FIND
void
h_Hfind(void)
{
    mk_env();
    H4V_ND(int, good_id); H4V_ND(int, have1); H4V_ND(int, have2);
    H4V_ND(uint16, search_tag); H4V_ND(uint16, search_ref); H4V_ND(int, direction);
    H4V_ND(int32, bad_fid);
    H4V_ASSUME(bad_fid != g_ddid0 && bad_fid != g_ddid0 + 1);
    H4V_HAVOC(int, g_fsel);
    H4V_HAVOC(uint16, g_ft0); H4V_HAVOC(uint16, g_fr0); H4V_HAVOC(int32, g_fo0); H4V_HAVOC(int32, g_fl0);
    H4V_ASSUME(g_fsel >= 0 && g_fsel < API_NDDS && FILE_OK);
    g_fres1 = have1 ? &g_ddl[g_sel] : NULL;
    g_fres2 = have2 ? &g_ddl[g_fsel] : NULL;
    H4V_ASSUME((!have1 || g_fres1->tag != DFTAG_NULL) && (!have2 || g_fres2->tag != DFTAG_NULL));
    g_fn = 0;
    g_l1_tag = g_l1_ref = g_l2_tag = g_l2_ref = 0; g_l1_dir = g_l2_dir = g_l1_start = g_l2_start = -7;
    uint16 *ft = malloc(sizeof(uint16)), *fr = malloc(sizeof(uint16));
    int32  *fo = malloc(sizeof(int32)), *fl = malloc(sizeof(int32));
    H4V_ASSUME(ft && fr && fo && fl);
    *ft = g_ft0; *fr = g_fr0; *fo = g_fo0; *fl = g_fl0;
    int r = Hfind(good_id ? g_fid : bad_fid, search_tag, search_ref, ft, fr, fo, fl, direction);
    H4V_COVER(r == SUCCEED && g_fn == 2 && direction == DF_BACKWARD, "Hfind continued backward");
    H4V_COVER(r == SUCCEED && g_fn == 1 && direction == DF_FORWARD, "Hfind fresh forward");
    H4V_COVER(r == FAIL && g_fn == 2, "Hfind no more");
    H4V_COVER(r == FAIL && g_fn == 1 && (g_ft0 || g_fr0), "Hfind stale cursor");
    H4V_CANARY("Hfind end");
}
#endif

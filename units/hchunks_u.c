/* Verification unit: hdf/src/hchunks.c (C04: chunk index arithmetic, verified in place) */
#include "h4v.h"
#include "hchunks_native_weak.h"
#include "h4v_err.h"

/* ghost dimension index: a proof for arbitrary g_k is a proof for every dimension
   (declared before the real file because the injected loop invariants mention it) */
int32 g_k;
/* compute_chunk_to_array, one dimension: chunk origin + position, the position clamped to
   last_chunk_length on the last chunk of the dimension */
#define C2A_VAL(ci, cp, d)                                                                           \
    ((ci) * (d).chunk_length +                                                                       \
     (((ci) == (d).num_chunks - 1 && (cp) > (d).last_chunk_length) ? (d).last_chunk_length : (cp)))

/* representation invariant of one DIM_REC exactly as HMCcreate (hchunks.c 1544-1552) and
   HMCIstaccess (1014-1024) compute it; chunk_length may exceed dim_length (SDsetchunk only
   demands chunk_length >= 1) */
#define DIM_WF(d)                                                                                    \
    ((d).dim_length >= 1 && (d).chunk_length >= 1 && (d).num_chunks >= 1 &&                          \
     (d).last_chunk_length >= 1 && (d).last_chunk_length <= (d).chunk_length &&                      \
     (d).num_chunks <= (d).dim_length &&                                                             \
     (int64_t)((d).num_chunks - 1) * (d).chunk_length + (d).last_chunk_length == (int64_t)(d).dim_length)
/* length of the chunk row the position (sbi,spb) of the fastest dimension lies in */
#define ROW_LEN(d, sb) ((sb) == (d).num_chunks - 1 ? (d).last_chunk_length : (d).chunk_length)
/* position (sb,sp) along one dimension is a real element (not in the ghost area of an edge chunk) */
#define POS_OK(d, sb, sp)                                                                            \
    ((sb) >= 0 && (sb) < (d).num_chunks && (sp) >= 0 && (sp) < (d).chunk_length &&                   \
     ((sb) != (d).num_chunks - 1 || (sp) < (d).last_chunk_length))

#include "hchunks.c"

#ifndef NT
#define NT 4
#endif
#ifndef MAXND
#define MAXND 32 /* rank bound of the contracts that need a universally quantified requires */
#endif

/* ---- calculate_chunk_for_chunk: loop-free, proved per number-type size NT ---------------------
   the run handed to memcpy is not empty, does not exceed what is left of the request, stays
   inside the current row of the current chunk (never enters the ghost area of an edge chunk,
   never runs into the next chunk) and is maximal with these two limits */
static void calculate_chunk_for_chunk(int32 *chunk_size, int32 ndims, int32 nt_size, int32 len, int32 bytes_finished,
                                      int32 *sbi, int32 *spb, DIM_REC *ddims)
    __CPROVER_requires(ndims >= 1 && ndims <= 1024 && nt_size == NT)
    __CPROVER_requires(DIM_WF(ddims[ndims - 1]))
    /* a chunk row in bytes fits int32 (info->chunk_size * nt_size is an int32 in HMCreadChunk) */
    __CPROVER_requires(ddims[ndims - 1].chunk_length <= 2147483647 / NT)
    __CPROVER_requires(POS_OK(ddims[ndims - 1], sbi[ndims - 1], spb[ndims - 1]))
    __CPROVER_requires(len > 0 && bytes_finished >= 0 && bytes_finished < len)
    __CPROVER_assigns(*chunk_size)
    __CPROVER_ensures(*chunk_size > 0 && *chunk_size <= len - bytes_finished)
    __CPROVER_ensures((int64_t)spb[ndims - 1] * NT + *chunk_size <=
                      (int64_t)ROW_LEN(ddims[ndims - 1], sbi[ndims - 1]) * NT)
    __CPROVER_ensures(*chunk_size == len - bytes_finished ||
                      (int64_t)spb[ndims - 1] * NT + *chunk_size ==
                          (int64_t)ROW_LEN(ddims[ndims - 1], sbi[ndims - 1]) * NT);

/* ---- helpers with a loop over ndims: proved for every rank 1..1024 with injected loop contracts
   (loops/hchunks.loops).  What is proved here is what needs no symbolic product beyond the one
   the code itself computes: memory safety of every array access for arbitrary rank, the exact
   frame, and for compute_chunk_to_array the value of the ghost dimension.  The arithmetic
   meaning of the Horner sums is covered by the bounded round trip below. */
static void compute_chunk_to_array(int32 *chunk_indices, int32 *chunk_array_ind, int32 *array_indices, int32 ndims,
                                   DIM_REC *ddims)
    __CPROVER_requires(ndims >= 1 && ndims <= 1024 && g_k >= 0 && g_k < ndims)
    __CPROVER_assigns(__CPROVER_object_upto(array_indices, sizeof(int32) * ndims))
    /* the general value clause needs the equivalence of two 32-bit multipliers (not decided in
       10 min); proved here for the first two chunks of the ghost dimension, where the product is
       trivial, which covers the clamping on the last chunk; the general case is in the bounded
       round trip */
    __CPROVER_ensures((chunk_indices[g_k] == 0 || chunk_indices[g_k] == 1) ==>
                      array_indices[g_k] == C2A_VAL(chunk_indices[g_k], chunk_array_ind[g_k], ddims[g_k]))
    /* for a real element (not in a ghost area) nothing is clamped */
    __CPROVER_ensures(((chunk_indices[g_k] == 0 || chunk_indices[g_k] == 1) &&
                       POS_OK(ddims[g_k], chunk_indices[g_k], chunk_array_ind[g_k])) ==>
                      array_indices[g_k] == (chunk_indices[g_k] == 1 ? ddims[g_k].chunk_length : 0) + chunk_array_ind[g_k]);

static void calculate_chunk_num(int32 *chunk_num, int32 ndims, int32 *sbi, DIM_REC *ddims)
    __CPROVER_requires(ndims >= 1 && ndims <= 1024)
    __CPROVER_assigns(*chunk_num)
    __CPROVER_ensures(ndims == 1 ==> *chunk_num == sbi[0]);

static void calculate_seek_in_chunk(int32 *chunk_seek, int32 ndims, int32 nt_size, int32 *spb, DIM_REC *ddims)
    __CPROVER_requires(ndims >= 1 && ndims <= 1024 && nt_size == NT)
    __CPROVER_assigns(*chunk_seek)
    __CPROVER_ensures(ndims == 1 ==> *chunk_seek == spb[0] * NT);

static void compute_array_to_seek(int32 *user_seek, int32 *array_indices, int32 nt_size, int32 ndims, DIM_REC *ddims)
    __CPROVER_requires(ndims >= 1 && ndims <= 1024 && nt_size == NT)
    __CPROVER_assigns(*user_seek)
    __CPROVER_ensures(ndims == 1 ==> *user_seek == array_indices[0] * NT);

static void update_seek_pos_chunk(int32 chunk_seek, int32 ndims, int32 nt_size, int32 *spb, DIM_REC *ddims)
    __CPROVER_requires(ndims >= 1 && ndims <= MAXND && nt_size == NT && chunk_seek >= 0 && g_k >= 0 && g_k < ndims)
    __CPROVER_requires(__CPROVER_forall { int i; (0 <= i && i < MAXND) ==> (i < ndims ==> ddims[i].chunk_length >= 1) })
    __CPROVER_assigns(__CPROVER_object_upto(spb, sizeof(int32) * ndims))
    __CPROVER_ensures(spb[g_k] >= 0 && spb[g_k] < ddims[g_k].chunk_length);

/* seek position -> chunk index and position in chunk, for the ghost dimension and every rank up to
   MAXND: the position lies inside the chunk and the chunk index is not negative.  "chunk index
   < num_chunks" and "not in the ghost area" need num_chunks * chunk_length >= dim_length, a
   product of two unknowns (no answer from minisat in 2 min or cadical in 15 min): bounded round trip */
static void update_chunk_indices_seek(int32 sloc, int32 ndims, int32 nt_size, int32 *sbi, int32 *spb, DIM_REC *ddims)
    __CPROVER_requires(ndims >= 1 && ndims <= MAXND && nt_size == NT && sloc >= 0 && g_k >= 0 && g_k < ndims)
    __CPROVER_requires(__CPROVER_forall { int i; (0 <= i && i < MAXND) ==> (i < ndims ==> (ddims[i].chunk_length >= 1 && ddims[i].dim_length >= 1)) })
    __CPROVER_assigns(__CPROVER_object_upto(sbi, sizeof(int32) * ndims), __CPROVER_object_upto(spb, sizeof(int32) * ndims))
    __CPROVER_ensures(spb[g_k] >= 0 && spb[g_k] < ddims[g_k].chunk_length)
    __CPROVER_ensures(sbi[g_k] >= 0 && sbi[g_k] < ddims[g_k].dim_length);

#ifdef H4V_NATIVE
#include "h4v_native_wrap.h"
#endif

/* ---------------- harnesses ---------------- */
H4V_DECL_ND(int32);

#ifndef MAXR
#define MAXR 2 /* rank bound of the bounded stand-ins */
#endif
#ifndef MAXE
#define MAXE 8 /* extent bound (dimension length and chunk length) */
#endif

static int32 hc_ndims, hc_nt, hc_total, hc_nchunks, hc_chunk_elems;
static DIM_REC hc_dd[MAXR];

/* build the dimension records the way HMCcreate does (lines 1543-1552) */
static void
mk_dims(void)
{
    H4V_HAVOC(int32, g_k);
    H4V_ND(int32, ndims);
    H4V_ND(int32, nt_size);
    H4V_ASSUME(ndims >= 1 && ndims <= MAXR);
    H4V_ASSUME(nt_size == 1 || nt_size == 2 || nt_size == 4 || nt_size == 8);
    H4V_ASSUME(g_k >= 0 && g_k < ndims);
    hc_ndims       = ndims;
    hc_nt          = nt_size;
    hc_total       = 1;
    hc_nchunks     = 1;
    hc_chunk_elems = 1;
    for (int32 i = 0; i < MAXR; i++) {
        if (i < ndims) {
            H4V_ND(int32, dim_length);
            H4V_ND(int32, chunk_length);
            int32 odd_size;
            H4V_ASSUME(dim_length >= 1 && dim_length <= MAXE);
            H4V_ASSUME(chunk_length >= 1 && chunk_length <= MAXE);
            hc_dd[i].flag = hc_dd[i].distrib_type = hc_dd[i].unlimited = 0;
            hc_dd[i].dim_length   = dim_length;
            hc_dd[i].chunk_length = chunk_length;
            hc_dd[i].num_chunks   = dim_length / chunk_length;
            if ((odd_size = dim_length % chunk_length)) {
                hc_dd[i].num_chunks++;
                hc_dd[i].last_chunk_length = odd_size;
            }
            else
                hc_dd[i].last_chunk_length = chunk_length;
            hc_total *= dim_length;
            hc_nchunks *= hc_dd[i].num_chunks;
            hc_chunk_elems *= chunk_length;
        }
    }
}

/* seek position -> (chunk indices, position in chunk) -> array coordinates -> seek position,
   chunk number and byte offset in the chunk: the chain HMCPseek/HMCPread/HMCPwrite and
   HMCreadChunk/HMCwriteChunk run on every access */
void
h_chunk_roundtrip(void)
{
    int32 sbi[MAXR], spb[MAXR], sui[MAXR], spb2[MAXR];
    int32 seek = -1, chunk_num = -1, chunk_seek = -1;
    mk_dims();
    H4V_ND(int32, sloc);
    H4V_ASSUME(sloc >= 0 && sloc < hc_total * hc_nt);
    H4V_CHECK(DIM_WF(hc_dd[g_k]), "dimension record as built by HMCcreate satisfies DIM_WF");

    update_chunk_indices_seek(sloc, hc_ndims, hc_nt, sbi, spb, hc_dd);
    H4V_CHECK(sbi[g_k] >= 0 && sbi[g_k] < hc_dd[g_k].num_chunks, "chunk index in range");
    H4V_CHECK(spb[g_k] >= 0 && spb[g_k] < hc_dd[g_k].chunk_length, "position in chunk in range");
    H4V_CHECK(sbi[g_k] != hc_dd[g_k].num_chunks - 1 || spb[g_k] < hc_dd[g_k].last_chunk_length,
              "ghost area of an edge chunk is never addressed");

    compute_chunk_to_array(sbi, spb, sui, hc_ndims, hc_dd);
    H4V_CHECK(sui[g_k] == sbi[g_k] * hc_dd[g_k].chunk_length + spb[g_k], "array coordinate = chunk origin + position");
    H4V_CHECK(sui[g_k] >= 0 && sui[g_k] < hc_dd[g_k].dim_length, "array coordinate in range");

    compute_array_to_seek(&seek, sui, hc_nt, hc_ndims, hc_dd);
    H4V_CHECK(seek == sloc - sloc % hc_nt, "seek -> chunk -> array -> seek is the identity (on element boundaries)");

    calculate_chunk_num(&chunk_num, hc_ndims, sbi, hc_dd);
    H4V_CHECK(chunk_num >= 0 && chunk_num < hc_nchunks, "chunk number below the product of num_chunks");

    calculate_seek_in_chunk(&chunk_seek, hc_ndims, hc_nt, spb, hc_dd);
    H4V_CHECK(chunk_seek >= 0 && chunk_seek + hc_nt <= hc_chunk_elems * hc_nt, "element lies inside the chunk buffer");

    update_seek_pos_chunk(chunk_seek, hc_ndims, hc_nt, spb2, hc_dd);
    H4V_CHECK(spb2[g_k] == spb[g_k], "byte offset in chunk -> position in chunk inverts calculate_seek_in_chunk");

    H4V_COVER(sbi[g_k] == hc_dd[g_k].num_chunks - 1 && hc_dd[g_k].last_chunk_length < hc_dd[g_k].chunk_length,
              "partial edge chunk");
    H4V_COVER(hc_dd[g_k].chunk_length > hc_dd[g_k].dim_length, "chunk longer than dimension");
    H4V_COVER(hc_ndims == MAXR && sbi[0] > 0 && spb[0] > 0, "full rank, inner chunk");
    H4V_CANARY("chunk roundtrip end");
}

/* two different real elements never share a storage location (chunk number, byte offset):
   stated on two ghost coordinate tuples */
void
h_chunk_num_injective(void)
{
    int32 a_sbi[MAXR], b_sbi[MAXR], a_spb[MAXR], b_spb[MAXR];
    int32 a_num = -1, b_num = -1, a_seek = -1, b_seek = -1;
    int   differ_chunk = 0, differ_pos = 0;
    mk_dims();
    for (int32 i = 0; i < MAXR; i++) {
        if (i < hc_ndims) {
            H4V_ND(int32, a_chunk);
            H4V_ND(int32, b_chunk);
            H4V_ND(int32, a_pos);
            H4V_ND(int32, b_pos);
            H4V_ASSUME(a_chunk >= 0 && a_chunk < hc_dd[i].num_chunks && b_chunk >= 0 && b_chunk < hc_dd[i].num_chunks);
            H4V_ASSUME(a_pos >= 0 && a_pos < hc_dd[i].chunk_length && b_pos >= 0 && b_pos < hc_dd[i].chunk_length);
            a_sbi[i] = a_chunk;
            b_sbi[i] = b_chunk;
            a_spb[i] = a_pos;
            b_spb[i] = b_pos;
            differ_chunk |= (a_chunk != b_chunk);
            differ_pos |= (a_pos != b_pos);
        }
    }
    calculate_chunk_num(&a_num, hc_ndims, a_sbi, hc_dd);
    calculate_chunk_num(&b_num, hc_ndims, b_sbi, hc_dd);
    H4V_CHECK(a_num >= 0 && a_num < hc_nchunks, "chunk number below the product of num_chunks");
    H4V_CHECK((a_num == b_num) == !differ_chunk, "calculate_chunk_num is injective in the chunk coordinates");
    calculate_seek_in_chunk(&a_seek, hc_ndims, hc_nt, a_spb, hc_dd);
    calculate_seek_in_chunk(&b_seek, hc_ndims, hc_nt, b_spb, hc_dd);
    H4V_CHECK(a_seek >= 0 && a_seek + hc_nt <= hc_chunk_elems * hc_nt, "seek in chunk below the chunk byte size");
    H4V_CHECK((a_seek == b_seek) == !differ_pos, "calculate_seek_in_chunk is injective in the position");
    H4V_CHECK(differ_pos == 0 || a_seek + hc_nt <= b_seek || b_seek + hc_nt <= a_seek, "elements do not overlap in the chunk");
    H4V_COVER(differ_chunk && hc_ndims == MAXR, "different chunks, full rank");
    H4V_COVER(!differ_chunk && !differ_pos, "same element");
    H4V_CANARY("chunk num injective end");
}

/* environment of calculate_chunk_for_chunk: arrays of arbitrary rank, only the fastest
   (last) dimension is read */
void
h_chunk_for_chunk(void)
{
    int32 chunk_size = -1;
    H4V_ND(int32, ndims);
    H4V_ND(int32, nt_size);
    H4V_ND(int32, len);
    H4V_ND(int32, bytes_finished);
    H4V_ND(int32, dim_length);
    H4V_ND(int32, chunk_length);
    H4V_ND(int32, last_chunk_length);
    H4V_ND(int32, num_chunks);
    H4V_ND(int32, chunk_index);
    H4V_ND(int32, chunk_pos);
    H4V_ASSUME(ndims >= 1 && ndims <= 1024);
    int32   *sbi   = malloc(sizeof(int32) * (size_t)ndims);
    int32   *spb   = malloc(sizeof(int32) * (size_t)ndims);
    DIM_REC *ddims = malloc(sizeof(DIM_REC) * (size_t)ndims);
    H4V_ASSUME(sbi != NULL && spb != NULL && ddims != NULL);
    ddims[ndims - 1].dim_length        = dim_length;
    ddims[ndims - 1].chunk_length      = chunk_length;
    ddims[ndims - 1].last_chunk_length = last_chunk_length;
    ddims[ndims - 1].num_chunks        = num_chunks;
    sbi[ndims - 1]                     = chunk_index;
    spb[ndims - 1]                     = chunk_pos;
    calculate_chunk_for_chunk(&chunk_size, ndims, nt_size, len, bytes_finished, sbi, spb, ddims);
    H4V_COVER(chunk_size == len - bytes_finished, "request ends in this chunk row");
    H4V_COVER(chunk_size < len - bytes_finished && chunk_index == num_chunks - 1, "edge chunk row used up");
    H4V_COVER(chunk_size < len - bytes_finished && chunk_index < num_chunks - 1, "inner chunk row used up");
    H4V_CANARY("calculate_chunk_for_chunk end");
}

/* ---- arbitrary rank (loop contracts): arrays of ndims entries with arbitrary contents ---- */
static int32   *ar_a, *ar_b, *ar_c;
static DIM_REC *ar_dd;
static int32    ar_n;
static void
mk_arrays(void)
{
    H4V_HAVOC(int32, g_k);
    H4V_ND(int32, ndims);
    H4V_ASSUME(ndims >= 1 && ndims <= 1024);
    ar_n = ndims;
    H4V_ND_BUF(int32, a_buf, ndims, 3);
    H4V_ND_BUF(int32, b_buf, ndims, 3);
    H4V_ND_BUF(int32, c_buf, ndims, 3);
    ar_a  = a_buf;
    ar_b  = b_buf;
    ar_c  = c_buf;
    ar_dd = malloc(sizeof(DIM_REC) * (size_t)ndims);
    H4V_ASSUME(ar_dd != NULL);
#ifndef H4V_CBMC
    for (int32 i = 0; i < ndims; i++) {
        H4V_ND(int32, dim_length);
        H4V_ND(int32, chunk_length);
        H4V_ND(int32, last_chunk_length);
        H4V_ND(int32, num_chunks);
        ar_dd[i].dim_length        = dim_length;
        ar_dd[i].chunk_length      = chunk_length;
        ar_dd[i].last_chunk_length = last_chunk_length;
        ar_dd[i].num_chunks        = num_chunks;
    }
#endif
}

void
h_chunk_to_array(void)
{
    mk_arrays();
    compute_chunk_to_array(ar_a, ar_b, ar_c, ar_n, ar_dd);
    H4V_COVER(ar_n == 1024 && g_k == 1023, "rank 1024");
    H4V_COVER(ar_a[g_k] == ar_dd[g_k].num_chunks - 1 && ar_b[g_k] > ar_dd[g_k].last_chunk_length, "clamped");
    H4V_CANARY("compute_chunk_to_array end");
}

void
h_chunk_num(void)
{
    int32 out = -1;
    mk_arrays();
    calculate_chunk_num(&out, ar_n, ar_a, ar_dd);
    H4V_COVER(ar_n == 1024, "rank 1024");
    H4V_COVER(ar_n == 1, "rank 1");
    H4V_CANARY("calculate_chunk_num end");
}

void
h_seek_in_chunk(void)
{
    int32 out = -1;
    mk_arrays();
    H4V_ND(int32, nt_size);
    calculate_seek_in_chunk(&out, ar_n, nt_size, ar_a, ar_dd);
    H4V_COVER(ar_n == 1024, "rank 1024");
    H4V_COVER(ar_n == 1, "rank 1");
    H4V_CANARY("calculate_seek_in_chunk end");
}

void
h_array_to_seek(void)
{
    int32 out = -1;
    mk_arrays();
    H4V_ND(int32, nt_size);
    compute_array_to_seek(&out, ar_a, nt_size, ar_n, ar_dd);
    H4V_COVER(ar_n == 1024, "rank 1024");
    H4V_COVER(ar_n == 1, "rank 1");
    H4V_CANARY("compute_array_to_seek end");
}

void
h_seek_pos_chunk(void)
{
    mk_arrays();
    H4V_ND(int32, nt_size);
    H4V_ND(int32, chunk_seek);
    update_seek_pos_chunk(chunk_seek, ar_n, nt_size, ar_a, ar_dd);
    H4V_COVER(ar_n == MAXND, "max rank");
    H4V_COVER(ar_a[g_k] > 0, "non-zero position");
    H4V_CANARY("update_seek_pos_chunk end");
}

void
h_chunk_indices_seek(void)
{
    mk_arrays();
    H4V_ND(int32, nt_size);
    H4V_ND(int32, sloc);
    update_chunk_indices_seek(sloc, ar_n, nt_size, ar_a, ar_b, ar_dd);
    H4V_COVER(ar_n == MAXND, "max rank");
    H4V_COVER(ar_a[g_k] > 0 && ar_b[g_k] > 0, "inner chunk, inner position");
    H4V_CANARY("update_chunk_indices_seek end");
}

"""Counterexample concretisation and native replay.

1. re-run the failing obligation in counterexample mode (-DH4V_CEX -DH4V_NOCANARY, no loop
   contracts, --unwind N, --trace --stop-on-fail): a trace of the *real* code, never of a
   havocked loop state;
2. extract the named nondeterministic inputs (H4V_ND / H4V_ND_BUF) from the trace;
3. generate a native wrapper that evaluates the contract's requires/ensures clauses around the
   real function (mechanical translation of the contract text: __CPROVER_old -> snapshot,
   __CPROVER_return_value -> result, ==> -> !a||b), build the same harness against the real
   /repo file with -fsanitize=address,undefined and run it on those inputs;
4. write the replay file (JSON) naming the failed obligation, with cbmc's output, the inputs,
   the build line and the native output.
"""
import json, os, re, shutil, subprocess, sys, time
from pathlib import Path

import h4v
from h4v import VERIF, REPO, BUILD

OUT = VERIF / "replay" / "out"


def _match_paren(s, i):
    """s[i] == '(' -> index of matching ')'"""
    d = 0
    j = i
    while j < len(s):
        c = s[j]
        if c == "(":
            d += 1
        elif c == ")":
            d -= 1
            if d == 0:
                return j
        elif c == '"':
            j += 1
            while s[j] != '"':
                if s[j] == "\\":
                    j += 1
                j += 1
        j += 1
    raise ValueError("unbalanced")


def _implies(e):
    """translate cbmc's ==> (lowest precedence, right assoc) at every nesting level"""
    out, i = "", 0
    # first rewrite nested parenthesised groups
    while i < len(e):
        if e[i] == "(":
            j = _match_paren(e, i)
            out += "(" + _implies(e[i + 1:j]) + ")"
            i = j + 1
        else:
            out += e[i]
            i += 1
    # split at top level on ==>; also respect ?: by only handling when no top-level '?' precedes
    parts, d, cur, i = [], 0, "", 0
    while i < len(out):
        if out[i] == "(":
            d += 1
        elif out[i] == ")":
            d -= 1
        if d == 0 and out.startswith("==>", i):
            parts.append(cur)
            cur = ""
            i += 3
            continue
        cur += out[i]
        i += 1
    parts.append(cur)
    if len(parts) == 1:
        return out
    r = parts[-1]
    for p in reversed(parts[:-1]):
        r = f"(!({p}) || ({r}))"
    return r


def parse_contract(unit_text, fn):
    """find `<ret> fn(params) __CPROVER_...(...) ... ;` (the contract re-declaration)"""
    for m in re.finditer(r"\b" + re.escape(fn) + r"\s*\(", unit_text):
        po = m.end() - 1
        try:
            pc = _match_paren(unit_text, po)
        except ValueError:
            continue
        k = pc + 1
        clauses = []
        while True:
            mm = re.match(r"\s*(?:/\*.*?\*/\s*)*(__CPROVER_(?:requires|ensures|assigns|frees))\s*\(", unit_text[k:], re.S)
            if not mm:
                break
            o = k + mm.end() - 1
            c = _match_paren(unit_text, o)
            clauses.append((mm.group(1), unit_text[o + 1:c]))
            k = c + 1
        if not clauses or not re.match(r"\s*;", unit_text[k:]):
            continue
        # return type: text between previous ';' or '}' or '*/' or newline-blank and the name
        pre = unit_text[:m.start()]
        cut = max(pre.rfind(";"), pre.rfind("}"), pre.rfind("*/"), pre.rfind("\n\n"))
        seg = re.sub(r"/\*.*?\*/", " ", pre[cut + 1:], flags=re.S)
        lines, cont = [], False
        for ln in seg.split("\n"):
            if cont or ln.lstrip().startswith("#"):
                cont = ln.rstrip().endswith("\\")
                continue
            if ln.lstrip().startswith("//"):
                continue
            lines.append(ln)
        ret = " ".join(" ".join(lines).split()).strip()
        ret = re.sub(r"^[*/\s]+", "", ret).strip()
        params = unit_text[po + 1:pc].strip()
        return ret, params, clauses
    return None


def gen_wrapper(unit_text, fn):
    pc = parse_contract(unit_text, fn)
    if not pc:
        return None, "no contract found"
    ret, params, clauses = pc
    ret = re.sub(r"\b(static|extern|HDFLIBAPI)\b", "", ret).strip()
    names = []
    if params and params != "void":
        for p in params.split(","):
            mm = re.findall(r"[A-Za-z_]\w*", p)
            names.append(mm[-1])
    olds, body_pre, body_post, skipped = [], [], [], []
    for kind, text in clauses:
        if kind not in ("__CPROVER_requires", "__CPROVER_ensures"):
            continue
        t = text
        # olds
        while True:
            i = t.find("__CPROVER_old")
            if i < 0:
                break
            o = t.index("(", i)
            c = _match_paren(t, o)
            expr = t[o + 1:c]
            olds.append(expr)
            t = t[:i] + f"h4v_old_{len(olds) - 1}" + t[c + 1:]
        t = t.replace("__CPROVER_return_value", "h4v_ret")
        if "__CPROVER_" in t:
            skipped.append(text.strip()[:160])
            continue
        t = _implies(t)
        msg = re.sub(r"\s+", " ", text.strip())[:200].replace("\\", "\\\\").replace('"', '\\"')
        if kind == "__CPROVER_requires":
            body_pre.append(f'    if (!({t})) {{ printf("H4V-REPLAY requires not met: {msg}\\n"); exit(3); }}')
        else:
            body_post.append(f'    if (!({t})) {{ printf("H4V-REPLAY FAILED ensures: {msg}\\n"); h4v_failed = 1; }}')
    void = ret == "void"
    w = [f"static {ret} h4v_call_{fn}({params})", "{"]
    w += body_pre
    for i, e in enumerate(olds):
        w.append(f"    __typeof__({e}) h4v_old_{i} = ({e});")
    call = f"{fn}({', '.join(names)})"
    w.append(f"    {call};" if void else f"    {ret} h4v_ret = {call};")
    w += body_post
    if not void:
        w.append("    return h4v_ret;")
    w.append("}")
    w.append(f"#define {fn} h4v_call_{fn}")
    return "\n".join(w) + "\n", skipped


def extract_inputs(trace):
    """named nondet inputs from a cbmc JSON trace, in order"""
    vals = []
    for st in trace:
        if st.get("stepType") != "assignment" or st.get("hidden"):
            continue
        fnc = (st.get("sourceLocation") or {}).get("function", "") or ""
        f = (st.get("sourceLocation") or {}).get("file", "") or ""
        if "/units/" not in f and "/stubs/" not in f:
            continue
        lhs = st.get("lhs", "")
        v = st.get("value", {})
        data = v.get("data")
        if data is None:
            continue
        num = _num(v)
        if num is None:
            continue
        m = re.match(r"^(\w+)_nd\.a\[(\d+)l?\]$", lhs)
        if m:
            vals.append((m.group(1), int(m.group(2)), num))
            continue
        if re.match(r"^[A-Za-z_]\w*$", lhs) and not lhs.startswith(("return_value", "tmp_", "__")):
            vals.append((lhs, -1, num))
    return vals


def _num(v):
    b = v.get("binary")
    t = v.get("type", "") or ""
    if b and re.fullmatch(r"[01]+", b):
        n = int(b, 2)
        if "unsigned" not in t and v.get("name") == "integer" and b[0] == "1" and len(b) > 1:
            n -= 1 << len(b)
        return n
    m = re.fullmatch(r"(-?\d+)(u?l?l?)", str(v.get("data")))
    if m:
        return int(m.group(1))
    return None


def cex_run(ob, work, src):
    cex = dict(ob)
    cex["id"] = ob["id"] + ".cex"
    cex["defines"] = list(ob.get("defines", [])) + ["H4V_CEX", "H4V_NOCANARY"]
    cex["loops"] = False
    cex["unwind"] = ob.get("cex_unwind", ob.get("unwind") or 9)
    cex["unwind_assert"] = False
    cex["flags"] = list(ob.get("flags", [])) + ["--stop-on-fail"]
    cex["timeout"] = min(ob.get("timeout", 600), 600)
    r = h4v.run_obligation(cex, work, src, trace=True)
    tr = None
    p = work / cex["id"] / "cbmc_trace.json"
    if p.exists():
        try:
            for it in json.loads(p.read_text()):
                if isinstance(it, dict) and "trace" in it and str(it.get("status", "FAILURE")).upper() in ("FAILURE", "FAILED"):
                    tr = it
                    break
                if isinstance(it, dict) and "result" in it:
                    for q in it["result"]:
                        if q.get("status") == "FAILURE" and "trace" in q and h4v.classify(q) != "unwind":
                            tr = q
                            break
        except Exception:
            pass
    return r, tr


def native_build_run(ob, vals, outdir, repo=None):
    repo = Path(repo or REPO)
    outdir.mkdir(parents=True, exist_ok=True)
    unit = VERIF / "units" / ob["unit"]
    text = unit.read_text()
    wrap, skipped = (None, [])
    if ob.get("enforce"):
        wrap, skipped = gen_wrapper(text, ob["enforce"])
    (outdir / "h4v_native_wrap.h").write_text(wrap or "/* no contract wrapper */\n")
    vf = outdir / "inputs.txt"
    vf.write_text("".join(f"{n} {i} {v}\n" for n, i, v in vals))
    cfg = h4v.config_dir()
    incs = [outdir, VERIF / "units", VERIF / "stubs", VERIF / "pred", repo / "hdf/src", repo / "mfhdf/src",
            repo / "mfhdf/hdiff", repo / "mfhdf/xdr", cfg]
    cmd = ["gcc", "-g", "-O0", "-w", "-fsanitize=address,undefined", "-fno-sanitize-recover=undefined",
           "-fno-omit-frame-pointer", "-DH4V", "-DH4V_NATIVE", f"-DH4V_ENTRY={ob['entry']}"]
    cmd += [f"-D{x}" for x in ob.get("defines", [])]
    if ob.get("overflow"):
        cmd += ["-fsanitize=signed-integer-overflow"]
    for i in incs:
        cmd += ["-I", str(i)]
    exe = outdir / "replay_native"
    cmd += [str(unit), str(VERIF / "replay" / "native_main.c"), "-o", str(exe), "-lm", "-no-pie", "-Wl,--unresolved-symbols=ignore-all"]
    p = subprocess.run(cmd, capture_output=True, text=True)
    if p.returncode != 0:
        return dict(built=False, build_cmd=" ".join(cmd), output=p.stderr[-3000:], skipped_clauses=skipped), None
    try:
        q = subprocess.run([str(exe), str(vf)], capture_output=True, text=True, timeout=120,
                           env=dict(os.environ, ASAN_OPTIONS="detect_leaks=0", UBSAN_OPTIONS="print_stacktrace=1"))
        out = (q.stdout + q.stderr)[-6000:]
        rc = q.returncode
    except subprocess.TimeoutExpired:
        out, rc = "native replay timed out (120 s)", 124
    # a native failure counts only if it is a contract clause evaluated false, or a sanitizer
    # report whose stack goes through the real source tree (not a harness/linker artefact)
    san = ("runtime error:" in out or "ERROR: AddressSanitizer" in out) and (str(repo) + "/") in out
    failed = "H4V-REPLAY FAILED" in out or san
    infeasible = rc == 3
    try:
        exe.unlink()
    except OSError:
        pass
    return dict(built=True, build_cmd=" ".join(cmd), run=f"{exe} {vf}", rc=rc, output=out, skipped_clauses=skipped,
                reproduced=bool(failed), infeasible=infeasible), failed


def make_replay(prop, ob, newfail, work, src):
    """returns (replay path, 'replayed' | None)"""
    OUT.mkdir(parents=True, exist_ok=True)
    rp = OUT / f"{prop}-{ob['id']}.json"
    doc = dict(property=prop, obligation=ob["id"], function=ob.get("enforce") or ob["entry"], unit=ob["unit"],
               entry=ob["entry"], repo=str(REPO), mode=ob["mode"],
               failed_obligations=[dict(name=f["property"], description=f["description"], file=f["file"], line=f["line"],
                                        function=f["function"], status=f["status"]) for f in newfail][:30],
               ob=dict((k, v) for k, v in ob.items() if k in ("id", "unit", "entry", "enforce", "defines", "overflow")),
               verifier_output=[f"[{f['property']}] {f['file']} line {f['line']} function {f['function']}: {f['description']}: {f['status']}"
                                for f in newfail][:60])
    found = None
    try:
        r, tr = cex_run(ob, work, src)
        doc["cex_cmds"] = [" ".join(c) for c in r.get("cmds", [])]
        if tr is None:
            doc["cex"] = "counterexample mode produced no failing trace: " + str(r.get("reason", r.get("status")))
        else:
            doc["cex_failed_obligation"] = dict(name=tr.get("property"), description=tr.get("description"))
            vals = extract_inputs(tr["trace"])
            doc["inputs"] = [dict(name=n, index=i, value=v) for n, i, v in vals][:400]
            last = [s for s in tr["trace"] if s.get("stepType") == "failure"]
            if last:
                doc["cex_failure_location"] = last[-1].get("sourceLocation")
            nat, failed = native_build_run(ob, vals, OUT / f"{prop}-{ob['id']}.native")
            doc["native"] = nat
            if failed:
                found = "replayed"
    except Exception as e:  # replay trouble never hides the failed obligation
        doc["replay_error"] = repr(e)
    doc["verdict"] = ("counterexample replayed natively against the real code: failure reproduced" if found else
                      "no-failing-input-found: the named obligation(s) passed on the unchanged tree and fail now; "
                      "no native reproduction was obtained (see cex/native fields)")
    rp.write_text(json.dumps(doc, indent=1))
    return str(rp), found


def rerun(path):
    doc = json.loads(Path(path).read_text())
    ob = doc["ob"]
    vals = [(d["name"], d["index"], d["value"]) for d in doc.get("inputs", [])]
    nat, failed = native_build_run(ob, vals, Path(path).with_suffix(".native"), doc.get("repo"))
    print(json.dumps(nat, indent=1))
    print("REPLAY:", "failure reproduced" if failed else "not reproduced")
    return 1 if failed else 0

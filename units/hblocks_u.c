/* Verification unit: hdf/src/hblocks.c -- linked-block special elements (C01, C02, C13, C14).
 * The whole real file is included; every H-layer callee (hfile.c / hfiledd.c / atom.c) is a stub body
 * that keeps a ghost log of the sub-accesses to the data blocks, block tables and the special header.
 *
 * Conventions of the harness-built element (the stubs rely on them to compute element positions):
 *   data block with global index k (table k / number_blocks, slot k % number_blocks) has ref k+1, 0 = missing;
 *   block table t has ref 100+t;  refs handed out by Htagnewref are 200, 201, ...
 *   element position of byte `off` of block k:  k == 0 ? off : first_length + (k-1)*block_length + off.
 */
#include "h4v.h"
#include <limits.h>
#include <string.h>
#include "h4v_err.h"
/* the only memset of hblocks.c is the zero fill of a missing block in HLPread: it takes part in the ghost tiling log.
   (cbmc's own memset model allocates a variable-length array of the symbolic size: out of memory.) */
static void *h4v_memset(void *s, int c, size_t n);
#define memset h4v_memset
/* A-ALLOC (DESIGN 10.5): allocation failure is out of scope -- malloc in hblocks.c does not return NULL.
   (Side observation: HLInewlink and HLIgetlink dereference the NULL result in their cleanup code when the first malloc fails.) */
static void *h4v_malloc(size_t n);
#define malloc h4v_malloc
#include "hblocks.c"
#undef memset
#undef malloc
static void *
h4v_malloc(size_t n)
{
    void *p = malloc(n);
    H4V_ASSUME(p != NULL);
    return p;
}

H4V_DECL_ND(int);
H4V_DECL_ND(unsigned);
H4V_DECL_ND(int32);
H4V_DECL_ND(uint32);
H4V_DECL_ND(uint16);

#ifndef H4V_NT
#define H4V_NT 2 /* block tables in the chain (bound) */
#endif
#ifndef H4V_NB
#define H4V_NB 2 /* number_blocks per table (bound) */
#endif
#ifndef H4V_MAXLEN
#define H4V_MAXLEN 4 /* first_length, block_length (bound) */
#endif
#ifndef H4V_MAXPOS
#define H4V_MAXPOS 16 /* posn, length (bound) */
#endif
#ifndef H4V_CASE
#define H4V_CASE 0
#endif
#ifndef H4V_NBMIN
#define H4V_NBMIN 1
#endif
#define H4V_MAXT 4 /* size of the ghost table array */
#define H4V_MAXK 8 /* block indices the geometry helpers know */

#define REF_BLK(k) ((uint16)((k) + 1))
#define REF_TAB(t) ((uint16)(100 + (t)))
#define REF_NEW(n) ((uint16)(200 + (n)))
#define AID_BLK 0x00040001 /* sub-access ids handed out by the stubs */
#define AID_TAB 0x00040002
#define AID_HDR 0x00040003
#define AID_NEW 0x00040004
#define OFF_OF(ref) (1000 + 10 * (int32)(ref)) /* file offset Hoffset reports for a data block */
#define PAT(p) ((uint8)(0x80 | ((p)&0x7f))) /* stored byte at element position p (never 0) */

/* ------------------------------------------------------------------ ghost environment */
int32       g_fid, g_aid;
filerec_t  *g_frec;
accrec_t   *g_arec;
linkinfo_t *g_info;
link_t     *g_tab[H4V_MAXT]; /* the chain of block tables on entry */
int         g_nt;            /* number of tables on entry */
unsigned    g_miss;          /* bit k set: block k missing on entry */
int32       g_posn0;         /* position on entry */
uint8      *g_buf;           /* the caller's buffer ... */
int32       g_cap;           /* ... and the number of bytes the caller is entitled to */
int32       g_j;             /* ghost byte index into the caller's buffer */
uint8       g_old_byte;      /* g_buf[g_j] on entry */
uint16      g_dd_tag, g_dd_ref; /* what HTPinquire reports for the access record's DD */
int32       g_dd_off, g_dd_len;

/* sub-access state and log */
int    g_sub_kind;  /* 0 none, 1 data block, 2 block table, 3 special header */
uint16 g_sub_ref;
int32  g_sub_off;
int32  g_sub_len;   /* length of the element the open sub-access is attached to */
int    g_sub_wr;    /* opened for writing */
int    g_start_n, g_end_n, g_brd_n, g_bwr_n;
int32  g_next_pos;  /* element position where the next sub-request has to begin */
int    g_sub_may_fail, g_sub_failed;
int    g_newref_n;  /* refs handed out by Htagnewref */
int    g_zero_n;    /* zero fills of missing blocks */
/* elements created through Hstartwrite on a ref handed out by Htagnewref */
#define H4V_MAXNEW 8
int    g_new_made[H4V_MAXNEW];
int32  g_new_len[H4V_MAXNEW];
/* the block tables as they are on disk: image updated by every table write */
#define H4V_IMGT 4
uint16 g_img_ref[H4V_IMGT];          /* ref of the table element (0: unused) */
uint16 g_img[H4V_IMGT][1 + H4V_NB];  /* next_ref, block refs */
int    g_img_n;
int    g_twr_n;                      /* table writes */
uint16 g_wr_blkref[H4V_MAXK + 1];    /* ref through which data block k was written in this call (0: not written) */
/* the 16-byte special header element on disk */
uint8    g_hdr[16];
unsigned g_hdr_mask;                 /* bit i: byte i written in this call */
int      g_hdr_wr_n;
/* DD-level mutations (C14 gate), ownership (C13) */
int g_mut_n, g_release_n, g_registered, g_htp_may_fail, g_htp_failed;

#define FL (g_info->first_length)
#define BL (g_info->block_length)
#define NBLK (g_info->number_blocks)
#define MISSING(k) ((g_miss >> (k)) & 1u)

static int32
blk_start(int k)
{
    int32 s = 0;
    if (k >= 1) s += FL;
    if (k >= 2) s += BL;
    if (k >= 3) s += BL;
    if (k >= 4) s += BL;
    if (k >= 5) s += BL;
    if (k >= 6) s += BL;
    if (k >= 7) s += BL;
    if (k >= 8) s += BL;
    return s;
}
static int32
blk_len(int k)
{
    return k == 0 ? FL : BL;
}
/* index of the block that holds element position p (H4V_MAXK if beyond the blocks modelled) */
static int
blk_of(int32 p)
{
    int k;
    if (p < FL)
        return 0;
    p -= FL;
    k = 1;
    if (p >= BL) { p -= BL; k = 2; } else return k;
    if (p >= BL) { p -= BL; k = 3; } else return k;
    if (p >= BL) { p -= BL; k = 4; } else return k;
    if (p >= BL) { p -= BL; k = 5; } else return k;
    if (p >= BL) { p -= BL; k = 6; } else return k;
    if (p >= BL) { p -= BL; k = 7; } else return k;
    if (p >= BL) { k = 8; }
    return k;
}

static int
sub_fail(void)
{
    if (!g_sub_may_fail)
        return 0;
    H4V_ND(int, sub_fault);
    if (sub_fault) {
        g_sub_failed = 1;
        return 1;
    }
    return 0;
}
static int32
sub_aid(void)
{
    return g_sub_kind == 1 ? AID_BLK : g_sub_kind == 2 ? AID_TAB : g_sub_kind == 3 ? AID_HDR : AID_NEW;
}

/* zero fill of the part of the request that lies in a missing block */
static void *
h4v_memset(void *s, int c, size_t n)
{
    size_t i;
    int32  pos = g_posn0 + (int32)((uint8 *)s - g_buf);
    H4V_CHECK(c == 0, "a hole reads as zeros");
    H4V_CHECK(pos == g_next_pos, "C01: zero fill continues the tiling of the request");
    H4V_CHECK(n <= (size_t)H4V_MAXLEN && pos - g_posn0 >= 0 && (int64_t)(pos - g_posn0) + (int64_t)n <= g_cap,
              "C01: zero fill stays inside one block and inside the caller's buffer");
    if (n > (size_t)H4V_MAXLEN)
        return s; /* (after the failed check) keeps the model small */
    for (i = 0; i < n; i++)
        ((uint8 *)s)[i] = 0;
    g_next_pos = pos + (int32)n;
    g_zero_n++;
    return s;
}

/* ------------------------------------------------------------------ trusted stubs: atoms */
void *
HAatom_object(atom_t atm)
{
    if (atm == g_aid)
        return g_arec;
    if (atm == g_fid)
        return g_frec;
    return NULL;
}
group_t
HAatom_group(atom_t atm)
{
    if (atm == g_aid)
        return AIDGROUP;
    if (atm == g_fid)
        return FIDGROUP;
    return BADGROUP;
}

/* ------------------------------------------------------------------ trusted stubs: sub-accesses (hfile.c) */
int32
Hstartread(int32 file_id, uint16 tag, uint16 ref)
{
    H4V_CHECK(file_id == g_fid, "sub-access goes to the element's own file");
    H4V_CHECK(tag == DFTAG_LINKED, "sub-access to a linked-block tag");
    H4V_CHECK(ref != 0, "sub-access to ref 0 (missing block/table)");
    H4V_CHECK(g_sub_failed || g_sub_kind == 0, "previous sub-access was ended");
    if (sub_fail())
        return FAIL;
    g_start_n++;
    g_sub_ref = ref;
    g_sub_off = 0;
    g_sub_wr  = 0;
    if (ref >= 100) {
        g_sub_kind = 2;
        g_sub_len  = 2 + 2 * NBLK;
    }
    else {
        g_sub_kind = 1;
        g_sub_len  = blk_len(ref - 1);
    }
    return sub_aid();
}

static int
img_find(uint16 ref)
{
    int i;
    for (i = 0; i < H4V_IMGT; i++)
        if (g_img_ref[i] == ref)
            return i;
    return -1;
}

uint16
Htagnewref(int32 file_id, uint16 tag)
{
    H4V_CHECK(file_id == g_fid && tag == DFTAG_LINKED, "new ref for a linked-block tag of the element's file");
    return REF_NEW(g_newref_n++);
}

int32
Hstartwrite(int32 file_id, uint16 tag, uint16 ref, int32 length)
{
    H4V_CHECK(file_id == g_fid, "sub-access goes to the element's own file");
    H4V_CHECK(tag == DFTAG_LINKED, "sub-access to a linked-block tag");
    H4V_CHECK(ref != 0, "sub-access to ref 0 (missing block/table)");
    H4V_CHECK(g_sub_failed || g_sub_kind == 0, "previous sub-access was ended");
    H4V_CHECK((g_frec->access & DFACC_WRITE) != 0, "C14: write access started on a file opened read-only");
    if (sub_fail())
        return FAIL;
    g_start_n++;
    g_sub_ref = ref;
    g_sub_off = 0;
    g_sub_wr  = 1;
    if (ref < 100) {
        g_sub_kind = 1;
        g_sub_len  = blk_len(ref - 1);
        H4V_CHECK(ref - 1 < g_nt * NBLK && !MISSING(ref - 1), "write access to an existing block");
    }
    else if (ref < 200) {
        g_sub_kind = 2;
        g_sub_len  = 2 + 2 * NBLK;
        H4V_CHECK(ref - 100 < g_nt, "write access to an existing block table");
    }
    else {
        int n = ref - 200;
        H4V_CHECK(n < g_newref_n && n < H4V_MAXNEW, "new element on a ref handed out by Htagnewref");
        if (n >= H4V_MAXNEW)
            return FAIL;
        if (!g_new_made[n]) { /* Hstartwrite creates the element with the given length */
            H4V_CHECK(length >= 0, "new element of non-negative length");
            g_new_made[n] = 1;
            g_new_len[n]  = length;
        }
        g_sub_kind = 4;
        g_sub_len  = g_new_len[n];
    }
    return sub_aid();
}

/* the special header element (tag/ref of the access record's DD) */
int32
Hstartaccess(int32 file_id, uint16 tag, uint16 ref, uint32 flags)
{
    H4V_CHECK(file_id == g_fid, "header access goes to the element's own file");
    H4V_CHECK(g_sub_failed || g_sub_kind == 0, "previous sub-access was ended");
    H4V_CHECK(!(flags & DFACC_WRITE) || (g_frec->access & DFACC_WRITE) != 0, "C14: write access started on a file opened read-only");
    if (sub_fail())
        return FAIL;
    g_start_n++;
    g_sub_kind = 3;
    g_sub_ref  = ref;
    g_sub_off  = 0;
    g_sub_len  = 16;
    g_sub_wr   = (flags & DFACC_WRITE) != 0;
    H4V_CHECK(tag == g_dd_tag && ref == g_dd_ref, "header access uses the tag/ref of the element's DD");
    return sub_aid();
}

#ifdef H4V_CBMC
#define IN_CALLER_BUF(p) (g_buf != NULL && __CPROVER_same_object((p), g_buf))
#else
#define IN_CALLER_BUF(p) (g_buf != NULL && (uintptr_t)(p) - (uintptr_t)g_buf < (uintptr_t)(g_cap > 0 ? g_cap : 1))
#endif

int32
Hwrite(int32 access_id, int32 length, const void *data)
{
    const uint8 *d = (const uint8 *)data;
    int32        i;
    H4V_CHECK(g_sub_kind != 0 && access_id == sub_aid() && g_sub_wr, "Hwrite on the open sub-access (opened for writing)");
    H4V_CHECK(length > 0, "sub-write of a positive length");
    if (length <= 0 || data == NULL)
        return FAIL;
#ifdef H4V_CBMC
    __CPROVER_assert(__CPROVER_r_ok(data, (size_t)length), "H4V: C01 sub-write source is readable");
#endif
    if (g_sub_kind == 3) { /* special header */
        H4V_CHECK(g_sub_off + length <= 16, "header write inside the 16-byte header");
        if (g_sub_off + length > 16)
            return FAIL;
        if (sub_fail())
            return FAIL;
        if (g_sub_off == 0 && length == 16) { /* the whole header (HLcreate, HLconvert) */
            memcpy(g_hdr, d, 16);
            g_hdr_mask |= 0xffffu;
        }
        else if (g_sub_off == 2 && length == 4) { /* the element length (HLPwrite) */
            memcpy(g_hdr + 2, d, 4);
            g_hdr_mask |= 0x3cu;
        }
        else /* any other shape: generic (needs a larger unwind bound if it ever becomes reachable) */
            for (i = 0; i < length; i++) {
                g_hdr[g_sub_off + i] = d[i];
                g_hdr_mask |= 1u << (g_sub_off + i);
            }
        g_sub_off += length;
        g_hdr_wr_n++;
        return length;
    }
    if (g_sub_kind == 1 || (g_sub_kind == 4 && IN_CALLER_BUF(data))) { /* data block */
        int32 pos = g_next_pos;
        int   k   = blk_of(pos);
        H4V_CHECK(k < H4V_MAXK, "block index inside the modelled range");
        if (k >= H4V_MAXK)
            return FAIL;
        H4V_CHECK(g_sub_off == pos - blk_start(k), "C01: sub-write goes to the right offset of the right block");
        H4V_CHECK(g_sub_len == blk_len(k), "C01: a data block has the nominal block length");
        H4V_CHECK(g_sub_off + length <= g_sub_len, "C01: sub-write stays inside its block");
        H4V_CHECK(d == g_buf + (pos - g_posn0), "C01: source == data + (element position - posn)");
        H4V_CHECK(pos - g_posn0 + length <= g_cap, "C01: sub-write stays inside the caller's buffer");
        if (g_sub_kind == 1)
            H4V_CHECK(g_sub_ref == REF_BLK(k), "C01: an existing block is written through its own ref");
        else
            H4V_CHECK(k >= g_nt * NBLK || MISSING(k), "C01: a new block is created only where one is missing");
        H4V_CHECK(g_wr_blkref[k] == 0, "C01: one sub-write per block");
        if (g_sub_off + length > g_sub_len)
            return FAIL; /* what the real Hwrite does on a fixed-length element */
        if (sub_fail())
            return FAIL;
        g_wr_blkref[k] = g_sub_ref;
        g_next_pos     = pos + length;
        g_sub_off += length;
        g_bwr_n++;
        return length;
    }
    { /* block table: update the disk image */
        int idx = img_find(g_sub_ref);
        H4V_CHECK((g_sub_off & 1) == 0 && (length & 1) == 0, "table writes are whole 16-bit entries");
        H4V_CHECK(g_sub_off + length <= 2 + 2 * NBLK, "C02: table write stays inside the block table");
        if (g_sub_off + length > 2 + 2 * NBLK)
            return FAIL;
        if (idx < 0) {
            H4V_CHECK(g_sub_kind == 4 && g_sub_len == 2 + 2 * NBLK, "C02: a new block table element has the size of a table");
            H4V_CHECK(g_sub_off == 0 && length == 2 + 2 * NBLK, "C02: a new block table is written as a whole");
            H4V_CHECK(g_img_n < H4V_IMGT, "table image capacity");
            if (g_img_n >= H4V_IMGT)
                return FAIL;
            idx            = g_img_n++;
            g_img_ref[idx] = g_sub_ref;
        }
        if (sub_fail())
            return FAIL;
        for (i = 0; i < length / 2; i++)
            g_img[idx][g_sub_off / 2 + i] = (uint16)((d[2 * i] << 8) | d[2 * i + 1]);
        g_sub_off += length;
        g_twr_n++;
        return length;
    }
}

intn
Hseek(int32 access_id, int32 offset, intn origin)
{
    if (access_id == g_aid) { /* HLconvert puts the converted element back to its old position */
        H4V_CHECK(origin == DF_START && offset >= 0, "re-seek of the caller's record");
        if (sub_fail())
            return FAIL;
        g_arec->posn = offset;
        return SUCCEED;
    }
    H4V_CHECK(g_sub_kind != 0 && access_id == sub_aid(), "Hseek on the open sub-access");
    H4V_CHECK(origin == DF_START, "sub-seek from the start");
    H4V_CHECK(offset >= 0 && offset <= g_sub_len, "sub-seek inside its block/table");
    if (offset < 0 || offset > g_sub_len)
        return FAIL;
    if (sub_fail())
        return FAIL;
    g_sub_off = offset;
    return SUCCEED;
}

int32
Hread(int32 access_id, int32 length, void *data)
{
    int32 n = length, i;
    H4V_CHECK(g_sub_kind != 0 && access_id == sub_aid(), "Hread on the open sub-access");
    if (length < 0 || data == NULL)
        return FAIL;
    if (g_sub_kind == 1) {
        int   k   = g_sub_ref - 1;
        int32 pos = blk_start(k) + g_sub_off;
        /* Hread(aid, 0, buf) means "read to the end of the element": never what a partial request wants */
        H4V_CHECK(length > 0, "C01: sub-read of length 0 (= read the rest of the block)");
        if (length == 0 || length > g_sub_len - g_sub_off)
            n = g_sub_len - g_sub_off; /* what the real Hread does */
        H4V_CHECK(k < g_nt * NBLK && !MISSING(k), "sub-read of an existing block");
        H4V_CHECK(g_sub_off + length <= g_sub_len, "C01: sub-read stays inside its block");
        H4V_CHECK(pos == g_next_pos, "C01: sub-reads tile the request contiguously, in element order");
        H4V_CHECK((uint8 *)data == g_buf + (pos - g_posn0), "C01: destination == data + (element position - posn)");
        H4V_CHECK(pos - g_posn0 >= 0 && pos - g_posn0 + n <= g_cap, "C01: sub-read stays inside the caller's buffer");
#ifdef H4V_CBMC
        __CPROVER_assert(n <= 0 || __CPROVER_w_ok(data, (size_t)n), "H4V: C01 sub-read destination is writable");
#endif
        if (sub_fail())
            return FAIL;
        for (i = 0; i < n; i++)
            ((uint8 *)data)[i] = PAT(pos + i);
        g_next_pos = pos + n;
        g_sub_off += n;
        g_brd_n++;
        return n;
    }
    if (g_sub_kind == 2) {
        /* a block table as it is on disk: next_ref, block refs, all big-endian */
        int    t = img_find(g_sub_ref);
        uint8 *p = (uint8 *)data;
        H4V_CHECK(g_sub_off == 0 && length == 2 + 2 * NBLK, "block table read as a whole");
        H4V_CHECK(t >= 0, "read of an existing block table");
        if (t < 0 || length != 2 + 2 * NBLK)
            return FAIL;
#ifdef H4V_CBMC
        __CPROVER_assert(__CPROVER_w_ok(data, (size_t)length), "H4V: table read destination is writable");
#endif
        if (sub_fail())
            return FAIL;
        for (i = 0; i <= NBLK; i++) {
            p[2 * i]     = (uint8)(g_img[t][i] >> 8);
            p[2 * i + 1] = (uint8)g_img[t][i];
        }
        g_brd_n++;
        return length;
    }
    return FAIL;
}

intn
Hendaccess(int32 access_id)
{
    H4V_CHECK(g_sub_kind != 0 && access_id == sub_aid(), "Hendaccess on the open sub-access");
    {
        int was_hdr = g_sub_kind == 3;
        g_sub_kind  = 0;
        g_end_n++;
        if (was_hdr && sub_fail())
            return FAIL;
    }
    return SUCCEED;
}

/* ------------------------------------------------------------------ trusted stubs: DD layer (hfiledd.c), misc */
static int
htp_fail(void)
{
    if (!g_htp_may_fail)
        return 0;
    H4V_ND(int, htp_fault);
    if (htp_fault) {
        g_htp_failed = 1;
        return 1;
    }
    return 0;
}
intn
HTPinquire(atom_t ddid, uint16 *ptag, uint16 *pref, int32 *poff, int32 *plen)
{
    H4V_CHECK(ddid == g_arec->ddid, "HTPinquire on the access record's DD");
    if (htp_fail())
        return FAIL;
    if (ptag) *ptag = g_dd_tag;
    if (pref) *pref = g_dd_ref;
    if (poff) *poff = g_dd_off;
    if (plen) *plen = g_dd_len;
    return SUCCEED;
}
int g_is_special;
intn
HTPis_special(atom_t ddid)
{
    return g_is_special;
}
intn
Hsetlength(int32 aid, int32 length)
{
    H4V_CHECK(aid == g_aid && (g_frec->access & DFACC_WRITE) != 0, "C14: Hsetlength on the caller's record of a writable file");
    if (htp_fail())
        return FAIL;
    g_mut_n++;
    g_dd_len = length;
    H4V_ND(int32, new_dd_off);
    H4V_ASSUME(new_dd_off >= 0);
    g_dd_off = new_dd_off;
    return SUCCEED;
}
intn
Hdupdd(int32 file_id, uint16 tag, uint16 ref, uint16 old_tag, uint16 old_ref)
{
    H4V_CHECK((g_frec->access & DFACC_WRITE) != 0, "C14: DD duplicated in a file opened read-only");
    g_mut_n++;
    if (htp_fail())
        return FAIL;
    return SUCCEED;
}
intn
HTPdelete(atom_t ddid)
{
    H4V_CHECK((g_frec->access & DFACC_WRITE) != 0, "C14: DD deleted in a file opened read-only");
    g_mut_n++;
    if (htp_fail())
        return FAIL;
    return SUCCEED;
}
atom_t
HTPcreate(filerec_t *file_rec, uint16 tag, uint16 ref)
{
    H4V_CHECK((file_rec->access & DFACC_WRITE) != 0, "C14: DD created in a file opened read-only");
    g_mut_n++;
    if (htp_fail())
        return FAIL;
    g_dd_tag = tag;
    g_dd_ref = ref;
    H4V_ND(int32, new_ddid);
    H4V_ASSUME(new_ddid != FAIL);
    return new_ddid;
}
extern int g_getrec_n;
accrec_t *
HIget_access_rec(void)
{
    g_getrec_n++;
    return NULL; /* "too many access records": HLcreate beyond its gates is not under contract here */
}
/* C13: a record goes back to the free list only when no registered handle designates it */
void
HIrelease_accrec_node(accrec_t *acc)
{
    H4V_CHECK(!(g_registered && acc == g_arec), "C13: the caller's live (still registered) access record is released");
    g_release_n++;
}
int32
Hoffset(int32 file_id, uint16 tag, uint16 ref)
{
    H4V_CHECK(file_id == g_fid && tag == DFTAG_LINKED && ref != 0 && ref < 100, "Hoffset of an existing data block");
    if (sub_fail())
        return FAIL;
    return OFF_OF(ref);
}
int32
Hlength(int32 file_id, uint16 tag, uint16 ref)
{
    H4V_CHECK(file_id == g_fid && tag == DFTAG_LINKED && ref != 0 && ref < 100, "Hlength of an existing data block");
    if (sub_fail())
        return FAIL;
    return blk_len(ref - 1);
}

/* ------------------------------------------------------------------ representation predicate */
#define LINK_WF                                                                                              \
    (g_arec->special_info == (void *)g_info && g_arec->file_id == g_fid && g_arec->posn >= 0 &&               \
     g_info->length >= 0 && FL >= 0 && BL >= 1 && NBLK >= 1 && g_info->attached >= 1)

/* ------------------------------------------------------------------ contracts */

/* C01: HLPseek -- position = base(origin) + offset; negative target refused; FAIL leaves the position */
#define LSEEK_T                                                                                              \
    ((int64_t)offset + (origin == DF_CURRENT ? (int64_t)__CPROVER_old(access_rec->posn)                        \
                                              : origin == DF_END ? (int64_t)g_info->length : (int64_t)0))
int32 HLPseek(accrec_t *access_rec, int32 offset, int origin)
    __CPROVER_requires(access_rec == g_arec && LINK_WF)
    __CPROVER_requires(origin == DF_START || origin == DF_CURRENT || origin == DF_END) /* checked by Hseek, the only caller */
    __CPROVER_assigns(access_rec->posn)
    __CPROVER_ensures(__CPROVER_return_value == SUCCEED || __CPROVER_return_value == FAIL)
    __CPROVER_ensures(access_rec->special != SPECIAL_LINKED ==> __CPROVER_return_value == FAIL)
    __CPROVER_ensures(__CPROVER_return_value == SUCCEED ==> (int64_t)access_rec->posn == LSEEK_T)
    __CPROVER_ensures(__CPROVER_return_value == FAIL ==> access_rec->posn == __CPROVER_old(access_rec->posn))
    /* there is no upper bound to the position of a linked-block element, except representability */
    __CPROVER_ensures((access_rec->special == SPECIAL_LINKED && LSEEK_T >= 0 && LSEEK_T <= INT32_MAX) ==> __CPROVER_return_value == SUCCEED)
    __CPROVER_ensures((LSEEK_T < 0 || LSEEK_T > INT32_MAX) ==> __CPROVER_return_value == FAIL);

/* C01: HLPread -- read of a growable byte array stored as a chain of blocks */
#define RD_AVAIL (g_posn0 >= g_info->length ? 0 : g_info->length - g_posn0)
#define RD_WANT ((length == 0 || length > RD_AVAIL) ? RD_AVAIL : length)
int32 HLPread(accrec_t *access_rec, int32 length, void *datap)
    __CPROVER_requires(access_rec == g_arec && LINK_WF)
    __CPROVER_requires(datap == (void *)g_buf && g_posn0 == access_rec->posn && g_next_pos == g_posn0)
    __CPROVER_requires(g_sub_kind == 0 && g_brd_n == 0 && g_start_n == 0 && g_end_n == 0 && g_sub_failed == 0 && g_zero_n == 0)
    __CPROVER_assigns(access_rec->posn, __CPROVER_object_whole(datap), g_sub_kind, g_sub_ref, g_sub_off, g_sub_len, g_sub_wr,
                      g_start_n, g_end_n, g_brd_n, g_next_pos, g_sub_failed, g_zero_n)
    __CPROVER_ensures(length < 0 ==> __CPROVER_return_value == FAIL)
    __CPROVER_ensures(__CPROVER_return_value == FAIL ==> access_rec->posn == g_posn0)
    /* transfer count: min(length or rest, length of element - position); 0 at or after the end */
    __CPROVER_ensures((length >= 0 && !g_sub_failed) ==> __CPROVER_return_value == RD_WANT)
    __CPROVER_ensures(__CPROVER_return_value != FAIL ==> access_rec->posn == g_posn0 + __CPROVER_return_value)
    /* the sub-reads and zero fills together cover exactly [posn, posn + count) */
    __CPROVER_ensures(__CPROVER_return_value != FAIL ==> g_next_pos == g_posn0 + RD_WANT)
    /* reading at or after the end touches no block at all */
    __CPROVER_ensures(g_posn0 >= g_info->length ==> (g_start_n == 0 && g_brd_n == 0))
    /* a failed sub-read is reported */
    __CPROVER_ensures(g_sub_failed ==> __CPROVER_return_value == FAIL)
    /* without a fault every sub-access was ended again */
    __CPROVER_ensures(!g_sub_failed ==> (g_sub_kind == 0 && g_start_n == g_end_n));


/* C13 (+C14, C01): HLconvert -- promotion of the caller's ordinary element to linked blocks.  Whatever happens, the
   caller's access record stays the caller's: it is still registered under `aid`, so it must never be handed to
   HIrelease_accrec_node (checked inside that stub and counted in g_release_n). */
#define BE16B(v, k) ((uint8)(((uint16)(v)) >> (8 * (1 - (k)))))
#define BE32B(v, k) ((uint8)(((uint32)(v)) >> (8 * (3 - (k)))))
#define CONV_INFO ((linkinfo_t *)g_arec->special_info)
/* the 16-byte special header of a linked-block element (constant shifts only) */
#define LHDR_OK(h, len, bl, nb, lref)                                                                        \
    ((h)[0] == BE16B(SPECIAL_LINKED, 0) && (h)[1] == BE16B(SPECIAL_LINKED, 1) && (h)[2] == BE32B(len, 0) && (h)[3] == BE32B(len, 1) &&   \
     (h)[4] == BE32B(len, 2) && (h)[5] == BE32B(len, 3) && (h)[6] == BE32B(bl, 0) && (h)[7] == BE32B(bl, 1) && (h)[8] == BE32B(bl, 2) && \
     (h)[9] == BE32B(bl, 3) && (h)[10] == BE32B(nb, 0) && (h)[11] == BE32B(nb, 1) && (h)[12] == BE32B(nb, 2) &&                         \
     (h)[13] == BE32B(nb, 3) && (h)[14] == BE16B(lref, 0) && (h)[15] == BE16B(lref, 1))
int HLconvert(int32 aid, int32 block_length, int32 number_blocks)
    __CPROVER_requires(g_arec != NULL && g_frec != NULL && g_arec->file_id == g_fid && g_frec->refcount >= 1 && g_arec->posn >= 0)
    __CPROVER_requires(g_arec->special == 0 && g_arec->special_info == NULL && g_registered && g_posn0 == g_arec->posn)
    __CPROVER_requires(g_mut_n == 0 && g_release_n == 0 && g_start_n == 0 && g_end_n == 0 && g_hdr_mask == 0 && g_sub_kind == 0 &&
                       g_sub_failed == 0 && g_htp_failed == 0 && g_newref_n == 0 && g_img_n == 0 && g_j >= 0 && g_j < 16)
    __CPROVER_assigns(__CPROVER_object_whole(g_arec), g_dd_tag, g_dd_ref, g_dd_off, g_dd_len, g_mut_n, g_release_n, g_sub_kind, g_sub_ref,
                      g_sub_off, g_sub_len, g_sub_wr, g_start_n, g_end_n, g_bwr_n, g_twr_n, g_newref_n, g_next_pos, g_sub_failed,
                      g_htp_failed, g_img_n, g_hdr_mask, g_hdr_wr_n, __CPROVER_object_whole(g_new_made), __CPROVER_object_whole(g_new_len),
                      __CPROVER_object_whole(g_img_ref), __CPROVER_object_whole(g_img), __CPROVER_object_whole(g_hdr),
                      __CPROVER_object_whole(g_wr_blkref))
    /* C13: the caller's record is never released */
    __CPROVER_ensures(g_release_n == 0)
    /* bad arguments (a block table without blocks or blocks without bytes cannot hold an element) / C14: a read-only
       file / an element that is already special: refused before anything is changed */
    __CPROVER_ensures((aid != g_aid || block_length <= 0 || number_blocks <= 0 || !(g_frec->access & DFACC_WRITE) || g_is_special) ==>
                      (__CPROVER_return_value == FAIL && g_mut_n == 0 && g_start_n == 0 && g_arec->special == 0))
    __CPROVER_ensures(__CPROVER_return_value == SUCCEED || __CPROVER_return_value == FAIL)
    __CPROVER_ensures((g_sub_failed || g_htp_failed) ==> __CPROVER_return_value == FAIL)
    __CPROVER_ensures((aid == g_aid && block_length > 0 && number_blocks > 0 && (g_frec->access & DFACC_WRITE) && !g_is_special &&
                       !g_sub_failed && !g_htp_failed) ==> __CPROVER_return_value == SUCCEED)
    /* C01: the converted element has the same length and position; the old data is its first block */
    __CPROVER_ensures(__CPROVER_return_value == SUCCEED ==>
                      (g_arec->special == SPECIAL_LINKED && g_arec->special_func == &linked_funcs && g_arec->posn == g_posn0 &&
                       CONV_INFO != NULL && CONV_INFO->length == g_dd_len && CONV_INFO->first_length == g_dd_len &&
                       CONV_INFO->block_length == block_length && CONV_INFO->number_blocks == number_blocks && CONV_INFO->attached == 1 &&
                       CONV_INFO->link != NULL && CONV_INFO->link->next == NULL && CONV_INFO->link->nextref == 0 &&
                       CONV_INFO->link->block_list[0].ref != 0))
    /* C02: the special header on disk describes exactly that, and the first block table is on disk as it is in memory */
    __CPROVER_ensures(__CPROVER_return_value == SUCCEED ==>
                      (g_hdr_mask == 0xffffu && LHDR_OK(g_hdr, g_dd_len, block_length, number_blocks, CONV_INFO->link_ref)))
    __CPROVER_ensures(__CPROVER_return_value == SUCCEED ==>
                      (g_img_n == 1 && g_img_ref[0] == CONV_INFO->link_ref && g_img[0][0] == 0 &&
                       g_img[0][1] == CONV_INFO->link->block_list[0].ref));

/* C01/C02/C14: HLcreate argument and write-access gate -- a request that cannot yield a well-formed linked-block element
   (no blocks per table, no bytes per block, special tag, bad file id) or that goes to a read-only file is refused before
   anything is created: no access record taken, no DD touched, no ref consumed, nothing written */
int g_getrec_n;
#define HLC_REFUSED (file_id != g_fid || block_length <= 0 || number_blocks <= 0 || SPECIALTAG(tag) || !(g_frec->access & DFACC_WRITE))
int32 HLcreate(int32 file_id, uint16 tag, uint16 ref, int32 block_length, int32 number_blocks)
    __CPROVER_requires(g_frec != NULL && g_frec->refcount >= 1 && g_getrec_n == 0 && g_mut_n == 0 && g_start_n == 0 && g_newref_n == 0 &&
                       g_release_n == 0)
    __CPROVER_assigns(g_getrec_n, g_mut_n, g_start_n, g_newref_n, g_release_n)
    __CPROVER_ensures(HLC_REFUSED ==> (__CPROVER_return_value == FAIL && g_getrec_n == 0 && g_mut_n == 0 && g_start_n == 0 &&
                                       g_newref_n == 0 && g_release_n == 0));

/* C02: HLgetdatainfo -- raw (offset, length) of the data blocks, never more entries than the caller's arrays hold */
int      g_exp_total;              /* number of data blocks of the element (leading non-zero refs of each table) */
uint16   g_exp_ref[H4V_MAXK + 1];  /* their refs, in order */
#define GDI_MIN(a, b) ((a) < (b) ? (a) : (b))
int HLgetdatainfo(int32 file_id, uint8 *buf, unsigned start_block, unsigned info_count, int32 *offsetarray, int32 *lengtharray)
    __CPROVER_requires(file_id == g_fid && buf != NULL && g_exp_total >= 0 && g_exp_total <= H4V_MAXK)
    __CPROVER_requires((offsetarray == NULL) == (lengtharray == NULL) && (offsetarray != NULL || info_count == 0))
    __CPROVER_requires(g_sub_kind == 0 && g_sub_failed == 0 && g_start_n == 0 && g_end_n == 0)
    __CPROVER_assigns(g_sub_kind, g_sub_ref, g_sub_off, g_sub_len, g_sub_wr, g_start_n, g_end_n, g_brd_n, g_sub_failed;
                      offsetarray != NULL: __CPROVER_object_whole(offsetarray); lengtharray != NULL: __CPROVER_object_whole(lengtharray))
    __CPROVER_ensures((offsetarray != NULL && info_count == 0) ==> __CPROVER_return_value == FAIL)
    __CPROVER_ensures(g_sub_failed ==> __CPROVER_return_value == FAIL)
    /* the count never exceeds the caller-supplied array size */
    __CPROVER_ensures((offsetarray != NULL && __CPROVER_return_value != FAIL) ==> (unsigned)__CPROVER_return_value <= info_count)
    __CPROVER_ensures((offsetarray != NULL && info_count > 0 && !g_sub_failed) ==>
                      __CPROVER_return_value == (int)GDI_MIN((unsigned)g_exp_total, info_count))
    /* without arrays: the number of data blocks */
    __CPROVER_ensures((offsetarray == NULL && !g_sub_failed) ==> __CPROVER_return_value == g_exp_total);

/* C01/C02: HLPwrite -- write into a growable byte array stored as a chain of blocks */
int32 g_old_length;
#define WR_MAX(a, b) ((a) > (b) ? (a) : (b))
int32 HLPwrite(accrec_t *access_rec, int32 length, const void *datap)
    __CPROVER_requires(access_rec == g_arec && LINK_WF && g_frec != NULL && g_frec->refcount >= 1)
    /* the invariant Hstartaccess establishes and Hwrite checks: a record with write access belongs to a writable file */
    __CPROVER_requires((g_arec->access & DFACC_WRITE) && (g_frec->access & DFACC_WRITE))
    __CPROVER_requires(datap == (const void *)g_buf && g_posn0 == access_rec->posn && g_next_pos == g_posn0 && g_old_length == g_info->length)
    __CPROVER_requires(g_sub_kind == 0 && g_bwr_n == 0 && g_twr_n == 0 && g_start_n == 0 && g_end_n == 0 && g_sub_failed == 0 &&
                       g_htp_failed == 0 && g_hdr_mask == 0 && g_newref_n == 0)
    __CPROVER_assigns(access_rec->posn, g_info->length, g_sub_kind, g_sub_ref, g_sub_off, g_sub_len, g_sub_wr, g_start_n, g_end_n, g_bwr_n,
                      g_twr_n, g_newref_n, g_next_pos, g_sub_failed, g_htp_failed, g_img_n, g_hdr_mask, g_hdr_wr_n,
                      __CPROVER_object_whole(g_new_made), __CPROVER_object_whole(g_new_len), __CPROVER_object_whole(g_img_ref),
                      __CPROVER_object_whole(g_img), __CPROVER_object_whole(g_hdr), __CPROVER_object_whole(g_wr_blkref),
                      __CPROVER_object_whole(g_tab[0]), __CPROVER_object_whole(g_tab[0]->block_list);
                      g_tab[1] != NULL: __CPROVER_object_whole(g_tab[1]); g_tab[1] != NULL: __CPROVER_object_whole(g_tab[1]->block_list);
                      g_tab[2] != NULL: __CPROVER_object_whole(g_tab[2]); g_tab[2] != NULL: __CPROVER_object_whole(g_tab[2]->block_list))
    __CPROVER_ensures(length <= 0 ==> (__CPROVER_return_value == FAIL && g_start_n == 0))
    __CPROVER_ensures(__CPROVER_return_value == FAIL ==> access_rec->posn == g_posn0)
    __CPROVER_ensures((g_sub_failed || g_htp_failed) ==> __CPROVER_return_value == FAIL)
    /* everything is written: count, position, tiling of [posn, posn+length) */
    __CPROVER_ensures((length > 0 && !g_sub_failed && !g_htp_failed) ==> __CPROVER_return_value == length)
    __CPROVER_ensures(__CPROVER_return_value != FAIL ==>
                      (__CPROVER_return_value == length && access_rec->posn == g_posn0 + length && g_next_pos == g_posn0 + length))
    /* the element grows exactly to the end of the write, and the stored length (4 bytes at offset 2 of the header) follows */
    __CPROVER_ensures(__CPROVER_return_value != FAIL ==> g_info->length == WR_MAX(g_old_length, g_posn0 + length))
    __CPROVER_ensures(__CPROVER_return_value != FAIL ==>
                      (g_hdr_mask == 0x3cu && g_hdr[2] == BE32B(g_info->length, 0) && g_hdr[3] == BE32B(g_info->length, 1) &&
                       g_hdr[4] == BE32B(g_info->length, 2) && g_hdr[5] == BE32B(g_info->length, 3)))
    __CPROVER_ensures((!g_sub_failed && !g_htp_failed) ==> (g_sub_kind == 0 && g_start_n == g_end_n));

/* C01/C02: HLInewlink -- a fresh block table in memory and, identically, on disk */
static link_t *HLInewlink(int32 file_id, int32 number_blocks, uint16 link_ref, uint16 first_block_ref)
    __CPROVER_requires(file_id == g_fid && g_frec != NULL && (g_frec->access & DFACC_WRITE) && number_blocks == g_info->number_blocks)
    __CPROVER_requires(number_blocks >= 0 && link_ref >= 200 && link_ref - 200 < g_newref_n && g_img_n == 0 && g_sub_kind == 0 &&
                       g_sub_failed == 0 && g_start_n == 0 && g_end_n == 0 && g_j >= 0 && g_j < number_blocks)
    __CPROVER_assigns(g_sub_kind, g_sub_ref, g_sub_off, g_sub_len, g_sub_wr, g_start_n, g_end_n, g_twr_n, g_bwr_n, g_next_pos, g_sub_failed,
                      g_img_n, g_hdr_mask, g_hdr_wr_n, __CPROVER_object_whole(g_new_made), __CPROVER_object_whole(g_new_len),
                      __CPROVER_object_whole(g_img_ref), __CPROVER_object_whole(g_img), __CPROVER_object_whole(g_hdr),
                      __CPROVER_object_whole(g_wr_blkref))
    __CPROVER_ensures(g_sub_failed ==> __CPROVER_return_value == NULL)
    __CPROVER_ensures(__CPROVER_return_value != NULL ==>
                      (__CPROVER_return_value->next == NULL && __CPROVER_return_value->nextref == 0 &&
                       __CPROVER_return_value->block_list[g_j].ref == (g_j == 0 ? first_block_ref : 0)))
    __CPROVER_ensures(__CPROVER_return_value != NULL ==>
                      (g_img_n == 1 && g_img_ref[0] == link_ref && g_img[0][0] == 0 && g_img[0][1 + g_j] == (g_j == 0 ? first_block_ref : 0) &&
                       g_start_n == 1 && g_end_n == 1 && g_twr_n == 1));


#ifdef H4V_NATIVE
#include "h4v_native_wrap.h"
#endif

/* ------------------------------------------------------------------ harnesses */
static void
mk_ids(void)
{
    H4V_HAVOC(int32, g_fid);
    H4V_HAVOC(int32, g_aid);
    H4V_ASSUME(g_fid != g_aid && g_fid != FAIL && g_aid != FAIL);
    H4V_ASSUME(g_fid != AID_BLK && g_fid != AID_TAB && g_fid != AID_HDR && g_fid != AID_NEW);
    H4V_ASSUME(g_aid != AID_BLK && g_aid != AID_TAB && g_aid != AID_HDR && g_aid != AID_NEW);
    g_sub_kind = 0;
    g_sub_ref = 0;
    g_sub_off = g_sub_len = 0;
    g_sub_wr  = 0;
    g_start_n = g_end_n = g_brd_n = g_bwr_n = 0;
    g_sub_failed = 0;
    g_newref_n   = 0;
    g_zero_n     = 0;
    /* g_sub_may_fail, g_htp_may_fail, g_is_special: set exactly once by each harness (a havocked ghost must not be
       assigned before its H4V_HAVOC, or the replay would pick up the wrong value) */
    memset(g_new_made, 0, sizeof g_new_made);
    memset(g_new_len, 0, sizeof g_new_len);
    memset(g_img_ref, 0, sizeof g_img_ref);
    memset(g_img, 0, sizeof g_img);
    memset(g_wr_blkref, 0, sizeof g_wr_blkref);
    memset(g_hdr, 0, sizeof g_hdr);
    g_img_n = g_twr_n = 0;
    g_hdr_mask = 0;
    g_hdr_wr_n = 0;
    g_mut_n = g_release_n = 0;
    g_registered   = 1;
    g_htp_failed   = 0;
    g_buf          = NULL;
    g_cap          = 0;
    H4V_HAVOC(uint16, g_dd_tag);
    H4V_HAVOC(uint16, g_dd_ref);
    H4V_HAVOC(int32, g_dd_off);
    H4V_HAVOC(int32, g_dd_len);
}

/* file record, access record and special info (no tables yet) */
static void
mk_recs(void)
{
    mk_ids();
    g_frec = malloc(sizeof(filerec_t));
    H4V_ASSUME(g_frec != NULL);
    H4V_ND(int, f_access);
    H4V_ND(int, f_attach);
    g_frec->path = NULL;
    g_frec->file = NULL;
    g_frec->maxref = 0;
    g_frec->version_set = 1;
    g_frec->f_cur_off = 0;
    g_frec->f_end_off = 0;
    g_frec->cache = 0;
    g_frec->dirty = 0;
    g_frec->ddhead = g_frec->ddlast = g_frec->ddnull = NULL;
    g_frec->ddnull_idx = -1;
    g_frec->tag_tree = NULL;
    g_frec->access   = f_access;
    g_frec->refcount = 1;
    g_frec->attach   = f_attach;
    g_arec = malloc(sizeof(accrec_t));
    H4V_ASSUME(g_arec != NULL);
    g_info = malloc(sizeof(linkinfo_t));
    H4V_ASSUME(g_info != NULL);
    H4V_ND(int, a_special);
    H4V_ND(uint32, a_access);
    H4V_ND(int32, a_ddid);
    H4V_ND(int32, a_posn);
    g_arec->appendable   = 0;
    g_arec->special      = a_special;
    g_arec->new_elem     = 0;
    g_arec->block_size   = 0;
    g_arec->num_blocks   = 0;
    g_arec->access       = a_access;
    g_arec->access_type  = 0;
    g_arec->file_id      = g_fid;
    g_arec->ddid         = a_ddid;
    g_arec->posn         = a_posn;
    g_arec->special_info = g_info;
    g_arec->special_func = &linked_funcs;
    g_arec->next         = NULL;
    H4V_ND(int, i_attached);
    H4V_ND(int32, i_length);
    H4V_ND(int32, i_first_length);
    H4V_ND(int32, i_block_length);
    H4V_ND(int32, i_number_blocks);
    g_info->attached      = i_attached;
    g_info->length        = i_length;
    g_info->first_length  = i_first_length;
    g_info->block_length  = i_block_length;
    g_info->number_blocks = i_number_blocks;
    g_info->link_ref      = REF_TAB(0);
    g_info->link          = NULL;
    g_info->last_link     = NULL;
    g_posn0               = a_posn;
    g_next_pos            = a_posn;
}

/* the bounded chain of block tables: g_nt tables of NBLK blocks, block k present unless MISSING(k) */
static void
mk_tables(void)
{
    int t, i;
    H4V_HAVOC(int, g_nt);
    H4V_HAVOC(unsigned, g_miss);
    H4V_ASSUME(g_nt >= 1 && g_nt <= H4V_NT && H4V_NT <= H4V_MAXT && H4V_NT * H4V_NB <= H4V_MAXK);
    H4V_ASSUME(NBLK >= 1 && NBLK <= H4V_NB);
#ifdef H4V_NBC
    g_info->number_blocks = H4V_NBC; /* one constant table size per run keeps the division by number_blocks concrete */
#endif
    H4V_ASSUME(FL >= 0 && FL <= H4V_MAXLEN && BL >= 1 && BL <= H4V_MAXLEN);
    g_tab[0] = g_tab[1] = g_tab[2] = g_tab[3] = NULL;
    for (t = 0; t < H4V_NT; t++) {
        if (t < g_nt) {
            g_tab[t] = malloc(sizeof(link_t));
            H4V_ASSUME(g_tab[t] != NULL);
            g_tab[t]->block_list = malloc((size_t)NBLK * sizeof(block_t));
            H4V_ASSUME(g_tab[t]->block_list != NULL);
            for (i = 0; i < H4V_NB; i++)
                if (i < NBLK) {
                    int k                       = t * NBLK + i;
                    g_tab[t]->block_list[i].ref = (uint16)(MISSING(k) ? 0 : REF_BLK(k));
                }
            g_tab[t]->nextref = (uint16)(t + 1 < g_nt ? REF_TAB(t + 1) : 0);
            g_tab[t]->next    = NULL;
            /* the disk holds the same table */
            g_img_ref[t] = REF_TAB(t);
            g_img[t][0]  = g_tab[t]->nextref;
            for (i = 0; i < H4V_NB; i++)
                if (i < NBLK)
                    g_img[t][1 + i] = g_tab[t]->block_list[i].ref;
            if (t > 0)
                g_tab[t - 1]->next = g_tab[t];
        }
    }
    g_img_n           = g_nt;
    g_info->link      = g_tab[0];
    g_info->last_link = g_tab[g_nt - 1];
    /* the tables cover the element: every byte below info->length lies in a block slot of the chain */
    H4V_ASSUME(g_info->length >= 0 && g_info->length <= blk_start(g_nt * NBLK));
}

void
h_HLPseek(void)
{
    mk_recs();
    g_sub_may_fail = g_htp_may_fail = g_is_special = 0;
    H4V_ND(int32, offset);
    H4V_ND(int, origin);
    int32 r = HLPseek(g_arec, offset, origin);
    H4V_COVER(r == SUCCEED && g_arec->posn > g_info->length, "HLPseek past the end");
    H4V_COVER(r == FAIL && g_arec->special == SPECIAL_LINKED, "HLPseek refused");
    H4V_CANARY("HLPseek end");
}

void
h_HLPread(void)
{
    mk_recs();
    mk_tables();
    g_arec->special = SPECIAL_LINKED;
    H4V_HAVOC(int, g_sub_may_fail);
    g_htp_may_fail = g_is_special = 0;
    H4V_ND(int32, length);
    H4V_ASSUME(g_posn0 >= 0 && g_posn0 <= H4V_MAXPOS && length >= -1 && length <= H4V_MAXPOS);
    /* one obligation per region of the input space (H4V_CASE), so that each known defect fails its own obligation:
       1 = position inside the element, every block of the element present; 2 = inside, holes allowed;
       3 = position exactly at the end; 4 = position beyond the end (HLPseek allows it); 0 = everything */
#if H4V_CASE == 1
    H4V_ASSUME(g_posn0 < g_info->length && (g_miss & ((1u << blk_of(g_info->length - 1) << 1) - 1u)) == 0);
#elif H4V_CASE == 2
    H4V_ASSUME(g_posn0 < g_info->length);
#elif H4V_CASE == 3
    H4V_ASSUME(g_posn0 == g_info->length);
#elif H4V_CASE == 4
    H4V_ASSUME(g_posn0 > g_info->length);
#endif
    /* the caller's buffer holds exactly what the caller is entitled to: `length` bytes, or the rest of the
       element when length == 0 */
    int32 avail = g_posn0 >= g_info->length ? 0 : g_info->length - g_posn0;
    int32 want  = (length == 0 || length > avail) ? avail : length;
    g_cap       = length > 0 ? length : length == 0 ? avail : 0;
    /* arbitrary initial contents (natively: a byte value that is neither zero nor a stored byte) */
    g_buf = malloc((size_t)g_cap);
    H4V_ASSUME(g_buf != NULL);
#ifndef H4V_CBMC
    for (int32 bi = 0; bi < g_cap; bi++)
        g_buf[bi] = 0x55;
#endif
    H4V_HAVOC(int32, g_j);
    H4V_ASSUME(g_j >= 0 && g_j < 32);
    g_old_byte = g_j < g_cap ? g_buf[g_j] : 0;
    int32 r = HLPread(g_arec, length, g_buf);
    if (r != FAIL && g_j < want) {
        int k = blk_of(g_posn0 + g_j);
        H4V_CHECK(g_buf[g_j] == (MISSING(k) ? 0 : PAT(g_posn0 + g_j)),
                  "C01: every byte returned is the stored byte, zero inside a missing block");
    }
    if (g_j < g_cap && (r == FAIL || g_j >= want))
        H4V_CHECK(r == FAIL || g_buf[g_j] == g_old_byte, "C01: nothing outside data[0..ret) is written");
#if H4V_CASE <= 2
    H4V_COVER(r > 0 && g_brd_n >= 2, "HLPread across blocks");
    H4V_COVER(r > 0 && g_brd_n == 1 && r < length, "HLPread clamped to the end of the element");
    H4V_COVER(r != FAIL && length == 0 && g_brd_n == 1, "HLPread to the end");
#endif
#if H4V_CASE == 2
    H4V_COVER(r != FAIL && g_zero_n >= 1 && g_brd_n >= 1, "HLPread across a hole");
#endif
#if H4V_CASE <= 2 /* at or after the end (cases 3, 4) nothing is read, so no sub-access can fail */
    H4V_COVER(r == FAIL && g_sub_failed, "HLPread fault");
#else
    H4V_COVER(r == 0, "HLPread at/after the end returns 0");
#endif
    H4V_CANARY("HLPread end");
}

/* ---------------------------------------------------------------- HLconvert */
void
h_HLconvert(void)
{
    mk_recs();
    g_arec->special      = 0;
    g_arec->special_info = NULL;
    g_arec->special_func = NULL;
    /* geometry for the stubs: the table written by HLInewlink has number_blocks entries */
    H4V_ND(int32, aid);
    H4V_ND(int32, block_length);
    H4V_ND(int32, number_blocks);
    H4V_ASSUME(number_blocks <= H4V_NB);
#ifdef H4V_NBC
    H4V_ASSUME(number_blocks == H4V_NBC);
#endif
    g_info->number_blocks = number_blocks; /* (the ghost geometry record; the real one is allocated by HLconvert) */
    H4V_HAVOC(int, g_is_special);
    H4V_ASSUME(g_is_special == 0 || g_is_special == 1);
    H4V_HAVOC(int, g_sub_may_fail);
    H4V_HAVOC(int, g_htp_may_fail);
    H4V_HAVOC(int32, g_j);
    H4V_ASSUME(BASETAG(g_dd_tag) == g_dd_tag && MKSPECIALTAG(g_dd_tag) != DFTAG_NULL); /* an ordinary element */
    H4V_ASSUME((g_dd_off == INVALID_OFFSET && g_dd_len == INVALID_LENGTH) || (g_dd_off >= 0 && g_dd_len >= 0));
#if H4V_CASE == 1 /* the conversion has to succeed */
    H4V_ASSUME(aid == g_aid && block_length > 0 && number_blocks > 0 && (g_frec->access & DFACC_WRITE) && !g_is_special);
    g_sub_may_fail = g_htp_may_fail = 0;
#elif H4V_CASE == 2 /* C14 gate: read-only file */
    H4V_ASSUME(aid == g_aid && !(g_frec->access & DFACC_WRITE));
#elif H4V_CASE == 3 /* argument gate: no blocks per table or no bytes per block */
    H4V_ASSUME(aid == g_aid && (g_frec->access & DFACC_WRITE) && !g_is_special && (block_length <= 0 || number_blocks <= 0));
#endif
    int r = HLconvert(aid, block_length, number_blocks);
#if H4V_CASE == 1
    H4V_COVER(r == SUCCEED && g_posn0 > 0, "HLconvert ok, position restored");
    H4V_COVER(r == SUCCEED && g_dd_len == 0, "HLconvert of an element without data");
#else
    H4V_COVER(r == FAIL && aid == g_aid, "HLconvert refused or failed");
#endif
    H4V_CANARY("HLconvert end");
}

/* ---------------------------------------------------------------- HLgetdatainfo */
void
h_HLgetdatainfo(void)
{
    int t, i;
    mk_recs();
    mk_tables();
    H4V_HAVOC(int, g_sub_may_fail);
    g_htp_may_fail = g_is_special = 0;
    /* the data blocks an independent reader finds: the leading non-zero refs of every table of the chain */
    g_exp_total = 0;
    for (t = 0; t < H4V_NT; t++)
        if (t < g_nt) {
            int open = 1;
            for (i = 0; i < H4V_NB; i++)
                if (i < NBLK) {
                    if (g_tab[t]->block_list[i].ref == 0)
                        open = 0;
                    if (open)
                        g_exp_ref[g_exp_total++] = g_tab[t]->block_list[i].ref;
                }
        }
    /* the 14 bytes of the special header after the special code */
    uint8 *hb = malloc(14);
    H4V_ASSUME(hb != NULL);
    {
        uint8 *p = hb;
        INT32ENCODE(p, g_info->length);
        INT32ENCODE(p, g_info->block_length);
        INT32ENCODE(p, g_info->number_blocks);
        UINT16ENCODE(p, g_info->link_ref);
    }
    H4V_ND(unsigned, info_count);
    H4V_ND(int, with_arrays);
    H4V_ASSUME(info_count <= (unsigned)H4V_MAXK + 1);
    if (!with_arrays)
        info_count = 0;
    int32 *offs = NULL, *lens = NULL;
    if (with_arrays) { /* exactly info_count entries each */
        offs = malloc((size_t)info_count * sizeof(int32));
        lens = malloc((size_t)info_count * sizeof(int32));
        H4V_ASSUME(offs != NULL && lens != NULL);
    }
    H4V_HAVOC(int32, g_j);
    H4V_ASSUME(g_j >= 0 && g_j <= H4V_MAXK);
    /* regions of the input space (one obligation each): 1 = no fault, arrays (if any) hold every block of the element;
       2 = no fault, arrays smaller than the element; 3 = sub-access faults injected */
#if H4V_CASE == 1
    g_sub_may_fail = 0;
    H4V_ASSUME(!with_arrays || info_count >= (unsigned)g_exp_total);
#elif H4V_CASE == 2
    g_sub_may_fail = 0;
    H4V_ASSUME(with_arrays && info_count > 0 && info_count < (unsigned)g_exp_total);
#elif H4V_CASE == 3
    H4V_ASSUME(!with_arrays || info_count >= (unsigned)g_exp_total);
#endif
    int r = HLgetdatainfo(g_fid, hb, 0, info_count, offs, lens);
    if (r != FAIL && with_arrays && g_j < r && g_j < (int)info_count && g_j < g_exp_total) {
        H4V_CHECK(offs[g_j] == OFF_OF(g_exp_ref[g_j]), "C02: reported offset is where the data block is");
        H4V_CHECK(g_j == g_exp_total - 1 || lens[g_j] == blk_len(g_exp_ref[g_j] - 1), "C02: reported length of a non-final block is the block length");
    }
    /* when every data block is reported and the element ends inside its last (standard-size) block, the reported lengths add up
       to the element's length: the final entry is the number of data bytes actually in that block, where an independent reader
       finds them */
    /* (a trailing block table without any data block -- a state HLPwrite only passes through -- is left out) */
    if (r != FAIL && with_arrays && r == g_exp_total && g_exp_total >= 2 && blk_len(g_exp_ref[g_exp_total - 1] - 1) == BL &&
        g_tab[g_nt - 1]->block_list[0].ref != 0) {
        int32 cap = 0, sum = 0;
        for (i = 0; i < H4V_NT * H4V_NB; i++) /* at most NT tables x NB blocks */
            if (i < g_exp_total) {
                cap += blk_len(g_exp_ref[i] - 1);
                sum += lens[i];
            }
        if (cap >= g_info->length && cap - BL < g_info->length)
            H4V_CHECK(sum == g_info->length, "C02: reported lengths of all data blocks add up to the element length");
    }
#if H4V_CASE == 1 || H4V_CASE == 0
    H4V_COVER(r != FAIL && with_arrays && (unsigned)r < info_count && r >= 2, "HLgetdatainfo arrays larger than the element");
    H4V_COVER(r != FAIL && !with_arrays && r >= 3, "HLgetdatainfo count only");
#endif
#if H4V_CASE == 3
    H4V_COVER(r == FAIL && g_sub_failed, "HLgetdatainfo fault reported");
#endif
    H4V_CANARY("HLgetdatainfo end");
}

/* ---------------------------------------------------------------- HLPwrite */
static link_t *
final_tab(int t)
{
    link_t *l = g_info->link;
    int     i;
    for (i = 0; i < H4V_NT; i++) {
        if (l == NULL || i == t)
            return l;
        l = l->next;
    }
    return NULL;
}
static uint16
final_ref(int k)
{
    link_t *l = final_tab(k / NBLK);
    return l == NULL ? 0 : l->block_list[k % NBLK].ref;
}

void
h_HLPwrite(void)
{
    mk_recs();
    mk_tables();
    g_arec->special = SPECIAL_LINKED;
    g_old_length    = g_info->length;
    g_is_special    = 1;
    H4V_HAVOC(int, g_sub_may_fail);
    H4V_HAVOC(int, g_htp_may_fail);
#ifdef H4V_NOFAULT /* fault-free variant: much cheaper; fault propagation is covered by the variants without it */
    g_sub_may_fail = g_htp_may_fail = 0;
#endif
    H4V_ND(int32, length);
    H4V_ASSUME(g_posn0 >= 0 && g_posn0 <= H4V_MAXPOS && length >= -1 && length <= H4V_MAXPOS);
    /* bound: the write ends inside the H4V_NT tables modelled (missing tables up to that number are created) */
    H4V_ASSUME(length <= 0 || blk_of(g_posn0 + length - 1) < H4V_NT * NBLK);
    g_cap = length > 0 ? length : 0;
    g_buf = malloc((size_t)g_cap);
    H4V_ASSUME(g_buf != NULL);
#ifndef H4V_CBMC
    for (int32 bi = 0; bi < g_cap; bi++)
        g_buf[bi] = PAT(g_posn0 + bi);
#endif
    int32 r = HLPwrite(g_arec, length, g_buf);
    if (r != FAIL) {
        int first = blk_of(g_posn0), last = blk_of(g_posn0 + length - 1);
        int nt_exp = last / NBLK + 1 > g_nt ? last / NBLK + 1 : g_nt;
        H4V_ND(int, gk);
        H4V_ND(int, gk2);
        H4V_ND(int, gt);
        H4V_ND(int, gi);
        H4V_ASSUME(gk >= 0 && gk < H4V_NT * NBLK && gk2 >= 0 && gk2 < H4V_NT * NBLK && gt >= 0 && gt < H4V_NT && gi >= 0 && gi < NBLK);
        /* (a) blocks: existing ones keep their ref, missing ones are created exactly when the write touches them */
        uint16 fr  = final_ref(gk);
        uint16 old = (uint16)((gk < g_nt * NBLK && !MISSING(gk)) ? REF_BLK(gk) : 0);
        int    touched = gk >= first && gk <= last;
        H4V_CHECK(old == 0 || fr == old, "C01: an existing block keeps its ref");
        H4V_CHECK(old != 0 || (fr != 0) == touched, "C01: a missing block is created exactly when the write touches it");
        H4V_CHECK(!touched || g_wr_blkref[gk] == fr, "C01: the data of block k went to the element the table names for block k");
        H4V_CHECK(fr < 200 || (g_new_made[fr - 200] && g_new_len[fr - 200] == blk_len(gk)), "C01: a new block has the nominal block length");
        H4V_CHECK(gk == gk2 || fr == 0 || fr != final_ref(gk2), "C02: no two blocks share a ref");
        /* (b) tables: created exactly up to the last block written */
        H4V_CHECK((final_tab(gt) != NULL) == (gt < nt_exp), "C01: missing block tables are created exactly when needed");
        /* (c) every table of the chain is on disk as it is in memory */
        link_t *l = final_tab(gt);
        if (l != NULL) {
            uint16 tref = gt == 0 ? g_info->link_ref : final_tab(gt - 1)->nextref;
            int    idx  = img_find(tref);
            H4V_CHECK(tref != 0 && idx >= 0, "C02: every table of the chain exists on disk under the ref its predecessor names");
            H4V_CHECK((l->next == NULL) == (l->nextref == 0), "C02: next pointer and next ref agree");
            if (idx >= 0) {
                H4V_CHECK(g_img[idx][0] == l->nextref, "C02: next_ref on disk == in memory");
                H4V_CHECK(g_img[idx][1 + gi] == l->block_list[gi].ref, "C02: block ref on disk == in memory");
            }
        }
    }
    H4V_COVER(r > 0 && g_bwr_n >= 2 && g_newref_n == 0, "HLPwrite across existing blocks");
    H4V_COVER(r > 0 && g_img_n > g_nt, "HLPwrite created a block table");
    H4V_COVER(r > 0 && g_newref_n >= 1 && g_img_n == g_nt, "HLPwrite created a block");
    H4V_COVER(r > 0 && g_info->length > g_old_length, "HLPwrite grew the element");
    H4V_COVER(r == FAIL && g_sub_failed, "HLPwrite fault");
    H4V_CANARY("HLPwrite end");
}

/* ---------------------------------------------------------------- HLInewlink */
/* (HLInewlink with number_blocks == 0 overran the table; HLcreate/HLconvert now refuse such requests: see the gate
   obligations HLcreate_gate / HLconvert_c3) */
void
h_HLInewlink(void)
{
    mk_recs();
    H4V_ND(int32, number_blocks);
    H4V_ND(uint16, first_block_ref);
    H4V_ASSUME(number_blocks >= H4V_NBMIN && number_blocks <= H4V_NB);
    g_info->number_blocks = number_blocks;
    g_frec->access |= DFACC_WRITE;
    H4V_HAVOC(int, g_sub_may_fail);
    g_htp_may_fail = g_is_special = 0;
    H4V_HAVOC(int32, g_j);
    uint16  lref = Htagnewref(g_fid, DFTAG_LINKED);
    link_t *l    = HLInewlink(g_fid, number_blocks, lref, first_block_ref);
    H4V_COVER(l != NULL, "HLInewlink ok");
    H4V_COVER(l == NULL, "HLInewlink fault");
    H4V_CANARY("HLInewlink end");
}


/* ---------------------------------------------------------------- HLcreate: argument / write-access gate */
void
h_HLcreate_gate(void)
{
    mk_recs();
    g_sub_may_fail = g_htp_may_fail = g_is_special = 0;
    g_getrec_n = 0;
    H4V_ND(int32, file_id);
    H4V_ND(uint16, tag);
    H4V_ND(uint16, ref);
    H4V_ND(int32, block_length);
    H4V_ND(int32, number_blocks);
    /* region: requests the gate has to refuse (the rest of HLcreate is not under contract in this unit) */
    H4V_ASSUME(file_id != g_fid || block_length <= 0 || number_blocks <= 0 || SPECIALTAG(tag) || !(g_frec->access & DFACC_WRITE));
    int32 r = HLcreate(file_id, tag, ref, block_length, number_blocks);
    H4V_COVER(r == FAIL && file_id == g_fid && number_blocks == 0, "HLcreate refused number_blocks == 0");
    H4V_COVER(r == FAIL && file_id == g_fid && block_length > 0 && number_blocks > 0 && !SPECIALTAG(tag), "HLcreate refused a read-only file");
    H4V_CANARY("HLcreate gate end");
}

"""C10 (extension): SD attribute put/replace/append and query (mfhdf/src/mfsd.c)"""
from .core import ob

SA = dict(unit="mfsd_attr_u.c", file="mfhdf/src/mfsd.c", objbits=8, cex_unwind=20,
          trusted=["NC_check_id (one file slot)", "hdf_unmap_type / hdf_map_type (the documented type maps of cdf.c, as macros)",
                   "NC_new_attr (allocates, records its arguments, sets HDFtype from the netCDF type like attr.c; may fail)",
                   "NC_findattr (index g_exp; its own contract is obligation NC_findattr_b)", "NC_free_attr (log)",
                   "NC_new_array / NC_incr_array (append into pre-allocated room; may fail)", "DFKNTsize (ghost size or FAIL)",
                   "NC_hlookupvar (ghost coordinate variable)", "memcpy with symbolic length: sparse model (first/last/ghost byte)"])

# full domain (failed on the tree as found -- append path, NC_new_attr returns NULL: `attr->HDFtype = nt` preceded the NULL test; D55, repaired)
ob("SDIputattr", ["C10"], entry="h_SDIputattr", enforce="SDIputattr", **SA)
# the same contract on the complement of that input (constructor failure on the append path excluded)
ob("SDIputattr_mem", ["C10"], entry="h_SDIputattr_mem", enforce="SDIputattr", **SA)
# SDsetattr: argument checks, id decoding (dataset / file / dimension ids), SDIputattr inlined
ob("SDsetattr", ["C10"], entry="h_SDsetattr", enforce="SDsetattr", replace=["SDIgetcoordvar"], **SA)
ob("SDattrinfo", ["C10"], entry="h_SDattrinfo", enforce="SDattrinfo", replace=["SDIgetcoordvar"], **SA)
ob("SDreadattr", ["C10"], entry="h_SDreadattr", enforce="SDreadattr", replace=["SDIgetcoordvar"], **SA)

# persistence of one attribute: hdf_write_attr then hdf_read_attrs (cdf.c), V layer as a ghost Vdata header.
# (failed on the tree as found, D56, repaired:) a DFNT_UCHAR8 attribute with count > 1 is written as `count` records of order 1 (only DFNT_CHAR8 is
# written as one record of order `count`), but was read back as NC_CHAR whose count was taken from the field order -> count 1
CD = dict(unit="mfsd_attr_cdf_u.c", file="mfhdf/src/cdf.c", mode="bounded",
          bound="one attribute Vdata in the Vgroup (loop of hdf_read_attrs unwound once)", unwind=10, cex_unwind=10, objbits=8,
          trusted=["VHstoredatam/Vntagrefs/Vgettagref/VSattach/VSgetclass/VSinquire/VFfieldtype/VFfieldorder/VSsetfields/VSread/VSdetach "
                   "(ghost Vdata header: n records, one field of `order` values of `type`)", "NC_new_attr/NC_new_array/NC_free_array (log)"])
ob("attr_reopen_b", ["C10"], entry="h_attr_reopen", **CD)
# the same checks on the complement of that input
ob("attr_reopen_rest_b", ["C10"], entry="h_attr_reopen_rest", **CD)

# dimension scales: how many values SDgetdimscale asks the I/O layer for (unit of the SD routing obligations)
ob("SDgetdimscale", ["C10"], entry="h_SDgetdimscale", unit="mfsd_rw_u.c", file="mfhdf/src/mfsd.c", mode="proved-finite", unwind=6,
   bound="files of 1..2 variables of rank 1..4 (environment of the SD routing obligations); one dimension", objbits=8, cex_unwind=10,
   replace=["SDIgetcoordvar"], defines=["MAXR=4"],
   trusted=["NC_check_id", "Hendaccess", "NCvario(stub: logs file, variable, buffer, start / count of dimension 0)",
            "SDIgetcoordvar: ASSUMED contract (index of the dimension's coordinate variable, or FAIL)"])

# Vdata / field attributes: re-setting an existing attribute (vattr.c), harness level over logging V-layer stubs
ob("VSsetattr_existing", ["C10"], entry="h_VSsetattr_existing", unit="vattr_u.c", file="hdf/src/vattr.c", mode="bounded", unwind=3, cex_unwind=4,
   bound="ONE existing attribute of the addressed field (or of the Vdata itself), names of one character; parent Vdata with one field",
   objbits=8, trusted=["HAatom_group/HAatom_object: the parent's and the attribute Vdata's instance",
                       "VSattach/VSwrite/VSdetach/VHstoredatam: logging stubs, may fail", "strcmp: exact for names of one character"])

"""C03: SDS hyperslabs (mfsd.c, putget.c, var.c)"""
from .core import ob, prop

PG = dict(unit="putget_u.c", file="mfhdf/src/putget.c", objbits=10)
ob("NCcoordck", "C03", entry="h_NCcoordck", enforce="H4_NCcoordck", mode="proved-finite",
   replace=["hdf_get_vp_aid"], loops=True, nloops=3, loopcls="P", unwind=34, cex_unwind=34, defines=["MAXR=4","NOMUL","FIXSZ=4"],
   trusted=["hdf_get_vp_aid", "Hseek", "Hwrite", "DFKconvert", "HDmemfill", "NC_arrayfill", "NC_findattr", "strstr"],
   **PG)

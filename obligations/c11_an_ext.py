"""C11 ext"""

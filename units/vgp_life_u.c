/* Verification unit: hdf/src/vgp.c -- life cycle of a Vgroup handle: Vattach / Vdetach.
 *   C08  an edit made through a handle (vg->marked == 1, or a new group) reaches the file: it is
 *        written back (vpackvg + Hputelement of the packed bytes) exactly once and no later than the
 *        detach that releases the last handle; attaching the same group again in between ("r" or "w")
 *        does not lose the pending edit; a group that is not marked writes nothing.
 *   C13  every Vattach hands out a fresh id for the same instance, nattach counts exactly, Vdetach
 *        removes exactly the id it is given, a stale id is refused and changes nothing.
 *   C16  Vdetach returns FAIL when the write-back fails (obligations *_c16, -DLIFE_C16).
 *   C14  whatever spelling of the access string the code accepts as write access gets the
 *        read-only-file refusal.
 * Whole-file unit: the real vgp.c is included below.  atom.c and tbbt.c are trusted finite maps
 * (three id slots; file id -> vfile_t; ref -> instance for the existing and for the created group).
 */
#include "h4v.h"
#include "h4v_err.h"
#include "hfile_priv.h"
#include "vg_priv.h"

H4V_DECL_ND(int);
H4V_DECL_ND(int32);
H4V_DECL_ND(uint16);
H4V_DECL_ND(uint32);
H4V_DECL_ND(unsigned);
H4V_DECL_ND(char);
H4V_DECL_ND(size_t);

/* ghosts named by loops/vgp.loops (that table is not guarded: its clauses are compiled in every
   unit that includes vgp.c; they are not applied here) */
unsigned g_k, g_j;
uint16   g_kt, g_kr, g_k1t, g_k1r, g_j1t, g_j1r;
int32    g_ta0, g_ra0, g_n0;

/* ------------------------------------------------------------------ ghost environment */
#define L_FID 0x10000007 /* the file id (ids are opaque: fixed pairwise distinct representatives) */
#define L_ID0 0x40000011 /* the three vgroup ids HAregister_atom hands out, in this order */
#define L_ID1 0x40000012
#define L_ID2 0x40000013
filerec_t    *g_frec;
vfile_t      *g_vf; /* the V-layer record of the file (always built) ... */
int           g_vf_ok; /* ... and whether the table of open V files knows it (Vstart was called) */
void         *g_vfp;
vginstance_t *g_v; /* the vgroup that exists in the file's table (key g_v->key) */
void         *g_vp;
VGROUP       *g_vg;
vginstance_t *g_vn; /* the instance a Vattach(f,-1,"w") inserted (NULL: none) */
void         *g_vnp;
int           g_ins_n; /* insertions into the vgroup table */
static int    g_dummy_vtree, g_dummy_vgtree;
/* atom registry: slot i is live from its registration to its removal; ids are never reused */
int   g_reg_n, g_rem_n;
int   g_live0, g_live1, g_live2;
void *g_obj0, *g_obj1, *g_obj2;
/* ref allocation */
uint16 g_newref;
/* DD layer / element write log */
int    g_seq;                    /* sequence number of logged calls */
int    g_chk_n, g_chk_ret;       /* HDcheck_tagref calls and the answer */
int    g_reuse_n, g_reuse_seq;   /* HDreuse_tagref */
int    g_reuse_fault;
int    g_put_n, g_put_seq;       /* Hputelement */
int32  g_put_f, g_put_len, g_put_ret;
uint16 g_put_tag, g_put_ref;
const uint8 *g_put_data;
size_t g_c;        /* ghost byte index into the written record */
uint8  g_put_byte; /* byte g_c of the last record written */
int    g_put_may_fail;
int    g_io_failed; /* some write-back primitive reported failure */
/* names of the group (single-call contracts: abstract strings) */
size_t g_nlen, g_clen;

group_t
HAatom_group(atom_t atm)
{
    if (atm == L_FID)
        return FIDGROUP;
    if ((atm == L_ID0 && g_live0) || (atm == L_ID1 && g_live1) || (atm == L_ID2 && g_live2))
        return VGIDGROUP;
    return BADGROUP;
}
void *
HAatom_object(atom_t atm)
{
    if (atm == L_FID)
        return g_frec;
    if (atm == L_ID0 && g_live0)
        return g_obj0;
    if (atm == L_ID1 && g_live1)
        return g_obj1;
    if (atm == L_ID2 && g_live2)
        return g_obj2;
    return NULL;
}
atom_t
HAregister_atom(group_t grp, void *object)
{
    H4V_CHECK(grp == VGIDGROUP && object != NULL, "vgroup instances are registered in VGIDGROUP");
    if (g_reg_n == 0) {
        g_obj0  = object;
        g_live0 = 1;
        g_reg_n = 1;
        return L_ID0;
    }
    if (g_reg_n == 1) {
        g_obj1  = object;
        g_live1 = 1;
        g_reg_n = 2;
        return L_ID1;
    }
    if (g_reg_n == 2) {
        g_obj2  = object;
        g_live2 = 1;
        g_reg_n = 3;
        return L_ID2;
    }
    return FAIL; /* harnesses never register more than three ids */
}
void *
HAremove_atom(atom_t atm)
{
    if (atm == L_ID0 && g_live0) {
        g_live0 = 0;
        g_rem_n++;
        return g_obj0;
    }
    if (atm == L_ID1 && g_live1) {
        g_live1 = 0;
        g_rem_n++;
        return g_obj1;
    }
    if (atm == L_ID2 && g_live2) {
        g_live2 = 0;
        g_rem_n++;
        return g_obj2;
    }
    return NULL;
}
TBBT_NODE *
tbbtdfind(TBBT_TREE *tree, void *key, TBBT_NODE **pp)
{
    if (tree == (TBBT_TREE *)&g_dummy_vtree)
        return (g_vf_ok && *(int32 *)key == L_FID) ? (TBBT_NODE *)&g_vfp : NULL;
    if (tree == (TBBT_TREE *)&g_dummy_vgtree) {
        if (g_v != NULL && *(int32 *)key == g_v->key)
            return (TBBT_NODE *)&g_vp;
        if (g_vn != NULL && *(int32 *)key == g_vn->key)
            return (TBBT_NODE *)&g_vnp;
    }
    return NULL;
}
TBBT_NODE *
tbbtdins(TBBT_TREE *tree, void *item, void *key)
{
    H4V_CHECK(tree == (TBBT_TREE *)&g_dummy_vgtree && g_vn == NULL, "one vgroup is created per harness");
    g_vn  = (vginstance_t *)item;
    g_vnp = item;
    g_ins_n++;
    return (TBBT_NODE *)&g_vnp;
}
uint16
Hnewref(int32 file_id)
{
    return g_newref; /* 0: no ref free */
}
int
HDcheck_tagref(int32 file_id, uint16 tag, uint16 ref)
{
    g_chk_n++;
    return g_chk_ret;
}
int
HDreuse_tagref(int32 file_id, uint16 tag, uint16 ref)
{
    g_reuse_n++;
    g_reuse_seq = ++g_seq;
    if (g_reuse_fault)
        return FAIL;
    return SUCCEED;
}
int32
Hputelement(int32 file_id, uint16 tag, uint16 ref, const uint8 *data, int32 length)
{
    H4V_CHECK(g_frec != NULL && (g_frec->access & DFACC_WRITE), "C14: a vgroup is written to a file opened read-only");
    H4V_CHECK(data != NULL && length > 0, "Hputelement: a record of positive length");
#ifdef H4V_CBMC
    __CPROVER_assert(__CPROVER_r_ok(data, (size_t)length), "H4V: Hputelement: the record lies inside the buffer");
#endif
    g_put_n++;
    g_put_seq  = ++g_seq;
    g_put_f    = file_id;
    g_put_tag  = tag;
    g_put_ref  = ref;
    g_put_data = data;
    g_put_len  = length;
    g_put_byte = (length > 0 && g_c < (size_t)length) ? data[g_c] : 0;
    if (g_put_may_fail) {
        H4V_ND(int, put_fault);
        if (put_fault) {
            g_io_failed = 1;
            g_put_ret   = FAIL;
            return FAIL;
        }
    }
    g_put_ret = length;
    return length;
}

#if defined(H4V_CBMC) && defined(LIFE_ABS_STR)
/* libc strlen/strcpy, trusted, for the two names of the harness-built group: their true lengths are
   g_nlen / g_clen; the copy is checked to fit and leaves arbitrary non-NUL-terminated-early bytes
   (nothing is claimed about the packed CONTENT in the any-size contracts: the record codec has its
   own obligations vg_roundtrip_*, and the bounded histories below compare the bytes) */
size_t
strlen(const char *s)
{
    return (g_vg != NULL && s == g_vg->vgclass) ? g_clen : g_nlen;
}
char *
strcpy(char *dst, const char *src)
{
    size_t n = (g_vg != NULL && src == g_vg->vgclass) ? g_clen : g_nlen;
    __CPROVER_assert(__CPROVER_w_ok(dst, n + 1), "H4V: strcpy: destination holds the string and its terminator");
    dst[n] = '\0'; /* the other n bytes: whatever the (havocked) buffer holds */
    return dst;
}
#endif

#ifdef LH_POOL
/* vgp.c's allocator in the new-group history: typed static objects, selected by the (constant) request size; anything
   else, and every repeated request, is an allocation failure (which the code must survive anyway) */
static VGROUP       lp_vg;
static vginstance_t lp_v;
static uint16       lp_tag[MAXNVELT], lp_ref[MAXNVELT];
static int          lp_vg_used, lp_v_used, lp_arr_used;
static void *
lh_pool_malloc(size_t n)
{
    if (n == sizeof(VGROUP) && !lp_vg_used) {
        lp_vg_used = 1;
        return &lp_vg;
    }
    if (n == sizeof(vginstance_t) && !lp_v_used) {
        lp_v_used = 1;
        return &lp_v;
    }
    if (n == MAXNVELT * sizeof(uint16) && lp_arr_used < 2)
        return lp_arr_used++ == 0 ? (void *)lp_tag : (void *)lp_ref;
    return NULL;
}
#define malloc(n) lh_pool_malloc(n)
#endif
/* ------------------------------------------------------------------ the real file */
#include "vgp.c"
#ifdef LH_POOL
#undef malloc
#endif

/* ------------------------------------------------------------------ predicates */
#define LV_VG_WF(vg)                                                                                              \
    ((vg)->msize > 0 && (vg)->msize <= 131070 && (int)(vg)->nvelt <= (vg)->msize && (vg)->tag != NULL &&          \
     (vg)->ref != NULL && (vg)->nattrs >= 0 && (vg)->nattrs <= 65535 && ((vg)->nattrs == 0 || (vg)->alist != NULL))
#define LV_ENV                                                                                                    \
    (g_frec != NULL && g_vf != NULL && g_v != NULL && g_vg != NULL && g_v->vg == g_vg && LV_VG_WF(g_vg) && g_vg->f == L_FID &&    \
     g_v->key == (int32)g_vg->oref && g_v->nattach >= 0 && g_v->nattach < 1000)
/* established by Vattach (C14 clause of its contract): a group of a file opened read-only is never attached "w" */
#define LV_W_INV (g_vg->access != 'w' || (g_frec->access & DFACC_WRITE))
/* record length of the file format (vpackvg) for name lengths nl, cl */
#define LV_RECLEN(vg, nl, cl)                                                                                     \
    (2 + 4 * (int32)(vg)->nvelt + 2 + (int32)(nl) + 2 + (int32)(cl) + 4 +                                         \
     ((vg)->flags ? 4 + (((vg)->flags & VG_ATTR_SET) ? 4 + 4 * (vg)->nattrs : 0) : 0) + 4 + 1)

/* ------------------------------------------------------------------ vpackvg (any size; position bookkeeping only)
   Given a buffer of the size Vdetach computes, the record is written inside it and *size is the
   record length of the file format.  (Content: obligations vg_roundtrip_* and the histories.) */
#define LV_NEED(vg, nl, cl) (sizeof(VGROUP) + (nl) + (cl) + (size_t)(vg)->nvelt * 4 + (size_t)(vg)->nattrs * sizeof(vg_attr_t) + 1)
int vpackvg(VGROUP *vg, uint8 buf[], int32 *size)
    __CPROVER_requires(vg != NULL && vg == g_vg && LV_VG_WF(vg) && size != NULL && buf != NULL)
    __CPROVER_requires(g_nlen <= 65535 && g_clen <= 65535 && (vg->vgname != NULL || g_nlen == 0) && (vg->vgclass != NULL || g_clen == 0))
    __CPROVER_requires(__CPROVER_w_ok(buf, LV_NEED(vg, g_nlen, g_clen)))
    __CPROVER_assigns(__CPROVER_object_whole(buf), *size, vg->version)
    __CPROVER_ensures(__CPROVER_return_value == SUCCEED && *size == LV_RECLEN(vg, g_nlen, g_clen))
    __CPROVER_ensures(vg->version == ((vg->flags && __CPROVER_old(vg->version) < VSET_NEW_VERSION) ? VSET_NEW_VERSION : __CPROVER_old(vg->version)));

/* ------------------------------------------------------------------ Vdetach (single call)
   Environment: the group is attached under id L_ID0 (slot 0 live or already removed = stale id);
   vkey is arbitrary. */
#define LD_KEY_OK(vkey) ((vkey) == L_ID0 && g_live0)
#define LD_OLD_KEY_OK(vkey, live0) ((vkey) == L_ID0 && (live0))
#ifdef LIFE_C16
#define LV_C16(ret) (!g_io_failed || (ret) == FAIL)
#else
#define LV_C16(ret) 1
#endif
int32 Vdetach(int32 vkey)
    __CPROVER_requires(LV_ENV && LV_W_INV && g_v->nattach >= 1 && g_obj0 == (void *)g_v && g_reg_n == 1 && !g_live1 && !g_live2)
    __CPROVER_requires(g_put_n == 0 && g_rem_n == 0 && g_reuse_n == 0 && g_chk_n == 0 && g_seq == 0 && g_io_failed == 0)
    __CPROVER_requires(g_nlen <= 65535 && g_clen <= 65535 && (g_vg->vgname != NULL || g_nlen == 0) &&
                       (g_vg->vgclass != NULL || g_clen == 0))
    __CPROVER_requires(Vgbuf != NULL || Vgbufsize == 0)
    __CPROVER_assigns(g_v->nattach, g_vg->marked, g_vg->new_vg, g_vg->version, g_vg->old_alist, g_vg->noldattrs,
                      Vgbuf, Vgbufsize,
                      g_live0, g_rem_n, g_seq, g_chk_n, g_reuse_n, g_reuse_seq, g_put_n, g_put_seq, g_put_f, g_put_len,
                      g_put_ret, g_put_tag, g_put_ref, g_put_data, g_put_byte, g_io_failed)
    __CPROVER_assigns(Vgbuf != NULL: __CPROVER_object_whole(Vgbuf))
    __CPROVER_frees(Vgbuf, g_vg->old_alist)
    __CPROVER_ensures(__CPROVER_return_value == SUCCEED || __CPROVER_return_value == FAIL)
    /* C13: an id that is not (or no longer) registered is refused and nothing changes */
    __CPROVER_ensures(!LD_OLD_KEY_OK(vkey, __CPROVER_old(g_live0)) ==>
                      (__CPROVER_return_value == FAIL && g_v->nattach == __CPROVER_old(g_v->nattach) &&
                       g_vg->marked == __CPROVER_old(g_vg->marked) && g_vg->new_vg == __CPROVER_old(g_vg->new_vg) &&
                       g_put_n == 0 && g_reuse_n == 0 && g_rem_n == 0 && g_live0 == __CPROVER_old(g_live0)))
    /* C13: the id given is removed exactly once, whatever happens afterwards */
    __CPROVER_ensures(LD_OLD_KEY_OK(vkey, __CPROVER_old(g_live0)) ==> (g_live0 == 0 && g_rem_n == 1))
    /* never more than one write, and only of this group's element */
    __CPROVER_ensures(g_put_n <= 1)
    __CPROVER_ensures(g_put_n == 1 ==> (g_put_f == L_FID && g_put_tag == DFTAG_VG && g_put_ref == g_vg->oref &&
                                        g_put_data == Vgbuf && g_put_len == LV_RECLEN(g_vg, g_nlen, g_clen) &&
                                        (uint32)g_put_len <= Vgbufsize))
    /* C08: a group that is not marked writes nothing, touches no descriptor, and is released */
    __CPROVER_ensures((LD_OLD_KEY_OK(vkey, __CPROVER_old(g_live0)) && g_vg->otag == DFTAG_VG && __CPROVER_old(g_vg->marked) != 1) ==>
                      (__CPROVER_return_value == SUCCEED && g_put_n == 0 && g_reuse_n == 0 && g_chk_n == 0 &&
                       g_vg->marked == __CPROVER_old(g_vg->marked) && g_vg->new_vg == __CPROVER_old(g_vg->new_vg) &&
                       g_v->nattach == __CPROVER_old(g_v->nattach) - 1))
    /* C08: success on a marked group: either the edit was written exactly once and the mark cleared, or the write is
       deferred (mark kept, nothing written) -- which is only allowed while another handle is still attached */
    __CPROVER_ensures((__CPROVER_return_value == SUCCEED && __CPROVER_old(g_vg->marked) == 1) ==>
                      ((g_put_n == 1 && g_vg->marked == 0 && g_vg->new_vg == 0) ||
                       (g_put_n == 0 && g_vg->marked == 1 && g_v->nattach > 0)))
    __CPROVER_ensures(__CPROVER_return_value == SUCCEED ==> g_v->nattach == __CPROVER_old(g_v->nattach) - 1)
    /* a marked group is only ever written with write access (C14) */
    __CPROVER_ensures((__CPROVER_old(g_vg->marked) == 1 && g_vg->access != 'w') ==> (__CPROVER_return_value == FAIL && g_put_n == 0))
    /* descriptor reuse: an existing element is released exactly once before it is rewritten; a new group has none */
    __CPROVER_ensures(g_put_n == 1 ==> (__CPROVER_old(g_vg->new_vg) ? (g_chk_n == 0 && g_reuse_n == 0)
                                        : (g_chk_n == 1 && g_reuse_n == (g_chk_ret == 1 ? 1 : 0) && (g_reuse_n == 0 || g_reuse_seq < g_put_seq))))
    __CPROVER_ensures((g_reuse_n == 1 && g_reuse_fault) ==> (__CPROVER_return_value == FAIL && g_put_n == 0))
    /* C16 (only with -DLIFE_C16): a failed write-back is reported */
    __CPROVER_ensures(LV_C16(__CPROVER_return_value));

/* ------------------------------------------------------------------ Vattach (single call) */
#define LA_W(s) ((s)[0] == 'w' || (s)[0] == 'W')
#define LA_R(s) ((s)[0] == 'r' || (s)[0] == 'R')
#define LA_FILE_OK(f) ((f) == L_FID && g_vf_ok && g_frec->refcount != 0)
#define LA_RDONLY ((g_frec->access & DFACC_WRITE) == 0)
#define LA_MATCH(vgid) ((vgid) != -1 && (int32)(uint16)(vgid) == g_v->key)
/* calls that must be refused */
#define LA_REFUSED(f, vgid, s)                                                                                    \
    (!LA_FILE_OK(f) || !(LA_W(s) || LA_R(s)) || (LA_W(s) && LA_RDONLY) || ((vgid) == -1 && LA_R(s)) ||            \
     ((vgid) != -1 && !LA_MATCH(vgid)))
#define LA_MODE(s) (LA_W(s) ? 'w' : 'r')
int32 Vattach(HFILEID f, int32 vgid, const char *accesstype)
    __CPROVER_requires(LV_ENV && accesstype != NULL && g_vn == NULL && g_ins_n == 0)
    __CPROVER_requires(g_reg_n == 1 && g_rem_n == 0 && g_obj0 == (void *)g_v && !g_live1 && !g_live2)
    /* the attach count is the number of live handles; an attached group is attached "r" or "w", and a group of a
       file opened read-only is never attached "w" (established by Vattach itself, see the C14 clause) */
    __CPROVER_requires(g_v->nattach == (g_live0 ? 1 : 0))
    __CPROVER_requires(g_v->nattach == 0 || g_vg->access == 'r' || (g_vg->access == 'w' && !LA_RDONLY))
    __CPROVER_requires(g_newref == 0 || (int32)g_newref != g_v->key)
    __CPROVER_requires(vgroup_free_list == NULL && vginstance_free_list == NULL)
    __CPROVER_assigns(g_v->nattach, g_v->nentries, g_vg->access, g_vg->marked, g_vg->old_alist, g_vg->noldattrs,
                      g_vf->vgtabn, g_vn, g_vnp, g_ins_n, g_reg_n, g_live1, g_obj1)
    __CPROVER_ensures(LA_REFUSED(f, vgid, accesstype) ==>
                      (__CPROVER_return_value == FAIL && g_reg_n == 1 && g_v->nattach == __CPROVER_old(g_v->nattach) &&
                       g_vg->marked == __CPROVER_old(g_vg->marked) && g_vg->access == __CPROVER_old(g_vg->access) &&
                       g_ins_n == 0 && g_vn == NULL))
    __CPROVER_ensures(__CPROVER_return_value == FAIL || (__CPROVER_return_value == L_ID1 && g_live1 && g_reg_n == 2))
    /* second attach of a group that is attached: same instance, count +1 exactly, the pending edit stays pending,
       the stronger of the two access modes */
    __CPROVER_ensures((!LA_REFUSED(f, vgid, accesstype) && vgid != -1 && __CPROVER_old(g_v->nattach) > 0) ==>
                      (__CPROVER_return_value == L_ID1 && g_obj1 == (void *)g_v &&
                       g_v->nattach == __CPROVER_old(g_v->nattach) + 1 && g_vg->marked == __CPROVER_old(g_vg->marked) &&
                       g_vg->access == ((__CPROVER_old(g_vg->access) == 'w' || LA_W(accesstype)) ? 'w' : 'r') && g_ins_n == 0))
    /* first attach: the copy read from the file, not marked */
    __CPROVER_ensures((!LA_REFUSED(f, vgid, accesstype) && vgid != -1 && __CPROVER_old(g_v->nattach) == 0) ==>
                      (__CPROVER_return_value == L_ID1 && g_obj1 == (void *)g_v && g_v->nattach == 1 && g_vg->marked == 0 &&
                       g_vg->access == LA_MODE(accesstype) && g_v->nentries == (int32)g_vg->nvelt && g_ins_n == 0))
    /* new group: empty, marked, new, entered into the table once -- or FAIL (no ref free / allocation failure) */
    __CPROVER_ensures((!LA_REFUSED(f, vgid, accesstype) && vgid == -1 && __CPROVER_return_value != FAIL) ==>
                      (g_ins_n == 1 && g_vn != NULL && g_obj1 == (void *)g_vn && g_vn->nattach == 1 && g_vn->vg != NULL &&
                       g_vn->key == (int32)g_newref && g_newref != 0 && g_vn->vg->oref == g_newref && g_vn->vg->otag == DFTAG_VG &&
                       g_vn->vg->f == L_FID && g_vn->vg->nvelt == 0 && g_vn->vg->msize == MAXNVELT && g_vn->vg->marked == 1 &&
                       g_vn->vg->new_vg == 1 && g_vn->vg->access == 'w' && g_vn->vg->vgname == NULL && g_vn->vg->vgclass == NULL &&
                       g_vf->vgtabn == __CPROVER_old(g_vf->vgtabn) + 1 && g_v->nattach == __CPROVER_old(g_v->nattach) &&
                       g_vg->marked == __CPROVER_old(g_vg->marked)))
    __CPROVER_ensures((vgid == -1 && g_newref == 0) ==> __CPROVER_return_value == FAIL)
    /* C14, stated without reference to how the string is parsed: on a file opened read-only no call leaves a group
       attached for writing and none creates one */
    __CPROVER_ensures(LA_RDONLY ==> (g_vg->access != 'w' || g_v->nattach == 0) && g_vn == NULL && g_ins_n == 0)
    __CPROVER_ensures((LA_RDONLY && LA_W(accesstype)) ==> __CPROVER_return_value == FAIL);

#ifdef H4V_NATIVE
#include "h4v_native_wrap.h"
#endif

/* ------------------------------------------------------------------ harnesses */
#ifdef H4V_CBMC
#define LV_BUF(T, p, n)                                                                                           \
    T *p = malloc((size_t)(n) * sizeof(T));                                                                       \
    __CPROVER_assume(p != NULL)
#else
#define LV_BUF(T, p, n) T *p = calloc((size_t)(n) + 1, sizeof(T))
#endif

static void
lv_reset_ghosts(void)
{
    g_ins_n = g_reg_n = g_rem_n = 0;
    g_live0 = g_live1 = g_live2 = 0;
    g_obj0 = g_obj1 = g_obj2 = NULL;
    g_vn  = NULL;
    g_vnp = NULL;
    g_seq = g_chk_n = g_reuse_n = g_reuse_seq = 0;
    g_put_n = g_put_seq = 0;
    g_put_f = g_put_len = g_put_ret = 0;
    g_put_tag = g_put_ref = 0;
    g_put_data            = NULL;
    g_put_byte            = 0;
    g_io_failed           = 0;
    H4V_HAVOC(size_t, g_c);
    H4V_HAVOC(unsigned, g_k);
    H4V_HAVOC(uint16, g_newref);
    H4V_HAVOC(int, g_chk_ret);
    H4V_HAVOC(int, g_reuse_fault);
    H4V_HAVOC(int, g_put_may_fail);
    H4V_ASSUME(g_chk_ret >= -1 && g_chk_ret <= 1);
    H4V_ASSUME(g_reuse_fault == 0 || g_reuse_fault == 1);
    H4V_ASSUME(g_put_may_fail == 0 || g_put_may_fail == 1);
    g_nlen = g_clen = 0;
#ifdef LH_POOL
    lp_vg_used = lp_v_used = lp_arr_used = 0;
#endif
}

/* the file, its V-layer record and one vgroup of it (heap objects, group of any size) */
static void
lv_mk_env(void)
{
    lv_reset_ghosts();
    g_frec = malloc(sizeof(filerec_t));
    H4V_ASSUME(g_frec != NULL);
    memset(g_frec, 0, sizeof(filerec_t));
    H4V_ND(int, f_writable);
    H4V_ND(int, f_refcount);
    H4V_ASSUME(f_refcount >= 0 && f_refcount < 1000);
    g_frec->access   = f_writable ? DFACC_RDWR : DFACC_READ;
    g_frec->refcount = f_refcount;

    vtree = (TBBT_TREE *)&g_dummy_vtree;
    H4V_ND(int, vf_present);
    H4V_ND(int32, vf_vgtabn);
    H4V_ASSUME(vf_vgtabn >= 1 && vf_vgtabn < 65535);
    g_vf = malloc(sizeof(vfile_t));
    H4V_ASSUME(g_vf != NULL);
    memset(g_vf, 0, sizeof(vfile_t));
    g_vf->f      = L_FID;
    g_vf->vgtabn = vf_vgtabn;
    g_vf->vgtree = (TBBT_TREE *)&g_dummy_vgtree;
    g_vf->access = 1;
    g_vfp        = g_vf;
    g_vf_ok      = vf_present ? 1 : 0; /* 0: Vstart was not called on this file */

    g_vg = malloc(sizeof(VGROUP));
    H4V_ASSUME(g_vg != NULL);
    memset(g_vg, 0, sizeof(VGROUP));
    H4V_ND(uint16, vg_nvelt);
    H4V_ND(int, vg_msize);
    H4V_ND(uint16, vg_otag);
    H4V_ND(uint16, vg_oref);
    H4V_ND(int, vg_access);
    H4V_ND(int, vg_marked);
    H4V_ND(int, vg_new_vg);
    H4V_ND(uint32, vg_flags);
    H4V_ND(int32, vg_nattrs);
    H4V_ND(int16, vg_version);
    H4V_ASSUME(vg_msize > 0 && vg_msize <= 131070 && (int)vg_nvelt <= vg_msize);
    H4V_ASSUME(vg_new_vg == 0 || vg_new_vg == 1);
    H4V_ASSUME(vg_nattrs >= 0 && vg_nattrs <= 65535);
    H4V_ASSUME(vg_oref != 0);
    LV_BUF(uint16, vg_tag, vg_msize);
    LV_BUF(uint16, vg_ref, vg_msize);
    LV_BUF(vg_attr_t, vg_alist, vg_nattrs + 1);
    g_vg->tag     = vg_tag;
    g_vg->ref     = vg_ref;
    g_vg->alist   = vg_alist;
    g_vg->nvelt   = vg_nvelt;
    g_vg->msize   = vg_msize;
    g_vg->otag    = vg_otag;
    g_vg->oref    = vg_oref;
    g_vg->f       = L_FID;
    g_vg->access  = vg_access;
    g_vg->marked  = vg_marked;
    g_vg->new_vg  = vg_new_vg;
    g_vg->flags   = vg_flags;
    g_vg->nattrs  = vg_nattrs;
    g_vg->version = vg_version;

    g_v = malloc(sizeof(vginstance_t));
    H4V_ASSUME(g_v != NULL);
    memset(g_v, 0, sizeof(vginstance_t));
    g_v->key = (int32)vg_oref;
    g_v->ref = (unsigned)vg_oref;
    g_v->vg  = g_vg;
    g_vp     = g_v;

    vgroup_free_list     = NULL;
    vginstance_free_list = NULL;
    /* the I/O buffer of vgp.c: absent, or some buffer of the recorded size */
    H4V_ND(uint32, vgbufsize);
    H4V_ASSUME(vgbufsize <= 800000u);
    if (vgbufsize == 0) {
        Vgbuf     = NULL;
        Vgbufsize = 0;
    }
    else {
        LV_BUF(uint8, vgb, vgbufsize);
        Vgbuf     = vgb;
        Vgbufsize = vgbufsize;
    }
}

/* the group is attached `n` times; handle 0 stands for one of them */
static void
lv_attached(int n, int live)
{
    g_v->nattach = n;
    g_obj0       = g_v;
    g_live0      = live;
    g_reg_n      = 1;
}

/* the two names of g_vg: absent or strings of length g_nlen / g_clen */
static void
lv_mk_names(void)
{
    /* the two names: absent or abstract strings of length g_nlen / g_clen (-DLIFE_ABS_STR) */
    H4V_HAVOC(size_t, g_nlen);
    H4V_HAVOC(size_t, g_clen);
    H4V_ASSUME(g_nlen <= 65535 && g_clen <= 65535);
    H4V_ND(int, has_name);
    H4V_ND(int, has_class);
#ifdef LV_SMALL /* the bounded twin: loops of vpackvg unwound */
    H4V_ASSUME(g_vg->nvelt <= 3 && g_vg->msize <= 4 && g_vg->nattrs <= 2);
#endif
#if defined(H4V_CBMC) && defined(LIFE_ABS_STR) && !defined(H4V_CEX)
    if (has_name) {
        LV_BUF(char, nm, g_nlen + 1);
        g_vg->vgname = nm;
    }
    else
        g_nlen = 0;
    if (has_class) {
        LV_BUF(char, cl, g_clen + 1);
        g_vg->vgclass = cl;
    }
    else
        g_clen = 0;
#else
    /* counterexample / native mode: concrete strings of up to 2 characters */
    H4V_ASSUME(g_nlen <= 2 && g_clen <= 2);
    if (has_name) {
        char *nm = malloc(3);
        H4V_ASSUME(nm != NULL);
        nm[0] = 'n'; nm[1] = 'm'; nm[2] = '\0';
        nm[g_nlen]   = '\0';
        g_vg->vgname = nm;
    }
    else
        g_nlen = 0;
    if (has_class) {
        char *cl = malloc(3);
        H4V_ASSUME(cl != NULL);
        cl[0] = 'c'; cl[1] = 'l'; cl[2] = '\0';
        cl[g_clen]    = '\0';
        g_vg->vgclass = cl;
    }
    else
        g_clen = 0;
#endif
}

void
h_Vdetach(void)
{
    lv_mk_env();
    H4V_ASSUME(g_vf_ok);
    H4V_ND(int, v_nattach);
    H4V_ND(int, id_live);
    H4V_ASSUME(v_nattach >= 1 && v_nattach < 1000 && (id_live == 0 || id_live == 1));
    lv_attached(v_nattach, id_live);
    H4V_ASSUME(LV_W_INV);
    lv_mk_names();
    H4V_ND(int, has_old_alist);
    if (has_old_alist) {
        LV_BUF(vg_attr_t, oal, 2);
        g_vg->old_alist = oal;
        g_vg->noldattrs = 2;
    }
    H4V_ND(int32, vkey);
    int   old_marked = g_vg->marked, old_new = g_vg->new_vg, old_n = g_v->nattach;
    int32 r          = Vdetach(vkey);
    H4V_COVER(r == SUCCEED && old_marked == 1 && g_put_n == 1 && old_new == 0 && g_reuse_n == 1 && g_vg->nvelt > 70, "Vdetach rewrites an existing group");
    H4V_COVER(r == SUCCEED && old_marked == 1 && g_put_n == 1 && old_new == 1, "Vdetach writes a new group");
    H4V_COVER(r == SUCCEED && old_marked == 1 && old_n > 1, "Vdetach of an edited group while another handle is attached");
    H4V_COVER(r == SUCCEED && old_marked == 0 && g_put_n == 0, "Vdetach of an unchanged group");
    H4V_COVER(r == FAIL && vkey == L_ID0 && !id_live, "Vdetach stale id");
    H4V_COVER(g_io_failed, "Vdetach write-back fails");
    H4V_COVER(r == SUCCEED && g_put_n == 1 && g_nlen > 64 && g_clen > 0 && (g_vg->flags & VG_ATTR_SET) && g_vg->nattrs > 1, "Vdetach long name and attributes");
    H4V_CANARY("Vdetach end");
}

void
h_vpackvg(void)
{
    lv_mk_env();
    lv_mk_names();
    size_t need = LV_NEED(g_vg, g_nlen, g_clen);
    H4V_ND(size_t, extra);
    H4V_ASSUME(extra <= 1000);
    LV_BUF(uint8, buf, need + extra);
    int32 size = -1;
    int   r    = vpackvg(g_vg, buf, &size);
#ifndef LV_SMALL
    H4V_COVER(r == SUCCEED && g_vg->nvelt > 100 && g_nlen > 64 && (g_vg->flags & VG_ATTR_SET) && g_vg->nattrs > 2, "vpackvg large group");
#else
    H4V_COVER(r == SUCCEED && g_vg->nvelt == 3 && g_nlen == 2 && (g_vg->flags & VG_ATTR_SET) && g_vg->nattrs == 2, "vpackvg full small group");
#endif
    H4V_COVER(r == SUCCEED && g_vg->nvelt == 0 && g_vg->flags == 0, "vpackvg empty old-style group");
    H4V_CANARY("vpackvg end");
}

void
h_Vattach(void)
{
    lv_mk_env();
    H4V_ND(int, id_live);
    H4V_ASSUME(id_live == 0 || id_live == 1);
    lv_attached(id_live ? 1 : 0, id_live);
    H4V_ASSUME(g_v->nattach == 0 || g_vg->access == 'r' || (g_vg->access == 'w' && (g_frec->access & DFACC_WRITE)));
    H4V_ASSUME(g_newref == 0 || (int32)g_newref != g_v->key);
    H4V_ND(int32, f);
    H4V_ND(int32, vgid);
    H4V_ND(char, acc0);
    H4V_ND(char, acc1);
    char acc[3];
    acc[0] = acc0;
    acc[1] = acc1;
    acc[2] = '\0';
    int   old_marked = g_vg->marked;
    int32 r          = Vattach(f, vgid, acc);
    H4V_COVER(r != FAIL && vgid != -1 && id_live && old_marked == 1 && acc0 == 'r', "Vattach second attach r of an edited group");
    H4V_COVER(r != FAIL && vgid != -1 && id_live && acc0 == 'W', "Vattach second attach W");
    H4V_COVER(r != FAIL && vgid != -1 && !id_live, "Vattach first attach");
    H4V_COVER(r != FAIL && vgid == -1, "Vattach new group");
    H4V_COVER(r == FAIL && f == L_FID && g_vf_ok && g_frec->refcount > 0 && acc0 == 'W' && vgid == g_v->key, "Vattach W refused on a read-only file");
    H4V_COVER(r != FAIL && vgid > 65535, "Vattach vgid truncated to 16 bits");
    H4V_CANARY("Vattach end");
}

/* ------------------------------------------------------------------ bounded histories (harness-level)
   group of <= 2 members (arrays of 4), <= 1 attribute, name absent or one character, class absent.
   The harness edits through "the handle" by changing the member list / name and setting marked. */
static uint8 lh_exp[sizeof(VGROUP) + 64];
static int32 lh_explen;

/* The environment of the histories lives in STATIC objects and the shape of the group is fixed per run (-DLH_N members,
   -DLH_NAME: the one-character name "n", -DLH_ATTR: one attribute and the version-4 flags word).  Reason (probed): with heap
   objects cbmc cannot decide `need > Vgbufsize` in Vdetach during symbolic execution, vpackvg then writes into "the old buffer
   or a new one of symbolic size", and a single Vdetach costs 130 s / 6 GB; with static objects and constant record offsets a
   whole history costs seconds.  Member tags/refs, the attribute, file/group refs, flags other than the attribute bit, version,
   expansion tag/ref are arbitrary.  The re-allocation of the buffer is covered by the single-call contract (Vdetach_life). */
#ifndef LH_N
#define LH_N 2
#endif
static filerec_t    lh_frec;
static vfile_t      lh_vf;
static VGROUP       lh_vg;
static vginstance_t lh_v;
static uint16       lh_tag[4], lh_ref[4];
static vg_attr_t    lh_alist[2];
static uint8        lh_vgbuf[256];
static char         lh_name[2];

static void
lh_env(void)
{
    lv_reset_ghosts();
    H4V_ASSUME(g_c < sizeof(lh_exp));
    memset(&lh_frec, 0, sizeof(lh_frec));
    H4V_ND(int, f_writable);
    lh_frec.access   = f_writable ? DFACC_RDWR : DFACC_READ;
    lh_frec.refcount = 1;
    g_frec           = &lh_frec;

    vtree = (TBBT_TREE *)&g_dummy_vtree;
    memset(&lh_vf, 0, sizeof(lh_vf));
    H4V_ND(int32, vf_vgtabn);
    H4V_ASSUME(vf_vgtabn >= 1 && vf_vgtabn < 65535);
    lh_vf.f      = L_FID;
    lh_vf.vgtabn = vf_vgtabn;
    lh_vf.vgtree = (TBBT_TREE *)&g_dummy_vgtree;
    lh_vf.access = 1;
    g_vf         = &lh_vf;
    g_vfp        = g_vf;
    g_vf_ok      = 1;

    memset(&lh_vg, 0, sizeof(lh_vg));
    H4V_ND(uint16, vg_nvelt);
    H4V_ND(uint16, vg_oref);
    H4V_ND(int, vg_new_vg);
    H4V_ND(uint32, vg_flags);
    H4V_ND(int16, vg_version);
    H4V_ND(uint16, vg_extag);
    H4V_ND(uint16, vg_exref);
    H4V_ND(uint16, m_tag0);
    H4V_ND(uint16, m_ref0);
    H4V_ND(uint16, m_tag1);
    H4V_ND(uint16, m_ref1);
    H4V_ND(uint16, a_tag0);
    H4V_ND(uint16, a_ref0);
    H4V_ASSUME(vg_nvelt <= 2 && vg_oref != 0);
    lh_tag[0] = m_tag0; lh_ref[0] = m_ref0; lh_tag[1] = m_tag1; lh_ref[1] = m_ref1;
    lh_tag[2] = lh_tag[3] = lh_ref[2] = lh_ref[3] = 0;
    lh_alist[0].atag = a_tag0; lh_alist[0].aref = a_ref0;
    lh_alist[1].atag = lh_alist[1].aref = 0;
    lh_vg.tag     = lh_tag;
    lh_vg.ref     = lh_ref;
    lh_vg.alist   = lh_alist;
    lh_vg.nvelt   = vg_nvelt;
    lh_vg.msize   = 4;
    lh_vg.otag    = DFTAG_VG;
    lh_vg.oref    = vg_oref;
    lh_vg.f       = L_FID;
    lh_vg.access  = 'r';
    lh_vg.new_vg  = 0; /* it is in the file */
    lh_vg.version = vg_version;
    lh_vg.extag   = vg_extag;
    lh_vg.exref   = vg_exref;
#ifdef LH_ATTR
    lh_vg.flags  = vg_flags | VG_ATTR_SET;
    lh_vg.nattrs = 1;
#else
    lh_vg.flags  = 0;
    lh_vg.nattrs = 0;
#endif
    lh_vg.marked = 0; /* nothing pending while nobody is attached (established by Vdetach, contract above) */
    g_vg         = &lh_vg;

    memset(&lh_v, 0, sizeof(lh_v));
    lh_v.key     = (int32)vg_oref;
    lh_v.ref     = (unsigned)vg_oref;
    lh_v.vg      = g_vg;
    lh_v.nattach = 0;
    g_v          = &lh_v;
    g_vp         = g_v;

    vgroup_free_list     = NULL;
    vginstance_free_list = NULL;
    Vgbuf                = lh_vgbuf; /* left by an earlier detach; large enough for the groups used here */
    Vgbufsize            = sizeof(lh_vgbuf);
}

/* an edit as Vaddtagref / Vdeletetagref / Vsetname would make it */
static void
lh_edit(void)
{
    H4V_ND(uint16, ed_tag0);
    H4V_ND(uint16, ed_ref0);
    H4V_ND(uint16, ed_tag1);
    H4V_ND(uint16, ed_ref1);
    g_vg->nvelt  = LH_N;
    g_vg->tag[0] = ed_tag0;
    g_vg->ref[0] = ed_ref0;
    g_vg->tag[1] = ed_tag1;
    g_vg->ref[1] = ed_ref1;
#ifdef LH_NAME
    lh_name[0]   = 'n';
    lh_name[1]   = '\0';
    g_vg->vgname = lh_name;
#endif
    g_vg->marked = 1;
}

/* what the file must hold for `vg` now: an independent vpackvg into lh_exp */
static void
lh_expect(VGROUP *vg)
{
    int r = vpackvg(vg, lh_exp, &lh_explen);
    H4V_CHECK(r == SUCCEED && lh_explen > 0 && (size_t)lh_explen <= sizeof(lh_exp), "vpackvg of the edited group");
}

#define LH_WRITTEN_IS_EXPECTED(vg)                                                                                \
    (g_put_f == L_FID && g_put_tag == DFTAG_VG && g_put_ref == (vg)->oref && g_put_len == lh_explen &&            \
     (g_c >= (size_t)lh_explen || g_put_byte == lh_exp[g_c]))

/* After a successful Vattach the harness re-states, as constants, ghost facts it has just CHECKED to hold (a checked no-op):
   cbmc's symbolic execution otherwise carries them as "value on the success path / value on the refused path" and can no
   longer resolve the handle in the following Vdetach to one object (see the note at lh_env). */
#define LH_ATTACHED(id, IDK, livek, objk, inst, what)                                                             \
    if (!((id) == IDK && livek == 1 && objk == (void *)(inst) && g_reg_n == (IDK - L_ID0) + 1)) {                 \
        H4V_CHECK(0, what);                                                                                       \
        return;                                                                                                   \
    }                                                                                                             \
    livek   = 1;                                                                                                  \
    objk    = (void *)(inst);                                                                                     \
    g_reg_n = (IDK - L_ID0) + 1
/* the two detaches in either order (handles are the constants L_ID0, L_ID1) */
#define LH_DETACH_BOTH(order, d1, d2)                                                                             \
    if (order) {                                                                                                  \
        d1 = Vdetach(L_ID0);                                                                                      \
        d2 = Vdetach(L_ID1);                                                                                      \
    }                                                                                                             \
    else {                                                                                                        \
        d1 = Vdetach(L_ID1);                                                                                      \
        d2 = Vdetach(L_ID0);                                                                                      \
    }

/* attach, edit, attach again ("r" or "w"), detach, detach (either order), then the stale ids */
void
h_hist_edit_reattach(void)
{
    lh_env();
    lh_frec.access = DFACC_RDWR;
#ifndef LIFE_C16
    g_put_may_fail = 0; /* fault-free run: the C16 twin lets the write fail */
#endif
    char w[2] = {'w', '\0'};
    H4V_ND(char, acc2);
    H4V_ASSUME(acc2 == 'r' || acc2 == 'w' || acc2 == 'R' || acc2 == 'W');
    char a2[2];
    a2[0] = acc2;
    a2[1] = '\0';
    int32 id1 = Vattach(L_FID, g_v->key, w);
    LH_ATTACHED(id1, L_ID0, g_live0, g_obj0, g_v, "first attach succeeds");
    H4V_CHECK(g_v->nattach == 1 && g_vg->marked == 0, "first attach: one handle, nothing pending");
    lh_edit();
    int32 id2 = Vattach(L_FID, g_v->key, a2);
    LH_ATTACHED(id2, L_ID1, g_live1, g_obj1, g_v, "second attach hands out a fresh id for the same instance");
    H4V_CHECK(g_v->nattach == 2, "nattach counts both handles");
    H4V_CHECK(g_vg->marked == 1, "the pending edit survives the second attach");
    H4V_CHECK(g_put_n == 0, "nothing written before a detach");
    lh_expect(g_vg);
    H4V_ND(int, order);
    int32 d1, d2;
    if (order) {
        d1 = Vdetach(L_ID0);
        H4V_CHECK(HAatom_object(L_ID0) == NULL && HAatom_object(L_ID1) == (void *)g_v, "a detach removes its own id only");
        d2 = Vdetach(L_ID1);
    }
    else {
        d1 = Vdetach(L_ID1);
        H4V_CHECK(HAatom_object(L_ID1) == NULL && HAatom_object(L_ID0) == (void *)g_v, "a detach removes its own id only");
        d2 = Vdetach(L_ID0);
    }
#ifdef LIFE_C16
    H4V_CHECK(!g_io_failed || d1 == FAIL || d2 == FAIL, "C16: a failed write-back is reported by a Vdetach");
    H4V_COVER(g_io_failed, "history: write-back fails");
#else
    if (g_chk_ret == 0 || (g_chk_ret == 1 && !g_reuse_fault)) { /* the descriptor layer does not refuse */
        H4V_CHECK(d1 == SUCCEED && d2 == SUCCEED, "both detaches succeed");
        H4V_CHECK(g_v->nattach == 0, "nobody attached after the last detach");
        H4V_CHECK(g_put_n == 1, "the edit is written back exactly once");
        H4V_CHECK(LH_WRITTEN_IS_EXPECTED(g_vg), "the record written is vpackvg of the edited group");
        H4V_CHECK(g_vg->marked == 0, "no edit pending after the last detach");
        H4V_CHECK(g_reuse_n == (g_chk_ret == 1 ? 1 : 0), "the old descriptor is released exactly once when it exists");
    }
    H4V_CHECK(g_rem_n == 2 && !g_live0 && !g_live1, "each id removed exactly once");
    int   n0 = g_put_n, na = g_v->nattach;
    int32 d3 = Vdetach(L_ID0);
    int32 d4 = Vdetach(L_ID1);
    H4V_CHECK(d3 == FAIL && d4 == FAIL && g_put_n == n0 && g_v->nattach == na && g_rem_n == 2, "stale ids are refused and change nothing");
    H4V_COVER(order == 0 && acc2 == 'r' && d1 == SUCCEED && d2 == SUCCEED, "history: r handle detached first");
    H4V_COVER(g_reuse_n == 1 && g_put_n == 1, "history: descriptor reused");
#endif
    H4V_CANARY("hist_edit_reattach end");
}

/* new group: Vattach(-1,"w"), attach it again by ref, detach, detach.  Allocation: vgp.c's malloc is served from typed
   static objects in this history (-DLH_POOL, see lh_pool_malloc), for the reason given at lh_env. */
void
h_hist_new_group(void)
{
    lh_env();
    lh_frec.access = DFACC_RDWR;
    H4V_ASSUME(g_newref != 0 && (int32)g_newref != g_v->key);
#ifndef LIFE_C16
    g_put_may_fail = 0;
#endif
    char  w[2]  = {'w', '\0'};
    char  r_[2] = {'r', '\0'};
    int32 tabn0 = g_vf->vgtabn;
    int32 id1   = Vattach(L_FID, -1, w);
    if (g_vn == NULL) {
        H4V_CHECK(0, "a new group is entered into the table");
        return;
    }
    LH_ATTACHED(id1, L_ID0, g_live0, g_obj0, g_vn, "the new group gets the first id");
    H4V_CHECK(g_vn->vg != NULL && g_ins_n == 1 && g_vf->vgtabn == tabn0 + 1, "new group entered once");
    VGROUP *nvg = g_vn->vg;
    H4V_CHECK(nvg->marked == 1 && nvg->new_vg == 1 && nvg->nvelt == 0 && nvg->oref == g_newref, "new group is pending");
    int32 id2 = Vattach(L_FID, (int32)g_newref, r_);
    LH_ATTACHED(id2, L_ID1, g_live1, g_obj1, g_vn, "second attach hands out a fresh id for the same instance");
    H4V_CHECK(g_vn->nattach == 2 && nvg->marked == 1 && nvg->new_vg == 1 && nvg->access == 'w',
              "second attach keeps the new group pending and writable");
    lh_expect(nvg);
    H4V_ND(int, order);
    int32 d1, d2;
    LH_DETACH_BOTH(order, d1, d2);
#ifdef LIFE_C16
    H4V_CHECK(!g_io_failed || d1 == FAIL || d2 == FAIL, "C16: a failed write-back is reported by a Vdetach");
    H4V_COVER(g_io_failed, "history: write-back fails");
#else
    H4V_CHECK(d1 == SUCCEED && d2 == SUCCEED && g_vn->nattach == 0, "both detaches succeed");
    H4V_CHECK(g_put_n == 1 && LH_WRITTEN_IS_EXPECTED(nvg), "the new group is written exactly once");
    H4V_CHECK(g_chk_n == 0 && g_reuse_n == 0, "a new group reuses no descriptor");
    H4V_CHECK(nvg->marked == 0 && nvg->new_vg == 0, "nothing pending after the last detach");
    H4V_CHECK(g_v->nattach == 0 && g_vg->marked == 0, "the other group is untouched");
#endif
    H4V_CANARY("hist_new_group end");
}

/* no edit: attach r, attach r/w, detach, detach writes nothing */
void
h_hist_no_edit(void)
{
    lh_env();
    char r_[2] = {'r', '\0'};
    H4V_ND(char, acc2);
    H4V_ASSUME(acc2 == 'r' || (acc2 == 'w' && (g_frec->access & DFACC_WRITE)));
    char a2[2];
    a2[0] = acc2;
    a2[1] = '\0';
    int32 id1 = Vattach(L_FID, g_v->key, r_);
    LH_ATTACHED(id1, L_ID0, g_live0, g_obj0, g_v, "first attach succeeds");
    int32 id2 = Vattach(L_FID, g_v->key, a2);
    LH_ATTACHED(id2, L_ID1, g_live1, g_obj1, g_v, "second attach hands out a fresh id for the same instance");
    H4V_CHECK(g_v->nattach == 2 && g_vg->marked == 0, "two attaches, nothing pending");
    H4V_ND(int, order);
    int32 d1, d2;
    LH_DETACH_BOTH(order, d1, d2);
    H4V_CHECK(d1 == SUCCEED && d2 == SUCCEED && g_v->nattach == 0, "both detaches succeed");
    H4V_CHECK(g_put_n == 0 && g_reuse_n == 0 && g_chk_n == 0, "an unchanged group writes nothing and touches no descriptor");
    H4V_COVER(!(g_frec->access & DFACC_WRITE), "history: read-only file");
    H4V_CANARY("hist_no_edit end");
}

/* edits on both sides of the first detach: attach w, attach r, edit, detach, edit again through the remaining handle,
   detach: the file ends up with the LAST state */
void
h_hist_edit_twice(void)
{
    lh_env();
    lh_frec.access = DFACC_RDWR;
    g_put_may_fail = 0;
    g_chk_ret      = 0; /* descriptor layer: not found (reuse is covered by hist_edit_reattach) */
    char  w[2]  = {'w', '\0'};
    char  r_[2] = {'r', '\0'};
    int32 id1   = Vattach(L_FID, g_v->key, w);
    LH_ATTACHED(id1, L_ID0, g_live0, g_obj0, g_v, "first attach succeeds");
    int32 id2 = Vattach(L_FID, g_v->key, r_);
    LH_ATTACHED(id2, L_ID1, g_live1, g_obj1, g_v, "second attach hands out a fresh id for the same instance");
    H4V_CHECK(g_v->nattach == 2, "two attaches");
    lh_edit();
    H4V_ND(int, order);
    int32 d1, d2;
    if (order)
        d1 = Vdetach(L_ID0);
    else
        d1 = Vdetach(L_ID1);
    H4V_CHECK(d1 == SUCCEED && g_v->nattach == 1, "first detach");
    int n1 = g_put_n;
    lh_edit();
    lh_expect(g_vg);
    if (order)
        d2 = Vdetach(L_ID1);
    else
        d2 = Vdetach(L_ID0);
    H4V_CHECK(d2 == SUCCEED && g_v->nattach == 0, "last detach");
    H4V_CHECK(g_put_n == n1 + 1 && n1 <= 1, "the second edit is written exactly once, by the last detach");
    H4V_CHECK(LH_WRITTEN_IS_EXPECTED(g_vg) && g_vg->marked == 0, "the file holds the last state");
    H4V_CANARY("hist_edit_twice end");
}

/* Verification unit: hdf/src/hcomp.c -- C14 (read-only access): the gate of HCcreate. */
#include "h4v.h"
#include "h4v_err.h"
#include "c14_common.h"
#include "hcomp.c"

#define C14_ENV (g_frec != NULL && C14_RDONLY(g_frec) && g_mut_n == 0 && g_denied_n == 0 && g_reg_n == 0 && g_getrec_n == 0)
int32 HCcreate(int32 file_id, uint16 tag, uint16 ref, comp_model_t model_type, model_info *m_info, comp_coder_t coder_type,
               comp_info *c_info)
    __CPROVER_requires(C14_ENV)
    __CPROVER_assigns(g_mut_n, g_denied_n, g_reg_n, g_rem_n, g_getrec_n, g_relrec_n, __CPROVER_object_whole(g_frec))
    __CPROVER_ensures(__CPROVER_return_value == FAIL)
    __CPROVER_ensures(g_mut_n == 0 && g_denied_n == 0 && g_reg_n == 0 && g_getrec_n == 0)
    __CPROVER_ensures(g_frec->attach == __CPROVER_old(g_frec->attach));

#ifdef H4V_NATIVE
#include "h4v_native_wrap.h"
#endif

void
h_c14_HCcreate(void)
{
    c14_mk_file();
    H4V_ND(uint16, tag);
    H4V_ND(uint16, ref);
    H4V_ND(int, model_type);
    H4V_ND(int, coder_type);
    model_info *mi = malloc(sizeof(model_info));
    comp_info  *ci = malloc(sizeof(comp_info));
    H4V_ASSUME(mi != NULL && ci != NULL);
    int32 r = HCcreate(g_fid, tag, ref, (comp_model_t)model_type, mi, (comp_coder_t)coder_type, ci);
    H4V_COVER(r == FAIL && !SPECIALTAG(tag), "HCcreate denied at the gate");
    H4V_CANARY("HCcreate end");
}

"""Registry core: every obligations/c*.py module registers its contracts with ob()."""
OBS = []
PROPS = {}


def ob(id, props, unit, entry, enforce=None, mode="proved", **kw):
    """One obligation = one enforced contract run.
    id        unique name
    props     property id or list of ids it serves
    unit      file under units/ (includes the real /repo file)
    entry     harness function h_<x> in the unit
    enforce   function whose contract is enforced (None: harness-level assertions only)
    mode      proved | proved-finite | bounded   (bounded needs bound="...")
    optional  replace=[callees replaced by their contract], loops=True (+ nloops, loopcls "P"/"A"),
              unwind=N, cex_unwind=N, overflow=True, objbits=N, flags=[...], defines=[...],
              timeout=sec, tier="quick"|"thorough", file="hdf/src/x.c", trusted=[stub names], floor=N
    """
    assert mode in ("proved", "proved-finite", "bounded")
    assert mode != "bounded" or kw.get("bound"), "bounded obligations must state their bound"
    assert all(o["id"] != id for o in OBS), f"duplicate obligation id {id}"
    d = dict(id=id, props=props if isinstance(props, list) else [props], unit=unit, entry=entry,
             enforce=enforce, mode=mode)
    d.update(kw)
    # a timeout only matters when the machine is loaded or something hangs: never below 400 s (quick) / 900 s (thorough), so that a
    # busy machine turns a green run into a slower green run, not into an UNDECIDED (exit 2) one
    d["timeout"] = max(d.get("timeout", 600), 900 if d.get("tier") == "thorough" else 400)
    OBS.append(d)
    return d


def prop(pid, residual, assumptions=()):
    PROPS[pid] = dict(residual=residual, assumptions=list(assumptions))

/* C14 (read-only access) -- common ghost environment and trusted stubs for the "gate" units
 * units/c14_*_u.c.
 *
 * Environment: ONE open file g_fid -> g_frec whose access word has NO DFACC_WRITE, and (for the
 * H-level special-element functions) ONE access record g_aid -> g_arec on that file.
 *
 * Every primitive that would change a byte of the file, reserve file space, create / change /
 * delete a data descriptor or create a stored object is a stub body that H4V_CHECKs "never
 * reached on a file opened read-only" (C14_MUT) and counts the call in g_mut_n.  Primitives that
 * the lead's hfile.c contracts prove to refuse on a read-only file (Hstartaccess with DFACC_WRITE
 * -> DFE_DENIED before any allocation or DD creation, obligation `Hstartaccess`; Hwrite / Htrunc
 * on an access record without DFACC_WRITE -> FAIL, nothing written, obligations `Hwrite`,
 * `Htrunc`) are modelled as returning FAIL (a proved-dependency edge), and counted in g_denied_n.
 *
 * A unit whose real file DEFINES one of these functions switches the stub off with
 * #define C14_HAVE_<name> before including this header.
 */
#ifndef C14_COMMON_H
#define C14_COMMON_H
#include "hdf_priv.h"
#include "hfile_priv.h"

H4V_DECL_ND(int);
H4V_DECL_ND(int32);
H4V_DECL_ND(uint32);
H4V_DECL_ND(uint16);
H4V_DECL_ND(int16);

filerec_t *g_frec; /* the file record behind g_fid (never NULL in the harnesses) */
int32      g_fid;
accrec_t  *g_arec; /* the access record behind g_aid (NULL: no such id) */
int32      g_aid;
int        g_mut_n;    /* mutation primitives reached (each of them also fails its C14 check) */
int        g_denied_n; /* write requests refused downstream by the H layer */
int        g_reg_n;    /* HAregister_atom calls (a new handle was handed out) */
int        g_rem_n;    /* HAremove_atom calls */

#define C14_FID 0x10000007 /* representative ids (any pairwise distinct values would do) */
#define C14_AID 0x30000005
#define C14_AID2 0x30000006
#define C14_RDONLY(f) (((f)->access & DFACC_WRITE) == 0)
#define C14_MUT(name)                                                                                        \
    do {                                                                                                     \
        H4V_CHECK(g_frec == NULL || !C14_RDONLY(g_frec), "C14: " name " reached on a file opened read-only"); \
        g_mut_n++;                                                                                           \
    } while (0)

static void c14_init_more(void);
/* the read-only file record; `cache` and the offsets are arbitrary */
static void
c14_mk_file(void)
{
    g_frec = malloc(sizeof(filerec_t));
    H4V_ASSUME(g_frec != NULL);
    H4V_ND(int, f_refcount);
    H4V_ND(int, f_attach);
    H4V_ND(int, f_cache);
    H4V_ND(int, f_dirty);
    H4V_ND(int32, f_end_off);
    H4V_ND(int32, f_cur_off);
    H4V_ASSUME(f_refcount >= 1);
    H4V_ASSUME(f_attach >= 0 && f_attach < 1000);
    H4V_ASSUME(f_cache == 0 || f_cache == 1);
    H4V_ASSUME(f_end_off >= 0 && f_end_off < INT32_MAX && f_cur_off >= 0);
    g_frec->path        = NULL;
    g_frec->file        = NULL;
    g_frec->maxref      = 0;
    g_frec->access      = DFACC_READ; /* what Hopen(path, DFACC_READ, ...) stores: a constant keeps the code behind a gate out of the formula */
    g_frec->refcount    = f_refcount;
    g_frec->attach      = f_attach;
    g_frec->version_set = 1;
    g_frec->f_cur_off   = f_cur_off;
    g_frec->last_op     = H4_OP_UNKNOWN;
    g_frec->cache       = f_cache;
    g_frec->dirty       = f_dirty;
    g_frec->f_end_off   = f_end_off;
    g_frec->ddhead = g_frec->ddlast = g_frec->ddnull = NULL;
    g_frec->ddnull_idx = -1;
    g_frec->tag_tree   = NULL;
    /* Handles are opaque: the code under test only passes them on and the atom stubs only compare them for equality, so
       fixed pairwise distinct representatives lose nothing (symmetry), and they let cbmc decide `id == g_fid` in the atom
       stubs: the gate becomes a constant and the code behind it stays out of the formula. */
    g_fid = C14_FID;
    g_aid = C14_AID;
    g_arec  = NULL;
    g_mut_n = g_denied_n = g_reg_n = g_rem_n = 0;
    c14_init_more();
}

/* an access record on that file.  C14 invariant established by Hstartaccess (proved in
   hfile_u.c): no access record of a read-only file carries DFACC_WRITE. */
static void
c14_mk_arec(void)
{
    g_arec = malloc(sizeof(accrec_t));
    H4V_ASSUME(g_arec != NULL);
    H4V_ND(int, a_appendable);
    H4V_ND(int, a_special);
    H4V_ND(int, a_new_elem);
    H4V_ND(int32, a_block_size);
    H4V_ND(int32, a_num_blocks);
    H4V_ND(uint32, a_access);
    H4V_ND(int32, a_ddid);
    H4V_ND(int32, a_posn);
    H4V_ASSUME((a_access & DFACC_WRITE) == 0);
    H4V_ASSUME(a_posn >= 0);
    g_arec->appendable   = a_appendable;
    g_arec->special      = a_special;
    g_arec->new_elem     = a_new_elem;
    g_arec->block_size   = a_block_size;
    g_arec->num_blocks   = a_num_blocks;
    g_arec->access       = a_access;
    g_arec->access_type  = 0;
    g_arec->file_id      = g_fid;
    g_arec->ddid         = a_ddid;
    g_arec->posn         = a_posn;
    g_arec->special_info = NULL;
    g_arec->special_func = NULL;
    g_arec->next         = NULL;
}

/* ------------------------------------------------------------------ atom.c */
#ifndef C14_HAVE_HAatom_object
void *
HAatom_object(atom_t atm)
{
    if (atm == g_fid)
        return g_frec;
    if (atm == g_aid)
        return g_arec;
    return NULL;
}
#endif
#ifndef C14_HAVE_HAatom_group
group_t
HAatom_group(atom_t atm)
{
    if (atm == g_fid)
        return FIDGROUP;
    if (atm == g_aid && g_arec != NULL)
        return AIDGROUP;
    return BADGROUP;
}
#endif
#ifndef C14_HAVE_HAregister_atom
atom_t
HAregister_atom(group_t grp, void *object)
{
    H4V_ND(int32, new_atom);
    H4V_ASSUME(new_atom != FAIL && new_atom != g_fid && new_atom != g_aid);
    g_reg_n++;
    return new_atom;
}
#endif
#ifndef C14_HAVE_HAremove_atom
void *
HAremove_atom(atom_t atm)
{
    g_rem_n++;
    if (atm == g_aid)
        return g_arec;
    return NULL;
}
#endif

/* ------------------------------------------------------------------ hfile.c: physical I/O */
#ifndef C14_HAVE_HP
int
HPseek(filerec_t *file_rec, int32 offset)
{
    H4V_ND(int, hp_seek_fault);
    if (hp_seek_fault)
        return FAIL;
    file_rec->f_cur_off = offset;
    return SUCCEED;
}
int
HP_read(filerec_t *file_rec, void *buf, int32 bytes)
{
    H4V_ND(int, hp_read_fault);
    if (hp_read_fault || bytes < 0)
        return FAIL;
#ifdef H4V_CBMC
    if (bytes > 0)
        __CPROVER_havoc_slice(buf, (size_t)bytes);
#endif
    return SUCCEED;
}
int
HP_write(filerec_t *file_rec, const void *buf, int32 bytes)
{
    C14_MUT("HP_write");
    H4V_ND(int, hp_write_fault);
    return hp_write_fault ? FAIL : SUCCEED;
}
int32
HPgetdiskblock(filerec_t *file_rec, int32 block_size, int moveto)
{
    C14_MUT("HPgetdiskblock (file space reserved)");
    H4V_ND(int, hp_gdb_fault);
    if (hp_gdb_fault || block_size < 0 || block_size >= INT32_MAX - file_rec->f_end_off)
        return FAIL;
    int32 ret = file_rec->f_end_off;
    file_rec->f_end_off += block_size;
    return ret;
}
int
HPfreediskblock(filerec_t *file_rec, int32 block_off, int32 block_size)
{
    return SUCCEED; /* the real one is a no-op too (hfile.c:3015) */
}
#endif

/* ------------------------------------------------------------------ hfiledd.c: DD layer */
#ifndef C14_HAVE_HTP
int32  g_dd_off, g_dd_len; /* the DD an id is attached to */
uint16 g_dd_tag, g_dd_ref;
atom_t
HTPselect(filerec_t *file_rec, uint16 tag, uint16 ref)
{
    H4V_ND(int, select_ok);
    H4V_ND(int32, select_ddid);
    if (!select_ok)
        return FAIL;
    H4V_ASSUME(select_ddid != FAIL);
    return select_ddid;
}
atom_t
HTPcreate(filerec_t *file_rec, uint16 tag, uint16 ref)
{
    C14_MUT("HTPcreate (data descriptor created)");
    H4V_ND(int, create_ok);
    H4V_ND(int32, create_ddid);
    if (!create_ok)
        return FAIL;
    H4V_ASSUME(create_ddid != FAIL);
    return create_ddid;
}
int
HTPupdate(atom_t ddid, int32 new_off, int32 new_len)
{
    C14_MUT("HTPupdate (data descriptor changed)");
    H4V_ND(int, update_ok);
    return update_ok ? SUCCEED : FAIL;
}
int
HTPdelete(atom_t ddid)
{
    C14_MUT("HTPdelete (data descriptor deleted)");
    H4V_ND(int, delete_ok);
    return delete_ok ? SUCCEED : FAIL;
}
int
HTPendaccess(atom_t ddid)
{
    return SUCCEED;
}
int
HTPinquire(atom_t ddid, uint16 *tag, uint16 *ref, int32 *off, int32 *len)
{
    H4V_ND(int, inquire_ok);
    if (!inquire_ok)
        return FAIL;
    if (tag != NULL)
        *tag = g_dd_tag;
    if (ref != NULL)
        *ref = g_dd_ref;
    if (off != NULL)
        *off = g_dd_off;
    if (len != NULL)
        *len = g_dd_len;
    return SUCCEED;
}
int
HTPis_special(atom_t ddid)
{
    H4V_ND(int, is_special);
    return is_special ? TRUE : FALSE;
}
/* public DD functions without a write-access check of their own (DESIGN section 9, D15): for the
   layers above they count as mutation primitives */
int
Hdupdd(int32 file_id, uint16 tag, uint16 ref, uint16 old_tag, uint16 old_ref)
{
    C14_MUT("Hdupdd");
    H4V_ND(int, dupdd_ok);
    return dupdd_ok ? SUCCEED : FAIL;
}
int
Hdeldd(int32 file_id, uint16 tag, uint16 ref)
{
    C14_MUT("Hdeldd");
    H4V_ND(int, deldd_ok);
    return deldd_ok ? SUCCEED : FAIL;
}
int
HDreuse_tagref(int32 file_id, uint16 tag, uint16 ref)
{
    C14_MUT("HDreuse_tagref");
    H4V_ND(int, reuse_ok);
    return reuse_ok ? SUCCEED : FAIL;
}
int
HDcheck_tagref(int32 file_id, uint16 tag, uint16 ref)
{
    H4V_ND(int, check_tagref);
    H4V_ASSUME(check_tagref >= -1 && check_tagref <= 1);
    return check_tagref;
}
/* ref allocation only reads the DD list */
uint16
Hnewref(int32 file_id)
{
    H4V_ND(uint16, newref);
    return newref;
}
uint16
Htagnewref(int32 file_id, uint16 tag)
{
    H4V_ND(uint16, tagnewref);
    return tagnewref;
}
#endif

/* ------------------------------------------------------------------ hfile.c: element level */
#ifndef C14_HAVE_H
/* Hstartaccess: proved (obligation `Hstartaccess`, hfile_u.c): a request with DFACC_WRITE on a
   read-only file returns FAIL before any allocation or DD creation. */
int32 g_aid2; /* id of an access element opened for reading */
int32
Hstartaccess(int32 file_id, uint16 tag, uint16 ref, uint32 flags)
{
    if (file_id != g_fid)
        return FAIL;
    if ((flags & DFACC_WRITE) && C14_RDONLY(g_frec)) {
        g_denied_n++;
        return FAIL;
    }
    H4V_ND(int, startaccess_ok);
    if (!startaccess_ok)
        return FAIL;
    return g_aid2;
}
/* access-record pool of hfile.c */
int g_getrec_n, g_relrec_n;
#define C14_INIT_H g_getrec_n = g_relrec_n = 0; g_aid2 = C14_AID2;
accrec_t *
HIget_access_rec(void)
{
    accrec_t *r = calloc(1, sizeof(accrec_t));
    if (r != NULL)
        g_getrec_n++;
    return r;
}
void
HIrelease_accrec_node(accrec_t *acc)
{
    g_relrec_n++;
}
void *
HIgetspinfo(accrec_t *access_rec)
{
    return NULL;
}
int32
Hstartread(int32 file_id, uint16 tag, uint16 ref)
{
    return Hstartaccess(file_id, tag, ref, DFACC_READ);
}
int32
Hstartwrite(int32 file_id, uint16 tag, uint16 ref, int32 length)
{
    /* hfile.c: Hstartaccess(..., DFACC_RDWR) first */
    return Hstartaccess(file_id, tag, ref, DFACC_RDWR);
}
int32
Hputelement(int32 file_id, uint16 tag, uint16 ref, const uint8 *data, int32 length)
{
    /* hfile.c: Hstartwrite first */
    return Hstartwrite(file_id, tag, ref, length) == FAIL ? FAIL : length;
}
int32
Hwrite(int32 access_id, int32 length, const void *data)
{
    /* proved (obligation `Hwrite`): an access record without DFACC_WRITE -> FAIL, nothing written; by the
       Hstartaccess invariant no access record of a read-only file has DFACC_WRITE */
    g_denied_n++;
    return FAIL;
}
int32
Htrunc(int32 aid, int32 trunc_len)
{
    g_denied_n++;
    return FAIL;
}
int
Hsetlength(int32 aid, int32 length)
{
    /* only legal on a new element, which cannot exist on a read-only file; the real one has no
       check of its own and reserves file space */
    C14_MUT("Hsetlength (file space reserved)");
    H4V_ND(int, setlength_ok);
    return setlength_ok ? SUCCEED : FAIL;
}
int32
Hread(int32 access_id, int32 length, void *data)
{
    H4V_ND(int32, hread_ret);
#ifdef H4V_CBMC
    if (hread_ret > 0 && length > 0)
        __CPROVER_havoc_slice(data, (size_t)length);
#endif
    H4V_ASSUME(hread_ret == FAIL || (hread_ret >= 0 && (length == 0 || hread_ret <= length)));
    return hread_ret;
}
int32
Hgetelement(int32 file_id, uint16 tag, uint16 ref, uint8 *data)
{
    H4V_ND(int32, hget_ret);
    return hget_ret;
}
int
Hseek(int32 access_id, int32 offset, int origin)
{
    H4V_ND(int, hseek_ok);
    return hseek_ok ? SUCCEED : FAIL;
}
int
Hendaccess(int32 access_id)
{
    H4V_ND(int, hend_ok);
    return hend_ok ? SUCCEED : FAIL;
}
int32
Hlength(int32 file_id, uint16 tag, uint16 ref)
{
    H4V_ND(int32, hlength_ret);
    return hlength_ret;
}
int
Hexist(int32 file_id, uint16 search_tag, uint16 search_ref)
{
    H4V_ND(int, hexist_ret);
    return hexist_ret ? SUCCEED : FAIL;
}
int
Hinquire(int32 access_id, int32 *pfile_id, uint16 *ptag, uint16 *pref, int32 *plength, int32 *poffset, int32 *pposn,
         int16 *paccess, int16 *pspecial)
{
    H4V_ND(int, hinquire_ok);
    if (!hinquire_ok)
        return FAIL;
    if (pfile_id) *pfile_id = g_fid;
    if (ptag) { H4V_ND(uint16, hinq_tag); *ptag = hinq_tag; }
    if (pref) { H4V_ND(uint16, hinq_ref); *pref = hinq_ref; }
    if (plength) { H4V_ND(int32, hinq_len); *plength = hinq_len; }
    if (poffset) { H4V_ND(int32, hinq_off); *poffset = hinq_off; }
    if (pposn) { H4V_ND(int32, hinq_posn); *pposn = hinq_posn; }
    if (paccess) { H4V_ND(int16, hinq_acc); *paccess = hinq_acc; }
    if (pspecial) { H4V_ND(int16, hinq_sp); *pspecial = hinq_sp; }
    return SUCCEED;
}
#endif

static void
c14_init_more(void)
{
#ifdef C14_INIT_H
    C14_INIT_H
#endif
}
#endif /* C14_COMMON_H */

/* D52-D54 (C03): SD hyperslab requests that must transfer nothing.
   D52: SDreaddata(start={1,0}, edge={1,0}) on a 4x4 dataset (empty request): a run of 0 elements reaches Hread(aid,0,..) = "read to
        the end of the element": 48 bytes land in the caller's buffer.
   D53: SDwritedata(start={2,1}, edge={1,2}) on an (unlimited x 2) dataset with 0 records: refused (inner edge out of range), but
        three fill records were already written and the dataset now has 3 records.
   D54: SDwritedata(start={2,0}, edge={3,2}) on a 4x4 dataset: refused (outer edge out of range) after rows 2 and 3 were overwritten.
   Build: gcc D52_ncvario_requests.c -I/repo/hdf/src -I/repo/mfhdf/src -I/repo/_build -L/repo/_build/bin -lmfhdf -lhdf -Wl,-rpath,/repo/_build/bin */
#include "mfhdf.h"
#include <stdio.h>
#include <string.h>
int main(void)
{
    int bad = 0;
    int32 sd = SDstart("d52.hdf", DFACC_CREATE), d44[2] = {4, 4}, du[2] = {SD_UNLIMITED, 2};
    int32 a = SDcreate(sd, "a", DFNT_INT32, 2, d44), u = SDcreate(sd, "u", DFNT_INT32, 2, du);
    int32 st[2] = {0, 0}, ed[2] = {4, 4}, data[16], guard[16], back[16];
    for (int i = 0; i < 16; i++) data[i] = 100 + i;
    SDwritedata(a, st, NULL, ed, data);
    /* D52 */
    memset(guard, 0x55, sizeof guard);
    st[0] = 1; st[1] = 0; ed[0] = 1; ed[1] = 0;
    intn r = SDreaddata(a, st, NULL, ed, guard);
    int touched = 0; for (int i = 0; i < 16; i++) touched += guard[i] != 0x55555555;
    printf("D52: empty read returned %d, %d words of the buffer were written (0 expected)\n", r, touched);
    bad += touched != 0;
    /* D54 */
    int32 nine[6] = {9, 9, 9, 9, 9, 9};
    st[0] = 2; st[1] = 0; ed[0] = 3; ed[1] = 2;
    r = SDwritedata(a, st, NULL, ed, nine);
    st[0] = 0; st[1] = 0; ed[0] = 4; ed[1] = 4;
    SDreaddata(a, st, NULL, ed, back);
    int changed = 0; for (int i = 0; i < 16; i++) changed += back[i] != data[i];
    printf("D54: out-of-range write returned %d, %d cells changed (FAIL and 0 expected)\n", r, changed);
    bad += !(r == FAIL && changed == 0);
    /* D53 */
    st[0] = 2; st[1] = 1; ed[0] = 1; ed[1] = 2;
    r = SDwritedata(u, st, NULL, ed, nine);
    char nm[64]; int32 rank, dims[2], nt, na;
    SDgetinfo(u, nm, &rank, dims, &nt, &na);
    printf("D53: out-of-range write on the unlimited dataset returned %d, records now %d (FAIL and 0 expected)\n", r, (int)dims[0]);
    bad += !(r == FAIL && dims[0] == 0);
    SDendaccess(a); SDendaccess(u); SDend(sd); remove("d52.hdf");
    printf(bad ? "FAIL\n" : "PASS\n");
    return bad;
}

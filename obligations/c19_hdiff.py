"""C19: inspection tools -- hdiff's element-wise comparison (mfhdf/hdiff/hdiff_array.c: array_diff, print_pos)

Unit hdiff_array_u.c includes the real hdiff_array.c.  The number type is a harness constant (one
obligation per type); the options are hdiff's defaults (err_limit 0.0, err_rel 0.0, statistics 0), no
fill values; rank 1..2; print limit (max_err_cnt) arbitrary.

Why `bounded` and not `proved` (DESIGN section 5 planned a loop contract on the per-type loop): the loop
body assigns 26 locals (double-precision statistics included).  dfcc havocs every loop-assigns target
through a pointer fetched from its write-set array; cbmc 6.11 resolves each of these 26 pointers against
~50 candidate objects of different types (nested byte_update/if).  Measured on the 8-bit loop with the
invariant "n_diff > 0 if a ghost element below i differs": symex 487 s, then no end of the SSA conversion
within 10 min (same mechanism as obligations/c06_dfconv.py describes for DFKsb2b).  Without loop contracts,
with the type constant, --slice-formula (drops the unused float statistics) and rank <= 2 (a symbolic
product of two extents makes the overflow check a multiplier-equivalence problem: no answer in 5 min)
the unwound loop costs ~0.3 s per element.
"""
from .core import ob, prop

N = 8  # cap on tot_cnt
AD = dict(unit="hdiff_array_u.c", file="mfhdf/hdiff/hdiff_array.c", mode="bounded", replace=["print_pos"],
          unwind=N + 2, cex_unwind=N + 2, flags=["--slice-formula"], objbits=10,
          trusted=["printf: cbmc built-in (no effect)", "getenv(\"DEBUG\"): NULL or a string; fopen succeeds; fprintf/fclose: ghost counters only"])
TYPES = [("INT8", "int8"), ("UINT8", "int8"), ("CHAR8", "int8"), ("UCHAR8", "int8"),
         ("INT16", "int16"), ("UINT16", "int16"), ("INT32", "int32"), ("UINT32", "int32")]
for t, e in TYPES:
    d = [f"H4V_TYPE=DFNT_{t}", f"H4V_ELT={e}", f"H4V_MAXCNT={N}u"]
    b = f"tot_cnt <= {N}, rank <= 2, type DFNT_{t}, default options, no fill value"
    quick = t in ("INT8", "UINT8", "INT16", "UINT16", "INT32", "UINT32")
    tier = "quick" if quick else "thorough"
    # flags any change of one element / reflexivity / result <= tot_cnt (contract of array_diff)
    ob(f"array_diff_{t}", "C19", entry="h_array_diff", enforce="array_diff", bound=b, defines=d, tier=tier, **AD)
    ob(f"array_diff_same_{t}", "C19", entry="h_array_diff_same", enforce="array_diff", bound=b, defines=d, tier=tier, **AD)
    # symmetry of "a difference is found" and exact count (harness-level, two calls / reference count)
    ob(f"array_diff_sym_{t}", "C19", entry="h_array_diff_sym", enforce=None, bound=b, defines=d,
       tier="quick" if t in ("INT8", "INT16", "INT32") else "thorough", **AD)
    ob(f"array_diff_count_{t}", "C19", entry="h_array_diff_count", enforce=None, bound=b, defines=d,
       tier="quick" if t in ("INT8", "INT16", "INT32") else "thorough", **AD)

# print_pos: row-major decomposition of the linear index (rank <= 3, loops unwound)
ob("print_pos", "C19", unit="hdiff_array_u.c", file="mfhdf/hdiff/hdiff_array.c", entry="h_print_pos", enforce="print_pos",
   mode="bounded", bound="rank <= 3", unwind=5, cex_unwind=5, defines=["H4V_PPRANK=3"])

prop("C19",
     residual="decided: array_diff's verdict for the eight integer number types under hdiff's default options (no -e/-t/-p/-S), "
              "no fill value, at most 8 elements per call and rank <= 2; print_pos index decomposition for rank <= 3.  NOT decided: "
              "float32/float64 comparison and the tolerance options (-e limit, -t, -p relative), fill-value handling, statistics; "
              "object matching between the two files (hdiff_table/hdiff_list/match), Vdata, GR palette and attribute comparison "
              "(hdiff_vs.c, hdiff_gr.c, hdiff_gattr.c), the hyperslab strip-mining of diff_sds, the exit status of main(); "
              "everything about hdp dump formatting and hdfimport (text I/O: no contract relates printed text to API values)",
     assumptions=["A-HDIFF-OPTS: err_limit == 0.0, err_rel == 0.0, statistics == 0, fill1 == fill2 == NULL (hdiff's defaults; SDS without fill value)",
                  "A-DEBUGFILE: if the DEBUG environment variable is set, fopen(\"hdiff.debug\") succeeds (array_diff does not check it)",
                  "A-PRINTF: printf/fprintf have no effect on program state"])

"""C12: the DD-id layer (HTP*) and the public tag/ref functions of hfiledd.c built on it -- "deleting or duplicating one entry
affects no other", exact counts, wildcard search (unit hfiledd_api_u.c: tag tree / bit-vector / ref table abstracted by stubs)."""
from .core import ob

A = dict(unit="hfiledd_api_u.c", file="hdf/src/hfiledd.c", objbits=10, cex_unwind=6,
         trusted=["bv_* / DA* stub bodies: abstraction of the per-tag ref set at two ghost (tag, ref) entries (contracts: bitvect_u.c, dynarray_u.c)",
                  "tbbtdfind/tbbtdins two-key finite map (A-TBBT)", "HP-level ghost disk (stubs/h4v_hp.h)",
                  "HAatom_object/HAregister_atom/HAremove_atom: file id + two DD ids", "HPfreediskblock (no-op in hfile.c)"])
ob("HTPinquire", "C12", entry="h_HTPinquire", enforce="HTPinquire", **A)
ob("HTPis_special", "C12", entry="h_HTPis_special", enforce="HTPis_special", **A)
ob("HTPendaccess", "C12", entry="h_HTPendaccess", enforce="HTPendaccess", **A)
ob("HTPupdate", ["C12", "C02"], entry="h_HTPupdate", enforce="HTPupdate", **A)
ob("HTPdelete", ["C12", "C02"], entry="h_HTPdelete", enforce="HTPdelete", **A)
ob("HTPselect", "C12", entry="h_HTPselect", enforce="HTPselect", **A)
ob("HDcheck_tagref", "C12", entry="h_HDcheck_tagref", enforce="HDcheck_tagref", **A)
ob("Hdeldd", ["C12", "C02"], entry="h_Hdeldd", enforce="Hdeldd", tier="thorough", **A)
ob("HDreuse_tagref", "C12", entry="h_HDreuse_tagref", enforce="HDreuse_tagref", tier="thorough", **A)
ob("Hdupdd", ["C12", "C02"], entry="h_Hdupdd", enforce="Hdupdd", replace=["HTIfind_dd"], defines=["H4V_OB_DUPDD"], tier="thorough",
   **dict(A, trusted=A["trusted"] + ["HTIfind_dd by contract: the empty-slot search hands out a free slot of the block (case 'no free slot' -> HTInew_dd_block: hfiledd_u.c)"]))
for _n in (3, 4):
    ob(f"Hnumber_n{_n}", "C12", entry="h_Hnumber", enforce="Hnumber", defines=[f"API_NDDS={_n}"], mode="bounded",
       bound=f"one DD block of {_n} descriptors (real HTIcount_dd inlined)", unwind=_n + 2, **dict(A, cex_unwind=_n + 2))
ob("Hfind", "C12", entry="h_Hfind", enforce="Hfind", replace=["HTIfind_dd"], defines=["H4V_OB_FIND"],
   **dict(A, trusted=A["trusted"] + ["HTIfind_dd by contract: oracle with call log (search contract checked bounded in hfiledd_dir_u.c)"]))

/* Verification unit: mfhdf/src/putget.c NC_fill_buffer (C03: "cells never written hold the dataset's fill value
   (the user-set one if set ..., otherwise the type's default)").  NC_fill_buffer(handle, varid, edges, values) is
   what pre-fills the caller's buffer before a read (ncvarget) so that cells the file does not hold come back as fill.
   HDmemfill and NC_arrayfill are proved on their own (fill_u.c, fill_arr_u.c); here they are logging stubs that
   check their arguments, and the contract is about WHICH of them has the last word on the buffer:
     - a _FillValue attribute on the variable: the buffer ends up filled by HDmemfill(values, attribute value,
       vp->szof, product of the edges) and the type default is NOT applied on top of it;
     - no attribute: NC_arrayfill(values, product * szof, vp->type).
   Bound: rank 0..2, edges 0..4 (product of symbolic edges by case split), element size FB_W constant. */
#include "h4v.h"
#include "h4v_err.h"
#include "nc_priv.h"

#ifndef FB_W
#define FB_W 4
#endif

H4V_DECL_ND(int);
H4V_DECL_ND(unsigned);
typedef long h4v_long;
H4V_DECL_ND(h4v_long);

const char *cdf_routine_name;
void NCadvise(int err, const char *fmt, ...) {}
void nc_serror(const char *fmt, ...) {}

/* ------------------------------------------------------------------ ghost state */
int       g_last;     /* who wrote the buffer last: 0 nobody, 1 HDmemfill (user value), 2 NC_arrayfill (default) */
int       g_mf_n;     /* HDmemfill calls */
int       g_af_n;     /* NC_arrayfill calls */
int       g_argbad;   /* some fill call had arguments other than the expected ones */
int       g_have_attr;
int       g_lookup_fail;
long      g_cells;    /* product of the edges (harness-computed) */
void     *g_values;   /* the caller's buffer */
NC_var   *g_vp;
NC_attr  *g_attr;
NC_attr **g_attrp;

NC_var *
NC_hlookupvar(NC *handle, int varid)
{
    return g_lookup_fail ? NULL : g_vp;
}

NC_attr **
NC_findattr(NC_array **ap, const char *name)
{
    H4V_CHECK(ap == &g_vp->attrs, "NC_findattr on the variable's attribute list");
    H4V_CHECK(name[0] == '_' && name[1] == 'F' && name[4] == 'l' && name[5] == 'V' && name[10] == 0, "looks up _FillValue");
    return g_have_attr ? g_attrp : NULL;
}

void *
HDmemfill(void *dest, const void *src, uint32 item_size, uint32 num_items)
{
    g_mf_n++;
    g_last = 1;
    if (dest != g_values || src != (const void *)g_attr->data->values || item_size != FB_W || (long)num_items != g_cells)
        g_argbad = 1;
    return dest;
}

void
NC_arrayfill(void *lo, size_t len, nc_type type)
{
    g_af_n++;
    g_last = 2;
    if (lo != g_values || len != (size_t)g_cells * FB_W || type != g_vp->type)
        g_argbad = 1;
}

/* ghost globals named by loops/putget.loops (injected into every scratch copy of putget.c; not used here) */
int g_d, g_nr0, g_hw_n, g_hw_ok, g_iofail;

#include "putget.c"

int NC_fill_buffer(NC *handle, int varid, const long *edges, void *values)
    __CPROVER_requires(handle != NULL && edges != NULL && values != NULL && values == g_values)
    __CPROVER_requires(g_last == 0 && g_mf_n == 0 && g_af_n == 0 && g_argbad == 0)
    __CPROVER_assigns(g_last, g_mf_n, g_af_n, g_argbad)
    /* no such variable: -1 and the buffer is not touched */
    __CPROVER_ensures((handle->vars == NULL || g_lookup_fail) ==> (__CPROVER_return_value == -1 && g_last == 0))
    __CPROVER_ensures(!(handle->vars == NULL || g_lookup_fail) ==> __CPROVER_return_value == 0)
    /* the user-set fill value wins: it is what the buffer holds at the end */
    __CPROVER_ensures((!(handle->vars == NULL || g_lookup_fail) && g_have_attr) ==> (g_last == 1 && g_mf_n == 1 && g_af_n == 0))
    /* otherwise the type's default */
    __CPROVER_ensures((!(handle->vars == NULL || g_lookup_fail) && !g_have_attr) ==> (g_last == 2 && g_af_n == 1 && g_mf_n == 0))
    /* with the variable's own element size, over exactly the requested number of cells */
    __CPROVER_ensures(g_argbad == 0);

#ifdef H4V_NATIVE
#include "h4v_native_wrap.h"
#endif

void
h_NC_fill_buffer(void)
{
    static NC       nc;
    static NC_array vars, attrs, adata;
    static NC_var   var;
    static NC_iarray assoc;
    static NC_attr  attr;
    static int      dimids[2];
    static long     edges[2];
    static uint8_t  fillval[8];
    static uint8_t  buf[8];

    g_last = g_mf_n = g_af_n = g_argbad = 0;
    H4V_ND(int, have_attr);
    H4V_ND(int, lookup_fail);
    H4V_ND(int, no_vars);
    H4V_ND(unsigned, rank);
    H4V_ND(h4v_long, e0);
    H4V_ND(h4v_long, e1);
    H4V_ND(int, vtype);
    H4V_ASSUME(rank <= 2 && e0 >= 0 && e0 <= 4 && e1 >= 0 && e1 <= 4);
    H4V_ASSUME(vtype >= NC_BYTE && vtype <= NC_DOUBLE);
    g_have_attr   = have_attr != 0;
    g_lookup_fail = lookup_fail != 0;
    edges[0]      = e0;
    edges[1]      = e1;
    /* product by case split (no symbolic multiplication) */
    long p1 = e1 == 0 ? 0 : e1 == 1 ? e0 : e1 == 2 ? e0 + e0 : e1 == 3 ? e0 + e0 + e0 : e0 + e0 + e0 + e0;
    g_cells = rank == 0 ? 1 : rank == 1 ? e0 : p1;

    assoc.count  = rank;
    assoc.values = dimids;
    adata.type   = (nc_type)vtype;
    adata.szof   = FB_W;
    adata.count  = 1;
    adata.values = fillval;
    attr.data    = &adata;
    g_attr       = &attr;
    g_attrp      = &g_attr;
    var.assoc    = &assoc;
    var.attrs    = have_attr ? &attrs : NULL;
    var.type     = (nc_type)vtype;
    var.szof     = FB_W;
    g_vp         = &var;
    nc.vars      = no_vars ? NULL : &vars;
    g_values     = buf;

    int r = NC_fill_buffer(&nc, 0, edges, buf);
    H4V_COVER(r == -1, "no such variable");
    H4V_COVER(r == 0 && g_have_attr, "user-set fill value");
    H4V_COVER(r == 0 && !g_have_attr, "default fill value");
    H4V_COVER(r == 0 && rank == 2 && g_cells == 12, "rank 2, 12 cells");
    H4V_CANARY("NC_fill_buffer end");
}
